// Package c04: heapz heaps behave as priority queues with stable element handles
// (heapz/adjustment.go, heap.go, slice.go, std_heap.go, iter.go).
//
// Three case kinds (T = int; a value is key*1000 + tag, the tag makes ties distinguishable):
//
//	@ C04 slice <cmp> v…     Slice[int] from FromSlice          ops: push pop peek len rm fix set setfix popall popalln seq range rangeall popallbody pull next stop
//	@ C04 slicen <cmp> <cap> Slice[int] from NewSlice(cap,·)    ops: as slice
//	@ C04 heap <cmp> [<capA> <capB> [zv]]   two Heap[int] A, B from New(cap,·) (zv: zero values, Init comes first)
//	                                        ops: init initc push pushe pop peek len rm fix setv setfix setrm popall popalln seq range rangeall copyrm copyfix popallbody pull next stop
//	@ C04 generic <cmp> v…   generic functions on a recording container   ops: init push pop rm fix set
//
// `seq [A|B]` is `q := h.PopAll()` kept in the next slot (0,1,2…); `range <slot> <k>` / `rangeall <slot>` range
// over the STORED q like popalln / popall do over a fresh one (a Seq is the heap's identity: every range
// pops from what the heap holds then). `copyrm/copyfix <A|B> <e>` = `c := *h; c.Remove(e)` / `c.Fix(e)`:
// a copy is another Heap object, every handle is foreign to it, nothing may change.
//
// Wave 5: `popallbody [A|B] <k> <item>…` ranges over PopAll() with a loop body that uses the heaps (body.go);
// `pull <slot>` = `next, stop := iter.Pull(q_slot)` (cursor 0,1,2…), `next <cur>`, `stop <cur>`.
//
// Wave 6: `setrm <A|B> <e> <v>` = `el[e].Value = v; h.Remove(el[e])` — the value changes behind the heap's back
// and the element is removed without a Fix in between (the package documents Fix as "equivalent to, but less
// expensive than, calling Remove followed by a Push of the new value"); the same as the two lines `setv <e> <v>`,
// `rm <H> <e>` / `set <i> <v>`, `rm <i>` (slice, generic). After Remove of the ONE changed element the heap is
// in order again whatever v is; every other call on a heap holding a misplaced element is the caller's misuse.
//
// `popalln [A|B] <k>` (k >= 1) is `for x := range PopAll() { got = append(got, x); if len(got) == k { break } }`:
// the consumer leaves the loop early (the model: k Pops, stopping at the first empty answer).
//
// After every operation both sides print the whole observable state: Slice.Values / Len() of
// both heaps plus Index() and Value of every element ever allocated / every Less and Swap call
// the generic function made plus the container's data.
package c04

import (
	"fmt"
	"strconv"
	"strings"

	"verifharness/internal/core"
)

func cmpOf(name string) func(a, b int) bool {
	switch name {
	case "lt":
		return func(a, b int) bool { return a < b }
	case "gt":
		return func(a, b int) bool { return a > b }
	case "key":
		return func(a, b int) bool { return a/1000 < b/1000 }
	case "rkey":
		return func(a, b int) bool { return a/1000 > b/1000 }
	}
	return nil
}

func init() {
	core.Register(&core.Prop{
		ID:       "C04",
		Title:    "heapz heaps behave as priority queues with stable element handles",
		Quick:    15000,
		Thorough: 600000,
		Gen:      gen,
		Corpus:   corpus,
		Impl:     impl,
		Check:    check,
		NonTrivial: func(c core.Case, out []string) bool {
			n := 0
			for _, l := range c.Lines[1:] {
				if strings.HasPrefix(l, "rm ") || strings.HasPrefix(l, "fix ") || strings.HasPrefix(l, "setfix ") || strings.HasPrefix(l, "setrm ") {
					n++
				}
			}
			return n >= 1 && len(c.Lines) >= 6
		},
		Rule: "op sequences on Slice[int] / two Heap[int] with element handles (incl. PushElement of a detached handle into either heap, Value write + Fix) / the generic Init/Push/Pop/Remove/Fix on a recording container; " +
			"keys from {0..5} (many ties, tags make equal keys distinguishable), in part all keys equal / two keys / 0..60; 0..9 elements, one case in ten 10..40; comparators lt/gt/key/rkey; " +
			"PopAll drained and left early after k elements (popalln, k aimed at 1, n/2, n-1, n, n+3); stream `large` (1.5% of the cases in quick, 0.5% in thorough): the container is created with 63/64/65/100/127/128/129/200/255/256/257/500/999/1000/1001/1024/1025/2000 elements and gets <= 10 ops (early-left PopAll with small and large k, Pop/Push/Remove/Fix at root, last slot, middle); " +
			"handle ops 85% live (aimed at the last slot, the root, removals whose substitute moves up), 10% stale (popped/removed/discarded by Init), 5% of the other heap; indices -1..len; " +
			"wave 4: heaps made by New(cap,·) with cap from {0,1,2,3,7,8,9,64,100} (pushes cross it while handles are held; in `large` 63/64/100 crossed by 63..129 pushes) or as zero values + Init, slices by NewSlice(cap,·) (`slicen`); Seq values (`seq` = q := PopAll()) made early (45% of the heap cases, 40% of the slice cases, 60% of the large ones) and ranged over late (`range`/`rangeall` on the stored q): again, after an early break, after push/pushe/rm/setfix, after Init of that heap with the same / another comparator (an Init of a heap with a held Seq is followed by a range over it 70% of the time), while the other heap changes; Remove/Fix on a struct copy of a heap (`copyrm`/`copyfix`, handle 85% live in the original); a handle discarded by an Init with another comparator is re-pushed into the OTHER heap (75% of those Inits) and then removed/fixed/popped there; " +
			"wave 5: `popallbody` (6 in ~100 ops; in `large` 12 in ~130): PopAll ranged over with a loop body that uses the heaps — 0..6 calls (Push / Peek / Len / Pop / Remove / Fix, 22% on the OTHER heap) placed in the iterations 0, 1, 2, n/2, n-1 and the one the loop is left in (k = 0: drain, 45%; else k aimed like popalln): pushes of a value that PRECEDES the element just yielded (26% of the calls, often followed by a Peek), of a later one, Peek right after the yield, Remove/Fix of a live handle / the one the next iteration would yield / the one just yielded / stale / foreign ones, calls written for iterations that never run; " +
			"iter.Pull cursors over held Seq values (`pull`/`next`/`stop`): made early (also before the heap has elements) or in the middle, mostly two (sometimes three, over the same Seq or over A's and B's) that alternate (65% another cursor than the last time) between push/pop/rm/setfix/init/initc/range/popallbody lines, next() after stop(), next() of a cursor that met the empty heap after a new push (half of those exhaustions are followed by push + next); " +
			"non-trivial = at least 5 ops including a Remove or Fix; distinct by hash of the op list",
		Classify: classify,
		Parallel: true,
		Extras: []core.Extra{
			{Name: "popall-early-stop", Run: extraEarlyStop},
			{Name: "seq-reuse", Run: extraSeqReuse},
			{Name: "independent-objects", Run: worldExtra("independent-objects")},
			{Name: "results-ledger", Run: worldExtra("results-ledger")},
			{Name: "generic-after-panic", Run: extraGenericAfterPanic},
			{Name: "zero-size", Run: extraZeroSize},
			{Name: "type-matrix", Run: extraTypeMatrix},
			{Name: "parallel-independent", Run: extraParallel},
		},
		Assumptions: []string{
			"Lean model: Go int treated as unbounded (the `j1 < 0` overflow guard of down / std_down is never taken); on the Go side the guard is exercised by Extra zero-size (containers of 2^62 .. MaxInt elements that cost no memory: Slice[struct{}], a virtual container for the generic functions)",
			"the line protocol instantiates T = int; other element types (string, float64 incl. NaN under a strict weak order, structs, any with uncomparable values, pointers, struct{}) and comparators under which distinguishable elements compare equal are covered Go-only by Extra type-matrix; a comparator that is not a strict weak order (plain < on float64 with NaN) is outside the property",
			"a Value changed behind the heap's back is repaired by Fix of that element or ended by Remove of that element (documented: Fix is equivalent to Remove followed by a Push of the new value); any other call on a heap holding a misplaced element is the caller's misuse and not judged",
			"one object is used by one goroutine at a time (Extra parallel-independent: objects owned by different goroutines do not influence each other); concurrent use of ONE object is outside the property",
			"PushElement is reached through Push and with handles that are in no heap (popped / removed / discarded by Init); an element still in a heap is undocumented misuse",
			"the capacity region of Slice.Values beyond len (zeroed by Pop/Remove) is not observed",
			"generic functions: an index outside the container panics inside the caller's Swap/Less (container/heap semantics); the oracle does not judge those calls (Extra generic-after-panic: the container's data is unchanged by such a call and later valid calls behave per the reference)",
			"a zero Heap is used only after Init; struct copies of NON-EMPTY heaps / of heaps with spare capacity share the backing array by Go slice semantics: on those only Len/Peek and Remove/Fix with the original's handles (foreign to the copy: ignored) are called; copies of empty capacity-0 heaps are used as independent objects",
			"comparators are strict weak orders that do not panic (nothing is promised after a comparator panic)",
		},
	})
}

func kind(c core.Case) string {
	h := core.Toks(c.Lines[0])
	if len(h) >= 3 {
		return h[2]
	}
	return ""
}

func gen(r *core.Rand, tier string) core.Case {
	// stream "large" (containers of 63..2000 elements, few ops): 1.5% of the cases in quick
	// (~300), 0.5% in thorough (~4000)
	large := 15
	if tier == "thorough" {
		large = 5
	}
	switch r.Pick(large, 350-large, 450, 200) {
	case 0:
		return genLarge(r, tier)
	case 1:
		return genSlice(r)
	case 2:
		return genHeap(r)
	}
	return genGeneric(r)
}

func impl(c core.Case) []string {
	switch kind(c) {
	case "slice", "slicen":
		return implSlice(c)
	case "heap":
		return implHeap(c)
	case "generic":
		return implGeneric(c)
	}
	out := make([]string, len(c.Lines))
	for i := range out {
		out[i] = "bad-op"
	}
	return out
}

func check(c core.Case, out []string) *core.Failure {
	switch kind(c) {
	case "slice", "slicen":
		return checkSlice(c, out)
	case "heap":
		return checkHeap(c, out)
	case "generic":
		return checkGeneric(c, out)
	}
	return nil
}

func classify(c core.Case, out []string) []string {
	ls := classifyCase(c, out)
	if c.Tag == "large" {
		// which branches the BIG containers took
		for _, l := range ls {
			if len(l) > 2 && l[1] == ':' && (strings.Contains(l, ":rm") || strings.Contains(l, ":fix") || strings.Contains(l, ":setfix") || strings.Contains(l, ":setrm") || strings.Contains(l, ":push:") || strings.Contains(l, ":popalln:") || strings.Contains(l, ":popall:") || strings.Contains(l, ":range") || strings.Contains(l, ":seq") || strings.Contains(l, ":copy") || strings.Contains(l, ":popallbody") || strings.Contains(l, ":pull") || strings.Contains(l, ":next")) {
				ls = append(ls, "large:"+l)
			}
		}
	}
	return ls
}

func classifyCase(c core.Case, out []string) []string {
	k := kind(c)
	ls := []string{k}
	if k == "slicen" {
		// NewSlice(cap, ·): a slice case that starts empty
		k = "slice"
		ls = []string{k, "s:newslice"}
		if h := core.Toks(c.Lines[0]); len(h) == 5 && h[4] != "0" {
			ls = append(ls, "s:newslice:cap>0")
		}
	}
	if h := core.Toks(c.Lines[0]); len(h) >= 4 {
		ls = append(ls, "cmp:"+h[3])
	}
	if c.Tag == "large" {
		ls = append(ls, "large", "large:"+k)
	}
	if k == "heap" {
		return append(ls, classifyHeap(c, out)...)
	}
	if k != "slice" && k != "generic" {
		return ls
	}
	// slice / generic: the state is the printed array; values carry distinct tags, so the
	// element that a Remove / Fix moved can be followed by its value
	arrOf := func(l string) ([]int, bool) {
		j := strings.LastIndex(l, "[")
		if j < 0 {
			return nil, false
		}
		return parseInts(l[j:])
	}
	find := func(v []int, x int) int {
		for i, y := range v {
			if y == x {
				return i
			}
		}
		return -1
	}
	move := func(before, after int) string {
		switch {
		case after < 0:
			return ":?"
		case after < before:
			return ":up"
		case after > before:
			return ":down"
		}
		return ":stay"
	}
	p := k[:1] + ":"
	prev, _ := arrOf(out[0])
	maxLen := len(prev)
	ls = append(ls, p+"n0="+sizeBucket(len(prev)))
	// Seq slots (slice kind): when made, how often ranged over, whether the last range was left early
	type seqInfo struct {
		made, ranged, partial int
		lastPartial, mutated  bool
	}
	var seqs []*seqInfo
	// iter.Pull cursors (slice kind)
	type curInfo struct {
		nexts         int
		done          bool
		how           string
		mutated, last bool
	}
	var curs []*curInfo
	var cmpf func(a, b int) bool
	if h := core.Toks(c.Lines[0]); len(h) >= 4 {
		cmpf = cmpOf(h[3])
	}
	for i := 1; i < len(c.Lines) && i < len(out); i++ {
		t := core.Toks(c.Lines[i])
		if len(t) == 0 {
			continue
		}
		lab := p + t[0]
		if out[i] == "panic" || out[i] == "dead" || out[i] == "bad-op" {
			ls = append(ls, lab+":"+out[i])
			continue
		}
		cur, ok := arrOf(out[i])
		if !ok {
			ls = append(ls, lab)
			continue
		}
		n := len(prev)
		opName := t[0]
		if k == "slice" && ((t[0] == "range" && len(t) == 3) || (t[0] == "rangeall" && len(t) == 2)) {
			sl, ok := slotOf(t[1], len(seqs))
			if !ok {
				continue
			}
			q := seqs[sl]
			if q.ranged > 0 {
				ls = append(ls, p+"range:again")
			}
			if q.lastPartial {
				ls = append(ls, p+"range:after-break")
			}
			if q.mutated {
				ls = append(ls, p+"range:after-mutation")
			}
			if i-q.made >= 6 {
				ls = append(ls, p+"range:held>=6-ops")
			}
			if n >= 64 {
				ls = append(ls, p+"range:n>=64")
			}
			if n == 0 {
				ls = append(ls, p+"range:empty")
			}
			q.ranged++
			for _, o := range curs {
				o.mutated = true
			}
			q.lastPartial = len(cur) > 0
			if q.lastPartial {
				q.partial++
				if q.partial >= 2 {
					ls = append(ls, p+"range:partial-again")
				}
			}
			if t[0] == "range" {
				t = []string{"popalln", t[2]}
			} else {
				t = []string{"popall"}
			}
		} else if k == "slice" {
			switch t[0] {
			case "seq":
				seqs = append(seqs, &seqInfo{made: i})
				ls = append(ls, p+"seq:n="+sizeBucket(n))
				if len(seqs) >= 2 {
					ls = append(ls, p+"seq:several-held")
				}
			case "push", "pop", "rm", "setfix", "set":
				for _, q := range seqs {
					q.mutated = true
				}
				for _, q := range curs {
					q.mutated = true
				}
			case "popall", "popalln", "popallbody":
				for _, q := range curs {
					q.mutated = true
				}
			case "pull":
				if _, ok := slotOf(t[1], len(seqs)); !ok {
					break
				}
				ls = append(ls, p+"pull:n="+sizeBucket(n))
				if n == 0 {
					ls = append(ls, p+"pull:empty-heap")
				}
				if len(curs) >= 1 {
					ls = append(ls, p+"pull:several-cursors")
				}
				curs = append(curs, &curInfo{})
			case "stop":
				cn, ok := slotOf(t[1], len(curs))
				if !ok {
					break
				}
				q := curs[cn]
				switch {
				case q.done:
					ls = append(ls, p+"stop:finished-cursor")
				case q.nexts == 0:
					ls = append(ls, p+"stop:never-started")
				default:
					ls = append(ls, p+"stop:active")
				}
				if !q.done {
					q.done, q.how = true, "stop"
				}
			case "next":
				cn, ok := slotOf(t[1], len(curs))
				if !ok {
					break
				}
				q := curs[cn]
				active := 0
				for j, o := range curs {
					if j != cn && !o.done {
						active++
					}
				}
				if q.done {
					ls = append(ls, p+"next:after-"+q.how)
					if n > 0 {
						ls = append(ls, p+"next:after-"+q.how+":heap-nonempty")
					}
				} else {
					if active > 0 {
						ls = append(ls, p+"next:two-cursors")
					}
					if active >= 2 {
						ls = append(ls, p+"next:three-cursors")
					}
					if !q.last && q.nexts > 0 && active > 0 {
						ls = append(ls, p+"next:alternating")
					}
					if q.nexts == 0 {
						ls = append(ls, p+"next:first")
					}
					if q.mutated {
						ls = append(ls, p+"next:after-mutation")
					}
					if n >= 64 {
						ls = append(ls, p+"next:n>=64")
					}
					if n == 0 {
						ls = append(ls, p+"next:empty-finishes")
						q.done, q.how = true, "exhaustion"
					} else {
						ls = append(ls, p+"next:yield")
						for _, o := range seqs {
							o.mutated = true
						}
						for j, o := range curs {
							if j != cn {
								o.mutated = true
							}
						}
					}
					q.nexts++
					q.mutated = false
				}
				for j, o := range curs {
					o.last = j == cn
				}
			}
			if t[0] == "popallbody" && len(t) >= 2 {
				stop, ok1 := natTok(t[1])
				items, ok2 := parseBodyItems(t[2:], false, 0)
				var ys []int
				ok3 := false
				if j := strings.LastIndex(out[i], "["); j > 0 {
					ys, _, ok3 = parseTwoLists(out[i][:j])
				}
				if ok1 && ok2 && ok3 {
					q := p + "popallbody"
					ls = append(ls, q+":n="+sizeBucket(n))
					if stop == 0 {
						ls = append(ls, q+":k=0")
					} else {
						ls = append(ls, q+":k>0", q+":"+stopLabel(stop, n))
					}
					if len(cur) > 0 {
						ls = append(ls, q+":partial")
					}
					if n >= 64 {
						ls = append(ls, q+":n>=64")
					}
					switch {
					case len(items) == 0:
						ls = append(ls, q+":items=0")
					case len(items) <= 2:
						ls = append(ls, q+":items=1-2")
					default:
						ls = append(ls, q+":items=3+")
					}
					if len(ys) > n {
						ls = append(ls, q+":yields>n(pushed-elements-yielded)")
					}
					script, _ := byIteration(items)
					ran := 0
					for yi, v := range ys {
						if len(script[yi]) > 0 {
							switch {
							case yi == 0:
								ls = append(ls, q+":body@first")
							case yi == len(ys)-1:
								ls = append(ls, q+":body@last")
							case yi >= 3:
								ls = append(ls, q+":body@middle")
							}
						}
						for bi, b := range script[yi] {
							ran++
							ls = append(ls, q+":"+b.act)
							switch b.act {
							case "push":
								switch {
								case cmpf == nil:
								case cmpf(b.arg, v):
									ls = append(ls, q+":push-preceding")
									if n >= 64 {
										ls = append(ls, q+":push-preceding:n>=64")
									}
								case cmpf(v, b.arg):
									ls = append(ls, q+":push-following")
								default:
									ls = append(ls, q+":push-tie")
								}
							case "peek":
								if bi == 0 {
									ls = append(ls, q+":peek-right-after-yield")
								} else if script[yi][bi-1].act == "push" {
									ls = append(ls, q+":peek-after-push")
								}
							case "rm", "fix":
								switch {
								case b.arg < 0 || b.arg > n+len(items):
									ls = append(ls, q+":"+b.act+":out-of-range")
								case b.arg == 0:
									ls = append(ls, q+":"+b.act+":root")
								}
							}
						}
					}
					if ran < len(items) {
						ls = append(ls, q+":items-of-iterations-that-never-ran")
					}
				}
			}
		}
		switch t[0] {
		case "rm", "fix":
			if tail(out[i]) == tail(out[i-1]) {
				lab += ":unchanged"
			}
			ix, ok := atoi(t[len(t)-1])
			if !ok {
				break
			}
			if ix < 0 || ix >= n {
				ls = append(ls, lab+":range")
				break
			}
			if t[0] == "fix" {
				ls = append(ls, p+"fix"+move(ix, find(cur, prev[ix])))
				break
			}
			if n == 1 {
				ls = append(ls, p+"rm:single")
			}
			// after-set: `set ix v` is the line before (Values[ix] = v, no Fix, then Remove(ix))
			after := ""
			if q := core.Toks(c.Lines[i-1]); i > 1 && len(q) == 3 && q[0] == "set" && q[1] == t[1] {
				after = p + "rm:after-set"
				ls = append(ls, after)
			}
			if ix == n-1 {
				ls = append(ls, p+"rm:last")
				if after != "" {
					ls = append(ls, after+":last")
				}
			} else {
				mv := move(ix, find(cur, prev[n-1]))
				ls = append(ls, p+"rm"+mv)
				if after != "" {
					// which way the substitute went / which way a comparison of it with the NEW
					// value of the removed element would have pointed
					ls = append(ls, after+mv)
					if ix == 0 {
						ls = append(ls, after+":root")
					}
					if cmpf != nil {
						pointsUp := cmpf(prev[n-1], prev[ix])
						switch {
						case mv == ":down" && pointsUp:
							ls = append(ls, after+":down-though-substitute-precedes-new-value")
						case mv == ":up" && !pointsUp:
							ls = append(ls, after+":up-though-substitute-does-not-precede-new-value")
						}
					}
					if n >= 64 {
						ls = append(ls, after+":n>=64")
					}
				}
			}
		case "setfix":
			ix, ok1 := atoi(t[1])
			v, ok2 := atoi(t[len(t)-1])
			if ok1 && ok2 && ix >= 0 && ix < n {
				ls = append(ls, p+"setfix"+move(ix, find(cur, v)))
			}
		case "pop":
			switch n {
			case 0:
				ls = append(ls, p+"pop:empty")
			case 1:
				ls = append(ls, p+"pop:single")
			}
		case "peek":
			if n == 0 {
				ls = append(ls, p+"peek:empty")
			}
		case "push":
			if len(cur) == n+1 {
				if x, ok := atoi(t[1]); ok {
					ls = append(ls, p+"push"+move(n, find(cur, x)))
				}
			}
		case "popall":
			ls = append(ls, p+opName+":n="+sizeBucket(n))
		case "popalln":
			ls = append(ls, p+opName+":n="+sizeBucket(n))
			if stop, ok := atoi(t[len(t)-1]); ok {
				ls = append(ls, p+opName+":"+stopLabel(stop, n))
			}
			if len(cur) > 0 {
				ls = append(ls, p+opName+":partial")
				if n >= 64 {
					ls = append(ls, p+opName+":partial:n>=64")
				}
			}
		}
		ls = append(ls, lab)
		prev = cur
		if len(cur) > maxLen {
			maxLen = len(cur)
		}
	}
	ls = append(ls, sizeLabels(maxLen)...)
	return append(ls, p+"maxlen="+sizeBucket(maxLen))
}

// tail is the state part of an output line (after the result token(s)).
func tail(l string) string {
	if i := strings.Index(l, " | "); i >= 0 {
		return l[i:]
	}
	if i := strings.Index(l, "["); i >= 0 {
		if j := strings.LastIndex(l, "["); j >= 0 {
			return l[j:]
		}
	}
	return l
}

func parseInts(s string) ([]int, bool) {
	s = strings.TrimSpace(s)
	if !strings.HasPrefix(s, "[") || !strings.HasSuffix(s, "]") {
		return nil, false
	}
	f := strings.Fields(s[1 : len(s)-1])
	r := make([]int, len(f))
	for i, x := range f {
		v, err := strconv.Atoi(x)
		if err != nil {
			return nil, false
		}
		r[i] = v
	}
	return r, true
}

// heapOrdered: no child precedes its parent.
func heapOrdered(v []int, cmp func(a, b int) bool) (int, bool) {
	for j := 1; j < len(v); j++ {
		if cmp(v[j], v[(j-1)/2]) {
			return j, false
		}
	}
	return 0, true
}

func sameMultiset(a, b []int) bool {
	if len(a) != len(b) {
		return false
	}
	m := map[int]int{}
	for _, x := range a {
		m[x]++
	}
	for _, x := range b {
		m[x]--
		if m[x] < 0 {
			return false
		}
	}
	return true
}

func removeOne(a []int, x int) ([]int, bool) {
	for i, y := range a {
		if y == x {
			return append(append([]int{}, a[:i]...), a[i+1:]...), true
		}
	}
	return a, false
}

// sortedBy: no later element precedes an earlier one.
func sortedBy(v []int, cmp func(a, b int) bool) bool {
	if len(v) > 96 {
		// big: neighbours only (the same thing for a strict weak order, which all four comparators are)
		return sortedAdj(v, cmp)
	}
	for i := 0; i < len(v); i++ {
		for j := i + 1; j < len(v); j++ {
			if cmp(v[j], v[i]) {
				return false
			}
		}
	}
	return true
}

func fail(key string, i int, c core.Case, out []string, f string, a ...any) *core.Failure {
	return &core.Failure{Key: key, Desc: fmt.Sprintf("op %d %q -> %q: ", i, c.Lines[i], out[i]) + fmt.Sprintf(f, a...)}
}

func corpus() []core.Case {
	return append(smallCorpus(), largeCorpus()...)
}

func smallCorpus() []core.Case {
	return []core.Case{
		{Lines: []string{"@ C04 slice key 5000 3001 4002 3003 1004 3005", "push 2006", "pop", "rm 2", "set 1 9001", "fix 1", "rm -1", "rm 4", "rm 3", "fix -1", "fix 3", "peek", "len", "popall", "pop", "peek", "rm 0"}},
		{Lines: []string{"@ C04 slice lt", "pop", "peek", "rm 0", "fix 0", "push 3", "rm 0", "push 2", "push 1", "rm 1", "pop", "pop"}},
		{Lines: []string{"@ C04 slice rkey 1000 1001 1002 1003 1004 1005 1006", "rm 3", "rm 0", "set 0 0", "fix 0", "set 4 5004", "fix 4", "popall"}},
		{Lines: []string{"@ C04 heap key", "init A 5000 3001 3002", "push A 1003", "push B 2004", "rm A 4", "rm A 1", "rm A 1", "setv 0 0", "fix A 0", "fix B 0", "pop A", "peek A", "popall A", "pop A", "peek A", "rm B 4", "rm B 4", "fix B 4"}},
		{Lines: []string{"@ C04 heap lt", "pop A", "peek B", "push A 5", "push A 5", "push A 5", "rm A 1", "rm A 0", "rm A 2", "rm A 2", "len A"}},
		{Lines: []string{"@ C04 heap rkey", "init A 1000 2001 3002 4003 5004 1005 2006", "init B 1007 1008", "rm A 3", "rm A 0", "rm B 0", "setv 6 9006", "fix A 6", "setv 5 0", "fix A 5", "popall A", "popall B"}},
		// finding F13: Init on a non-empty heap must detach the elements it discards
		{Lines: []string{"@ C04 heap lt", "init A 10 20 30", "peek A", "init A 1 2 3", "rm A 0", "len A", "popall A"}},
		// a popped handle is re-pushed into the OTHER heap: the old owner ignores it, the new one
		// removes / fixes / pops by it; then back again
		{Lines: []string{"@ C04 heap lt", "push A 5", "push A 3", "push A 7", "pop A", "pushe B 1", "rm A 1", "fix A 1", "len B", "setfix B 1 9", "push B 4", "pop B", "rm B 1", "rm B 1", "pushe A 1", "setfix A 1 1", "peek A", "pop A", "rm A 1", "pushe A 1", "pushe B 3", "popall A", "popall B"}},
		// Remove: substitute travels up (index 3, last = 4 under parent 10), the last slot, a heap of one; Pop of a heap of one
		{Lines: []string{"@ C04 heap lt", "init A 1 10 2 11 12 3 4", "rm A 3", "rm A 5", "rm A 0", "pop A", "pop A", "rm A 4", "len A", "pop A", "pop A", "push A 8", "rm A 7", "rm A 7", "peek A"}},
		// Init over a non-empty heap while B keeps its handles; handles the Init discarded are stale, can be re-pushed
		{Lines: []string{"@ C04 heap key", "init A 1000 2001 3002", "init B 5003 6004", "init A 1005 2006 3007", "rm A 0", "fix A 1", "setfix A 2 8", "pushe A 2", "rm B 3", "pop B", "pushe B 0", "init B", "rm B 0", "fix B 4", "len A", "popall A", "popall B"}},
		// Init with another comparator than New got / than the previous Init; B keeps the header's
		{Lines: []string{"@ C04 heap lt", "init A 1 2 3 4 5", "push B 7", "push B 6", "initc A gt 1 2 3 4 5 6", "peek A", "push A 9", "pop A", "peek B", "setfix A 3 0", "rm A 5", "pushe B 5", "peek B", "initc A rkey 1000 2001 2002 7003", "pop A", "pop A", "init A 3 1 2", "pop A", "popall A", "popall B"}},
		// all keys equal (nothing ever has to move), 20 elements
		{Lines: []string{"@ C04 heap lt", "init A 5 5 5 5 5 5 5 5 5 5 5 5 5 5 5 5 5 5 5 5", "rm A 7", "rm A 19", "pop A", "setfix A 3 5", "pushe A 7", "rm A 0", "fix A 12", "len A", "popall A"}},
		// depth 5: the root sinks to a leaf, a leaf climbs to the root, removal in the middle
		{Lines: []string{"@ C04 heap gt", "init A 1 2 3 4 5 6 7 8 9 10 11 12 13 14 15 16 17 18 19 20 21 22", "peek A", "setfix A 21 0", "setfix A 0 99", "rm A 10", "rm A 4", "pop A", "setfix A 15 50", "rm A 15", "pop A", "pop A", "len A", "popall A"}},
		// wave 4: zero-value heaps + Init; a Seq made early and ranged over again and again: after an
		// early break, after pushes, after an Init with another comparator, while the other heap changes
		{Lines: []string{"@ C04 heap lt 3 0 zv", "init A 5 3 8", "init B", "seq A", "range 0 1", "push A 1", "push B 9", "range 0 1", "seq B", "initc A gt 7 9 4", "range 0 1", "rm A 7", "range 1 1", "pushe B 1", "range 1 1", "rangeall 0", "push A 2", "rangeall 0", "rangeall 1", "len A", "len B"}},
		// capacities crossed while handles are held; Remove / Fix on a struct copy (every handle is foreign to it)
		{Lines: []string{"@ C04 heap key 2 1", "push A 3000", "push A 1001", "copyrm A 1", "push A 2002", "copyfix A 0", "push B 5003", "push B 4004", "copyrm A 4", "copyrm B 4", "pop A", "copyrm A 1", "copyfix A 1", "setv 0 0", "copyfix A 0", "fix A 0", "copyrm A 0", "rm A 0", "len A", "popall A", "popall B"}},
		// a handle from before an Init with another comparator goes into the OTHER heap and is used there
		{Lines: []string{"@ C04 heap lt 1 1", "init A 5 3 8", "push B 4", "initc A gt 1 2 6", "pushe B 1", "rm A 1", "fix A 0", "setfix B 1 9", "setfix B 1 0", "peek B", "pushe B 0", "pushe A 2", "peek A", "rm B 0", "pop B", "pop B", "rm B 1", "popall A", "popall B"}},
		// wave 5: the loop body uses the heaps while PopAll is ranged over (a push that precedes the element
		// just yielded is the next one yielded; the yielded element has left the heap when the body runs)
		{Lines: []string{"@ C04 heap lt", "init A 5 3 8", "popallbody A 0 0:push:A:1 0:peek:A 1:len:A 1:rm:A:2 2:push:B:7", "len A", "popall B"}},
		{Lines: []string{"@ C04 heap key 2 1", "init A 5000 3001 8002 3003", "push B 4004", "popallbody A 2 0:peek:A 0:push:A:1005 0:peek:A 0:len:A 1:rm:A:1 1:fix:A:0 1:pop:B 1:pop:B 1:push:B:9006 2:push:A:7", "peek A", "popallbody A 0 0:rm:A:0 0:rm:A:2 0:len:A 5:push:A:1", "popallbody B 1 0:push:A:2007 0:len:B", "popallbody A 0", "popallbody A 3 0:push:A:5"}},
		{Lines: []string{"@ C04 heap gt", "init A 1 2 3 4 5 6 7", "popallbody A 0 0:push:A:9 1:push:A:9 1:peek:A 3:pop:A 3:len:A 4:fix:A:0 4:rm:A:1", "len A"}},
		{Lines: []string{"@ C04 slice key 5000 3000 8000", "popallbody 2 0:push:1000 0:peek 1:len 1:rm:0", "len", "popallbody 0 0:push:9001 0:push:2 0:pop 0:rm:-1 0:rm:7 0:fix:0 1:peek 2:peek 2:pop", "popallbody 0 0:push:1", "popallbody 1"}},
		{Lines: []string{"@ C04 slice gt 1 2 3 4 5 6 7", "popallbody 0 0:push:9 1:push:9 1:peek 3:pop 3:len 4:fix:0 4:rm:1 5:rm:0", "len"}},
		// wave 6: the Value changes and the element is removed WITHOUT a Fix (setv + rm / setrm / set + rm). The
		// substitute (the last element) must be sifted by its new neighbours, not by a comparison with the value
		// the removed element carries: id 3 (index 3, under 10) gets 0 — the substitute 4 still has to go UP;
		// the root gets 99 — the substitute still has to go DOWN; stale and foreign handles: only the value changes
		{Lines: []string{"@ C04 heap lt", "init A 1 10 2 11 12 3 4", "setv 3 0", "rm A 3", "peek A", "setv 0 99", "rm A 0", "pop A", "popall A"}},
		{Lines: []string{"@ C04 heap lt", "init A 1 10 2 11 12 3 4", "push B 7", "setrm A 3 0", "setrm A 0 99", "peek A", "setrm A 3 5", "setrm B 3 6", "setrm A 7 7", "setrm B 7 1", "len B", "setrm A 6 4", "pop A", "popall A"}},
		{Lines: []string{"@ C04 heap rkey 2 1", "init A 1000 2001 3002 4003 5004 1005 2006 7007 8008", "setrm A 0 -9000", "setrm A 5 99999005", "setv 6 8006", "rm A 6", "setrm A 8 8008", "setrm A 7 1", "popall A"}},
		{Lines: []string{"@ C04 slice lt 1 10 2 11 12 3 4", "set 3 0", "rm 3", "peek", "set 0 99", "rm 0", "pop", "set 3 -5", "rm 3", "popall"}},
		{Lines: []string{"@ C04 slice key 1000 10001 2002 11003 12004 3005 4006", "set 4 4999", "rm 4", "set 0 99999000", "rm 0", "set 1 4007", "rm 1", "popall"}},
		{Lines: []string{"@ C04 generic lt 1 10 2 11 12 3 4", "init", "set 3 0", "rm 3", "set 0 99", "rm 0", "pop", "set 3 -5", "rm 3", "pop", "pop"}},
		// wave 5: iter.Pull cursors over a held Seq: one next() = one Pop of the shared heap; a cursor that met
		// the empty heap (or was stopped) stays finished, also after new pushes
		{Lines: []string{"@ C04 heap lt", "seq A", "init A 4 2", "pull 0", "pull 0", "next 0", "next 1", "next 0", "push A 9", "next 0", "stop 1", "next 1", "len A", "pull 0", "next 2", "next 2"}},
		{Lines: []string{"@ C04 heap key 1 1", "seq A", "seq B", "pull 0", "pull 1", "pull 0", "next 1", "init A 5000 3001 8002", "push B 4003", "next 0", "next 2", "rm A 0", "next 1", "next 0", "next 2", "initc A gt 1 2 3", "next 2", "stop 2", "stop 2", "next 2", "range 0 1", "next 0", "next 0", "next 0"}},
		{Lines: []string{"@ C04 slice lt 4 2", "seq", "pull 0", "pull 0", "next 0", "next 1", "next 0", "push 9", "next 0", "stop 1", "next 1", "len", "pull 0", "next 2", "next 2"}},
		{Lines: []string{"@ C04 slicen rkey 0", "seq", "pull 0", "push 3000", "push 5001", "push 1002", "next 0", "seq", "pull 1", "next 1", "setfix 0 9003", "next 0", "next 1", "next 1", "push 7", "next 1", "next 0", "stop 0", "next 0"}},
		{Lines: []string{"@ C04 slicen lt 2", "seq", "pop", "range 0 1", "push 3", "push 1", "push 2", "range 0 1", "push 0", "range 0 1", "seq", "range 1 5", "range 0 1", "push 7", "push 6", "setfix 1 0", "range 0 1", "rm 0", "rangeall 1", "rangeall 0", "len"}},
		{Lines: []string{"@ C04 slice rkey 1000 3001 2002 3003 1004", "seq", "seq", "range 0 2", "range 1 1", "push 5005", "range 0 1", "range 1 9", "push 1", "rangeall 0"}},
		{Lines: []string{"@ C04 slice lt 1 10 2 11 12 3 4", "rm 3", "rm 5", "rm 0", "pop", "pop", "pop", "len", "pop", "pop", "push 8", "rm 0", "rm 0"}},
		{Lines: []string{"@ C04 slice gt 1 2 3 4 5 6 7 8 9 10 11 12 13 14 15 16 17 18 19 20 21 22", "set 0 0", "fix 0", "set 21 99", "fix 21", "rm 10", "rm 4", "pop", "setfix 0 -5", "setfix 18 77", "setfix 3 8", "set 2 1000", "setfix 2 15", "popall", "push 1", "setfix 0 2", "pop"}},
		{Lines: []string{"@ C04 generic lt 1 10 2 11 12 3 4", "init", "rm 3", "rm 5", "rm 0", "pop", "pop", "pop", "pop", "push 8", "rm 0"}},
		{Lines: []string{"@ C04 generic lt 5 3 8 1", "init", "push 0", "pop", "rm 1", "set 0 9", "fix 0", "fix -1", "rm 7", "pop"}},
		{Lines: []string{"@ C04 generic key 3000 3001 1002 1003 2004 2005 1006", "init", "rm 6", "rm 0", "rm 2", "set 1 5", "fix 1", "pop", "pop", "pop", "pop", "pop"}},
	}
}
