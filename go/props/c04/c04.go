// Package c04: heapz heaps behave as priority queues with stable element handles
// (heapz/adjustment.go, heap.go, slice.go, std_heap.go, iter.go).
//
// Three case kinds (T = int; a value is key*1000 + tag, the tag makes ties distinguishable):
//
//	@ C04 slice <cmp> v…     Slice[int] from FromSlice          ops: push pop peek len rm fix set popall
//	@ C04 heap <cmp>         two Heap[int] A, B from New(0,·)   ops: init push pop peek len rm fix setv popall
//	@ C04 generic <cmp> v…   generic functions on a recording container   ops: init push pop rm fix set
//
// After every operation both sides print the whole observable state: Slice.Values / Len() of
// both heaps plus Index() and Value of every element ever allocated / every Less and Swap call
// the generic function made plus the container's data.
package c04

import (
	"fmt"
	"strconv"
	"strings"

	"verifharness/internal/core"
)

func cmpOf(name string) func(a, b int) bool {
	switch name {
	case "lt":
		return func(a, b int) bool { return a < b }
	case "gt":
		return func(a, b int) bool { return a > b }
	case "key":
		return func(a, b int) bool { return a/1000 < b/1000 }
	case "rkey":
		return func(a, b int) bool { return a/1000 > b/1000 }
	}
	return nil
}

func init() {
	core.Register(&core.Prop{
		ID:       "C04",
		Title:    "heapz heaps behave as priority queues with stable element handles",
		Quick:    20000,
		Thorough: 800000,
		Gen:      gen,
		Corpus:   corpus,
		Impl:     impl,
		Check:    check,
		NonTrivial: func(c core.Case, out []string) bool {
			n := 0
			for _, l := range c.Lines[1:] {
				if strings.HasPrefix(l, "rm ") || strings.HasPrefix(l, "fix ") {
					n++
				}
			}
			return n >= 1 && len(c.Lines) >= 6
		},
		Rule:     "op sequences on Slice[int] / two Heap[int] with element handles / the generic Init/Push/Pop/Remove/Fix on a recording container; keys from {0..5} (many ties, tags make equal keys distinguishable), comparators lt/gt/key/rkey; handle ops 85% live, 10% stale, 5% of the other heap; indices -1..len; non-trivial = at least 5 ops including a Remove or Fix; distinct by hash of the op list",
		Classify: classify,
		Parallel: true,
		Assumptions: []string{
			"Go int treated as unbounded (the `j1 < 0` overflow guard of down is never taken)",
			"PushElement is only reached through Push (an element already in a heap is undocumented misuse)",
			"the capacity region of Slice.Values beyond len (zeroed by Pop/Remove) is not observed",
			"generic functions: an index outside the container panics inside the caller's Swap/Less (container/heap semantics); the oracle does not judge those calls",
		},
	})
}

func kind(c core.Case) string {
	h := core.Toks(c.Lines[0])
	if len(h) >= 3 {
		return h[2]
	}
	return ""
}

func gen(r *core.Rand, tier string) core.Case {
	switch r.Pick(35, 45, 20) {
	case 0:
		return genSlice(r)
	case 1:
		return genHeap(r)
	}
	return genGeneric(r)
}

func impl(c core.Case) []string {
	switch kind(c) {
	case "slice":
		return implSlice(c)
	case "heap":
		return implHeap(c)
	case "generic":
		return implGeneric(c)
	}
	out := make([]string, len(c.Lines))
	for i := range out {
		out[i] = "bad-op"
	}
	return out
}

func check(c core.Case, out []string) *core.Failure {
	switch kind(c) {
	case "slice":
		return checkSlice(c, out)
	case "heap":
		return checkHeap(c, out)
	case "generic":
		return checkGeneric(c, out)
	}
	return nil
}

func classify(c core.Case, out []string) []string {
	k := kind(c)
	ls := []string{k}
	if h := core.Toks(c.Lines[0]); len(h) >= 4 {
		ls = append(ls, "cmp:"+h[3])
	}
	for i := 1; i < len(c.Lines) && i < len(out); i++ {
		t := core.Toks(c.Lines[i])
		if len(t) == 0 {
			continue
		}
		lab := k[:1] + ":" + t[0]
		switch {
		case out[i] == "panic" || out[i] == "dead" || out[i] == "bad-op":
			lab += ":" + out[i]
		case (t[0] == "rm" || t[0] == "fix") && tail(out[i]) == tail(out[i-1]):
			lab += ":unchanged"
		}
		ls = append(ls, lab)
	}
	return ls
}

// tail is the state part of an output line (after the result token(s)).
func tail(l string) string {
	if i := strings.Index(l, " | "); i >= 0 {
		return l[i:]
	}
	if i := strings.Index(l, "["); i >= 0 {
		if j := strings.LastIndex(l, "["); j >= 0 {
			return l[j:]
		}
	}
	return l
}

func parseInts(s string) ([]int, bool) {
	s = strings.TrimSpace(s)
	if !strings.HasPrefix(s, "[") || !strings.HasSuffix(s, "]") {
		return nil, false
	}
	f := strings.Fields(s[1 : len(s)-1])
	r := make([]int, len(f))
	for i, x := range f {
		v, err := strconv.Atoi(x)
		if err != nil {
			return nil, false
		}
		r[i] = v
	}
	return r, true
}

// heapOrdered: no child precedes its parent.
func heapOrdered(v []int, cmp func(a, b int) bool) (int, bool) {
	for j := 1; j < len(v); j++ {
		if cmp(v[j], v[(j-1)/2]) {
			return j, false
		}
	}
	return 0, true
}

func sameMultiset(a, b []int) bool {
	if len(a) != len(b) {
		return false
	}
	m := map[int]int{}
	for _, x := range a {
		m[x]++
	}
	for _, x := range b {
		m[x]--
		if m[x] < 0 {
			return false
		}
	}
	return true
}

func removeOne(a []int, x int) ([]int, bool) {
	for i, y := range a {
		if y == x {
			return append(append([]int{}, a[:i]...), a[i+1:]...), true
		}
	}
	return a, false
}

// sortedBy: no later element precedes an earlier one.
func sortedBy(v []int, cmp func(a, b int) bool) bool {
	for i := 0; i < len(v); i++ {
		for j := i + 1; j < len(v); j++ {
			if cmp(v[j], v[i]) {
				return false
			}
		}
	}
	return true
}

func fail(key string, i int, c core.Case, out []string, f string, a ...any) *core.Failure {
	return &core.Failure{Key: key, Desc: fmt.Sprintf("op %d %q -> %q: ", i, c.Lines[i], out[i]) + fmt.Sprintf(f, a...)}
}

func corpus() []core.Case {
	return []core.Case{
		{Lines: []string{"@ C04 slice key 5000 3001 4002 3003 1004 3005", "push 2006", "pop", "rm 2", "set 1 9001", "fix 1", "rm -1", "rm 4", "rm 3", "fix -1", "fix 3", "peek", "len", "popall", "pop", "peek", "rm 0"}},
		{Lines: []string{"@ C04 slice lt", "pop", "peek", "rm 0", "fix 0", "push 3", "rm 0", "push 2", "push 1", "rm 1", "pop", "pop"}},
		{Lines: []string{"@ C04 slice rkey 1000 1001 1002 1003 1004 1005 1006", "rm 3", "rm 0", "set 0 0", "fix 0", "set 4 5004", "fix 4", "popall"}},
		{Lines: []string{"@ C04 heap key", "init A 5000 3001 3002", "push A 1003", "push B 2004", "rm A 4", "rm A 1", "rm A 1", "setv 0 0", "fix A 0", "fix B 0", "pop A", "peek A", "popall A", "pop A", "peek A", "rm B 4", "rm B 4", "fix B 4"}},
		{Lines: []string{"@ C04 heap lt", "pop A", "peek B", "push A 5", "push A 5", "push A 5", "rm A 1", "rm A 0", "rm A 2", "rm A 2", "len A"}},
		{Lines: []string{"@ C04 heap rkey", "init A 1000 2001 3002 4003 5004 1005 2006", "init B 1007 1008", "rm A 3", "rm A 0", "rm B 0", "setv 6 9006", "fix A 6", "setv 5 0", "fix A 5", "popall A", "popall B"}},
		// finding F13: Init on a non-empty heap must detach the elements it discards
		{Lines: []string{"@ C04 heap lt", "init A 10 20 30", "peek A", "init A 1 2 3", "rm A 0", "len A", "popall A"}},
		{Lines: []string{"@ C04 generic lt 5 3 8 1", "init", "push 0", "pop", "rm 1", "set 0 9", "fix 0", "fix -1", "rm 7", "pop"}},
		{Lines: []string{"@ C04 generic key 3000 3001 1002 1003 2004 2005 1006", "init", "rm 6", "rm 0", "rm 2", "set 1 5", "fix 1", "pop", "pop", "pop", "pop", "pop"}},
	}
}
