package c04

import (
	"fmt"
	"strconv"
	"strings"

	"github.com/welllog/golib/heapz"

	"verifharness/internal/core"
)

// recorder implements heapz.Interface[int] on a slice and logs every Less/Swap call.
type recorder struct {
	data []int
	cmp  func(a, b int) bool
	log  []string
}

func (r *recorder) Len() int { return len(r.data) }
func (r *recorder) Less(i, j int) bool {
	r.log = append(r.log, fmt.Sprintf("L%d,%d", i, j))
	return r.cmp(r.data[i], r.data[j])
}
func (r *recorder) Swap(i, j int) {
	r.log = append(r.log, fmt.Sprintf("S%d,%d", i, j))
	r.data[i], r.data[j] = r.data[j], r.data[i]
}
func (r *recorder) Push(x int) { r.data = append(r.data, x) }
func (r *recorder) Pop() int {
	n := len(r.data) - 1
	x := r.data[n]
	r.data = r.data[:n]
	return x
}

func (r *recorder) show() string {
	return "{" + strings.Join(r.log, " ") + "} " + fmt.Sprint(r.data)
}

func implGeneric(c core.Case) []string {
	rec := &recorder{}
	return core.RunOps(c,
		func(hdr []string) string {
			if len(hdr) < 2 {
				return "bad-op"
			}
			rec.cmp = cmpOf(hdr[1])
			vs, ok := atois(hdr[2:])
			if rec.cmp == nil || !ok {
				return "bad-op"
			}
			rec.data = vs
			return "ok " + rec.show()
		},
		func(t []string) string {
			rec.log = nil
			switch {
			case len(t) == 1 && t[0] == "init":
				heapz.Init[int](rec)
				return "ok " + rec.show()
			case len(t) == 2 && t[0] == "push":
				x, ok := atoi(t[1])
				if !ok {
					return "bad-op"
				}
				heapz.Push[int](rec, x)
				return "ok " + rec.show()
			case len(t) == 1 && t[0] == "pop":
				x := heapz.Pop[int](rec)
				return fmt.Sprintf("%v %s", x, rec.show())
			case len(t) == 2 && t[0] == "rm":
				i, ok := atoi(t[1])
				if !ok {
					return "bad-op"
				}
				x := heapz.Remove[int](rec, i)
				return fmt.Sprintf("%v %s", x, rec.show())
			case len(t) == 2 && t[0] == "fix":
				i, ok := atoi(t[1])
				if !ok {
					return "bad-op"
				}
				heapz.Fix[int](rec, i)
				return "ok " + rec.show()
			case len(t) == 3 && t[0] == "set":
				i, ok1 := atoi(t[1])
				v, ok2 := atoi(t[2])
				if !ok1 || !ok2 || i < 0 || i >= len(rec.data) || strings.HasPrefix(t[1], "-") {
					return "bad-op"
				}
				rec.data[i] = v
				return "ok " + rec.show()
			}
			return "bad-op"
		})
}

func checkGeneric(c core.Case, out []string) *core.Failure {
	hdr := core.Toks(c.Lines[0])
	if len(hdr) < 4 {
		return nil
	}
	cmp := cmpOf(hdr[3])
	ref, ok := atois(hdr[4:])
	if cmp == nil || !ok {
		return nil
	}
	cur := append([]int{}, ref...)
	ordered := len(ref) <= 1
	dirty := -1
	for i := 1; i < len(c.Lines); i++ {
		t := core.Toks(c.Lines[i])
		if len(t) == 0 || out[i] == "bad-op" || out[i] == "dead" {
			return nil
		}
		prev := cur
		// calls the documentation of container/heap excludes: the oracle does not judge them
		switch t[0] {
		case "pop":
			if len(prev) == 0 {
				return nil
			}
		case "rm", "fix":
			ix, _ := atoi(t[1])
			if ix < 0 || ix >= len(prev) {
				return nil
			}
		}
		if out[i] == "panic" {
			return fail("generic-panic", i, c, out, "a generic heap function panicked on a valid call")
		}
		k := strings.LastIndex(out[i], "[")
		vals, ok := parseInts(out[i][k:])
		if !ok || k <= 0 {
			return fail("generic-format", i, c, out, "unparsable")
		}
		res := strings.Fields(out[i][:k])[0]
		if dirty >= 0 && !((t[0] == "fix" || t[0] == "rm") && t[1] == strconv.Itoa(dirty)) && t[0] != "init" {
			// (Fix(h,i) repairs the one changed element; Remove(h,i) takes it out — "Fix is equivalent
			// to, but less expensive than, calling Remove(h, i) followed by a Push of the new value")
			return nil
		}
		switch t[0] {
		case "init":
			ordered, dirty = true, -1
		case "push":
			x, _ := atoi(t[1])
			ref = append(ref, x)
		case "pop":
			x, _ := strconv.Atoi(res)
			var present bool
			ref, present = removeOne(ref, x)
			if !present {
				return fail("generic-pop-foreign", i, c, out, "popped value was not in the heap")
			}
			if ordered {
				for _, y := range ref {
					if cmp(y, x) {
						return fail("generic-pop-min", i, c, out, "remaining %d precedes the popped %d", y, x)
					}
				}
			}
		case "rm":
			ix, _ := atoi(t[1])
			if res != strconv.Itoa(prev[ix]) {
				return fail("generic-rm", i, c, out, "Remove(h,%d) must return element %d", ix, prev[ix])
			}
			ref, _ = removeOne(ref, prev[ix])
			dirty = -1
		case "fix":
			dirty = -1
		case "set":
			ix, _ := atoi(t[1])
			v, _ := atoi(t[2])
			ref, _ = removeOne(ref, prev[ix])
			ref = append(ref, v)
			if ordered {
				dirty = ix
			}
		}
		if !sameMultiset(vals, ref) {
			return fail("generic-multiset", i, c, out, "the container must hold exactly the multiset %v", ref)
		}
		if ordered && dirty < 0 {
			if j, ok := heapOrdered(vals, cmp); !ok {
				return fail("generic-order", i, c, out, "element %d precedes its parent", j)
			}
		}
		cur = vals
	}
	return nil
}

func genGeneric(r *core.Rand) core.Case {
	g := &tagger{}
	cn := pickCmp(r)
	sim := &hSim{cmp: cmpOf(cn), focus: -1}
	wide := r.Chance(25)
	val := func() int {
		v := g.val(r)
		if wide {
			v += r.Range(0, 9) * 6000
		}
		return v
	}
	hdr := "@ C04 generic " + cn
	n0 := r.Range(0, 9)
	if r.Chance(10) {
		n0 = r.Range(10, 30)
	}
	for i := 0; i < n0; i++ {
		v := val()
		hdr += " " + strconv.Itoa(v)
		// the container starts as given (no heapify before `init`)
		e := sim.alloc(v)
		sim.arr[0] = append(sim.arr[0], e)
		sim.idx[e], sim.own[e] = i, 0
	}
	lines := []string{hdr}
	tag := "generic"
	if r.Chance(85) {
		lines = append(lines, "init")
		sim.build(0)
	}
	ops := r.Range(1, 50)
	target := r.Range(1, 14)
	if n0 >= 10 {
		target = n0
	}
	for len(lines) <= ops {
		n := len(sim.arr[0])
		pushW := 20
		if n < target {
			pushW = 40
		}
		switch r.Pick(6, pushW, 20, 24, 16, 6, 9) {
		case 6:
			// data[i] = v followed DIRECTLY by Remove(h, i)
			if n == 0 {
				continue
			}
			e := sim.pickChanged(r, 0)
			i := sim.idx[e]
			v := val()
			if r.Chance(75) {
				v = sim.advValue(r, 0, e, cn)
			}
			lines = append(lines, fmt.Sprintf("set %d %d", i, v), fmt.Sprintf("rm %d", i))
			sim.vals[e] = v
			sim.remove(0, e)
		case 0:
			lines = append(lines, "init")
			sim.build(0)
		case 1:
			v := val()
			lines = append(lines, fmt.Sprintf("push %d", v))
			sim.attach(0, sim.alloc(v))
		case 2:
			if n == 0 && !r.Chance(3) {
				continue
			}
			if n == 0 {
				tag = "generic-badcall"
			}
			lines = append(lines, "pop")
			sim.pop(0, 'p')
		case 3:
			i := 0
			if n > 0 {
				i = r.Intn(n)
				if r.Chance(25) {
					i = []int{0, n - 1}[r.Intn(2)]
				} else if r.Chance(25) {
					if u := sim.upIndex(r, 0); u >= 0 {
						i = u
					}
				}
			}
			if n == 0 || r.Chance(1) {
				if n == 0 && !r.Chance(3) {
					continue
				}
				i = []int{-1, n, n + 1}[r.Intn(3)]
				tag = "generic-badcall"
			}
			lines = append(lines, fmt.Sprintf("rm %d", i))
			if i >= 0 && i < n {
				sim.remove(0, sim.arr[0][i])
			}
		case 4:
			if n == 0 {
				continue
			}
			i := r.Intn(n)
			v := val()
			lines = append(lines, fmt.Sprintf("set %d %d", i, v))
			sim.vals[sim.arr[0][i]] = v
			if !r.Chance(4) {
				lines = append(lines, fmt.Sprintf("fix %d", i))
				sim.fix(0, sim.arr[0][i])
			}
		case 5:
			i := pickIndex(r, n)
			if n > 0 && !r.Chance(15) {
				i = r.Intn(n)
			}
			if i < 0 || i >= n {
				tag = "generic-badcall"
			} else {
				sim.fix(0, sim.arr[0][i])
			}
			lines = append(lines, fmt.Sprintf("fix %d", i))
		}
	}
	return core.Case{Lines: lines, Tag: tag}
}
