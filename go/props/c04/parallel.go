package c04

import (
	"fmt"
	"sync"

	"github.com/welllog/golib/heapz"

	"verifharness/internal/core"
)

// Extra "parallel-independent" (wave 6, class 10: several objects, one package). The Extras
// independent-objects / results-ledger interleave several heaps on ONE goroutine. Here every
// goroutine (8 of them, started together) owns ONE Heap[int] or Slice[int] that no other goroutine
// ever sees, and runs a script fixed beforehand (from the run's PRNG) on it, writing down what every
// call returned and the array afterwards. Nothing is judged while the goroutines run; afterwards
// each record is judged SEQUENTIALLY against that object's own reference (multiset, Pop / Peek /
// PopAll hand out a minimum, Remove the element addressed, heap order, handle indices). The outcome
// of a correct package does not depend on the schedule (the objects share nothing), so the check is
// flake-free; package-level scratch memory, a pool or a cache shared between objects would show as
// a wrong answer in some goroutine. Concurrent use of ONE object is outside the property.

type parOp struct {
	act  string // push pop peek rm setfix setrm popalln
	a, b int
}

func (o parOp) String() string {
	switch o.act {
	case "push":
		return fmt.Sprintf("Push(%d)", o.a)
	case "rm":
		return fmt.Sprintf("Remove(element at index %d mod Len)", o.a)
	case "setfix":
		return fmt.Sprintf("element at index %d mod Len = %d; Fix", o.a, o.b)
	case "setrm":
		return fmt.Sprintf("element at index %d mod Len = %d; Remove", o.a, o.b)
	case "popalln":
		return fmt.Sprintf("for x := range PopAll() { …break after %d }", o.a)
	}
	return o.act + "()"
}

type parRec struct {
	res  []int // what the call handed out (pop / peek / rm / setrm: one value; popalln: the yielded ones); setfix, rm, setrm: res[0] / the old value first
	ok   bool
	snap []int  // the array after the call
	bad  string // a structural defect seen while taking the snapshot (handles)
}

type parObj struct {
	isHeap  bool
	cmpName string
	init    []int
	script  []parOp
	recs    []parRec
	paniced int // index of the call that panicked, -1
}

type parCase struct {
	Extra     string   `json:"extra"`
	Goroutine int      `json:"goroutine"`
	Object    string   `json:"object"`
	Init      []int    `json:"init"`
	Script    []string `json:"script"`
}

func genParObj(r *core.Rand, nops int) *parObj {
	o := &parObj{isHeap: r.Bool(), cmpName: pickCmp(r), paniced: -1}
	tag := 0
	val := func() int {
		v := r.Range(0, 5)*1000 + tag%1000 + (tag/1000)*100000
		tag++
		return v
	}
	n0 := r.Range(0, 12)
	if r.Chance(15) {
		n0 = []int{63, 64, 65, 100}[r.Intn(4)]
	}
	for i := 0; i < n0; i++ {
		o.init = append(o.init, val())
	}
	size := n0
	target := r.Range(3, 20)
	for i := 0; i < nops; i++ {
		pushW := 16
		if size < target {
			pushW = 45
		}
		switch r.Pick(pushW, 18, 5, 12, 10, 6, 3) {
		case 0:
			o.script = append(o.script, parOp{"push", val(), 0})
			size++
		case 1:
			o.script = append(o.script, parOp{"pop", 0, 0})
			size = max(0, size-1)
		case 2:
			o.script = append(o.script, parOp{"peek", 0, 0})
		case 3:
			o.script = append(o.script, parOp{"rm", r.Intn(64), 0})
			size = max(0, size-1)
		case 4:
			o.script = append(o.script, parOp{"setfix", r.Intn(64), val()})
		case 5:
			v := val()
			if r.Bool() {
				v = extremeVal(o.cmpName, r.Bool(), tag)
			}
			o.script = append(o.script, parOp{"setrm", r.Intn(64), v})
			size = max(0, size-1)
		case 6:
			k := r.Range(1, 4)
			o.script = append(o.script, parOp{"popalln", k, 0})
			size = max(0, size-k)
		}
	}
	return o
}

// run executes the script on a fresh object; it only records.
func (o *parObj) run() {
	cmp := cmpOf(o.cmpName)
	o.recs = make([]parRec, 0, len(o.script))
	cur := -1
	defer func() {
		if recover() != nil {
			o.paniced = cur
		}
	}()
	if !o.isHeap {
		s := heapz.FromSlice(append([]int{}, o.init...), cmp)
		for i, op := range o.script {
			cur = i
			var rc parRec
			n := s.Len()
			switch op.act {
			case "push":
				s.Push(op.a)
			case "pop":
				var x int
				x, rc.ok = s.Pop()
				rc.res = []int{x}
			case "peek":
				var x int
				x, rc.ok = s.Peek()
				rc.res = []int{x}
			case "rm":
				if n > 0 {
					j := op.a % n
					old := s.Values[j]
					var x int
					x, rc.ok = s.Remove(j)
					rc.res = []int{old, x}
				}
			case "setfix":
				if n > 0 {
					j := op.a % n
					rc.res = []int{s.Values[j]}
					s.Values[j] = op.b
					s.Fix(j)
				}
			case "setrm":
				if n > 0 {
					j := op.a % n
					old := s.Values[j]
					s.Values[j] = op.b
					var x int
					x, rc.ok = s.Remove(j)
					rc.res = []int{old, x}
				}
			case "popalln":
				for x := range s.PopAll() {
					rc.res = append(rc.res, x)
					if len(rc.res) == op.a {
						break
					}
				}
			}
			rc.snap = append([]int{}, s.Values...)
			o.recs = append(o.recs, rc)
		}
		return
	}
	var h heapz.Heap[int]
	h.Init(append([]int{}, o.init...), cmp)
	arr := func() []*elem { return heapValues(&h) } // (read-only view of this goroutine's own heap)
	for i, op := range o.script {
		cur = i
		var rc parRec
		n := h.Len()
		switch op.act {
		case "push":
			if e := h.Push(op.a); e == nil {
				rc.bad = "Push returned nil"
			}
		case "pop":
			if e := h.Pop(); e != nil {
				rc.ok, rc.res = true, []int{e.Value}
				if e.Index() != -1 {
					rc.bad = fmt.Sprintf("the popped element reports Index() = %d", e.Index())
				}
			}
		case "peek":
			if e := h.Peek(); e != nil {
				rc.ok, rc.res = true, []int{e.Value}
			}
		case "rm":
			if n > 0 {
				e := arr()[op.a%n]
				old := e.Value
				h.Remove(e)
				rc.ok, rc.res = e.Index() == -1, []int{old, e.Value}
			}
		case "setfix":
			if n > 0 {
				e := arr()[op.a%n]
				rc.res = []int{e.Value}
				e.Value = op.b
				h.Fix(e)
			}
		case "setrm":
			if n > 0 {
				e := arr()[op.a%n]
				old := e.Value
				e.Value = op.b
				h.Remove(e)
				rc.ok, rc.res = e.Index() == -1, []int{old, e.Value}
			}
		case "popalln":
			for x := range h.PopAll() {
				rc.res = append(rc.res, x)
				if len(rc.res) == op.a {
					break
				}
			}
		}
		for j, e := range arr() {
			if e == nil || e.Index() != j {
				rc.bad = fmt.Sprintf("the element in slot %d is nil / reports another Index()", j)
				break
			}
			rc.snap = append(rc.snap, e.Value)
		}
		o.recs = append(o.recs, rc)
	}
}

// judge: the record against the object's own reference, sequentially.
func (o *parObj) judge() (at int, key, desc string) {
	cmp := cmpOf(o.cmpName)
	typ := "slice"
	if o.isHeap {
		typ = "heap"
	}
	ref := append([]int{}, o.init...)
	if o.paniced >= 0 {
		return o.paniced, "parallel-independent-panic", "the call panicked"
	}
	if len(o.recs) != len(o.script) {
		return len(o.recs), "parallel-independent-panic", "the script did not run to its end"
	}
	handed := func(what string, x int) (string, string) {
		var present bool
		if ref, present = msRemove(ref, x); !present {
			return "result", fmt.Sprintf("%s handed out %d, which the object does not hold", what, x)
		}
		if y, bad := msPrecedes(ref, x, cmp); bad {
			return "min", fmt.Sprintf("%s handed out %d although the object still holds %d, which precedes it", what, x, y)
		}
		return "", ""
	}
	for i, op := range o.script {
		rc := o.recs[i]
		n := len(ref)
		k, d := "", ""
		switch op.act {
		case "push":
			ref = append(ref, op.a)
		case "pop", "peek":
			if rc.ok != (n > 0) {
				k, d = "result", fmt.Sprintf("ok=%v with %d elements", rc.ok, n)
				break
			}
			if !rc.ok || len(rc.res) != 1 {
				break
			}
			if op.act == "pop" {
				k, d = handed("Pop()", rc.res[0])
			} else if y, bad := msPrecedes(ref, rc.res[0], cmp); bad {
				k, d = "min", fmt.Sprintf("Peek() = %d although the object holds %d, which precedes it", rc.res[0], y)
			}
		case "rm", "setrm":
			if n == 0 {
				break
			}
			if len(rc.res) != 2 {
				k, d = "len", fmt.Sprintf("Len() was 0, the reference holds %d", n)
				break
			}
			want := rc.res[0]
			if op.act == "setrm" {
				want = op.b
			}
			if !rc.ok || rc.res[1] != want {
				k, d = "result", fmt.Sprintf("Remove must hand out the element addressed (%d), got %d ok=%v", want, rc.res[1], rc.ok)
				break
			}
			var present bool
			if ref, present = msRemove(ref, rc.res[0]); !present {
				k, d = "result", fmt.Sprintf("the element addressed (%d) is not one the object holds", rc.res[0])
			}
		case "setfix":
			if n == 0 {
				break
			}
			if len(rc.res) != 1 {
				k, d = "len", fmt.Sprintf("Len() was 0, the reference holds %d", n)
				break
			}
			var present bool
			if ref, present = msRemove(ref, rc.res[0]); !present {
				k, d = "result", fmt.Sprintf("the element addressed (%d) is not one the object holds", rc.res[0])
			}
			ref = append(ref, op.b)
		case "popalln":
			if want := min(op.a, n); len(rc.res) != want {
				k, d = "count", fmt.Sprintf("%d elements yielded, expected %d", len(rc.res), want)
				break
			}
			for _, x := range rc.res {
				if k, d = handed("PopAll()", x); k != "" {
					break
				}
			}
		}
		if k == "" {
			switch {
			case rc.bad != "":
				k, d = "index", rc.bad
			case !sameMultiset(rc.snap, ref):
				k, d = "multiset", fmt.Sprintf("the object holds %s, its reference %s", clipInts(rc.snap), clipInts(ref))
			default:
				if j, ok := heapOrdered(rc.snap, cmp); !ok {
					k, d = "order", fmt.Sprintf("array %s: element %d precedes its parent", clipInts(rc.snap), j)
				}
			}
		}
		if k != "" {
			return i, "parallel-independent-" + typ + "-" + k, d
		}
	}
	return -1, "", ""
}

const parGoroutines = 8

func extraParallel(ctx *core.Ctx) (int, string, []core.ExtraFailure) {
	rounds, nops := 60, 250
	if ctx.Tier == "thorough" {
		rounds *= 20
	}
	rounds *= min(max(1, ctx.Escalate), 10)
	r := ctx.Rand.Fork()
	var fails []core.ExtraFailure
	seen := map[string]bool{}
	calls, heaps := 0, 0
	for round := 0; round < rounds; round++ {
		objs := make([]*parObj, parGoroutines)
		for g := range objs {
			objs[g] = genParObj(r.Fork(), nops)
			if objs[g].isHeap {
				heaps++
			}
		}
		start := make(chan struct{})
		var wg sync.WaitGroup
		for _, o := range objs {
			wg.Add(1)
			go func(o *parObj) {
				defer wg.Done()
				<-start
				o.run()
			}(o)
		}
		close(start)
		wg.Wait()
		// every object is judged on this goroutine, one after the other
		for g, o := range objs {
			calls += len(o.recs)
			at, key, desc := o.judge()
			if key == "" || seen[key] {
				continue
			}
			seen[key] = true
			pc := &parCase{Extra: "parallel-independent", Goroutine: g, Object: "Slice[int] " + o.cmpName, Init: o.init}
			if o.isHeap {
				pc.Object = "Heap[int] " + o.cmpName
			}
			lo := max(0, at-40)
			if lo > 0 {
				pc.Script = append(pc.Script, fmt.Sprintf("… (%d earlier calls)", lo))
			}
			for i := lo; i <= at && i < len(o.script); i++ {
				pc.Script = append(pc.Script, o.script[i].String())
			}
			fails = append(fails, core.ExtraFailure{Failure: core.Failure{Key: key, Desc: fmt.Sprintf("goroutine %d of %d, %s, call %d (%s): %s", g, parGoroutines, pc.Object, at, o.script[min(at, len(o.script)-1)], desc)}, Payload: pc})
		}
	}
	note := fmt.Sprintf("%d rounds of %d goroutines started together, each with its OWN object (%d Heap[int], %d Slice[int], never shared) and a script of %d calls fixed beforehand (Push Pop Peek Remove Fix, value change + Remove without Fix, PopAll left early), %d calls in all; the goroutines only record, afterwards every record was judged sequentially against that object's own reference (results, multiset, heap order, handle indices)",
		rounds, parGoroutines, heaps, rounds*parGoroutines-heaps, nops, calls)
	return rounds * parGoroutines, note, fails
}
