package c04

import (
	"fmt"

	"github.com/welllog/golib/heapz"

	"verifharness/internal/core"
)

// Extra "generic-after-panic" (wave 4, class 3: after a failure). The generic functions on a
// real slice-backed container (no recording, Less / Swap index the slice and panic like any
// slice access): a call the documentation excludes — Pop on an empty container, Remove / Fix
// with index -1 / len / len+5 — is made under recover. Whether or not it panics, the container's
// data is as before (the first thing such a call does is the failing Swap / Less, or nothing at
// all), and the VALID calls that follow behave per the reference (a multiset): Pop returns a
// minimum, Remove(i) returns element i, the heap order holds after every call.

type plainHeap struct {
	data []int
	cmp  func(a, b int) bool
}

func (p *plainHeap) Len() int           { return len(p.data) }
func (p *plainHeap) Less(i, j int) bool { return p.cmp(p.data[i], p.data[j]) }
func (p *plainHeap) Swap(i, j int)      { p.data[i], p.data[j] = p.data[j], p.data[i] }
func (p *plainHeap) Push(x int)         { p.data = append(p.data, x) }
func (p *plainHeap) Pop() int {
	n := len(p.data) - 1
	x := p.data[n]
	p.data = p.data[:n]
	return x
}

type genPanicCase struct {
	Cmp    string   `json:"cmp"`
	Values []int    `json:"values"`
	Script []string `json:"script"` // the calls made, "!" marks the ones outside the documented domain
}

func genPanicRun(r *core.Rand, gc *genPanicCase, n0, steps int) (key, desc string) {
	gc.Cmp = pickCmp(r)
	cmp := cmpOf(gc.Cmp)
	tag := 0
	val := func() int {
		v := r.Range(0, 5)*1000 + tag%1000 + (tag/1000)*100000
		tag++
		return v
	}
	p := &plainHeap{cmp: cmp}
	for i := 0; i < n0; i++ {
		p.data = append(p.data, val())
	}
	gc.Values = append([]int{}, p.data...)
	ref := append([]int{}, p.data...)
	log := func(f string, a ...any) { gc.Script = append(gc.Script, fmt.Sprintf(f, a...)) }
	log("Init")
	heapz.Init[int](p)
	failed := 0 // calls outside the domain made so far
	check := func(what string) (string, string) {
		if !sameMultiset(p.data, ref) {
			return "multiset", fmt.Sprintf("%s: the container holds %s, the reference %s", what, clipInts(p.data), clipInts(ref))
		}
		if j, ok := heapOrdered(p.data, cmp); !ok {
			return "order", fmt.Sprintf("%s: data[%d]=%d precedes its parent data[%d]=%d", what, j, p.data[j], (j-1)/2, p.data[(j-1)/2])
		}
		return "", ""
	}
	if k, d := check("Init"); k != "" {
		return k, d
	}
	target := r.Range(1, 10) + n0
	for i := 0; i < steps; i++ {
		n := len(p.data)
		pushW := 15
		if n < target {
			pushW = 35
		}
		what := ""
		switch r.Pick(pushW, 18, 14, 10, 3, 22) {
		case 0:
			v := val()
			what = fmt.Sprintf("Push(%d)", v)
			log("%s", what)
			heapz.Push[int](p, v)
			ref = append(ref, v)
		case 1:
			if n == 0 {
				continue
			}
			what = "Pop()"
			log("%s", what)
			x, _ := heapz.Pop[int](p).(int)
			var present bool
			if ref, present = msRemove(ref, x); !present {
				return "result", fmt.Sprintf("Pop() returned %d, which the container did not hold", x)
			}
			if y, bad := msPrecedes(ref, x, cmp); bad {
				return "min", fmt.Sprintf("Pop() (after %d failed calls) returned %d although %d, which precedes it, is still there", failed, x, y)
			}
		case 2:
			if n == 0 {
				continue
			}
			j := r.Intn(n)
			want := p.data[j]
			what = fmt.Sprintf("Remove(%d)", j)
			log("%s", what)
			x, _ := heapz.Remove[int](p, j).(int)
			if x != want {
				return "result", fmt.Sprintf("Remove(%d) returned %d, data[%d] was %d", j, x, j, want)
			}
			ref, _ = msRemove(ref, want)
		case 3:
			if n == 0 {
				continue
			}
			j, v := r.Intn(n), val()
			what = fmt.Sprintf("data[%d] = %d; Fix(%d)", j, v, j)
			log("%s", what)
			ref, _ = msRemove(ref, p.data[j])
			ref = append(ref, v)
			p.data[j] = v
			heapz.Fix[int](p, j)
		case 4:
			what = "Init"
			log("%s", what)
			heapz.Init[int](p)
		case 5:
			// outside the domain, under recover
			before := append([]int{}, p.data...)
			var f func()
			switch r.Pick(25, 40, 35) {
			case 0:
				if n > 0 {
					continue
				}
				what = "!Pop() on the empty container"
				f = func() { heapz.Pop[int](p) }
			case 1:
				j := []int{-1, n, n + 5}[r.Intn(3)]
				what = fmt.Sprintf("!Remove(%d) with Len %d", j, n)
				f = func() { heapz.Remove[int](p, j) }
			default:
				j := []int{-1, n, n + 5}[r.Intn(3)]
				what = fmt.Sprintf("!Fix(%d) with Len %d", j, n)
				f = func() { heapz.Fix[int](p, j) }
			}
			log("%s", what)
			failed++
			core.Guard(func() string { f(); return "" })
			if fmt.Sprint(p.data) != fmt.Sprint(before) {
				return "data-changed", fmt.Sprintf("%s (under recover) changed the container: %s -> %s", what, clipInts(before), clipInts(p.data))
			}
		}
		if k, d := check(what); k != "" {
			return k, fmt.Sprintf("after %d failed calls: %s", failed, d)
		}
	}
	// drain
	var got []int
	for len(p.data) > 0 {
		x, _ := heapz.Pop[int](p).(int)
		got = append(got, x)
	}
	log("drain")
	if !sameMultiset(got, ref) || !sortedAdj(got, cmp) {
		return "drain", fmt.Sprintf("after %d failed calls the container drained %s, the reference held %s", failed, clipInts(got), clipInts(ref))
	}
	return "", ""
}

func extraGenericAfterPanic(ctx *core.Ctx) (int, string, []core.ExtraFailure) {
	small, big := 3000, 30
	if ctx.Tier == "thorough" {
		small, big = 120000, 600
	}
	small *= max(1, ctx.Escalate)
	big *= max(1, ctx.Escalate)
	r := ctx.Rand.Fork()
	var fails []core.ExtraFailure
	seen := map[string]bool{}
	runs, calls, bad := 0, 0, 0
	one := func(n0, steps int) {
		runs++
		gc := &genPanicCase{}
		var key, desc string
		rr := r.Fork()
		if o := core.Guard(func() string { key, desc = genPanicRun(rr, gc, n0, steps); return "" }); o == "panic" {
			key, desc = "panic", "a VALID call panicked"
			if n := len(gc.Script); n > 0 {
				desc = fmt.Sprintf("the valid call %d (%s) panicked", n, gc.Script[n-1])
			}
		}
		calls += len(gc.Script)
		for _, l := range gc.Script {
			if l[0] == '!' {
				bad++
			}
		}
		if key != "" && !seen[key] {
			seen[key] = true
			fails = append(fails, core.ExtraFailure{Failure: core.Failure{Key: "generic-after-panic-" + key, Desc: fmt.Sprintf("generic functions on a slice-backed container of %d (cmp %s): %s", n0, gc.Cmp, desc)}, Payload: gc})
		}
	}
	for i := 0; i < small; i++ {
		n0 := r.Range(0, 6)
		if r.Chance(15) {
			n0 = r.Range(7, 30)
		}
		one(n0, r.Range(5, 40))
	}
	for i := 0; i < big; i++ {
		one([]int{63, 64, 65, 128, 200}[r.Intn(5)], r.Range(10, 40))
	}
	note := fmt.Sprintf("%d runs (%d with 63..200 elements) of the generic Init/Push/Pop/Remove/Fix on a slice-backed container, %d calls, %d of them outside the documented domain (Pop on empty, Remove/Fix with index -1 / len / len+5) under recover: the data is unchanged by each of them, and every later valid call behaves per the reference (Pop = a minimum, Remove(i) = element i, heap order after every call, sorted drain)",
		runs, big, calls, bad)
	return runs, note, fails
}
