package c04

import (
	"fmt"
	"iter"
	"reflect"
	"sort"
	"strconv"
	"strings"
	"unsafe"

	"github.com/welllog/golib/heapz"

	"verifharness/internal/core"
)

type hImpl struct {
	h    [2]*heapz.Heap[int]
	el   []*heapz.Element[int] // id (allocation order) -> element
	ids  map[*heapz.Element[int]]int
	seqs []iter.Seq[int] // slot -> the Seq value `h.PopAll()` returned when `seq` was executed
	curs []cursor        // cursor number -> next / stop of `iter.Pull(seqs[slot])`
}

// heapCaps is the set the generator draws the capacities given to New from: pushes cross them
// (append reallocates the array) while the harness holds handles.
var heapCaps = []int{0, 1, 2, 3, 7, 8, 9, 64, 100}

// parseHeapHdr: `<cmp>` | `<cmp> <capA> <capB>` | `<cmp> <capA> <capB> zv` (tokens after `@ C04 heap`).
func parseHeapHdr(hdr []string) (cmp func(a, b int) bool, caps [2]int, zv, ok bool) {
	if len(hdr) != 1 && len(hdr) != 3 && len(hdr) != 4 {
		return
	}
	cmp = cmpOf(hdr[0])
	if cmp == nil {
		return
	}
	if len(hdr) >= 3 {
		for k := 0; k < 2; k++ {
			c, ok1 := atoi(hdr[1+k])
			if !ok1 || c < 0 || c > 1<<20 || strings.HasPrefix(hdr[1+k], "-") {
				return
			}
			caps[k] = c
		}
	}
	if len(hdr) == 4 {
		if hdr[3] != "zv" {
			return
		}
		zv = true
	}
	ok = true
	return
}

// slotOf parses a Seq slot number (0,1,2… in creation order).
func slotOf(s string, n int) (int, bool) {
	v, ok := atoi(s)
	if !ok || v < 0 || v >= n || strings.HasPrefix(s, "-") {
		return 0, false
	}
	return v, true
}

// takeSeq is the consumer `for x := range q { got = append(got, x); if len(got) == k { break } }`
// (k <= 0: no break, the loop runs until the Seq ends).
func takeSeq(q iter.Seq[int], k int) []int {
	xs := []int{}
	for x := range q {
		xs = append(xs, x)
		if len(xs) == k {
			break
		}
	}
	return xs
}

// heapValues reads the private `values` field (read-only: used to learn the handles of the
// elements allocated inside Init, which the API only hands out through Peek/Pop).
func heapValues(h *heapz.Heap[int]) []*heapz.Element[int] {
	f := reflect.ValueOf(h).Elem().FieldByName("values")
	if !f.IsValid() {
		panic("heapz.Heap has no field `values`")
	}
	return *(*[]*heapz.Element[int])(unsafe.Pointer(f.UnsafeAddr()))
}

func (d *hImpl) reg(e *heapz.Element[int]) int {
	if e == nil {
		return -1
	}
	if id, ok := d.ids[e]; ok {
		return id
	}
	id := len(d.el)
	d.el = append(d.el, e)
	d.ids[e] = id
	return id
}

func (d *hImpl) show(e *heapz.Element[int]) string {
	if e == nil {
		return "nil"
	}
	if id, ok := d.ids[e]; ok {
		return strconv.Itoa(id)
	}
	return "?"
}

func (d *hImpl) dump() string {
	var b strings.Builder
	fmt.Fprintf(&b, "A=%d B=%d | ", d.h[0].Len(), d.h[1].Len())
	for id, e := range d.el {
		if id > 0 {
			b.WriteByte(' ')
		}
		if e == nil {
			fmt.Fprintf(&b, "%d:?:?", id)
			continue
		}
		fmt.Fprintf(&b, "%d:%d:%d", id, e.Index(), e.Value)
	}
	return b.String()
}

func heapIdx(t string) int {
	switch t {
	case "A":
		return 0
	case "B":
		return 1
	}
	return -1
}

func implHeap(c core.Case) []string {
	d := &hImpl{ids: map[*heapz.Element[int]]int{}}
	var cmp func(a, b int) bool
	defer func() { stopAll(d.curs) }()
	return core.RunOps(c,
		func(hdr []string) string {
			if len(hdr) < 1 {
				return "bad-op"
			}
			c, caps, zv, ok := parseHeapHdr(hdr[1:])
			if !ok {
				return "bad-op"
			}
			cmp = c
			if zv {
				// zero values: `var h heapz.Heap[int]`; the first call on each is Init
				d.h[0], d.h[1] = new(heapz.Heap[int]), new(heapz.Heap[int])
			} else {
				a := heapz.New[int](caps[0], cmp)
				b := heapz.New[int](caps[1], cmp)
				d.h[0], d.h[1] = &a, &b
			}
			return "ok | " + d.dump()
		},
		func(t []string) string {
			r := d.step(t, cmp)
			if r == "bad-op" {
				return r
			}
			return r + " | " + d.dump()
		})
}

func (d *hImpl) step(t []string, cmp func(a, b int) bool) string {
	if len(t) < 2 {
		return "bad-op"
	}
	if t[0] == "setv" {
		if len(t) != 3 {
			return "bad-op"
		}
		e, ok1 := atoi(t[1])
		v, ok2 := atoi(t[2])
		if !ok1 || !ok2 || e < 0 || e >= len(d.el) || d.el[e] == nil || strings.HasPrefix(t[1], "-") {
			return "bad-op"
		}
		d.el[e].Value = v
		return "ok"
	}
	switch {
	case t[0] == "range" && len(t) == 3:
		// range over the STORED Seq of that slot, leaving the loop after n >= 1 received elements
		sl, ok1 := slotOf(t[1], len(d.seqs))
		n, ok2 := atoi(t[2])
		if !ok1 || !ok2 || n < 1 || strings.HasPrefix(t[2], "-") {
			return "bad-op"
		}
		return fmt.Sprint(takeSeq(d.seqs[sl], n))
	case t[0] == "rangeall" && len(t) == 2:
		sl, ok := slotOf(t[1], len(d.seqs))
		if !ok {
			return "bad-op"
		}
		return fmt.Sprint(takeSeq(d.seqs[sl], 0))
	case t[0] == "range" || t[0] == "rangeall":
		return "bad-op"
	case t[0] == "pull" || t[0] == "next" || t[0] == "stop":
		if len(t) != 2 {
			return "bad-op"
		}
		if t[0] == "pull" {
			// next, stop := iter.Pull(q): nothing runs before the first next()
			sl, ok := slotOf(t[1], len(d.seqs))
			if !ok {
				return "bad-op"
			}
			next, stop := iter.Pull(d.seqs[sl])
			d.curs = append(d.curs, cursor{next, stop})
			return "ok"
		}
		cu, ok := slotOf(t[1], len(d.curs))
		if !ok {
			return "bad-op"
		}
		if t[0] == "stop" {
			d.curs[cu].stop()
			return "ok"
		}
		return showNext(d.curs[cu].next())
	}
	k := heapIdx(t[1])
	if k < 0 {
		return "bad-op"
	}
	h := d.h[k]
	elem := func(s string) *heapz.Element[int] {
		e, ok := atoi(s)
		if !ok || e < 0 || e >= len(d.el) || strings.HasPrefix(s, "-") {
			return nil
		}
		return d.el[e]
	}
	switch {
	case t[0] == "init" || t[0] == "initc":
		// `initc <A|B> <cmp> v…`: Init with a comparator that may differ from the one given to New
		args, c := t[2:], cmp
		if t[0] == "initc" {
			if len(t) < 3 || cmpOf(t[2]) == nil {
				return "bad-op"
			}
			args, c = t[3:], cmpOf(t[2])
		}
		vs, ok := atois(args)
		if !ok {
			return "bad-op"
		}
		h.Init(vs, c)
		// register the new elements in allocation order (= order of vs)
		// (the first not yet known element carrying the value, in array order)
		byVal := map[int][]*heapz.Element[int]{}
		for _, e := range heapValues(h) {
			if e == nil {
				continue
			}
			if _, known := d.ids[e]; !known {
				byVal[e.Value] = append(byVal[e.Value], e)
			}
		}
		for _, v := range vs {
			l := byVal[v]
			if len(l) == 0 {
				d.el = append(d.el, nil) // lost element: shows as `?`
				continue
			}
			byVal[v] = l[1:]
			d.reg(l[0])
		}
		return "ok"
	case t[0] == "push" && len(t) == 3:
		x, ok := atoi(t[2])
		if !ok {
			return "bad-op"
		}
		e := h.Push(x)
		d.reg(e)
		return d.show(e)
	case t[0] == "pop" && len(t) == 2:
		return d.show(h.Pop())
	case t[0] == "peek" && len(t) == 2:
		return d.show(h.Peek())
	case t[0] == "len" && len(t) == 2:
		return strconv.Itoa(h.Len())
	case t[0] == "rm" && len(t) == 3:
		e := elem(t[2])
		if e == nil {
			return "bad-op"
		}
		h.Remove(e)
		return "ok"
	case t[0] == "fix" && len(t) == 3:
		e := elem(t[2])
		if e == nil {
			return "bad-op"
		}
		h.Fix(e)
		return "ok"
	case t[0] == "seq" && len(t) == 2:
		// q := h.PopAll(), kept for later `range` / `rangeall` lines
		d.seqs = append(d.seqs, h.PopAll())
		return "ok"
	case (t[0] == "copyrm" || t[0] == "copyfix") && len(t) == 3:
		// a struct copy is ANOTHER heap (another address): h's elements are foreign to it
		e := elem(t[2])
		if e == nil {
			return "bad-op"
		}
		c := *h
		if t[0] == "copyrm" {
			c.Remove(e)
		} else {
			c.Fix(e)
		}
		return "ok"
	case t[0] == "popallbody" && len(t) >= 3:
		// the loop body uses the heaps (see body.go)
		stop, ok1 := natTok(t[2])
		items, ok2 := parseBodyItems(t[3:], true, len(d.el))
		if !ok1 || !ok2 {
			return "bad-op"
		}
		return d.popAllBody(k, stop, items)
	case t[0] == "popall" && len(t) == 2:
		return fmt.Sprint(takeSeq(h.PopAll(), 0))
	case t[0] == "popalln" && len(t) == 3:
		// the consumer leaves the range loop after n >= 1 received elements
		n, ok := atoi(t[2])
		if !ok || n < 1 || strings.HasPrefix(t[2], "-") {
			return "bad-op"
		}
		xs := []int{}
		for x := range h.PopAll() {
			xs = append(xs, x)
			if len(xs) == n {
				break
			}
		}
		return fmt.Sprint(xs)
	case t[0] == "pushe" && len(t) == 3:
		// re-push an existing handle (the generator only does it for a detached one)
		e := elem(t[2])
		if e == nil {
			return "bad-op"
		}
		h.PushElement(e)
		return "ok"
	case t[0] == "setfix" && len(t) == 4:
		e := elem(t[2])
		v, ok := atoi(t[3])
		if e == nil || !ok {
			return "bad-op"
		}
		e.Value = v
		h.Fix(e)
		return "ok"
	case t[0] == "setrm" && len(t) == 4:
		// the value changes behind the heap's back and the element is removed WITHOUT a Fix in
		// between (documented: Fix is "equivalent to, but less expensive than, calling Remove
		// followed by a Push of the new value")
		e := elem(t[2])
		v, ok := atoi(t[3])
		if e == nil || !ok {
			return "bad-op"
		}
		e.Value = v
		h.Remove(e)
		return "ok"
	}
	return "bad-op"
}

// ---------------------------------------------------------------- independent oracle

type cell struct{ idx, val int }

func parseHeapDump(l string) (res string, lenA, lenB int, cells []cell, ok bool) {
	p := strings.SplitN(l, " | ", 3)
	if len(p) != 3 {
		// no element yet: "res | A=0 B=0 | "
		if len(p) == 2 && strings.HasSuffix(l, " | ") {
			p = append(p, "")
		} else if strings.HasSuffix(l, " |") {
			p = strings.SplitN(l+" ", " | ", 3)
		}
		if len(p) != 3 {
			return
		}
	}
	res = p[0]
	if _, err := fmt.Sscanf(p[1], "A=%d B=%d", &lenA, &lenB); err != nil {
		return
	}
	for id, f := range strings.Fields(p[2]) {
		q := strings.Split(f, ":")
		if len(q) != 3 || q[0] != strconv.Itoa(id) {
			return
		}
		i, e1 := strconv.Atoi(q[1])
		v, e2 := strconv.Atoi(q[2])
		if e1 != nil || e2 != nil {
			return
		}
		cells = append(cells, cell{i, v})
	}
	ok = true
	return
}

func checkHeap(c core.Case, out []string) *core.Failure {
	hdr := core.Toks(c.Lines[0])
	if len(hdr) < 4 {
		return nil
	}
	cmp, _, zv, hok := parseHeapHdr(hdr[3:])
	if !hok {
		return nil
	}
	inited := [2]bool{!zv, !zv}              // zero-value heaps: nothing is promised before the first Init
	var seqHeap []int                        // Seq slot -> the heap whose PopAll() made it
	cmps := [2]func(a, b int) bool{cmp, cmp} // the comparator each heap was last initialised with
	live := [2]map[int]bool{{}, {}}          // reference: which element ids each heap holds
	vals := []int{}                          // reference: value of every element
	dirty := map[int]bool{}                  // elements whose value changed without Fix yet
	// broken[k]: the caller changed a value and went on using the heap without Fix:
	// nothing about the order is promised any more (until the heap is emptied / re-initialised)
	broken := [2]bool{}
	anyDirty := func(k int) bool {
		if broken[k] {
			return true
		}
		for e := range dirty {
			if live[k][e] {
				return true
			}
		}
		return false
	}
	// setValue: the caller wrote e.Value = v without (yet) calling Fix on the owner
	setValue := func(e, v int) {
		vals[e] = v
		for kk := 0; kk < 2; kk++ {
			if !live[kk][e] {
				continue
			}
			// Fix promises to repair ONE changed element: a second pending change breaks the contract
			for o := range dirty {
				if o != e && live[kk][o] {
					broken[kk] = true
				}
			}
			dirty[e] = true
		}
	}
	type hcur struct {
		slot int
		done bool // exhausted (a next() found the heap empty) or stopped
	}
	var curs []hcur // iter.Pull cursors, in creation order
	var prevCells []cell
	for i := 0; i < len(c.Lines); i++ {
		t := core.Toks(c.Lines[i])
		if out[i] == "bad-op" {
			return nil
		}
		// amb: a popallbody line yielded a value that several live elements carry (identical
		// values): which HANDLE left is then a guess, and no failure is reported from that line
		amb := false
		fail := func(key string, i int, c core.Case, out []string, f string, a ...any) *core.Failure {
			if amb {
				return nil
			}
			return fail(key, i, c, out, f, a...)
		}
		if i > 0 && len(t) >= 2 && (t[0] == "range" || t[0] == "rangeall") {
			// ranging over a stored Seq: the Seq is `h.PopAll()` of the heap it was made from, and
			// a fresh range of it pops from what that heap holds NOW (its current comparator)
			sl, ok := slotOf(t[1], len(seqHeap))
			if !ok {
				return nil
			}
			if t[0] == "range" && len(t) == 3 {
				t = []string{"popalln", "AB"[seqHeap[sl] : seqHeap[sl]+1], t[2]}
			} else {
				t = []string{"popall", "AB"[seqHeap[sl] : seqHeap[sl]+1]}
			}
		}
		if i > 0 && zv && len(t) >= 2 {
			if k := heapIdx(t[1]); k >= 0 && t[0] != "setv" {
				if t[0] == "init" || t[0] == "initc" {
					inited[k] = true
				} else if !inited[k] {
					return nil // a zero Heap used before Init: the caller's misuse
				}
			}
		}
		if out[i] == "panic" || out[i] == "dead" {
			if len(t) == 3 && t[0] == "pushe" {
				if e, _ := atoi(t[2]); live[0][e] || live[1][e] {
					return nil // misuse (see below)
				}
			}
			return fail("heap-panic", i, c, out, "a Heap method panicked")
		}
		res, lenA, lenB, cells, ok := parseHeapDump(out[i])
		if !ok {
			if n := strings.Count(out[i], ":?:?"); n > 0 {
				// the harness found no NEW element for n of the values given to Init
				return fail("heap-init-not-fresh", i, c, out, "Init must put a newly allocated element into the heap for every value: for %d of them the heap holds no element that was not handed out before (recycled handles / lost values)", n)
			}
			return fail("heap-format", i, c, out, "unparsable")
		}
		if i > 0 {
			k := -1
			if len(t) >= 2 {
				k = heapIdx(t[1])
			}
			elemArg := func() int {
				e, _ := atoi(t[2])
				return e
			}
			setrm := false
			if t[0] == "setrm" && len(t) == 4 && k >= 0 {
				// `e.Value = v; h.Remove(e)` is `setv e v` followed directly by `rm H e`
				e, ok1 := atoi(t[2])
				v, ok2 := atoi(t[3])
				if !ok1 || !ok2 || e < 0 || e >= len(vals) {
					return nil
				}
				setValue(e, v)
				setrm = true
				t = []string{"rm", t[1], t[2]}
			}
			if k >= 0 && !broken[k] && anyDirty(k) {
				switch t[0] {
				case "peek", "len", "seq", "copyrm", "copyfix":
				case "fix", "setfix", "rm":
					// the ONE pending change is repaired by Fix(e) — or the changed element leaves by
					// Remove(e) (package doc: Fix is equivalent to Remove followed by a Push of the new
					// value): the heap is clean again and fully judged from here on. Anything else on a
					// heap that holds a misplaced element is the caller's misuse.
					if e := elemArg(); !dirty[e] || !live[k][e] {
						broken[k] = true
					}
				default:
					broken[k] = true
				}
			}
			switch t[0] {
			case "init", "initc":
				vs, _ := atois(t[2:])
				cmps[k] = cmp
				if t[0] == "initc" {
					vs, _ = atois(t[3:])
					cmps[k] = cmpOf(t[2])
				}
				// the previous elements have left the heap
				for e := range live[k] {
					delete(dirty, e)
				}
				broken[k] = false
				live[k] = map[int]bool{}
				for _, v := range vs {
					live[k][len(vals)] = true
					vals = append(vals, v)
				}
			case "push":
				x, _ := atoi(t[2])
				if res != strconv.Itoa(len(vals)) {
					return fail("heap-push", i, c, out, "Push must return the new element (id %d)", len(vals))
				}
				live[k][len(vals)] = true
				vals = append(vals, x)
			case "pop", "peek":
				if len(live[k]) == 0 {
					if res != "nil" {
						return fail("heap-"+t[0]+"-empty", i, c, out, "empty heap must return nil")
					}
					break
				}
				e, err := strconv.Atoi(res)
				if err != nil || !live[k][e] {
					return fail("heap-"+t[0], i, c, out, "must return an element of this heap (holding %v)", keys(live[k]))
				}
				if !anyDirty(k) {
					for o := range live[k] {
						if cmps[k](vals[o], vals[e]) {
							return fail("heap-"+t[0]+"-min", i, c, out, "element %d (value %d) precedes the returned element %d (value %d)", o, vals[o], e, vals[e])
						}
					}
				}
				if t[0] == "pop" {
					delete(live[k], e)
					delete(dirty, e)
				}
			case "len":
				if res != strconv.Itoa(len(live[k])) {
					return fail("heap-len", i, c, out, "multiset size is %d", len(live[k]))
				}
			case "rm":
				e := elemArg()
				if res != "ok" {
					return fail("heap-format", i, c, out, "unparsable")
				}
				if live[k][e] {
					delete(live[k], e)
					delete(dirty, e)
				} else if setrm {
					// stale / foreign handle: the value is written, Remove must not touch anything
					if len(cells) == len(prevCells) {
						for o := range cells {
							if cells[o].idx != prevCells[o].idx || (o != e && cells[o].val != prevCells[o].val) {
								return fail("heap-rm-stale", i, c, out, "Remove with a stale/foreign handle must not change anything but the written Value (before: %s)", tail(out[i-1]))
							}
						}
					}
				} else if tail(out[i]) != tail(out[i-1]) {
					return fail("heap-rm-stale", i, c, out, "Remove with a stale/foreign handle must not change anything (before: %s)", tail(out[i-1]))
				}
			case "fix":
				e := elemArg()
				if live[k][e] {
					delete(dirty, e)
				} else if tail(out[i]) != tail(out[i-1]) {
					return fail("heap-fix-stale", i, c, out, "Fix with a stale/foreign handle must not change anything (before: %s)", tail(out[i-1]))
				}
			case "setv":
				e, _ := atoi(t[1])
				v, _ := atoi(t[2])
				setValue(e, v)
			case "seq":
				// PopAll() only builds the Seq: nothing is popped before somebody ranges over it
				if res != "ok" || tail(out[i]) != tail(out[i-1]) {
					return fail("heap-seq-create", i, c, out, "calling PopAll() without ranging over the result must not change anything (before: %s)", tail(out[i-1]))
				}
				seqHeap = append(seqHeap, k)
			case "copyrm", "copyfix":
				// c := *h is another Heap object: whatever the handle belongs to, it is not c's
				if res != "ok" || tail(out[i]) != tail(out[i-1]) {
					return fail("heap-copy-foreign", i, c, out, "Remove/Fix called on a struct copy of the heap (another object: every handle is foreign to it) must not change anything (before: %s)", tail(out[i-1]))
				}
			case "pushe":
				e := elemArg()
				if live[0][e] || live[1][e] {
					// PushElement of an element that is still in a heap: undocumented misuse,
					// nothing is promised from here on
					return nil
				}
				if res != "ok" {
					return fail("heap-format", i, c, out, "unparsable")
				}
				// the handle is live again, in heap k (whatever heap it was in before)
				live[k][e] = true
			case "setfix":
				e := elemArg()
				v, _ := atoi(t[3])
				if live[k][e] {
					// e.Value = v; h.Fix(e) on the owner: the one pending change is repaired
					vals[e] = v
					delete(dirty, e)
					break
				}
				// stale / foreign handle: the value is written, Fix must not touch anything
				setValue(e, v)
				if len(cells) == len(prevCells) {
					for o := range cells {
						if cells[o].idx != prevCells[o].idx || (o != e && cells[o].val != prevCells[o].val) {
							return fail("heap-fix-stale", i, c, out, "Fix with a stale/foreign handle must not change anything but the written Value (before: %s)", tail(out[i-1]))
						}
					}
				}
			case "pull":
				// next, stop := iter.Pull(q): nothing is popped before the first next()
				sl, ok := slotOf(t[1], len(seqHeap))
				if !ok {
					return nil
				}
				if res != "ok" || tail(out[i]) != tail(out[i-1]) {
					return fail("heap-pull-create", i, c, out, "iter.Pull(q) without a next() must not change anything (before: %s)", tail(out[i-1]))
				}
				curs = append(curs, hcur{slot: sl})
			case "stop":
				cn, ok := slotOf(t[1], len(curs))
				if !ok {
					return nil
				}
				if res != "ok" || tail(out[i]) != tail(out[i-1]) {
					return fail("heap-stop", i, c, out, "stop() must not change the heap (before: %s)", tail(out[i-1]))
				}
				curs[cn].done = true
			case "next":
				// one next() on an active cursor = one Pop of the heap the Seq belongs to
				cn, ok := slotOf(t[1], len(curs))
				if !ok {
					return nil
				}
				cu := &curs[cn]
				hk := seqHeap[cu.slot]
				if zv && !inited[hk] {
					return nil
				}
				if cu.done {
					if res != "0 false" || tail(out[i]) != tail(out[i-1]) {
						return fail("heap-next-finished", i, c, out, "cursor %d is finished (stopped, or a next() found the heap empty): next() must answer (0,false) and change nothing (before: %s)", cn, tail(out[i-1]))
					}
					break
				}
				if anyDirty(hk) {
					broken[hk] = true
				}
				if len(live[hk]) == 0 {
					if res != "0 false" || tail(out[i]) != tail(out[i-1]) {
						return fail("heap-next-empty", i, c, out, "next() on an empty heap must answer (0,false) and change nothing (before: %s)", tail(out[i-1]))
					}
					cu.done = true
					break
				}
				f := strings.Fields(res)
				v, err := 0, error(nil)
				if len(f) == 2 {
					v, err = strconv.Atoi(f[0])
				}
				if len(f) != 2 || f[1] != "true" || err != nil {
					return fail("heap-next", i, c, out, "next() of an active cursor on a heap of %d elements must yield one", len(live[hk]))
				}
				var gone []int
				for e := range live[hk] {
					if e < len(cells) && cells[e].idx == -1 {
						gone = append(gone, e)
					}
				}
				sort.Ints(gone)
				if len(gone) != 1 || vals[gone[0]] != v {
					return fail("heap-next-detached", i, c, out, "one next() is one Pop: exactly the element carrying the yielded value %d must have left heap %d; the handles that report Index()=-1 now: %v", v, hk, gone)
				}
				if !anyDirty(hk) {
					for o := range live[hk] {
						if cmps[hk](vals[o], v) {
							return fail("heap-next-min", i, c, out, "element %d (value %d) is in the heap and precedes the yielded %d", o, vals[o], v)
						}
					}
				}
				delete(live[hk], gone[0])
				delete(dirty, gone[0])
				if len(live[hk]) == 0 {
					broken[hk] = false
				}
			case "popallbody":
				if len(t) < 3 || k < 0 {
					return nil
				}
				stop, ok1 := natTok(t[2])
				items, ok2 := parseBodyItems(t[3:], true, len(vals))
				if !ok1 || !ok2 {
					return nil
				}
				if res == "runaway" {
					return fail("heap-popallbody-runaway", i, c, out, "the loop did not end after Len + pushes + 8 iterations")
				}
				ys, rs, ok := parseTwoLists(res)
				if !ok {
					return fail("heap-format", i, c, out, "unparsable")
				}
				script, _ := byIteration(items)
				mentioned := map[int]bool{} // handles the line names / gets back: kept out of guesses
				for _, b := range items {
					if b.act == "rm" || b.act == "fix" {
						mentioned[b.arg] = true
					}
					if zv && !inited[b.heap] {
						return nil
					}
					if anyDirty(b.heap) {
						broken[b.heap] = true
					}
				}
				for _, x := range rs {
					mentioned[x] = true
				}
				yieldedHere := map[int]bool{}
				ri := 0
				for yi, v := range ys {
					if len(live[k]) == 0 {
						return fail("heap-popallbody-count", i, c, out, "iteration %d yielded %d although the heap was empty by then", yi, v)
					}
					// the element that left: the live one carrying the yielded value
					y, best := -1, -1
					ncand := 0
					for _, e := range keys(live[k]) {
						if vals[e] != v {
							continue
						}
						ncand++
						score := 0
						if e < len(cells) && cells[e].idx == -1 {
							score += 2
						}
						if !mentioned[e] {
							score++
						}
						if score > best {
							y, best = e, score
						}
					}
					if ncand > 1 {
						amb = true
					}
					if y < 0 {
						for e := range yieldedHere {
							if vals[e] == v {
								return fail("heap-popallbody-twice", i, c, out, "iteration %d yielded %d (element %d) again: it was yielded before in this loop and nobody pushed it back", yi, v, e)
							}
						}
						return fail("heap-popallbody-foreign", i, c, out, "iteration %d yielded %d, which heap %d does not hold at that moment (holding %v)", yi, v, k, keys(live[k]))
					}
					if !anyDirty(k) {
						for o := range live[k] {
							if cmps[k](vals[o], v) {
								return fail("heap-popallbody-min", i, c, out, "iteration %d yielded %d (element %d) while element %d (value %d), which precedes it, is in the heap", yi, v, y, o, vals[o])
							}
						}
					}
					delete(live[k], y)
					delete(dirty, y)
					yieldedHere[y] = true
					// the body of this iteration: the yielded element is NOT in the heap any more
					for _, b := range script[yi] {
						h := b.heap
						r := 0
						if b.act == "push" || b.act == "peek" || b.act == "pop" || b.act == "len" {
							if ri >= len(rs) {
								return fail("heap-popallbody-results", i, c, out, "the bodies that ran must have produced more than %d results", len(rs))
							}
							r = rs[ri]
							ri++
						}
						what := fmt.Sprintf("body of iteration %d, %s on heap %d", yi, b.act, h)
						switch b.act {
						case "push":
							if r != len(vals) {
								return fail("heap-popallbody-push", i, c, out, "%s: Push must return the new element (id %d), got %d", what, len(vals), r)
							}
							live[h][len(vals)] = true
							vals = append(vals, b.arg)
						case "len":
							if r != len(live[h]) {
								return fail("heap-popallbody-len", i, c, out, "%s: Len() = %d, the heap holds %d elements then (the yielded one has left)", what, r, len(live[h]))
							}
						case "peek", "pop":
							if len(live[h]) == 0 {
								if r != -1 {
									return fail("heap-popallbody-"+b.act+"-empty", i, c, out, "%s: the heap is empty then, got element %d", what, r)
								}
								break
							}
							if !live[h][r] {
								if h == k && r == y {
									return fail("heap-popallbody-"+b.act+"-yielded", i, c, out, "%s returned element %d, the one this iteration yielded: it must have left the heap before the body runs", what, r)
								}
								return fail("heap-popallbody-"+b.act, i, c, out, "%s must return an element of that heap (holding %v), got %d", what, keys(live[h]), r)
							}
							if !anyDirty(h) {
								for o := range live[h] {
									if cmps[h](vals[o], vals[r]) {
										return fail("heap-popallbody-"+b.act+"-min", i, c, out, "%s returned element %d (value %d), element %d (value %d) precedes it", what, r, vals[r], o, vals[o])
									}
								}
							}
							if b.act == "pop" {
								delete(live[h], r)
								delete(dirty, r)
							}
						case "rm":
							if live[h][b.arg] {
								delete(live[h], b.arg)
								delete(dirty, b.arg)
							}
						case "fix":
							if live[h][b.arg] {
								delete(dirty, b.arg)
							}
						}
					}
				}
				if stop > 0 && len(ys) > stop {
					return fail("heap-popallbody-count", i, c, out, "the consumer left the loop in iteration %d, %d elements were yielded", stop-1, len(ys))
				}
				if (stop == 0 || len(ys) < stop) && len(live[k]) != 0 {
					return fail("heap-popallbody-count", i, c, out, "the loop ended by itself after %d iterations although heap %d still holds %d elements (%v)", len(ys), k, len(live[k]), keys(live[k]))
				}
				if ri != len(rs) {
					return fail("heap-popallbody-results", i, c, out, "the bodies that ran produce %d results, got %d", ri, len(rs))
				}
				for h := 0; h < 2; h++ {
					if len(live[h]) == 0 {
						broken[h] = false
					}
				}
			case "popall":
				xs, ok := parseInts(res)
				if !ok {
					return fail("heap-format", i, c, out, "unparsable")
				}
				var want []int
				for e := range live[k] {
					want = append(want, vals[e])
				}
				if !sameMultiset(xs, want) {
					return fail("heap-popall-multiset", i, c, out, "PopAll must yield exactly the multiset %v", want)
				}
				if !anyDirty(k) && !sortedBy(xs, cmps[k]) {
					return fail("heap-popall-sorted", i, c, out, "PopAll is not sorted")
				}
				for e := range live[k] {
					delete(dirty, e)
				}
				broken[k] = false
				live[k] = map[int]bool{}
			case "popalln":
				// leaving the loop after n elements = n Pops (fewer when the heap runs dry). The
				// elements that left are the live ones that now report -1; they carry the yielded
				// values, and nothing that stays precedes any of them
				kk, _ := atoi(t[2])
				xs, ok := parseInts(res)
				if !ok {
					return fail("heap-format", i, c, out, "unparsable")
				}
				if want := min(kk, len(live[k])); len(xs) != want {
					return fail("heap-popalln-count", i, c, out, "the loop left after %d elements on a heap of %d must have received %d, received %d", kk, len(live[k]), want, len(xs))
				}
				var gone, goneVals []int
				for e := range live[k] {
					if e < len(cells) && cells[e].idx == -1 {
						gone = append(gone, e)
						goneVals = append(goneVals, vals[e])
					}
				}
				if len(gone) != len(xs) || !sameMultiset(goneVals, xs) {
					sort.Ints(gone)
					return fail("heap-popalln-detached", i, c, out, "%d elements were yielded, the handles that report Index()=-1 now are %v (values %v)", len(xs), gone, goneVals)
				}
				wasDirty := anyDirty(k)
				for _, e := range gone {
					delete(live[k], e)
					delete(dirty, e)
				}
				if !wasDirty {
					if !sortedBy(xs, cmps[k]) {
						return fail("heap-popalln-sorted", i, c, out, "the yielded elements are not sorted")
					}
					if len(xs) > 0 {
						for _, x := range []int{xs[0], xs[len(xs)-1]} {
							for o := range live[k] {
								if cmps[k](vals[o], x) {
									return fail("heap-popalln-min", i, c, out, "element %d (value %d) is still in the heap and precedes the yielded %d", o, vals[o], x)
								}
							}
						}
					}
				}
				if len(live[k]) == 0 {
					broken[k] = false
				}
			}
		}
		// state predicate after every call
		if len(cells) != len(vals) {
			return fail("heap-handles", i, c, out, "%d elements were allocated, %d are known to the harness", len(vals), len(cells))
		}
		if lenA != len(live[0]) || lenB != len(live[1]) {
			return fail("heap-len", i, c, out, "Len must be %d / %d", len(live[0]), len(live[1]))
		}
		for e, cl := range cells {
			if cl.val != vals[e] {
				return fail("heap-value", i, c, out, "element %d: Value %d, expected %d", e, cl.val, vals[e])
			}
			if !live[0][e] && !live[1][e] && cl.idx != -1 {
				return fail("heap-index-left", i, c, out, "element %d has left its heap but reports Index()=%d", e, cl.idx)
			}
		}
		for k := 0; k < 2; k++ {
			n := len(live[k])
			arr := make([]int, n)
			for j := range arr {
				arr[j] = -1
			}
			for e := range live[k] {
				ix := cells[e].idx
				if ix < 0 || ix >= n || arr[ix] != -1 {
					return fail("heap-index", i, c, out, "live element %d of heap %d reports Index()=%d (not a bijection onto 0..%d)", e, k, ix, n-1)
				}
				arr[ix] = e
			}
			if !anyDirty(k) {
				for j := 1; j < n; j++ {
					if cmps[k](vals[arr[j]], vals[arr[(j-1)/2]]) {
						return fail("heap-order", i, c, out, "heap %d: element %d at index %d precedes its parent %d", k, arr[j], j, arr[(j-1)/2])
					}
				}
			}
		}
		prevCells = cells
	}
	return nil
}

func keys(m map[int]bool) []int {
	var r []int
	for k := range m {
		r = append(r, k)
	}
	sort.Ints(r)
	return r
}

// ---------------------------------------------------------------- generator

// The generator keeps its own picture of the two heaps (a plain binary heap of element ids,
// the textbook sift-up / sift-down) ONLY to aim: which handles are live where, which one is
// the last / the root, whether a removal would move the substitute up or down, which handles
// are detached (the only ones `pushe` may re-push). It never sees the implementation; the
// oracle derives liveness from the implementation's answers, not from this picture.
type hSim struct {
	arr   [2][]int // heap k: element ids in array order
	idx   []int    // element -> index in its heap, -1 when detached
	own   []int    // element -> heap, -1 when detached
	how   []byte   // how the element was detached last: 'p'op 'r'm 'i'nit 'a'll
	vals  []int
	cmp   func(a, b int) bool
	cmps  [2]func(a, b int) bool // per heap, when an `initc` replaced the comparator (nil: cmp)
	focus int                    // a handle that was just re-pushed: follow-up ops prefer it
}

func (g *hSim) less(k, i, j int) bool {
	c := g.cmp
	if g.cmps[k] != nil {
		c = g.cmps[k]
	}
	return c(g.vals[g.arr[k][i]], g.vals[g.arr[k][j]])
}
func (g *hSim) swap(k, i, j int) {
	a := g.arr[k]
	a[i], a[j] = a[j], a[i]
	g.idx[a[i]], g.idx[a[j]] = i, j
}
func (g *hSim) up(k, j int) {
	for j > 0 {
		i := (j - 1) / 2
		if !g.less(k, j, i) {
			break
		}
		g.swap(k, i, j)
		j = i
	}
}
func (g *hSim) down(k, i0, n int) bool {
	i := i0
	for {
		j := 2*i + 1
		if j >= n {
			break
		}
		if j+1 < n && g.less(k, j+1, j) {
			j++
		}
		if !g.less(k, j, i) {
			break
		}
		g.swap(k, i, j)
		i = j
	}
	return i > i0
}
func (g *hSim) detachLast(k int, how byte) int {
	n := len(g.arr[k]) - 1
	e := g.arr[k][n]
	g.arr[k] = g.arr[k][:n]
	g.idx[e], g.own[e], g.how[e] = -1, -1, how
	return e
}
func (g *hSim) alloc(v int) int {
	e := len(g.vals)
	g.vals = append(g.vals, v)
	g.idx = append(g.idx, -1)
	g.own = append(g.own, -1)
	g.how = append(g.how, 0)
	return e
}
func (g *hSim) attach(k, e int) {
	g.arr[k] = append(g.arr[k], e)
	g.idx[e], g.own[e] = len(g.arr[k])-1, k
	g.up(k, g.idx[e])
}
func (g *hSim) pop(k int, how byte) {
	n := len(g.arr[k])
	if n == 0 {
		return
	}
	g.swap(k, 0, n-1)
	g.down(k, 0, n-1)
	g.detachLast(k, how)
}
func (g *hSim) remove(k, e int) {
	if g.own[e] != k {
		return
	}
	n := len(g.arr[k]) - 1
	if i := g.idx[e]; i != n {
		g.swap(k, i, n)
		if !g.down(k, i, n) {
			g.up(k, i)
		}
	}
	g.detachLast(k, 'r')
}
func (g *hSim) fix(k, e int) {
	if g.own[e] != k {
		return
	}
	if i := g.idx[e]; !g.down(k, i, len(g.arr[k])) {
		g.up(k, i)
	}
}
func (g *hSim) init(k int, vs []int) {
	for len(g.arr[k]) > 0 {
		g.detachLast(k, 'i')
	}
	for _, v := range vs {
		e := g.alloc(v)
		g.arr[k] = append(g.arr[k], e)
		g.idx[e], g.own[e] = len(g.arr[k])-1, k
	}
	g.build(k)
}

func (g *hSim) build(k int) {
	n := len(g.arr[k])
	for i := n/2 - 1; i >= 0; i-- {
		g.down(k, i, n)
	}
}

// upIndex: an index whose removal makes the substitute (the last element) travel UP
// (the last element precedes the parent of that index), -1 when there is none.
func (g *hSim) upIndex(r *core.Rand, k int) int {
	n := len(g.arr[k])
	var c []int
	for i := 1; i < n-1; i++ {
		if g.less(k, n-1, (i-1)/2) {
			c = append(c, i)
		}
	}
	if len(c) == 0 {
		return -1
	}
	return c[r.Intn(len(c))]
}

func (g *hSim) detached() []int {
	var r []int
	for e, o := range g.own {
		if o < 0 {
			r = append(r, e)
		}
	}
	return r
}

// pickLive aims inside heap k: the last slot, the root, an element whose removal makes the
// substitute (the last element) travel UP, or any.
func (g *hSim) pickLive(r *core.Rand, k int) int {
	a := g.arr[k]
	n := len(a)
	switch r.Pick(14, 8, 22, 56) {
	case 0:
		return a[n-1]
	case 1:
		return a[0]
	case 2:
		if i := g.upIndex(r, k); i >= 0 {
			return a[i]
		}
	}
	return a[r.Intn(n)]
}

// pick: 85% a live handle of the heap addressed, 10% a detached one, 5% one of the other heap.
func (g *hSim) pick(r *core.Rand, k int) int {
	if len(g.vals) == 0 {
		return -1
	}
	if g.focus >= 0 && r.Chance(35) {
		e := g.focus
		if r.Chance(50) {
			g.focus = -1
		}
		return e
	}
	for try := 0; try < 4; try++ {
		switch r.Pick(85, 10, 5) {
		case 0:
			if len(g.arr[k]) > 0 {
				return g.pickLive(r, k)
			}
		case 1:
			if d := g.detached(); len(d) > 0 {
				// half of the time one that an Init discarded, when there is one
				if r.Bool() {
					var di []int
					for _, e := range d {
						if g.how[e] == 'i' {
							di = append(di, e)
						}
					}
					if len(di) > 0 {
						return di[r.Intn(len(di))]
					}
				}
				return d[r.Intn(len(d))]
			}
		case 2:
			if n := len(g.arr[1-k]); n > 0 {
				return g.arr[1-k][r.Intn(n)]
			}
		}
	}
	return r.Intn(len(g.vals))
}

// extremeVal: a value that precedes every value the generators make (first) / that every one of
// them precedes (!first) under the named comparator (keys -9 and 99999; the usual ones are 0..65535).
func extremeVal(cname string, first bool, tag int) int {
	asc := cname == "lt" || cname == "key"
	if first == asc {
		return -9000 - tag%1000
	}
	return 99999000 + tag%1000
}

// pickChanged aims a `e.Value = v; Remove(e)` inside heap k: the root, an inner node whose
// substitute (the last leaf, in another subtree) has to travel UP, the last slot, any.
func (g *hSim) pickChanged(r *core.Rand, k int) int {
	a := g.arr[k]
	n := len(a)
	switch r.Pick(20, 45, 6, 29) {
	case 0:
		return a[0]
	case 1:
		if i := g.upIndex(r, k); i >= 0 {
			return a[i]
		}
	case 2:
		return a[n-1]
	}
	if n > 2 {
		return a[r.Intn(n-1)]
	}
	return a[r.Intn(n)]
}

// advValue: a new Value for the live element e of heap k, written right before Remove(e)
// WITHOUT a Fix. Remove puts the last element (the substitute) into e's slot and must sift it
// down, else up, looking at the substitute's new neighbours only; the value e carries by then
// must play no role. The value is chosen so that a comparison of the substitute with e's NEW
// value points the WRONG way: when the substitute has to go up, a value it does not precede
// (first of all / a tie with the substitute / with e's parent); when it has to go down or stay,
// a value it precedes (last of all / just after the substitute).
func (g *hSim) advValue(r *core.Rand, k, e int, cname string) int {
	a := g.arr[k]
	n := len(a)
	i := g.idx[e]
	tag := e % 1000
	asc := cname == "lt" || cname == "key"
	withKey := func(ky int) int {
		if ky < 0 {
			return ky*1000 - tag
		}
		return ky*1000 + tag
	}
	sub := g.vals[a[n-1]]
	switch {
	case i == n-1:
		return extremeVal(cname, r.Bool(), tag)
	case i > 0 && g.less(k, n-1, (i-1)/2):
		// the substitute travels up
		switch r.Pick(50, 20, 15, 15) {
		case 1:
			return withKey(sub / 1000) // ties with the substitute under key / rkey
		case 2:
			return sub // the very same value
		case 3:
			return withKey(g.vals[a[(i-1)/2]] / 1000) // ties with e's parent
		}
		return extremeVal(cname, true, tag)
	}
	// the substitute travels down (or stays)
	if r.Chance(30) {
		if asc {
			return withKey(sub/1000 + 1)
		}
		return withKey(sub/1000 - 1)
	}
	return extremeVal(cname, false, tag)
}

// pickCap: a capacity for New; mostly small ones, which the pushes of a case cross.
func pickCap(r *core.Rand) int {
	return heapCaps[r.Pick(14, 13, 13, 13, 10, 10, 10, 9, 8)]
}

func genHeap(r *core.Rand) core.Case {
	cn := pickCmp(r)
	g := &hSim{cmp: cmpOf(cn), focus: -1}
	hdr := "@ C04 heap " + cn
	// New(capA, ·) / New(capB, ·) / both heaps zero values (then Init comes first on each)
	zv := false
	switch r.Pick(30, 55, 15) {
	case 1:
		hdr += fmt.Sprintf(" %d %d", pickCap(r), pickCap(r))
	case 2:
		hdr += fmt.Sprintf(" %d %d zv", pickCap(r), pickCap(r))
		zv = true
	}
	lines := []string{hdr}
	names := []string{"A", "B"}
	// key regime: the usual six keys / all keys equal / two keys / many keys
	regime := r.Pick(62, 8, 10, 20)
	fixedKey := r.Range(0, 5)
	exact := regime == 1 && r.Bool() // identical values: equal under lt/gt as well
	newKey := func() int {
		switch regime {
		case 1:
			if r.Chance(3) {
				return r.Range(0, 5)
			}
			return fixedKey
		case 2:
			return fixedKey + r.Intn(2)
		case 3:
			return r.Range(0, 60)
		}
		return r.Range(0, 5)
	}
	valFor := func(e int) int {
		if exact {
			return fixedKey * 1000
		}
		return newKey()*1000 + e%1000
	}
	big := r.Chance(12)
	cmpNow := [2]string{cn, cn} // the comparator each heap has
	var seqs []int              // Seq slot -> heap
	lastSlot := -1
	var next func() // a follow-up the previous op asked for (use of a Seq after Init, re-push after initc)
	doRange := func(sl int) {
		k := seqs[sl]
		lastSlot = sl
		if r.Chance(10) {
			lines = append(lines, fmt.Sprintf("rangeall %d", sl))
			for len(g.arr[k]) > 0 {
				g.pop(k, 'a')
			}
			return
		}
		n := pickStop(r, len(g.arr[k]))
		lines = append(lines, fmt.Sprintf("range %d %d", sl, n))
		for ; n > 0 && len(g.arr[k]) > 0; n-- {
			g.pop(k, 'a')
		}
	}
	slotsOf := func(k int) []int {
		var sl []int
		for i, h := range seqs {
			if h == k {
				sl = append(sl, i)
			}
		}
		return sl
	}
	doPushe := func(k, e int) {
		if r.Chance(30) {
			// with a fresh value first (the element is in no heap: no Fix owed)
			v := valFor(e)
			lines = append(lines, fmt.Sprintf("setv %d %d", e, v))
			g.vals[e] = v
		}
		lines = append(lines, fmt.Sprintf("pushe %s %d", names[k], e))
		g.attach(k, e)
		g.focus = e
	}
	doInit := func(k int, first bool) {
		n := r.Range(0, 8)
		if big && (first || r.Chance(30)) {
			n = r.Range(16, 40)
		}
		l := "init " + names[k]
		g.cmps[k] = nil
		newCmp := cn
		if (first && r.Chance(15)) || (!first && r.Chance(45)) {
			// Init with its own comparator (often another one than New got)
			c := pickCmp(r)
			if r.Chance(50) {
				c = []string{"lt", "gt", "key", "rkey"}[r.Intn(4)]
			}
			l = "initc " + names[k] + " " + c
			g.cmps[k] = cmpOf(c)
			newCmp = c
		}
		vs := make([]int, n)
		for i := range vs {
			vs[i] = valFor(len(g.vals) + i)
			l += " " + strconv.Itoa(vs[i])
		}
		discarded := append([]int{}, g.arr[k]...)
		g.init(k, vs)
		lines = append(lines, l)
		changed := newCmp != cmpNow[k]
		cmpNow[k] = newCmp
		if first {
			return
		}
		// follow-ups: a Seq made before this Init is ranged over now (it must enumerate the NEW
		// content in the NEW order); a handle this Init discarded goes into the OTHER heap
		sl := slotsOf(k)
		switch {
		case len(sl) > 0 && r.Chance(70):
			s := sl[r.Intn(len(sl))]
			next = func() { doRange(s) }
		case len(discarded) > 0 && (changed && r.Chance(75) || r.Chance(25)):
			e := discarded[r.Intn(len(discarded))]
			next = func() {
				if g.own[e] < 0 {
					doPushe(1-k, e)
				}
			}
		}
	}
	if r.Chance(60) || big || zv {
		doInit(0, true)
	}
	if r.Chance(40) || zv {
		doInit(1, !big || r.Chance(25))
	}
	// iter.Pull cursors over held Seq values: two (sometimes three) that alternate, on A and B
	curs := &genCursors{}
	doPull := func(sl int) {
		lines = append(lines, fmt.Sprintf("pull %d", sl))
		curs.add(sl)
	}
	var doNext func(cn int)
	doNext = func(cn int) {
		lines = append(lines, fmt.Sprintf("next %d", cn))
		curs.last = cn
		if curs.done[cn] {
			return
		}
		k := seqs[curs.slot[cn]]
		if len(g.arr[k]) > 0 {
			g.pop(k, 'a')
			return
		}
		// the heap is empty: the cursor is finished for good — half of the time the heap gets a
		// new element right away and the finished cursor is asked again
		curs.done[cn] = true
		if r.Chance(50) {
			next = func() {
				v := valFor(len(g.vals))
				lines = append(lines, fmt.Sprintf("push %s %d", names[k], v))
				g.attach(k, g.alloc(v))
				next = func() { doNext(cn) }
			}
		}
	}
	if r.Chance(45) {
		// Seq values obtained EARLY; they are used late, after the heaps have changed
		for i := r.Range(1, 3); i > 0; i-- {
			k := r.Pick(70, 30)
			lines = append(lines, "seq "+names[k])
			seqs = append(seqs, k)
		}
		if r.Chance(45) {
			// cursors made early as well (often before the heap has any element)
			for i := r.Pick(0, 25, 55, 20); i > 0; i-- {
				sl := r.Intn(len(seqs))
				if len(curs.slot) > 0 && r.Chance(55) {
					sl = curs.slot[len(curs.slot)-1] // a second cursor over the SAME Seq
				}
				doPull(sl)
			}
		}
	}
	ops := r.Range(1, 60)
	target := r.Range(1, 14) // below this size pushes dominate, above it removals do
	if big {
		ops = r.Range(20, 70)
		target = r.Range(16, 40)
	}
	if len(seqs) > 0 {
		ops = max(ops, r.Range(8, 30))
	}
	if len(curs.slot) > 0 {
		ops = max(ops, r.Range(12, 34))
	}
	for len(lines) <= ops {
		if next != nil {
			f := next
			next = nil
			f()
			continue
		}
		k := 0
		if r.Chance(30) {
			k = 1
		}
		if g.focus >= 0 && g.own[g.focus] >= 0 && r.Chance(60) {
			// a handle that was just re-pushed: the follow-up goes to the heap that holds it now
			k = g.own[g.focus]
		}
		H := names[k]
		pushW := 16
		if len(g.arr[k]) < target {
			pushW = 44
		}
		rangeW, initW := 0, initWeight
		if len(seqs) > 0 {
			rangeW, initW = 12, initWeight+3
		}
		pullW, nextW, stopW := 0, 0, 0
		if len(seqs) > 0 {
			pullW = 3
			if len(curs.slot) >= 3 {
				pullW = 1
			}
		}
		if len(curs.slot) > 0 {
			nextW, stopW = 18, 2
			rangeW = 6
		}
		switch r.Pick(pushW, 14, 3, 2, 20, 9, 5, 1, initW, 9, 9, 3, rangeW, 1, 4, 6, pullW, nextW, stopW, 6, 4) {
		case 19:
			// e.Value = v; h.Remove(e) — no Fix in between (documented use: Fix is "equivalent to,
			// but less expensive than, calling Remove followed by a Push of the new value"). Mostly a
			// live handle with a value that misleads a one-direction repair; a stale one; an element
			// of the OTHER heap only with its value unchanged (as for setfix)
			e := -1
			if len(g.arr[k]) > 0 && r.Chance(85) {
				e = g.pickChanged(r, k)
			} else {
				e = g.pick(r, k)
			}
			if e < 0 {
				continue
			}
			v := valFor(e)
			switch {
			case g.own[e] == 1-k:
				v = g.vals[e]
			case g.own[e] == k && r.Chance(75):
				v = g.advValue(r, k, e, cmpNow[k])
			}
			lines = append(lines, fmt.Sprintf("setrm %s %d %d", H, e, v))
			g.vals[e] = v
			g.remove(k, e)
		case 20:
			// the same as two lines: `setv e v` followed DIRECTLY by `rm H e` on the owner
			if len(g.arr[k]) == 0 {
				continue
			}
			e := g.pickChanged(r, k)
			v := valFor(e)
			if r.Chance(75) {
				v = g.advValue(r, k, e, cmpNow[k])
			}
			lines = append(lines, fmt.Sprintf("setv %d %d", e, v), fmt.Sprintf("rm %s %d", H, e))
			g.vals[e] = v
			g.remove(k, e)
		case 15:
			// the loop body uses the heaps while PopAll is being ranged over
			kb := k
			if len(g.arr[kb]) == 0 && len(g.arr[1-kb]) > 0 && r.Chance(75) {
				kb = 1 - kb
			}
			if len(g.arr[kb]) == 0 && r.Chance(70) {
				continue
			}
			lines = append(lines, genHeapBody(r, g, kb, bodyStop(r, len(g.arr[kb])), cmpNow, valFor, exact))
		case 16:
			sl := r.Intn(len(seqs))
			doPull(sl)
			if r.Chance(50) {
				// a second cursor at once, over the same Seq or another one
				if r.Chance(40) {
					sl = r.Intn(len(seqs))
				}
				doPull(sl)
			}
		case 17:
			doNext(curs.pick(r))
		case 18:
			cn := curs.pick(r)
			lines = append(lines, fmt.Sprintf("stop %d", cn))
			curs.done[cn] = true
			if r.Chance(60) {
				next = func() { doNext(cn) }
			}
		case 12:
			sl := r.Intn(len(seqs))
			if lastSlot >= 0 && r.Chance(55) {
				sl = lastSlot
			}
			doRange(sl)
		case 13:
			lines = append(lines, "seq "+H)
			seqs = append(seqs, k)
			if r.Chance(50) {
				doPull(len(seqs) - 1)
			}
		case 14:
			// Remove / Fix called on a struct copy `c := *h`: the handle (mostly live in h) is foreign to c
			e := g.pick(r, k)
			if e < 0 {
				continue
			}
			lines = append(lines, fmt.Sprintf("%s %s %d", []string{"copyrm", "copyfix"}[r.Intn(2)], H, e))
		case 11:
			n := pickStop(r, len(g.arr[k]))
			lines = append(lines, fmt.Sprintf("popalln %s %d", H, n))
			for ; n > 0 && len(g.arr[k]) > 0; n-- {
				g.pop(k, 'a')
			}
		case 0:
			v := valFor(len(g.vals))
			lines = append(lines, fmt.Sprintf("push %s %d", H, v))
			g.attach(k, g.alloc(v))
		case 1:
			lines = append(lines, "pop "+H)
			g.pop(k, 'p')
		case 2:
			lines = append(lines, "peek "+H)
		case 3:
			lines = append(lines, "len "+H)
		case 4:
			e := g.pick(r, k)
			if e < 0 {
				continue
			}
			lines = append(lines, fmt.Sprintf("rm %s %d", H, e))
			g.remove(k, e)
		case 5:
			e := g.pick(r, k)
			if e < 0 {
				continue
			}
			v := valFor(e)
			lines = append(lines, fmt.Sprintf("setv %d %d", e, v))
			g.vals[e] = v
			if !r.Chance(4) {
				lines = append(lines, fmt.Sprintf("fix %s %d", H, e))
				g.fix(k, e)
			}
		case 6:
			e := g.pick(r, k)
			if e < 0 {
				continue
			}
			lines = append(lines, fmt.Sprintf("fix %s %d", H, e))
			g.fix(k, e)
		case 7:
			lines = append(lines, "popall "+H)
			for len(g.arr[k]) > 0 {
				g.pop(k, 'a')
			}
		case 8:
			doInit(k, false)
		case 9:
			// re-push a DETACHED handle (popped / removed / discarded by Init), into either heap
			d := g.detached()
			if len(d) == 0 {
				continue
			}
			doPushe(k, d[r.Intn(len(d))])
		case 10:
			// e.Value = v; h.Fix(e): live in h (mostly) or detached; an element of the OTHER heap
			// only with its value unchanged (changing it there without Fix is the caller's breach)
			e := g.pick(r, k)
			if e < 0 {
				continue
			}
			v := valFor(e)
			if g.own[e] == 1-k {
				v = g.vals[e]
			}
			lines = append(lines, fmt.Sprintf("setfix %s %d %d", H, e, v))
			g.vals[e] = v
			g.fix(k, e)
		}
	}
	return core.Case{Lines: lines, Tag: "heap"}
}

// initWeight: weight of re-initialising a heap in the middle of a sequence.
const initWeight = 2

// ---------------------------------------------------------------- distribution labels

func sizeBucket(n int) string {
	switch {
	case n == 0:
		return "0"
	case n < 4:
		return "1-3"
	case n < 8:
		return "4-7"
	case n < 16:
		return "8-15"
	case n < 32:
		return "16-31"
	case n < 64:
		return "32-63"
	case n < 1000:
		return "64-999"
	}
	return "1000+"
}

// stopLabel: where the consumer left the loop, relative to the heap size n.
func stopLabel(k, n int) string {
	switch {
	case k > n:
		return "k>n"
	case k == n:
		return "k=n"
	case k == 1:
		return "k=1"
	case k == n-1:
		return "k=n-1"
	}
	return "1<k<n-1"
}

// classifyHeap names the branch of heap.go every call took, read off the implementation's
// own answers (owner of a handle = replay of the calls and their results).
func classifyHeap(c core.Case, out []string) []string {
	var ls []string
	own := []int{}       // element -> heap holding it, -1 detached
	how := []string{}    // how it was detached last (init / initc = an Init with ANOTHER comparator than the heap had)
	repushed := []bool{} // has been re-pushed by pushe and is live since
	fromHeap := []int{}  // the heap it was detached from last
	viaInitc := []bool{} // re-pushed after an Init with another comparator discarded it
	var prev []cell      // state before the call
	n := [2]int{}        // Len of both heaps before the call
	maxLen := 0
	sawInitc := false
	var seenVals []int
	grow := func(k int) {
		for len(own) < k {
			own = append(own, -1)
			how = append(how, "")
			repushed = append(repushed, false)
			fromHeap = append(fromHeap, -1)
			viaInitc = append(viaInitc, false)
		}
	}
	detach := func(e int, why string) {
		if e >= 0 && e < len(own) {
			fromHeap[e] = own[e]
			own[e], how[e], repushed[e], viaInitc[e] = -1, why, false, false
		}
	}
	move := func(before, after int) string {
		switch {
		case after < before:
			return ":up"
		case after > before:
			return ":down"
		}
		return ":stay"
	}
	hdr := core.Toks(c.Lines[0])
	var cmp func(a, b int) bool
	capNow := [2]int{}                 // capacity of the array as far as it is known (-1: grown by append)
	capFrom := [2]string{"new", "new"} // what fixed that capacity
	cmpName := [2]string{}             // the comparator each heap was last initialised with
	if len(hdr) >= 4 {
		cmp = cmpOf(hdr[3])
		cmpName = [2]string{hdr[3], hdr[3]}
		if _, caps, zv, ok := parseHeapHdr(hdr[3:]); ok {
			capNow = caps
			switch {
			case zv:
				ls = append(ls, "h:new:zero-value")
			case len(hdr) >= 6:
				for k := 0; k < 2; k++ {
					if caps[k] > 0 {
						ls = append(ls, "h:new:cap>0")
					} else {
						ls = append(ls, "h:new:cap=0")
					}
				}
			default:
				ls = append(ls, "h:new:no-cap-given")
			}
		}
	}
	// Seq slots: the heap PopAll() was called on, and what happened since
	type seqInfo struct {
		heap, made, ranged, partial int  // made: line of the `seq`; ranged: times ranged over; partial: of those, left with elements remaining
		lastPartial                 bool // the previous range over it was left early
		mutated, init, initc, other bool // since the Seq was made: push/pushe/rm/setfix/pop on its heap, Init / Init with another comparator of its heap, the OTHER heap modified
	}
	var seqs []*seqInfo
	// iter.Pull cursors: the heap of their Seq, and what happened since they were made
	type curInfo struct {
		heap, slot, nexts   int
		done                bool
		how                 string // how it finished: stop / exhaustion
		mutated, init, last bool   // its heap was modified / re-initialised since the previous next(); last: the previous `next` line was this cursor's
	}
	var curs []*curInfo
	modified := func(k int) {
		for _, q := range seqs {
			if q.heap == k {
				q.mutated = true
			} else {
				q.other = true
			}
		}
		for _, q := range curs {
			if q.heap == k {
				q.mutated = true
			}
		}
	}
	for i := 0; i < len(c.Lines) && i < len(out); i++ {
		t := core.Toks(c.Lines[i])
		if len(t) == 0 {
			continue
		}
		opName := t[0]
		var sq *seqInfo
		// afterSet: this Remove comes right after the caller changed the element's Value (no Fix)
		afterSet := ""
		if i > 0 && t[0] == "setrm" && len(t) == 4 && out[i] != "bad-op" {
			if v, ok := atoi(t[3]); ok {
				seenVals = append(seenVals, v)
			}
			t = []string{"rm", t[1], t[2]}
			afterSet = "h:setrm"
		} else if i > 1 && t[0] == "rm" && len(t) == 3 {
			if q := core.Toks(c.Lines[i-1]); len(q) == 3 && q[0] == "setv" && q[1] == t[2] {
				afterSet = "h:rm:after-setv"
			}
		}
		if i > 0 && len(t) >= 2 && (t[0] == "range" || t[0] == "rangeall") && out[i] != "bad-op" {
			// a range over a stored Seq = popalln / popall on the heap it was made from
			sl, ok := slotOf(t[1], len(seqs))
			if !ok {
				continue
			}
			sq = seqs[sl]
			H := "AB"[sq.heap : sq.heap+1]
			if t[0] == "range" && len(t) == 3 {
				t = []string{"popalln", H, t[2]}
			} else {
				t = []string{"popall", H}
			}
		}
		if out[i] == "panic" || out[i] == "dead" || out[i] == "bad-op" {
			if i > 0 {
				ls = append(ls, "h:"+opName+":"+out[i])
			}
			continue
		}
		res, lenA, lenB, cells, ok := parseHeapDump(out[i])
		if !ok {
			continue
		}
		if i == 0 {
			prev = cells
			continue
		}
		lab := "h:" + opName
		k := -1
		if len(t) >= 2 {
			k = heapIdx(t[1])
		}
		e := -1
		if len(t) >= 3 && k >= 0 {
			e, _ = atoi(t[2])
		}
		handleOp := k >= 0 && e >= 0 && e < len(prev) && e < len(cells)
		grow(len(prev))
		sameIdx := len(prev) == len(cells)
		if sameIdx {
			for o := range cells {
				if cells[o].idx != prev[o].idx {
					sameIdx = false
					break
				}
			}
		}
		if sq != nil {
			// what this use of the stored Seq is preceded by
			p := "h:range"
			if sq.ranged > 0 {
				ls = append(ls, p+":again")
			}
			if sq.lastPartial {
				ls = append(ls, p+":after-break")
			}
			if sq.mutated {
				ls = append(ls, p+":after-mutation")
			}
			if sq.init {
				ls = append(ls, p+":after-init")
			}
			if sq.initc {
				ls = append(ls, p+":after-initc")
			}
			if sq.other {
				ls = append(ls, p+":other-heap-modified")
			}
			if i-sq.made >= 6 {
				ls = append(ls, p+":held>=6-ops")
			}
			if n[sq.heap] >= 64 {
				ls = append(ls, p+":n>=64")
			}
			if n[sq.heap] == 0 {
				ls = append(ls, p+":empty")
			}
			sq.ranged++
			sq.lastPartial = [2]int{lenA, lenB}[sq.heap] > 0
			if sq.lastPartial {
				sq.partial++
				if sq.partial >= 2 {
					ls = append(ls, p+":partial-again")
				}
			}
		}
		switch t[0] {
		case "seq":
			if k < 0 {
				break
			}
			seqs = append(seqs, &seqInfo{heap: k, made: i})
			ls = append(ls, "h:seq:n="+sizeBucket(n[k]))
			if len(seqs) >= 2 {
				ls = append(ls, "h:seq:several-held")
			}
		case "pull":
			sl, ok := slotOf(t[1], len(seqs))
			if !ok {
				break
			}
			hk := seqs[sl].heap
			ls = append(ls, "h:pull:n="+sizeBucket(n[hk]))
			if n[hk] == 0 {
				ls = append(ls, "h:pull:empty-heap")
			}
			if hk == 1 {
				ls = append(ls, "h:pull:on-B")
			}
			for _, q := range curs {
				if q.slot == sl {
					ls = append(ls, "h:pull:same-seq-again")
					break
				}
			}
			if len(curs) >= 1 {
				ls = append(ls, "h:pull:several-cursors")
			}
			if seqs[sl].ranged > 0 {
				ls = append(ls, "h:pull:seq-ranged-before")
			}
			curs = append(curs, &curInfo{heap: hk, slot: sl})
		case "stop":
			cn, ok := slotOf(t[1], len(curs))
			if !ok {
				break
			}
			q := curs[cn]
			switch {
			case q.done:
				ls = append(ls, "h:stop:finished-cursor")
			case q.nexts == 0:
				ls = append(ls, "h:stop:never-started")
			default:
				ls = append(ls, "h:stop:active")
			}
			if !q.done {
				q.done, q.how = true, "stop"
			}
		case "next":
			cn, ok := slotOf(t[1], len(curs))
			if !ok {
				break
			}
			q := curs[cn]
			hk := q.heap
			if hk == 1 {
				ls = append(ls, "h:next:on-B")
			}
			active, sameHeap, sameSeq := 0, 0, 0
			for j, o := range curs {
				if j != cn && !o.done {
					active++
					if o.heap == hk {
						sameHeap++
					}
					if o.slot == q.slot {
						sameSeq++
					}
				}
			}
			if q.done {
				ls = append(ls, "h:next:after-"+q.how)
				if n[hk] > 0 {
					// (after exhaustion: somebody pushed since)
					ls = append(ls, "h:next:after-"+q.how+":heap-nonempty")
				}
			} else {
				if active > 0 {
					ls = append(ls, "h:next:two-cursors")
				}
				if sameHeap > 0 {
					ls = append(ls, "h:next:two-cursors:same-heap")
				}
				if sameSeq > 0 {
					ls = append(ls, "h:next:two-cursors:same-seq")
				}
				if active >= 2 {
					ls = append(ls, "h:next:three-cursors")
				}
				if !q.last && q.nexts > 0 && active > 0 {
					ls = append(ls, "h:next:alternating")
				}
				if q.nexts == 0 {
					ls = append(ls, "h:next:first")
				}
				if q.mutated {
					ls = append(ls, "h:next:after-mutation")
				}
				if q.init {
					ls = append(ls, "h:next:after-init")
				}
				if n[hk] >= 64 {
					ls = append(ls, "h:next:n>=64")
				}
				if n[hk] == 0 {
					ls = append(ls, "h:next:empty-finishes")
					q.done, q.how = true, "exhaustion"
				} else {
					ls = append(ls, "h:next:yield")
					if n[hk] == 1 {
						ls = append(ls, "h:next:yield:last-element")
					}
					for o := range own {
						if own[o] == hk && o < len(cells) && cells[o].idx == -1 {
							detach(o, "popall")
						}
					}
					for _, o := range seqs {
						if o.heap == hk {
							o.mutated = true
						} else {
							o.other = true
						}
					}
					for j, o := range curs {
						if j != cn && o.heap == hk {
							o.mutated = true
						}
					}
				}
				q.nexts++
				q.mutated, q.init = false, false
			}
			for j, o := range curs {
				o.last = j == cn
			}
		case "popallbody":
			if k < 0 || len(t) < 3 {
				break
			}
			stop, ok1 := natTok(t[2])
			items, ok2 := parseBodyItems(t[3:], true, len(prev))
			ys, rs, ok3 := parseTwoLists(res)
			if !ok1 || !ok2 || !ok3 {
				break
			}
			p := "h:popallbody"
			ls = append(ls, p+":n="+sizeBucket(n[k]))
			if stop == 0 {
				ls = append(ls, p+":k=0")
			} else {
				ls = append(ls, p+":k>0", p+":"+stopLabel(stop, n[k]))
			}
			if [2]int{lenA, lenB}[k] > 0 {
				ls = append(ls, p+":partial")
			}
			if n[k] >= 64 {
				ls = append(ls, p+":n>=64")
			}
			switch {
			case len(items) == 0:
				ls = append(ls, p+":items=0")
			case len(items) <= 2:
				ls = append(ls, p+":items=1-2")
			default:
				ls = append(ls, p+":items=3+")
			}
			if len(ys) > n[k] {
				ls = append(ls, p+":yields>n(pushed-elements-yielded)")
			}
			grow(len(cells))
			script, _ := byIteration(items)
			cmpf := cmpOf(cmpName[k])
			ri, ran := 0, 0
			touched := [2]bool{}
			touched[k] = true
			takeRes := func() int {
				if ri < len(rs) {
					ri++
					return rs[ri-1]
				}
				return -1
			}
			yieldedHere := map[int]bool{}
			for yi, v := range ys {
				y := -1
				for o := range own {
					if own[o] == k && o < len(cells) && cells[o].val == v {
						y = o
						break
					}
				}
				if y >= 0 {
					detach(y, "popall")
					yieldedHere[y] = true
				}
				if len(script[yi]) > 0 {
					switch {
					case yi == 0:
						ls = append(ls, p+":body@first")
					case yi == len(ys)-1:
						ls = append(ls, p+":body@last")
					case yi >= 3:
						ls = append(ls, p+":body@middle")
					}
				}
				for bi, b := range script[yi] {
					ran++
					touched[b.heap] = true
					a := p + ":" + b.act
					if b.heap != k {
						ls = append(ls, p+":other-heap", a+":other-heap")
					}
					switch b.act {
					case "push":
						if id := takeRes(); id >= 0 && id < len(own) {
							own[id] = b.heap
							seenVals = append(seenVals, b.arg)
						}
						switch {
						case b.heap != k || cmpf == nil:
						case cmpf(b.arg, v):
							ls = append(ls, p+":push-preceding")
							if n[k] >= 64 {
								ls = append(ls, p+":push-preceding:n>=64")
							}
						case cmpf(v, b.arg):
							ls = append(ls, p+":push-following")
						default:
							ls = append(ls, p+":push-tie")
						}
					case "peek":
						takeRes()
						if bi == 0 && b.heap == k {
							ls = append(ls, p+":peek-right-after-yield")
						} else if bi > 0 && script[yi][bi-1].act == "push" && script[yi][bi-1].heap == b.heap {
							ls = append(ls, p+":peek-after-push")
						}
					case "len":
						takeRes()
					case "pop":
						if id := takeRes(); id >= 0 && id < len(own) {
							detach(id, "pop")
						} else {
							ls = append(ls, p+":pop:empty")
						}
					case "rm", "fix":
						e := b.arg
						if e >= len(own) {
							break
						}
						switch {
						case own[e] == b.heap:
							ls = append(ls, a+":live")
							if b.heap == k && cmpf != nil {
								first := true
								for o := range own {
									if own[o] == k && o < len(cells) && cmpf(cells[o].val, cells[e].val) {
										first = false
										break
									}
								}
								if first {
									ls = append(ls, a+":live:next-to-be-yielded")
								}
							}
							if b.act == "rm" {
								detach(e, "rm")
							}
						case e == y:
							ls = append(ls, a+":just-yielded")
						case yieldedHere[e]:
							ls = append(ls, a+":yielded-earlier")
						case own[e] == 1-b.heap:
							ls = append(ls, a+":foreign")
						default:
							ls = append(ls, a+":stale")
						}
					}
					ls = append(ls, a)
				}
			}
			if ran < len(items) {
				ls = append(ls, p+":items-of-iterations-that-never-ran")
			}
			for h := 0; h < 2; h++ {
				if touched[h] {
					modified(h)
				}
			}
		case "copyrm", "copyfix":
			if !handleOp {
				break
			}
			switch {
			case own[e] == k:
				ls = append(ls, lab+":live-in-h")
			case own[e] == 1-k:
				ls = append(ls, lab+":other-heap")
			default:
				ls = append(ls, lab+":stale")
			}
			if tail(out[i]) == tail(out[i-1]) {
				lab += ":unchanged"
			}
		case "init", "initc":
			if k < 0 {
				break
			}
			other := false
			if t[0] == "initc" && len(t) >= 3 {
				sawInitc = true
				if len(hdr) >= 4 && t[2] == hdr[3] {
					ls = append(ls, "h:initc:same-cmp")
				} else {
					ls = append(ls, "h:initc:other-cmp")
				}
				other = t[2] != cmpName[k]
				cmpName[k] = t[2]
			} else if len(hdr) >= 4 {
				other = hdr[3] != cmpName[k]
				cmpName[k] = hdr[3]
			}
			if other {
				ls = append(ls, "h:init:cmp-changes")
			}
			if n[k] > 0 {
				ls = append(ls, "h:init:nonempty")
				if other {
					ls = append(ls, "h:init:nonempty:cmp-changes")
				}
			}
			if n[1-k] > 0 {
				ls = append(ls, "h:init:other-heap-live")
			}
			why := "init"
			if other {
				why = "initc"
			}
			for o := range own {
				if own[o] == k {
					detach(o, why)
				}
			}
			for _, q := range seqs {
				if q.heap == k {
					q.init = true
					if other {
						q.initc = true
					}
				} else {
					q.other = true
				}
			}
			for _, q := range curs {
				if q.heap == k {
					q.init = true
				}
			}
			grow(len(cells))
			for o := len(prev); o < len(cells); o++ {
				own[o] = k
				seenVals = append(seenVals, cells[o].val)
			}
			capNow[k], capFrom[k] = len(cells)-len(prev), "init"
			ls = append(ls, "h:init:n="+sizeBucket(len(cells)-len(prev)))
		case "push":
			grow(len(cells))
			if k >= 0 && len(cells) == len(prev)+1 {
				o := len(prev)
				own[o] = k
				seenVals = append(seenVals, cells[o].val)
				ls = append(ls, "h:push"+move(n[k], cells[o].idx))
				if n[k] == capNow[k] {
					// append reallocates: every handle now lives in a new array
					ls = append(ls, "h:push:at-cap:"+capFrom[k])
					if capFrom[k] == "new" && capNow[k] > 0 {
						ls = append(ls, "h:push:crosses-New-cap>0")
					}
					capNow[k] = -1
				}
				modified(k)
			}
		case "pushe":
			if !handleOp {
				break
			}
			switch {
			case own[e] >= 0:
				ls = append(ls, "h:pushe:misuse")
			case how[e] == "":
				ls = append(ls, "h:pushe:never-attached")
			default:
				ls = append(ls, "h:pushe:after-"+how[e])
				if fromHeap[e] >= 0 && fromHeap[e] != k {
					ls = append(ls, "h:pushe:after-"+how[e]+":other-heap")
				}
			}
			if n[k] == capNow[k] {
				ls = append(ls, "h:pushe:at-cap:"+capFrom[k])
				capNow[k] = -1
			}
			viaInitc[e] = own[e] < 0 && how[e] == "initc"
			own[e], repushed[e] = k, true
			ls = append(ls, "h:pushe"+move(n[k], cells[e].idx))
			modified(k)
		case "pop":
			if k < 0 {
				break
			}
			switch n[k] {
			case 0:
				ls = append(ls, "h:pop:empty")
			case 1:
				ls = append(ls, "h:pop:single")
			}
			if p, err := strconv.Atoi(res); err == nil && p >= 0 && p < len(own) {
				if repushed[p] {
					ls = append(ls, "h:pop:repushed")
					if viaInitc[p] {
						ls = append(ls, "h:pop:repushed:after-initc")
					}
				}
				detach(p, "pop")
				modified(k)
			}
		case "peek":
			if k >= 0 && n[k] == 0 {
				ls = append(ls, "h:peek:empty")
			}
		case "popall":
			if k < 0 {
				break
			}
			ls = append(ls, "h:"+opName+":n="+sizeBucket(n[k]))
			for o := range own {
				if own[o] == k {
					detach(o, "popall")
				}
			}
			if sq == nil {
				modified(k)
			} else {
				for _, q := range seqs {
					if q != sq {
						if q.heap == k {
							q.mutated = true
						} else {
							q.other = true
						}
					}
				}
			}
		case "popalln":
			if k < 0 || len(t) != 3 {
				break
			}
			ls = append(ls, "h:"+opName+":n="+sizeBucket(n[k]))
			if stop, ok := atoi(t[2]); ok {
				ls = append(ls, "h:"+opName+":"+stopLabel(stop, n[k]))
			}
			if [2]int{lenA, lenB}[k] > 0 {
				ls = append(ls, "h:"+opName+":partial")
				if n[k] >= 64 {
					ls = append(ls, "h:"+opName+":partial:n>=64")
				}
			}
			for o := range own {
				if own[o] == k && o < len(cells) && cells[o].idx == -1 {
					detach(o, "popall")
				}
			}
			for _, q := range seqs {
				if q != sq && q.heap != k {
					q.other = true
				}
			}
		case "rm", "fix", "setfix":
			if !handleOp {
				break
			}
			if t[0] == "setfix" {
				if v, ok := atoi(t[len(t)-1]); ok {
					seenVals = append(seenVals, v)
				}
				if sameIdx {
					lab += ":unchanged"
				}
			} else if opName == "setrm" {
				if sameIdx {
					lab += ":unchanged"
				}
			} else if tail(out[i]) == tail(out[i-1]) {
				lab += ":unchanged"
			}
			d := "h:" + t[0]
			switch {
			case own[e] == 1-k:
				ls = append(ls, d+":foreign")
				if opName == "setrm" {
					ls = append(ls, "h:setrm:foreign")
				}
			case own[e] < 0:
				ls = append(ls, d+":stale")
				if how[e] != "" {
					ls = append(ls, d+":stale:after-"+how[e])
				}
				if opName == "setrm" {
					ls = append(ls, "h:setrm:stale")
				}
			case t[0] == "rm":
				if repushed[e] {
					ls = append(ls, "h:rm:repushed")
					if viaInitc[e] {
						ls = append(ls, "h:rm:repushed:after-initc")
					}
				}
				last := n[k] - 1
				if prev[e].idx == last {
					ls = append(ls, "h:rm:last")
					if afterSet != "" {
						ls = append(ls, afterSet+":last")
					}
				} else {
					for o := range prev {
						if own[o] == k && prev[o].idx == last {
							mv := move(prev[e].idx, cells[o].idx)
							ls = append(ls, "h:rm"+mv)
							if afterSet == "" {
								continue
							}
							// which way the substitute (the last element) went, and which way a
							// comparison of it with the removed element's NEW value would have pointed
							ls = append(ls, afterSet+mv)
							if prev[e].idx == 0 {
								ls = append(ls, afterSet+":root")
							}
							if cf := cmpOf(cmpName[k]); cf != nil {
								pointsUp := cf(cells[o].val, cells[e].val)
								switch {
								case mv == ":down" && pointsUp:
									ls = append(ls, afterSet+":down-though-substitute-precedes-new-value")
								case mv == ":up" && !pointsUp:
									ls = append(ls, afterSet+":up-though-substitute-does-not-precede-new-value")
								}
							}
							if n[k] >= 64 {
								ls = append(ls, afterSet+":n>=64")
							}
						}
					}
				}
				if afterSet == "h:rm:after-setv" {
					ls = append(ls, afterSet)
				}
				if n[k] == 1 {
					ls = append(ls, "h:rm:single")
				}
				detach(e, "rm")
				modified(k)
			default:
				if repushed[e] {
					ls = append(ls, d+":repushed")
					if viaInitc[e] {
						ls = append(ls, d+":repushed:after-initc")
					}
				}
				ls = append(ls, d+move(prev[e].idx, cells[e].idx))
				if t[0] == "setfix" {
					modified(k)
				}
			}
		case "setv":
			if v, ok := atoi(t[len(t)-1]); ok {
				seenVals = append(seenVals, v)
			}
		}
		ls = append(ls, lab)
		prev = cells
		n = [2]int{lenA, lenB}
		if lenA > maxLen {
			maxLen = lenA
		}
		if lenB > maxLen {
			maxLen = lenB
		}
	}
	ls = append(ls, sizeLabels(maxLen)...)
	ls = append(ls, "h:maxlen="+sizeBucket(maxLen))
	if cmp != nil && len(seenVals) >= 4 && !sawInitc {
		eq := true
		for _, v := range seenVals[1:] {
			if cmp(v, seenVals[0]) || cmp(seenVals[0], v) {
				eq = false
				break
			}
		}
		if eq {
			ls = append(ls, "h:keys:all-equal")
		}
	}
	return ls
}
