package c04

import (
	"fmt"
	"reflect"
	"sort"
	"strconv"
	"strings"
	"unsafe"

	"github.com/welllog/golib/heapz"

	"verifharness/internal/core"
)

type hImpl struct {
	h   [2]*heapz.Heap[int]
	el  []*heapz.Element[int] // id (allocation order) -> element
	ids map[*heapz.Element[int]]int
}

// heapValues reads the private `values` field (read-only: used to learn the handles of the
// elements allocated inside Init, which the API only hands out through Peek/Pop).
func heapValues(h *heapz.Heap[int]) []*heapz.Element[int] {
	f := reflect.ValueOf(h).Elem().FieldByName("values")
	if !f.IsValid() {
		panic("heapz.Heap has no field `values`")
	}
	return *(*[]*heapz.Element[int])(unsafe.Pointer(f.UnsafeAddr()))
}

func (d *hImpl) reg(e *heapz.Element[int]) int {
	if e == nil {
		return -1
	}
	if id, ok := d.ids[e]; ok {
		return id
	}
	id := len(d.el)
	d.el = append(d.el, e)
	d.ids[e] = id
	return id
}

func (d *hImpl) show(e *heapz.Element[int]) string {
	if e == nil {
		return "nil"
	}
	if id, ok := d.ids[e]; ok {
		return strconv.Itoa(id)
	}
	return "?"
}

func (d *hImpl) dump() string {
	var b strings.Builder
	fmt.Fprintf(&b, "A=%d B=%d | ", d.h[0].Len(), d.h[1].Len())
	for id, e := range d.el {
		if id > 0 {
			b.WriteByte(' ')
		}
		if e == nil {
			fmt.Fprintf(&b, "%d:?:?", id)
			continue
		}
		fmt.Fprintf(&b, "%d:%d:%d", id, e.Index(), e.Value)
	}
	return b.String()
}

func heapIdx(t string) int {
	switch t {
	case "A":
		return 0
	case "B":
		return 1
	}
	return -1
}

func implHeap(c core.Case) []string {
	d := &hImpl{ids: map[*heapz.Element[int]]int{}}
	var cmp func(a, b int) bool
	return core.RunOps(c,
		func(hdr []string) string {
			if len(hdr) != 2 {
				return "bad-op"
			}
			cmp = cmpOf(hdr[1])
			if cmp == nil {
				return "bad-op"
			}
			a := heapz.New[int](0, cmp)
			b := heapz.New[int](0, cmp)
			d.h[0], d.h[1] = &a, &b
			return "ok | " + d.dump()
		},
		func(t []string) string {
			r := d.step(t, cmp)
			if r == "bad-op" {
				return r
			}
			return r + " | " + d.dump()
		})
}

func (d *hImpl) step(t []string, cmp func(a, b int) bool) string {
	if len(t) < 2 {
		return "bad-op"
	}
	if t[0] == "setv" {
		if len(t) != 3 {
			return "bad-op"
		}
		e, ok1 := atoi(t[1])
		v, ok2 := atoi(t[2])
		if !ok1 || !ok2 || e < 0 || e >= len(d.el) || d.el[e] == nil || strings.HasPrefix(t[1], "-") {
			return "bad-op"
		}
		d.el[e].Value = v
		return "ok"
	}
	k := heapIdx(t[1])
	if k < 0 {
		return "bad-op"
	}
	h := d.h[k]
	elem := func(s string) *heapz.Element[int] {
		e, ok := atoi(s)
		if !ok || e < 0 || e >= len(d.el) || strings.HasPrefix(s, "-") {
			return nil
		}
		return d.el[e]
	}
	switch {
	case t[0] == "init":
		vs, ok := atois(t[2:])
		if !ok {
			return "bad-op"
		}
		h.Init(vs, cmp)
		// register the new elements in allocation order (= order of vs)
		cur := heapValues(h)
		used := map[*heapz.Element[int]]bool{}
		for _, v := range vs {
			var found *heapz.Element[int]
			for _, e := range cur {
				if _, known := d.ids[e]; e != nil && !known && !used[e] && e.Value == v {
					found = e
					break
				}
			}
			if found == nil {
				d.el = append(d.el, nil) // lost element: shows as `?`
				continue
			}
			used[found] = true
			d.reg(found)
		}
		return "ok"
	case t[0] == "push" && len(t) == 3:
		x, ok := atoi(t[2])
		if !ok {
			return "bad-op"
		}
		e := h.Push(x)
		d.reg(e)
		return d.show(e)
	case t[0] == "pop" && len(t) == 2:
		return d.show(h.Pop())
	case t[0] == "peek" && len(t) == 2:
		return d.show(h.Peek())
	case t[0] == "len" && len(t) == 2:
		return strconv.Itoa(h.Len())
	case t[0] == "rm" && len(t) == 3:
		e := elem(t[2])
		if e == nil {
			return "bad-op"
		}
		h.Remove(e)
		return "ok"
	case t[0] == "fix" && len(t) == 3:
		e := elem(t[2])
		if e == nil {
			return "bad-op"
		}
		h.Fix(e)
		return "ok"
	case t[0] == "popall" && len(t) == 2:
		xs := []int{}
		for x := range h.PopAll() {
			xs = append(xs, x)
		}
		return fmt.Sprint(xs)
	}
	return "bad-op"
}

// ---------------------------------------------------------------- independent oracle

type cell struct{ idx, val int }

func parseHeapDump(l string) (res string, lenA, lenB int, cells []cell, ok bool) {
	p := strings.SplitN(l, " | ", 3)
	if len(p) != 3 {
		// no element yet: "res | A=0 B=0 | "
		if len(p) == 2 && strings.HasSuffix(l, " | ") {
			p = append(p, "")
		} else if strings.HasSuffix(l, " |") {
			p = strings.SplitN(l+" ", " | ", 3)
		}
		if len(p) != 3 {
			return
		}
	}
	res = p[0]
	if _, err := fmt.Sscanf(p[1], "A=%d B=%d", &lenA, &lenB); err != nil {
		return
	}
	for id, f := range strings.Fields(p[2]) {
		q := strings.Split(f, ":")
		if len(q) != 3 || q[0] != strconv.Itoa(id) {
			return
		}
		i, e1 := strconv.Atoi(q[1])
		v, e2 := strconv.Atoi(q[2])
		if e1 != nil || e2 != nil {
			return
		}
		cells = append(cells, cell{i, v})
	}
	ok = true
	return
}

func checkHeap(c core.Case, out []string) *core.Failure {
	hdr := core.Toks(c.Lines[0])
	if len(hdr) != 4 {
		return nil
	}
	cmp := cmpOf(hdr[3])
	if cmp == nil {
		return nil
	}
	live := [2]map[int]bool{{}, {}} // reference: which element ids each heap holds
	vals := []int{}                 // reference: value of every element
	dirty := map[int]bool{}         // elements whose value changed without Fix yet
	// broken[k]: the caller changed a value and went on using the heap without Fix:
	// nothing about the order is promised any more (until the heap is emptied / re-initialised)
	broken := [2]bool{}
	anyDirty := func(k int) bool {
		if broken[k] {
			return true
		}
		for e := range dirty {
			if live[k][e] {
				return true
			}
		}
		return false
	}
	for i := 0; i < len(c.Lines); i++ {
		t := core.Toks(c.Lines[i])
		if out[i] == "bad-op" {
			return nil
		}
		if out[i] == "panic" || out[i] == "dead" {
			return fail("heap-panic", i, c, out, "a Heap method panicked")
		}
		res, lenA, lenB, cells, ok := parseHeapDump(out[i])
		if !ok {
			return fail("heap-format", i, c, out, "unparsable")
		}
		if i > 0 {
			k := -1
			if len(t) >= 2 {
				k = heapIdx(t[1])
			}
			elemArg := func() int {
				e, _ := atoi(t[2])
				return e
			}
			if k >= 0 && !broken[k] && anyDirty(k) {
				switch t[0] {
				case "peek", "len":
				case "fix":
					if e := elemArg(); !dirty[e] || !live[k][e] {
						broken[k] = true
					}
				default:
					broken[k] = true
				}
			}
			switch t[0] {
			case "init":
				vs, _ := atois(t[2:])
				// the previous elements have left the heap
				for e := range live[k] {
					delete(dirty, e)
				}
				broken[k] = false
				live[k] = map[int]bool{}
				for _, v := range vs {
					live[k][len(vals)] = true
					vals = append(vals, v)
				}
			case "push":
				x, _ := atoi(t[2])
				if res != strconv.Itoa(len(vals)) {
					return fail("heap-push", i, c, out, "Push must return the new element (id %d)", len(vals))
				}
				live[k][len(vals)] = true
				vals = append(vals, x)
			case "pop", "peek":
				if len(live[k]) == 0 {
					if res != "nil" {
						return fail("heap-"+t[0]+"-empty", i, c, out, "empty heap must return nil")
					}
					break
				}
				e, err := strconv.Atoi(res)
				if err != nil || !live[k][e] {
					return fail("heap-"+t[0], i, c, out, "must return an element of this heap (holding %v)", keys(live[k]))
				}
				if !anyDirty(k) {
					for o := range live[k] {
						if cmp(vals[o], vals[e]) {
							return fail("heap-"+t[0]+"-min", i, c, out, "element %d (value %d) precedes the returned element %d (value %d)", o, vals[o], e, vals[e])
						}
					}
				}
				if t[0] == "pop" {
					delete(live[k], e)
					delete(dirty, e)
				}
			case "len":
				if res != strconv.Itoa(len(live[k])) {
					return fail("heap-len", i, c, out, "multiset size is %d", len(live[k]))
				}
			case "rm":
				e := elemArg()
				if live[k][e] {
					delete(live[k], e)
					delete(dirty, e)
				} else if tail(out[i]) != tail(out[i-1]) {
					return fail("heap-rm-stale", i, c, out, "Remove with a stale/foreign handle must not change anything (before: %s)", tail(out[i-1]))
				}
			case "fix":
				e := elemArg()
				if live[k][e] {
					delete(dirty, e)
				} else if tail(out[i]) != tail(out[i-1]) {
					return fail("heap-fix-stale", i, c, out, "Fix with a stale/foreign handle must not change anything (before: %s)", tail(out[i-1]))
				}
			case "setv":
				e, _ := atoi(t[1])
				v, _ := atoi(t[2])
				vals[e] = v
				for kk := 0; kk < 2; kk++ {
					if !live[kk][e] {
						continue
					}
					// Fix promises to repair ONE changed element: a second pending change breaks the contract
					for o := range dirty {
						if o != e && live[kk][o] {
							broken[kk] = true
						}
					}
					dirty[e] = true
				}
			case "popall":
				xs, ok := parseInts(res)
				if !ok {
					return fail("heap-format", i, c, out, "unparsable")
				}
				var want []int
				for e := range live[k] {
					want = append(want, vals[e])
				}
				if !sameMultiset(xs, want) {
					return fail("heap-popall-multiset", i, c, out, "PopAll must yield exactly the multiset %v", want)
				}
				if !anyDirty(k) && !sortedBy(xs, cmp) {
					return fail("heap-popall-sorted", i, c, out, "PopAll is not sorted")
				}
				for e := range live[k] {
					delete(dirty, e)
				}
				broken[k] = false
				live[k] = map[int]bool{}
			}
		}
		// state predicate after every call
		if len(cells) != len(vals) {
			return fail("heap-handles", i, c, out, "%d elements were allocated, %d are known to the harness", len(vals), len(cells))
		}
		if lenA != len(live[0]) || lenB != len(live[1]) {
			return fail("heap-len", i, c, out, "Len must be %d / %d", len(live[0]), len(live[1]))
		}
		for e, cl := range cells {
			if cl.val != vals[e] {
				return fail("heap-value", i, c, out, "element %d: Value %d, expected %d", e, cl.val, vals[e])
			}
			if !live[0][e] && !live[1][e] && cl.idx != -1 {
				return fail("heap-index-left", i, c, out, "element %d has left its heap but reports Index()=%d", e, cl.idx)
			}
		}
		for k := 0; k < 2; k++ {
			n := len(live[k])
			arr := make([]int, n)
			for j := range arr {
				arr[j] = -1
			}
			for e := range live[k] {
				ix := cells[e].idx
				if ix < 0 || ix >= n || arr[ix] != -1 {
					return fail("heap-index", i, c, out, "live element %d of heap %d reports Index()=%d (not a bijection onto 0..%d)", e, k, ix, n-1)
				}
				arr[ix] = e
			}
			if !anyDirty(k) {
				for j := 1; j < n; j++ {
					if cmp(vals[arr[j]], vals[arr[(j-1)/2]]) {
						return fail("heap-order", i, c, out, "heap %d: element %d at index %d precedes its parent %d", k, arr[j], j, arr[(j-1)/2])
					}
				}
			}
		}
	}
	return nil
}

func keys(m map[int]bool) []int {
	var r []int
	for k := range m {
		r = append(r, k)
	}
	sort.Ints(r)
	return r
}

// ---------------------------------------------------------------- generator

// The generator keeps an approximate picture (a stable sorted list per heap) only to aim
// handle choices: 85% live in the heap addressed, 10% stale, 5% of the other heap.
type hSim struct {
	live  [2][]int
	stale []int
	vals  []int
	cmp   func(a, b int) bool
}

func (g *hSim) popMin(k int) {
	if len(g.live[k]) == 0 {
		return
	}
	best := 0
	for i, e := range g.live[k] {
		if g.cmp(g.vals[e], g.vals[g.live[k][best]]) {
			best = i
		}
	}
	g.stale = append(g.stale, g.live[k][best])
	g.live[k] = append(append([]int{}, g.live[k][:best]...), g.live[k][best+1:]...)
}

func (g *hSim) pick(r *core.Rand, k int) int {
	if len(g.vals) == 0 {
		return -1
	}
	for try := 0; try < 4; try++ {
		switch r.Pick(85, 10, 5) {
		case 0:
			if n := len(g.live[k]); n > 0 {
				return g.live[k][r.Intn(n)]
			}
		case 1:
			if n := len(g.stale); n > 0 {
				return g.stale[r.Intn(n)]
			}
		case 2:
			if n := len(g.live[1-k]); n > 0 {
				return g.live[1-k][r.Intn(n)]
			}
		}
	}
	return r.Intn(len(g.vals))
}

func (g *hSim) drop(k, e int) {
	for i, x := range g.live[k] {
		if x == e {
			g.live[k] = append(append([]int{}, g.live[k][:i]...), g.live[k][i+1:]...)
			g.stale = append(g.stale, e)
			return
		}
	}
}

func genHeap(r *core.Rand) core.Case {
	cn := pickCmp(r)
	g := &hSim{cmp: cmpOf(cn)}
	tg := &tagger{}
	lines := []string{"@ C04 heap " + cn}
	names := []string{"A", "B"}
	newVal := func() int {
		v := r.Range(0, 5)*1000 + len(g.vals)%1000
		_ = tg
		return v
	}
	doInit := func(k int) {
		n := r.Range(0, 8)
		l := "init " + names[k]
		g.stale = append(g.stale, g.live[k]...)
		g.live[k] = nil
		for i := 0; i < n; i++ {
			v := newVal()
			l += " " + strconv.Itoa(v)
			g.live[k] = append(g.live[k], len(g.vals))
			g.vals = append(g.vals, v)
		}
		lines = append(lines, l)
	}
	if r.Chance(60) {
		doInit(0)
	}
	if r.Chance(40) {
		doInit(1)
	}
	ops := r.Range(1, 60)
	for len(lines) <= ops {
		k := 0
		if r.Chance(30) {
			k = 1
		}
		H := names[k]
		switch r.Pick(30, 14, 3, 2, 22, 14, 5, 1, initWeight) {
		case 0:
			v := newVal()
			lines = append(lines, fmt.Sprintf("push %s %d", H, v))
			g.live[k] = append(g.live[k], len(g.vals))
			g.vals = append(g.vals, v)
		case 1:
			lines = append(lines, "pop "+H)
			g.popMin(k)
		case 2:
			lines = append(lines, "peek "+H)
		case 3:
			lines = append(lines, "len "+H)
		case 4:
			e := g.pick(r, k)
			if e < 0 {
				continue
			}
			lines = append(lines, fmt.Sprintf("rm %s %d", H, e))
			g.drop(k, e)
		case 5:
			e := g.pick(r, k)
			if e < 0 {
				continue
			}
			v := r.Range(0, 5)*1000 + e%1000
			lines = append(lines, fmt.Sprintf("setv %d %d", e, v))
			g.vals[e] = v
			if !r.Chance(4) {
				lines = append(lines, fmt.Sprintf("fix %s %d", H, e))
			}
		case 6:
			e := g.pick(r, k)
			if e < 0 {
				continue
			}
			lines = append(lines, fmt.Sprintf("fix %s %d", H, e))
		case 7:
			lines = append(lines, "popall "+H)
			g.stale = append(g.stale, g.live[k]...)
			g.live[k] = nil
		case 8:
			doInit(k)
		}
	}
	return core.Case{Lines: lines, Tag: "heap"}
}

// initWeight: weight of re-initialising a heap in the middle of a sequence.
const initWeight = 2
