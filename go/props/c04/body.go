package c04

import (
	"fmt"
	"strconv"
	"strings"

	"github.com/welllog/golib/heapz"

	"verifharness/internal/core"
)

// Wave 5, protocol A: `popallbody` — ranging over PopAll() with a loop body that uses the heap.
//
//	heap : popallbody <A|B> <k> <item>…     slice : popallbody <k> <item>…
//
//	i := 0
//	for v := range h.PopAll() {
//		yielded = append(yielded, v)
//		… the items of iteration i, in the order written …
//		i++
//		if i == k { break }          // k = 0: never (drain)
//	}
//
// An item is one token `i:act[:args]`: heap `i:push:<H>:<v>` (result: id of the new element)
// `i:peek:<H>` `i:pop:<H>` (element id, -1 for nil) `i:len:<H>` (n) `i:rm:<H>:<e>` `i:fix:<H>:<e>`
// (no result; e is an element id that exists when the LINE starts); slice `i:push:<v>` (no
// result) `i:peek` `i:pop` `i:rm:<idx>` (value, 1|0) `i:len` (n) `i:fix:<idx>` (no result).
// Output: `<[yielded values]> <[body results, flattened]>` + the usual state.

type bodyItem struct {
	it   int    // the iteration (0-based) whose body runs it
	act  string // push peek len pop rm fix
	heap int    // heap kind: 0 = A, 1 = B (slice: 0)
	arg  int    // push: the value; rm / fix: element id (heap) or index (slice)
}

// natTok: a natural number without sign (what Lean's String.toNat? takes).
func natTok(s string) (int, bool) {
	v, ok := atoi(s)
	if !ok || v < 0 || strings.HasPrefix(s, "-") || v > 1<<40 {
		return 0, false
	}
	return v, true
}

// parseBodyItems: heapKind: items name a heap and element ids < nEl (the handles that exist
// when the line starts); otherwise the slice forms.
func parseBodyItems(ts []string, heapKind bool, nEl int) ([]bodyItem, bool) {
	items := make([]bodyItem, 0, len(ts))
	for _, tok := range ts {
		p := strings.Split(tok, ":")
		if len(p) < 2 {
			return nil, false
		}
		it, ok := natTok(p[0])
		if !ok {
			return nil, false
		}
		b := bodyItem{it: it, act: p[1]}
		rest := p[2:]
		if heapKind {
			if len(rest) < 1 {
				return nil, false
			}
			b.heap = heapIdx(rest[0])
			if b.heap < 0 {
				return nil, false
			}
			rest = rest[1:]
		}
		switch b.act {
		case "peek", "len", "pop":
			if len(rest) != 0 {
				return nil, false
			}
		case "push":
			if len(rest) != 1 {
				return nil, false
			}
			if b.arg, ok = atoi(rest[0]); !ok {
				return nil, false
			}
		case "rm", "fix":
			if len(rest) != 1 {
				return nil, false
			}
			if heapKind {
				if b.arg, ok = natTok(rest[0]); !ok || b.arg >= nEl {
					return nil, false
				}
			} else if b.arg, ok = atoi(rest[0]); !ok {
				return nil, false
			}
		default:
			return nil, false
		}
		items = append(items, b)
	}
	return items, true
}

// byIteration groups the items by their iteration, keeping the order written.
func byIteration(items []bodyItem) (m map[int][]bodyItem, pushes int) {
	m = map[int][]bodyItem{}
	for _, b := range items {
		m[b.it] = append(m[b.it], b)
		if b.act == "push" {
			pushes++
		}
	}
	return
}

func (d *hImpl) idOf(e *heapz.Element[int]) int {
	if e == nil {
		return -1
	}
	if id, ok := d.ids[e]; ok {
		return id
	}
	return -2 // an element the harness never saw
}

// popAllBody runs the loop on the real Heap.
func (d *hImpl) popAllBody(k, stop int, items []bodyItem) string {
	for _, b := range items {
		if (b.act == "rm" || b.act == "fix") && d.el[b.arg] == nil {
			return "bad-op"
		}
	}
	script, pushes := byIteration(items)
	// a correct loop runs at most Len + pushes times; beyond that the harness gives up (a
	// body that keeps the loop alive for ever is not in the protocol: every item runs once)
	limit := d.h[0].Len() + d.h[1].Len() + pushes + 8
	ys, rs := []int{}, []int{}
	i := 0
	for v := range d.h[k].PopAll() {
		ys = append(ys, v)
		if i >= limit {
			return "runaway"
		}
		for _, b := range script[i] {
			h := d.h[b.heap]
			switch b.act {
			case "push":
				rs = append(rs, d.reg(h.Push(b.arg)))
			case "peek":
				rs = append(rs, d.idOf(h.Peek()))
			case "pop":
				rs = append(rs, d.idOf(h.Pop()))
			case "len":
				rs = append(rs, h.Len())
			case "rm":
				h.Remove(d.el[b.arg])
			case "fix":
				h.Fix(d.el[b.arg])
			}
		}
		i++
		if i == stop {
			break
		}
	}
	return fmt.Sprintf("%v %v", ys, rs)
}

func b2i(b bool) int {
	if b {
		return 1
	}
	return 0
}

// slicePopAllBody runs the loop on the real Slice.
func slicePopAllBody(s *heapz.Slice[int], stop int, items []bodyItem) string {
	script, pushes := byIteration(items)
	limit := s.Len() + pushes + 8
	ys, rs := []int{}, []int{}
	i := 0
	for v := range s.PopAll() {
		ys = append(ys, v)
		if i >= limit {
			return "runaway"
		}
		for _, b := range script[i] {
			switch b.act {
			case "push":
				s.Push(b.arg)
			case "peek":
				x, ok := s.Peek()
				rs = append(rs, x, b2i(ok))
			case "pop":
				x, ok := s.Pop()
				rs = append(rs, x, b2i(ok))
			case "len":
				rs = append(rs, s.Len())
			case "rm":
				x, ok := s.Remove(b.arg)
				rs = append(rs, x, b2i(ok))
			case "fix":
				s.Fix(b.arg)
			}
		}
		i++
		if i == stop {
			break
		}
	}
	return fmt.Sprintf("%v %v", ys, rs)
}

// parseTwoLists: "[a b] [c d]" -> the two lists.
func parseTwoLists(s string) (a, b []int, ok bool) {
	s = strings.TrimSpace(s)
	j := strings.Index(s, "] [")
	if j < 0 {
		return nil, nil, false
	}
	a, ok1 := parseInts(s[:j+1])
	b, ok2 := parseInts(s[j+2:])
	return a, b, ok1 && ok2
}

// Protocol B: iter.Pull cursors over a held Seq.
type cursor struct {
	next func() (int, bool)
	stop func()
}

// stopAll ends every cursor of a finished case (iter.Pull keeps a goroutine per cursor until
// its stop function is called or the sequence ends).
func stopAll(cs []cursor) {
	for _, c := range cs {
		core.Guard(func() string { c.stop(); return "" })
	}
}

func showNext(v int, ok bool) string {
	if !ok {
		return "0 false"
	}
	return strconv.Itoa(v) + " true"
}

// ---------------------------------------------------------------- generator

// precedingKey: a key whose values precede (under the comparator named) every value of key ky;
// ok = false when there is none the generator uses (keys stay >= 0).
func precedingKey(r *core.Rand, ky int, cname string) (int, bool) {
	switch cname {
	case "lt", "key":
		if ky <= 0 {
			return 0, false
		}
		if r.Bool() {
			return ky - 1, true
		}
		return r.Range(0, ky-1), true
	}
	return ky + 1 + r.Intn(3), true
}

// followingKey: a key whose values come after (or tie with, at the border) those of key ky.
func followingKey(r *core.Rand, ky int, cname string) int {
	switch cname {
	case "lt", "key":
		return ky + 1 + r.Intn(3)
	}
	return max(ky-1-r.Intn(3), 0)
}

// bodyStop: k of a popallbody line: 0 (drain) or an early stop aimed like pickStop.
func bodyStop(r *core.Rand, n int) int {
	if r.Chance(45) {
		return 0
	}
	return pickStop(r, n)
}

// hotIterations: the iterations whose bodies get items: the first few, the middle, the last.
func hotIterations(n, stop int) map[int]bool {
	hot := map[int]bool{0: true, 1: true, 2: true, n / 2: true, n - 1: true}
	if stop > 0 {
		hot[stop-1] = true
	}
	return hot
}

// genHeapBody writes one `popallbody` line for heap k and plays it on the generator's picture
// g. cname: the comparator names the two heaps have now; fresh(id): a value for a new element.
func genHeapBody(r *core.Rand, g *hSim, k, stop int, cname [2]string, fresh func(id int) int, plainOnly bool) string {
	names := []string{"A", "B"}
	n0 := len(g.arr[k])
	nEl := len(g.vals) // the handles that exist when the line starts
	hot := hotIterations(n0, stop)
	budget := []int{0, 1, 2, 3, 4, 5, 6}[r.Pick(8, 18, 22, 20, 14, 10, 8)]
	var items []string
	var yielded []int
	handle := func(h, y int) int {
		if nEl == 0 {
			return -1
		}
		e := -1
		switch r.Pick(40, 22, 14, 6, 12, 6) {
		case 0:
			if len(g.arr[h]) > 0 {
				e = g.pickLive(r, h)
			}
		case 1:
			// the element the NEXT iteration would yield
			if len(g.arr[k]) > 0 {
				e = g.arr[k][0]
			}
		case 2:
			e = y // the element this iteration yielded: stale by now
		case 3:
			e = yielded[r.Intn(len(yielded))]
		case 4:
			if d := g.detached(); len(d) > 0 {
				e = d[r.Intn(len(d))]
			}
		case 5:
			if len(g.arr[1-h]) > 0 {
				e = g.arr[1-h][r.Intn(len(g.arr[1-h]))]
			}
		}
		if e < 0 || e >= nEl {
			// (elements pushed by this very line cannot be named)
			e = r.Intn(nEl)
		}
		return e
	}
	push := func(i, h, v int) {
		items = append(items, fmt.Sprintf("%d:push:%s:%d", i, names[h], v))
		g.attach(h, g.alloc(v))
	}
	one := func(i, y int) {
		h := k
		if r.Chance(22) {
			h = 1 - k
		}
		H := names[h]
		id := len(g.vals)
		ky := g.vals[y] / 1000
		act := r.Pick(26, 8, 6, 16, 6, 8, 18, 10)
		if plainOnly && act <= 1 {
			act = 2
		}
		switch act {
		case 0:
			// a value that PRECEDES the element just yielded: the next iteration must yield it
			if h != k {
				push(i, h, fresh(id))
				break
			}
			key, ok := precedingKey(r, ky, cname[k])
			if !ok {
				key = ky // the best there is: a tie with the element just yielded
			}
			push(i, h, key*1000+id%1000)
			if budget > 0 && r.Chance(55) {
				budget--
				items = append(items, fmt.Sprintf("%d:peek:%s", i, H))
			}
		case 1:
			push(i, h, followingKey(r, ky, cname[k])*1000+id%1000)
			if budget > 0 && r.Chance(30) {
				budget--
				items = append(items, fmt.Sprintf("%d:len:%s", i, H))
			}
		case 2:
			push(i, h, fresh(id))
		case 3:
			items = append(items, fmt.Sprintf("%d:peek:%s", i, H))
		case 4:
			items = append(items, fmt.Sprintf("%d:len:%s", i, H))
		case 5:
			items = append(items, fmt.Sprintf("%d:pop:%s", i, H))
			g.pop(h, 'p')
		case 6:
			if e := handle(h, y); e >= 0 {
				items = append(items, fmt.Sprintf("%d:rm:%s:%d", i, H, e))
				g.remove(h, e)
			}
		case 7:
			if e := handle(h, y); e >= 0 {
				items = append(items, fmt.Sprintf("%d:fix:%s:%d", i, H, e))
				g.fix(h, e)
			}
		}
	}
	i := 0
	for ; len(g.arr[k]) > 0; i++ {
		y := g.arr[k][0]
		g.pop(k, 'a')
		yielded = append(yielded, y)
		if budget > 0 && (hot[i] && r.Chance(60) || r.Chance(2)) {
			m := r.Range(1, min(3, budget))
			budget -= m
			for ; m > 0; m-- {
				one(i, y)
			}
		}
		if i+1 == stop {
			i++
			break
		}
	}
	if r.Chance(12) {
		// an item of an iteration that never runs (the loop has ended by then)
		items = append(items, fmt.Sprintf("%d:push:%s:%d", i+r.Intn(2), names[k], fresh(len(g.vals))))
	}
	l := fmt.Sprintf("popallbody %s %d", names[k], stop)
	if len(items) > 0 {
		l += " " + strings.Join(items, " ")
	}
	return l
}

// genSliceBody: the same for the Slice (sim.arr[0] is the generator's picture of Values).
func genSliceBody(r *core.Rand, sim *hSim, stop int, cname string, fresh func() int, tag func() int) string {
	n0 := len(sim.arr[0])
	hot := hotIterations(n0, stop)
	budget := []int{0, 1, 2, 3, 4, 5, 6}[r.Pick(8, 18, 22, 20, 14, 10, 8)]
	var items []string
	push := func(i, v int) {
		items = append(items, fmt.Sprintf("%d:push:%d", i, v))
		sim.attach(0, sim.alloc(v))
	}
	one := func(i, y int) {
		ky := sim.vals[y] / 1000
		switch r.Pick(28, 8, 6, 16, 6, 8, 18, 10) {
		case 0:
			key, ok := precedingKey(r, ky, cname)
			if !ok {
				key = ky
			}
			push(i, key*1000+tag())
			if budget > 0 && r.Chance(55) {
				budget--
				items = append(items, fmt.Sprintf("%d:peek", i))
			}
		case 1:
			push(i, followingKey(r, ky, cname)*1000+tag())
			if budget > 0 && r.Chance(30) {
				budget--
				items = append(items, fmt.Sprintf("%d:len", i))
			}
		case 2:
			push(i, fresh())
		case 3:
			items = append(items, fmt.Sprintf("%d:peek", i))
		case 4:
			items = append(items, fmt.Sprintf("%d:len", i))
		case 5:
			items = append(items, fmt.Sprintf("%d:pop", i))
			sim.pop(0, 'p')
		case 6:
			ix := simIndex(r, sim)
			items = append(items, fmt.Sprintf("%d:rm:%d", i, ix))
			if ix >= 0 && ix < len(sim.arr[0]) {
				sim.remove(0, sim.arr[0][ix])
			}
		case 7:
			ix := pickIndex(r, len(sim.arr[0]))
			items = append(items, fmt.Sprintf("%d:fix:%d", i, ix))
			if ix >= 0 && ix < len(sim.arr[0]) {
				sim.fix(0, sim.arr[0][ix])
			}
		}
	}
	i := 0
	for ; len(sim.arr[0]) > 0; i++ {
		y := sim.arr[0][0]
		sim.pop(0, 'p')
		if budget > 0 && (hot[i] && r.Chance(60) || r.Chance(2)) {
			m := r.Range(1, min(3, budget))
			budget -= m
			for ; m > 0; m-- {
				one(i, y)
			}
		}
		if i+1 == stop {
			i++
			break
		}
	}
	if r.Chance(12) {
		items = append(items, fmt.Sprintf("%d:push:%d", i+r.Intn(2), fresh()))
	}
	l := fmt.Sprintf("popallbody %d", stop)
	if len(items) > 0 {
		l += " " + strings.Join(items, " ")
	}
	return l
}

// genCursors: the generator's picture of the iter.Pull cursors of a case.
type genCursors struct {
	slot []int  // cursor -> Seq slot
	done []bool // finished (exhausted / stopped)
	last int
}

func (c *genCursors) add(slot int) int {
	c.slot = append(c.slot, slot)
	c.done = append(c.done, false)
	return len(c.slot) - 1
}

// pick: with two or more cursors mostly ANOTHER one than the last time (they alternate);
// finished ones stay in the draw (next after stop / after exhaustion).
func (c *genCursors) pick(r *core.Rand) int {
	n := len(c.slot)
	if n == 1 {
		return 0
	}
	if r.Chance(65) {
		j := (c.last + 1 + r.Intn(n-1)) % n
		return j
	}
	return r.Intn(n)
}
