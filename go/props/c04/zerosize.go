package c04

import (
	"fmt"
	"math"

	"github.com/welllog/golib/heapz"

	"verifharness/internal/core"
)

// Extra "zero-size" (wave 6, class 8: type parameters). The Lean model treats Go's int as
// unbounded; the one place where the code itself cares about the width of int is the child index
// 2*i+1 in down / std_down, which wraps to a negative number for i >= 2^62 (the `j1 < 0` guard).
// Such an index needs a container of more than 2^62 elements — reachable WITHOUT memory in two
// ways, both Go-only:
//
//   - heapz.Slice[struct{}] with Values = make([]struct{}, n), n up to math.MaxInt (a slice of a
//     zero-size type costs nothing). There is nothing to observe on a struct{} but: no call may
//     panic, Remove / Pop answer ok and Len() goes down by one, Fix / Peek leave Len(), Push (below
//     MaxInt) adds one, and the comparator (always false: all elements are equal, a strict weak
//     order) is called a bounded number of times (<= 2 per level, 63 levels).
//   - the generic functions on a VIRTUAL container: Len() = n, element i is i (a valid min-heap:
//     the parent (i-1)/2 never follows i) except where a sparse overlay says otherwise; Less and
//     Swap work on the overlay and record their arguments. Every index handed to Less / Swap must
//     lie in [0, Len()) — a wrapped negative child index is the failure —, and the calls have the
//     documented effect: an element made the largest sinks from i along the left children to a
//     leaf, one made the smallest climbs to the root, Remove(h, i) returns element i, Pop the root.
//
// n ranges over MaxInt, MaxInt-1, 2^62+2, 2^62+1 (the smallest size with a wrapping index),
// 2^62 and 3*2^61; i over the window around n/2 (the last parent), 2^62-1, 2^62, 2^62+1 (the
// first indices whose child index wraps), 3*2^61, n-2, n-1, 0, 1 and the out-of-range -1, n.

type zeroSizeCase struct {
	Extra     string `json:"extra"`
	Container string `json:"container"`
	N         int    `json:"n"`
	Call      string `json:"call"`
	I         int    `json:"i"`
}

const zeroSizeMaxCalls = 130 // per library call: <= 2 comparisons + 1 swap per level, 63 levels (generic: Less+Swap <= 3 per level)

func zeroSizeNs() []int {
	return []int{math.MaxInt, math.MaxInt - 1, 1<<62 + 2, 1<<62 + 1, 1 << 62, 3 << 61}
}

func zeroSizeIndices(n int) []int {
	cand := []int{n/2 - 2, n/2 - 1, n / 2, n/2 + 1, n/2 + 2, 1<<62 - 1, 1 << 62, 1<<62 + 1, 3 << 61, 1<<61 - 1, 1 << 61, n - 2, n - 1, 0, 1, 2, -1, n}
	seen := map[int]bool{}
	var r []int
	for _, i := range cand {
		if i >= -1 && (i <= n) && !seen[i] {
			seen[i] = true
			r = append(r, i)
		}
	}
	return r
}

// hugeHeap is the virtual container of the generic functions.
type hugeHeap struct {
	n     int
	n0    int         // Len() when the library call started: the bound the recorded indices are held against
	over  map[int]int // index -> value, where it differs from the virtual content data[i] = i
	calls int
	swaps int
	bad   string // the first index outside [0, n0) handed to Less / Swap
}

func (h *hugeHeap) at(i int) int {
	if v, ok := h.over[i]; ok {
		return v
	}
	return i
}

func (h *hugeHeap) note(what string, i, j int) {
	h.calls++
	if h.calls > 100*zeroSizeMaxCalls {
		panic("runaway")
	}
	if (i < 0 || i >= h.n0 || j < 0 || j >= h.n0) && h.bad == "" {
		h.bad = fmt.Sprintf("%s(%d, %d) with Len() = %d", what, i, j, h.n0)
	}
}

func (h *hugeHeap) Len() int { return h.n }
func (h *hugeHeap) Less(i, j int) bool {
	h.note("Less", i, j)
	return h.at(i) < h.at(j)
}
func (h *hugeHeap) Swap(i, j int) {
	h.note("Swap", i, j)
	h.swaps++
	a, b := h.at(i), h.at(j)
	h.over[i], h.over[j] = b, a
}
func (h *hugeHeap) Push(x int) {
	h.over[h.n] = x
	h.n++
}
func (h *hugeHeap) Pop() int {
	h.n--
	x := h.at(h.n)
	delete(h.over, h.n)
	return x
}

// leafBelow: where an element that is larger than everything ends when it sinks from i in a heap
// of n elements whose other elements are in index order (always the left child), and how many
// levels that takes. Overflow-free: i has a left child iff i <= (n-2)/2.
func leafBelow(i, n int) (pos, levels int) {
	for n >= 2 && i <= (n-2)/2 {
		i = 2*i + 1
		levels++
	}
	return i, levels
}

func depthOf(i int) int {
	d := 0
	for i > 0 {
		i = (i - 1) / 2
		d++
	}
	return d
}

func extraZeroSize(ctx *core.Ctx) (int, string, []core.ExtraFailure) {
	var fails []core.ExtraFailure
	seen := map[string]bool{}
	runs, cmpCalls, maxCalls := 0, 0, 0
	report := func(zc zeroSizeCase, key, desc string) {
		if key == "" || seen[key] {
			return
		}
		seen[key] = true
		fails = append(fails, core.ExtraFailure{
			Failure: core.Failure{Key: key, Desc: fmt.Sprintf("%s with %d elements, %s: %s", zc.Container, zc.N, zc.Call, desc)},
			Payload: zc,
		})
	}
	// ------------------------------------------------------------ Slice[struct{}]
	for _, n := range zeroSizeNs() {
		for _, i := range zeroSizeIndices(n) {
			for _, call := range []string{"Fix", "Remove", "Pop", "Push", "Peek"} {
				if (call == "Pop" || call == "Push" || call == "Peek") && i != 0 {
					continue // (no index argument: once per size)
				}
				if call == "Push" && n == math.MaxInt {
					continue // append itself cannot grow a slice beyond MaxInt elements
				}
				runs++
				zc := zeroSizeCase{Extra: "zero-size", Container: "heapz.Slice[struct{}]", N: n, Call: fmt.Sprintf("%s(%d)", call, i), I: i}
				if call != "Fix" && call != "Remove" {
					zc.Call = call + "()"
				}
				calls := 0
				cmp := func(a, b struct{}) bool {
					calls++
					if calls > 100*zeroSizeMaxCalls {
						panic("runaway")
					}
					return false
				}
				key, desc := "", ""
				if o := core.Guard(func() string {
					s := heapz.NewSlice[struct{}](0, cmp)
					s.Values = make([]struct{}, n)
					inRange := i >= 0 && i < n
					wantLen, ok := n, true
					switch call {
					case "Fix":
						s.Fix(i)
					case "Remove":
						_, ok = s.Remove(i)
						if inRange {
							wantLen = n - 1
						}
						ok = ok == inRange
					case "Pop":
						_, ok = s.Pop()
						wantLen = n - 1
					case "Push":
						s.Push(struct{}{})
						wantLen = n + 1
					case "Peek":
						_, ok = s.Peek()
					}
					switch {
					case !ok:
						key, desc = "zero-size-result", "the ok result is wrong"
					case s.Len() != wantLen || len(s.Values) != wantLen:
						key, desc = "zero-size-result", fmt.Sprintf("Len() = %d afterwards, expected %d", s.Len(), wantLen)
					case calls > zeroSizeMaxCalls:
						key, desc = "zero-size-calls", fmt.Sprintf("the comparator was called %d times (a sift is <= 2 comparisons on each of <= 63 levels)", calls)
					}
					return ""
				}); o == "panic" {
					key, desc = "zero-size-panic", "the call panicked (a child index 2*i+1 that wrapped around to a negative number is used as an index?)"
				}
				cmpCalls += calls
				maxCalls = max(maxCalls, calls)
				report(zc, key, desc)
			}
		}
	}
	sliceRuns := runs
	// ------------------------------------------------------------ generic functions, virtual container
	for _, n := range zeroSizeNs() {
		for _, i := range zeroSizeIndices(n) {
			if i < 0 || i >= n {
				continue // outside the documented domain of the generic functions
			}
			for _, call := range []string{"Fix", "Fix-largest", "Fix-smallest", "Remove", "Pop", "Push-smallest"} {
				if (call == "Pop" || call == "Push-smallest") && i != 0 {
					continue
				}
				if call == "Push-smallest" && n == math.MaxInt {
					continue
				}
				runs++
				zc := zeroSizeCase{Extra: "zero-size", Container: "generic functions on a virtual container (element i is i)", N: n, I: i}
				h := &hugeHeap{n: n, n0: n, over: map[int]int{}}
				key, desc := "", ""
				if o := core.Guard(func() string {
					wantLen := n
					switch call {
					case "Fix":
						// nothing changed: nothing moves
						zc.Call = fmt.Sprintf("heapz.Fix(h, %d)", i)
						heapz.Fix[int](h, i)
						if h.swaps != 0 {
							key, desc = "zero-size-order", fmt.Sprintf("%d Swap calls although the container was in order", h.swaps)
						}
					case "Fix-largest":
						zc.Call = fmt.Sprintf("h[%d] = MaxInt; heapz.Fix(h, %d)", i, i)
						h.over[i] = math.MaxInt
						heapz.Fix[int](h, i)
						pos, lv := leafBelow(i, n)
						if h.bad == "" && (h.at(pos) != math.MaxInt || h.swaps != lv) {
							key, desc = "zero-size-order", fmt.Sprintf("the element made the largest must sink %d levels to index %d; %d Swap calls, element %d is there", lv, pos, h.swaps, h.at(pos))
						}
					case "Fix-smallest":
						zc.Call = fmt.Sprintf("h[%d] = -1; heapz.Fix(h, %d)", i, i)
						h.over[i] = -1
						heapz.Fix[int](h, i)
						if h.bad == "" && (h.at(0) != -1 || h.swaps != depthOf(i)) {
							key, desc = "zero-size-order", fmt.Sprintf("the element made the smallest must climb %d levels to the root; %d Swap calls, the root is %d", depthOf(i), h.swaps, h.at(0))
						}
					case "Remove":
						zc.Call = fmt.Sprintf("heapz.Remove(h, %d)", i)
						x, _ := heapz.Remove[int](h, i).(int)
						wantLen = n - 1
						// the substitute n-1 (the largest) sinks from i to a leaf of the n-1 remaining
						pos, lv := leafBelow(i, n-1)
						switch {
						case h.bad != "":
						case x != i:
							key, desc = "zero-size-result", fmt.Sprintf("returned %d, element %d was %d", x, i, i)
						case i != n-1 && (h.at(pos) != n-1 || h.swaps != lv+1):
							key, desc = "zero-size-order", fmt.Sprintf("the substitute %d must sink %d levels to index %d; %d Swap calls (one of them the exchange with the last slot), element %d is there", n-1, lv, pos, h.swaps, h.at(pos))
						}
					case "Pop":
						zc.Call = "heapz.Pop(h)"
						x, _ := heapz.Pop[int](h).(int)
						wantLen = n - 1
						pos, lv := leafBelow(0, n-1)
						switch {
						case h.bad != "":
						case x != 0:
							key, desc = "zero-size-result", fmt.Sprintf("returned %d, the root was 0", x)
						case h.at(pos) != n-1 || h.swaps != lv+1:
							key, desc = "zero-size-order", fmt.Sprintf("the substitute %d must sink %d levels to index %d; %d Swap calls, element %d is there", n-1, lv, pos, h.swaps, h.at(pos))
						}
					case "Push-smallest":
						zc.Call = "heapz.Push(h, -1)"
						h.n0 = n + 1
						heapz.Push[int](h, -1)
						wantLen = n + 1
						if h.bad == "" && (h.at(0) != -1 || h.swaps != depthOf(n)) {
							key, desc = "zero-size-order", fmt.Sprintf("the pushed smallest element must climb %d levels to the root; %d Swap calls, the root is %d", depthOf(n), h.swaps, h.at(0))
						}
					}
					switch {
					case h.bad != "":
						key, desc = "zero-size-negative-index", "the container was handed an index outside [0, Len()): "+h.bad+" (a child index 2*i+1 that wrapped around?)"
					case key != "":
					case h.Len() != wantLen:
						key, desc = "zero-size-result", fmt.Sprintf("Len() = %d afterwards, expected %d", h.Len(), wantLen)
					case h.calls > 2*zeroSizeMaxCalls:
						key, desc = "zero-size-calls", fmt.Sprintf("%d Less / Swap calls (a sift is <= 2 Less + 1 Swap on each of <= 63 levels)", h.calls)
					}
					return ""
				}); o == "panic" {
					key, desc = "zero-size-panic", "the call panicked"
					if h.bad != "" {
						key, desc = "zero-size-negative-index", "the container was handed an index outside [0, Len()): "+h.bad
					}
				}
				cmpCalls += h.calls
				maxCalls = max(maxCalls, h.calls)
				report(zc, key, desc)
			}
		}
	}
	note := fmt.Sprintf("%d library calls on containers of 2^62 .. MaxInt elements that cost no memory: %d on heapz.Slice[struct{}] (Values = make([]struct{}, n); Fix / Remove at the last parents, at the first indices whose child index 2*i+1 wraps around, at the ends and out of range; Pop / Push / Peek) — no panic, ok / Len() as documented, comparator calls bounded; %d generic-function calls on a virtual container (Len() = n, element i is i, sparse overlay; Fix unchanged / made largest / made smallest, Remove, Pop, Push) — every index handed to Less / Swap inside [0, Len()), the element ends where a sift must put it, the number of Swap calls is the number of levels; %d comparator / Less / Swap calls in all, at most %d in one library call",
		runs, sliceRuns, runs-sliceRuns, cmpCalls, maxCalls)
	return runs, note, fails
}
