package c04

import (
	"fmt"
	"iter"
	"strconv"
	"strings"

	"github.com/welllog/golib/heapz"

	"verifharness/internal/core"
)

// Extra "seq-reuse" (wave 4, class 1: handle / iterator reuse). ONE Seq value `q := h.PopAll()`
// is used in every way a Go program can use an iter.Seq:
//
//	nested   for x := range q { for y := range q { …break after j… } … }   (the Seq nested over itself)
//	pull     two / three iter.Pull(q) cursors driven alternately (next0, next1, next0, stop0, next1 …),
//	         a new cursor pulled from the same q after a stop
//	mutate   a cursor kept across Push / Remove / Value write + Fix / Init with ANOTHER comparator
//	mixed    all of it, plus plain `for … range q` loops left early, between the cursor steps
//
// for Heap and Slice, built by Init / FromSlice / pushes / New(cap) + pushes over the capacity,
// sizes 0..40 and 63/64/65/200. Go-only; the reference is a plain multiset with the comparator
// in force: whoever hands out a value (a loop body, a cursor) hands out a minimum of the
// reference at that moment, nothing is lost or handed out twice; at the end the structure is
// intact (heap order, handle indices a bijection, detached handles -1) and a last plain range
// over the SAME q drains the rest in order.

type seqReuseCase struct {
	Type   string   `json:"type"`  // Heap | Slice
	Cmp    string   `json:"cmp"`   // comparator given to New / FromSlice
	Build  string   `json:"build"` // init | push
	Cap    int      `json:"cap"`   // capacity given to New / NewSlice (build == push)
	Mode   string   `json:"mode"`  // nested | pull | mutate | mixed
	Values []int    `json:"values"`
	Script []string `json:"script"`
	Trace  []string `json:"trace,omitempty"` // what the steps handed out, up to the failure
}

// pq is the object under test behind one face (Heap with its handles / Slice).
type pq interface {
	push(v int)
	seq() iter.Seq[int]
	size() int
	reinit(vs []int, cmp func(a, b int) bool) bool // Heap.Init (false: the type has none)
	remove(v int) bool                             // remove the element carrying v
	setFix(v, nv int) bool                         // element carrying v: Value = nv; Fix
	validate(ref []int, cmp func(a, b int) bool) string
}

type pqHeap struct {
	h     *heapz.Heap[int]
	byVal map[int]*heapz.Element[int]
	all   []*heapz.Element[int]
}

func (p *pqHeap) push(v int) {
	e := p.h.Push(v)
	p.byVal[v] = e
	p.all = append(p.all, e)
}
func (p *pqHeap) seq() iter.Seq[int] { return p.h.PopAll() }
func (p *pqHeap) size() int          { return p.h.Len() }
func (p *pqHeap) learn() {
	for _, e := range heapValues(p.h) {
		if e != nil && p.byVal[e.Value] != e {
			p.byVal[e.Value] = e
			p.all = append(p.all, e)
		}
	}
}
func (p *pqHeap) reinit(vs []int, cmp func(a, b int) bool) bool {
	p.h.Init(append([]int{}, vs...), cmp)
	p.learn()
	return true
}
func (p *pqHeap) remove(v int) bool {
	e := p.byVal[v]
	if e == nil {
		return false
	}
	p.h.Remove(e)
	return true
}
func (p *pqHeap) setFix(v, nv int) bool {
	e := p.byVal[v]
	if e == nil {
		return false
	}
	e.Value = nv
	delete(p.byVal, v)
	p.byVal[nv] = e
	p.h.Fix(e)
	return true
}
func (p *pqHeap) validate(ref []int, cmp func(a, b int) bool) string {
	n := p.h.Len()
	if n != len(ref) {
		return fmt.Sprintf("Len() = %d, the reference holds %d", n, len(ref))
	}
	arr := make([]int, n)
	used := make([]bool, n)
	in := map[*heapz.Element[int]]bool{}
	for _, v := range ref {
		e := p.byVal[v]
		if e == nil || e.Value != v {
			return fmt.Sprintf("the handle of value %d carries another value / is unknown", v)
		}
		ix := e.Index()
		if ix < 0 || ix >= n || used[ix] {
			return fmt.Sprintf("live handle (value %d) reports Index()=%d with Len()=%d: not a bijection", v, ix, n)
		}
		used[ix], arr[ix] = true, v
		in[e] = true
	}
	if j, ok := heapOrdered(arr, cmp); !ok {
		return fmt.Sprintf("the element at index %d (%d) precedes its parent (%d)", j, arr[j], arr[(j-1)/2])
	}
	for _, e := range p.all {
		if !in[e] && e.Index() != -1 {
			return fmt.Sprintf("the handle with value %d has left the heap but reports Index()=%d", e.Value, e.Index())
		}
	}
	return ""
}

type pqSlice struct{ s *heapz.Slice[int] }

func (p *pqSlice) push(v int)                             { p.s.Push(v) }
func (p *pqSlice) seq() iter.Seq[int]                     { return p.s.PopAll() }
func (p *pqSlice) size() int                              { return p.s.Len() }
func (p *pqSlice) reinit([]int, func(a, b int) bool) bool { return false }
func (p *pqSlice) find(v int) int {
	for i, x := range p.s.Values {
		if x == v {
			return i
		}
	}
	return -1
}
func (p *pqSlice) remove(v int) bool {
	i := p.find(v)
	if i < 0 {
		return false
	}
	x, ok := p.s.Remove(i)
	return ok && x == v
}
func (p *pqSlice) setFix(v, nv int) bool {
	i := p.find(v)
	if i < 0 {
		return false
	}
	p.s.Values[i] = nv
	p.s.Fix(i)
	return true
}
func (p *pqSlice) validate(ref []int, cmp func(a, b int) bool) string {
	vals := p.s.Values
	if !sameMultiset(vals, ref) {
		return fmt.Sprintf("Values %s is not the multiset the reference holds (%d elements)", clipInts(vals), len(ref))
	}
	if j, ok := heapOrdered(vals, cmp); !ok {
		return fmt.Sprintf("Values[%d]=%d precedes its parent Values[%d]=%d", j, vals[j], (j-1)/2, vals[(j-1)/2])
	}
	return ""
}

func buildPQ(typ, build, cn string, capN int, values []int) pq {
	cmp := cmpOf(cn)
	if typ == "Slice" {
		var s heapz.Slice[int]
		if build == "init" {
			s = heapz.FromSlice(append([]int{}, values...), cmp)
		} else {
			s = heapz.NewSlice[int](capN, cmp)
			for _, v := range values {
				s.Push(v)
			}
		}
		return &pqSlice{s: &s}
	}
	p := &pqHeap{byVal: map[int]*heapz.Element[int]{}}
	if build == "init" {
		// a zero value, then Init
		p.h = new(heapz.Heap[int])
		p.h.Init(append([]int{}, values...), cmp)
		p.learn()
	} else {
		h := heapz.New[int](capN, cmp)
		p.h = &h
		for _, v := range values {
			p.push(v)
		}
	}
	return p
}

// seqReuseRun executes the script; key == "" when everything held.
func seqReuseRun(sc *seqReuseCase) (key, desc string) {
	cmp := cmpOf(sc.Cmp)
	obj := buildPQ(sc.Type, sc.Build, sc.Cmp, sc.Cap, sc.Values)
	ref := append([]int{}, sc.Values...)
	budget := len(sc.Values) + len(sc.Script) + 8 // no run hands out more values than this
	q := obj.seq()                                // THE Seq: made once, before anything else happens
	trace := func(f string, a ...any) { sc.Trace = append(sc.Trace, fmt.Sprintf(f, a...)) }
	// got: somebody was handed v
	got := func(who string, v int) (string, string) {
		trace("%s->%d", who, v)
		budget--
		if budget < 0 {
			return "count", "more values were handed out than the heap ever held"
		}
		var present bool
		if ref, present = msRemove(ref, v); !present {
			return "multiset", fmt.Sprintf("%s was handed %d, which the heap does not hold (any more): lost / handed out twice", who, v)
		}
		if y, bad := msPrecedes(ref, v, cmp); bad {
			return "min", fmt.Sprintf("%s was handed %d although the heap still holds %d, which precedes it", who, v, y)
		}
		return "", ""
	}
	type cursor struct {
		next func() (int, bool)
		stop func()
		done bool // the Seq function has returned (ran dry or was stopped)
	}
	cur := map[int]*cursor{}
	defer func() {
		for _, c := range cur {
			c.stop()
		}
	}()
	small := len(sc.Values) <= 16
	for si, line := range sc.Script {
		t := strings.Fields(line)
		num := func(i int) int {
			if i >= len(t) {
				return 0
			}
			v, _ := strconv.Atoi(t[i])
			return v
		}
		where := fmt.Sprintf("step %d %q: ", si, line)
		switch t[0] {
		case "pull":
			c := num(1)
			if old := cur[c]; old != nil {
				old.stop()
			}
			nx, st := iter.Pull(q)
			cur[c] = &cursor{next: nx, stop: st}
		case "stop":
			if c := cur[num(1)]; c != nil {
				c.stop()
				c.done = true
			}
		case "next":
			c := cur[num(1)]
			if c == nil {
				continue
			}
			v, ok := c.next()
			if c.done {
				if ok {
					return "cursor", where + "a cursor that had ended handed out another value"
				}
				continue
			}
			if len(ref) == 0 {
				if ok {
					return "multiset", where + fmt.Sprintf("the heap is empty, the cursor handed out %d", v)
				}
				c.done = true
				continue
			}
			if !ok {
				return "count", where + fmt.Sprintf("the cursor ended with %d elements in the heap", len(ref))
			}
			if k, d := got("cursor"+t[1], v); k != "" {
				return k, where + d
			}
		case "push":
			v := num(1)
			obj.push(v)
			ref = append(ref, v)
		case "rm":
			if len(ref) == 0 {
				continue
			}
			v := ref[num(1)%len(ref)]
			if !obj.remove(v) {
				return "remove", where + fmt.Sprintf("the element with value %d could not be removed", v)
			}
			ref, _ = msRemove(ref, v)
		case "setfix":
			if len(ref) == 0 {
				continue
			}
			v, nv := ref[num(1)%len(ref)], num(2)
			if !obj.setFix(v, nv) {
				return "fix", where + fmt.Sprintf("the element with value %d was not found", v)
			}
			ref, _ = msRemove(ref, v)
			ref = append(ref, nv)
		case "init":
			// Heap.Init with another comparator and new content, while q and its cursors are held
			vs, _ := atois(t[2:])
			if !obj.reinit(vs, cmpOf(t[1])) {
				continue
			}
			cmp = cmpOf(t[1])
			ref = append([]int{}, vs...)
			budget += len(vs)
		case "range":
			// for x := range q { …; if taken == k { break } }
			k, taken := num(1), 0
			for x := range q {
				if kk, d := got("range", x); kk != "" {
					return kk, where + d
				}
				taken++
				if taken == k {
					break
				}
			}
			if want := len(ref); (k <= 0 || taken < k) && want > 0 {
				return "count", where + fmt.Sprintf("the loop ended by itself after %d elements with %d left in the heap", taken, want)
			}
		case "nested":
			// for x := range q { for y := range q { … break after inner[i] } … break after outer }
			outer, taken := num(1), 0
			inner := t[2:]
			for x := range q {
				if kk, d := got("outer", x); kk != "" {
					return kk, where + d
				}
				if len(inner) > 0 {
					j, _ := strconv.Atoi(inner[taken%len(inner)])
					if j != 0 {
						in := 0
						for y := range q {
							if kk, d := got("inner", y); kk != "" {
								return kk, where + d
							}
							in++
							if in == j {
								break
							}
						}
						if (j < 0 || in < j) && len(ref) > 0 {
							return "count", where + fmt.Sprintf("the inner loop ended by itself after %d elements with %d left in the heap", in, len(ref))
						}
					}
				}
				taken++
				if taken == outer {
					break
				}
			}
			if (outer <= 0 || taken < outer) && len(ref) > 0 {
				return "count", where + fmt.Sprintf("the outer loop ended by itself after %d elements with %d left in the heap", taken, len(ref))
			}
		}
		if obj.size() != len(ref) {
			return "len", where + fmt.Sprintf("Len() = %d, the reference holds %d", obj.size(), len(ref))
		}
		if small {
			if bad := obj.validate(ref, cmp); bad != "" {
				return "structure", where + bad
			}
		}
	}
	for c, k := range cur {
		k.stop()
		delete(cur, c)
	}
	if bad := obj.validate(ref, cmp); bad != "" {
		return "structure", "after the script: " + bad
	}
	// the same q once more: drains the rest, in order
	var rest []int
	for x := range q {
		rest = append(rest, x)
		if len(rest) > len(ref)+2 {
			break
		}
	}
	trace("drain->%s", clipInts(rest))
	if !sameMultiset(rest, ref) || !sortedAdj(rest, cmp) {
		return "drain", fmt.Sprintf("a last range over the same Seq yielded %s, the heap held %s", clipInts(rest), clipInts(ref))
	}
	if obj.size() != 0 {
		return "drain", fmt.Sprintf("Len() = %d after the drain", obj.size())
	}
	if bad := obj.validate(nil, cmp); bad != "" {
		return "structure", "after the drain: " + bad
	}
	return "", ""
}

// genSeqReuse builds one case; tag hands out distinct tags (values are distinct ints, so a
// handle is found by its value), keys repeat (ties under key / rkey).
func genSeqReuse(r *core.Rand, n int) *seqReuseCase {
	sc := &seqReuseCase{Type: "Heap", Cmp: pickCmp(r), Build: "push", Cap: pickCap(r)}
	if r.Chance(45) {
		sc.Type = "Slice"
	}
	if r.Chance(45) {
		sc.Build = "init"
	}
	if n >= 63 && sc.Build == "push" && r.Bool() {
		sc.Cap = []int{n - 1, n, 64}[r.Intn(3)] // the pushes below / of the script cross it
	}
	sc.Mode = []string{"nested", "pull", "mutate", "mixed"}[r.Pick(25, 25, 25, 25)]
	tag := 0
	keys := []int{6, 1, 2, 60}[r.Pick(60, 10, 10, 20)]
	val := func() int {
		v := r.Intn(keys)*1000 + tag%1000 + (tag/1000)*100000
		tag++
		return v
	}
	for i := 0; i < n; i++ {
		sc.Values = append(sc.Values, val())
	}
	size := n           // the generator's count of what the heap holds
	active := [3]bool{} // cursors pulled and not ended, as far as the generator can tell
	add := func(f string, a ...any) { sc.Script = append(sc.Script, fmt.Sprintf(f, a...)) }
	take := func(k int) { size = max(0, size-k) }
	stopAt := func() int { // where a plain loop is left
		return max(1, []int{1, 1, 2, size / 2, size - 1, size, size + 2}[r.Intn(7)])
	}
	steps := r.Range(4, 30)
	if n >= 63 {
		steps = r.Range(6, 24)
	}
	for len(sc.Script) < steps {
		var w []int // nested, pull, next, stop, push, rm, setfix, init, range
		switch sc.Mode {
		case "nested":
			w = []int{60, 0, 0, 0, 25, 0, 0, 0, 15}
		case "pull":
			w = []int{0, 18, 70, 12, 0, 0, 0, 0, 0}
		case "mutate":
			w = []int{0, 12, 45, 5, 16, 8, 6, 8, 0}
		default:
			w = []int{8, 10, 40, 6, 12, 5, 4, 5, 10}
		}
		switch r.Pick(w...) {
		case 0:
			outer := stopAt()
			if r.Chance(20) {
				outer = 0 // never left: runs until the heap is empty
			}
			l := fmt.Sprintf("nested %d", outer)
			ni := r.Range(1, 3)
			used := 0
			for i := 0; i < ni; i++ {
				j := []int{1, 1, 2, 0, 3, -1}[r.Pick(30, 20, 15, 20, 10, 5)]
				l += " " + strconv.Itoa(j)
				used += max(j, 0) + 1
				if j < 0 {
					used = size
				}
			}
			add("%s", l)
			if outer == 0 {
				take(size)
			} else {
				take(outer * (used/ni + 1))
			}
		case 1:
			c := r.Intn(2)
			if sc.Mode != "pull" && r.Chance(20) {
				c = 2
			}
			add("pull %d", c)
			active[c] = true
		case 2:
			var cs []int
			for c, a := range active {
				if a {
					cs = append(cs, c)
				}
			}
			if len(cs) == 0 {
				c := r.Intn(2)
				add("pull %d", c)
				active[c] = true
				continue
			}
			add("next %d", cs[r.Intn(len(cs))])
			take(1)
		case 3:
			c := r.Intn(3)
			if active[c] {
				add("stop %d", c)
				active[c] = false
			}
		case 4:
			add("push %d", val())
			size++
		case 5:
			if size > 0 {
				add("rm %d", r.Intn(1<<20))
				size--
			}
		case 6:
			if size > 0 {
				add("setfix %d %d", r.Intn(1<<20), val())
			}
		case 7:
			if sc.Type != "Heap" {
				add("push %d", val())
				size++
				continue
			}
			m := r.Range(0, 7)
			if n >= 63 && r.Bool() {
				m = []int{63, 64, 65}[r.Intn(3)]
			}
			l := "init " + earlyCmps[r.Intn(4)]
			for i := 0; i < m; i++ {
				l += " " + strconv.Itoa(val())
			}
			add("%s", l)
			size = m
		case 8:
			k := stopAt()
			add("range %d", k)
			take(k)
		}
	}
	return sc
}

var seqReuseBig = []int{63, 64, 65, 200}

func extraSeqReuse(ctx *core.Ctx) (int, string, []core.ExtraFailure) {
	small, bigReps := 3000, 12 // bigReps × 4 sizes
	if ctx.Tier == "thorough" {
		small, bigReps = 120000, 300
	}
	small *= max(1, ctx.Escalate)
	bigReps *= max(1, ctx.Escalate)
	r := ctx.Rand.Fork()
	var fails []core.ExtraFailure
	seen := map[string]bool{}
	runs, big := 0, 0
	perMode := map[string]int{}
	handed := 0
	one := func(sc *seqReuseCase) {
		runs++
		perMode[sc.Type+"/"+sc.Mode]++
		var key, desc string
		if o := core.Guard(func() string { key, desc = seqReuseRun(sc); return "" }); o == "panic" {
			key, desc = "panic", "panicked"
		}
		handed += len(sc.Trace)
		if key != "" && !seen[key] {
			seen[key] = true
			if len(sc.Trace) > 60 {
				sc.Trace = append([]string{"…"}, sc.Trace[len(sc.Trace)-60:]...)
			}
			fails = append(fails, core.ExtraFailure{
				Failure: core.Failure{Key: "seq-reuse-" + key, Desc: fmt.Sprintf("one Seq q := %s.PopAll() over %d elements (cmp %s, built by %s, cap %d), mode %s: %s", sc.Type, len(sc.Values), sc.Cmp, sc.Build, sc.Cap, sc.Mode, desc)},
				Payload: sc,
			})
		} else {
			sc.Trace = nil
		}
	}
	for i := 0; i < small; i++ {
		n := r.Range(0, 9)
		switch r.Pick(78, 16, 6) {
		case 1:
			n = r.Range(10, 24)
		case 2:
			n = r.Range(25, 40)
		}
		one(genSeqReuse(r, n))
	}
	for rep := 0; rep < bigReps; rep++ {
		for _, n := range seqReuseBig {
			big++
			one(genSeqReuse(r, n))
		}
	}
	var modes []string
	for _, typ := range []string{"Heap", "Slice"} {
		for _, m := range []string{"nested", "pull", "mutate", "mixed"} {
			modes = append(modes, fmt.Sprintf("%s/%s:%d", typ, m, perMode[typ+"/"+m]))
		}
	}
	note := fmt.Sprintf("%d runs, each with ONE Seq value q := PopAll() used throughout (%s): nested `for x := range q { for y := range q {…} }`, two/three alternating iter.Pull(q) cursors, cursors kept across Push / Remove / Value write + Fix / Init with another comparator, plain early-left loops in between; %d small (0..40 elements) + %d with 63/64/65/200 elements; %d values handed out, each one a minimum of the reference multiset at that moment, none lost or repeated; structure (heap order, handle indices) intact, a last range over the same q drains the rest sorted",
		runs, strings.Join(modes, " "), small, big, handed)
	return runs, note, fails
}
