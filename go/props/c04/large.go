package c04

import (
	"fmt"
	"strconv"
	"strings"

	"verifharness/internal/core"
)

// Stream "large": size thresholds in the code under test must be crossed. The other streams
// keep the containers small (0..40 elements) because every output line prints the whole state;
// an implementation that switches strategy for big heaps (a bulk path from 64 / 128 / 1000
// elements on) would never be exercised. Here the container is CREATED big (FromSlice / Init /
// the generic container's data) and then gets FEW operations (<= 10), aimed at what a bulk path
// could get wrong: leaving `range PopAll()` early (popalln with small and large k) and using
// the heap afterwards, Pop / Push / Remove / Fix at the root, the last slot and the middle.

var largeSizes = []int{63, 64, 65, 100, 127, 128, 129, 200, 255, 256, 257, 500, 999, 1000, 1001, 1024, 1025, 2000}

// quick: ~14% of the large cases have >= 1000 elements (the Lean model is a List: a full drain
// of 2000 elements costs it a few tenths of a second)
var largeWeights = []int{10, 12, 11, 8, 8, 9, 8, 7, 2, 3, 3, 4, 2, 3, 3, 1, 2, 4}

// largeValues: n values key*1000+tag; keys from six per thousand elements (ties abound) / two /
// one / all distinct.
func largeValues(r *core.Rand, n int) (vs []int, fresh func(j int) int) {
	regime := r.Pick(66, 8, 6, 20)
	base := r.Range(0, 5)
	perm := r.Intn(1 << 30)
	// every value is distinct (the heap harness tells the elements an Init allocated apart by
	// their values): the tag is j%1000, the thousands of j shift the key range by six
	fresh = func(j int) int {
		hi := 6 * (j / 1000)
		switch regime {
		case 1:
			return (base+r.Intn(2)+hi)*1000 + j%1000
		case 2:
			return (base+hi)*1000 + j%1000
		case 3:
			// distinct keys: a fixed odd multiplier permutes the residues of a power of two
			return ((j*2654435761+perm)&0xffff)*1000 + j%1000
		}
		return (r.Range(0, 5)+hi)*1000 + j%1000
	}
	vs = make([]int, n)
	for j := range vs {
		vs[j] = fresh(j)
	}
	return vs, fresh
}

func joinInts(vs []int) string {
	var b strings.Builder
	for _, v := range vs {
		b.WriteByte(' ')
		b.WriteString(strconv.Itoa(v))
	}
	return b.String()
}

// largeStop: small k (the loop is left at once), the middle, the end, beyond. Long drains are
// rationed by the caller (long == false: only k <= 4); one that (nearly) empties the heap is
// mostly kept for the last ops of the case — the ops after it would find nothing to work on.
func largeStop(r *core.Rand, n int, long, last bool) int {
	if !long {
		return r.Range(1, 4)
	}
	k := 1
	switch r.Pick(22, 8, 10, 22, 12, 8, 6, 12) {
	case 1:
		k = 2
	case 2:
		k = r.Range(3, 8)
	case 3:
		k = n / 2
	case 4:
		k = n - 1
	case 5:
		k = n
	case 6:
		k = n + 3
	case 7:
		k = r.Range(1, n+1)
	}
	if k >= n-1 && !last && r.Chance(80) {
		k = []int{n / 2, n / 3, n - 40, 1}[r.Intn(4)]
	}
	return max(k, 1)
}

// largeIndex: root, last slot, the middle, an index whose removal sends the substitute up, any.
func largeIndex(r *core.Rand, sim *hSim, k int, up bool) int {
	n := len(sim.arr[k])
	if n == 0 {
		return 0
	}
	if up {
		// the caller asks for a removal whose substitute travels up
		if i := sim.upIndex(r, k); i >= 0 {
			return i
		}
	}
	switch r.Pick(20, 20, 15, 15, 30) {
	case 0:
		return 0
	case 1:
		return n - 1
	case 2:
		return n / 2
	case 3:
		if i := sim.upIndex(r, k); i >= 0 {
			return i
		}
	}
	return r.Intn(n)
}

func genLarge(r *core.Rand, tier string) core.Case {
	n := largeSizes[r.Pick(largeWeights...)]
	cn := pickCmp(r)
	if r.Chance(40) {
		cn = earlyCmps[r.Intn(4)]
	}
	sim := &hSim{cmp: cmpOf(cn), focus: -1}
	vs, fresh := largeValues(r, n)
	nops := r.Range(3, 10)
	// drains: each long one costs the List model O(n·k); big containers get at most one
	drains := 3
	if n >= 500 {
		drains = 1
		if n >= 1000 && tier != "thorough" && r.Chance(35) {
			drains = 0
		}
	}
	var lines []string
	stop := func(k int) int {
		s := largeStop(r, len(sim.arr[k]), drains > 0, len(lines)+2 > nops)
		if s > 8 {
			drains--
		}
		return s
	}
	// every case gets the two things a bulk path is most likely to get wrong, somewhere among
	// the random ops: a loop over PopAll that is left early, and a removal whose substitute
	// has to travel UP (the rarely taken branch of fix)
	forced := []int{3, 0}
	wantUp := false
	if r.Chance(30) {
		forced = []int{0, 3}
	}
	if n >= 500 || r.Bool() {
		forced = append(forced, 3)
	}
	pickOp := func(room int, w ...int) int {
		if len(forced) > 0 && (room <= len(forced) || r.Chance(35)) {
			op := forced[0]
			forced = forced[1:]
			wantUp = op == 3
			return op
		}
		return r.Pick(w...)
	}
	index := func(k int) int {
		up := wantUp
		wantUp = false
		return largeIndex(r, sim, k, up)
	}
	switch r.Pick(40, 40, 20) {
	case 0: // ------------------------------------------------ Slice
		lines = []string{"@ C04 slice " + cn + joinInts(vs)}
		sim.init(0, vs)
		// the Seq is made first and ranged over later (again and again), between the other ops
		hasSeq := r.Chance(60)
		curs := &genCursors{}
		if hasSeq {
			lines = append(lines, "seq")
			nops++
			if r.Chance(55) {
				// iter.Pull cursors over the big heap (two of them alternate)
				for j := r.Range(1, 2); j > 0; j-- {
					lines = append(lines, "pull 0")
					curs.add(0)
					nops++
				}
				nops += 2
			}
		}
		nextW := 0
		if len(curs.slot) > 0 {
			nextW = 30
		}
		for len(lines) <= nops {
			m := len(sim.arr[0])
			switch pickOp(nops+1-len(lines), 30, 12, 12, 14, 10, 4, 6, 3, 4, 5, 22, nextW) {
			case 10:
				// the loop body uses the heap; a drain (k = 0) is rationed like popall
				k := 0
				if drains <= 0 || (len(lines)+2 <= nops && r.Chance(75)) {
					k = stop(0)
				} else {
					drains--
				}
				lines = append(lines, genSliceBody(r, sim, k, cn, func() int { return fresh(len(sim.vals)) }, func() int { return len(sim.vals) % 1000 }))
			case 11:
				cu := curs.pick(r)
				if r.Chance(8) {
					lines = append(lines, fmt.Sprintf("stop %d", cu))
					curs.done[cu] = true
					break
				}
				lines = append(lines, fmt.Sprintf("next %d", cu))
				curs.last = cu
				if !curs.done[cu] {
					if len(sim.arr[0]) == 0 {
						curs.done[cu] = true
					} else {
						sim.pop(0, 'p')
					}
				}
			case 0:
				k := stop(0)
				if hasSeq && r.Chance(65) {
					lines = append(lines, fmt.Sprintf("range 0 %d", k))
				} else {
					lines = append(lines, fmt.Sprintf("popalln %d", k))
				}
				for ; k > 0 && len(sim.arr[0]) > 0; k-- {
					sim.pop(0, 'p')
				}
			case 1:
				lines = append(lines, "pop")
				sim.pop(0, 'p')
			case 2:
				v := fresh(len(sim.vals))
				lines = append(lines, fmt.Sprintf("push %d", v))
				sim.attach(0, sim.alloc(v))
			case 3:
				i := index(0)
				if r.Chance(4) {
					i = []int{-1, m}[r.Intn(2)]
				}
				if i >= 0 && i < m && len(lines)+1 <= nops && r.Chance(35) {
					// Values[i] = v right before Remove(i), no Fix (v mostly misleads a one-direction repair)
					e := sim.arr[0][i]
					v := fresh(len(sim.vals))
					if r.Chance(80) {
						v = sim.advValue(r, 0, e, cn)
					}
					lines = append(lines, fmt.Sprintf("set %d %d", i, v))
					sim.vals[e] = v
				}
				lines = append(lines, fmt.Sprintf("rm %d", i))
				if i >= 0 && i < m {
					sim.remove(0, sim.arr[0][i])
				}
			case 4:
				if m == 0 {
					continue
				}
				i := index(0)
				v := fresh(len(sim.vals))
				lines = append(lines, fmt.Sprintf("setfix %d %d", i, v))
				sim.vals[sim.arr[0][i]] = v
				sim.fix(0, sim.arr[0][i])
			case 5:
				i := index(0)
				lines = append(lines, fmt.Sprintf("fix %d", i))
				if i >= 0 && i < m {
					sim.fix(0, sim.arr[0][i])
				}
			case 6:
				lines = append(lines, "peek")
			case 7:
				lines = append(lines, "len")
			case 8:
				if drains <= 0 || (len(lines)+2 <= nops && r.Chance(80)) {
					continue
				}
				drains--
				if hasSeq && r.Chance(65) {
					lines = append(lines, "rangeall 0")
				} else {
					lines = append(lines, "popall")
				}
				for len(sim.arr[0]) > 0 {
					sim.pop(0, 'a')
				}
			case 9:
				if m == 0 || len(lines)+1 > nops {
					continue
				}
				i := index(0)
				v := fresh(len(sim.vals))
				lines = append(lines, fmt.Sprintf("set %d %d", i, v), fmt.Sprintf("fix %d", i))
				sim.vals[sim.arr[0][i]] = v
				sim.fix(0, sim.arr[0][i])
			}
		}
	case 1: // ------------------------------------------------ Heap (A big; B small or empty)
		hdr := "@ C04 heap " + cn
		switch r.Pick(40, 40, 20) {
		case 1:
			hdr += fmt.Sprintf(" %d %d", pickCap(r), pickCap(r))
		case 2:
			hdr += fmt.Sprintf(" %d %d zv", pickCap(r), pickCap(r))
		}
		zv := strings.HasSuffix(hdr, " zv")
		var seqs []int // slot -> heap
		if n <= 129 && !zv && r.Chance(25) {
			// built by pushes over the capacity New got (63/64/65/100 …): the array is reallocated
			// while the harness holds every handle and a Seq made on the empty heap
			caps := []int{63, 64, 100}
			c := caps[r.Intn(len(caps))]
			if c >= n {
				c = n - r.Range(1, 3)
			}
			lines = []string{fmt.Sprintf("@ C04 heap %s %d %d", cn, c, pickCap(r))}
			if r.Chance(60) {
				lines = append(lines, "seq A")
				seqs = append(seqs, 0)
			}
			for _, v := range vs {
				lines = append(lines, fmt.Sprintf("push A %d", v))
				sim.attach(0, sim.alloc(v))
			}
		} else {
			lines = []string{hdr, "init A" + joinInts(vs)}
			sim.init(0, vs)
		}
		if r.Chance(30) || zv {
			bs := make([]int, r.Range(1, 6))
			for j := range bs {
				bs[j] = fresh(len(sim.vals) + j)
			}
			lines = append(lines, "init B"+joinInts(bs))
			sim.init(1, bs)
		}
		if len(seqs) == 0 && r.Chance(60) {
			lines = append(lines, "seq A")
			seqs = append(seqs, 0)
			if r.Chance(20) {
				lines = append(lines, "seq B")
				seqs = append(seqs, 1)
			}
		}
		slotFor := func(k int) int {
			for sl, h := range seqs {
				if h == k && r.Chance(65) {
					return sl
				}
			}
			return -1
		}
		reinit := len(seqs) > 0 && n <= 300 && r.Chance(35) // one Init of A with another comparator while the Seq is held
		curs := &genCursors{}
		if len(seqs) > 0 && r.Chance(55) {
			// iter.Pull cursors over the big heap (two alternate; sometimes one over B's Seq)
			for j := r.Range(1, 2); j > 0; j-- {
				sl := 0
				if len(seqs) > 1 && r.Chance(30) {
					sl = 1
				}
				lines = append(lines, fmt.Sprintf("pull %d", sl))
				curs.add(sl)
			}
			nops += 2
		}
		nextW := 0
		if len(curs.slot) > 0 {
			nextW = 30
		}
		cnow := [2]string{cn, cn} // the comparator each heap has
		nops += len(lines) - 1
		for len(lines) <= nops {
			if reinit && len(lines)+2 <= nops && r.Chance(30) {
				reinit = false
				c2 := earlyCmps[r.Intn(4)]
				m2 := []int{63, 64, 65, 100}[r.Intn(4)]
				ws := make([]int, m2)
				for j := range ws {
					ws[j] = fresh(len(sim.vals) + j)
				}
				lines = append(lines, "initc A "+c2+joinInts(ws))
				sim.cmps[0] = cmpOf(c2)
				cnow[0] = c2
				sim.init(0, ws)
				// the Seq made before the Init enumerates the new content in the new order
				s := largeStop(r, m2, true, false)
				lines = append(lines, fmt.Sprintf("range 0 %d", s))
				for ; s > 0 && len(sim.arr[0]) > 0; s-- {
					sim.pop(0, 'a')
				}
				continue
			}
			k := 0
			if r.Chance(8) {
				k = 1
			}
			H := []string{"A", "B"}[k]
			m := len(sim.arr[k])
			handle := func() int {
				// a live handle at the root / last / middle / …, sometimes a detached or foreign one
				if m > 0 && (wantUp || !r.Chance(15)) {
					return sim.arr[k][index(k)]
				}
				return sim.pick(r, k)
			}
			switch pickOp(nops+1-len(lines), 30, 12, 12, 14, 10, 4, 6, 3, 4, 5, 6, 5, 22, nextW) {
			case 12:
				// the loop body uses the heaps; a drain (k = 0) is rationed like popall
				s := 0
				if drains <= 0 || (len(lines)+2 <= nops && r.Chance(75)) {
					s = stop(k)
				} else {
					drains--
				}
				lines = append(lines, genHeapBody(r, sim, k, s, cnow, fresh, false))
			case 13:
				cu := curs.pick(r)
				if r.Chance(8) {
					lines = append(lines, fmt.Sprintf("stop %d", cu))
					curs.done[cu] = true
					break
				}
				lines = append(lines, fmt.Sprintf("next %d", cu))
				curs.last = cu
				if hk := seqs[curs.slot[cu]]; !curs.done[cu] {
					if len(sim.arr[hk]) == 0 {
						curs.done[cu] = true
					} else {
						sim.pop(hk, 'a')
					}
				}
			case 11:
				// Remove / Fix on a struct copy of the heap
				e := handle()
				lines = append(lines, fmt.Sprintf("%s %s %d", []string{"copyrm", "copyfix"}[r.Intn(2)], H, e))
			case 0:
				s := stop(k)
				if sl := slotFor(k); sl >= 0 {
					lines = append(lines, fmt.Sprintf("range %d %d", sl, s))
				} else {
					lines = append(lines, fmt.Sprintf("popalln %s %d", H, s))
				}
				for ; s > 0 && len(sim.arr[k]) > 0; s-- {
					sim.pop(k, 'a')
				}
			case 1:
				lines = append(lines, "pop "+H)
				sim.pop(k, 'p')
			case 2:
				v := fresh(len(sim.vals))
				lines = append(lines, fmt.Sprintf("push %s %d", H, v))
				sim.attach(k, sim.alloc(v))
			case 3:
				e := handle()
				if sim.own[e] == k && r.Chance(40) {
					// e.Value = v right before Remove(e), no Fix: as `setrm` or as `setv` + `rm`
					v := fresh(e)
					if r.Chance(80) {
						v = sim.advValue(r, k, e, cnow[k])
					}
					sim.vals[e] = v
					if len(lines)+1 <= nops && r.Chance(40) {
						lines = append(lines, fmt.Sprintf("setv %d %d", e, v), fmt.Sprintf("rm %s %d", H, e))
					} else {
						lines = append(lines, fmt.Sprintf("setrm %s %d %d", H, e, v))
					}
				} else if sim.own[e] < 0 && r.Chance(30) {
					// a stale handle: only the value changes
					v := fresh(e)
					sim.vals[e] = v
					lines = append(lines, fmt.Sprintf("setrm %s %d %d", H, e, v))
				} else {
					lines = append(lines, fmt.Sprintf("rm %s %d", H, e))
				}
				sim.remove(k, e)
			case 4:
				e := handle()
				v := fresh(e)
				if sim.own[e] == 1-k {
					v = sim.vals[e]
				}
				lines = append(lines, fmt.Sprintf("setfix %s %d %d", H, e, v))
				sim.vals[e] = v
				sim.fix(k, e)
			case 5:
				e := handle()
				lines = append(lines, fmt.Sprintf("fix %s %d", H, e))
				sim.fix(k, e)
			case 6:
				lines = append(lines, "peek "+H)
			case 7:
				lines = append(lines, "len "+H)
			case 8:
				if drains <= 0 || (len(lines)+2 <= nops && r.Chance(80)) {
					continue
				}
				drains--
				if sl := slotFor(k); sl >= 0 {
					lines = append(lines, fmt.Sprintf("rangeall %d", sl))
				} else {
					lines = append(lines, "popall "+H)
				}
				for len(sim.arr[k]) > 0 {
					sim.pop(k, 'a')
				}
			case 9:
				e := handle()
				if sim.own[e] != k || len(lines)+1 > nops {
					continue
				}
				v := fresh(e)
				lines = append(lines, fmt.Sprintf("setv %d %d", e, v), fmt.Sprintf("fix %s %d", H, e))
				sim.vals[e] = v
				sim.fix(k, e)
			case 10:
				d := sim.detached()
				if len(d) == 0 {
					continue
				}
				e := d[r.Intn(len(d))]
				lines = append(lines, fmt.Sprintf("pushe %s %d", H, e))
				sim.attach(k, e)
			}
		}
	default: // ------------------------------------------------ generic functions
		lines = []string{"@ C04 generic " + cn + joinInts(vs), "init"}
		for i, v := range vs {
			e := sim.alloc(v)
			sim.arr[0] = append(sim.arr[0], e)
			sim.idx[e], sim.own[e] = i, 0
		}
		sim.build(0)
		for len(lines) <= nops {
			m := len(sim.arr[0])
			if m == 0 {
				break
			}
			switch pickOp(nops+1-len(lines), 25, 20, 25, 0, 20, 10) {
			case 0:
				lines = append(lines, "pop")
				sim.pop(0, 'p')
			case 1:
				v := fresh(len(sim.vals))
				lines = append(lines, fmt.Sprintf("push %d", v))
				sim.attach(0, sim.alloc(v))
			case 2, 3:
				// (3: the forced removal; the generic functions have no PopAll — the forced 0 is a Pop)
				i := index(0)
				if len(lines)+1 <= nops && r.Chance(35) {
					// data[i] = v right before Remove(h, i), no Fix
					e := sim.arr[0][i]
					v := fresh(len(sim.vals))
					if r.Chance(80) {
						v = sim.advValue(r, 0, e, cn)
					}
					lines = append(lines, fmt.Sprintf("set %d %d", i, v))
					sim.vals[e] = v
				}
				lines = append(lines, fmt.Sprintf("rm %d", i))
				sim.remove(0, sim.arr[0][i])
			case 4:
				if len(lines)+1 > nops {
					continue
				}
				i := index(0)
				v := fresh(len(sim.vals))
				lines = append(lines, fmt.Sprintf("set %d %d", i, v), fmt.Sprintf("fix %d", i))
				sim.vals[sim.arr[0][i]] = v
				sim.fix(0, sim.arr[0][i])
			case 5:
				i := index(0)
				lines = append(lines, fmt.Sprintf("fix %d", i))
				sim.fix(0, sim.arr[0][i])
			}
		}
	}
	return core.Case{Lines: lines, Tag: "large"}
}

// sizeLabels: thresholds a container size crossed.
func sizeLabels(n int) []string {
	switch {
	case n >= 1000:
		return []string{"n>=64", "n>=1000"}
	case n >= 64:
		return []string{"n>=64"}
	}
	return nil
}

// largeCorpus: fixed witnesses above the usual size thresholds (64, 128): the loop over PopAll
// is left early and the heap is used afterwards.
func largeCorpus() []core.Case {
	desc := func(n int) []int { // descending keys with ties
		vs := make([]int, n)
		for j := range vs {
			vs[j] = ((n-j)/3)*1000 + j
		}
		return vs
	}
	return []core.Case{
		{Lines: []string{"@ C04 slice lt" + joinInts(desc(64)), "popalln 1", "peek", "pop", "push 5", "rm 0", "popalln 31", "len", "popalln 99", "popalln 1"}, Tag: "large"},
		{Lines: []string{"@ C04 slice key" + joinInts(desc(130)), "popalln 3", "setfix 0 99000", "rm 126", "popalln 65", "peek", "popall"}, Tag: "large"},
		{Lines: []string{"@ C04 slice rkey" + joinInts(desc(200)), "pop", "popalln 136", "popalln 1", "push 7", "popalln 62", "popalln 2", "pop"}, Tag: "large"},
		{Lines: []string{"@ C04 heap gt", "init A" + joinInts(desc(64)), "popalln A 1", "peek A", "rm A 0", "fix A 63", "pop A", "pushe B 0", "popalln A 30", "len A", "popalln A 40", "popalln A 1", "popalln B 1"}, Tag: "large"},
		{Lines: []string{"@ C04 heap key", "init A" + joinInts(desc(129)), "init B 5 6", "popalln A 2", "setfix A 128 0", "rm A 64", "popalln A 64", "pushe A 3", "peek A", "popall A", "len B"}, Tag: "large"},
		{Lines: []string{"@ C04 generic lt" + joinInts(desc(128)), "init", "pop", "rm 127", "rm 0", "rm 63", "set 0 999000", "fix 0", "push 1", "pop"}, Tag: "large"},
		// small ones: the early stop on an empty heap, on the last element, beyond the end
		{Lines: []string{"@ C04 slice lt", "popalln 1", "push 3", "push 1", "push 2", "popalln 1", "popalln 2", "popalln 1", "push 4", "popalln 5"}},
		{Lines: []string{"@ C04 heap key", "popalln A 1", "init A 3000 1001 2002 1003", "popalln A 1", "rm A 1", "fix A 1", "pushe B 1", "popalln A 2", "popalln A 2", "popalln B 7", "popalln B 1"}},
	}
}
