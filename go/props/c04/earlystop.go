package c04

import (
	"fmt"
	"sort"

	"github.com/welllog/golib/heapz"

	"verifharness/internal/core"
)

// Extra "popall-early-stop": the consumer of PopAll leaves the range loop after k elements
// (iter.go, the `if !yield(...) { break }` branch, which the line protocol never takes: its
// `popall` drains the heap). Go-only, no Lean model: the expectation is the property itself —
// exactly the k first elements (in comparator order) have left, everything else is still
// there, still a heap, and every handle still works. The same runs also cover what the line
// protocol cannot say: Init with a comparator other than the one given to New.

type earlyCase struct {
	Type      string `json:"type"` // Heap | Slice
	Cmp       string `json:"cmp"`
	Build     string `json:"build"` // init | push
	Values    []int  `json:"values"`
	StopAfter int    `json:"stop_after"`
	Got       []int  `json:"yielded,omitempty"`
	LenAfter  int    `json:"len_after"`
}

func earlyStopOne(ec *earlyCase, rmPick int) (key, desc string) {
	cmp := cmpOf(ec.Cmp)
	n := len(ec.Values)
	wantK := ec.StopAfter
	if wantK > n {
		wantK = n
	}
	sorted := append([]int{}, ec.Values...)
	sort.SliceStable(sorted, func(i, j int) bool { return cmp(sorted[i], sorted[j]) })
	// checkYield: got = the wantK first of the sorted order, up to ties
	checkYield := func(got []int, rest []int) (string, string) {
		if len(got) != wantK {
			return "count", fmt.Sprintf("the loop body ran %d times, expected %d", len(got), wantK)
		}
		if !sameMultiset(append(append([]int{}, got...), rest...), ec.Values) {
			return "multiset", fmt.Sprintf("yielded %v + remaining %v is not the multiset pushed", got, rest)
		}
		if !sortedBy(got, cmp) {
			return "sorted", fmt.Sprintf("yielded %v is not in comparator order", got)
		}
		for _, x := range got {
			for _, y := range rest {
				if cmp(y, x) {
					return "min", fmt.Sprintf("remaining %d precedes the yielded %d", y, x)
				}
			}
		}
		return "", ""
	}
	if ec.Type == "Slice" {
		var s heapz.Slice[int]
		if ec.Build == "init" {
			s = heapz.FromSlice(append([]int{}, ec.Values...), cmp)
		} else {
			s = heapz.NewSlice[int](0, cmp)
			for _, v := range ec.Values {
				s.Push(v)
			}
		}
		var got []int
		for x := range s.PopAll() {
			got = append(got, x)
			if len(got) == ec.StopAfter {
				break
			}
		}
		ec.Got, ec.LenAfter = got, s.Len()
		if s.Len() != n-wantK {
			return "len", fmt.Sprintf("Len() = %d after leaving the loop at element %d of %d", s.Len(), ec.StopAfter, n)
		}
		rest := append([]int{}, s.Values...)
		if k, d := checkYield(got, rest); k != "" {
			return k, d
		}
		if j, ok := heapOrdered(rest, cmp); !ok {
			return "order", fmt.Sprintf("remaining Values %v: child %d precedes its parent", rest, j)
		}
		// the rest is still a working heap
		var tailv []int
		for x := range s.PopAll() {
			tailv = append(tailv, x)
		}
		if !sameMultiset(tailv, rest) || !sortedBy(tailv, cmp) || s.Len() != 0 {
			return "resume", fmt.Sprintf("a second PopAll yielded %v from %v", tailv, rest)
		}
		return "", ""
	}
	h := heapz.New[int](0, cmp)
	var el []*heapz.Element[int]
	if ec.Build == "init" {
		// the heap was made with the OPPOSITE comparator and holds two elements: Init replaces
		// both the content and the comparator (the line protocol always re-uses one comparator)
		h = heapz.New[int](0, func(a, b int) bool { return cmp(b, a) })
		old := []*heapz.Element[int]{h.Push(7000), h.Push(1)}
		h.Init(append([]int{}, ec.Values...), cmp)
		for _, e := range old {
			h.Remove(e)
			h.Fix(e)
			if e.Index() != -1 || h.Len() != n {
				return "init", fmt.Sprintf("handle (value %d) of an element discarded by Init: Index()=%d, Len()=%d after Remove by it", e.Value, e.Index(), h.Len())
			}
		}
		el = append(el, heapValues(&h)...)
	} else {
		for _, v := range ec.Values {
			el = append(el, h.Push(v))
		}
	}
	var got []int
	for x := range h.PopAll() {
		got = append(got, x)
		if len(got) == ec.StopAfter {
			break
		}
	}
	ec.Got, ec.LenAfter = got, h.Len()
	if h.Len() != n-wantK {
		return "len", fmt.Sprintf("Len() = %d after leaving the loop at element %d of %d", h.Len(), ec.StopAfter, n)
	}
	var rest []int
	var liveEl []*heapz.Element[int]
	seen := make([]bool, h.Len())
	for _, e := range el {
		ix := e.Index()
		if ix == -1 {
			continue
		}
		if ix < 0 || ix >= h.Len() || seen[ix] {
			return "index", fmt.Sprintf("handle with value %d reports Index()=%d (Len %d)", e.Value, ix, h.Len())
		}
		seen[ix] = true
		rest = append(rest, e.Value)
		liveEl = append(liveEl, e)
	}
	if len(rest) != h.Len() {
		return "index", fmt.Sprintf("%d handles report an index, Len() = %d", len(rest), h.Len())
	}
	if k, d := checkYield(got, rest); k != "" {
		return k, d
	}
	byIdx := make([]int, len(rest))
	for i, e := range liveEl {
		byIdx[e.Index()] = rest[i]
	}
	if j, ok := heapOrdered(byIdx, cmp); !ok {
		return "order", fmt.Sprintf("remaining heap %v: child %d precedes its parent", byIdx, j)
	}
	// the handles still work: remove one by handle, the popped ones are ignored, drain the rest
	for _, e := range el {
		if e.Index() == -1 {
			h.Remove(e)
			h.Fix(e)
		}
	}
	if h.Len() != len(rest) {
		return "stale", "Remove/Fix with the handle of a yielded element changed the heap"
	}
	if len(liveEl) > 0 {
		e := liveEl[rmPick%len(liveEl)]
		h.Remove(e)
		rest, _ = removeOne(rest, e.Value)
		if e.Index() != -1 || h.Len() != len(rest) {
			return "resume", fmt.Sprintf("Remove by handle (value %d) after the early stop: Index()=%d Len()=%d", e.Value, e.Index(), h.Len())
		}
	}
	var tailv []int
	for x := range h.PopAll() {
		tailv = append(tailv, x)
	}
	if !sameMultiset(tailv, rest) || !sortedBy(tailv, cmp) || h.Len() != 0 {
		return "resume", fmt.Sprintf("a second PopAll yielded %v from %v", tailv, rest)
	}
	return "", ""
}

func extraEarlyStop(ctx *core.Ctx) (int, string, []core.ExtraFailure) {
	rounds := 4000
	if ctx.Tier == "thorough" {
		rounds = 200000
	}
	rounds *= max(1, ctx.Escalate)
	r := ctx.Rand.Fork()
	var fails []core.ExtraFailure
	seen := map[string]bool{}
	early := 0
	for i := 0; i < rounds; i++ {
		ec := &earlyCase{Type: "Heap", Cmp: pickCmp(r), Build: "push"}
		if r.Chance(40) {
			ec.Type = "Slice"
		}
		if r.Bool() {
			ec.Build = "init"
		}
		n := r.Range(0, 9)
		if r.Chance(12) {
			n = r.Range(10, 40)
		}
		oneKey := r.Chance(8)
		for j := 0; j < n; j++ {
			key := r.Range(0, 5)
			if oneKey {
				key = 3
			}
			ec.Values = append(ec.Values, key*1000+j)
		}
		ec.StopAfter = r.Range(1, n+1)
		if r.Chance(25) {
			ec.StopAfter = 1
		}
		if ec.StopAfter < n {
			early++
		}
		rm := r.Intn(64)
		var key, desc string
		if o := core.Guard(func() string { key, desc = earlyStopOne(ec, rm); return "" }); o == "panic" {
			key, desc = "panic", "panicked"
		}
		if key != "" && !seen[key] {
			seen[key] = true
			fails = append(fails, core.ExtraFailure{
				Failure: core.Failure{Key: "popall-earlystop-" + key, Desc: fmt.Sprintf("%s.PopAll() left after %d of %d elements: %s", ec.Type, ec.StopAfter, n, desc)},
				Payload: ec,
			})
		}
	}
	return rounds, fmt.Sprintf("%d heaps/slices (0..40 elements), range over PopAll left after k elements (%d times before the end); yielded = the k first, rest intact, handles and a second PopAll work", rounds, early), fails
}
