package c04

import (
	"fmt"

	"github.com/welllog/golib/heapz"

	"verifharness/internal/core"
)

// Extra "popall-early-stop": the consumer of PopAll leaves the range loop after k elements
// (iter.go, the `if !yield(...) { break }` branch) and / or uses the heap INSIDE the loop body
// (Peek, Push, Len). Go-only, no Lean model: the expectation is the property itself, stated by a
// plain reference (a multiset of values / a set of live handles): every yielded element is a
// minimum of what the heap held at that moment, everything else is still there, still a heap,
// and every handle still works.
//
// Size-aware: an implementation may switch strategy at a size threshold (a bulk path for big
// heaps), so the sizes run over 1..5, 63/64/65, 200, 1000 and random ones, for BOTH PopAll
// forms (Slice and Heap), all four comparators, values with many ties; the loop is left after
// k ∈ {0 (break in the first iteration: the first element is already consumed), 1, 2, n/2,
// n-1, n, n+1 (never: full drain)} received elements.
//
// The same runs also cover what the line protocol cannot say: Init with a comparator other
// than the one given to New.

type earlyCase struct {
	Type      string `json:"type"` // Heap | Slice
	Cmp       string `json:"cmp"`
	Build     string `json:"build"` // init | push
	Body      string `json:"body"`  // plain | peek | push | len: what the loop body does besides receiving
	Values    []int  `json:"values"`
	StopAfter int    `json:"stop_after"` // leave the loop once this many elements were received (0: in the first iteration)
	// Pushes[i] >= 0: the i-th iteration (0-based) pushes that value (Body == "push")
	Pushes   []int `json:"pushed_in_body,omitempty"`
	Got      []int `json:"yielded,omitempty"`
	LenAfter int   `json:"len_after"`
}

// sortedAdj: no element precedes its predecessor (equivalent to sortedBy for the strict weak
// orders used here; linear, for the big sizes).
func sortedAdj(v []int, cmp func(a, b int) bool) bool {
	for i := 1; i < len(v); i++ {
		if cmp(v[i], v[i-1]) {
			return false
		}
	}
	return true
}

func clipInts(v []int) string {
	if len(v) <= 24 {
		return fmt.Sprint(v)
	}
	return fmt.Sprintf("%v… (%d elements) …%v", v[:12], len(v), v[len(v)-6:])
}

// msRemove removes one occurrence of x from the multiset ref (order is irrelevant).
func msRemove(ref []int, x int) ([]int, bool) {
	for i, y := range ref {
		if y == x {
			ref[i] = ref[len(ref)-1]
			return ref[:len(ref)-1], true
		}
	}
	return ref, false
}

func msPrecedes(ref []int, x int, cmp func(a, b int) bool) (int, bool) {
	for _, y := range ref {
		if cmp(y, x) {
			return y, true
		}
	}
	return 0, false
}

func (ec *earlyCase) pushAt(i int) (int, bool) {
	if ec.Body == "push" && i < len(ec.Pushes) && ec.Pushes[i] >= 0 {
		return ec.Pushes[i], true
	}
	return 0, false
}

func earlyStopOne(ec *earlyCase, rmPick int) (key, desc string) {
	if ec.Type == "Slice" {
		return earlyStopSlice(ec, rmPick)
	}
	return earlyStopHeap(ec, rmPick)
}

func earlyStopSlice(ec *earlyCase, rmPick int) (key, desc string) {
	cmp := cmpOf(ec.Cmp)
	n := len(ec.Values)
	need := max(ec.StopAfter, 1) // iterations the consumer takes when the heap does not run dry
	var s heapz.Slice[int]
	if ec.Build == "init" {
		s = heapz.FromSlice(append([]int{}, ec.Values...), cmp)
	} else {
		s = heapz.NewSlice[int](0, cmp)
		for _, v := range ec.Values {
			s.Push(v)
		}
	}
	ref := append([]int{}, ec.Values...) // reference: the multiset the heap holds
	var got []int
	peeked, havePeek := 0, false
	iter := 0
	for x := range s.PopAll() {
		got = append(got, x)
		if iter > n+len(ec.Pushes)+2 {
			ec.Got = got
			return "count", fmt.Sprintf("the loop body ran %d times on a heap of %d (+%d pushed)", iter+1, n, len(ec.Pushes))
		}
		var present bool
		if ref, present = msRemove(ref, x); !present {
			ec.Got = got
			return "multiset", fmt.Sprintf("iteration %d yielded %d, which the heap does not hold (any more)", iter, x)
		}
		if y, bad := msPrecedes(ref, x, cmp); bad {
			ec.Got = got
			return "min", fmt.Sprintf("iteration %d yielded %d although the heap still holds %d, which precedes it", iter, x, y)
		}
		if havePeek && peeked != x {
			ec.Got = got
			return "peek", fmt.Sprintf("Peek() in the loop body returned %d, the next iteration yielded %d", peeked, x)
		}
		havePeek = false
		switch ec.Body {
		case "peek":
			p, ok := s.Peek()
			if ok != (len(ref) > 0) {
				return "peek", fmt.Sprintf("iteration %d: Peek() = (%d,%v) with %d elements left", iter, p, ok, len(ref))
			}
			if ok {
				if y, bad := msPrecedes(ref, p, cmp); bad {
					return "peek", fmt.Sprintf("iteration %d: Peek() in the loop body = %d, but %d (still in the heap) precedes it", iter, p, y)
				}
				peeked, havePeek = p, true
			}
		case "len":
			if s.Len() != len(ref) {
				return "len-inside", fmt.Sprintf("iteration %d: Len() in the loop body = %d, the heap holds %d", iter, s.Len(), len(ref))
			}
		case "push":
			if v, ok := ec.pushAt(iter); ok {
				s.Push(v)
				ref = append(ref, v)
			}
		}
		iter++
		if len(got) >= ec.StopAfter {
			break
		}
	}
	ec.Got, ec.LenAfter = got, s.Len()
	if len(got) < need && len(ref) > 0 {
		return "count", fmt.Sprintf("the loop ended by itself after %d elements with %d left in the heap", len(got), len(ref))
	}
	if s.Len() != len(ref) {
		return "len", fmt.Sprintf("Len() = %d after leaving the loop at element %d (heap of %d): %d must be left", s.Len(), len(got), n, len(ref))
	}
	rest := append([]int{}, s.Values...)
	if !sameMultiset(rest, ref) {
		return "multiset", fmt.Sprintf("yielded %s, remaining Values %s: not the multiset that was put in", clipInts(got), clipInts(rest))
	}
	if ec.Body != "push" && !sortedAdj(got, cmp) {
		return "sorted", fmt.Sprintf("yielded %s is not in comparator order", clipInts(got))
	}
	if j, ok := heapOrdered(rest, cmp); !ok {
		return "order", fmt.Sprintf("remaining Values %s: Values[%d]=%d precedes its parent Values[%d]=%d", clipInts(rest), j, rest[j], (j-1)/2, rest[(j-1)/2])
	}
	// the rest is still a working heap: some Pop calls, then a second PopAll
	var tailv []int
	for i := rmPick % 4; i > 0; i-- {
		x, ok := s.Pop()
		if ok != (len(tailv) < len(rest)) {
			return "resume", fmt.Sprintf("Pop() after the early stop = (%d,%v) with %d elements left", x, ok, len(rest)-len(tailv))
		}
		if ok {
			tailv = append(tailv, x)
		}
	}
	for x := range s.PopAll() {
		tailv = append(tailv, x)
		if len(tailv) > len(rest) {
			break
		}
	}
	if !sameMultiset(tailv, rest) || !sortedAdj(tailv, cmp) || s.Len() != 0 {
		return "resume", fmt.Sprintf("Pop calls + a second PopAll yielded %s from %s", clipInts(tailv), clipInts(rest))
	}
	return "", ""
}

func earlyStopHeap(ec *earlyCase, rmPick int) (key, desc string) {
	cmp := cmpOf(ec.Cmp)
	n := len(ec.Values)
	need := max(ec.StopAfter, 1)
	h := heapz.New[int](0, cmp)
	var el []*heapz.Element[int]
	if ec.Build == "init" {
		// the heap was made with the OPPOSITE comparator and holds two elements: Init replaces
		// both the content and the comparator (the line protocol's `init` re-uses one comparator)
		h = heapz.New[int](0, func(a, b int) bool { return cmp(b, a) })
		old := []*heapz.Element[int]{h.Push(7000), h.Push(1)}
		h.Init(append([]int{}, ec.Values...), cmp)
		for _, e := range old {
			h.Remove(e)
			h.Fix(e)
			if e.Index() != -1 || h.Len() != n {
				return "init", fmt.Sprintf("handle (value %d) of an element discarded by Init: Index()=%d, Len()=%d after Remove by it", e.Value, e.Index(), h.Len())
			}
		}
		el = append(el, heapValues(&h)...)
	} else {
		for _, v := range ec.Values {
			el = append(el, h.Push(v))
		}
	}
	live := map[*heapz.Element[int]]bool{} // reference: the handles the heap holds
	for _, e := range el {
		live[e] = true
	}
	if len(live) != n {
		return "index", fmt.Sprintf("%d distinct handles for %d values", len(live), n)
	}
	precedes := func(x int) (*heapz.Element[int], bool) {
		for e := range live {
			if cmp(e.Value, x) {
				return e, true
			}
		}
		return nil, false
	}
	var got []int
	var peeked *heapz.Element[int]
	iter := 0
	for x := range h.PopAll() {
		got = append(got, x)
		if iter > n+len(ec.Pushes)+2 {
			ec.Got = got
			return "count", fmt.Sprintf("the loop body ran %d times on a heap of %d (+%d pushed)", iter+1, n, len(ec.Pushes))
		}
		// which element has left? exactly one live handle now reports -1, and it carries x
		var gone *heapz.Element[int]
		for e := range live {
			if e.Index() == -1 {
				if gone != nil {
					ec.Got = got
					return "index", fmt.Sprintf("iteration %d: more than one handle was detached (values %d, %d)", iter, gone.Value, e.Value)
				}
				gone = e
			}
		}
		if gone == nil {
			ec.Got = got
			return "index", fmt.Sprintf("iteration %d yielded %d but no handle of the heap reports Index() == -1", iter, x)
		}
		if gone.Value != x {
			ec.Got = got
			return "multiset", fmt.Sprintf("iteration %d yielded %d, the detached handle carries %d", iter, x, gone.Value)
		}
		delete(live, gone)
		if y, bad := precedes(x); bad {
			ec.Got = got
			return "min", fmt.Sprintf("iteration %d yielded %d although the heap still holds %d, which precedes it", iter, x, y.Value)
		}
		if peeked != nil && peeked != gone {
			ec.Got = got
			return "peek", fmt.Sprintf("Peek() in the loop body returned the element with value %d, the next iteration popped another one (value %d)", peeked.Value, x)
		}
		peeked = nil
		switch ec.Body {
		case "peek":
			p := h.Peek()
			if (p != nil) != (len(live) > 0) {
				return "peek", fmt.Sprintf("iteration %d: Peek() nil=%v with %d elements left", iter, p == nil, len(live))
			}
			if p != nil {
				if !live[p] {
					return "peek", fmt.Sprintf("iteration %d: Peek() in the loop body returned an element (value %d) that is not in the heap", iter, p.Value)
				}
				if y, bad := precedes(p.Value); bad {
					return "peek", fmt.Sprintf("iteration %d: Peek() in the loop body = %d, but %d (still in the heap) precedes it", iter, p.Value, y.Value)
				}
				peeked = p
			}
		case "len":
			if h.Len() != len(live) {
				return "len-inside", fmt.Sprintf("iteration %d: Len() in the loop body = %d, the heap holds %d", iter, h.Len(), len(live))
			}
		case "push":
			if v, ok := ec.pushAt(iter); ok {
				e := h.Push(v)
				if e == nil || live[e] || e.Value != v {
					return "push", fmt.Sprintf("iteration %d: Push(%d) in the loop body did not return a fresh element", iter, v)
				}
				live[e] = true
				el = append(el, e)
			}
		}
		iter++
		if len(got) >= ec.StopAfter {
			break
		}
	}
	ec.Got, ec.LenAfter = got, h.Len()
	if len(got) < need && len(live) > 0 {
		return "count", fmt.Sprintf("the loop ended by itself after %d elements with %d left in the heap", len(got), len(live))
	}
	if h.Len() != len(live) {
		return "len", fmt.Sprintf("Len() = %d after leaving the loop at element %d (heap of %d): %d must be left", h.Len(), len(got), n, len(live))
	}
	if ec.Body != "push" && !sortedAdj(got, cmp) {
		return "sorted", fmt.Sprintf("yielded %s is not in comparator order", clipInts(got))
	}
	// indices: live handles form a bijection onto 0..Len-1, everything else reports -1
	snapshot := func() ([]int, []*heapz.Element[int], string) {
		byIdx := make([]int, h.Len())
		at := make([]*heapz.Element[int], h.Len())
		for _, e := range el {
			ix := e.Index()
			if !live[e] {
				if ix != -1 {
					return nil, nil, fmt.Sprintf("handle with value %d has left the heap but reports Index()=%d", e.Value, ix)
				}
				continue
			}
			if ix < 0 || ix >= h.Len() || at[ix] != nil {
				return nil, nil, fmt.Sprintf("live handle with value %d reports Index()=%d (Len %d): not a bijection", e.Value, ix, h.Len())
			}
			at[ix], byIdx[ix] = e, e.Value
		}
		return byIdx, at, ""
	}
	byIdx, at, bad := snapshot()
	if bad != "" {
		return "index", bad
	}
	if j, ok := heapOrdered(byIdx, cmp); !ok {
		return "order", fmt.Sprintf("remaining heap %s: the element at index %d (%d) precedes its parent (%d)", clipInts(byIdx), j, byIdx[j], byIdx[(j-1)/2])
	}
	// the handles still work: the popped ones are ignored, remove one by handle, drain the rest
	for _, e := range el {
		if !live[e] {
			h.Remove(e)
			h.Fix(e)
		}
	}
	if h.Len() != len(live) {
		return "stale", "Remove/Fix with the handle of a yielded element changed Len()"
	}
	if _, at2, bad := snapshot(); bad != "" {
		return "stale", "after Remove/Fix with the handles of yielded elements: " + bad
	} else {
		for i := range at {
			if at[i] != at2[i] {
				return "stale", fmt.Sprintf("Remove/Fix with the handle of a yielded element moved the element at index %d", i)
			}
		}
	}
	rest := append([]int{}, byIdx...)
	if len(at) > 0 {
		e := at[rmPick%len(at)]
		h.Remove(e)
		delete(live, e)
		rest, _ = msRemove(rest, e.Value)
		if e.Index() != -1 || h.Len() != len(rest) {
			return "resume", fmt.Sprintf("Remove by handle (value %d) after the early stop: Index()=%d Len()=%d", e.Value, e.Index(), h.Len())
		}
		if byIdx2, _, bad := snapshot(); bad != "" {
			return "resume", "after Remove by handle: " + bad
		} else if j, ok := heapOrdered(byIdx2, cmp); !ok {
			return "resume", fmt.Sprintf("after Remove by handle: the element at index %d precedes its parent", j)
		}
	}
	var tailv []int
	for i := (rmPick / 4) % 4; i > 0; i-- {
		e := h.Pop()
		if (e != nil) != (len(tailv) < len(rest)) {
			return "resume", fmt.Sprintf("Pop() after the early stop: nil=%v with %d elements left", e == nil, len(rest)-len(tailv))
		}
		if e != nil {
			if !live[e] || e.Index() != -1 {
				return "resume", fmt.Sprintf("Pop() after the early stop returned an element (value %d, Index %d) that is not a live handle / not detached", e.Value, e.Index())
			}
			delete(live, e)
			tailv = append(tailv, e.Value)
		}
	}
	for x := range h.PopAll() {
		tailv = append(tailv, x)
		if len(tailv) > len(rest) {
			break
		}
	}
	if !sameMultiset(tailv, rest) || !sortedAdj(tailv, cmp) || h.Len() != 0 {
		return "resume", fmt.Sprintf("Pop calls + a second PopAll yielded %s from %s", clipInts(tailv), clipInts(rest))
	}
	for _, e := range el {
		if e.Index() != -1 {
			return "resume", fmt.Sprintf("the heap is empty, the handle with value %d reports Index()=%d", e.Value, e.Index())
		}
	}
	return "", ""
}

var earlySizes = []int{1, 2, 3, 4, 5, 63, 64, 65, 200, 1000}
var earlyBodies = []string{"plain", "peek", "push", "len"}
var earlyCmps = []string{"key", "rkey", "lt", "gt"}

// earlyStops: the places the consumer leaves the loop at, for a heap of n.
func earlyStops(n int) []int {
	ks := []int{0, 1, n / 2, n - 1, n, n + 1}
	var r []int
	for _, k := range ks {
		dup := k < 0
		for _, o := range r {
			dup = dup || o == k
		}
		if !dup {
			r = append(r, k)
		}
	}
	return r
}

// earlyFill: n values key*1000+tag; keys from six (many ties) / one key / identical values /
// all keys distinct; the pushes of the loop body likewise.
func earlyFill(r *core.Rand, ec *earlyCase, n int) {
	regime := r.Pick(70, 8, 6, 16)
	val := func(j int) int {
		switch regime {
		case 1:
			return 3000 + j%1000
		case 2:
			return 3000
		case 3:
			return (j*7+3)%(n+16)*1000 + j%1000 // (distinct keys while j < n+16 and gcd(7,n+16)=1; ties otherwise)
		}
		return r.Range(0, 5)*1000 + j%1000
	}
	ec.Values = make([]int, n)
	for j := range ec.Values {
		ec.Values[j] = val(j)
	}
	if regime == 3 {
		for j := n - 1; j > 0; j-- {
			o := r.Intn(j + 1)
			ec.Values[j], ec.Values[o] = ec.Values[o], ec.Values[j]
		}
	}
	if ec.Body == "push" {
		for i := 0; i < max(ec.StopAfter, 1); i++ {
			v := -1
			if r.Chance(50) {
				v = val(n + i)
			}
			ec.Pushes = append(ec.Pushes, v)
		}
	}
}

func extraEarlyStop(ctx *core.Ctx) (int, string, []core.ExtraFailure) {
	random := 2500
	bigReps := 1 // repetitions of the (type × stop × body) grid for each size >= 63
	if ctx.Tier == "thorough" {
		random, bigReps = 150000, 12
	}
	random *= max(1, ctx.Escalate)
	bigReps *= max(1, ctx.Escalate)
	r := ctx.Rand.Fork()
	var fails []core.ExtraFailure
	seen := map[string]bool{}
	runs, early, inBody := 0, 0, 0
	perSize := map[int]int{}
	one := func(ec *earlyCase) {
		n := len(ec.Values)
		runs++
		perSize[n]++
		if ec.StopAfter < n {
			early++
		}
		if ec.Body != "plain" {
			inBody++
		}
		rm := r.Intn(1 << 16)
		var key, desc string
		if o := core.Guard(func() string { key, desc = earlyStopOne(ec, rm); return "" }); o == "panic" {
			key, desc = "panic", "panicked"
		}
		if key != "" && !seen[key] {
			seen[key] = true
			fails = append(fails, core.ExtraFailure{
				Failure: core.Failure{Key: "popall-earlystop-" + key, Desc: fmt.Sprintf("%s.PopAll() over %d elements (cmp %s, built by %s), loop body %q, left after %d received: %s", ec.Type, n, ec.Cmp, ec.Build, ec.Body, ec.StopAfter, desc)},
				Payload: ec,
			})
		}
	}
	// the grid: every size × both forms × every stop × every body; all four comparators for
	// the sizes up to 200, one (rotating) for 1000
	rot := 0
	for _, n := range earlySizes {
		cmps := earlyCmps
		reps := 1
		if n >= 63 {
			reps = bigReps
		}
		for rep := 0; rep < reps; rep++ {
			for _, typ := range []string{"Slice", "Heap"} {
				for _, k := range earlyStops(n) {
					for _, body := range earlyBodies {
						cs := cmps
						if n >= 1000 {
							cs = []string{earlyCmps[rot%4]}
							rot++
						}
						for _, cn := range cs {
							ec := &earlyCase{Type: typ, Cmp: cn, Build: "push", Body: body, StopAfter: k}
							if r.Bool() {
								ec.Build = "init"
							}
							earlyFill(r, ec, n)
							one(ec)
						}
					}
				}
			}
		}
	}
	grid := runs
	// random sizes
	for i := 0; i < random; i++ {
		ec := &earlyCase{Type: "Heap", Cmp: pickCmp(r), Build: "push", Body: earlyBodies[r.Pick(40, 20, 25, 15)]}
		if r.Chance(45) {
			ec.Type = "Slice"
		}
		if r.Bool() {
			ec.Build = "init"
		}
		n := r.Range(0, 9)
		switch r.Pick(80, 12, 6, 2) {
		case 1:
			n = r.Range(10, 40)
		case 2:
			n = r.Range(41, 140)
		case 3:
			n = r.Range(141, 400)
		}
		ec.StopAfter = r.Range(0, n+1)
		if r.Chance(25) {
			ec.StopAfter = r.Range(0, 1)
		}
		earlyFill(r, ec, n)
		one(ec)
	}
	big := 0
	for n, c := range perSize {
		if n >= 64 {
			big += c
		}
	}
	note := fmt.Sprintf("%d runs of `for v := range PopAll()` on Slice and Heap: %d on the grid sizes %v × stops {0,1,n/2,n-1,n,n+1} × loop bodies %v × comparators (per size: 63:%d 64:%d 65:%d 200:%d 1000:%d), %d random sizes 0..400; %d runs with >= 64 elements, %d left the loop before the end, %d used the heap inside the loop body; "+
		"every yielded element is a minimum of the reference multiset at that moment, Peek in the body = the next element, rest intact and heap-ordered, handle indices a bijection, stale handles ignored, Pop calls + a second PopAll yield the rest sorted",
		runs, grid, earlySizes, earlyBodies, perSize[63], perSize[64], perSize[65], perSize[200], perSize[1000], random, big, early, inBody)
	return runs, note, fails
}
