package c04

import (
	"fmt"
	"iter"
	"strconv"
	"strings"

	"github.com/welllog/golib/heapz"

	"verifharness/internal/core"
)

func atoi(s string) (int, bool) {
	if strings.HasPrefix(s, "+") {
		return 0, false
	}
	v, err := strconv.Atoi(s)
	return v, err == nil
}

func atois(ts []string) ([]int, bool) {
	r := make([]int, len(ts))
	for i, t := range ts {
		v, ok := atoi(t)
		if !ok {
			return nil, false
		}
		r[i] = v
	}
	return r, true
}

// sliceHdr: the tokens after `@ C04`: `slice <cmp> v…` = FromSlice(v…), `slicen <cmp> <cap>` =
// NewSlice(cap) (empty).
func sliceHdr(hdr []string) (cmp func(a, b int) bool, vs []int, capN int, ok bool) {
	if len(hdr) < 2 {
		return
	}
	cmp = cmpOf(hdr[1])
	if cmp == nil {
		return
	}
	if hdr[0] == "slicen" {
		if len(hdr) != 3 {
			return
		}
		c, ok1 := atoi(hdr[2])
		if !ok1 || c < 0 || c > 1<<20 || strings.HasPrefix(hdr[2], "-") {
			return
		}
		return cmp, []int{}, c, true
	}
	vs, ok = atois(hdr[2:])
	return cmp, vs, -1, ok
}

func implSlice(c core.Case) []string {
	var s heapz.Slice[int]
	var seqs []iter.Seq[int] // slot -> the Seq value `s.PopAll()` returned when `seq` was executed
	var curs []cursor        // cursor number -> next / stop of `iter.Pull(seqs[slot])`
	defer func() { stopAll(curs) }()
	return core.RunOps(c,
		func(hdr []string) string {
			cmp, vs, capN, ok := sliceHdr(hdr)
			if !ok {
				return "bad-op"
			}
			if capN >= 0 {
				s = heapz.NewSlice[int](capN, cmp)
			} else {
				s = heapz.FromSlice(vs, cmp)
			}
			return "ok " + fmt.Sprint(s.Values)
		},
		func(t []string) string {
			switch {
			case len(t) == 1 && t[0] == "seq":
				seqs = append(seqs, s.PopAll())
				return "ok " + fmt.Sprint(s.Values)
			case len(t) == 3 && t[0] == "range":
				sl, ok1 := slotOf(t[1], len(seqs))
				k, ok2 := atoi(t[2])
				if !ok1 || !ok2 || k < 1 || strings.HasPrefix(t[2], "-") {
					return "bad-op"
				}
				xs := takeSeq(seqs[sl], k)
				return fmt.Sprintf("%v %v", xs, s.Values)
			case len(t) == 2 && t[0] == "rangeall":
				sl, ok := slotOf(t[1], len(seqs))
				if !ok {
					return "bad-op"
				}
				xs := takeSeq(seqs[sl], 0)
				return fmt.Sprintf("%v %v", xs, s.Values)
			case len(t) == 2 && t[0] == "pull":
				sl, ok := slotOf(t[1], len(seqs))
				if !ok {
					return "bad-op"
				}
				next, stop := iter.Pull(seqs[sl])
				curs = append(curs, cursor{next, stop})
				return "ok " + fmt.Sprint(s.Values)
			case len(t) == 2 && t[0] == "next":
				cu, ok := slotOf(t[1], len(curs))
				if !ok {
					return "bad-op"
				}
				r := showNext(curs[cu].next())
				return r + " " + fmt.Sprint(s.Values)
			case len(t) == 2 && t[0] == "stop":
				cu, ok := slotOf(t[1], len(curs))
				if !ok {
					return "bad-op"
				}
				curs[cu].stop()
				return "ok " + fmt.Sprint(s.Values)
			case len(t) >= 2 && t[0] == "popallbody":
				// the loop body uses the heap (see body.go)
				stop, ok1 := natTok(t[1])
				items, ok2 := parseBodyItems(t[2:], false, 0)
				if !ok1 || !ok2 {
					return "bad-op"
				}
				r := slicePopAllBody(&s, stop, items)
				return r + " " + fmt.Sprint(s.Values)
			case len(t) == 2 && t[0] == "push":
				x, ok := atoi(t[1])
				if !ok {
					return "bad-op"
				}
				s.Push(x)
				return "ok " + fmt.Sprint(s.Values)
			case len(t) == 1 && t[0] == "pop":
				x, ok := s.Pop()
				return fmt.Sprintf("%d %v %v", x, ok, s.Values)
			case len(t) == 1 && t[0] == "peek":
				x, ok := s.Peek()
				return fmt.Sprintf("%d %v %v", x, ok, s.Values)
			case len(t) == 1 && t[0] == "len":
				return fmt.Sprintf("%d %v", s.Len(), s.Values)
			case len(t) == 2 && t[0] == "rm":
				i, ok := atoi(t[1])
				if !ok {
					return "bad-op"
				}
				x, ok := s.Remove(i)
				return fmt.Sprintf("%d %v %v", x, ok, s.Values)
			case len(t) == 2 && t[0] == "fix":
				i, ok := atoi(t[1])
				if !ok {
					return "bad-op"
				}
				s.Fix(i)
				return "ok " + fmt.Sprint(s.Values)
			case len(t) == 3 && t[0] == "set":
				i, ok1 := atoi(t[1])
				v, ok2 := atoi(t[2])
				if !ok1 || !ok2 || i < 0 || i >= len(s.Values) || strings.HasPrefix(t[1], "-") {
					return "bad-op"
				}
				s.Values[i] = v
				return "ok " + fmt.Sprint(s.Values)
			case len(t) == 3 && t[0] == "setfix":
				// the client's `s.Values[i] = v; s.Fix(i)`; the assignment itself panics when i >= len
				i, ok1 := atoi(t[1])
				v, ok2 := atoi(t[2])
				if !ok1 || !ok2 || i < 0 || strings.HasPrefix(t[1], "-") {
					return "bad-op"
				}
				s.Values[i] = v
				s.Fix(i)
				return "ok " + fmt.Sprint(s.Values)
			case len(t) == 1 && t[0] == "popall":
				xs := []int{}
				for x := range s.PopAll() {
					xs = append(xs, x)
				}
				return fmt.Sprintf("%v %v", xs, s.Values)
			case len(t) == 2 && t[0] == "popalln":
				// the consumer leaves the range loop after k >= 1 received elements
				k, ok := atoi(t[1])
				if !ok || k < 1 || strings.HasPrefix(t[1], "-") {
					return "bad-op"
				}
				xs := []int{}
				for x := range s.PopAll() {
					xs = append(xs, x)
					if len(xs) == k {
						break
					}
				}
				return fmt.Sprintf("%v %v", xs, s.Values)
			}
			return "bad-op"
		})
}

// checkSlice: sort-free reference = the multiset of values; the predicate of the property is
// evaluated on the printed Values after every call.
func checkSlice(c core.Case, out []string) *core.Failure {
	hdr := core.Toks(c.Lines[0])
	if len(hdr) < 4 {
		return nil
	}
	cmp, ref, _, ok := sliceHdr(hdr[2:])
	if !ok {
		return nil
	}
	nseq := 0          // Seq values made so far
	var curDone []bool // iter.Pull cursors in creation order: finished (exhausted / stopped)?
	if !strings.HasPrefix(out[0], "ok ") {
		return &core.Failure{Key: "slice-init", Desc: "FromSlice / NewSlice answered " + out[0]}
	}
	cur, ok := parseInts(out[0][3:])
	if !ok || !sameMultiset(cur, ref) {
		return &core.Failure{Key: "slice-multiset", Desc: fmt.Sprintf("FromSlice(%v) holds %v", ref, out[0])}
	}
	if j, ok := heapOrdered(cur, cmp); !ok {
		return &core.Failure{Key: "slice-order", Desc: fmt.Sprintf("FromSlice(%v): Values %v, child %d precedes its parent", ref, cur, j)}
	}
	dirty := -1 // index whose value was overwritten and not yet fixed
	for i := 1; i < len(c.Lines); i++ {
		t := core.Toks(c.Lines[i])
		if len(t) == 0 || out[i] == "bad-op" {
			return nil
		}
		if (t[0] == "range" && len(t) == 3) || (t[0] == "rangeall" && len(t) == 2) {
			// ranging over a stored Seq = ranging over PopAll() of the heap as it is NOW
			if _, ok := slotOf(t[1], nseq); !ok {
				return nil
			}
			if t[0] == "range" {
				t = []string{"popalln", t[2]}
			} else {
				t = []string{"popall"}
			}
		}
		if t[0] == "setfix" && len(t) == 3 {
			if idx, ok := atoi(t[1]); !ok || idx < 0 || idx >= len(cur) {
				return nil // the caller's own out-of-range assignment
			}
		}
		if out[i] == "panic" || out[i] == "dead" {
			return fail("slice-panic", i, c, out, "a Slice method panicked")
		}
		prev := cur
		k := strings.LastIndex(out[i], "[")
		vals, ok := parseInts(out[i][k:])
		if !ok || k == 0 {
			return fail("slice-format", i, c, out, "unparsable")
		}
		res := strings.TrimSpace(out[i][:k])
		if dirty >= 0 && !((t[0] == "fix" && len(t) == 2 || t[0] == "setfix" && len(t) == 3 || t[0] == "rm" && len(t) == 2) && t[1] == strconv.Itoa(dirty)) {
			// the caller broke the heap and neither called Fix(i) nor removed the changed element by
			// Remove(i) (package doc: Fix is equivalent to Remove followed by a Push of the new
			// value): nothing is promised
			return nil
		}
		switch t[0] {
		case "seq":
			// PopAll() only builds the Seq: nothing is popped before somebody ranges over it
			if res != "ok" || fmt.Sprint(vals) != fmt.Sprint(prev) {
				return fail("slice-seq-create", i, c, out, "calling PopAll() without ranging over the result must not change anything (before: %v)", prev)
			}
			nseq++
		case "pull":
			// next, stop := iter.Pull(q): nothing is popped before the first next()
			if _, ok := slotOf(t[1], nseq); !ok {
				return nil
			}
			if res != "ok" || fmt.Sprint(vals) != fmt.Sprint(prev) {
				return fail("slice-pull-create", i, c, out, "iter.Pull(q) without a next() must not change anything (before: %v)", prev)
			}
			curDone = append(curDone, false)
		case "stop":
			cn, ok := slotOf(t[1], len(curDone))
			if !ok {
				return nil
			}
			if res != "ok" || fmt.Sprint(vals) != fmt.Sprint(prev) {
				return fail("slice-stop", i, c, out, "stop() must not change the heap (before: %v)", prev)
			}
			curDone[cn] = true
		case "next":
			// one next() on an active cursor = one Pop
			cn, ok := slotOf(t[1], len(curDone))
			if !ok {
				return nil
			}
			if curDone[cn] {
				if res != "0 false" || fmt.Sprint(vals) != fmt.Sprint(prev) {
					return fail("slice-next-finished", i, c, out, "cursor %d is finished (stopped, or a next() found the heap empty): next() must answer (0,false) and change nothing (before: %v)", cn, prev)
				}
				break
			}
			if len(ref) == 0 {
				if res != "0 false" {
					return fail("slice-next-empty", i, c, out, "next() on an empty heap must answer (0,false)")
				}
				curDone[cn] = true
				break
			}
			f := strings.Fields(res)
			if len(f) != 2 || f[1] != "true" {
				return fail("slice-next", i, c, out, "next() of an active cursor on a heap of %d elements must yield one", len(ref))
			}
			x, err := strconv.Atoi(f[0])
			var present bool
			if err == nil {
				ref, present = removeOne(ref, x)
			}
			if !present {
				return fail("slice-next-foreign", i, c, out, "the yielded value was not in the heap")
			}
			if y, bad := msPrecedes(ref, x, cmp); bad {
				return fail("slice-next-min", i, c, out, "remaining %d precedes the yielded %d", y, x)
			}
			// (one next() = ONE Pop: the multiset check below sees a second one)
		case "popallbody":
			stop, ok1 := natTok(t[1])
			items, ok2 := parseBodyItems(t[2:], false, 0)
			if !ok1 || !ok2 {
				return nil
			}
			if res == "runaway" {
				return fail("slice-popallbody-runaway", i, c, out, "the loop did not end after Len + pushes + 8 iterations")
			}
			ys, rs, ok := parseTwoLists(res)
			if !ok {
				return fail("slice-format", i, c, out, "unparsable")
			}
			script, _ := byIteration(items)
			ref = append([]int{}, ref...)
			ri := 0
			for yi, v := range ys {
				if len(ref) == 0 {
					return fail("slice-popallbody-count", i, c, out, "iteration %d yielded %d although the heap was empty by then", yi, v)
				}
				var present bool
				if ref, present = msRemove(ref, v); !present {
					for _, w := range ys[:yi] {
						if w == v {
							return fail("slice-popallbody-twice", i, c, out, "iteration %d yielded %d again: it was yielded before in this loop and nobody pushed it back", yi, v)
						}
					}
					return fail("slice-popallbody-foreign", i, c, out, "iteration %d yielded %d, which the heap does not hold at that moment (holding %v)", yi, v, ref)
				}
				if y, bad := msPrecedes(ref, v, cmp); bad {
					return fail("slice-popallbody-min", i, c, out, "iteration %d yielded %d while %d, which precedes it, is in the heap", yi, v, y)
				}
				// the body of this iteration: the yielded element is NOT in the heap any more
				for _, b := range script[yi] {
					need := 0
					switch b.act {
					case "peek", "pop", "rm":
						need = 2
					case "len":
						need = 1
					}
					if ri+need > len(rs) {
						return fail("slice-popallbody-results", i, c, out, "the bodies that ran must have produced more than %d results", len(rs))
					}
					r := rs[ri : ri+need]
					ri += need
					what := fmt.Sprintf("body of iteration %d, %s", yi, b.act)
					switch b.act {
					case "push":
						ref = append(ref, b.arg)
					case "len":
						if r[0] != len(ref) {
							return fail("slice-popallbody-len", i, c, out, "%s: Len() = %d, the heap holds %d elements then (the yielded one has left)", what, r[0], len(ref))
						}
					case "peek", "pop":
						if len(ref) == 0 {
							if r[0] != 0 || r[1] != 0 {
								return fail("slice-popallbody-"+b.act+"-empty", i, c, out, "%s: the heap is empty then, got (%d,%d)", what, r[0], r[1])
							}
							break
						}
						if r[1] != 1 {
							return fail("slice-popallbody-"+b.act, i, c, out, "%s on a heap of %d must succeed", what, len(ref))
						}
						rest, present := msRemove(append([]int{}, ref...), r[0])
						if !present {
							if r[0] == v {
								return fail("slice-popallbody-"+b.act+"-yielded", i, c, out, "%s returned %d, the element this iteration yielded: it must have left the heap before the body runs", what, r[0])
							}
							return fail("slice-popallbody-"+b.act, i, c, out, "%s returned %d, which the heap does not hold (holding %v)", what, r[0], ref)
						}
						if y, bad := msPrecedes(rest, r[0], cmp); bad {
							return fail("slice-popallbody-"+b.act+"-min", i, c, out, "%s returned %d, %d precedes it", what, r[0], y)
						}
						if b.act == "pop" {
							ref = rest
						}
					case "rm":
						// Remove(idx): which value sits at idx is a matter of layout; it must be
						// one the heap holds (index 0: a minimum), out of range: (zero,false)
						if b.arg < 0 || b.arg >= len(ref) {
							if r[0] != 0 || r[1] != 0 {
								return fail("slice-popallbody-rm-range", i, c, out, "%s: Remove(%d) on a heap of %d must return (zero,false)", what, b.arg, len(ref))
							}
							break
						}
						if r[1] != 1 {
							return fail("slice-popallbody-rm", i, c, out, "%s: Remove(%d) on a heap of %d must succeed", what, b.arg, len(ref))
						}
						if ref, present = msRemove(ref, r[0]); !present {
							return fail("slice-popallbody-rm", i, c, out, "%s: Remove(%d) returned %d, which the heap does not hold", what, b.arg, r[0])
						}
						if y, bad := msPrecedes(ref, r[0], cmp); bad && b.arg == 0 {
							return fail("slice-popallbody-rm", i, c, out, "%s: Remove(0) returned %d, %d precedes it", what, r[0], y)
						}
					}
				}
			}
			if stop > 0 && len(ys) > stop {
				return fail("slice-popallbody-count", i, c, out, "the consumer left the loop in iteration %d, %d elements were yielded", stop-1, len(ys))
			}
			if (stop == 0 || len(ys) < stop) && len(ref) != 0 {
				return fail("slice-popallbody-count", i, c, out, "the loop ended by itself after %d iterations although the heap still holds %d elements (%v)", len(ys), len(ref), ref)
			}
			if ri != len(rs) {
				return fail("slice-popallbody-results", i, c, out, "the bodies that ran produce %d results, got %d", ri, len(rs))
			}
		case "push":
			x, _ := atoi(t[1])
			ref = append(ref, x)
		case "pop":
			if len(ref) == 0 {
				if res != "0 false" {
					return fail("slice-pop-empty", i, c, out, "Pop on an empty heap must return (zero,false)")
				}
				break
			}
			f := strings.Fields(res)
			if len(f) != 2 || f[1] != "true" {
				return fail("slice-pop", i, c, out, "Pop on a non-empty heap must succeed")
			}
			x, _ := strconv.Atoi(f[0])
			var present bool
			ref, present = removeOne(ref, x)
			if !present {
				return fail("slice-pop-foreign", i, c, out, "popped value was not in the heap")
			}
			for _, y := range ref {
				if cmp(y, x) {
					return fail("slice-pop-min", i, c, out, "remaining %d precedes the popped %d", y, x)
				}
			}
		case "peek":
			if len(ref) == 0 {
				if res != "0 false" {
					return fail("slice-peek-empty", i, c, out, "Peek on an empty heap must return (zero,false)")
				}
				break
			}
			f := strings.Fields(res)
			if len(f) != 2 || f[1] != "true" {
				return fail("slice-peek", i, c, out, "Peek on a non-empty heap must succeed")
			}
			x, _ := strconv.Atoi(f[0])
			for _, y := range ref {
				if cmp(y, x) {
					return fail("slice-peek-min", i, c, out, "element %d precedes the peeked %d", y, x)
				}
			}
		case "len":
			if res != strconv.Itoa(len(ref)) {
				return fail("slice-len", i, c, out, "multiset size is %d", len(ref))
			}
		case "rm":
			idx, _ := atoi(t[1])
			if idx < 0 || idx >= len(prev) {
				if res != "0 false" || fmt.Sprint(vals) != fmt.Sprint(prev) {
					return fail("slice-rm-range", i, c, out, "out-of-range Remove must be a no-op returning (zero,false)")
				}
				break
			}
			want := prev[idx]
			if res != fmt.Sprintf("%d true", want) {
				return fail("slice-rm", i, c, out, "Remove(%d) must return Values[%d]=%d", idx, idx, want)
			}
			ref, _ = removeOne(ref, want)
			// (idx == dirty: the one misplaced element has left, the order is judged again)
			dirty = -1
		case "fix":
			idx, _ := atoi(t[1])
			if idx < 0 || idx >= len(prev) {
				if fmt.Sprint(vals) != fmt.Sprint(prev) {
					return fail("slice-fix-range", i, c, out, "out-of-range Fix must be a no-op")
				}
			}
			dirty = -1
		case "set":
			idx, _ := atoi(t[1])
			v, _ := atoi(t[2])
			ref, _ = removeOne(ref, prev[idx])
			ref = append(ref, v)
			dirty = idx
		case "setfix":
			// Values[idx] = v; Fix(idx): the multiset has v in place of the old value, and the
			// order holds again (checked below)
			idx, _ := atoi(t[1])
			v, _ := atoi(t[2])
			if res != "ok" {
				return fail("slice-format", i, c, out, "unparsable")
			}
			ref, _ = removeOne(ref, prev[idx])
			ref = append(ref, v)
			dirty = -1
		case "popall":
			k2 := strings.Index(out[i], "]")
			xs, ok := parseInts(out[i][:k2+1])
			if !ok {
				return fail("slice-format", i, c, out, "unparsable")
			}
			if !sameMultiset(xs, ref) {
				return fail("slice-popall-multiset", i, c, out, "PopAll must yield exactly the multiset %v", ref)
			}
			if !sortedBy(xs, cmp) {
				return fail("slice-popall-sorted", i, c, out, "PopAll is not sorted")
			}
			ref = nil
		case "popalln":
			// leaving the loop after k elements = k Pops (fewer when the heap runs dry):
			// the yielded ones are minima of the reference multiset, one after the other
			kk, _ := atoi(t[1])
			k2 := strings.Index(out[i], "]")
			xs, ok := parseInts(out[i][:k2+1])
			if !ok {
				return fail("slice-format", i, c, out, "unparsable")
			}
			if want := min(kk, len(ref)); len(xs) != want {
				return fail("slice-popalln-count", i, c, out, "the loop left after %d elements on a heap of %d must have received %d, received %d", kk, len(ref), want, len(xs))
			}
			ref = append([]int{}, ref...)
			for _, x := range xs {
				var present bool
				if ref, present = msRemove(ref, x); !present {
					return fail("slice-popalln-foreign", i, c, out, "yielded value %d was not in the heap", x)
				}
			}
			if !sortedBy(xs, cmp) {
				return fail("slice-popalln-sorted", i, c, out, "the yielded elements are not sorted")
			}
			if len(xs) > 0 {
				// (sorted: nothing that precedes an earlier one can fail to precede the last)
				for _, x := range []int{xs[0], xs[len(xs)-1]} {
					if y, bad := msPrecedes(ref, x, cmp); bad {
						return fail("slice-popalln-min", i, c, out, "remaining %d precedes the yielded %d", y, x)
					}
				}
			}
		}
		if !sameMultiset(vals, ref) {
			return fail("slice-multiset", i, c, out, "Values must hold exactly the multiset %v", ref)
		}
		if dirty < 0 {
			if j, ok := heapOrdered(vals, cmp); !ok {
				return fail("slice-order", i, c, out, "Values[%d]=%d precedes its parent Values[%d]=%d", j, vals[j], (j-1)/2, vals[(j-1)/2])
			}
		}
		cur = vals
	}
	return nil
}

// tagger hands out values key*1000+tag with distinct tags.
type tagger struct{ next int }

func (g *tagger) val(r *core.Rand) int {
	v := r.Range(0, 5)*1000 + g.next%1000
	g.next++
	return v
}

func pickCmp(r *core.Rand) string {
	return []string{"key", "rkey", "lt", "gt"}[r.Pick(60, 15, 15, 10)]
}

// pickIndex: all indices -1 .. n, interior ones favoured.
func pickIndex(r *core.Rand, n int) int {
	switch r.Pick(4, 4, 8, 8, 76) {
	case 0:
		return -1
	case 1:
		return n
	case 2:
		return 0
	case 3:
		return n - 1
	}
	if n <= 0 {
		return 0
	}
	return r.Intn(n)
}

// simIndex: the usual index choice, or (one time in five) an index whose removal sends the
// substitute up — read off the generator's own picture of the array (see hSim).
func simIndex(r *core.Rand, sim *hSim) int {
	if r.Chance(20) {
		if i := sim.upIndex(r, 0); i >= 0 {
			return i
		}
	}
	return pickIndex(r, len(sim.arr[0]))
}

// pickStop: after how many received elements the consumer leaves `range PopAll()` on a heap of
// n: the first, the middle, the last but one, the last (heap just empty), beyond (full drain).
func pickStop(r *core.Rand, n int) int {
	k := 1
	switch r.Pick(25, 20, 15, 15, 10, 15) {
	case 1:
		k = n / 2
	case 2:
		k = n - 1
	case 3:
		k = n
	case 4:
		k = n + 3
	case 5:
		k = r.Range(1, n+1)
	}
	return max(k, 1)
}

func genSlice(r *core.Rand) core.Case {
	g := &tagger{}
	cn := pickCmp(r)
	sim := &hSim{cmp: cmpOf(cn), focus: -1}
	wide := r.Chance(25) // many keys instead of six: longer sift paths
	val := func() int {
		v := g.val(r)
		if wide {
			v += r.Range(0, 9) * 6000
		}
		return v
	}
	hdr := "@ C04 slice " + cn
	n := r.Range(0, 9)
	if r.Chance(10) {
		n = r.Range(10, 40)
	}
	if r.Chance(15) {
		// NewSlice(cap, ·): starts empty; the pushes cross the capacity
		n = 0
		hdr = fmt.Sprintf("@ C04 slicen %s %d", cn, pickCap(r))
	}
	vs := make([]int, n)
	for i := range vs {
		vs[i] = val()
		hdr += " " + strconv.Itoa(vs[i])
	}
	sim.init(0, vs)
	lines := []string{hdr}
	ops := r.Range(1, 60)
	target := r.Range(1, 14)
	if n >= 10 {
		target = n
	}
	// Seq values obtained EARLY (`seq` = q := s.PopAll()), ranged over late
	nseq, lastSlot := 0, -1
	// iter.Pull cursors over the held Seq values: two (sometimes three) that alternate
	curs := &genCursors{}
	var next func() // a follow-up the previous op asked for
	doPull := func() {
		lines = append(lines, fmt.Sprintf("pull %d", r.Intn(nseq)))
		curs.add(0)
	}
	var doNext func(cn int)
	doNext = func(cn int) {
		lines = append(lines, fmt.Sprintf("next %d", cn))
		curs.last = cn
		if curs.done[cn] {
			return
		}
		if len(sim.arr[0]) > 0 {
			sim.pop(0, 'p')
			return
		}
		// empty: the cursor is finished for good; often a push follows and it is asked again
		curs.done[cn] = true
		if r.Chance(50) {
			next = func() {
				v := val()
				lines = append(lines, fmt.Sprintf("push %d", v))
				sim.attach(0, sim.alloc(v))
				next = func() { doNext(cn) }
			}
		}
	}
	if r.Chance(40) {
		for i := r.Range(1, 2); i > 0; i-- {
			lines = append(lines, "seq")
			nseq++
		}
		ops = max(ops, r.Range(8, 30))
		if r.Chance(45) {
			for i := r.Pick(0, 25, 55, 20); i > 0; i-- {
				doPull()
			}
			ops = max(ops, r.Range(12, 34))
		}
	}
	for len(lines) <= ops {
		if next != nil {
			f := next
			next = nil
			f()
			continue
		}
		n := len(sim.arr[0])
		pushW := 16
		if n < target {
			pushW = 40
		}
		rangeW := 0
		if nseq > 0 {
			rangeW = 12
		}
		pullW, nextW, stopW := 0, 0, 0
		if nseq > 0 {
			pullW = 3
			if len(curs.slot) >= 3 {
				pullW = 1
			}
		}
		if len(curs.slot) > 0 {
			nextW, stopW = 18, 2
			rangeW = 6
		}
		switch r.Pick(pushW, 18, 3, 2, 22, 12, 6, 1, 10, 3, rangeW, 1, 6, pullW, nextW, stopW, 7) {
		case 16:
			// Values[i] = v followed DIRECTLY by Remove(i): no Fix in between (documented use); v is
			// mostly one that misleads a one-direction repair of the substitute
			if n == 0 {
				continue
			}
			e := sim.pickChanged(r, 0)
			i := sim.idx[e]
			v := val()
			if r.Chance(75) {
				v = sim.advValue(r, 0, e, cn)
			}
			lines = append(lines, fmt.Sprintf("set %d %d", i, v), fmt.Sprintf("rm %d", i))
			sim.vals[e] = v
			sim.remove(0, e)
		case 12:
			// the loop body uses the heap while PopAll is being ranged over
			if n == 0 && r.Chance(70) {
				continue
			}
			lines = append(lines, genSliceBody(r, sim, bodyStop(r, n), cn, val, func() int {
				g.next++
				return (g.next - 1) % 1000
			}))
		case 13:
			doPull()
			if r.Chance(50) {
				doPull()
			}
		case 14:
			doNext(curs.pick(r))
		case 15:
			cu := curs.pick(r)
			lines = append(lines, fmt.Sprintf("stop %d", cu))
			curs.done[cu] = true
			if r.Chance(60) {
				next = func() { doNext(cu) }
			}
		case 10:
			sl := r.Intn(nseq)
			if lastSlot >= 0 && r.Chance(55) {
				sl = lastSlot
			}
			lastSlot = sl
			if r.Chance(10) {
				lines = append(lines, fmt.Sprintf("rangeall %d", sl))
				for len(sim.arr[0]) > 0 {
					sim.pop(0, 'a')
				}
				break
			}
			k := pickStop(r, n)
			lines = append(lines, fmt.Sprintf("range %d %d", sl, k))
			for ; k > 0 && len(sim.arr[0]) > 0; k-- {
				sim.pop(0, 'p')
			}
		case 11:
			lines = append(lines, "seq")
			nseq++
			if r.Chance(50) {
				doPull()
			}
		case 9:
			k := pickStop(r, n)
			lines = append(lines, fmt.Sprintf("popalln %d", k))
			for ; k > 0 && len(sim.arr[0]) > 0; k-- {
				sim.pop(0, 'p')
			}
		case 0:
			v := val()
			lines = append(lines, fmt.Sprintf("push %d", v))
			sim.attach(0, sim.alloc(v))
		case 1:
			lines = append(lines, "pop")
			sim.pop(0, 'p')
		case 2:
			lines = append(lines, "peek")
		case 3:
			lines = append(lines, "len")
		case 4:
			i := simIndex(r, sim)
			lines = append(lines, fmt.Sprintf("rm %d", i))
			if i >= 0 && i < n {
				sim.remove(0, sim.arr[0][i])
			}
		case 5:
			if n == 0 {
				continue
			}
			i := r.Intn(n)
			v := val()
			lines = append(lines, fmt.Sprintf("set %d %d", i, v))
			sim.vals[sim.arr[0][i]] = v
			if !r.Chance(4) {
				lines = append(lines, fmt.Sprintf("fix %d", i))
				sim.fix(0, sim.arr[0][i])
			}
		case 6:
			i := pickIndex(r, n)
			lines = append(lines, fmt.Sprintf("fix %d", i))
			if i >= 0 && i < n {
				sim.fix(0, sim.arr[0][i])
			}
		case 7:
			lines = append(lines, "popall")
			for len(sim.arr[0]) > 0 {
				sim.pop(0, 'a')
			}
		case 8:
			// Values[i] = v; Fix(i) as one call, 0 <= i < len only (the assignment would panic)
			if n == 0 {
				continue
			}
			i := r.Intn(n)
			switch r.Pick(15, 15, 70) {
			case 0:
				i = 0
			case 1:
				i = n - 1
			}
			v := val()
			lines = append(lines, fmt.Sprintf("setfix %d %d", i, v))
			sim.vals[sim.arr[0][i]] = v
			sim.fix(0, sim.arr[0][i])
		}
	}
	return core.Case{Lines: lines, Tag: "slice"}
}
