package c04

import (
	"fmt"
	"math"
	"strconv"
	"strings"

	"github.com/welllog/golib/heapz"

	"verifharness/internal/core"
)

// Extra "type-matrix" (wave 6, classes 8 and 9: type parameters, comparator shapes). The line
// protocol instantiates everything with int. Here Heap[T], Slice[T] and — through a slice-backed
// container — the generic functions are instantiated with
//
//	string            compared by <                        (never "", the zero value)
//	string/fold       compared case-insensitively: DISTINGUISHABLE elements compare equal
//	float64           finite values, +0 and -0, +Inf, -Inf, compared by <
//	float64/nan-first the same plus NaN under a comparator that IS a strict weak order (every NaN
//	                  precedes every number, NaNs are equivalent). Plain < with NaN is not a strict
//	                  weak order: outside the property, not judged.
//	struct{K;Tag}     struct{K float64; Tag int} compared by K (ties by design, -0 = +0)
//	any               ints, strings and []byte mixed, compared by a total order on a rendering;
//	                  []byte is not comparable: a library that used == on elements would panic
//	*int              compared by dereferencing; the comparator must never be handed nil (the
//	                  zero value Pop / Remove leave behind in the capacity region)
//	struct{}          everything is equal
//
// and driven by random call sequences (Push Pop Peek Remove Fix, value change + Remove without
// Fix, PopAll drained and left early, Init) against a reference that uses ONLY the comparator and
// the harness's own rendering of an element (never == on T): the multiset the container holds,
// the heap order of its array, Pop / Peek / PopAll hand out a minimum, Remove hands out the
// element addressed, handles report a bijection onto 0..Len()-1.
//
// The comparator handed to the library RECORDS its arguments: every argument must be an element
// that is in the container during that call (what it held before the call, or the value the call
// brings in) — never the zero value of T, never an element that left earlier.

type tmSpec[T any] struct {
	name string
	less func(a, b T) bool
	gen  func(r *core.Rand, tag int) T
	show func(T) string
}

type tmCase struct {
	Extra     string   `json:"extra"`
	Type      string   `json:"type"`
	Container string   `json:"container"`
	Script    []string `json:"script"`
}

// tmBox: one container under test, addressed in array order.
type tmBox[T any] interface {
	push(x T)
	pop() (T, bool)
	peek() (T, bool)
	size() int
	values() ([]T, string) // array order; a non-empty string: a structural defect (handles)
	remove(i int) (T, bool)
	set(i int, v T) // the caller's own write, no library call
	fix(i int)
	popAll(k int) []T // k <= 0: drain
	reinit(vs []T) bool
}

// ---------------------------------------------------------------- Slice[T]

type tmSlice[T any] struct{ s *heapz.Slice[T] }

func (b *tmSlice[T]) push(x T)              { b.s.Push(x) }
func (b *tmSlice[T]) pop() (T, bool)        { return b.s.Pop() }
func (b *tmSlice[T]) peek() (T, bool)       { return b.s.Peek() }
func (b *tmSlice[T]) size() int             { return b.s.Len() }
func (b *tmSlice[T]) values() ([]T, string) { return b.s.Values, "" }
func (b *tmSlice[T]) remove(i int) (T, bool) {
	return b.s.Remove(i)
}
func (b *tmSlice[T]) set(i int, v T)     { b.s.Values[i] = v }
func (b *tmSlice[T]) fix(i int)          { b.s.Fix(i) }
func (b *tmSlice[T]) reinit(vs []T) bool { return false }
func (b *tmSlice[T]) popAll(k int) []T {
	var xs []T
	for x := range b.s.PopAll() {
		xs = append(xs, x)
		if len(xs) == k {
			break
		}
	}
	return xs
}

// ---------------------------------------------------------------- Heap[T]

type tmHeap[T any] struct {
	h    *heapz.Heap[T]
	cmp  func(a, b T) bool
	live map[*heapz.Element[T]]bool
}

func (b *tmHeap[T]) push(x T) { b.live[b.h.Push(x)] = true }
func (b *tmHeap[T]) pop() (T, bool) {
	e := b.h.Pop()
	if e == nil {
		var z T
		return z, false
	}
	delete(b.live, e)
	return e.Value, true
}
func (b *tmHeap[T]) peek() (T, bool) {
	e := b.h.Peek()
	if e == nil {
		var z T
		return z, false
	}
	return e.Value, true
}
func (b *tmHeap[T]) size() int { return b.h.Len() }
func (b *tmHeap[T]) array() ([]*heapz.Element[T], string) {
	n := b.h.Len()
	if n != len(b.live) {
		return nil, fmt.Sprintf("Len() = %d, %d handles are live", n, len(b.live))
	}
	arr := make([]*heapz.Element[T], n)
	for e := range b.live {
		ix := e.Index()
		if ix < 0 || ix >= n || arr[ix] != nil {
			return nil, fmt.Sprintf("a live handle reports Index() = %d with Len() = %d (not a bijection)", ix, n)
		}
		arr[ix] = e
	}
	return arr, ""
}
func (b *tmHeap[T]) values() ([]T, string) {
	arr, bad := b.array()
	if bad != "" {
		return nil, bad
	}
	vs := make([]T, len(arr))
	for i, e := range arr {
		vs[i] = e.Value
	}
	return vs, ""
}
func (b *tmHeap[T]) at(i int) *heapz.Element[T] {
	arr, _ := b.array()
	if i < 0 || i >= len(arr) {
		return nil
	}
	return arr[i]
}
func (b *tmHeap[T]) remove(i int) (T, bool) {
	e := b.at(i)
	if e == nil {
		var z T
		return z, false
	}
	b.h.Remove(e)
	delete(b.live, e)
	if e.Index() != -1 {
		var z T
		return z, false
	}
	return e.Value, true
}
func (b *tmHeap[T]) set(i int, v T) {
	if e := b.at(i); e != nil {
		e.Value = v
	}
}
func (b *tmHeap[T]) fix(i int) {
	if e := b.at(i); e != nil {
		b.h.Fix(e)
	}
}
func (b *tmHeap[T]) reinit(vs []T) bool {
	b.h.Init(vs, b.cmp)
	b.live = map[*heapz.Element[T]]bool{}
	for {
		// learn the new handles through the API: Pop them all, push them back
		e := b.h.Pop()
		if e == nil {
			break
		}
		b.live[e] = true
	}
	for e := range b.live {
		b.h.PushElement(e)
	}
	return true
}
func (b *tmHeap[T]) popAll(k int) []T {
	var xs []T
	for x := range b.h.PopAll() {
		xs = append(xs, x)
		for e := range b.live {
			if e.Index() == -1 {
				delete(b.live, e)
			}
		}
		if len(xs) == k {
			break
		}
	}
	return xs
}

// ---------------------------------------------------------------- generic functions on a slice container

type tmData[T any] struct {
	data []T
	less func(a, b T) bool
}

func (d *tmData[T]) Len() int           { return len(d.data) }
func (d *tmData[T]) Less(i, j int) bool { return d.less(d.data[i], d.data[j]) }
func (d *tmData[T]) Swap(i, j int)      { d.data[i], d.data[j] = d.data[j], d.data[i] }
func (d *tmData[T]) Push(x T)           { d.data = append(d.data, x) }
func (d *tmData[T]) Pop() T {
	var zero T
	n := len(d.data) - 1
	x := d.data[n]
	d.data[n] = zero
	d.data = d.data[:n]
	return x
}

type tmGeneric[T any] struct{ d *tmData[T] }

func (b *tmGeneric[T]) push(x T) { heapz.Push[T](b.d, x) }
func (b *tmGeneric[T]) pop() (T, bool) {
	if len(b.d.data) == 0 {
		var z T
		return z, false // (outside the documented domain: not called)
	}
	x, ok := heapz.Pop[T](b.d).(T)
	return x, ok
}
func (b *tmGeneric[T]) peek() (T, bool) {
	if len(b.d.data) == 0 {
		var z T
		return z, false
	}
	return b.d.data[0], true
}
func (b *tmGeneric[T]) size() int             { return len(b.d.data) }
func (b *tmGeneric[T]) values() ([]T, string) { return b.d.data, "" }
func (b *tmGeneric[T]) remove(i int) (T, bool) {
	x, ok := heapz.Remove[T](b.d, i).(T)
	return x, ok
}
func (b *tmGeneric[T]) set(i int, v T) { b.d.data[i] = v }
func (b *tmGeneric[T]) fix(i int)      { heapz.Fix[T](b.d, i) }
func (b *tmGeneric[T]) reinit(vs []T) bool {
	b.d.data = append([]T{}, vs...)
	heapz.Init[T](b.d)
	return true
}
func (b *tmGeneric[T]) popAll(k int) []T {
	var xs []T
	for len(b.d.data) > 0 {
		x, _ := b.pop()
		xs = append(xs, x)
		if len(xs) == k {
			break
		}
	}
	return xs
}

var tmContainers = []string{"Slice", "Heap", "generic"}

// ---------------------------------------------------------------- one run

func tmRun[T any](r *core.Rand, sp tmSpec[T], kind, steps int, tc *tmCase) (key, desc string) {
	tc.Type, tc.Container = sp.name, tmContainers[kind]
	log := func(f string, a ...any) { tc.Script = append(tc.Script, fmt.Sprintf(f, a...)) }
	// the recording comparator
	allowed := map[string]int{}
	cmpBad := ""
	ncmp := 0
	cmp := func(a, b T) bool {
		ncmp++
		if cmpBad == "" {
			if sa := sp.show(a); allowed[sa] == 0 {
				cmpBad = sa
			} else if sb := sp.show(b); allowed[sb] == 0 {
				cmpBad = sb
			}
		}
		return sp.less(a, b)
	}
	var ref []T // the reference: what the container holds (a multiset; identity = rendering)
	tag := 0
	mk := func() T {
		tag++
		return sp.gen(r, tag)
	}
	allow := func(extra ...T) {
		clear(allowed)
		for _, x := range ref {
			allowed[sp.show(x)]++
		}
		for _, x := range extra {
			allowed[sp.show(x)]++
		}
	}
	refRemove := func(x T) bool {
		sx := sp.show(x)
		for i, y := range ref {
			if sp.show(y) == sx {
				ref = append(ref[:i:i], ref[i+1:]...)
				return true
			}
		}
		return false
	}
	precedes := func(x T) (T, bool) {
		for _, y := range ref {
			if sp.less(y, x) {
				return y, true
			}
		}
		var z T
		return z, false
	}
	n0 := r.Range(0, 9)
	if r.Chance(6) {
		n0 = r.Range(10, 40)
	}
	for i := 0; i < n0; i++ {
		ref = append(ref, mk())
	}
	allow()
	var box tmBox[T]
	switch kind {
	case 0:
		var s heapz.Slice[T]
		if r.Bool() {
			s = heapz.FromSlice(append([]T{}, ref...), cmp)
			log("FromSlice(%s)", tmShowAll(sp, ref))
		} else {
			s = heapz.NewSlice[T](pickCap(r), cmp)
			for _, x := range ref {
				s.Push(x)
			}
			log("NewSlice(cap); Push × %s", tmShowAll(sp, ref))
		}
		box = &tmSlice[T]{&s}
	case 1:
		hb := &tmHeap[T]{cmp: cmp, live: map[*heapz.Element[T]]bool{}}
		if r.Bool() {
			hb.h = new(heapz.Heap[T])
			hb.reinit(append([]T{}, ref...))
			log("var h Heap; h.Init(%s)", tmShowAll(sp, ref))
		} else {
			h := heapz.New[T](pickCap(r), cmp)
			hb.h = &h
			for _, x := range ref {
				hb.push(x)
			}
			log("New(cap); Push × %s", tmShowAll(sp, ref))
		}
		box = hb
	default:
		gb := &tmGeneric[T]{&tmData[T]{less: cmp}}
		gb.reinit(ref)
		log("heapz.Init(container holding %s)", tmShowAll(sp, ref))
		box = gb
	}
	// validate: the state predicate after every call
	validate := func() (string, string) {
		if cmpBad != "" {
			return "cmp-argument", fmt.Sprintf("the comparator was handed %s, which is not in the container during that call (holding %s)", cmpBad, tmShowAll(sp, ref))
		}
		vs, bad := box.values()
		if bad != "" {
			return "index", bad
		}
		if box.size() != len(ref) || len(vs) != len(ref) {
			return "len", fmt.Sprintf("Len() = %d, the reference holds %d", box.size(), len(ref))
		}
		cnt := map[string]int{}
		for _, x := range ref {
			cnt[sp.show(x)]++
		}
		for _, x := range vs {
			sx := sp.show(x)
			if cnt[sx] == 0 {
				return "multiset", fmt.Sprintf("the container holds %s, the reference %s", tmShowAll(sp, vs), tmShowAll(sp, ref))
			}
			cnt[sx]--
		}
		for j := 1; j < len(vs); j++ {
			if sp.less(vs[j], vs[(j-1)/2]) {
				return "order", fmt.Sprintf("array %s: element %d (%s) precedes its parent (%s)", tmShowAll(sp, vs), j, sp.show(vs[j]), sp.show(vs[(j-1)/2]))
			}
		}
		if x, ok := box.peek(); ok != (len(ref) > 0) {
			return "result", fmt.Sprintf("Peek() ok=%v with %d elements", ok, len(ref))
		} else if ok {
			if y, bad := precedes(x); bad {
				return "min", fmt.Sprintf("Peek() = %s although the container holds %s, which precedes it", sp.show(x), sp.show(y))
			}
		}
		return "", ""
	}
	if k, d := validate(); k != "" {
		return k, "after construction: " + d
	}
	handedOut := func(call string, x T) (string, string) {
		if !refRemove(x) {
			return "result", fmt.Sprintf("%s handed out %s, which the container does not hold (%s)", call, sp.show(x), tmShowAll(sp, ref))
		}
		if y, bad := precedes(x); bad {
			return "min", fmt.Sprintf("%s handed out %s although the container still holds %s, which precedes it", call, sp.show(x), sp.show(y))
		}
		return "", ""
	}
	target := r.Range(2, 12)
	for st := 0; st < steps; st++ {
		n := len(ref)
		pushW := 16
		if n < target {
			pushW = 42
		}
		allow()
		k, d := "", ""
		switch r.Pick(pushW, 16, 14, 10, 8, 5, 2) {
		case 0:
			x := mk()
			log("Push(%s)", sp.show(x))
			allow(x)
			box.push(x)
			ref = append(ref, x)
		case 1:
			if n == 0 && kind == 2 {
				continue
			}
			log("Pop()")
			x, ok := box.pop()
			if ok != (n > 0) {
				k, d = "result", fmt.Sprintf("Pop() ok=%v with %d elements", ok, n)
			} else if ok {
				k, d = handedOut("Pop()", x)
			}
		case 2:
			if n == 0 {
				continue
			}
			i := pickIndex(r, n)
			if i < 0 || i >= n {
				if kind == 2 {
					continue // outside the documented domain of the generic functions
				}
				log("Remove(%d) (out of range)", i)
				if _, ok := box.remove(i); ok {
					k, d = "result", fmt.Sprintf("Remove(%d) with %d elements answered ok", i, n)
				}
				break
			}
			vs, _ := box.values()
			want := sp.show(vs[i])
			log("Remove(%d)", i)
			x, ok := box.remove(i)
			switch {
			case !ok || sp.show(x) != want:
				k, d = "result", fmt.Sprintf("Remove(%d) must hand out element %d = %s, got %s ok=%v", i, i, want, sp.show(x), ok)
			case !refRemove(x):
				k, d = "result", fmt.Sprintf("Remove(%d) handed out %s, which the container does not hold", i, sp.show(x))
			}
		case 3:
			if n == 0 {
				continue
			}
			i, v := r.Intn(n), mk()
			vs, _ := box.values()
			old := vs[i]
			log("element %d = %s; Fix(%d)", i, sp.show(v), i)
			refRemove(old)
			ref = append(ref, v)
			allow()
			box.set(i, v)
			box.fix(i)
		case 4:
			// the value changes and the element is removed WITHOUT a Fix in between
			if n == 0 {
				continue
			}
			i, v := r.Intn(n), mk()
			if r.Chance(30) {
				i = 0
			}
			vs, _ := box.values()
			old := vs[i]
			log("element %d = %s; Remove(%d)", i, sp.show(v), i)
			refRemove(old)
			allow(v)
			box.set(i, v)
			x, ok := box.remove(i)
			if !ok || sp.show(x) != sp.show(v) {
				k, d = "result", fmt.Sprintf("Remove(%d) must hand out the element just written (%s), got %s ok=%v", i, sp.show(v), sp.show(x), ok)
			}
		case 5:
			stop := 0
			if r.Chance(70) {
				stop = pickStop(r, n)
			}
			log("for x := range PopAll() { …break after %d }", stop)
			xs := box.popAll(stop)
			want := n
			if stop > 0 {
				want = min(stop, n)
			}
			if len(xs) != want {
				k, d = "count", fmt.Sprintf("PopAll left after %d on %d elements yielded %d", stop, n, len(xs))
				break
			}
			for _, x := range xs {
				if k, d = handedOut("PopAll()", x); k != "" {
					break
				}
			}
		case 6:
			m := r.Range(0, 8)
			vs := make([]T, m)
			for i := range vs {
				vs[i] = mk()
			}
			old := ref
			ref = vs
			allow()
			if !box.reinit(append([]T{}, vs...)) {
				ref = old
				continue
			}
			log("Init(%s)", tmShowAll(sp, vs))
		}
		if k == "" {
			k, d = validate()
		}
		if k != "" {
			return k, fmt.Sprintf("call %d (%s): %s", len(tc.Script), tc.Script[len(tc.Script)-1], d)
		}
	}
	// drain: sorted by the comparator, exactly the reference
	log("drain")
	allow()
	xs := box.popAll(0)
	if len(xs) != len(ref) {
		return "count", fmt.Sprintf("the drain yielded %d elements, the reference holds %d", len(xs), len(ref))
	}
	for i, x := range xs {
		if !refRemove(x) {
			return "result", fmt.Sprintf("the drain yielded %s, which the container did not hold", sp.show(x))
		}
		if i > 0 && sp.less(x, xs[i-1]) {
			return "sorted", fmt.Sprintf("the drain yielded %s after %s, which it precedes", sp.show(x), sp.show(xs[i-1]))
		}
	}
	if cmpBad != "" {
		return "cmp-argument", fmt.Sprintf("during the drain the comparator was handed %s, which is not in the container", cmpBad)
	}
	return "", ""
}

func tmShowAll[T any](sp tmSpec[T], vs []T) string {
	var b strings.Builder
	b.WriteByte('[')
	for i, x := range vs {
		if i > 0 {
			b.WriteByte(' ')
		}
		if i == 24 {
			fmt.Fprintf(&b, "… %d more", len(vs)-i)
			break
		}
		b.WriteString(sp.show(x))
	}
	b.WriteByte(']')
	return b.String()
}

// ---------------------------------------------------------------- the matrix

type tmKT struct {
	K   float64
	Tag int
}

var tmFloats = []float64{math.Inf(-1), -2.5, -1, math.Copysign(0, -1), 0, 1, 1, 2.5, 1e308, math.Inf(1)}

func showFloat(f float64) string {
	if f == 0 && math.Signbit(f) {
		return "-0"
	}
	return strconv.FormatFloat(f, 'g', -1, 64)
}

// tmRenderAny: the rendering the `any` comparator orders by (type letter + value).
func tmRenderAny(v any) string {
	switch x := v.(type) {
	case nil:
		return "nil"
	case int:
		return fmt.Sprintf("i%03d", x)
	case string:
		return "s" + x
	case []byte:
		return "b" + string(x)
	}
	return fmt.Sprintf("?%T", v)
}

type tmRunner func(r *core.Rand, kind, steps int, tc *tmCase) (string, string)

func tmMatrix() []tmRunner {
	mk := func(f tmRunner) tmRunner { return f }
	strs := []string{"a", "A", "b", "B", "ab", "Ab", "aB", "c", "C", "zz"}
	return []tmRunner{
		mk(func(r *core.Rand, kind, steps int, tc *tmCase) (string, string) {
			return tmRun(r, tmSpec[string]{
				name: "string",
				less: func(a, b string) bool { return a < b },
				gen:  func(r *core.Rand, tag int) string { return strs[r.Intn(len(strs))] + strconv.Itoa(r.Intn(3)) },
				show: func(s string) string { return strconv.Quote(s) },
			}, kind, steps, tc)
		}),
		mk(func(r *core.Rand, kind, steps int, tc *tmCase) (string, string) {
			return tmRun(r, tmSpec[string]{
				name: "string/fold",
				less: func(a, b string) bool { return strings.ToLower(a) < strings.ToLower(b) },
				gen:  func(r *core.Rand, tag int) string { return strs[r.Intn(len(strs))] },
				show: func(s string) string { return strconv.Quote(s) },
			}, kind, steps, tc)
		}),
		mk(func(r *core.Rand, kind, steps int, tc *tmCase) (string, string) {
			return tmRun(r, tmSpec[float64]{
				name: "float64",
				less: func(a, b float64) bool { return a < b },
				gen:  func(r *core.Rand, tag int) float64 { return tmFloats[r.Intn(len(tmFloats))] },
				show: showFloat,
			}, kind, steps, tc)
		}),
		mk(func(r *core.Rand, kind, steps int, tc *tmCase) (string, string) {
			return tmRun(r, tmSpec[float64]{
				name: "float64/nan-first",
				less: func(a, b float64) bool {
					if math.IsNaN(a) {
						return !math.IsNaN(b)
					}
					return !math.IsNaN(b) && a < b
				},
				gen: func(r *core.Rand, tag int) float64 {
					if r.Chance(25) {
						return math.NaN()
					}
					return tmFloats[r.Intn(len(tmFloats))]
				},
				show: showFloat,
			}, kind, steps, tc)
		}),
		mk(func(r *core.Rand, kind, steps int, tc *tmCase) (string, string) {
			return tmRun(r, tmSpec[tmKT]{
				name: "struct{K float64; Tag int}",
				less: func(a, b tmKT) bool { return a.K < b.K },
				gen:  func(r *core.Rand, tag int) tmKT { return tmKT{tmFloats[r.Intn(len(tmFloats))], tag} },
				show: func(x tmKT) string { return showFloat(x.K) + "#" + strconv.Itoa(x.Tag) },
			}, kind, steps, tc)
		}),
		mk(func(r *core.Rand, kind, steps int, tc *tmCase) (string, string) {
			return tmRun(r, tmSpec[any]{
				name: "any (int / string / []byte)",
				less: func(a, b any) bool { return tmRenderAny(a) < tmRenderAny(b) },
				gen: func(r *core.Rand, tag int) any {
					switch r.Intn(3) {
					case 0:
						return r.Intn(6)
					case 1:
						return strs[r.Intn(4)]
					}
					return []byte(strs[r.Intn(4)]) // a fresh, uncomparable value every time
				},
				show: tmRenderAny,
			}, kind, steps, tc)
		}),
		mk(func(r *core.Rand, kind, steps int, tc *tmCase) (string, string) {
			nils := 0
			k, d := tmRun(r, tmSpec[*int]{
				name: "*int",
				less: func(a, b *int) bool {
					if a == nil || b == nil {
						nils++ // (dereferencing would panic: the run goes on and reports it)
						return false
					}
					return *a/1000 < *b/1000
				},
				gen: func(r *core.Rand, tag int) *int {
					v := r.Range(0, 5)*1000 + tag%1000
					return &v
				},
				show: func(p *int) string {
					if p == nil {
						return "nil"
					}
					return strconv.Itoa(*p)
				},
			}, kind, steps, tc)
			if k == "" && nils > 0 {
				k, d = "cmp-argument", fmt.Sprintf("the comparator was handed a nil pointer %d times", nils)
			}
			return k, d
		}),
		mk(func(r *core.Rand, kind, steps int, tc *tmCase) (string, string) {
			return tmRun(r, tmSpec[struct{}]{
				name: "struct{}",
				less: func(a, b struct{}) bool { return false },
				gen:  func(r *core.Rand, tag int) struct{} { return struct{}{} },
				show: func(struct{}) string { return "{}" },
			}, kind, steps, tc)
		}),
	}
}

func extraTypeMatrix(ctx *core.Ctx) (int, string, []core.ExtraFailure) {
	per := 130 // runs per (type, container)
	if ctx.Tier == "thorough" {
		per *= 30
	}
	per *= max(1, ctx.Escalate)
	r := ctx.Rand.Fork()
	var fails []core.ExtraFailure
	seen := map[string]bool{}
	runs, calls := 0, 0
	matrix := tmMatrix()
	for round := 0; round < per; round++ {
		for _, run := range matrix {
			for kind := range tmContainers {
				runs++
				tc := &tmCase{Extra: "type-matrix"}
				var key, desc string
				rr := r.Fork()
				steps := rr.Range(5, 50)
				if o := core.Guard(func() string { key, desc = run(rr, kind, steps, tc); return "" }); o == "panic" {
					key, desc = "panic", "a call panicked"
					if n := len(tc.Script); n > 0 {
						desc = fmt.Sprintf("call %d (%s) panicked", n, tc.Script[n-1])
					}
				}
				calls += len(tc.Script)
				if key == "" {
					continue
				}
				key = "type-matrix-" + key
				if seen[key] {
					continue
				}
				seen[key] = true
				if len(tc.Script) > 60 {
					tc.Script = append([]string{fmt.Sprintf("… (%d earlier calls)", len(tc.Script)-60)}, tc.Script[len(tc.Script)-60:]...)
				}
				fails = append(fails, core.ExtraFailure{Failure: core.Failure{Key: key, Desc: fmt.Sprintf("%s of %s: %s", tc.Container, tc.Type, desc)}, Payload: tc})
			}
		}
	}
	note := fmt.Sprintf("%d runs (%d calls): Slice[T], Heap[T] and the generic functions on a slice container, T = string (<), string compared case-insensitively (distinguishable elements compare equal), float64 (finite, ±0, ±Inf; <), float64 with NaN under a NaN-first strict weak order (plain < with NaN is no strict weak order: not judged), struct{K float64; Tag int} by K, any holding int / string / []byte (uncomparable: == would panic) by a total order on a rendering, *int by dereferencing (never handed nil), struct{}; random Push Pop Peek Remove Fix, value change + Remove without Fix, PopAll drained / left early, Init against a reference that uses only the comparator and the harness's rendering; the comparator records its arguments: each one is an element the container holds during that call (never the zero value left in the capacity region, never one that left earlier)",
		runs, calls)
	return runs, note, fails
}
