package c04

import (
	"fmt"
	"strings"

	"github.com/welllog/golib/heapz"

	"verifharness/internal/core"
)

// Extras "independent-objects" and "results-ledger" (wave 4, classes 2 and 4): SEVERAL heaps
// live at the same time and are operated on in random interleaving. Go-only; every object has
// its own plain reference (a multiset of values / a set of live handles), and after EVERY call
// on ANY object the whole world is compared again:
//
//   - every object against its own reference (Len, multiset, heap order, handle indices a
//     bijection): an op on one object must not change another one (package-level scratch
//     memory, a shared pool, a comparator kept in a global would show here);
//   - the ledger: every *Element ever returned by Push / Pop / Peek (or allocated by Init) with
//     an independent copy of its Value; a handle that is in no heap reports Index() == -1 and
//     keeps its Value whatever is called later; Push returns a pointer never seen before; the
//     slice passed to Heap.Init — a window of a larger arena with canaries around it and in its
//     spare capacity — is unchanged after Init and after every later call, and overwriting it
//     afterwards does not reach the heap (Init copies the values).
//
// Objects are made by New(cap,·) / a zero Heap + Init / NewSlice(cap,·) / FromSlice, and as VALUE
// COPIES where Go semantics make the copy independent: `a := New(0,cmp); b := a` and
// `s := NewSlice(0,cmp); t := s` (empty, capacity 0: no shared array), then used independently.
// On copies of NON-EMPTY heaps only what is well defined is called: Len / Peek (must agree with
// the original) and, for Heap, Remove / Fix with the original's handles — a copy is another
// object, those handles are foreign to it, nothing may change.

type worldCase struct {
	Extra   string   `json:"extra"`
	Objects []string `json:"objects"` // how each object was made
	Script  []string `json:"script"`  // the calls, in order: "<object> <call>"
}

type elem = heapz.Element[int]

type wObj struct {
	name    string
	isHeap  bool
	cmpName string
	cmp     func(a, b int) bool
	h       *heapz.Heap[int]
	s       *heapz.Slice[int]
	ref     []int          // Slice: the multiset
	live    map[*elem]bool // Heap: the handles it holds
}

type initRec struct {
	arena, copy []int
	lo, n       int
}

type world struct {
	r      *core.Rand
	wc     *worldCase
	objs   []*wObj
	want   map[*elem]int   // ledger: the Value every handle carries
	owner  map[*elem]*wObj // nil: in no heap
	order  []*elem         // the handles in the order they were first seen
	inits  []*initRec
	tag    int
	canary int
	big    bool // objects of 63..200 elements
	// a finding made where no result can be returned (inside Init); reported by the next checkAll
	pendKey, pendDesc string
}

func (w *world) val() int {
	v := w.r.Range(0, 5)*1000 + w.tag%1000 + (w.tag/1000)*100000
	w.tag++
	return v
}

func (w *world) log(o *wObj, f string, a ...any) {
	w.wc.Script = append(w.wc.Script, o.name+" "+fmt.Sprintf(f, a...))
}

// see enters a handle into the ledger; fresh: it must not have been seen before.
func (w *world) see(e *elem, v int, o *wObj) {
	if _, known := w.want[e]; !known {
		w.order = append(w.order, e)
	}
	w.want[e] = v
	w.owner[e] = o
	if o != nil {
		o.live[e] = true
	}
}

func (w *world) newHeapObj(cn string) *wObj {
	o := &wObj{name: fmt.Sprintf("H%d", len(w.objs)), isHeap: true, cmpName: cn, cmp: cmpOf(cn), live: map[*elem]bool{}}
	w.objs = append(w.objs, o)
	return o
}

func (w *world) newSliceObj(cn string) *wObj {
	o := &wObj{name: fmt.Sprintf("S%d", len(w.objs)), cmpName: cn, cmp: cmpOf(cn)}
	w.objs = append(w.objs, o)
	return o
}

// doInit calls o.h.Init on a window of a canary-filled arena.
func (w *world) doInit(o *wObj, cn string, n int) {
	lo, spare, hi := w.r.Range(0, 3), w.r.Range(0, 3), w.r.Range(0, 2)
	arena := make([]int, lo+n+spare+hi)
	for i := range arena {
		w.canary--
		arena[i] = w.canary
	}
	for i := 0; i < n; i++ {
		arena[lo+i] = w.val()
	}
	rec := &initRec{arena: arena, copy: append([]int{}, arena...), lo: lo, n: n}
	vs := arena[lo : lo+n : lo+n+spare]
	for e := range o.live {
		w.owner[e] = nil
	}
	o.live = map[*elem]bool{}
	o.cmpName, o.cmp = cn, cmpOf(cn)
	o.h.Init(vs, o.cmp)
	w.inits = append(w.inits, rec)
	for _, e := range heapValues(o.h) {
		if e != nil {
			if _, known := w.want[e]; known && w.pendKey == "" {
				w.pendKey, w.pendDesc = "ledger-init-not-fresh", fmt.Sprintf("%s.Init put a pointer into the heap that was handed out before (then carrying %d)", o.name, w.want[e])
			}
			w.see(e, e.Value, o)
		}
	}
}

func (w *world) create(sizeOf func() int) {
	r := w.r
	cn := pickCmp(r)
	desc := func(f string, a ...any) { w.wc.Objects = append(w.wc.Objects, fmt.Sprintf(f, a...)) }
	switch r.Pick(22, 18, 10, 20, 20, 10) {
	case 0: // New(cap) + pushes
		o := w.newHeapObj(cn)
		c := pickCap(r)
		h := heapz.New[int](c, o.cmp)
		o.h = &h
		desc("%s = New(%d, %s)", o.name, c, cn)
	case 1: // zero value + Init
		o := w.newHeapObj(cn)
		o.h = new(heapz.Heap[int])
		n := sizeOf()
		w.doInit(o, cn, n)
		desc("var %s Heap; %s.Init(%d values, %s)", o.name, o.name, n, cn)
	case 2: // a := New(0, cmp); b := a
		a, b := w.newHeapObj(cn), w.newHeapObj(cn)
		h := heapz.New[int](0, a.cmp)
		a.h = &h
		b.h = new(heapz.Heap[int])
		*b.h = *a.h
		desc("%s = New(0, %s)", a.name, cn)
		desc("%s = %s (value copy of the empty heap)", b.name, a.name)
	case 3: // NewSlice(cap)
		o := w.newSliceObj(cn)
		c := pickCap(r)
		s := heapz.NewSlice[int](c, o.cmp)
		o.s = &s
		desc("%s = NewSlice(%d, %s)", o.name, c, cn)
	case 4: // FromSlice
		o := w.newSliceObj(cn)
		n := sizeOf()
		vs := make([]int, n)
		for i := range vs {
			vs[i] = w.val()
		}
		o.ref = append([]int{}, vs...)
		s := heapz.FromSlice(vs, o.cmp)
		o.s = &s
		desc("%s = FromSlice(%d values, %s)", o.name, n, cn)
	case 5: // s := NewSlice(0, cmp); t := s
		a, b := w.newSliceObj(cn), w.newSliceObj(cn)
		s := heapz.NewSlice[int](0, a.cmp)
		a.s = &s
		b.s = new(heapz.Slice[int])
		*b.s = *a.s
		desc("%s = NewSlice(0, %s)", a.name, cn)
		desc("%s = %s (value copy of the empty heap)", b.name, a.name)
	}
}

// validate compares one object with its reference.
func (w *world) validate(o *wObj) (what, desc string) {
	if !o.isHeap {
		vals := o.s.Values
		if o.s.Len() != len(o.ref) {
			return "len", fmt.Sprintf("%s.Len() = %d, its reference holds %d", o.name, o.s.Len(), len(o.ref))
		}
		if !sameMultiset(vals, o.ref) {
			return "multiset", fmt.Sprintf("%s.Values = %s, its reference holds %s", o.name, clipInts(vals), clipInts(o.ref))
		}
		if j, ok := heapOrdered(vals, o.cmp); !ok {
			return "order", fmt.Sprintf("%s.Values[%d]=%d precedes its parent %d", o.name, j, vals[j], vals[(j-1)/2])
		}
		return "", ""
	}
	n := o.h.Len()
	if n != len(o.live) {
		return "len", fmt.Sprintf("%s.Len() = %d, its reference holds %d", o.name, n, len(o.live))
	}
	arr := make([]int, n)
	used := make([]bool, n)
	for e := range o.live {
		ix := e.Index()
		if ix < 0 || ix >= n || used[ix] {
			return "index", fmt.Sprintf("%s: live handle (value %d) reports Index()=%d with Len()=%d", o.name, e.Value, ix, n)
		}
		used[ix], arr[ix] = true, w.want[e]
	}
	if j, ok := heapOrdered(arr, o.cmp); !ok {
		return "order", fmt.Sprintf("%s: the element at index %d (%d) precedes its parent (%d)", o.name, j, arr[j], arr[(j-1)/2])
	}
	if p := o.h.Peek(); (p == nil) != (n == 0) || (p != nil && !o.live[p]) {
		return "peek", fmt.Sprintf("%s.Peek() does not return one of its own elements", o.name)
	}
	return "", ""
}

// checkAll: the whole world after a call on `actor`.
func (w *world) checkAll(actor *wObj) (key, desc string) {
	if w.pendKey != "" {
		return w.pendKey, w.pendDesc
	}
	for _, o := range w.objs {
		if what, d := w.validate(o); what != "" {
			typ := "slice"
			if o.isHeap {
				typ = "heap"
			}
			if o != actor {
				return "independent-cross-" + typ, fmt.Sprintf("after a call on %s: %s", actor.name, d)
			}
			return "independent-" + typ + "-" + what, d
		}
	}
	for _, e := range w.order {
		if e.Value != w.want[e] {
			return "ledger-element-value", fmt.Sprintf("after a call on %s: a handle handed out earlier carried %d, now carries %d", actor.name, w.want[e], e.Value)
		}
		if w.owner[e] == nil && e.Index() != -1 {
			return "ledger-element-index", fmt.Sprintf("after a call on %s: the handle with value %d is in no heap but reports Index()=%d", actor.name, e.Value, e.Index())
		}
	}
	for _, rec := range w.inits {
		for i := range rec.arena {
			if rec.arena[i] != rec.copy[i] {
				where := "the slice given to Init"
				if i < rec.lo || i >= rec.lo+rec.n {
					where = "the memory AROUND the slice given to Init (canary / spare capacity)"
				}
				return "ledger-init-source", fmt.Sprintf("after a call on %s: %s changed: arena[%d] was %d, is %d (the values were at arena[%d:%d])", actor.name, where, i, rec.copy[i], rec.arena[i], rec.lo, rec.lo+rec.n)
			}
		}
	}
	return "", ""
}

// pickLive: a live handle of o by heap index (deterministic for a given implementation).
func (w *world) pickLive(o *wObj) *elem {
	if len(o.live) == 0 {
		return nil
	}
	var at []*elem
	for _, e := range w.order {
		if o.live[e] {
			at = append(at, e)
		}
	}
	return at[w.r.Intn(len(at))]
}

// pickNotIn: a handle that is NOT in o: detached, or live in another object.
func (w *world) pickNotIn(o *wObj, detachedOnly bool) *elem {
	var c []*elem
	for _, e := range w.order {
		if w.owner[e] != o && (!detachedOnly || w.owner[e] == nil) {
			c = append(c, e)
		}
	}
	if len(c) == 0 {
		return nil
	}
	return c[w.r.Intn(len(c))]
}

func (w *world) minCheck(o *wObj, v int, vals func(f func(int) bool)) (string, bool) {
	bad := ""
	vals(func(y int) bool {
		if o.cmp(y, v) {
			bad = fmt.Sprintf("%s handed out %d although it still holds %d, which precedes it", o.name, v, y)
			return false
		}
		return true
	})
	return bad, bad != ""
}

// stepHeap makes one call on a Heap object.
func (w *world) stepHeap(o *wObj, target int) (key, desc string) {
	r := w.r
	rest := func(f func(int) bool) {
		for e := range o.live {
			if !f(w.want[e]) {
				return
			}
		}
	}
	popped := func(e *elem, call string) (string, string) {
		if (e == nil) != (len(o.live) == 0) {
			return "independent-heap-result", fmt.Sprintf("%s.%s returned nil=%v with %d elements", o.name, call, e == nil, len(o.live))
		}
		if e == nil {
			return "", ""
		}
		if !o.live[e] {
			return "independent-heap-result", fmt.Sprintf("%s.%s returned an element (value %d) that is not in this heap", o.name, call, e.Value)
		}
		if call == "Pop()" {
			delete(o.live, e)
			w.owner[e] = nil
		}
		if d, bad := w.minCheck(o, w.want[e], rest); bad {
			return "independent-heap-min", d
		}
		return "", ""
	}
	pushW := 18
	if len(o.live) < target {
		pushW = 45
	}
	switch r.Pick(pushW, 14, 5, 12, 8, 6, 8, 3, 4, 3, 6) {
	case 0:
		v := w.val()
		w.log(o, "Push(%d)", v)
		e := o.h.Push(v)
		if e == nil {
			return "independent-heap-result", o.name + ".Push returned nil"
		}
		if _, known := w.want[e]; known {
			return "ledger-push-not-fresh", fmt.Sprintf("%s.Push(%d) returned a pointer that was handed out before (then carrying %d)", o.name, v, w.want[e])
		}
		w.see(e, v, o)
	case 1:
		w.log(o, "Pop()")
		return popped(o.h.Pop(), "Pop()")
	case 2:
		w.log(o, "Peek()")
		return popped(o.h.Peek(), "Peek()")
	case 3:
		if e := w.pickLive(o); e != nil {
			w.log(o, "Remove(handle of %d)", e.Value)
			o.h.Remove(e)
			delete(o.live, e)
			w.owner[e] = nil
		}
	case 4:
		if e := w.pickLive(o); e != nil {
			v := w.val()
			w.log(o, "handle of %d: Value = %d; Fix", e.Value, v)
			e.Value = v
			w.want[e] = v
			o.h.Fix(e)
		}
	case 5:
		// a handle that is not this heap's (detached, or live in ANOTHER object): ignored
		if e := w.pickNotIn(o, false); e != nil {
			call := []string{"Remove", "Fix"}[r.Intn(2)]
			w.log(o, "%s(handle of %d, which is not in this heap)", call, e.Value)
			if call == "Remove" {
				o.h.Remove(e)
			} else {
				o.h.Fix(e)
			}
		}
	case 6:
		// a detached handle (wherever it came from) is pushed into this heap
		if e := w.pickNotIn(o, true); e != nil {
			w.log(o, "PushElement(detached handle of %d)", e.Value)
			o.h.PushElement(e)
			w.see(e, w.want[e], o)
		}
	case 7:
		cn := earlyCmps[r.Intn(4)]
		n := r.Range(0, 8)
		if w.big && r.Chance(40) {
			n = []int{63, 64, 65, 100}[r.Intn(4)]
		}
		w.log(o, "Init(%d values in an arena, %s)", n, cn)
		w.doInit(o, cn, n)
	case 8:
		// the caller overwrites a slice it passed to Init earlier: the heaps must not notice
		if len(w.inits) > 0 {
			rec := w.inits[r.Intn(len(w.inits))]
			if rec.n > 0 {
				i := rec.lo + r.Intn(rec.n)
				w.canary--
				rec.arena[i], rec.copy[i] = w.canary, w.canary
				w.log(o, "(the caller overwrites element %d of a slice it gave to Init earlier)", i-rec.lo)
			}
		}
	case 9:
		k := max(1, []int{1, 2, len(o.live) / 2, len(o.live), len(o.live) + 1}[r.Intn(5)])
		w.log(o, "for x := range PopAll() { …break after %d }", k)
		taken := 0
		for x := range o.h.PopAll() {
			var gone *elem
			for e := range o.live {
				if e.Index() == -1 {
					gone = e
				}
			}
			if gone == nil || w.want[gone] != x {
				return "independent-heap-result", fmt.Sprintf("%s.PopAll() yielded %d, no live handle with that value was detached", o.name, x)
			}
			delete(o.live, gone)
			w.owner[gone] = nil
			if d, bad := w.minCheck(o, x, rest); bad {
				return "independent-heap-min", d
			}
			taken++
			if taken == k {
				break
			}
		}
	case 10:
		// a struct copy of the heap as it is: Len / Peek agree; the original's handles are foreign to it
		before := append([]*elem{}, heapValues(o.h)...)
		c := *o.h
		w.log(o, "c := *h; c.Len(), c.Peek(), c.Remove / c.Fix with handles of h")
		if c.Len() != o.h.Len() || c.Peek() != o.h.Peek() {
			return "independent-copy-read", fmt.Sprintf("a copy of %s: Len() %d vs %d / Peek() differs", o.name, c.Len(), o.h.Len())
		}
		for i := 0; i < 2; i++ {
			if e := w.pickLive(o); e != nil {
				if r.Bool() {
					c.Remove(e)
				} else {
					c.Fix(e)
				}
			}
		}
		after := heapValues(o.h)
		same := len(before) == len(after)
		for i := 0; same && i < len(after); i++ {
			same = before[i] == after[i] && after[i] != nil && after[i].Index() == i
		}
		if !same {
			return "independent-copy-foreign", fmt.Sprintf("Remove / Fix called on a struct copy of %s with handles of %s changed %s", o.name, o.name, o.name)
		}
	}
	return "", ""
}

func (w *world) stepSlice(o *wObj, target int) (key, desc string) {
	r := w.r
	rest := func(f func(int) bool) {
		for _, y := range o.ref {
			if !f(y) {
				return
			}
		}
	}
	pushW := 18
	if len(o.ref) < target {
		pushW = 45
	}
	switch r.Pick(pushW, 16, 5, 12, 8, 4, 4, 4) {
	case 0:
		v := w.val()
		w.log(o, "Push(%d)", v)
		o.s.Push(v)
		o.ref = append(o.ref, v)
	case 1, 2:
		call := "Pop()"
		var x int
		var ok bool
		if r.Chance(75) {
			x, ok = o.s.Pop()
		} else {
			call = "Peek()"
			x, ok = o.s.Peek()
		}
		w.log(o, "%s", call)
		if ok != (len(o.ref) > 0) || (!ok && x != 0) {
			return "independent-slice-result", fmt.Sprintf("%s.%s = (%d,%v) with %d elements", o.name, call, x, ok, len(o.ref))
		}
		if !ok {
			break
		}
		if call == "Pop()" {
			var present bool
			if o.ref, present = msRemove(o.ref, x); !present {
				return "independent-slice-result", fmt.Sprintf("%s.Pop() returned %d, which it does not hold", o.name, x)
			}
		}
		if d, bad := w.minCheck(o, x, rest); bad {
			return "independent-slice-min", d
		}
	case 3:
		if n := len(o.s.Values); n > 0 {
			i := r.Intn(n)
			want := o.s.Values[i]
			w.log(o, "Remove(%d)", i)
			x, ok := o.s.Remove(i)
			if !ok || x != want {
				return "independent-slice-result", fmt.Sprintf("%s.Remove(%d) = (%d,%v), Values[%d] was %d", o.name, i, x, ok, i, want)
			}
			o.ref, _ = msRemove(o.ref, want)
		}
	case 4:
		if n := len(o.s.Values); n > 0 {
			i, v := r.Intn(n), w.val()
			w.log(o, "Values[%d] = %d; Fix(%d)", i, v, i)
			o.ref, _ = msRemove(o.ref, o.s.Values[i])
			o.ref = append(o.ref, v)
			o.s.Values[i] = v
			o.s.Fix(i)
		}
	case 5:
		i := []int{-1, len(o.s.Values), len(o.s.Values) + 3}[r.Intn(3)]
		w.log(o, "Remove(%d) / Fix(%d) (out of range)", i, i)
		if x, ok := o.s.Remove(i); ok || x != 0 {
			return "independent-slice-result", fmt.Sprintf("%s.Remove(%d) out of range = (%d,%v)", o.name, i, x, ok)
		}
		o.s.Fix(i)
	case 6:
		k := max(1, []int{1, 2, len(o.ref) / 2, len(o.ref), len(o.ref) + 1}[r.Intn(5)])
		w.log(o, "for x := range PopAll() { …break after %d }", k)
		taken := 0
		for x := range o.s.PopAll() {
			var present bool
			if o.ref, present = msRemove(o.ref, x); !present {
				return "independent-slice-result", fmt.Sprintf("%s.PopAll() yielded %d, which it does not hold", o.name, x)
			}
			if d, bad := w.minCheck(o, x, rest); bad {
				return "independent-slice-min", d
			}
			taken++
			if taken == k {
				break
			}
		}
	case 7:
		// a struct copy as it is: the read-only calls agree
		t := *o.s
		w.log(o, "t := *s; t.Len(), t.Peek()")
		x1, ok1 := t.Peek()
		x2, ok2 := o.s.Peek()
		if t.Len() != o.s.Len() || x1 != x2 || ok1 != ok2 {
			return "independent-copy-read", fmt.Sprintf("a copy of %s: Len() %d vs %d, Peek() (%d,%v) vs (%d,%v)", o.name, t.Len(), o.s.Len(), x1, ok1, x2, ok2)
		}
	}
	return "", ""
}

// worldRun: one world, nObj creations, steps calls; big: the Init / FromSlice sizes.
func worldRun(r *core.Rand, wc *worldCase, nCreate, steps int, big bool) (key, desc string) {
	w := &world{r: r, wc: wc, want: map[*elem]int{}, owner: map[*elem]*wObj{}, big: big}
	sizeOf := func() int {
		if big {
			return []int{63, 64, 65, 100, 200}[r.Intn(5)]
		}
		return r.Range(0, 9)
	}
	for i := 0; i < nCreate; i++ {
		w.create(sizeOf)
	}
	target := r.Range(2, 12)
	o0 := w.objs[0]
	if key, desc = w.checkAll(o0); key != "" {
		return key, "right after the objects were made: " + desc
	}
	for i := 0; i < steps; i++ {
		o := w.objs[r.Intn(len(w.objs))]
		if o.isHeap {
			key, desc = w.stepHeap(o, target)
		} else {
			key, desc = w.stepSlice(o, target)
		}
		if key == "" {
			key, desc = w.checkAll(o)
		}
		if key != "" {
			return key, fmt.Sprintf("call %d (%s): %s", len(wc.Script), wc.Script[len(wc.Script)-1], desc)
		}
	}
	// drain everything: each object yields exactly its own reference, in its own order
	for _, o := range w.objs {
		var got []int
		var want []int
		if o.isHeap {
			for e := range o.live {
				want = append(want, w.want[e])
				w.owner[e] = nil
			}
			o.live = map[*elem]bool{}
			for x := range o.h.PopAll() {
				got = append(got, x)
			}
		} else {
			want, o.ref = o.ref, nil
			for x := range o.s.PopAll() {
				got = append(got, x)
			}
		}
		w.log(o, "drain")
		if !sameMultiset(got, want) || !sortedAdj(got, o.cmp) {
			return "independent-drain", fmt.Sprintf("%s drained %s, its reference held %s (comparator %s)", o.name, clipInts(got), clipInts(want), o.cmpName)
		}
		if key, desc = w.checkAll(o); key != "" {
			return key, "after draining " + o.name + ": " + desc
		}
	}
	return "", ""
}

// ---------------------------------------------------------------- Slice[*box]: returned values that CAN alias

// box is a caller-owned value behind a pointer: the results of Pop / Peek / PopAll on a
// Slice[*box] are pointers the ledger can watch (identity + an independent copy of the pointee).
type box struct{ v, id int }

func boxRun(r *core.Rand, steps int, n0 int) (script []string, key, desc string) {
	cn := pickCmp(r)
	ic := cmpOf(cn)
	cmp := func(a, b *box) bool { return ic(a.v, b.v) }
	type entry struct {
		p    *box
		copy box
	}
	var ledger []entry // every pointer the heap ever returned
	in := map[*box]bool{}
	next := 0
	mk := func() *box {
		b := &box{v: r.Range(0, 5)*1000 + next%1000, id: next}
		next++
		return b
	}
	var s heapz.Slice[*box]
	if r.Bool() {
		vs := make([]*box, n0)
		for i := range vs {
			vs[i] = mk()
			in[vs[i]] = true
		}
		s = heapz.FromSlice(vs, cmp)
		script = append(script, fmt.Sprintf("FromSlice(%d boxes, %s)", n0, cn))
	} else {
		s = heapz.NewSlice[*box](pickCap(r), cmp)
		script = append(script, fmt.Sprintf("NewSlice(cap, %s)", cn))
		for i := 0; i < n0; i++ {
			b := mk()
			in[b] = true
			s.Push(b)
		}
	}
	returned := func(call string, p *box, pop bool) (string, string) {
		if p == nil || !in[p] {
			return "ledger-slice-result", fmt.Sprintf("%s returned a pointer the heap does not hold (lost / handed out twice)", call)
		}
		if pop {
			delete(in, p)
		}
		for q := range in {
			if q != p && ic(q.v, p.v) {
				return "ledger-slice-min", fmt.Sprintf("%s returned %d although the heap still holds %d, which precedes it", call, p.v, q.v)
			}
		}
		ledger = append(ledger, entry{p, *p})
		return "", ""
	}
	for i := 0; i < steps; i++ {
		switch r.Pick(40, 25, 8, 12, 6) {
		case 0:
			b := mk()
			in[b] = true
			s.Push(b)
			script = append(script, fmt.Sprintf("Push(&box{%d})", b.v))
		case 1:
			script = append(script, "Pop()")
			p, ok := s.Pop()
			if ok != (len(in) > 0) || (!ok && p != nil) {
				return script, "ledger-slice-result", fmt.Sprintf("Pop() ok=%v with %d elements", ok, len(in))
			}
			if ok {
				if k, d := returned("Pop()", p, true); k != "" {
					return script, k, d
				}
			}
		case 2:
			script = append(script, "Peek()")
			if p, ok := s.Peek(); ok {
				if k, d := returned("Peek()", p, false); k != "" {
					return script, k, d
				}
			}
		case 3:
			if n := s.Len(); n > 0 {
				j := r.Intn(n)
				want := s.Values[j]
				script = append(script, fmt.Sprintf("Remove(%d)", j))
				p, ok := s.Remove(j)
				if !ok || p != want {
					return script, "ledger-slice-result", fmt.Sprintf("Remove(%d) did not return Values[%d]", j, j)
				}
				delete(in, p)
				ledger = append(ledger, entry{p, *p})
			}
		case 4:
			k := r.Range(1, 4)
			script = append(script, fmt.Sprintf("for x := range PopAll() { …break after %d }", k))
			taken := 0
			for p := range s.PopAll() {
				if kk, d := returned("PopAll()", p, true); kk != "" {
					return script, kk, d
				}
				taken++
				if taken == k {
					break
				}
			}
		}
		if s.Len() != len(in) {
			return script, "ledger-slice-len", fmt.Sprintf("Len() = %d, the reference holds %d", s.Len(), len(in))
		}
		seen := map[*box]bool{}
		for _, p := range s.Values {
			if p == nil || !in[p] || seen[p] {
				return script, "ledger-slice-multiset", "Values holds a pointer twice / one that was popped / nil"
			}
			seen[p] = true
		}
		for _, e := range ledger {
			if *e.p != e.copy {
				return script, "ledger-slice-result", fmt.Sprintf("a box returned earlier held %v, now holds %v", e.copy, *e.p)
			}
		}
	}
	return script, "", ""
}

// ---------------------------------------------------------------- the two Extras

func worldExtra(name string) func(ctx *core.Ctx) (int, string, []core.ExtraFailure) {
	return func(ctx *core.Ctx) (int, string, []core.ExtraFailure) {
		small, big, boxes := 2500, 30, 0
		if name == "results-ledger" {
			small, big, boxes = 1500, 20, 1500
		}
		if ctx.Tier == "thorough" {
			small, big, boxes = small*40, big*20, boxes*40
		}
		e := max(1, ctx.Escalate)
		small, big, boxes = small*e, big*e, boxes*e
		r := ctx.Rand.Fork()
		var fails []core.ExtraFailure
		seen := map[string]bool{}
		runs, calls, objs := 0, 0, 0
		one := func(nCreate, steps int, isBig bool) {
			runs++
			wc := &worldCase{Extra: name}
			var key, desc string
			rr := r.Fork()
			if o := core.Guard(func() string { key, desc = worldRun(rr, wc, nCreate, steps, isBig); return "" }); o == "panic" {
				key, desc = "independent-panic", "a call panicked"
				if n := len(wc.Script); n > 0 {
					desc = fmt.Sprintf("call %d (%s) panicked", n, wc.Script[n-1])
				}
			}
			calls += len(wc.Script)
			objs += len(wc.Objects)
			if key != "" && !seen[key] {
				seen[key] = true
				if len(wc.Script) > 80 {
					wc.Script = append([]string{fmt.Sprintf("… (%d earlier calls)", len(wc.Script)-80)}, wc.Script[len(wc.Script)-80:]...)
				}
				fails = append(fails, core.ExtraFailure{Failure: core.Failure{Key: key, Desc: desc}, Payload: wc})
			}
		}
		for i := 0; i < small; i++ {
			if name == "results-ledger" {
				one(r.Range(1, 3), r.Range(10, 60), false)
			} else {
				one(r.Range(3, 5), r.Range(10, 70), false)
			}
		}
		for i := 0; i < big; i++ {
			one(r.Range(2, 4), r.Range(10, 40), true)
		}
		boxCalls := 0
		for i := 0; i < boxes; i++ {
			runs++
			n0 := r.Range(0, 9)
			if i%50 == 0 {
				n0 = []int{63, 64, 65, 130}[r.Intn(4)]
			}
			var script []string
			var key, desc string
			rr := r.Fork()
			if o := core.Guard(func() string { script, key, desc = boxRun(rr, r.Range(5, 50), n0); return "" }); o == "panic" {
				key, desc = "ledger-slice-panic", "panicked"
			}
			boxCalls += len(script)
			if key != "" && !seen[key] {
				seen[key] = true
				fails = append(fails, core.ExtraFailure{Failure: core.Failure{Key: key, Desc: "Slice[*box]: " + desc}, Payload: map[string]any{"extra": name, "type": "Slice[*box]", "script": script}})
			}
		}
		note := fmt.Sprintf("%d worlds (%d with 63..200 elements per object), %d objects made by New(cap) / zero Heap + Init / NewSlice(cap) / FromSlice / value copies of empty cap-0 heaps, %d calls in random interleaving (Push Pop Peek Remove Fix PushElement Init PopAll, Remove/Fix with foreign handles, read-only calls and foreign-handle calls on struct copies); after EVERY call every object was compared with its own reference and the ledger re-checked (every handle ever handed out: Value unchanged, Index()=-1 once it is in no heap, Push returns fresh pointers; every slice given to Init, with canaries around it and in its spare capacity, unchanged, overwriting it later does not reach the heap)",
			runs-boxes, big, objs, calls)
		if boxes > 0 {
			note += fmt.Sprintf("; %d runs on Slice[*box] (%d calls): every pointer returned by Pop / Peek / Remove / PopAll is one the heap held, none twice, its pointee unchanged by later calls", boxes, boxCalls)
		}
		return runs, strings.TrimSpace(note), fails
	}
}
