package c09

import (
	"crypto/md5"
	"encoding/hex"
	"fmt"

	"verifharness/internal/core"
	"verifharness/internal/transrt"
)

// extraTransFillCredGrid: the regenerated tie of fillCred (WAVE9_GUIDE), executed on a grid the
// generic trans-diff stream only samples: EVERY secret length 0..80 (the MD5 padding boundaries
// 55/56, 64 and — with the 16 bytes of the previous digest in front — 39/40, 47/48 included),
// salt lengths 0..16 and cred lengths around every round boundary 0..64.  Three answers per
// line: the real fillCred (the private function, through the go2lean wrapper that lives in the
// shimmed copy of the package), the definition go2lean generated from the tree, executed by the
// oracle with the Lean MD5, and an independent expectation written from the OpenSSL description
// (EVP_BytesToKey with MD5, count 1; copy semantics of the three `copy(cred[i*16:], …)`).
func extraTransFillCredGrid(ctx *core.Ctx) (int, string, []core.ExtraFailure) {
	if _, ok := transrt.Call("cryptz", "fillCred", []string{"-", "-", "-"}); !ok {
		return 0, "no Go wrapper registered for cryptz:fillCred (untranslatable now: reported by the proof side)", nil
	}
	saltLens := []int{0, 1, 7, 8, 9, 15, 16}
	credLens := []int{0, 1, 15, 16, 17, 31, 32, 33, 47, 48, 49, 63, 64}
	if ctx.Tier == "thorough" {
		saltLens = nil
		for n := 0; n <= 16; n++ {
			saltLens = append(saltLens, n)
		}
		credLens = nil
		for n := 0; n <= 64; n++ {
			credLens = append(credLens, n)
		}
	}
	hexOr := func(b []byte) string {
		if len(b) == 0 {
			return "-"
		}
		return hex.EncodeToString(b)
	}
	lines := []string{"@ C09 trans fillCred"}
	var want []string
	k := 0
	for sl := 0; sl <= 80; sl++ {
		for _, tl := range saltLens {
			for _, cl := range credLens {
				if ctx.Tier != "thorough" && (sl+tl+cl)%3 != 0 && cl != 48 {
					continue // quick: a third of the grid, every line with the 48-byte cred the library uses
				}
				k++
				secret, salt, cred := make([]byte, sl), make([]byte, tl), make([]byte, cl)
				for i := range secret {
					secret[i] = byte(31*i + 7*k + 1)
				}
				for i := range salt {
					salt[i] = byte(0xa0 + 13*i + k)
				}
				for i := range cred {
					cred[i] = byte(0xc0 ^ i ^ k)
				}
				lines = append(lines, fmt.Sprintf("%s %s %s", hexOr(cred), hexOr(salt), hexOr(secret)))
				// independent expectation
				if cl < 32 {
					want = append(want, "panic")
					continue
				}
				var prev []byte
				exp := append([]byte{}, cred...)
				for i := 0; i < 3; i++ {
					h := md5.Sum(append(append(append([]byte{}, prev...), secret...), salt...))
					prev = h[:]
					copy(exp[i*16:], prev)
				}
				want = append(want, hexOr(exp))
			}
		}
	}
	c := core.Case{Lines: lines}
	model, err := core.RunOracle(ctx.VerifDir, []core.Case{c})
	if err != nil {
		return 0, "", []core.ExtraFailure{{Failure: core.Failure{Key: "trans-fillcred-oracle", Desc: "the oracle did not run the translated fillCred: " + err.Error()}, NoInput: true}}
	}
	var fails []core.ExtraFailure
	bad := 0
	for i, l := range lines[1:] {
		real, _ := transrt.Call("cryptz", "fillCred", core.Toks(l))
		gen := model[0][i+1]
		key, desc, noInput := "", "", false
		switch {
		case real != want[i]:
			key, desc = "fillcred-not-evp", fmt.Sprintf("fillCred(cred, salt, secret) on `%s` (cred salt secret): code=%q, EVP_BytesToKey(MD5) with copy semantics=%q", l, real, want[i])
		case !transrt.SameOut(real, gen):
			noInput = true // a disagreement OF THE TRANSLATOR: the tie is broken, not a failing input of the code
			key, desc = "trans-diff-fillCred", fmt.Sprintf("the go2lean translation of cryptz:fillCred disagrees with the real function on `%s`: code=%q translated=%q", l, real, gen)
		}
		if key != "" {
			bad++
			if len(fails) < 2 {
				fails = append(fails, core.ExtraFailure{
					Failure: core.Failure{Key: key, Desc: desc},
					Payload: map[string]any{"lines": []string{lines[0], l}, "impl_out": real, "translated_out": gen, "expected": want[i]},
					NoInput: noInput,
				})
			}
		}
	}
	return len(lines) - 1, fmt.Sprintf("%d (cred, salt, secret) triples — secret lengths 0..80, salt lengths %v, cred lengths %v: real fillCred = generated definition (Lean MD5) = independent EVP derivation; %d differences", len(lines)-1, saltLens, credLens, bad), fails
}
