package c09

import (
	"bytes"
	"crypto/aes"
	"crypto/cipher"
	"crypto/md5"
	"encoding/base64"
	"encoding/hex"
	"fmt"
	"strconv"
	"strings"

	"verifharness/internal/core"
)

// ---------- independent reference: OpenSSL EVP_BytesToKey(MD5, 1 round) + stdlib modes

var magic = []byte("Salted__")

// evp derives 32 key bytes + 16 IV bytes: D1 = MD5(secret‖salt), Di = MD5(D(i-1)‖secret‖salt).
func evp(secret, salt []byte) (key, iv []byte) {
	var d, prev []byte
	for len(d) < 48 {
		h := md5.New()
		h.Write(prev)
		h.Write(secret)
		h.Write(salt)
		prev = h.Sum(nil)
		d = append(d, prev...)
	}
	return d[:32], d[32:48]
}

func pad16(pt []byte) []byte {
	n := 16 - len(pt)%16
	return append(append([]byte{}, pt...), bytes.Repeat([]byte{byte(n)}, n)...)
}

func validPad16(x []byte) int {
	if len(x) == 0 || len(x)%16 != 0 {
		return 0
	}
	n := int(x[len(x)-1])
	if n < 1 || n > 16 {
		return 0
	}
	for _, v := range x[len(x)-n:] {
		if int(v) != n {
			return 0
		}
	}
	return n
}

// refCBCEnvelope = "Salted__" ‖ salt ‖ AES-256-CBC(evp key, iv, pad(pt))
func refCBCEnvelope(salt, secret, pt []byte) []byte {
	key, iv := evp(secret, salt)
	blk, _ := aes.NewCipher(key)
	p := pad16(pt)
	out := make([]byte, 16+len(p))
	copy(out, magic)
	copy(out[8:], salt)
	cipher.NewCBCEncrypter(blk, iv).CryptBlocks(out[16:], p)
	return out
}

// refCBCOpen: (plaintext, true) iff raw is a well-formed envelope with correct padding
func refCBCOpen(raw, secret []byte) ([]byte, bool) {
	if len(raw) < 32 || len(raw)%16 != 0 || !bytes.Equal(raw[:8], magic) {
		return nil, false
	}
	key, iv := evp(secret, raw[8:16])
	blk, _ := aes.NewCipher(key)
	p := make([]byte, len(raw)-16)
	cipher.NewCBCDecrypter(blk, iv).CryptBlocks(p, raw[16:])
	n := validPad16(p)
	if n == 0 {
		return nil, false
	}
	return p[:len(p)-n], true
}

func refGCMEnvelope(salt, secret, ad, pt []byte) []byte {
	key, iv := evp(secret, salt)
	blk, _ := aes.NewCipher(key)
	g, _ := cipher.NewGCM(blk)
	out := append(append([]byte{}, magic...), salt...)
	return g.Seal(out, iv[:12], pt, ad)
}

func refGCMOpen(raw, secret, ad []byte) ([]byte, bool) {
	if len(raw) < 16 || !bytes.Equal(raw[:8], magic) {
		return nil, false
	}
	key, iv := evp(secret, raw[8:16])
	blk, _ := aes.NewCipher(key)
	g, _ := cipher.NewGCM(blk)
	p, err := g.Open(nil, iv[:12], raw[16:], ad)
	if err != nil {
		return nil, false
	}
	if p == nil {
		p = []byte{}
	}
	return p, true
}

func refCTR(salt, secret, data []byte) []byte {
	key, iv := evp(secret, salt)
	blk, _ := aes.NewCipher(key)
	out := make([]byte, len(data))
	cipher.NewCTR(blk, iv).XORKeyStream(out, data)
	return out
}

func refStream(salt, secret, pt []byte) []byte {
	return append(append(append([]byte{}, magic...), salt...), refCTR(salt, secret, pt)...)
}

func isErr(o string) bool { return strings.HasPrefix(o, "err:") && !strings.HasPrefix(o, "err:?") }

func readerGood(spec string) bool { // generic reader that ends with io.EOF
	f := strings.Split(spec, ":")
	return len(f) == 4 && f[3] == "0"
}

// parseShow splits "ok <lens> <hex>".
func parseShow(o string) (lens []int, content []byte, ok bool) {
	f := strings.Fields(o)
	if len(f) != 3 || f[0] != "ok" {
		return nil, nil, false
	}
	content, ok = unhx(f[2])
	if !ok {
		return nil, nil, false
	}
	if f[1] != "-" && f[1] != "*" {
		for _, x := range strings.Split(f[1], ",") {
			v, err := strconv.Atoi(x)
			if err != nil {
				return nil, nil, false
			}
			lens = append(lens, v)
		}
	}
	return lens, content, true
}

func check(c core.Case, out []string) *core.Failure {
	for i := 1; i < len(c.Lines); i++ {
		t := core.Toks(c.Lines[i])
		o := out[i]
		bad := func(key, want string) *core.Failure {
			return &core.Failure{Key: key, Desc: fmt.Sprintf("line %d %q: implementation answered %q, %s", i, clipS(c.Lines[i]), clipS(o), want)}
		}
		if o == "panic" {
			return bad(t[0]+"-panic", "a panic is never allowed")
		}
		if strings.HasPrefix(o, "input-modified") {
			return bad(t[0]+"-side-effect", "the caller's memory (secret, additional data, plaintext/message windows of the arena, the bytes in their spare capacity, the canaries) must not be modified")
		}
		if strings.HasPrefix(o, "result-changed") {
			return bad(t[0]+"-result-unstable", "a slice returned by an earlier call must not change when the library is called again")
		}
		if o == "bad-op" {
			continue
		}
		arg := func(k int) []byte { b, _ := unhx(t[k]); return b }
		switch t[0] {
		case "reuse-cbc-left", "reuse-gcm-left":
			var secret, ad, raw []byte
			if t[0] == "reuse-cbc-left" {
				secret, raw = arg(1), arg(2)
			} else {
				secret, ad, raw = arg(1), arg(2), arg(3)
			}
			k := strings.LastIndex(o, " ct=")
			if k < 0 {
				return bad(t[0]+"-malformed", "want <outcome> ct=<buffer>")
			}
			left, _ := unhx(o[k+4:])
			res := o[:k]
			// the 16-byte header (and everything if the call was rejected before decrypting) is never written
			hdr := len(raw)
			if hdr > 16 {
				hdr = 16
			}
			if len(left) != len(raw) || !bytes.Equal(left[:hdr], raw[:hdr]) {
				return bad(t[0]+"-side-effect", "reuseCipherText may only overwrite cipherText[16:]: the header must stay")
			}
			var p []byte
			var ok bool
			if t[0] == "reuse-cbc-left" {
				p, ok = refCBCOpen(raw, secret)
				wellFormed := len(raw) >= 32 && len(raw)%16 == 0 && bytes.Equal(raw[:8], magic)
				if !wellFormed && !bytes.Equal(left, raw) {
					return bad(t[0]+"-side-effect", "a call rejected by the length / magic checks must not write at all")
				}
			} else {
				p, ok = refGCMOpen(raw, secret, ad)
				if len(raw) >= 16 && bytes.Equal(raw[:8], magic) && !ok && len(raw) >= 32 {
					// failed authentication: Open clears its output region cipherText[16:len-16], the tag stays
					want := append(append(append([]byte{}, raw[:16]...), make([]byte, len(raw)-32)...), raw[len(raw)-16:]...)
					if !bytes.Equal(left, want) {
						return bad(t[0]+"-failure-leaves", "after a failed authentication cipherText[16:len-16] must be zeros and header and tag unchanged")
					}
				}
			}
			if !ok {
				if !isErr(res) {
					return bad(t[0]+"-accepts-malformed", "must be an error")
				}
				continue
			}
			if res != "ok "+hx(p) {
				return bad(t[0]+"-wrong", "want plaintext "+clipS(hx(p)))
			}
			if !bytes.Equal(left[16:16+len(p)], p) {
				return bad(t[0]+"-wrong", "the returned slice must be the start of cipherText[16:]")
			}
		case "enc-cbc", "raw-enc-cbc":
			salt, secret, pt := arg(2), arg(3), arg(4)
			want := refCBCEnvelope(salt, secret, pt)
			if t[0] == "enc-cbc" {
				want = []byte(base64.StdEncoding.EncodeToString(want))
			}
			if o != "ok "+hx(want) {
				return bad("cbc-envelope-wrong", "base64(\"Salted__\" ‖ salt ‖ AES-256-CBC under EVP_BytesToKey(MD5)) is "+clipS(hx(want)))
			}
		case "dec-cbc", "raw-dec-cbc":
			var raw, secret []byte
			if t[0] == "dec-cbc" {
				secret = arg(2)
				var err error
				raw, err = base64.StdEncoding.DecodeString(string(arg(3)))
				if err != nil {
					if !isErr(o) {
						return bad("cbc-decrypt-accepts-bad-base64", "input is not valid base64: must be an error")
					}
					continue
				}
			} else {
				secret, raw = arg(3), arg(4)
			}
			p, ok := refCBCOpen(raw, secret)
			if !ok {
				if !isErr(o) {
					return bad("cbc-decrypt-accepts-malformed", "not a well-formed, correctly padded envelope under this secret: must be an error")
				}
				continue
			}
			if o != "ok "+hx(p) {
				return bad("cbc-decrypt-wrong", "want plaintext "+clipS(hx(p)))
			}
		case "enc-gcm", "raw-enc-gcm":
			salt, secret, ad, pt := arg(2), arg(3), arg(4), arg(5)
			want := refGCMEnvelope(salt, secret, ad, pt)
			if t[0] == "enc-gcm" {
				want = []byte(hex.EncodeToString(want))
			}
			if o != "ok "+hx(want) {
				return bad("gcm-envelope-wrong", "hex(\"Salted__\" ‖ salt ‖ AES-256-GCM(nonce = first 12 IV bytes)) is "+clipS(hx(want)))
			}
		case "dec-gcm", "raw-dec-gcm":
			var raw, secret, ad []byte
			if t[0] == "dec-gcm" {
				secret, ad = arg(2), arg(3)
				var err error
				raw, err = hex.DecodeString(string(arg(4)))
				if err != nil {
					if !isErr(o) {
						return bad("gcm-decrypt-accepts-bad-hex", "input is not valid hex: must be an error")
					}
					continue
				}
			} else {
				secret, ad, raw = arg(3), arg(4), arg(5)
			}
			p, ok := refGCMOpen(raw, secret, ad)
			if !ok {
				if !isErr(o) {
					return bad("gcm-decrypt-accepts-forgery", "magic/salt/ciphertext/tag/secret/AD do not authenticate: must be an error")
				}
				continue
			}
			if o != "ok "+hx(p) {
				return bad("gcm-decrypt-wrong", "want plaintext "+clipS(hx(p)))
			}
		case "enc-stream":
			salt, secret, pt := arg(2), arg(3), arg(6)
			good := t[5] == "-" && (t[4] == "w" || readerGood(t[4]))
			if !good {
				if t[4] != "w" && !readerGood(t[4]) && t[5] == "-" && !isErr(o) {
					return bad("stream-encrypt-swallows-read-error", "the source reader failed: must be an error")
				}
				continue // failing writers: model comparison only
			}
			lens, content, ok := parseShow(o)
			want := refStream(salt, secret, pt)
			if !ok || !bytes.Equal(content, want) {
				return bad("stream-encrypt-wrong", "want \"Salted__\" ‖ salt ‖ AES-256-CTR(plaintext) = "+clipS(hx(want)))
			}
			if len(lens) < 2 || lens[0] != 8 || lens[1] != 8 {
				return bad("stream-encrypt-header-writes", "header and salt are written first, 8 bytes each")
			}
		case "dec-stream":
			secret, ct := arg(2), arg(5)
			good := t[4] == "-" && (t[3] == "b" || readerGood(t[3]))
			if !good {
				if t[3] != "b" && !readerGood(t[3]) && t[4] == "-" && !isErr(o) {
					return bad("stream-decrypt-swallows-read-error", "the source reader failed: must be an error")
				}
				continue
			}
			if len(ct) < 16 || !bytes.Equal(ct[:8], magic) {
				if !isErr(o) {
					return bad("stream-decrypt-accepts-malformed", "stream shorter than the header or wrong magic: must be an error")
				}
				continue
			}
			want := refCTR(ct[8:16], secret, ct[16:])
			_, content, ok := parseShow(o)
			if !ok || !bytes.Equal(content, want) {
				return bad("stream-decrypt-chunking", fmt.Sprintf("a complete well-formed stream delivered by reader %s must decrypt to %s whatever the chunking", t[3], clipS(hx(want))))
			}
		case "rt-cbc":
			if o != "ok "+hx(arg(3)) {
				return bad("cbc-roundtrip", "Decrypt(Encrypt(p, s), s) must be p")
			}
		case "rt-gcm":
			if o != "ok "+hx(arg(4)) {
				return bad("gcm-roundtrip", "GCMDecrypt(GCMEncrypt(p, s, a), s, a) must be p")
			}
		case "rt-stream":
			if (t[3] != "w" && !readerGood(t[3])) || !readerGood(t[4]) {
				continue
			}
			_, content, ok := parseShow(o)
			if !ok || !bytes.Equal(content, arg(5)) {
				return bad("stream-decrypt-chunking", fmt.Sprintf("DecryptStreamTo(EncryptStreamTo(p)) must be p for source %s and reader %s", t[3], t[4]))
			}
		}
	}
	return nil
}

func clipS(s string) string {
	if len(s) > 160 {
		return s[:150] + "…"
	}
	return s
}

func nonTrivial(c core.Case, out []string) bool {
	for i := 1; i < len(out); i++ {
		o := out[i]
		if strings.HasPrefix(o, "ok ") || strings.HasPrefix(o, "err:pad") || o == "err:open" || o == "err:copy" {
			return true
		}
	}
	return false
}

func classify(c core.Case, out []string) []string {
	var ls []string
	for i := 1; i < len(c.Lines); i++ {
		t := core.Toks(c.Lines[i])
		o := out[i]
		r := o
		if k := strings.IndexByte(o, ' '); k >= 0 {
			r = o[:k]
		}
		ls = append(ls, t[0]+":"+r)
		switch t[0] {
		case "dec-stream", "enc-stream", "rt-stream":
			spec := t[3]
			if t[0] == "enc-stream" {
				spec = t[4]
			}
			if t[0] == "rt-stream" {
				spec = t[4]
			}
			ls = append(ls, readerClass(spec)...)
		}
	}
	return ls
}

func readerClass(spec string) []string {
	if spec == "w" || spec == "b" {
		return []string{"reader:bytes.Reader"}
	}
	f := strings.Split(spec, ":")
	if len(f) != 4 {
		return nil
	}
	var ls []string
	plan, _ := parsePlan(f[1])
	sum := 0
	first16 := 0
	zero := false
	for _, p := range plan {
		if p == 0 {
			zero = true
		}
		if sum < 16 {
			first16++
		}
		sum += p
	}
	switch {
	case len(plan) == 0:
		ls = append(ls, "reader:unrestricted")
	case first16 > 1:
		ls = append(ls, "reader:header-split-over-several-reads")
	default:
		ls = append(ls, "reader:header-in-one-read")
	}
	if zero {
		ls = append(ls, "reader:zero-length-read")
	}
	if f[2] == "1" {
		ls = append(ls, "reader:eof-with-data")
	}
	if f[3] == "1" {
		ls = append(ls, "reader:fails")
	}
	return ls
}
