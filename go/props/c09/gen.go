package c09

import (
	"bytes"
	"encoding/base64"
	"encoding/hex"
	"fmt"
	"os"
	"os/exec"
	"runtime"
	"strconv"
	"strings"
	"sync"

	"github.com/welllog/golib/cryptz"

	"verifharness/internal/core"
)

// ---------- generators

func genLen(r *core.Rand) int {
	switch r.Pick(3, 4, 4, 4) {
	case 0:
		return 0
	case 1:
		return 16 * r.Range(1, 5)
	case 2:
		n := 16*r.Range(0, 5) + []int{-1, 1, 15, -15}[r.Intn(4)]
		if n < 0 {
			n = 1
		}
		return n
	}
	return r.Range(0, 80)
}

func genSecret(r *core.Rand) []byte {
	switch r.Pick(2, 6, 2, 2) {
	case 0:
		return nil
	case 1:
		return []byte([]string{"whaterror", "测试", "p", "correct horse battery staple", "0123456789abcdef"}[r.Intn(5)])
	case 2:
		return r.Bytes(r.Range(1, 70))
	}
	return r.Bytes(r.Range(1, 8))
}

// additional data: absent half of the time, mostly short, sometimes longer than any block /
// hash-block / "small buffer" size an implementation might silently clip at
func genAD(r *core.Rand) []byte {
	switch r.Pick(50, 35, 10, 5) {
	case 0:
		return nil
	case 1:
		return r.Bytes(r.Range(1, 24))
	case 2:
		return r.Bytes([]int{31, 32, 33, 63, 64, 65, 127, 128, 129}[r.Intn(9)])
	}
	return r.Bytes(r.Range(130, 300))
}

func genTy(r *core.Rand) string { return []string{"ss", "sb", "bs", "bb"}[r.Intn(4)] }

func planStr(p []int) string {
	if len(p) == 0 {
		return "-"
	}
	s := make([]string, len(p))
	for i, v := range p {
		s[i] = strconv.Itoa(v)
	}
	return strings.Join(s, ",")
}

func b2i(b bool) int {
	if b {
		return 1
	}
	return 0
}

// genReader returns a reader spec for a stream of n bytes.
func genReader(r *core.Rand, n int, failPct int) string {
	var plan []int
	switch r.Pick(12, 22, 18, 22, 14, 12) {
	case 0: // unrestricted
	case 1: // one byte at a time (at least over the header)
		k := n
		if r.Bool() {
			k = r.Range(1, 20)
		}
		for i := 0; i < k; i++ {
			plan = append(plan, 1)
		}
	case 2: // split inside the 16-byte header
		a := r.Range(1, 15)
		plan = []int{a}
		if r.Bool() {
			plan = append(plan, 16-a)
		}
	case 3: // random small chunks, some zero-length reads
		left := n + 4
		for left > 0 && len(plan) < 60 {
			c := r.Range(0, 9)
			if r.Chance(10) {
				c = r.Range(10, 40)
			}
			plan = append(plan, c)
			left -= c
		}
	case 4: // exactly the header, then the rest
		plan = []int{16}
		if r.Bool() {
			plan = append(plan, r.Range(0, 5))
		}
	case 5: // 8 + 8 (as the encrypting side writes it)
		plan = []int{8, 8}
	}
	return fmt.Sprintf("g:%s:%d:%d", planStr(plan), b2i(r.Bool()), b2i(r.Chance(failPct)))
}

func genWFail(r *core.Rand, pct int) string {
	if r.Chance(pct) {
		return strconv.Itoa(r.Range(0, 5))
	}
	return "-"
}

const b64chars = "ABCDEFGHIJKLMNOPQRSTUVWXYZabcdefghijklmnopqrstuvwxyz0123456789+/"

func corruptText(r *core.Rand, msg []byte, alphabet string) []byte {
	m := append([]byte{}, msg...)
	if len(m) == 0 {
		return []byte{alphabet[0]}
	}
	switch r.Pick(30, 8, 8, 8, 12, 10, 8, 8, 8) {
	case 0: // another character of the alphabet at one position
		i := r.Intn(len(m))
		c := alphabet[r.Intn(len(alphabet))]
		for c == m[i] {
			c = alphabet[r.Intn(len(alphabet))]
		}
		m[i] = c
	case 1: // case flip (hex: same bytes; base64: other bytes)
		i := r.Intn(len(m))
		m[i] ^= 0x20
	case 2: // '=' somewhere
		m[r.Intn(len(m))] = '='
	case 3: // a character outside the alphabet
		m[r.Intn(len(m))] = []byte{'-', '_', ' ', '!', 0, 0xff, 'g', 'G', '.'}[r.Intn(9)]
	case 4: // truncation at any length
		m = m[:r.Intn(len(m))]
	case 5: // newline inserted (base64 skips it)
		i := r.Intn(len(m) + 1)
		m = append(m[:i], append([]byte{[]byte{'\n', '\r'}[r.Intn(2)]}, m[i:]...)...)
	case 6: // extension
		m = append(m, alphabet[r.Intn(len(alphabet))])
		if r.Bool() {
			m = append(m, alphabet[r.Intn(len(alphabet))])
		}
	case 7: // one character deleted
		i := r.Intn(len(m))
		m = append(m[:i], m[i+1:]...)
	case 8: // two adjacent characters swapped
		if len(m) >= 2 {
			i := r.Intn(len(m) - 1)
			m[i], m[i+1] = m[i+1], m[i]
		}
	}
	return m
}

// corruptRaw mutates the binary envelope (before encoding)
func corruptRaw(r *core.Rand, raw []byte, blockAligned bool) []byte {
	m := append([]byte{}, raw...)
	switch r.Pick(20, 10, 20, 20, 10, 10, 10) {
	case 0: // one bit anywhere
		if len(m) > 0 {
			m[r.Intn(len(m))] ^= 1 << r.Intn(8)
		}
	case 1: // magic
		m[r.Intn(8)] ^= 1 << r.Intn(8)
	case 2: // truncation at any length
		m = m[:r.Intn(len(m)+1)]
	case 3: // short inputs around the header checks
		m = m[:[]int{0, 1, 7, 8, 15, 16, 17, 31, 32}[r.Intn(9)]%(len(m)+1)]
	case 4: // extension
		k := 1
		if blockAligned && r.Bool() {
			k = 16
		}
		m = append(m, r.Bytes(k)...)
	case 5: // salt
		m[8+r.Intn(8)] ^= 1 << r.Intn(8)
	case 6: // last byte / tag
		if len(m) > 0 {
			m[len(m)-1] ^= 1 << r.Intn(8)
		}
	}
	return m
}

// genReuseLeft: the buffer-level ops answered by the arena model: valid and corrupted raw envelopes
// into SaltBySecret*Decrypt(…, true), printing what the caller's buffer holds afterwards
func genReuseLeft(r *core.Rand) string {
	secret, salt, pt := genSecret(r), r.Bytes(8), r.Bytes(genLen(r))
	if r.Bool() {
		raw := refCBCEnvelope(salt, secret, pt)
		if r.Chance(60) {
			raw = corruptRaw(r, raw, true)
		}
		return fmt.Sprintf("reuse-cbc-left %s %s", hx(secret), hx(raw))
	}
	ad := r.Bytes(r.Intn(2) * r.Range(1, 20))
	raw := refGCMEnvelope(salt, secret, ad, pt)
	if r.Chance(60) {
		raw = corruptRaw(r, raw, false)
	}
	return fmt.Sprintf("reuse-gcm-left %s %s %s", hx(secret), hx(ad), hx(raw))
}

func genLine(r *core.Rand) string {
	if r.Chance(8) {
		return genReuseLeft(r)
	}
	ty := genTy(r)
	secret := genSecret(r)
	salt := r.Bytes(8)
	pt := r.Bytes(genLen(r))
	ad := genAD(r)
	switch r.Pick(7, 3, 14, 6, 6, 3, 14, 6, 10, 22, 3, 3, 5) {
	case 0:
		return fmt.Sprintf("enc-cbc %s %s %s %s", ty, hx(salt), hx(secret), hx(pt))
	case 1:
		return fmt.Sprintf("raw-enc-cbc %s %s %s %s", ty, hx(salt), hx(secret), hx(pt))
	case 2: // Decrypt of a (possibly corrupted) valid message
		raw := refCBCEnvelope(salt, secret, pt)
		if r.Chance(25) {
			raw = corruptRaw(r, raw, true)
		}
		msg := []byte(base64.StdEncoding.EncodeToString(raw))
		switch r.Pick(45, 45, 5, 5) {
		case 1:
			msg = corruptText(r, msg, b64chars)
		case 2:
			secret = append(append([]byte{}, secret...), 'x')
		case 3:
			msg = r.Bytes(r.Range(0, 60)) // garbage
		}
		return fmt.Sprintf("dec-cbc %s %s %s", ty, hx(secret), hx(msg))
	case 3: // raw CBC envelope, crafted padding inside
		raw := refCBCEnvelope(salt, secret, pt)
		if r.Chance(70) {
			raw = corruptRaw(r, raw, true)
		}
		return fmt.Sprintf("raw-dec-cbc %d %s %s %s", r.Intn(2), ty, hx(secret), hx(raw))
	case 4:
		return fmt.Sprintf("enc-gcm %s %s %s %s %s", ty, hx(salt), hx(secret), hx(ad), hx(pt))
	case 5:
		return fmt.Sprintf("raw-enc-gcm %s %s %s %s %s", ty, hx(salt), hx(secret), hx(ad), hx(pt))
	case 6:
		raw := refGCMEnvelope(salt, secret, ad, pt)
		if r.Chance(25) {
			raw = corruptRaw(r, raw, false)
		}
		msg := []byte(hex.EncodeToString(raw))
		switch r.Pick(40, 44, 5, 6, 5) {
		case 1:
			msg = corruptText(r, msg, "0123456789abcdef")
		case 2:
			secret = append(append([]byte{}, secret...), 0)
		case 3:
			if len(ad) > 0 && r.Bool() {
				ad = ad[:len(ad)-1]
			} else {
				ad = append(append([]byte{}, ad...), 1)
			}
		case 4:
			msg = r.Bytes(r.Range(0, 60))
		}
		return fmt.Sprintf("dec-gcm %s %s %s %s", ty, hx(secret), hx(ad), hx(msg))
	case 7:
		raw := refGCMEnvelope(salt, secret, ad, pt)
		if r.Chance(70) {
			raw = corruptRaw(r, raw, false)
		}
		return fmt.Sprintf("raw-dec-gcm %d %s %s %s %s", r.Intn(2), ty, hx(secret), hx(ad), hx(raw))
	case 8:
		src := "w"
		if r.Chance(75) {
			src = genReader(r, len(pt), 8)
		}
		return fmt.Sprintf("enc-stream %s %s %s %s %s %s", ty, hx(salt), hx(secret), src, genWFail(r, 10), hx(pt))
	case 9:
		st := refStream(salt, secret, pt)
		switch r.Pick(70, 12, 8, 10) {
		case 1: // shorter than / exactly the header
			st = st[:r.Intn(17)]
		case 2:
			st[r.Intn(8)] ^= 1 << r.Intn(8)
		case 3:
			st = st[:r.Intn(len(st)+1)]
		}
		rd := "b"
		if r.Chance(90) {
			rd = genReader(r, len(st), 6)
		}
		wf := genWFail(r, 6)
		if rd == "b" {
			wf = "-"
		}
		return fmt.Sprintf("dec-stream %s %s %s %s %s", ty, hx(secret), rd, wf, hx(st))
	case 10:
		return fmt.Sprintf("rt-cbc %s %s %s", ty, hx(secret), hx(pt))
	case 11:
		return fmt.Sprintf("rt-gcm %s %s %s %s", ty, hx(secret), hx(ad), hx(pt))
	}
	src := "w"
	if r.Chance(70) {
		src = genReader(r, len(pt), 0)
	}
	return fmt.Sprintf("rt-stream %s %s %s %s %s", ty, hx(secret), src, genReader(r, 16+len(pt), 0), hx(pt))
}

// ---------- history stream: one secret / AD / plaintext buffer, mutated in place between calls

// genHist: 3..8 calls whose secret, additional data and plaintext/message live in the same
// harness-owned backing arrays (impl, header `hist`).  Between consecutive calls the secret
// mostly changes to ANOTHER secret of the SAME length.  Decryptions are of messages the
// reference made under the current secret (must succeed) or under the previous one (must fail
// or give the reference's answer).  Each call is a pure function of its current arguments and
// the salt — that is what the model computes and what the sequence checks of the code.
func genHist(r *core.Rand, tier string) core.Case {
	lines := []string{"@ C09 hist"}
	secret := r.Bytes(r.Range(1, 40))
	prev := append([]byte{}, secret...)
	n := r.Range(3, 8)
	for i := 0; i < n; i++ {
		if i > 0 {
			prev = append([]byte{}, secret...)
			switch r.Pick(35, 35, 15, 15) {
			case 0:
				secret = append([]byte{}, secret...)
				secret[r.Intn(len(secret))] ^= 1 << r.Intn(8)
			case 1:
				secret = r.Bytes(len(secret))
			case 2:
				secret = r.Bytes(r.Range(1, 40))
			}
		}
		if r.Chance(40) {
			// a call that must FAIL, made with the secret the buffer holds now, between the valid
			// calls: a failed call must leave nothing behind
			lines = append(lines, genFailing(r, secret))
		}
		decSecret := secret
		if r.Chance(30) {
			decSecret = prev
		}
		ty := []string{"bb", "sb", "bs", "bb"}[r.Intn(4)] // mostly []byte secrets: they are passed by reference
		salt, pt, ad := r.Bytes(8), r.Bytes(genLen(r)), genAD(r)
		if len(ad) > 200 {
			ad = ad[:200]
		}
		switch r.Pick(18, 18, 18, 18, 14, 14) {
		case 0:
			lines = append(lines, fmt.Sprintf("enc-cbc %s %s %s %s", ty, hx(salt), hx(secret), hx(pt)))
		case 1:
			lines = append(lines, fmt.Sprintf("dec-cbc %s %s %s", ty, hx(secret), hx([]byte(base64.StdEncoding.EncodeToString(refCBCEnvelope(salt, decSecret, pt))))))
		case 2:
			lines = append(lines, fmt.Sprintf("enc-gcm %s %s %s %s %s", ty, hx(salt), hx(secret), hx(ad), hx(pt)))
		case 3:
			lines = append(lines, fmt.Sprintf("dec-gcm %s %s %s %s", ty, hx(secret), hx(ad), hx([]byte(hex.EncodeToString(refGCMEnvelope(salt, decSecret, ad, pt))))))
		case 4:
			lines = append(lines, fmt.Sprintf("enc-stream %s %s %s %s - %s", ty, hx(salt), hx(secret), []string{"w", "g:-:1:0", "g:1,1,1:0:0"}[r.Intn(3)], hx(pt)))
		case 5:
			lines = append(lines, fmt.Sprintf("dec-stream %s %s %s - %s", ty, hx(secret), []string{"b", "g:-:1:0", "g:1,1,1,1,1,1,1,1,1,1,1,1,1,1,1,1,1:0:0"}[r.Intn(3)], hx(refStream(salt, decSecret, pt))))
		}
	}
	return core.Case{Lines: lines, Tag: "history"}
}

var failingKinds = []string{"dec-cbc-garbage", "dec-cbc-badpad", "dec-cbc-short", "dec-gcm-badtag", "dec-gcm-badad", "dec-gcm-oddhex",
	"raw-dec-gcm-short", "dec-stream-short", "dec-stream-badmagic", "dec-stream-readerr", "enc-stream-readerr", "enc-stream-werr0", "enc-stream-werr1", "enc-stream-werr2", "dec-stream-werr"}

func mkFailing(kind string, secret, salt, pt []byte) string {
	rawC := refCBCEnvelope(salt, secret, pt)
	rawG := refGCMEnvelope(salt, secret, []byte("ad"), pt)
	st := refStream(salt, secret, append(append([]byte{}, pt...), 1, 2, 3))
	switch kind {
	case "dec-cbc-garbage":
		return fmt.Sprintf("dec-cbc bb %s %s", hx(secret), hx([]byte("!!not base64!!")))
	case "dec-cbc-badpad":
		x := append([]byte{}, rawC...)
		x[len(x)-17] ^= 0x40 // garbles the last plaintext block's padding with overwhelming probability
		x[len(x)-1] ^= 0x01
		return fmt.Sprintf("raw-dec-cbc 0 bb %s %s", hx(secret), hx(x[:len(x)/16*16]))
	case "dec-cbc-short":
		return fmt.Sprintf("raw-dec-cbc 1 bb %s %s", hx(secret), hx(rawC[:16]))
	case "dec-gcm-badtag":
		x := append([]byte{}, rawG...)
		x[len(x)-1] ^= 1
		return fmt.Sprintf("dec-gcm bb %s 6164 %s", hx(secret), hx([]byte(hex.EncodeToString(x))))
	case "dec-gcm-badad":
		return fmt.Sprintf("dec-gcm bb %s 6165 %s", hx(secret), hx([]byte(hex.EncodeToString(rawG))))
	case "dec-gcm-oddhex":
		return fmt.Sprintf("dec-gcm bb %s 6164 %s", hx(secret), hx([]byte(hex.EncodeToString(rawG) + "0")))
	case "raw-dec-gcm-short":
		return fmt.Sprintf("raw-dec-gcm 1 bb %s 6164 %s", hx(secret), hx(rawG[:20]))
	case "dec-stream-short":
		return fmt.Sprintf("dec-stream bb %s g:3,3:0:0 - %s", hx(secret), hx(st[:11]))
	case "dec-stream-badmagic":
		x := append([]byte{}, st...)
		x[3] ^= 0x20
		return fmt.Sprintf("dec-stream bb %s g:-:1:0 - %s", hx(secret), hx(x))
	case "dec-stream-readerr":
		return fmt.Sprintf("dec-stream bb %s g:16,1:0:1 - %s", hx(secret), hx(st))
	case "enc-stream-readerr":
		return fmt.Sprintf("enc-stream bb %s %s g:2:0:1 - %s", hx(salt), hx(secret), hx(append(append([]byte{}, pt...), 9)))
	case "enc-stream-werr0", "enc-stream-werr1", "enc-stream-werr2":
		return fmt.Sprintf("enc-stream bb %s %s g:4:0:0 %c %s", hx(salt), hx(secret), kind[len(kind)-1], hx(append(append([]byte{}, pt...), 9)))
	}
	return fmt.Sprintf("dec-stream bb %s g:16,2:0:0 0 %s", hx(secret), hx(st))
}

func genFailing(r *core.Rand, secret []byte) string {
	return mkFailing(failingKinds[r.Intn(len(failingKinds))], secret, r.Bytes(8), r.Bytes(genLen(r)))
}

// ---------- arena stream: all arguments of a call are windows of one arena (impl, header `arena`)

// genArena: 1-5 calls, mostly with []byte arguments (they are passed by reference); where each
// argument sits in the arena is derived by impl from the text of the line.  Secrets are short
// ("hunter2"-like) as often as long, so that plaintexts and additional data regularly lie within
// a few bytes behind the secret.
func genArena(r *core.Rand, tier string) core.Case {
	lines := []string{"@ C09 arena"}
	n := r.Range(1, 5)
	for i := 0; i < n; i++ {
		ty := []string{"bb", "bb", "sb", "bs", "ss"}[r.Intn(5)]
		secret := r.Bytes(r.Range(1, 12))
		if r.Chance(30) {
			secret = genSecret(r)
		}
		salt, pt, ad := r.Bytes(8), r.Bytes(genLen(r)), r.Bytes(r.Intn(2)*r.Range(1, 20))
		switch r.Pick(16, 8, 12, 8, 14, 6, 10, 6, 10, 10) {
		case 0:
			lines = append(lines, fmt.Sprintf("enc-cbc %s %s %s %s", ty, hx(salt), hx(secret), hx(pt)))
		case 1:
			lines = append(lines, fmt.Sprintf("raw-enc-cbc %s %s %s %s", ty, hx(salt), hx(secret), hx(pt)))
		case 2:
			lines = append(lines, fmt.Sprintf("dec-cbc %s %s %s", ty, hx(secret), hx([]byte(base64.StdEncoding.EncodeToString(refCBCEnvelope(salt, secret, pt))))))
		case 3:
			lines = append(lines, fmt.Sprintf("raw-dec-cbc %d %s %s %s", r.Intn(2), ty, hx(secret), hx(refCBCEnvelope(salt, secret, pt))))
		case 4:
			lines = append(lines, fmt.Sprintf("enc-gcm %s %s %s %s %s", ty, hx(salt), hx(secret), hx(ad), hx(pt)))
		case 5:
			lines = append(lines, fmt.Sprintf("raw-enc-gcm %s %s %s %s %s", ty, hx(salt), hx(secret), hx(ad), hx(pt)))
		case 6:
			lines = append(lines, fmt.Sprintf("dec-gcm %s %s %s %s", ty, hx(secret), hx(ad), hx([]byte(hex.EncodeToString(refGCMEnvelope(salt, secret, ad, pt))))))
		case 7:
			lines = append(lines, fmt.Sprintf("raw-dec-gcm %d %s %s %s %s", r.Intn(2), ty, hx(secret), hx(ad), hx(refGCMEnvelope(salt, secret, ad, pt))))
		case 8:
			lines = append(lines, fmt.Sprintf("enc-stream %s %s %s %s - %s", ty, hx(salt), hx(secret), []string{"w", "g:-:1:0", "g:3,1:0:0"}[r.Intn(3)], hx(pt)))
		case 9:
			lines = append(lines, fmt.Sprintf("dec-stream %s %s %s - %s", ty, hx(secret), []string{"b", "g:-:1:0", "g:5,11,2:0:0"}[r.Intn(3)], hx(refStream(salt, secret, pt))))
		}
	}
	return core.Case{Lines: lines, Tag: "arena"}
}

// ---------- adversarial salts: the hidden input the caller's random source controls

// advSalts: (secret, salt, d) found offline by a pure-MD5 search: the IV that
// EVP_BytesToKey(MD5) derives from them (third digest) has its last 32-bit word d blocks below
// 2^32, so the CTR counter of the stream mode carries out of its last four bytes after d
// blocks.  (A wrap of the last 64 or 96 bits would need ≈ 2^56 / 2^88 MD5 trials: not
// reachable through the API; those carries are exercised on the model/stdlib pair by the
// `ctr` op with hand-made IVs.)
var advSalts = []struct {
	secret, salt string
	d            int
}{
	{"", "5b2bafa727db87d2", 15},
	{"p", "543985efcf0d1eb0", 12},
	{"correct horse battery staple", "81585e6636fe5690", 23},
	{"correct horse battery staple", "2989531d055015da", 14},
	{"correct horse battery staple", "3f06a6bb2315c3fe", 21},
	{"whaterror", "4cf73ddb2ea6da8e", 10},
	{"p", "b1c04b17b743a368", 5},
	{"", "c5479be4f9420b36", 3},
	{"correct horse battery staple", "f51d52870fd7653c", 15},
	{"p", "0dc88014827b60f2", 5},
	{"", "a25d43acf021dc4c", 19},
	{"p", "76958bb09972bd5e", 1},
	{"", "23fc8eb33992bda0", 6},
	{"whaterror", "7e14cd1eb36f13bc", 8},
}

func advSalt(i int) (secret, salt []byte, d int) {
	a := advSalts[i%len(advSalts)]
	salt, _ = hex.DecodeString(a.salt)
	return []byte(a.secret), salt, a.d
}

// genAdversarial: stream-mode calls whose keystream crosses the 32-bit carry of the counter
// (plaintext of d+1 .. d+70 blocks), any reader chunking, both directions and the round trip
// through the real random source replaced by the chosen salt; plus `ctr` lines: the model's
// keystream against crypto/cipher for IVs whose last 4 / 8 / 12 / 16 bytes are about to wrap.
func genAdversarial(r *core.Rand, tier string) core.Case {
	lines := []string{"@ C09 x"}
	n := r.Range(1, 2)
	for i := 0; i < n; i++ {
		secret, salt, d := advSalt(r.Intn(len(advSalts)))
		blocks := d + r.Range(1, 70)
		if tier != "thorough" && blocks > d+12 {
			blocks = d + r.Range(1, 12) // the Lean AES is slow: keep the quick stream short
		}
		pt := r.Bytes(16*blocks - r.Intn(16))
		ty := genTy(r)
		switch r.Pick(35, 35, 30) {
		case 0:
			src := "w"
			if r.Bool() {
				src = genReader(r, len(pt), 0)
			}
			lines = append(lines, fmt.Sprintf("enc-stream %s %s %s %s - %s", ty, hx(salt), hx(secret), src, hx(pt)))
		case 1:
			lines = append(lines, fmt.Sprintf("dec-stream %s %s %s - %s", ty, hx(secret), genReader(r, 16+len(pt), 0), hx(refStream(salt, secret, pt))))
		case 2:
			key := r.Bytes([]int{16, 24, 32}[r.Intn(3)])
			iv := r.Bytes(16)
			k := []int{4, 8, 12, 16}[r.Intn(4)]
			for j := 16 - k; j < 16; j++ {
				iv[j] = 0xff
			}
			back := r.Intn(4)
			iv[15] -= byte(back)
			lines = append(lines, fmt.Sprintf("ctr %s %s %d", hx(key), hx(iv), 16*(back+2)+r.Intn(16)))
		}
	}
	return core.Case{Lines: lines, Tag: "adversarial"}
}

// ---------- magnitude stream: every length in a window

// block boundaries up to 208: 16k-1, 16k, 16k+1
func boundaryLen(r *core.Rand) int {
	n := 16*r.Range(0, 13) + r.Range(-1, 1)
	if n < 0 {
		n = 0
	}
	return n
}

// genMagnitude: secret lengths 0..200 uniformly (sometimes 1000), AD lengths 0..100, plaintext
// lengths at every block boundary up to 208 — 1-2 calls per case.
func genMagnitude(r *core.Rand, tier string) core.Case {
	lines := []string{"@ C09 x"}
	n := r.Range(1, 2)
	for i := 0; i < n; i++ {
		secret := r.Bytes(r.Range(0, 200))
		if r.Chance(3) {
			secret = r.Bytes([]int{255, 256, 257, 1000, 1024}[r.Intn(5)])
		}
		ad := r.Bytes(r.Range(0, 100))
		pt := r.Bytes(boundaryLen(r))
		salt := r.Bytes(8)
		ty := genTy(r)
		switch r.Pick(20, 20, 15, 15, 10, 10, 10) {
		case 0:
			lines = append(lines, fmt.Sprintf("enc-cbc %s %s %s %s", ty, hx(salt), hx(secret), hx(pt)))
		case 1:
			lines = append(lines, fmt.Sprintf("enc-gcm %s %s %s %s %s", ty, hx(salt), hx(secret), hx(ad), hx(pt)))
		case 2:
			lines = append(lines, fmt.Sprintf("dec-cbc %s %s %s", ty, hx(secret), hx([]byte(base64.StdEncoding.EncodeToString(refCBCEnvelope(salt, secret, pt))))))
		case 3:
			lines = append(lines, fmt.Sprintf("dec-gcm %s %s %s %s", ty, hx(secret), hx(ad), hx([]byte(hex.EncodeToString(refGCMEnvelope(salt, secret, ad, pt))))))
		case 4:
			lines = append(lines, fmt.Sprintf("enc-stream %s %s %s %s - %s", ty, hx(salt), hx(secret), genReader(r, len(pt), 0), hx(pt)))
		case 5:
			lines = append(lines, fmt.Sprintf("dec-stream %s %s %s - %s", ty, hx(secret), genReader(r, 16+len(pt), 0), hx(refStream(salt, secret, pt))))
		case 6:
			lines = append(lines, fmt.Sprintf("raw-dec-gcm %d %s %s %s %s", r.Intn(2), ty, hx(secret), hx(ad), hx(refGCMEnvelope(salt, secret, ad, pt))))
		}
	}
	return core.Case{Lines: lines, Tag: "magnitude"}
}

func gen(r *core.Rand, tier string) core.Case {
	switch {
	case r.Chance(6):
		return genAdversarial(r, tier)
	case r.Chance(10):
		return genHist(r, tier)
	case r.Chance(12):
		return genArena(r, tier)
	case r.Chance(12) || (tier == "thorough" && r.Chance(15)):
		return genMagnitude(r, tier)
	}
	lines := []string{"@ C09 x"}
	n := r.Range(1, 3)
	for i := 0; i < n; i++ {
		lines = append(lines, genLine(r))
	}
	return core.Case{Lines: lines, Tag: "calls"}
}

// ---------- corpus

func seqBytes(n int, start byte) []byte {
	b := make([]byte, n)
	for i := range b {
		b[i] = start + byte(i)
	}
	return b
}

func corpus() []core.Case {
	var cs []core.Case
	add := func(lines ...string) {
		cs = append(cs, core.Case{Lines: append([]string{"@ C09 x"}, lines...)})
	}
	secret := []byte("whaterror")
	salt := seqBytes(8, 0xa1)
	pt := []byte("hello, this is a test!!!")
	st := refStream(salt, secret, pt)
	// F5 (DESIGN §6): a one-byte-at-a-time reader; header and EOF in one call
	add("dec-stream bs " + hx(secret) + " g:1,1,1,1,1,1,1,1,1,1,1,1,1,1,1,1:0:0 - " + hx(st))
	add("dec-stream bb " + hx(secret) + " g:-:1:0 - " + hx(refStream(salt, secret, nil)))
	add("dec-stream bb "+hx(secret)+" g:8,8:0:0 - "+hx(st), "dec-stream bb "+hx(secret)+" g:15,1:1:0 - "+hx(st),
		"dec-stream bb "+hx(secret)+" g:0,16:0:0 - "+hx(st), "dec-stream bb "+hx(secret)+" g:16:0:0 - "+hx(st),
		"dec-stream bb "+hx(secret)+" b - "+hx(st), "dec-stream bb "+hx(secret)+" g:-:0:0 - "+hx(st))
	// every truncation of a stream / of both envelopes, all short lengths
	var ls []string
	for n := 0; n <= len(st); n++ {
		ls = append(ls, fmt.Sprintf("dec-stream ss %s g:%s:%d:0 - %s", hx(secret), []string{"-", "1,1,1,1,1,1,1,1,1,1,1,1,1,1,1,1,1", "7,9"}[n%3], n%2, hx(st[:n])))
	}
	add(ls...)
	rawC := refCBCEnvelope(salt, secret, pt)
	rawG := refGCMEnvelope(salt, secret, []byte("ad"), pt)
	ls = nil
	for n := 0; n <= len(rawC); n++ {
		ls = append(ls, fmt.Sprintf("raw-dec-cbc %d bs %s %s", n%2, hx(secret), hx(rawC[:n])))
	}
	for n := 0; n <= len(rawG); n++ {
		ls = append(ls, fmt.Sprintf("raw-dec-gcm %d bs %s %s %s", n%2, hx(secret), hx([]byte("ad")), hx(rawG[:n])))
	}
	add(ls...)
	// every single-character corruption and every truncation of the encoded messages
	msgC := []byte(base64.StdEncoding.EncodeToString(refCBCEnvelope(salt, secret, []byte("0123456789abcdef0"))))
	msgG := []byte(hex.EncodeToString(refGCMEnvelope(salt, secret, nil, []byte("abc"))))
	ls = nil
	for i := range msgC {
		for _, c := range []byte{'A', 'b', '/', '=', '\n', '!'} {
			if msgC[i] == c {
				continue
			}
			m := append([]byte{}, msgC...)
			m[i] = c
			ls = append(ls, fmt.Sprintf("dec-cbc bs %s %s", hx(secret), hx(m)))
		}
		ls = append(ls, fmt.Sprintf("dec-cbc ss %s %s", hx(secret), hx(msgC[:i])))
	}
	add(ls...)
	ls = nil
	for i := range msgG {
		for _, c := range []byte{'0', 'f', 'F', 'g', msgG[i] ^ 0x20} {
			if msgG[i] == c {
				continue
			}
			m := append([]byte{}, msgG...)
			m[i] = c
			ls = append(ls, fmt.Sprintf("dec-gcm bs %s - %s", hx(secret), hx(m)))
		}
		ls = append(ls, fmt.Sprintf("dec-gcm ss %s - %s", hx(secret), hx(msgG[:i])))
	}
	add(ls...)
	// plaintext lengths 0..33 through every encrypting entry point, empty secret included
	ls = nil
	for n := 0; n <= 33; n++ {
		p := seqBytes(n, 0x30)
		s := secret
		if n%5 == 0 {
			s = nil
		}
		ty := []string{"ss", "sb", "bs", "bb"}[n%4]
		ls = append(ls,
			fmt.Sprintf("enc-cbc %s %s %s %s", ty, hx(salt), hx(s), hx(p)),
			fmt.Sprintf("enc-gcm %s %s %s %s %s", ty, hx(salt), hx(s), hx(seqBytes(n%3, 1)), hx(p)),
			fmt.Sprintf("enc-stream %s %s %s g:%s:%d:0 - %s", ty, hx(salt), hx(s), []string{"-", "1,1,1", "0,5,0,7", "16"}[n%4], n%2, hx(p)),
			fmt.Sprintf("dec-cbc %s %s %s", ty, hx(s), hx([]byte(base64.StdEncoding.EncodeToString(refCBCEnvelope(salt, s, p))))),
			fmt.Sprintf("rt-stream %s %s w g:1,1,1,1,1,1,1,1,1,1,1,1,1,1,1,1,1,1:%d:0 %s", ty, hx(s), n%2, hx(p)))
	}
	ls = append(ls, fmt.Sprintf("enc-stream bb %s %s w - %s", hx(salt), hx(secret), hx(pt)),
		fmt.Sprintf("enc-stream bb %s %s w - -", hx(salt), hx(secret)),
		fmt.Sprintf("enc-stream bb %s %s w 0 %s", hx(salt), hx(secret), hx(pt)),
		fmt.Sprintf("enc-stream bb %s %s g:3:0:0 1 %s", hx(salt), hx(secret), hx(pt)),
		fmt.Sprintf("enc-stream bb %s %s g:3:0:0 2 %s", hx(salt), hx(secret), hx(pt)),
		fmt.Sprintf("enc-stream bb %s %s g:3:0:1 - %s", hx(salt), hx(secret), hx(pt)),
		fmt.Sprintf("dec-stream bb %s g:16,2:0:1 - %s", hx(secret), hx(st)),
		fmt.Sprintf("dec-stream bb %s g:5:0:1 - %s", hx(secret), hx(st[:9])),
		fmt.Sprintf("dec-stream bb %s g:16,2:0:0 0 %s", hx(secret), hx(st)),
		fmt.Sprintf("dec-stream bb %s g:16,2:0:0 1 %s", hx(secret), hx(st)))
	add(ls...)
	// MAGNITUDES, enumerated: EVERY secret length 0..200 (the key derivation assembles
	// prevSum‖secret‖salt in a buffer: any scratch-space threshold lies in this window), a few
	// long ones; EVERY additional-data length 0..100; plaintext lengths at every block boundary
	// up to 208 — through encrypting and decrypting entry points, all four instantiations.
	tys := []string{"ss", "sb", "bs", "bb"}
	ls = nil
	for n := 0; n <= 200; n++ {
		sec := seqBytes(n, byte(n))
		ty := tys[n%4]
		p := seqBytes(n%7, 0x61)
		switch n % 5 {
		case 0:
			ls = append(ls, fmt.Sprintf("enc-cbc %s %s %s %s", ty, hx(salt), hx(sec), hx(p)))
		case 1:
			ls = append(ls, fmt.Sprintf("enc-gcm %s %s %s - %s", ty, hx(salt), hx(sec), hx(p)))
		case 2:
			ls = append(ls, fmt.Sprintf("dec-cbc %s %s %s", ty, hx(sec), hx([]byte(base64.StdEncoding.EncodeToString(refCBCEnvelope(salt, sec, p))))))
		case 3:
			ls = append(ls, fmt.Sprintf("enc-stream %s %s %s w - %s", ty, hx(salt), hx(sec), hx(p)))
		case 4:
			ls = append(ls, fmt.Sprintf("dec-gcm %s %s - %s", ty, hx(sec), hx([]byte(hex.EncodeToString(refGCMEnvelope(salt, sec, nil, p))))))
		}
		// and the raw CBC pair for every length (cheap, one block)
		ls = append(ls, fmt.Sprintf("raw-enc-cbc %s %s %s -", tys[(n+1)%4], hx(salt), hx(sec)))
		if len(ls) >= 80 {
			add(ls...)
			ls = nil
		}
	}
	for _, n := range []int{255, 256, 257, 1000, 4096} {
		ls = append(ls, fmt.Sprintf("enc-cbc bb %s %s 00", hx(salt), hx(seqBytes(n, 3))))
	}
	add(ls...)
	ls = nil
	for n := 0; n <= 100; n++ {
		a := seqBytes(n, 0x80)
		if n%2 == 0 {
			ls = append(ls, fmt.Sprintf("enc-gcm %s %s %s %s %s", tys[n%4], hx(salt), hx(secret), hx(a), hx(seqBytes(n%18, 1))))
		} else {
			ls = append(ls, fmt.Sprintf("dec-gcm %s %s %s %s", tys[n%4], hx(secret), hx(a), hx([]byte(hex.EncodeToString(refGCMEnvelope(salt, secret, a, seqBytes(n%18, 1)))))))
		}
	}
	add(ls...)
	ls = nil
	for k := 0; k <= 13; k++ {
		for _, d := range []int{-1, 0, 1} {
			n := 16*k + d
			if n < 0 {
				continue
			}
			p := seqBytes(n, 0x20)
			ty := tys[(k+d+1)%4]
			ls = append(ls, fmt.Sprintf("enc-cbc %s %s %s %s", ty, hx(salt), hx(secret), hx(p)),
				fmt.Sprintf("enc-gcm %s %s %s 6164 %s", ty, hx(salt), hx(secret), hx(p)),
				fmt.Sprintf("dec-cbc %s %s %s", ty, hx(secret), hx([]byte(base64.StdEncoding.EncodeToString(refCBCEnvelope(salt, secret, p))))),
				fmt.Sprintf("raw-dec-gcm %d %s %s 6164 %s", k%2, ty, hx(secret), hx(refGCMEnvelope(salt, secret, []byte("ad"), p))))
		}
	}
	add(ls...)
	// histories, enumerated: the secret buffer overwritten in place by a same-length secret
	// between two calls, for every pair of entry points
	s1, s2 := []byte("secret-number-one"), []byte("secret-number-two")
	mk := func(op string, sec, decSec []byte) string {
		switch op {
		case "enc-cbc":
			return fmt.Sprintf("enc-cbc bb %s %s %s", hx(salt), hx(sec), hx(pt))
		case "dec-cbc":
			return fmt.Sprintf("dec-cbc bb %s %s", hx(sec), hx([]byte(base64.StdEncoding.EncodeToString(refCBCEnvelope(salt, decSec, pt)))))
		case "enc-gcm":
			return fmt.Sprintf("enc-gcm bb %s %s 6164 %s", hx(salt), hx(sec), hx(pt))
		case "dec-gcm":
			return fmt.Sprintf("dec-gcm bb %s 6164 %s", hx(sec), hx([]byte(hex.EncodeToString(refGCMEnvelope(salt, decSec, []byte("ad"), pt)))))
		case "enc-stream":
			return fmt.Sprintf("enc-stream bb %s %s w - %s", hx(salt), hx(sec), hx(pt))
		}
		return fmt.Sprintf("dec-stream bb %s b - %s", hx(sec), hx(refStream(salt, decSec, pt)))
	}
	ops := []string{"enc-cbc", "dec-cbc", "enc-gcm", "dec-gcm", "enc-stream", "dec-stream"}
	for _, a := range ops {
		for _, b := range ops {
			cs = append(cs, core.Case{Lines: []string{"@ C09 hist", mk(a, s1, s1), mk(b, s2, s2), mk(b, s2, s1)}, Tag: "history"})
		}
	}
	// AFTER A FAILURE, enumerated: valid call under secret 1, a failing call with secret 2 (buffer
	// overwritten in place), then valid calls under secret 2 — every kind of failure × every entry point
	for fi, fk := range failingKinds {
		b := ops[fi%len(ops)]
		cs = append(cs, core.Case{Lines: []string{"@ C09 hist", mk(ops[(fi+1)%len(ops)], s1, s1), mkFailing(fk, s2, salt, pt),
			mk(b, s2, s2), mk("dec-gcm", s2, s2), mk("enc-cbc", s2, s2), mkFailing(fk, s1, salt, pt), mk("dec-cbc", s1, s1), mk("dec-gcm", s1, s2)}, Tag: "history"})
	}
	// ARENA LAYOUTS, enumerated: every entry point with a short secret ("hunter2"), 30 different salts
	// so that the line text (hence the placement impl derives from it) varies
	for v := 0; v < 30; v++ {
		sv := seqBytes(8, byte(7*v))
		h2 := []byte("hunter2")
		p := []byte("plaintext")
		cs = append(cs, core.Case{Lines: []string{"@ C09 arena",
			fmt.Sprintf("enc-cbc bb %s %s %s", hx(sv), hx(h2), hx(p)),
			fmt.Sprintf("enc-gcm bb %s %s 6164 %s", hx(sv), hx(h2), hx(p)),
			fmt.Sprintf("enc-stream bb %s %s w - %s", hx(sv), hx(h2), hx(p)),
			fmt.Sprintf("dec-cbc bb %s %s", hx(h2), hx([]byte(base64.StdEncoding.EncodeToString(refCBCEnvelope(sv, h2, p))))),
			fmt.Sprintf("raw-dec-cbc %d bb %s %s", v%2, hx(h2), hx(refCBCEnvelope(sv, h2, p))),
			fmt.Sprintf("dec-gcm bb %s 6164 %s", hx(h2), hx([]byte(hex.EncodeToString(refGCMEnvelope(sv, h2, []byte("ad"), p))))),
			fmt.Sprintf("raw-dec-gcm %d bb %s 6164 %s", v%2, hx(h2), hx(refGCMEnvelope(sv, h2, []byte("ad"), p))),
			fmt.Sprintf("dec-stream bb %s g:-:1:0 - %s", hx(h2), hx(refStream(sv, h2, p)))}, Tag: "arena"})
	}
	// BUFFER LEVEL, enumerated: every truncation and a flipped bit at every 7th position of raw CBC / GCM
	// envelopes into SaltBySecret*Decrypt(…, true): what the caller's buffer holds afterwards
	ls = nil
	for n := 0; n <= len(rawC); n++ {
		ls = append(ls, fmt.Sprintf("reuse-cbc-left %s %s", hx(secret), hx(rawC[:n])))
	}
	for n := 0; n <= len(rawG); n++ {
		ls = append(ls, fmt.Sprintf("reuse-gcm-left %s 6164 %s", hx(secret), hx(rawG[:n])))
	}
	for i := 0; i < len(rawG); i += 7 {
		x := append([]byte{}, rawG...)
		x[i] ^= 0x10
		ls = append(ls, fmt.Sprintf("reuse-gcm-left %s 6164 %s", hx(secret), hx(x)))
		if i < len(rawC) {
			y := append([]byte{}, rawC...)
			y[i] ^= 0x10
			ls = append(ls, fmt.Sprintf("reuse-cbc-left %s %s", hx(secret), hx(y)))
		}
	}
	add(ls...)
	// ADVERSARIAL SALTS, enumerated: every (secret, salt) of the table, plaintext = d + 3 blocks (the
	// counter's last word wraps inside the stream), encrypt and decrypt; secret lengths around the
	// 1 KiB / 2 KiB scratch sizes (+ the 16 bytes of the previous digest, + the 8 bytes of salt)
	for i := range advSalts {
		sec, sl, d := advSalt(i)
		p := seqBytes(16*(d+3)+5, byte(i))
		cs = append(cs, core.Case{Lines: []string{"@ C09 x",
			fmt.Sprintf("enc-stream bb %s %s w - %s", hx(sl), hx(sec), hx(p)),
			fmt.Sprintf("dec-stream sb %s g:-:1:0 - %s", hx(sec), hx(refStream(sl, sec, p)))}, Tag: "adversarial"})
	}
	ls = nil
	for _, iv := range []string{"000000000000000000000000ffffffff", "0000000000000000fffffffffffffffe", "00000000ffffffffffffffffffffffff",
		"ffffffffffffffffffffffffffffffff", "fffffffffffffffffffffffffffffffd", "0123456789abcdef00000000fffffffe"} {
		ls = append(ls, fmt.Sprintf("ctr %s %s 70", hx(seqBytes(32, 1)), iv), fmt.Sprintf("ctr %s %s 33", hx(seqBytes(16, 2)), iv))
	}
	ls = append(ls, "ctr "+hx(seqBytes(24, 3))+" 00000000000000000000000000000000 0", "ctr "+hx(seqBytes(17, 3))+" 00000000000000000000000000000000 16",
		"ctr "+hx(seqBytes(16, 3))+" 000000000000000000000000000000 16")
	add(ls...)
	ls = nil
	for _, n := range []int{1000, 1001, 1008, 1009, 1016, 1017, 1024, 1025, 2024, 2025, 2040, 2041, 2048, 2049} {
		ls = append(ls, fmt.Sprintf("enc-cbc bb %s %s 00", hx(salt), hx(seqBytes(n, byte(n)))))
	}
	add(ls...)
	// OpenSSL: `printf 'hello' | openssl enc -aes-256-cbc -md md5 -a -pass pass:whaterror -S a1a2a3a4a5a6a7a8`
	// produces this message (salt a1..a8): checked against the reference derivation at start-up
	return cs
}

// ---------- extras

// compositions: every way to split the first k bytes of a stream into consecutive non-empty
// reads (2^(k-1) of them), each in both end-of-stream styles; the rest is delivered freely.
func extraCompositions(ctx *core.Ctx) (int, string, []core.ExtraFailure) {
	k := 17
	if ctx.Tier == "thorough" {
		k = 20
	}
	secret := []byte("chunking")
	salt := seqBytes(8, 0x51)
	pt := []byte("header-split test: 0123456789")
	st := refStream(salt, secret, pt)
	total := 1 << (k - 1)
	var mu sync.Mutex
	var fails []core.ExtraFailure
	evals := 0
	nw := runtime.NumCPU()
	var wg sync.WaitGroup
	for w := 0; w < nw; w++ {
		wg.Add(1)
		go func(w int) {
			defer wg.Done()
			n := 0
			for mask := w; mask < total; mask += nw {
				// bit i set = a cut after byte i+1
				var plan []int
				run := 1
				for i := 0; i < k-1; i++ {
					if mask>>i&1 == 1 {
						plan = append(plan, run)
						run = 1
					} else {
						run++
					}
				}
				plan = append(plan, run)
				for eof := 0; eof < 2; eof++ {
					n++
					line := fmt.Sprintf("dec-stream bb %s g:%s:%d:0 - %s", hx(secret), planStr(plan), eof, hx(st))
					c := core.Case{Lines: []string{"@ C09 x", line}}
					out := impl(c)
					if f := check(c, out); f != nil {
						mu.Lock()
						if len(fails) < 1 || len(plan) < len(fails[0].Payload.(map[string]any)["plan"].([]int)) {
							fails = []core.ExtraFailure{{Failure: *f, Payload: map[string]any{"lines": c.Lines, "impl_out": out, "plan": plan}}}
						}
						mu.Unlock()
					}
				}
			}
			mu.Lock()
			evals += n
			mu.Unlock()
		}(w)
	}
	wg.Wait()
	return evals, fmt.Sprintf("DecryptStreamTo over all %d compositions of the first %d bytes (16-byte header + %d) × 2 end-of-stream styles, vs crypto/cipher CTR under the EVP key", total, k, k-16), fails
}

// real randomness: the code's own salts; the model is asked for the envelope given the salt read back
func extraRealRandom(ctx *core.Ctx) (int, string, []core.ExtraFailure) {
	r := ctx.Rand.Fork()
	n := 150
	if ctx.Tier == "thorough" {
		n = 3000
	}
	var cases []core.Case
	var got []string
	var fails []core.ExtraFailure
	salts := map[string]bool{}
	for i := 0; i < n; i++ {
		secret := genSecret(r)
		pt := r.Bytes(genLen(r))
		ad := r.Bytes(r.Intn(2) * r.Range(0, 16))
		var line, o string
		withRealRand(func() {
			switch i % 3 {
			case 0:
				enc, err := cryptz.Encrypt(pt, secret)
				if err != nil {
					o = errClass(err)
					return
				}
				raw, derr := base64.StdEncoding.DecodeString(string(enc))
				if derr != nil || len(raw) < 16 {
					o = "undecodable"
					return
				}
				salts[string(raw[8:16])] = true
				line = fmt.Sprintf("enc-cbc bb %s %s %s", hx(raw[8:16]), hx(secret), hx(pt))
				o = "ok " + hx(enc)
			case 1:
				enc, err := cryptz.GCMEncrypt(pt, secret, ad)
				if err != nil {
					o = errClass(err)
					return
				}
				raw, derr := hex.DecodeString(string(enc))
				if derr != nil || len(raw) < 16 {
					o = "undecodable"
					return
				}
				salts[string(raw[8:16])] = true
				line = fmt.Sprintf("enc-gcm bb %s %s %s %s", hx(raw[8:16]), hx(secret), hx(ad), hx(pt))
				o = "ok " + hx(enc)
			case 2:
				w := &recWriter{failAt: -1}
				if err := cryptz.EncryptStreamTo(w, bytes.NewReader(pt), secret); err != nil {
					o = errClass(err)
					return
				}
				if len(w.chunks) < 2 || len(w.chunks[1]) != 8 {
					o = "no-salt-write"
					return
				}
				salts[string(w.chunks[1])] = true
				line = fmt.Sprintf("enc-stream bb %s %s w - %s", hx(w.chunks[1]), hx(secret), hx(pt))
				o = "ok " + w.show()
			}
		})
		if line == "" {
			fails = append(fails, core.ExtraFailure{Failure: core.Failure{Key: "encrypt-failed", Desc: "encryption with the real random source failed: " + o}})
			continue
		}
		c := core.Case{Lines: []string{"@ C09 x", line}}
		if f := check(c, []string{"ok", o}); f != nil && len(fails) < 3 {
			fails = append(fails, core.ExtraFailure{Failure: *f, Payload: map[string]any{"lines": c.Lines, "impl_out": []string{"ok", o}}})
		}
		cases = append(cases, c)
		got = append(got, o)
	}
	if len(salts) < len(cases)*9/10 && len(fails) < 3 {
		fails = append(fails, core.ExtraFailure{Failure: core.Failure{Key: "salt-not-random", Desc: fmt.Sprintf("%d encryptions used only %d distinct salts", len(cases), len(salts))}})
	}
	mism := 0
	if model, err := core.RunOracle(ctx.VerifDir, cases); err == nil {
		for i := range cases {
			if model[i][1] != got[i] {
				mism++
				if mism == 1 {
					fails = append(fails, core.ExtraFailure{
						Failure: core.Failure{Key: "model-envelope-differs", Desc: "the Lean model, given the salt read back from the output, produces a different envelope"},
						Payload: map[string]any{"lines": cases[i].Lines, "impl_out": got[i], "model_out": model[i][1]},
						NoInput: true,
					})
				}
			}
		}
	} else {
		fails = append(fails, core.ExtraFailure{Failure: core.Failure{Key: "oracle-unavailable", Desc: err.Error()}, NoInput: true})
	}
	return len(cases), fmt.Sprintf("%d encryptions with the real crypto/rand source (%d distinct salts): envelope for the salt read back equals the stdlib reference and the Lean model (%d model mismatches)", len(cases), len(salts), mism), fails
}

// openssl enc -aes-256-cbc -md md5 -a, both directions, if the binary happens to exist.
func extraOpenSSL(ctx *core.Ctx) (int, string, []core.ExtraFailure) {
	bin := ""
	for _, p := range []string{"/root/miniconda/bin/openssl", "/usr/bin/openssl", "/usr/local/bin/openssl"} {
		if _, err := os.Stat(p); err == nil {
			bin = p
			break
		}
	}
	if bin == "" {
		if p, err := exec.LookPath("openssl"); err == nil {
			bin = p
		}
	}
	if bin == "" {
		return 0, "openssl binary not present: skipped (never an error)", nil
	}
	r := ctx.Rand.Fork()
	var fails []core.ExtraFailure
	evals := 0
	unusable := 0
	for i := 0; i < 40; i++ {
		secret := []byte(fmt.Sprintf("pw%d-%x", i, r.Bytes(3)))
		pt := r.Bytes(genLen(r))
		// ours -> openssl
		var enc []byte
		var err error
		withRealRand(func() { enc, err = cryptz.Encrypt(pt, secret) })
		if err != nil {
			continue
		}
		cmd := exec.Command(bin, "enc", "-d", "-aes-256-cbc", "-md", "md5", "-a", "-A", "-pass", "pass:"+string(secret))
		cmd.Stdin = bytes.NewReader(enc)
		outb, cerr := cmd.Output()
		if cerr != nil {
			unusable++
			if unusable > 3 && evals == 0 {
				return 0, "openssl binary present but `enc -aes-256-cbc -md md5` unusable here: skipped", nil
			}
			if p, ok := refCBCOpen(mustB64(enc), secret); ok && bytes.Equal(p, pt) && len(fails) < 2 && evals > 0 {
				fails = append(fails, core.ExtraFailure{Failure: core.Failure{Key: "openssl-rejects-our-output", Desc: "openssl enc -d failed on Encrypt's output"},
					Payload: map[string]any{"secret": string(secret), "message": string(enc)}})
			}
			continue
		}
		evals++
		if !bytes.Equal(outb, pt) && len(fails) < 2 {
			fails = append(fails, core.ExtraFailure{Failure: core.Failure{Key: "openssl-decrypts-differently", Desc: "openssl enc -d gives another plaintext"},
				Payload: map[string]any{"secret": string(secret), "message": string(enc), "want": hx(pt), "got": hx(outb)}})
		}
		// openssl -> ours
		cmd = exec.Command(bin, "enc", "-aes-256-cbc", "-md", "md5", "-a", "-A", "-pass", "pass:"+string(secret))
		cmd.Stdin = bytes.NewReader(pt)
		msg, cerr := cmd.Output()
		if cerr != nil {
			continue
		}
		evals++
		dec, derr := cryptz.Decrypt(bytes.TrimSpace(msg), secret)
		if (derr != nil || !bytes.Equal(dec, pt)) && len(fails) < 2 {
			fails = append(fails, core.ExtraFailure{Failure: core.Failure{Key: "cannot-decrypt-openssl-output", Desc: fmt.Sprintf("Decrypt of openssl's output: err=%v", derr)},
				Payload: map[string]any{"secret": string(secret), "message": string(msg), "want": hx(pt), "got": hx(dec)}})
		}
	}
	return evals, fmt.Sprintf("openssl binary %s present: %d cross-decryptions (ours→openssl and openssl→ours) agree", bin, evals), fails
}

func mustB64(b []byte) []byte {
	raw, _ := base64.StdEncoding.DecodeString(string(b))
	return raw
}
