package c09

import (
	"bytes"
	"fmt"
	"go/ast"
	"go/parser"
	"go/printer"
	"go/token"
	"path/filepath"
	"strconv"
	"strings"
)

// facts regenerates lean/Golib/Gen/FactsC09.lean from cryptz/crypt.go (go/ast): the
// constants the model hard-codes and — the mechanism of defect F5 — WHICH call fills the
// 16-byte header in DecryptStreamTo.  Whatever cannot be recognised is an error (the
// framework then writes a facts file whose obligations fail; never a vacuous one).
func facts(repo string) (string, error) {
	fset := token.NewFileSet()
	f, err := parser.ParseFile(fset, filepath.Join(repo, "cryptz", "crypt.go"), nil, 0)
	if err != nil {
		return "", err
	}
	str := func(n ast.Node) string {
		var b bytes.Buffer
		_ = printer.Fprint(&b, fset, n)
		return b.String()
	}
	consts := map[string]int{}
	header := ""
	haveHeader := false
	for _, d := range f.Decls {
		gd, ok := d.(*ast.GenDecl)
		if !ok {
			continue
		}
		for _, sp := range gd.Specs {
			vs, ok := sp.(*ast.ValueSpec)
			if !ok {
				continue
			}
			for i, name := range vs.Names {
				if i >= len(vs.Values) {
					continue
				}
				switch v := vs.Values[i].(type) {
				case *ast.BasicLit:
					if v.Kind == token.INT {
						if n, err := strconv.Atoi(v.Value); err == nil {
							consts[name.Name] = n
						}
					}
				case *ast.CallExpr:
					if name.Name == "fixedSaltHeader" && str(v.Fun) == "[]byte" && len(v.Args) == 1 {
						if bl, ok := v.Args[0].(*ast.BasicLit); ok && bl.Kind == token.STRING {
							if s, err := strconv.Unquote(bl.Value); err == nil {
								header, haveHeader = s, true
							}
						}
					}
				}
			}
		}
	}
	for _, k := range []string{"_SALT_LEN", "_KEY_LEN", "_CRED_LEN"} {
		if _, ok := consts[k]; !ok {
			return "", fmt.Errorf("constant %s not found as an integer literal", k)
		}
	}
	if !haveHeader {
		return "", fmt.Errorf("fixedSaltHeader = []byte(\"…\") not found")
	}
	var dec, fill *ast.FuncDecl
	for _, d := range f.Decls {
		if fd, ok := d.(*ast.FuncDecl); ok {
			switch fd.Name.Name {
			case "DecryptStreamTo":
				dec = fd
			case "fillCred":
				fill = fd
			}
		}
	}
	if dec == nil || fill == nil || dec.Body == nil || fill.Body == nil {
		return "", fmt.Errorf("DecryptStreamTo / fillCred not found")
	}
	// the header buffer and the call that fills it
	bufLen := ""
	call := ""
	var callExpr *ast.CallExpr
	ast.Inspect(dec.Body, func(n ast.Node) bool {
		as, ok := n.(*ast.AssignStmt)
		if !ok || len(as.Rhs) != 1 {
			return true
		}
		ce, ok := as.Rhs[0].(*ast.CallExpr)
		if !ok {
			return true
		}
		if len(as.Lhs) == 1 && str(as.Lhs[0]) == "saltHeader" && str(ce.Fun) == "make" && len(ce.Args) == 2 {
			bufLen = str(ce.Args[1])
		}
		for _, a := range ce.Args {
			if str(a) == "saltHeader" && call == "" && str(ce.Fun) != "make" {
				call = str(ce.Fun)
				callExpr = ce
			}
		}
		return true
	})
	bufN := 0
	switch bufLen {
	case "aes.BlockSize", "16":
		bufN = 16
	default:
		return "", fmt.Errorf("header buffer `saltHeader := make([]byte, %s)` not recognised", bufLen)
	}
	mode := ""
	switch call {
	case "stream.Read":
		mode = "single"
	case "io.ReadFull":
		mode = "readFull"
	case "io.ReadAtLeast":
		if len(callExpr.Args) == 3 {
			switch str(callExpr.Args[2]) {
			case "len(saltHeader)", "aes.BlockSize", "16":
				mode = "readFull"
			}
		}
	}
	if mode == "" {
		return "", fmt.Errorf("the call that fills saltHeader in DecryptStreamTo (%q) is not one of stream.Read / io.ReadFull / io.ReadAtLeast(…, full length)", call)
	}
	// fillCred: number of MD5 rounds
	rounds := -1
	ast.Inspect(fill.Body, func(n ast.Node) bool {
		fs, ok := n.(*ast.ForStmt)
		if !ok || fs.Cond == nil {
			return true
		}
		if be, ok := fs.Cond.(*ast.BinaryExpr); ok && be.Op == token.LSS {
			// wave 9: only the literal bound is read here; how the counter is initialised and stepped
			// (`i++` / `i += 1`, the name of the counter) is what the regenerated tie c09_trans_fillCred
			// re-proves from the translated loop on every run
			if bl, ok := be.Y.(*ast.BasicLit); ok && bl.Kind == token.INT && fs.Init != nil && fs.Post != nil {
				rounds, _ = strconv.Atoi(bl.Value)
			}
		}
		return true
	})
	if rounds < 0 {
		return "", fmt.Errorf("fillCred loop `for i := 0; i < N; i++` not recognised")
	}
	var hb []string
	for _, c := range []byte(header) {
		hb = append(hb, strconv.Itoa(int(c)))
	}
	var b strings.Builder
	b.WriteString("-- generated on every run by the C09 facts extractor (go/ast) from cryptz/crypt.go; do not edit\n")
	b.WriteString("import Golib.Model.C09Crypt\n\nnamespace Golib.Gen.C09\n\n")
	b.WriteString("def extractorOK : Bool := true\n")
	fmt.Fprintf(&b, "def saltLen : Nat := %d\n", consts["_SALT_LEN"])
	fmt.Fprintf(&b, "def keyLen : Nat := %d\n", consts["_KEY_LEN"])
	fmt.Fprintf(&b, "def credLen : Nat := %d\n", consts["_CRED_LEN"])
	fmt.Fprintf(&b, "/-- `[]byte(%s)` -/\ndef fixedSaltHeader : List Nat := [%s]\n", strconv.Quote(header), strings.Join(hb, ", "))
	fmt.Fprintf(&b, "/-- `for i := 0; i < %d; i++` in fillCred -/\ndef credRounds : Nat := %d\n", rounds, rounds)
	fmt.Fprintf(&b, "/-- `saltHeader := make([]byte, %s)` -/\ndef headerBufLen : Nat := %d\n", bufLen, bufN)
	fmt.Fprintf(&b, "/-- the call that fills `saltHeader` in DecryptStreamTo: `%s` -/\ndef headerReadCall : String := %s\n", str(callExpr), strconv.Quote(call))
	fmt.Fprintf(&b, "def headerRead : Golib.C09.HeaderRead := .%s\n", mode)
	// the decode wrappers of strz/enc.go that Decrypt / GCMDecrypt call: their statements, verbatim
	// (the Lean model `base64DecodeW` / `hexDecodeW` mirrors exactly these three statements each)
	fe, err := parser.ParseFile(fset, filepath.Join(repo, "strz", "enc.go"), nil, 0)
	if err != nil {
		return "", err
	}
	bodyOf := func(file *ast.File, name string) string {
		for _, d := range file.Decls {
			fd, ok := d.(*ast.FuncDecl)
			if !ok || fd.Name.Name != name || fd.Body == nil || fd.Recv != nil {
				continue
			}
			var parts []string
			for _, st := range fd.Body.List {
				parts = append(parts, strings.Join(strings.Fields(str(st)), " "))
			}
			return strings.Join(parts, "; ")
		}
		return "<not found>"
	}
	fmt.Fprintf(&b, "/-- body of strz.Base64Decode -/\ndef base64DecodeBody : String := %s\n", strconv.Quote(bodyOf(fe, "Base64Decode")))
	fmt.Fprintf(&b, "/-- body of strz.HexDecode -/\ndef hexDecodeBody : String := %s\n", strconv.Quote(bodyOf(fe, "HexDecode")))
	// … and how crypt.go calls them
	callIn := func(fn, callee string) string {
		res := "<not found>"
		for _, d := range f.Decls {
			fd, ok := d.(*ast.FuncDecl)
			if !ok || fd.Name.Name != fn || fd.Body == nil {
				continue
			}
			ast.Inspect(fd.Body, func(n ast.Node) bool {
				if ce, ok := n.(*ast.CallExpr); ok && str(ce.Fun) == callee {
					res = strings.Join(strings.Fields(str(ce)), " ")
				}
				return true
			})
		}
		return res
	}
	fmt.Fprintf(&b, "def decryptDecodeCall : String := %s\n", strconv.Quote(callIn("Decrypt", "strz.Base64Decode")))
	fmt.Fprintf(&b, "def gcmDecryptDecodeCall : String := %s\n", strconv.Quote(callIn("GCMDecrypt", "strz.HexDecode")))
	b.WriteString("\nend Golib.Gen.C09\n")
	return b.String(), nil
}
