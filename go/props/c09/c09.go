// Package c09: secret-based encryption (cryptz/crypt.go): OpenSSL-compatible CBC envelope,
// GCM envelope, stream mode.
//
// Every op line is one self-contained call into cryptz.  The random salt is made an input
// by replacing the standard library's package variable crypto/rand.Reader for the duration
// of the call (no hook in /repo); the `rt-*` ops and the extra `real-randomness` run with
// the real generator.  Stream mode runs over a scripted io.Reader / recording io.Writer that
// implement exactly the Reader/Writer model of the Lean side.
// The independent oracle (Check) uses only the Go standard library: EVP_BytesToKey written
// from crypto/md5, crypto/aes + crypto/cipher (CBC, GCM, CTR), encoding/base64, encoding/hex.
package c09

import (
	"bytes"
	"crypto/aes"
	"crypto/cipher"
	"crypto/rand"
	"encoding/base64"
	"encoding/hex"
	"errors"
	"fmt"
	"hash/fnv"
	"io"
	"strconv"
	"strings"
	"sync"

	"github.com/welllog/golib/cryptz"

	"verifharness/internal/core"
)

func init() {
	core.Register(&core.Prop{
		ID:         "C09",
		Title:      "Secret-based encryption: round-trip, OpenSSL format, tamper evidence, chunking",
		Quick:      3000,
		Thorough:   120000,
		Gen:        gen,
		Corpus:     corpus,
		Impl:       impl,
		Check:      check,
		NonTrivial: nonTrivial,
		Rule: "1-3 self-contained calls per case (Encrypt/Decrypt, GCMEncrypt/GCMDecrypt, SaltBySecret* with reuse on/off, EncryptStreamTo/DecryptStreamTo over scripted readers/writers; " +
			"salts given through crypto/rand.Reader; valid envelopes with every kind of single-character corruption, truncation, garbage; reader plans incl. 1-byte chunks, zero-length reads, data-with-EOF, failing readers/writers); " +
			"non-trivial = at least one call derived a key (output ok, or an error raised after the header checks: padding, authentication, copy); distinct by hash of the lines",
		Classify: classify,
		Parallel: true,
		Facts:    facts,
		Extras: []core.Extra{
			{Name: "header-chunkings-exhaustive", Run: extraCompositions},
			{Name: "real-randomness", Run: extraRealRandom},
			{Name: "gcm-tamper-all-bits", Run: extraGCMTamper},
			{Name: "malformed-encoded-exhaustive", Run: extraMalformedEncoded},
			{Name: "iotest-readers-both-sides", Run: extraIotestReaders},
			{Name: "large-inputs", Run: extraLargeInputs},
			{Name: "secret-length-sweep", Run: extraSecretLengthSweep},
			{Name: "trans-fillcred-grid", Run: extraTransFillCredGrid},
			{Name: "openssl-binary", Run: extraOpenSSL, Tiers: []string{"thorough"}},
		},
		Assumptions: []string{
			"md5.Sum returns 16 bytes; AES is a permutation per key; GCM Open(Seal(p)) = p; CTR is XOR with a position-indexed keystream; base64/hex decode inverts encode: hypotheses of the parametric Lean theorems; the executable Lean instances are validated against RFC 1321 / FIPS-197 / GCM-spec / SP 800-38A / RFC 4648 vectors at build time and against the Go standard library on every run",
			"readers and writers obey the io.Reader / io.Writer contracts (a reader may return (0, nil), may return data together with io.EOF, and keeps returning its final error)",
			"tamper evidence of GCM (any change to magic/salt/ciphertext/tag/secret/AD makes decryption fail) is cryptographic: exercised by single-character corruptions of every position on the real code with crypto/cipher as the referee, not a theorem (partial)",
			"interoperability with the `openssl` binary is exercised opportunistically in the thorough tier; the wire format and derivation are proved equal to their written definition",
			"Go int treated as unbounded",
		},
		TrustedBase: []string{
			"crypto/md5, crypto/aes, crypto/cipher, encoding/base64, encoding/hex, io.Copy/io.ReadFull of the installed Go toolchain as the independent reference",
			"crypto/rand.Reader is replaced by a fixed reader during deterministic encrypt calls (standard-library package variable; nothing in /repo is touched)",
		},
	})
}

// ---------- protocol helpers

func hx(b []byte) string {
	if len(b) == 0 {
		return "-"
	}
	return hex.EncodeToString(b)
}

func unhx(s string) ([]byte, bool) {
	if s == "-" {
		return []byte{}, true
	}
	b, err := hex.DecodeString(s)
	return b, err == nil
}

func errClass(err error) string {
	var ce base64.CorruptInputError
	if errors.As(err, &ce) {
		return "err:b64"
	}
	m := err.Error()
	for _, p := range [][2]string{
		{"generate random salt error", "err:rand"},
		{"NewCipher error", "err:key"},
		{"NewGCM error", "err:nonce"},
		{"GCM Open error", "err:open"},
		{"write fixed salt header error", "err:whdr"},
		{"write salt error", "err:wsalt"},
		{"copy stream error", "err:copy"},
		{"read header error", "err:rhdr"},
		{"read header less error", "err:rshort"},
		{"check fixed header error", "err:magic"},
		{"check cbc fixed header error", "err:magic"},
		{"cipherText text length illegal", "err:len"},
		{"cipherText length illegal", "err:len"},
		{"hex decode error", "err:hex"},
		{"invalid padding length", "err:padlen"},
		{"invalid padding bytes", "err:padbytes"},
	} {
		if strings.HasPrefix(m, p[0]) {
			return p[1]
		}
	}
	return "err:?" + strings.ReplaceAll(m, " ", "_")
}

// ---------- scripted reader / recording writer (the Lean `Reader` / `Writer` models)

type planReader struct {
	data        []byte
	plan        []int
	eofWithData bool
	failAtEnd   bool
}

var errInjected = errors.New("injected reader failure")
var errWriter = errors.New("injected writer failure")

func (r *planReader) Read(p []byte) (int, error) {
	lim := len(p)
	if len(r.plan) > 0 {
		if r.plan[0] < lim {
			lim = r.plan[0]
		}
		r.plan = r.plan[1:]
	}
	n := lim
	if len(r.data) < n {
		n = len(r.data)
	}
	copy(p, r.data[:n])
	r.data = r.data[n:]
	if len(r.data) == 0 && (n == 0 || r.eofWithData) {
		if r.failAtEnd {
			return n, errInjected
		}
		return n, io.EOF
	}
	return n, nil
}

type recWriter struct {
	chunks [][]byte
	failAt int // -1: never
}

func (w *recWriter) Write(p []byte) (int, error) {
	if w.failAt == 0 {
		return 0, errWriter
	}
	if w.failAt > 0 {
		w.failAt--
	}
	w.chunks = append(w.chunks, append([]byte{}, p...))
	return len(p), nil
}

func (w *recWriter) show() string {
	var lens []string
	var all []byte
	for _, c := range w.chunks {
		lens = append(lens, strconv.Itoa(len(c)))
		all = append(all, c...)
	}
	l := "-"
	if len(lens) > 0 {
		l = strings.Join(lens, ",")
	}
	return l + " " + hx(all)
}

func parsePlan(s string) ([]int, bool) {
	if s == "-" {
		return nil, true
	}
	var out []int
	for _, f := range strings.Split(s, ",") {
		v, err := strconv.Atoi(f)
		if err != nil || v < 0 {
			return nil, false
		}
		out = append(out, v)
	}
	return out, true
}

func parseReader(s string, data []byte) (*planReader, bool) {
	f := strings.Split(s, ":")
	if len(f) != 4 || f[0] != "g" || (f[2] != "0" && f[2] != "1") || (f[3] != "0" && f[3] != "1") {
		return nil, false
	}
	plan, ok := parsePlan(f[1])
	if !ok {
		return nil, false
	}
	return &planReader{data: append([]byte{}, data...), plan: plan, eofWithData: f[2] == "1", failAtEnd: f[3] == "1"}, true
}

func parseWFail(s string) (int, bool) {
	if s == "-" {
		return -1, true
	}
	v, err := strconv.Atoi(s)
	return v, err == nil && v >= 0
}

// ---------- deterministic salt: crypto/rand.Reader is a package variable of the standard library

var randMu sync.Mutex

func withSalt(salt []byte, f func()) {
	randMu.Lock()
	old := rand.Reader
	rand.Reader = bytes.NewReader(append([]byte{}, salt...))
	defer func() {
		rand.Reader = old
		randMu.Unlock()
	}()
	f()
}

// withRealRand makes sure no deterministic call is swapping the reader meanwhile.
func withRealRand(f func()) {
	randMu.Lock()
	defer randMu.Unlock()
	f()
}

// ---------- the real code

var implMu sync.RWMutex

// histBufs: the caller-owned buffers of a history case (header `hist`): argument i of every
// call of the case lives in the SAME backing array, overwritten in place between the calls.
type histBufs struct {
	arr [8][]byte
	// arena mode: all arguments of a call are windows of this one array, the rest is canaries
	arena []byte
	snap  []byte
	used  int
	wins  []arenaWin
	rnd   *core.Rand
	// results ledger: every []byte a call returned, with an independent deep copy
	ledger []ledgerEntry
}

type arenaWin struct{ role, off, n int }

type ledgerEntry struct {
	got  []byte
	copy []byte
	from string
}

var roleNames = []string{"secret", "additional data", "plaintext/message", "salt", "?", "?", "?", "other"}

func lineSeed(l string, i int) uint64 {
	h := fnv.New64a()
	h.Write([]byte(l))
	_ = i // the placement depends on the text of the line only, so that a shrunk case keeps it
	return h.Sum64()
}

// begin prepares the arena for one call: canaries everywhere.
func (h *histBufs) begin(seed uint64) {
	if h == nil || h.arena == nil {
		return
	}
	h.rnd = core.NewRand(seed)
	h.used = []int{0, 0, 1, 16, 33}[h.rnd.Intn(5)]
	h.wins = h.wins[:0]
	for i := range h.arena {
		h.arena[i] = byte(0xc1 + i%59)
	}
	copy(h.snap, h.arena)
}

// putAll places the arguments (given with their roles) of one call.  History mode: each into the
// backing array of its role.  Arena mode: as windows of the one arena, in an order, with gaps
// (0 = adjacent, 1 = "secret:plaintext") and with or without spare capacity behind the window,
// all drawn from the seed of the line; live data of the OTHER arguments and canaries are what
// lies in a window's spare capacity.
func (h *histBufs) putAll(roles []int, ps []*[]byte) {
	if h == nil {
		return
	}
	if h.arena == nil {
		for i, p := range ps {
			*p = h.put(roles[i], *p)
		}
		return
	}
	idx := make([]int, len(ps))
	for i := range idx {
		idx[i] = i
	}
	for i := len(idx) - 1; i > 0; i-- {
		j := h.rnd.Intn(i + 1)
		idx[i], idx[j] = idx[j], idx[i]
	}
	gaps := []int{0, 0, 1, 1, 1, 3, 8, 16, 17, 64}
	for _, k := range idx {
		b := *ps[k]
		off := h.used + gaps[h.rnd.Intn(len(gaps))]
		if off+len(b)+64 > len(h.arena) {
			continue // does not fit: stays where it is
		}
		copy(h.arena[off:], b)
		copy(h.snap[off:], b)
		h.wins = append(h.wins, arenaWin{roles[k], off, len(b)})
		h.used = off + len(b)
		if h.rnd.Chance(35) {
			*ps[k] = h.arena[off : off+len(b) : off+len(b)]
		} else {
			*ps[k] = h.arena[off : off+len(b)] // spare capacity: whatever follows in the arena
		}
	}
}

// verify: after the call the arena must be what it was, except the window the API is documented
// to overwrite (the message of SaltBySecret*Decrypt with reuseCipherText = true).
func (h *histBufs) verify(t []string) string {
	if h == nil || h.arena == nil {
		return ""
	}
	allowed := -1
	if (t[0] == "raw-dec-cbc" || t[0] == "raw-dec-gcm") && len(t) > 1 && t[1] == "1" {
		allowed = 2
	}
	for i := range h.arena {
		if h.arena[i] == h.snap[i] {
			continue
		}
		where, role := "canary / spare capacity", -1
		for _, w := range h.wins {
			if i >= w.off && i < w.off+w.n {
				where, role = roleNames[w.role], w.role
			}
		}
		if role >= 0 && role == allowed {
			continue
		}
		return fmt.Sprintf("input-modified arena offset=%d (%s) windows=%v", i, where, h.wins)
	}
	return ""
}

// keep records a returned slice; recheck compares every earlier result with its deep copy.
func (h *histBufs) keep(b []byte, from string) {
	if h == nil || len(b) == 0 {
		return
	}
	h.ledger = append(h.ledger, ledgerEntry{b, append([]byte{}, b...), from})
}

func (h *histBufs) recheck() string {
	if h == nil {
		return ""
	}
	for _, e := range h.ledger {
		if !bytes.Equal(e.got, e.copy) {
			return "result-changed: the slice returned by an earlier call (" + e.from + ") changed afterwards"
		}
	}
	return ""
}

func newHistBufs() *histBufs {
	h := &histBufs{}
	for i := range h.arr {
		h.arr[i] = make([]byte, 1024)
	}
	return h
}

func (h *histBufs) put(i int, b []byte) []byte {
	if h == nil || i < 0 || i >= len(h.arr) || len(b) > len(h.arr[i]) {
		return b
	}
	for j := range h.arr[i] {
		h.arr[i][j] = 0
	}
	copy(h.arr[i], b)
	return h.arr[i][:len(b):len(b)]
}

// roleOf: which shared buffer argument i of op lives in: 0 secret, 1 additional data,
// 2 plaintext / message, 3 salt.
func roleOf(op string, i int) int {
	var roles []int
	switch op {
	case "enc-cbc", "raw-enc-cbc":
		roles = []int{-1, -1, 3, 0, 2}
	case "dec-cbc", "rt-cbc":
		roles = []int{-1, -1, 0, 2}
	case "raw-dec-cbc":
		roles = []int{-1, -1, -1, 0, 2}
	case "enc-gcm", "raw-enc-gcm":
		roles = []int{-1, -1, 3, 0, 1, 2}
	case "dec-gcm", "rt-gcm":
		roles = []int{-1, -1, 0, 1, 2}
	case "raw-dec-gcm":
		roles = []int{-1, -1, -1, 0, 1, 2}
	}
	if i < len(roles) && roles[i] >= 0 {
		return roles[i]
	}
	return 7
}

// warmUp: one call of each family with arguments no case uses; displaces whatever a
// library-level memo still holds from earlier cases, so that a history case (and every
// candidate of the shrinker, and the replay in a fresh process) depends on its own calls only.
func warmUp() {
	withRealRand(func() {
		if e, err := cryptz.Encrypt([]byte{0x5a}, []byte("warm-up-secret-cbc")); err == nil {
			_, _ = cryptz.Decrypt(e, []byte("warm-up-secret-cbc"))
		}
		if e, err := cryptz.GCMEncrypt([]byte{0x5b}, []byte("warm-up-secret-gcm"), []byte{1}); err == nil {
			_, _ = cryptz.GCMDecrypt(e, []byte("warm-up-secret-gcm"), []byte{1})
		}
	})
}

func impl(c core.Case) []string {
	out := make([]string, 0, len(c.Lines))
	hdr := core.Toks(c.Lines[0])
	var hb *histBufs
	if len(hdr) == 3 && (hdr[2] == "hist" || hdr[2] == "arena") {
		implMu.Lock()
		defer implMu.Unlock()
		core.Guard(func() string { warmUp(); return "" })
		hb = newHistBufs()
		if hdr[2] == "arena" {
			hb.arena = make([]byte, 8192)
			hb.snap = make([]byte, 8192)
		}
		out = append(out, "ok")
	} else {
		implMu.RLock()
		defer implMu.RUnlock()
		if len(hdr) == 3 && hdr[2] == "x" {
			out = append(out, "ok")
		} else {
			out = append(out, "bad-op")
		}
	}
	for li, l := range c.Lines[1:] {
		t := core.Toks(l)
		if out[0] != "ok" {
			out = append(out, "bad-op")
			continue
		}
		hb.begin(lineSeed(l, li))
		out = append(out, core.Guard(func() string {
			r := step(t, hb)
			if r == "bad-op" {
				return r
			}
			if v := hb.verify(t); v != "" {
				return v
			}
			if v := hb.recheck(); v != "" {
				return v
			}
			return r
		}))
	}
	return out
}

func tyOK(s string) bool { return s == "ss" || s == "sb" || s == "bs" || s == "bb" }

func res(b []byte, err error) string {
	if err != nil {
		return errClass(err)
	}
	return "ok " + hx(b)
}

// the four instantiations of the generic entry points (T = data, E = secret; D = T for GCM)
func callEncrypt(ty string, pt, secret []byte) ([]byte, error) {
	switch ty {
	case "ss":
		return cryptz.Encrypt(string(pt), string(secret))
	case "sb":
		return cryptz.Encrypt(string(pt), secret)
	case "bs":
		return cryptz.Encrypt(pt, string(secret))
	}
	return cryptz.Encrypt(pt, secret)
}

func callDecrypt(ty string, msg, secret []byte) ([]byte, error) {
	switch ty {
	case "ss":
		return cryptz.Decrypt(string(msg), string(secret))
	case "sb":
		return cryptz.Decrypt(string(msg), secret)
	case "bs":
		return cryptz.Decrypt(msg, string(secret))
	}
	return cryptz.Decrypt(msg, secret)
}

func callRawEncCBC(ty string, pt, secret []byte) ([]byte, error) {
	switch ty {
	case "ss":
		return cryptz.SaltBySecretCBCEncrypt(string(pt), string(secret))
	case "sb":
		return cryptz.SaltBySecretCBCEncrypt(string(pt), secret)
	case "bs":
		return cryptz.SaltBySecretCBCEncrypt(pt, string(secret))
	}
	return cryptz.SaltBySecretCBCEncrypt(pt, secret)
}

func callGCMEncrypt(ty string, pt, secret, ad []byte) ([]byte, error) {
	switch ty {
	case "ss":
		return cryptz.GCMEncrypt(string(pt), string(secret), string(ad))
	case "sb":
		return cryptz.GCMEncrypt(string(pt), secret, string(ad))
	case "bs":
		return cryptz.GCMEncrypt(pt, string(secret), ad)
	}
	return cryptz.GCMEncrypt(pt, secret, ad)
}

func callGCMDecrypt(ty string, msg, secret, ad []byte) ([]byte, error) {
	switch ty {
	case "ss":
		return cryptz.GCMDecrypt(string(msg), string(secret), string(ad))
	case "sb":
		return cryptz.GCMDecrypt(string(msg), secret, string(ad))
	case "bs":
		return cryptz.GCMDecrypt(msg, string(secret), ad)
	}
	return cryptz.GCMDecrypt(msg, secret, ad)
}

func callRawEncGCM(ty string, pt, secret, ad []byte) ([]byte, error) {
	switch ty {
	case "ss":
		return cryptz.SaltBySecretGCMEncrypt(string(pt), string(secret), string(ad))
	case "sb":
		return cryptz.SaltBySecretGCMEncrypt(string(pt), secret, string(ad))
	case "bs":
		return cryptz.SaltBySecretGCMEncrypt(pt, string(secret), ad)
	}
	return cryptz.SaltBySecretGCMEncrypt(pt, secret, ad)
}

func encStream(ty string, out io.Writer, in io.Reader, secret []byte) error {
	if ty[1] == 's' {
		return cryptz.EncryptStreamTo(out, in, string(secret))
	}
	return cryptz.EncryptStreamTo(out, in, secret)
}

func decStream(ty string, out io.Writer, in io.Reader, secret []byte) error {
	if ty[1] == 's' {
		return cryptz.DecryptStreamTo(out, in, string(secret))
	}
	return cryptz.DecryptStreamTo(out, in, secret)
}

func step(t []string, hb *histBufs) string {
	if len(t) < 2 {
		return "bad-op"
	}
	a := make([][]byte, len(t))
	need := func(n int, from int) bool {
		if len(t) != n {
			return false
		}
		var roles []int
		var ps []*[]byte
		for i := from; i < n; i++ {
			b, ok := unhx(t[i])
			if !ok {
				return false
			}
			a[i] = b
			roles = append(roles, roleOf(t[0], i))
			ps = append(ps, &a[i])
		}
		hb.putAll(roles, ps)
		return true
	}
	// every returned slice goes into the results ledger — except the ones that are documented
	// to alias the caller's buffer (reuseCipherText = true), which the harness itself reuses
	res := func(b []byte, err error) string {
		if err == nil && !((t[0] == "raw-dec-cbc" || t[0] == "raw-dec-gcm") && t[1] == "1") {
			hb.keep(b, t[0])
		}
		return res(b, err)
	}
	switch t[0] {
	case "enc-cbc", "raw-enc-cbc":
		if !need(5, 2) || !tyOK(t[1]) || len(a[2]) != 8 {
			return "bad-op"
		}
		pt0 := append([]byte{}, a[4]...)
		var r string
		withSalt(a[2], func() {
			if t[0] == "enc-cbc" {
				r = res(callEncrypt(t[1], a[4], a[3]))
			} else {
				r = res(callRawEncCBC(t[1], a[4], a[3]))
			}
		})
		if !bytes.Equal(pt0, a[4]) {
			return "input-modified"
		}
		return r
	case "dec-cbc":
		if !need(4, 2) || !tyOK(t[1]) {
			return "bad-op"
		}
		return res(callDecrypt(t[1], a[3], a[2]))
	case "raw-dec-cbc":
		if !need(5, 3) || !tyOK(t[2]) || (t[1] != "0" && t[1] != "1") {
			return "bad-op"
		}
		ct := append([]byte{}, a[4]...)
		var p []byte
		var err error
		if t[2][1] == 's' {
			p, err = cryptz.SaltBySecretCBCDecrypt(ct, string(a[3]), t[1] == "1")
		} else {
			p, err = cryptz.SaltBySecretCBCDecrypt(ct, a[3], t[1] == "1")
		}
		if t[1] == "0" && !bytes.Equal(ct, a[4]) {
			return "input-modified"
		}
		return res(p, err)
	case "enc-gcm", "raw-enc-gcm":
		if !need(6, 2) || !tyOK(t[1]) || len(a[2]) != 8 {
			return "bad-op"
		}
		var r string
		withSalt(a[2], func() {
			if t[0] == "enc-gcm" {
				r = res(callGCMEncrypt(t[1], a[5], a[3], a[4]))
			} else {
				r = res(callRawEncGCM(t[1], a[5], a[3], a[4]))
			}
		})
		return r
	case "dec-gcm":
		if !need(5, 2) || !tyOK(t[1]) {
			return "bad-op"
		}
		return res(callGCMDecrypt(t[1], a[4], a[2], a[3]))
	case "raw-dec-gcm":
		if !need(6, 3) || !tyOK(t[2]) || (t[1] != "0" && t[1] != "1") {
			return "bad-op"
		}
		ct := append([]byte{}, a[5]...)
		var p []byte
		var err error
		if t[2][1] == 's' {
			p, err = cryptz.SaltBySecretGCMDecrypt(ct, string(a[3]), string(a[4]), t[1] == "1")
		} else {
			p, err = cryptz.SaltBySecretGCMDecrypt(ct, a[3], a[4], t[1] == "1")
		}
		if t[1] == "0" && !bytes.Equal(ct, a[5]) {
			return "input-modified"
		}
		return res(p, err)
	case "enc-stream":
		// enc-stream ty salt secret src wfail pt
		if len(t) != 7 || !tyOK(t[1]) {
			return "bad-op"
		}
		salt, ok1 := unhx(t[2])
		secret, ok2 := unhx(t[3])
		pt, ok3 := unhx(t[6])
		wf, ok4 := parseWFail(t[5])
		if !ok1 || !ok2 || !ok3 || !ok4 || len(salt) != 8 {
			return "bad-op"
		}
		hb.putAll([]int{0, 2}, []*[]byte{&secret, &pt})
		var in io.Reader
		if t[4] == "w" {
			in = bytes.NewReader(pt)
		} else {
			r, ok := parseReader(t[4], pt)
			if !ok {
				return "bad-op"
			}
			in = r
		}
		w := &recWriter{failAt: wf}
		var err error
		withSalt(salt, func() { err = encStream(t[1], w, in, secret) })
		if err != nil {
			return errClass(err)
		}
		return "ok " + w.show()
	case "dec-stream":
		// dec-stream ty secret reader wfail bytes
		if len(t) != 6 || !tyOK(t[1]) {
			return "bad-op"
		}
		secret, ok2 := unhx(t[2])
		ct, ok3 := unhx(t[5])
		wf, ok4 := parseWFail(t[4])
		if !ok2 || !ok3 || !ok4 {
			return "bad-op"
		}
		hb.putAll([]int{0, 2}, []*[]byte{&secret, &ct})
		if t[3] == "b" {
			var buf bytes.Buffer
			if err := decStream(t[1], &buf, bytes.NewReader(ct), secret); err != nil {
				return errClass(err)
			}
			return "ok * " + hx(buf.Bytes())
		}
		r, ok := parseReader(t[3], ct)
		if !ok {
			return "bad-op"
		}
		w := &recWriter{failAt: wf}
		if err := decStream(t[1], w, r, secret); err != nil {
			return errClass(err)
		}
		return "ok " + w.show()
	case "reuse-cbc-left", "reuse-gcm-left":
		// SaltBySecret*Decrypt(ct, secret[, ad], true) and what the caller's ct buffer holds afterwards
		var secret, ad, ct0 []byte
		var ok1, ok2, ok3 = true, true, true
		if t[0] == "reuse-cbc-left" {
			if len(t) != 3 {
				return "bad-op"
			}
			secret, ok1 = unhx(t[1])
			ct0, ok3 = unhx(t[2])
		} else {
			if len(t) != 4 {
				return "bad-op"
			}
			secret, ok1 = unhx(t[1])
			ad, ok2 = unhx(t[2])
			ct0, ok3 = unhx(t[3])
		}
		if !ok1 || !ok2 || !ok3 {
			return "bad-op"
		}
		ct := append([]byte{}, ct0...)
		ct = ct[:len(ct):len(ct)]
		var p []byte
		var err error
		if t[0] == "reuse-cbc-left" {
			p, err = cryptz.SaltBySecretCBCDecrypt(ct, secret, true)
		} else {
			p, err = cryptz.SaltBySecretGCMDecrypt(ct, secret, ad, true)
		}
		o := ""
		if err != nil {
			o = errClass(err)
		} else {
			o = "ok " + hx(p)
		}
		return o + " ct=" + hx(ct)
	case "ctr":
		// ctr key iv n: NOT a call into /repo — the first n keystream bytes of crypto/cipher's CTR
		// mode, so that the Lean model's counter (all 16 bytes carry) is compared with the standard
		// library's on IVs about to wrap their last 4 / 8 / 12 / 16 bytes
		if len(t) != 4 {
			return "bad-op"
		}
		key, ok1 := unhx(t[1])
		iv, ok2 := unhx(t[2])
		n, err := strconv.Atoi(t[3])
		if !ok1 || !ok2 || err != nil || n < 0 || n > 1<<16 || len(iv) != 16 || (len(key) != 16 && len(key) != 24 && len(key) != 32) {
			return "bad-op"
		}
		blk, _ := aes.NewCipher(key)
		ks := make([]byte, n)
		cipher.NewCTR(blk, iv).XORKeyStream(ks, ks)
		return "ok " + hx(ks)
	case "rt-cbc":
		// real randomness: Decrypt(Encrypt(p, s), s)
		if !need(4, 2) || !tyOK(t[1]) {
			return "bad-op"
		}
		var enc []byte
		var err error
		withRealRand(func() { enc, err = callEncrypt(t[1], a[3], a[2]) })
		if err != nil {
			return errClass(err)
		}
		return res(callDecrypt(t[1], enc, a[2]))
	case "rt-gcm":
		if !need(5, 2) || !tyOK(t[1]) {
			return "bad-op"
		}
		var enc []byte
		var err error
		withRealRand(func() { enc, err = callGCMEncrypt(t[1], a[4], a[2], a[3]) })
		if err != nil {
			return errClass(err)
		}
		return res(callGCMDecrypt(t[1], enc, a[2], a[3]))
	case "rt-stream":
		// rt-stream ty secret src reader pt
		if len(t) != 6 || !tyOK(t[1]) {
			return "bad-op"
		}
		secret, ok2 := unhx(t[2])
		pt, ok3 := unhx(t[5])
		if !ok2 || !ok3 {
			return "bad-op"
		}
		var in io.Reader
		if t[3] == "w" {
			in = bytes.NewReader(pt)
		} else {
			r, ok := parseReader(t[3], pt)
			if !ok {
				return "bad-op"
			}
			in = r
		}
		w1 := &recWriter{failAt: -1}
		var err error
		withRealRand(func() { err = encStream(t[1], w1, in, secret) })
		if err != nil {
			return errClass(err)
		}
		var all []byte
		for _, c := range w1.chunks {
			all = append(all, c...)
		}
		r2, ok := parseReader(t[4], all)
		if !ok {
			return "bad-op"
		}
		w2 := &recWriter{failAt: -1}
		if err := decStream(t[1], w2, r2, secret); err != nil {
			return errClass(err)
		}
		return "ok " + w2.show()
	}
	return "bad-op"
}
