package c09

import (
	"bytes"
	"encoding/base64"
	"encoding/hex"
	"errors"
	"fmt"
	"io"
	"testing/iotest"

	"github.com/welllog/golib/cryptz"

	"verifharness/internal/core"
)

// ---------- extra: GCM tamper evidence, systematically (exercised; the clause is cryptographic)

// every single-bit flip of every byte of the binary envelope (magic, salt, ciphertext, tag), of
// the secret and of the additional data; one-byte deletions/extensions of secret and AD; every
// truncation of the encoded message; through GCMDecrypt in all four instantiations and through
// SaltBySecretGCMDecrypt with the buffer reused or not.  Referee: crypto/cipher (refGCMOpen).
func extraGCMTamper(ctx *core.Ctx) (int, string, []core.ExtraFailure) {
	r := ctx.Rand.Fork()
	msgs := 5
	if ctx.Tier == "thorough" {
		msgs = 60
	}
	evals := 0
	var fails []core.ExtraFailure
	tys := []string{"ss", "sb", "bs", "bb"}
	for m := 0; m < msgs; m++ {
		secret := genSecret(r)
		if len(secret) == 0 && m%2 == 0 {
			secret = []byte("s3cret")
		}
		ad := r.Bytes((m % 2) * []int{3, 12, 33, 70}[(m/2)%4])
		pt := r.Bytes([]int{0, 1, 15, 16, 17, 33}[m%6])
		var enc []byte
		var err error
		withRealRand(func() { enc, err = cryptz.GCMEncrypt(pt, secret, ad) })
		if err != nil {
			fails = append(fails, core.ExtraFailure{Failure: core.Failure{Key: "encrypt-failed", Desc: err.Error()}})
			continue
		}
		raw, derr := hex.DecodeString(string(enc))
		if derr != nil {
			fails = append(fails, core.ExtraFailure{Failure: core.Failure{Key: "gcm-envelope-wrong", Desc: "GCMEncrypt output is not hex"}})
			continue
		}
		n := 0
		try := func(what string, msg, sec, a []byte) {
			n++
			ty := tys[n%4]
			evals++
			line := fmt.Sprintf("dec-gcm %s %s %s %s", ty, hx(sec), hx(a), hx(msg))
			if n%3 == 0 {
				// the raw entry point, buffer reused or not
				if rawm, e := hex.DecodeString(string(msg)); e == nil {
					line = fmt.Sprintf("raw-dec-gcm %d %s %s %s %s", n%2, ty, hx(sec), hx(a), hx(rawm))
				}
			}
			c := core.Case{Lines: []string{"@ C09 x", line}}
			out := impl(c)
			f := check(c, out)
			if f == nil && !isErr(out[1]) {
				// the referee accepted it too: only possible if the change was no change
				if rawm, e := hex.DecodeString(string(msg)); e == nil && bytes.Equal(rawm, raw) && bytes.Equal(sec, secret) && bytes.Equal(a, ad) {
					return
				}
				f = &core.Failure{Key: "gcm-decrypt-accepts-forgery", Desc: "accepted after " + what + " (and so did the reference: harness problem?)"}
			}
			if f != nil && len(fails) < 3 {
				f.Desc = "after " + what + ": " + f.Desc
				fails = append(fails, core.ExtraFailure{Failure: *f, Payload: map[string]any{"lines": c.Lines, "impl_out": out}})
			}
		}
		flips := func(b []byte, f func(x []byte, byteIdx int)) {
			for i := 0; i < len(b)*8; i++ {
				x := append([]byte{}, b...)
				x[i/8] ^= 1 << (i % 8)
				f(x, i/8)
			}
		}
		part := func(i int) string {
			switch {
			case i < 8:
				return "magic"
			case i < 16:
				return "salt"
			case i >= len(raw)-16:
				return "tag"
			}
			return "ciphertext"
		}
		flips(raw, func(x []byte, i int) {
			try("flipping one bit of the "+part(i), []byte(hex.EncodeToString(x)), secret, ad)
		})
		flips(secret, func(x []byte, _ int) { try("flipping one bit of the secret", enc, x, ad) })
		flips(ad, func(x []byte, _ int) { try("flipping one bit of the additional data", enc, secret, x) })
		try("appending a zero byte to the secret", enc, append(append([]byte{}, secret...), 0), ad)
		if len(secret) > 0 {
			try("dropping the last byte of the secret", enc, secret[:len(secret)-1], ad)
			try("dropping the first byte of the secret", enc, secret[1:], ad)
		}
		try("appending a zero byte to the additional data", enc, secret, append(append([]byte{}, ad...), 0))
		if len(ad) > 0 {
			try("dropping the last byte of the additional data", enc, secret, ad[:len(ad)-1])
			try("dropping the additional data", enc, secret, nil)
		} else {
			try("inventing additional data", enc, secret, []byte{0})
		}
		for k := 0; k < len(enc); k++ {
			try(fmt.Sprintf("truncating the encoded message to %d of %d characters", k, len(enc)), enc[:k], secret, ad)
		}
		try("appending two hex digits", append(append([]byte{}, enc...), '0', '0'), secret, ad)
		try("dropping the first two hex digits", enc[2:], secret, ad)
		// the untouched message still opens
		evals++
		if p, err := cryptz.GCMDecrypt(enc, secret, ad); err != nil || !bytes.Equal(p, pt) {
			fails = append(fails, core.ExtraFailure{Failure: core.Failure{Key: "gcm-roundtrip", Desc: "GCMDecrypt(GCMEncrypt(p, s, a), s, a) must be p"},
				Payload: map[string]any{"lines": []string{"@ C09 x", fmt.Sprintf("rt-gcm bb %s %s %s", hx(secret), hx(ad), hx(pt))}}})
		}
	}
	return evals, fmt.Sprintf("%d GCM messages (real salts) × {every single-bit flip of magic, salt, ciphertext, tag, secret, AD; secret/AD one byte shorter/longer; every truncation of the encoded message; extension} through GCMDecrypt (4 instantiations) and SaltBySecretGCMDecrypt (reuse on/off): all rejected, none panics, crypto/cipher as referee (exercised; the clause is cryptographic)", msgs), fails
}

// ---------- extra: malformed encoded input, exhaustively over small alphabets

// enumerate all strings over alpha with length ≤ maxLen
func allStrings(alpha []byte, maxLen int, f func(s []byte)) {
	var rec func(x []byte)
	rec = func(x []byte) {
		f(x)
		if len(x) == maxLen {
			return
		}
		for _, a := range alpha {
			rec(append(append([]byte{}, x...), a))
		}
	}
	rec(nil)
}

// Every decryption entry point on short / padding-only / odd-length encoded input: all base64
// strings of length ≤ L over {A,Q,=,/,\n,!} into Decrypt, all hex strings of length ≤ L over
// {0,a,F,g,=} into GCMDecrypt, every way to end a VALID message early or with a wrong run of
// '=' / an odd number of hex digits; never a panic, always an error when the reference decoder
// or the reference envelope check says so; and the Lean model answers every line the same.
func extraMalformedEncoded(ctx *core.Ctx) (int, string, []core.ExtraFailure) {
	maxB64, maxHex := 5, 5
	if ctx.Tier == "thorough" {
		maxB64, maxHex = 6, 7
	}
	tys := []string{"ss", "sb", "bs", "bb"}
	secret := []byte("whaterror")
	var lines []string
	k := 0
	allStrings([]byte{'A', 'Q', '=', '/', '\n', '!'}, maxB64, func(s []byte) {
		k++
		lines = append(lines, fmt.Sprintf("dec-cbc %s %s %s", tys[k%4], hx(secret), hx(s)))
	})
	allStrings([]byte{'0', 'a', 'F', 'g', '='}, maxHex, func(s []byte) {
		k++
		lines = append(lines, fmt.Sprintf("dec-gcm %s %s - %s", tys[k%4], hx(secret), hx(s)))
	})
	// valid messages cut short and re-terminated: for every cut point in the last 9 characters
	// every tail over {A,=} of length ≤ 4 (covers "AA=", "A==", "===", "=", …), for plaintexts
	// that give 0, 1 and 2 padding characters; the same around the 16/32-byte length checks
	salt := seqBytes(8, 0x11)
	var bases [][]byte
	for _, n := range []int{0, 1, 2, 15, 16, 17} {
		bases = append(bases, []byte(base64.StdEncoding.EncodeToString(refCBCEnvelope(salt, secret, seqBytes(n, 0x41)))))
	}
	// envelopes of 16..33 raw bytes (header only, header + partial block): base64 of every length class
	rawC := refCBCEnvelope(salt, secret, seqBytes(20, 0x41))
	for n := 14; n <= 34 && n <= len(rawC); n++ {
		bases = append(bases, []byte(base64.StdEncoding.EncodeToString(rawC[:n])))
	}
	for _, b := range bases {
		for cut := len(b) - 9; cut <= len(b); cut++ {
			if cut < 0 {
				continue
			}
			allStrings([]byte{'A', '='}, 4, func(t []byte) {
				k++
				lines = append(lines, fmt.Sprintf("dec-cbc %s %s %s", tys[k%4], hx(secret), hx(append(append([]byte{}, b[:cut]...), t...))))
			})
		}
	}
	rawG := refGCMEnvelope(salt, secret, nil, seqBytes(3, 0x41))
	hexG := []byte(hex.EncodeToString(rawG))
	for cut := 0; cut <= len(hexG); cut++ {
		for _, t := range []string{"", "0", "g", "=", "0g", "g0", "F"} {
			k++
			lines = append(lines, fmt.Sprintf("dec-gcm %s %s - %s", tys[k%4], hx(secret), hx(append(append([]byte{}, hexG[:cut]...), t...))))
		}
	}
	// run: real code + independent oracle line by line, then the Lean model on the same lines
	var cases []core.Case
	var outs [][]string
	var fails []core.ExtraFailure
	const per = 200
	for i := 0; i < len(lines); i += per {
		j := i + per
		if j > len(lines) {
			j = len(lines)
		}
		c := core.Case{Lines: append([]string{"@ C09 x"}, lines[i:j]...)}
		out := impl(c)
		if f := check(c, out); f != nil && len(fails) < 3 {
			// minimise to the single offending line
			for q := 1; q < len(c.Lines); q++ {
				c1 := core.Case{Lines: []string{"@ C09 x", c.Lines[q]}}
				o1 := impl(c1)
				if f1 := check(c1, o1); f1 != nil {
					fails = append(fails, core.ExtraFailure{Failure: *f1, Payload: map[string]any{"lines": c1.Lines, "impl_out": o1}})
					break
				}
			}
		}
		cases = append(cases, c)
		outs = append(outs, out)
	}
	mism := 0
	if model, err := core.RunOracle(ctx.VerifDir, cases); err == nil {
		for i := range cases {
			for q := 1; q < len(cases[i].Lines) && q < len(model[i]); q++ {
				if model[i][q] != outs[i][q] {
					mism++
					if mism == 1 {
						fails = append(fails, core.ExtraFailure{
							Failure: core.Failure{Key: "model-differs-on-malformed-input", Desc: fmt.Sprintf("line %q: implementation %q, Lean model %q", clipS(cases[i].Lines[q]), clipS(outs[i][q]), clipS(model[i][q]))},
							Payload: map[string]any{"lines": []string{"@ C09 x", cases[i].Lines[q]}, "impl_out": outs[i][q], "model_out": model[i][q]},
							NoInput: true,
						})
					}
				}
			}
		}
	} else {
		fails = append(fails, core.ExtraFailure{Failure: core.Failure{Key: "oracle-unavailable", Desc: err.Error()}, NoInput: true})
	}
	return len(lines), fmt.Sprintf("%d malformed encoded inputs (all base64 strings ≤ %d over {A,Q,=,/,\\n,!}, all hex strings ≤ %d over {0,a,F,g,=}, valid messages re-terminated with every tail over {A,=} of length ≤ 4 at the last 9 cut points, odd/invalid hex tails at every cut point) into Decrypt / GCMDecrypt (4 instantiations): never a panic, error whenever encoding/base64, encoding/hex or the reference envelope check reject; Lean model agrees on every line (%d mismatches)", len(lines), maxB64, maxHex, mism), fails
}

// ---------- extra: readers of testing/iotest (written by the Go team, not by this harness)

type wrapR struct {
	name string
	wrap func(io.Reader) io.Reader
	// fails: the reader reports a non-EOF error before the data is exhausted
	fails bool
}

// onlyReader hides every optional interface (WriterTo, Seeker, …) of the wrapped reader.
type onlyReader struct{ r io.Reader }

func (o onlyReader) Read(p []byte) (int, error) { return o.r.Read(p) }

// EncryptStreamTo and DecryptStreamTo through iotest.DataErrReader (data together with io.EOF),
// OneByteReader, HalfReader and their compositions, on BOTH sides, for plaintext lengths around
// the header size and above io.Copy's 32 KiB buffer; TimeoutReader / ErrReader must surface as errors.
func extraIotestReaders(ctx *core.Ctx) (int, string, []core.ExtraFailure) {
	id := func(r io.Reader) io.Reader { return onlyReader{r} }
	ws := []wrapR{
		{"plain", id, false},
		{"DataErrReader", func(r io.Reader) io.Reader { return iotest.DataErrReader(onlyReader{r}) }, false},
		{"OneByteReader", func(r io.Reader) io.Reader { return iotest.OneByteReader(onlyReader{r}) }, false},
		{"HalfReader", func(r io.Reader) io.Reader { return iotest.HalfReader(onlyReader{r}) }, false},
		{"DataErrReader(OneByteReader)", func(r io.Reader) io.Reader { return iotest.DataErrReader(iotest.OneByteReader(onlyReader{r})) }, false},
		{"DataErrReader(HalfReader)", func(r io.Reader) io.Reader { return iotest.DataErrReader(iotest.HalfReader(onlyReader{r})) }, false},
		{"bytes.Reader", func(r io.Reader) io.Reader { return r }, false},
		{"TimeoutReader", func(r io.Reader) io.Reader { return iotest.TimeoutReader(iotest.OneByteReader(onlyReader{r})) }, true},
	}
	// plaintext sizes around every buffer size a copy loop might use (512, 4 KiB, 32 KiB = io.Copy,
	// 64 KiB), and the same minus the 16-byte header (the decrypting side sees 16 + n bytes)
	lens := []int{0, 1, 15, 16, 17, 31, 100, 496, 511, 512, 513, 4079, 4080, 4081, 4095, 4096, 4097, 8192,
		32751, 32752, 32753, 32767, 32768, 32769, 65519, 65520, 65521, 65535, 65536, 65537, 70001}
	if ctx.Tier != "thorough" && ctx.Escalate <= 1 {
		lens = []int{0, 1, 16, 17, 100, 4080, 4095, 4096, 4097, 32752, 32767, 32768, 32769, 40000, 65536}
	}
	r := ctx.Rand.Fork()
	evals := 0
	var fails []core.ExtraFailure
	fail := func(key, desc string, pt, secret []byte) {
		if len(fails) < 3 {
			p := pt
			if len(p) > 64 {
				p = p[:64]
			}
			fails = append(fails, core.ExtraFailure{Failure: core.Failure{Key: key, Desc: desc},
				Payload: map[string]any{"secret": hx(secret), "plaintext_len": len(pt), "plaintext_head": hx(p)}})
		}
	}
	for _, n := range lens {
		pt := r.Bytes(n)
		secret := genSecret(r)
		for ei, ew := range ws {
			// encrypt side
			var enc bytes.Buffer
			var err error
			res := ""
			withRealRand(func() {
				res = core.Guard(func() string {
					if ei%2 == 0 {
						err = cryptz.EncryptStreamTo(&enc, ew.wrap(bytes.NewReader(pt)), secret)
					} else {
						err = cryptz.EncryptStreamTo(&enc, ew.wrap(bytes.NewReader(pt)), string(secret))
					}
					return "ok"
				})
			})
			evals++
			if res == "panic" {
				fail("enc-stream-panic", "EncryptStreamTo panicked with source "+ew.name, pt, secret)
				continue
			}
			if ew.fails && n >= 2 {
				if err == nil {
					fail("stream-encrypt-swallows-read-error", "source "+ew.name+" failed: EncryptStreamTo must return an error", pt, secret)
				}
				continue
			}
			if ew.fails {
				continue
			}
			st := enc.Bytes()
			if err != nil || len(st) != 16+n || !bytes.Equal(st[:8], magic) || !bytes.Equal(st, refStream(st[8:16], secret, pt)) {
				fail("stream-encrypt-wrong", fmt.Sprintf("EncryptStreamTo with source %s (len %d): err=%v; want \"Salted__\" ‖ salt ‖ AES-256-CTR(plaintext)", ew.name, n, err), pt, secret)
				continue
			}
			// decrypt side
			for di, dw := range ws {
				var dec bytes.Buffer
				var derr error
				res := core.Guard(func() string {
					if di%2 == 0 {
						derr = cryptz.DecryptStreamTo(&dec, dw.wrap(bytes.NewReader(st)), secret)
					} else {
						derr = cryptz.DecryptStreamTo(&dec, dw.wrap(bytes.NewReader(st)), string(secret))
					}
					return "ok"
				})
				evals++
				if res == "panic" {
					fail("dec-stream-panic", "DecryptStreamTo panicked with reader "+dw.name, pt, secret)
					continue
				}
				if dw.fails {
					if derr == nil {
						fail("stream-decrypt-swallows-read-error", "reader "+dw.name+" failed: DecryptStreamTo must return an error", pt, secret)
					}
					continue
				}
				if derr != nil || !bytes.Equal(dec.Bytes(), pt) {
					fail("stream-decrypt-chunking", fmt.Sprintf("DecryptStreamTo(EncryptStreamTo(p)) must be p: source %s, reader %s, len %d, err=%v", ew.name, dw.name, n, derr), pt, secret)
				}
			}
		}
		// a reader that fails outright, and one that fails after the header
		for _, cut := range []int{0, 5, 16, 16 + n/2} {
			evals++
			st := refStream(seqBytes(8, 1), secret, pt)
			if cut > len(st) {
				continue
			}
			boom := errors.New("boom")
			rd := io.MultiReader(bytes.NewReader(st[:cut]), iotest.ErrReader(boom))
			var dec bytes.Buffer
			var derr error
			if core.Guard(func() string { derr = cryptz.DecryptStreamTo(&dec, rd, secret); return "ok" }) == "panic" {
				fail("dec-stream-panic", "DecryptStreamTo panicked on a failing reader", pt, secret)
			} else if derr == nil {
				fail("stream-decrypt-swallows-read-error", fmt.Sprintf("reader failed after %d bytes: DecryptStreamTo must return an error", cut), pt, secret)
			}
		}
	}
	return evals, fmt.Sprintf("EncryptStreamTo × DecryptStreamTo through testing/iotest readers {plain, DataErrReader, OneByteReader, HalfReader, DataErrReader∘OneByteReader, DataErrReader∘HalfReader, *bytes.Reader} on BOTH sides, plaintext lengths %v (above io.Copy's 32 KiB buffer included): wire format = reference, round trip = plaintext; TimeoutReader/ErrReader surface as errors", lens), fails
}

// ---------- extra: inputs far longer than the 0..80 bytes of the correspondence stream

// Encrypt/Decrypt, GCMEncrypt/GCMDecrypt and the raw pairs on plaintexts around 255/256, 4 KiB
// and 64 KiB, secrets and additional data up to 1000 bytes, against the stdlib reference only
// (the Lean AES/MD5 are too slow for these sizes).  Guards against anything that clips or wraps
// a length.
func extraLargeInputs(ctx *core.Ctx) (int, string, []core.ExtraFailure) {
	r := ctx.Rand.Fork()
	sizes := []int{254, 255, 256, 257, 4095, 4096, 4097, 65535, 65536, 65537}
	tys := []string{"ss", "sb", "bs", "bb"}
	evals := 0
	var fails []core.ExtraFailure
	for i, n := range sizes {
		secret := r.Bytes([]int{1, 55, 56, 64, 119, 120, 1000, 65536, 80, 100}[i%10]) // around MD5's padding boundaries, a 64 KiB one
		ad := r.Bytes([]int{0, 16, 33, 1000}[i%4])
		salt := r.Bytes(8)
		pt := r.Bytes(n)
		ty := tys[i%4]
		lines := []string{"@ C09 x",
			fmt.Sprintf("enc-cbc %s %s %s %s", ty, hx(salt), hx(secret), hx(pt)),
			fmt.Sprintf("raw-enc-gcm %s %s %s %s %s", ty, hx(salt), hx(secret), hx(ad), hx(pt)),
			fmt.Sprintf("enc-gcm %s %s %s %s %s", ty, hx(salt), hx(secret), hx(ad), hx(pt)),
			fmt.Sprintf("dec-cbc %s %s %s", ty, hx(secret), hx([]byte(base64.StdEncoding.EncodeToString(refCBCEnvelope(salt, secret, pt))))),
			fmt.Sprintf("raw-dec-cbc %d %s %s %s", i%2, ty, hx(secret), hx(refCBCEnvelope(salt, secret, pt))),
			fmt.Sprintf("dec-gcm %s %s %s %s", ty, hx(secret), hx(ad), hx([]byte(hex.EncodeToString(refGCMEnvelope(salt, secret, ad, pt))))),
			fmt.Sprintf("raw-dec-gcm %d %s %s %s %s", i%2, ty, hx(secret), hx(ad), hx(refGCMEnvelope(salt, secret, ad, pt))),
			fmt.Sprintf("rt-cbc %s %s %s", ty, hx(secret), hx(pt)),
			fmt.Sprintf("rt-gcm %s %s %s %s", ty, hx(secret), hx(ad), hx(pt))}
		c := core.Case{Lines: lines}
		out := impl(c)
		evals += len(lines) - 1
		if f := check(c, out); f != nil && len(fails) < 3 {
			fails = append(fails, core.ExtraFailure{Failure: *f, Payload: map[string]any{"plaintext_len": n, "secret_len": len(secret), "ad_len": len(ad), "ty": ty, "salt": hx(salt)}})
		}
	}
	return evals, fmt.Sprintf("plaintext sizes %v, secrets 1..1000 bytes (around MD5's 55/56/64/119/120 padding boundaries), AD 0..1000 bytes: all CBC/GCM entry points equal the stdlib reference (own EVP derivation) and round-trip", sizes), fails
}


// ---------- extra: the key derivation for EVERY secret length up to 2200 and around every power of two

// One Encrypt (1-byte plaintext, fixed salt) per secret length, compared with the independent
// EVP_BytesToKey derivation: all lengths 0..2200, then 2^k-40 .. 2^k+40 for every k up to 16
// (the largest buffer constant in the code is io.Copy's 32 KiB), both as []byte and as string.
// Guards against a scratch buffer of ANY plausible size with a wrong fallback test — the
// window that matters is "buffer size − 16 (previous digest) − 8 (salt) … buffer size".
func extraSecretLengthSweep(ctx *core.Ctx) (int, string, []core.ExtraFailure) {
	var lens []int
	for n := 0; n <= 2200; n++ {
		lens = append(lens, n)
	}
	for k := 12; k <= 16; k++ {
		for d := -40; d <= 40; d++ {
			lens = append(lens, 1<<k+d)
		}
	}
	salt := seqBytes(8, 0xb1)
	evals := 0
	var fails []core.ExtraFailure
	big := make([]byte, 1<<16+64)
	for i := range big {
		big[i] = byte(i*7 + i>>8)
	}
	for _, n := range lens {
		secret := big[:n]
		ty := []string{"bb", "bs"}[n%2]
		line := fmt.Sprintf("enc-cbc %s %s %s 00", ty, hx(salt), hx(secret))
		if n%5 == 0 {
			line = fmt.Sprintf("enc-gcm %s %s %s - 00", ty, hx(salt), hx(secret))
		}
		c := core.Case{Lines: []string{"@ C09 x", line}}
		out := impl(c)
		evals++
		if f := check(c, out); f != nil && len(fails) < 3 {
			f.Desc = fmt.Sprintf("secret of %d bytes: %s", n, f.Desc)
			fails = append(fails, core.ExtraFailure{Failure: *f, Payload: map[string]any{"lines": c.Lines, "impl_out": out, "secret_len": n}})
		}
	}
	return evals, fmt.Sprintf("%d secret lengths (every length 0..2200; 2^k±40 for k = 12..16): envelope = independent EVP_BytesToKey(MD5) derivation + stdlib CBC/GCM", len(lens)), fails
}
