package c10

import (
	"fmt"
	"sync"
	"time"

	"github.com/welllog/golib/ringz"

	"verifharness/internal/core"
)

// extraTimedWait drives the REAL timed forms PushWait(v, d) / PopWait(d) with d in
// 10..35 ms on a ring where the first attempt fails (full / empty) while a helper
// goroutine frees / fills one slot at a moment spread around the deadline, so that in a
// good share of the trials the success lands on the expiring tick. The verdict never
// looks at the clock: whatever the call answers, the elements must be accounted for —
//   PushWait true  ⇒ the value is in the ring exactly once, behind the older elements;
//   PushWait false ⇒ the value is not in the ring;
//   PopWait (v,true) ⇒ v is the oldest element and is gone from the ring;
//   PopWait (_,false) ⇒ nothing was removed.
// (Model: `pushTicks`/`popTicks` attempt the operation first and test the expiry only
// after a failed attempt; `c10_wait_false_unchanged`.)
func extraTimedWait(ctx *core.Ctx) (evals int, note string, fails []core.ExtraFailure) {
	batches, per := 2, 48
	if ctx.Tier == "thorough" || ctx.Escalate > 1 {
		batches = 12
	}
	type res struct {
		kind          string
		d, delay      time.Duration
		ok            bool
		bad           string
	}
	var mu sync.Mutex
	var all []res
	for b := 0; b < batches; b++ {
		var wg sync.WaitGroup
		for k := 0; k < per; k++ {
			d := time.Duration(ctx.Rand.Range(10, 35)) * time.Millisecond
			lo := d - 14*time.Millisecond
			if lo < 0 {
				lo = 0
			}
			delay := lo + time.Duration(ctx.Rand.Intn(int(d+4*time.Millisecond-lo)))
			push := k%2 == 0
			wg.Add(1)
			go func() {
				defer wg.Done()
				r := res{d: d, delay: delay}
				defer func() {
					if p := recover(); p != nil {
						r.bad = fmt.Sprintf("panic: %v", p)
					}
					mu.Lock()
					all = append(all, r)
					mu.Unlock()
				}()
				ring := ringz.NewSync[int](2)
				drain := func() []int {
					var l []int
					for {
						v, ok := ring.Pop()
						if !ok {
							return l
						}
						l = append(l, v)
					}
				}
				if push {
					r.kind = "PushWait"
					ring.Push(1)
					ring.Push(2)
					var hv int
					var hok bool
					done := make(chan struct{})
					go func() { time.Sleep(delay); hv, hok = ring.Pop(); close(done) }()
					r.ok = ring.PushWait(99, d)
					<-done
					rest := drain()
					want := []int{1, 2}
					if hok {
						if hv != 1 {
							r.bad = fmt.Sprintf("helper Pop returned %d, oldest is 1", hv)
							return
						}
						want = []int{2}
					}
					if r.ok {
						want = append(want, 99)
					}
					if fmt.Sprint(rest) != fmt.Sprint(want) {
						r.bad = fmt.Sprintf("PushWait(99, %v) on a full ring [1 2] answered %v, a helper popped (%d,%v) after %v; the ring then holds %v, accounting requires %v", d, r.ok, hv, hok, delay, rest, want)
					}
				} else {
					r.kind = "PopWait"
					var hok bool
					done := make(chan struct{})
					go func() { time.Sleep(delay); hok = ring.Push(77); close(done) }()
					v, ok := ring.PopWait(d)
					r.ok = ok
					<-done
					rest := drain()
					var want []int
					if hok && !ok {
						want = []int{77}
					}
					if (ok && (v != 77 || !hok)) || fmt.Sprint(rest) != fmt.Sprint(want) {
						r.bad = fmt.Sprintf("PopWait(%v) on an empty ring answered (%d,%v), a helper pushed 77 (%v) after %v; the ring then holds %v, accounting requires %v", d, v, ok, hok, delay, rest, want)
					}
				}
			}()
		}
		wg.Wait()
	}
	succ := map[string][2]int{}
	for _, r := range all {
		evals++
		c := succ[r.kind]
		if r.ok {
			c[0]++
		} else {
			c[1]++
		}
		succ[r.kind] = c
		if r.bad != "" && len(fails) < 3 {
			fails = append(fails, core.ExtraFailure{Failure: core.Failure{Key: "syncring-timed-wait-accounting", Desc: r.bad},
				Payload: map[string]any{"call": r.kind, "maxWait_ms": r.d.Milliseconds(), "helper_delay_us": r.delay.Microseconds(), "answered": r.ok}})
		}
	}
	return evals, fmt.Sprintf("%d timed waits (maxWait 10..35 ms, helper acting around the deadline): PushWait %d true / %d false, PopWait %d true / %d false; elements accounted for in every trial",
		len(all), succ["PushWait"][0], succ["PushWait"][1], succ["PopWait"][0], succ["PopWait"][1]), fails
}
