package c10

import (
	"fmt"
	"strconv"

	"github.com/welllog/golib/ringz"

	"verifharness/internal/core"
)

// Case kinds "ringC" / "syncC" (copy stream, class "re-configuration"): several Ring /
// SyncRing VALUES; `copy i j` is the struct assignment objs[j] = objs[i] (the copy shares
// the backing array), `<i> init c` re-initialises one of them, `<i> <op>` is any single
// operation. What the property requires: an object that does not share its backing array
// with an object that has been written to is a bounded FIFO; Init (and a successful
// Recap / an expanding PushWithExpand) gives the object a backing array of its own, so
// after `b := a; a.Init(n)` both a and b are independent FIFOs. While two copies share an
// array, a write through one of them may corrupt the other (the caller's aliasing): the
// oracle stops judging ("taints") the others until they are re-initialised; the Lean
// model (a heap of buffers) still predicts every answer.

func copyKind(c core.Case) string {
	h := core.Toks(c.Lines[0])
	if len(h) >= 3 && (h[2] == "ringC" || h[2] == "syncC") {
		return h[2]
	}
	return ""
}

func syncBasicOp(r *ringz.SyncRing[int], t []string) string {
	switch {
	case len(t) == 2 && t[0] == "init":
		n, err := strconv.Atoi(t[1])
		if err != nil || tooLargeToRun(n) {
			return "bad-op"
		}
		r.Init(n)
		return "ok"
	case len(t) == 2 && t[0] == "push":
		v, err := strconv.Atoi(t[1])
		if err != nil {
			return "bad-op"
		}
		return strconv.FormatBool(r.Push(v))
	case len(t) == 1 && t[0] == "pop":
		v, ok := r.Pop()
		return fmt.Sprintf("%d %v", v, ok)
	case len(t) == 1 && t[0] == "len":
		return strconv.Itoa(r.Len())
	case len(t) == 1 && t[0] == "cap":
		return strconv.Itoa(r.Cap())
	case len(t) == 1 && t[0] == "isempty":
		return strconv.FormatBool(r.IsEmpty())
	case len(t) == 1 && t[0] == "isfull":
		return strconv.FormatBool(r.IsFull())
	case len(t) == 1 && t[0] == "dump":
		f := fieldsOf(r)
		if !f.ok {
			return "dump-unsupported"
		}
		return f.dump()
	}
	return "bad-op"
}

func implCopy(c core.Case) []string {
	kind := copyKind(c)
	var rs []ringz.Ring[int]
	var ss []ringz.SyncRing[int]
	n := 0
	return core.RunOps(c,
		func(hdr []string) string {
			if len(hdr) < 2 {
				return "bad-op"
			}
			for _, h := range hdr[1:] {
				v, err := strconv.Atoi(h)
				if err != nil || v <= 0 || tooLargeToRun(v) || v > 1<<31 {
					return "bad-op"
				}
				if kind == "ringC" {
					rs = append(rs, ringz.New[int](v))
				} else {
					ss = append(ss, ringz.NewSync[int](v))
				}
				n++
			}
			return "ok"
		},
		func(t []string) string {
			if len(t) == 3 && t[0] == "copy" {
				i, e1 := strconv.Atoi(t[1])
				j, e2 := strconv.Atoi(t[2])
				if e1 != nil || e2 != nil || i < 0 || j < 0 || i >= n || j >= n {
					return "bad-op"
				}
				if kind == "ringC" {
					rs[j] = rs[i] // struct assignment: shares the backing array
				} else {
					ss[j] = ss[i]
				}
				return "ok"
			}
			if len(t) < 2 {
				return "bad-op"
			}
			i, err := strconv.Atoi(t[0])
			if err != nil || i < 0 || i >= n {
				return "bad-op"
			}
			if kind == "ringC" {
				return ringOp(&rs[i], t[1:])
			}
			return syncBasicOp(&ss[i], t[1:])
		})
}

type copyObj struct {
	q       []int
	cap     int
	group   int
	tainted bool
}

func checkCopy(c core.Case, out []string) *core.Failure {
	kind := copyKind(c)
	hdr := core.Toks(c.Lines[0])
	if out[0] != "ok" {
		return nil
	}
	round := func(v int) int {
		if kind == "ringC" {
			return v
		}
		k := 2
		for k < v {
			k *= 2
		}
		return k
	}
	var objs []copyObj
	groups := 0
	for _, h := range hdr[3:] {
		v, _ := strconv.Atoi(h)
		objs = append(objs, copyObj{cap: round(v), group: groups})
		groups++
	}
	sharers := func(i int) []int {
		var js []int
		for j := range objs {
			if j != i && objs[j].group == objs[i].group {
				js = append(js, j)
			}
		}
		return js
	}
	wrote := func(i int) { // a write through i into a shared array: the other sharers are no longer judged
		for _, j := range sharers(i) {
			objs[j].tainted = true
		}
	}
	for li := 1; li < len(c.Lines); li++ {
		t := core.Toks(c.Lines[li])
		o := out[li]
		if o == "bad-op" || o == "dead" {
			continue
		}
		if t[0] == "copy" {
			i, _ := strconv.Atoi(t[1])
			j, _ := strconv.Atoi(t[2])
			objs[j] = copyObj{q: append([]int{}, objs[i].q...), cap: objs[i].cap, group: objs[i].group, tainted: objs[i].tainted}
			continue
		}
		i, _ := strconv.Atoi(t[0])
		ob := &objs[i]
		op := t[1:]
		arg := 0
		if len(op) == 2 {
			arg, _ = strconv.Atoi(op[1])
		}
		fail := func(want string) *core.Failure {
			return &core.Failure{Key: "ring-copy-independence", Desc: fmt.Sprintf("line %d %q: object %d (own backing array since its last Init/Recap, no write through a sharing copy) answered %q, a bounded FIFO of capacity %d holding %v answers %q", li, c.Lines[li], i, o, ob.cap, ob.q, want)}
		}
		var want string
		switch op[0] {
		case "init":
			if arg <= 0 || arg > 1<<31 {
				if o != "panic" {
					return fail("panic")
				}
				return nil
			}
			*ob = copyObj{cap: round(arg), group: groups}
			groups++
			want = "ok"
		case "recap":
			if ob.tainted {
				if o == "true" {
					ob.cap, ob.group = arg, groups
					groups++
				}
				continue
			}
			if arg > 0 && arg != ob.cap && arg >= len(ob.q) {
				ob.cap, ob.group = arg, groups
				groups++
				want = "true"
			} else {
				want = "false"
			}
		case "pushx":
			if ob.tainted {
				wrote(i) // may or may not have expanded: if not, it wrote into the shared array
				continue
			}
			if len(ob.q) == ob.cap {
				ob.cap *= 2
				ob.group = groups
				groups++
			} else {
				wrote(i)
			}
			ob.q = append(ob.q, arg)
			want = "ok"
		case "push":
			if ob.tainted {
				wrote(i)
				continue
			}
			if len(ob.q) < ob.cap {
				ob.q = append(ob.q, arg)
				want = "true"
				wrote(i)
			} else {
				want = "false"
			}
		case "pop":
			if ob.tainted {
				wrote(i)
				continue
			}
			if len(ob.q) == 0 {
				want = "0 false"
			} else {
				want = fmt.Sprintf("%d true", ob.q[0])
				ob.q = ob.q[1:]
				wrote(i)
			}
		case "peek":
			if len(ob.q) == 0 {
				want = "0 false"
			} else {
				want = fmt.Sprintf("%d true", ob.q[0])
			}
		case "len":
			want = strconv.Itoa(len(ob.q))
		case "cap":
			want = strconv.Itoa(ob.cap)
		case "isempty":
			want = strconv.FormatBool(len(ob.q) == 0)
		case "isfull":
			want = strconv.FormatBool(len(ob.q) == ob.cap)
		default:
			continue
		}
		if ob.tainted {
			continue
		}
		if o != want {
			return fail(want)
		}
	}
	return nil
}

func genCopy(r *core.Rand, tier string) core.Case {
	kind := "ringC"
	maxCap := 6
	if r.Bool() {
		kind, maxCap = "syncC", 9
	}
	nobj := r.Range(2, 3)
	hdr := "@ C10 " + kind
	caps := make([]int, nobj)
	for i := range caps {
		caps[i] = r.Range(1, maxCap)
		hdr += fmt.Sprintf(" %d", caps[i])
	}
	lines := []string{hdr}
	next := 1
	noCopies := r.Chance(25)
	ops := func(i, n int, pushBias int) {
		for ; n > 0; n-- {
			switch r.Pick(pushBias, 30, 6, 4, 4, 4, 3) {
			case 0:
				lines = append(lines, fmt.Sprintf("%d push %d", i, next))
				next++
			case 1:
				lines = append(lines, fmt.Sprintf("%d pop", i))
			case 2:
				lines = append(lines, fmt.Sprintf("%d len", i))
			case 3:
				lines = append(lines, fmt.Sprintf("%d cap", i))
			case 4:
				lines = append(lines, fmt.Sprintf("%d isfull", i))
			case 5:
				lines = append(lines, fmt.Sprintf("%d isempty", i))
			case 6:
				if kind == "ringC" {
					lines = append(lines, fmt.Sprintf("%d %s", i, []string{"peek", fmt.Sprintf("pushx %d", next), fmt.Sprintf("recap %d", r.Range(0, 9))}[r.Intn(3)]))
					next++
				} else {
					lines = append(lines, fmt.Sprintf("%d dump", i))
				}
			}
		}
	}
	for round := r.Range(1, 3); round > 0; round-- {
		a, b := r.Intn(nobj), r.Intn(nobj)
		if a == b {
			b = (a + 1) % nobj
		}
		ops(a, r.Range(2, 10), 50) // use a (rotate it, leave some content)
		if noCopies { // independent objects only: interleave, re-initialise, never copy
			ops(b, r.Range(2, 10), 50)
			if r.Bool() {
				lines = append(lines, fmt.Sprintf("%d init %d", b, r.Range(1, maxCap)))
			}
			ops(a, r.Range(2, 8), 40)
			ops(b, r.Range(2, 8), 40)
			continue
		}
		lines = append(lines, fmt.Sprintf("copy %d %d", a, b))
		x := a // the copy that is re-configured
		if r.Bool() {
			x = b
		}
		y := a + b - x
		switch r.Pick(55, 20, 25) {
		case 0: // Init with a capacity smaller / equal / larger than the current one
			lines = append(lines, fmt.Sprintf("%d init %d", x, r.Range(1, maxCap+3)))
		case 1:
			if kind == "ringC" {
				lines = append(lines, fmt.Sprintf("%d recap %d", x, r.Range(1, 12)))
			} else {
				lines = append(lines, fmt.Sprintf("%d init %d", x, caps[a]))
			}
		case 2: // no re-configuration: the copies share the array (model tie; oracle only while untouched)
		}
		for k := r.Range(2, 5); k > 0; k-- { // then both are used, alternating
			ops(x, r.Range(1, 5), 55)
			ops(y, r.Range(1, 5), 35)
		}
		if r.Chance(40) {
			lines = append(lines, fmt.Sprintf("%d init %d", y, r.Range(1, maxCap)))
			ops(y, r.Range(2, 6), 60)
			ops(x, r.Range(2, 6), 30)
		}
	}
	return core.Case{Lines: lines, Tag: "copy"}
}

func classifyCopy(c core.Case, out []string) []string {
	ls := []string{"copy-" + copyKind(c)}
	copied := false
	for i, l := range c.Lines[1:] {
		t := core.Toks(l)
		switch {
		case t[0] == "copy":
			copied = true
		case len(t) >= 2 && t[1] == "init" && copied:
			ls = append(ls, "copy-then-init")
		case len(t) >= 2 && t[1] == "recap" && copied && out[i+1] == "true":
			ls = append(ls, "copy-then-recap")
		case out[i+1] == "panic":
			ls = append(ls, "copy-panic")
		}
	}
	return ls
}
