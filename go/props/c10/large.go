package c10

import (
	"fmt"
	"strconv"

	"github.com/welllog/golib/ringz"

	"verifharness/internal/core"
)

// Case kind "ringL" (large stream): Ring[int] of capacity 16..5000 (70000 in thorough)
// driven by bulk operations so that cases stay short:
//   fill n v   n × Push(v), Push(v+1), …          → number of successful pushes
//   drain n    n × Pop()                          → count, sum and order hash of the popped values
//   xfill n v  n × PushWithExpand(v), …           → ok
// plus every single operation of the "ring" kind. The Lean side answers with the
// linear-time spec-level run, proved equal to the iterated model (c10_ring_large_refines).

func isLarge(c core.Case) bool {
	h := core.Toks(c.Lines[0])
	return len(h) >= 3 && h[2] == "ringL"
}

func showDrained(vs []int) string {
	sum, h := 0, 0
	for _, v := range vs {
		sum += v
		h = (h*31 + v%1000003 + 7) % 1000000007
	}
	return fmt.Sprintf("%d %d %d", len(vs), sum, h)
}

func implLarge(c core.Case) []string {
	var r ringz.Ring[int]
	return core.RunOps(c,
		func(hdr []string) string {
			if len(hdr) != 2 {
				return "bad-op"
			}
			n, err := strconv.Atoi(hdr[1])
			if err != nil || n <= 0 {
				return "bad-op"
			}
			r = ringz.New[int](n)
			return "ok"
		},
		func(t []string) string { return largeOp(&r, t) })
}

// largeOp: one bulk or single operation of the large protocol on a Ring[int].
func largeOp(r *ringz.Ring[int], t []string) string {
	num := func(i int) (int, bool) {
		if i >= len(t) {
			return 0, false
		}
		v, err := strconv.Atoi(t[i])
		return v, err == nil
	}
	switch {
	case t[0] == "fill" && len(t) == 3:
		n, ok1 := num(1)
		v, ok2 := num(2)
		if !ok1 || !ok2 || n < 0 {
			return "bad-op"
		}
		k := 0
		for i := 0; i < n; i++ {
			if r.Push(v + i) {
				k++
			}
		}
		return strconv.Itoa(k)
	case t[0] == "xfill" && len(t) == 3:
		n, ok1 := num(1)
		v, ok2 := num(2)
		if !ok1 || !ok2 || n < 0 {
			return "bad-op"
		}
		for i := 0; i < n; i++ {
			r.PushWithExpand(v + i)
		}
		return "ok"
	case t[0] == "drain" && len(t) == 2:
		n, ok1 := num(1)
		if !ok1 || n < 0 {
			return "bad-op"
		}
		var vs []int
		for i := 0; i < n; i++ {
			if v, ok := r.Pop(); ok {
				vs = append(vs, v)
			}
		}
		return showDrained(vs)
	}
	if t[0] == "init" {
		if n, ok := num(1); !ok || n <= 0 || len(t) != 2 {
			return "bad-op"
		}
	}
	return ringOp(r, t)
}

// checkLarge: the property's own predicate on a plain slice queue.
func checkLarge(c core.Case, out []string) *core.Failure {
	hdr := core.Toks(c.Lines[0])
	if len(hdr) != 4 {
		return nil
	}
	capacity, err := strconv.Atoi(hdr[3])
	if err != nil || capacity <= 0 {
		return nil
	}
	if out[0] != "ok" {
		return &core.Failure{Key: "ring-init", Desc: fmt.Sprintf("New(%d) answered %q", capacity, out[0])}
	}
	var q []int
	// The property fixes content and order across PushWithExpand, not the growth policy:
	// after a growth the next `cap` line may report any capacity that holds the content and
	// exceeds the old one; it is adopted (the generator asks for `cap` right after). The
	// doubling itself is the model's business (differential tie).
	grown := false
	for i := 1; i < len(c.Lines); i++ {
		t := core.Toks(c.Lines[i])
		if grown && t[0] == "cap" {
			if v, err := strconv.Atoi(out[i]); err == nil && v >= len(q) && v > 0 {
				capacity = v
			}
		}
		grown = false
		a, b := 0, 0
		if len(t) >= 2 {
			a, _ = strconv.Atoi(t[1])
		}
		if len(t) >= 3 {
			b, _ = strconv.Atoi(t[2])
		}
		var want string
		lenBefore, capBefore := len(q), capacity
		switch t[0] {
		case "init":
			if a <= 0 {
				continue
			}
			q, capacity, want = nil, a, "ok"
		case "fill":
			k := 0
			for j := 0; j < a; j++ {
				if len(q) < capacity {
					q = append(q, b+j)
					k++
				}
			}
			want = strconv.Itoa(k)
		case "xfill":
			for j := 0; j < a; j++ {
				if len(q) == capacity {
					capacity *= 2
					grown = true
				}
				q = append(q, b+j)
			}
			want = "ok"
		case "drain":
			k := min(a, len(q))
			want = showDrained(q[:k])
			q = q[k:]
		case "push":
			if len(q) < capacity {
				q = append(q, a)
				want = "true"
			} else {
				want = "false"
			}
		case "pushx":
			if len(q) == capacity {
				capacity *= 2
				grown = true
			}
			q = append(q, a)
			want = "ok"
		case "recap":
			if a > 0 && a != capacity && a >= len(q) {
				capacity = a
				want = "true"
			} else {
				want = "false"
			}
		case "pop":
			if len(q) == 0 {
				want = "0 false"
			} else {
				want = fmt.Sprintf("%d true", q[0])
				q = q[1:]
			}
		case "peek":
			if len(q) == 0 {
				want = "0 false"
			} else {
				want = fmt.Sprintf("%d true", q[0])
			}
		case "len":
			want = strconv.Itoa(len(q))
		case "cap":
			want = strconv.Itoa(capacity)
		case "isempty":
			want = strconv.FormatBool(len(q) == 0)
		case "isfull":
			want = strconv.FormatBool(len(q) == capacity)
		default:
			continue
		}
		if out[i] != want {
			return &core.Failure{Key: "ring-fifo", Desc: fmt.Sprintf("op %d %q: implementation answered %q, bounded FIFO of capacity %d holding %d elements answers %q (drain prints count, sum, order hash)", i, c.Lines[i], out[i], capBefore, lenBefore, want)}
		}
	}
	return nil
}

var largeCaps = []int{16, 17, 31, 32, 33, 63, 64, 65, 100, 255, 256, 257, 511, 512, 1000, 1023, 1024, 1025, 1500, 2047, 2048, 2049, 3000, 4095, 4096, 4097, 5000}

func genLarge(r *core.Rand, tier string) core.Case {
	cp := largeCaps[r.Intn(len(largeCaps))]
	switch {
	case r.Chance(25):
		cp = r.Range(16, 5000)
	case tier == "thorough" && r.Chance(8):
		cp = []int{8191, 8192, 16384, 16385, 65535, 65536, 65537, 70000}[r.Intn(8)]
	}
	lines := []string{fmt.Sprintf("@ C10 ringL %d", cp)}
	next := 1
	held, capNow := 0, cp
	add := func(format string, a ...any) { lines = append(lines, fmt.Sprintf(format, a...)) }
	fill := func(n int) {
		add("fill %d %d", n, next)
		next += n
		held = min(capNow, held+n)
	}
	drain := func(n int) {
		add("drain %d", n)
		held = max(0, held-n)
	}
	rounds := r.Range(1, 3)
	for round := 0; round < rounds; round++ {
		if round > 0 && r.Chance(30) { // history: Init again on a used (rotated, grown) ring
			capNow, held = largeCaps[r.Intn(len(largeCaps))], 0
			add("init %d", capNow)
		}
		// rotation class: head in the 1st..4th quarter of the buffer (or at an edge)
		fill(capNow - held + r.Intn(3)) // to full (possibly asking for more)
		q := r.Intn(4)
		d := capNow*q/4 + r.Range(1, max(1, capNow/4))
		switch r.Intn(6) {
		case 0:
			d = 1
		case 1:
			d = capNow - 1
		}
		d = min(d, held)
		drain(d)
		// refill behind the wrap: to full, or short of full by a few
		short := 0
		if r.Chance(40) {
			short = r.Range(1, max(1, min(capNow/3, d)))
		}
		fill(d - short)
		if r.Chance(30) {
			add([]string{"len", "isfull", "peek", "cap"}[r.Intn(4)])
		}
		switch r.Pick(45, 35, 20) {
		case 0: // PushWithExpand, repeatedly: from "one more" to several expansions
			n := []int{1, 2, capNow/4 + 1, capNow / 2, capNow + 3, 2*capNow + 5}[r.Intn(6)]
			if r.Chance(30) {
				n = r.Range(1, 2*capNow)
			}
			add("xfill %d %d", n, next)
			add("cap")
			next += n
			for i := 0; i < n; i++ {
				if held == capNow {
					capNow *= 2
				}
				held++
			}
			if r.Chance(50) { // and once more after further rotation
				k := r.Range(1, held)
				drain(k)
				fill(capNow - held)
				add("xfill %d %d", 2, next)
				add("cap")
				next += 2
				for i := 0; i < 2; i++ {
					if held == capNow {
						capNow *= 2
					}
					held++
				}
			}
		case 1: // Recap up or down, around the interesting targets
			tg := []int{held, held + 1, held - 1, capNow - 1, capNow + 1, capNow, 2 * capNow, capNow + capNow/4, 1024, 1025, 4096, max(1, held) * 3}[r.Intn(12)]
			add("recap %d", tg)
			if tg > 0 && tg != capNow && tg >= held {
				capNow = tg
			}
			if r.Chance(50) {
				fill(capNow - held)
				add("isfull")
			}
		case 2:
			add("pushx %d", next)
			add("cap")
			next++
			if held == capNow {
				capNow *= 2
			}
			held++
		}
		add("len")
		add("cap")
		if round == rounds-1 || r.Chance(50) {
			drain(held + r.Intn(3)) // everything, in order
			add("isempty")
		} else {
			drain(r.Range(0, held))
		}
	}
	return core.Case{Lines: lines, Tag: "large"}
}

func classifyLarge(c core.Case, out []string) []string {
	hdr := core.Toks(c.Lines[0])
	cp, _ := strconv.Atoi(hdr[3])
	ls := []string{"large"}
	switch {
	case cp >= 4096:
		ls = append(ls, "large-cap>=4096")
	case cp >= 1024:
		ls = append(ls, "large-cap-1024..4095")
	case cp >= 256:
		ls = append(ls, "large-cap-256..1023")
	default:
		ls = append(ls, "large-cap<256")
	}
	for i, l := range c.Lines[1:] {
		t := core.Toks(l)
		switch {
		case t[0] == "init":
			ls = append(ls, "large-reinit")
		case t[0] == "xfill":
			ls = append(ls, "large-xfill")
		case t[0] == "recap" && out[i+1] == "true":
			ls = append(ls, "large-recap-ok")
		case t[0] == "recap":
			ls = append(ls, "large-recap-rejected")
		case out[i+1] == "panic":
			ls = append(ls, "large-panic")
		}
	}
	return ls
}
