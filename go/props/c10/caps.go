package c10

import (
	"bytes"
	"crypto/sha256"
	"fmt"
	"os"
	"os/exec"
	"path/filepath"
	"strconv"
	"strings"

	"github.com/welllog/golib/ringz"

	"verifharness/internal/core"
)

// Case kind "synccap": every line `cap n` is an independent NewSync[struct{}](n).Cap()
// (4 bytes per slot), compared with the least power of two >= max(2, n) and with the
// Lean syncCap. Requests in (2^28, 2^31] are not executed ("skip" on both sides).

const capRunMax = 1 << 28

func isCap(c core.Case) bool {
	h := core.Toks(c.Lines[0])
	return len(h) >= 3 && h[2] == "synccap"
}

func capOf(n int) (out string) {
	if n > capRunMax && n <= 1<<31 {
		return "skip"
	}
	return core.Guard(func() string {
		r := ringz.NewSync[struct{}](n)
		return strconv.Itoa(r.Cap())
	})
}

func implCap(c core.Case) []string {
	out := make([]string, len(c.Lines))
	if len(core.Toks(c.Lines[0])) != 3 {
		for i := range out {
			out[i] = "bad-op"
		}
		return out
	}
	out[0] = "ok"
	for i := 1; i < len(c.Lines); i++ {
		t := core.Toks(c.Lines[i])
		out[i] = "bad-op"
		if len(t) == 2 && t[0] == "cap" {
			if n, err := strconv.Atoi(t[1]); err == nil {
				out[i] = capOf(n)
			}
		}
	}
	return out
}

// wantCap: the property's own statement of Cap() (independent of the model).
func wantCap(n int) string {
	switch {
	case n <= 0 || n > 1<<31:
		return "panic" // no uint32 capacity can be the least power of two >= n / documented panic
	case n > capRunMax:
		return "skip"
	}
	c := 2
	for c < n {
		c *= 2
	}
	return strconv.Itoa(c)
}

func checkCap(c core.Case, out []string) *core.Failure {
	for i := 1; i < len(c.Lines); i++ {
		t := core.Toks(c.Lines[i])
		if len(t) != 2 || t[0] != "cap" || out[i] == "bad-op" {
			continue
		}
		n, err := strconv.Atoi(t[1])
		if err != nil {
			continue
		}
		if want := wantCap(n); out[i] != want {
			key := "syncring-cap-rounding"
			if n > 1<<31 {
				key = "syncring-init-overflow"
			}
			return &core.Failure{Key: key, Desc: fmt.Sprintf("NewSync(%d).Cap() answered %q, the least power of two >= max(2, %d) is %s", n, out[i], n, want)}
		}
	}
	return nil
}

// capCandidates: 2^k, 2^k±1, 2^k±2, 3·2^(k-1) for k = 1..kmax.
func capCandidates(kmax int) []int {
	var ns []int
	for k := 1; k <= kmax; k++ {
		p := 1 << uint(k)
		ns = append(ns, p-2, p-1, p, p+1, p+2, 3*(p/2))
	}
	return ns
}

func genCap(r *core.Rand, tier string) core.Case {
	lines := []string{"@ C10 synccap"}
	cands := capCandidates(20) // the Extra covers k <= 22 (28 in thorough)
	for k := r.Range(3, 9); k > 0; k-- {
		var n int
		switch r.Pick(50, 30, 10, 5, 5) {
		case 0:
			n = cands[r.Intn(len(cands))]
		case 1: // log-uniform
			n = int(r.Uint64()>>uint(r.Range(42, 62))) + 1
		case 2:
			n = r.Range(1, 70)
		case 3:
			n = r.Range(-2, 0)
		case 4:
			n = []int{1<<31 + 1, 1 << 32, 1<<32 + 5, 1 << 40, 1<<31 - 1 + 1<<28, 1 << 31}[r.Intn(6)]
		}
		lines = append(lines, fmt.Sprintf("cap %d", n))
	}
	return core.Case{Lines: lines, Tag: "synccap"}
}

func classifyCap(c core.Case, out []string) []string {
	var ls []string
	for i, l := range c.Lines[1:] {
		t := core.Toks(l)
		if len(t) != 2 {
			continue
		}
		n, _ := strconv.Atoi(t[1])
		switch {
		case out[i+1] == "panic":
			ls = append(ls, "cap-panic")
		case out[i+1] == "skip":
			ls = append(ls, "cap-skip")
		case n > 1<<17:
			ls = append(ls, "cap-above-2^17")
		case n > 1<<9:
			ls = append(ls, "cap-2^9..2^17")
		default:
			ls = append(ls, "cap-small")
		}
	}
	return ls
}

// bigRingCase: fill 3 / drain 3 on a large ring (slot aliasing through a wrong mask shows
// as a refused or overwriting push), optionally with the counters at the 2^32 boundary.
func bigRingCase(n int, warp string) core.Case {
	lines := []string{fmt.Sprintf("@ C10 sync %d", n)}
	if warp != "" {
		lines = append(lines, "warp "+warp)
	}
	lines = append(lines, "cap", "push 1", "push 2", "push 3", "len", "isfull", "pop", "push 4", "pop", "pop", "pop", "pop", "len", "isempty")
	return core.Case{Lines: lines, Tag: "sync-big"}
}

// implSyncSpec: case kind "syncS" (rings of up to 2^24 slots; the Lean side answers with
// the closed-form spec). Basic operations only; `warp k` only on a pristine ring (no
// successful push, no earlier warp), anything else is bad-op on both sides.
func implSyncSpec(c core.Case) []string {
	var r ringz.SyncRing[int]
	pristine := true
	return core.RunOps(c,
		func(hdr []string) string {
			if len(hdr) != 2 {
				return "bad-op"
			}
			n, err := strconv.Atoi(hdr[1])
			if err != nil || (n > 1<<24 && n <= 1<<31) {
				return "bad-op"
			}
			r = ringz.NewSync[int](n)
			return "ok"
		},
		func(t []string) string {
			if n, err := strconv.Atoi(core.Toks(c.Lines[0])[3]); err != nil || (n > 1<<24 && n <= 1<<31) {
				return "bad-op"
			}
			if len(t) == 2 && t[0] == "warp" {
				k, err := strconv.ParseUint(t[1], 10, 64)
				if err != nil || !pristine {
					return "bad-op"
				}
				f := fieldsOf(&r)
				if !f.ok {
					return "warp-unsupported"
				}
				f.warp(k)
				pristine = false
				return "ok"
			}
			if t[0] == "init" || t[0] == "dump" {
				return "bad-op"
			}
			o := syncBasicOp(&r, t)
			if t[0] == "push" && o == "true" {
				pristine = false
			}
			return o
		})
}

func isSyncSpec(c core.Case) bool {
	h := core.Toks(c.Lines[0])
	return len(h) >= 3 && h[2] == "syncS"
}

// extraCapRounding: (a) NewSync[struct{}](n).Cap() for all 2^k, 2^k±1, 2^k±2, 3·2^(k-1)
// (k <= 22 quick, <= 28 thorough) and random n, against the least power of two and the
// Lean syncCap; (b) fill/drain runs on large rings (independent FIFO oracle; the Lean
// model too for requests <= 2^20); (c) the private roundupPowOfTwo itself, linked into a
// helper program built at run time, against Lean's roundupPowOfTwo on all 2^k±j and random
// uint32 values.
func extraCapRounding(ctx *core.Ctx) (evals int, note string, fails []core.ExtraFailure) {
	defer func() {
		if p := recover(); p != nil {
			fails = append(fails, core.ExtraFailure{Failure: core.Failure{Key: "syncring-cap-rounding-panic", Desc: fmt.Sprint(p)}, Payload: map[string]any{"panic": fmt.Sprint(p)}})
		}
	}()
	add := func(f *core.Failure, c core.Case, noInput bool) {
		if f != nil && len(fails) < 4 {
			fails = append(fails, core.ExtraFailure{Failure: *f, Payload: map[string]any{"lines": c.Lines}, NoInput: noInput})
		}
	}
	kmax, nrand := 22, 400
	if ctx.Tier == "thorough" {
		kmax, nrand = 28, 4000
	}
	// (a)
	ns := capCandidates(kmax)
	for i := 0; i < nrand*ctx.Escalate; i++ {
		ns = append(ns, int(ctx.Rand.Uint64()>>uint(64-ctx.Rand.Range(2, kmax)))+1)
	}
	ns = append(ns, 0, -1, 1<<31+1, 1<<32, 1<<32+3, 1<<62)
	var cases []core.Case
	for i := 0; i < len(ns); i += 64 {
		c := core.Case{Lines: []string{"@ C10 synccap"}}
		for _, n := range ns[i:min(len(ns), i+64)] {
			c.Lines = append(c.Lines, fmt.Sprintf("cap %d", n))
		}
		cases = append(cases, c)
	}
	outs := make([][]string, len(cases))
	for i, c := range cases {
		outs[i] = implCap(c)
		evals += len(c.Lines) - 1
		if f := checkCap(c, outs[i]); f != nil {
			// minimise to the failing line
			for j := 1; j < len(c.Lines); j++ {
				one := core.Case{Lines: []string{c.Lines[0], c.Lines[j]}}
				if f1 := checkCap(one, []string{"ok", outs[i][j]}); f1 != nil {
					add(f1, one, false)
					break
				}
			}
		}
	}
	modelDiff := 0
	if lo, err := core.RunOracle(ctx.VerifDir, cases); err == nil {
		for i := range cases {
			for j := range cases[i].Lines {
				if lo[i][j] != outs[i][j] {
					modelDiff++
					one := core.Case{Lines: []string{cases[i].Lines[0], cases[i].Lines[j]}}
					add(&core.Failure{Key: "syncring-cap-model", Desc: fmt.Sprintf("%s: implementation %q, Lean syncCap %q", cases[i].Lines[j], outs[i][j], lo[i][j])}, one, false)
				}
			}
		}
	} else {
		add(&core.Failure{Key: "syncring-cap-model", Desc: "oracle not runnable: " + err.Error()}, core.Case{}, true)
	}
	// (b)
	big := []int{1<<16 + 1, 1<<17 + 1, 1<<17 + 2, 3 << 16, 3 << 17, 1<<18 - 1, 1<<19 + 1, 1<<20 - 2}
	if ctx.Tier == "thorough" {
		big = append(big, 1<<21+1, 3<<21, 1<<23+2, 1<<24-1)
	}
	var tied []core.Case
	runs := 0
	for i, n := range big {
		warp := ""
		if i%2 == 1 {
			warp = "4294967294"
		}
		c := bigRingCase(n, warp)
		out := implSyncMax(c, 1<<24)
		runs++
		evals += len(c.Lines)
		add(checkSyncMax(c, out, 1<<24), c, false)
		if !tooLargeToRun(n) {
			tied = append(tied, c)
		}
	}
	// three-way on EVERY big ring (also above 2^20 slots): implementation, FIFO oracle, and the
	// Lean closed-form spec (`syncS`)
	var spec []core.Case
	for _, n := range append(append([]int{}, big...), 1<<21+1, 3<<20) {
		c := bigRingCase(n, []string{"", "4294967294", "8589934591"}[n%3])
		c.Lines[0] = fmt.Sprintf("@ C10 syncS %d", n)
		spec = append(spec, c)
	}
	if lo, err := core.RunOracle(ctx.VerifDir, spec); err == nil {
		for i, c := range spec {
			out := implSyncSpec(c)
			evals += len(c.Lines)
			runs++
			sc := core.Case{Lines: append([]string{strings.Replace(c.Lines[0], "syncS", "sync", 1)}, c.Lines[1:]...)}
			add(checkSyncMax(sc, out, 1<<24), c, false)
			for j := range c.Lines {
				if lo[i][j] != out[j] {
					add(&core.Failure{Key: "syncring-big-model", Desc: fmt.Sprintf("line %d %q: implementation %q, Lean spec (capacity syncCap n) %q", j, c.Lines[j], out[j], lo[i][j])}, c, false)
					break
				}
			}
		}
	} else {
		add(&core.Failure{Key: "syncring-big-model", Desc: "oracle not runnable: " + err.Error()}, core.Case{}, true)
	}
	if lo, err := core.RunOracle(ctx.VerifDir, tied); err == nil {
		for i, c := range tied {
			out := implSyncMax(c, 1<<24)
			for j := range c.Lines {
				if lo[i][j] != out[j] {
					add(&core.Failure{Key: "syncring-big-model", Desc: fmt.Sprintf("line %d %q: implementation %q, Lean model %q", j, c.Lines[j], out[j], lo[i][j])}, c, false)
					break
				}
			}
		}
	}
	// (c)
	rupNote := rupTie(ctx, &evals, add)
	return evals, fmt.Sprintf("Cap() of %d requests (all 2^k, 2^k±1, 2^k±2, 3·2^(k-1) for k<=%d, random, <=0, >2^31) against the least power of two and the Lean syncCap (%d model differences); %d fill/drain runs on rings of 2^17..2^%d slots (implementation vs FIFO oracle vs Lean: slot-level model up to 2^20, closed-form spec for all incl. 2^22 / 2^24); %s",
		len(ns), kmax, modelDiff, runs, map[bool]int{false: 20, true: 24}[ctx.Tier == "thorough"], rupNote), fails
}

// rupTie builds props/c10/rup against the tree under verification and compares the
// private roundupPowOfTwo with the Lean function and with the bit length.
func rupTie(ctx *core.Ctx, evals *int, add func(*core.Failure, core.Case, bool)) string {
	goDir := filepath.Join(ctx.VerifDir, "go")
	bdir := filepath.Join(goDir, ".build")
	h := sha256.Sum256([]byte(ctx.Repo))
	key := fmt.Sprintf("%x", h[:5])
	base, err := os.ReadFile(filepath.Join(goDir, "go.mod"))
	if err != nil {
		return "roundupPowOfTwo link tie skipped: " + err.Error()
	}
	_ = os.MkdirAll(bdir, 0o755)
	modfile := filepath.Join(bdir, "c10rup-"+key+".mod")
	if err := os.WriteFile(modfile, []byte(strings.Replace(string(base), "=> /repo", "=> "+ctx.Repo, 1)), 0o644); err != nil {
		return "roundupPowOfTwo link tie skipped: " + err.Error()
	}
	if sum, err := os.ReadFile(filepath.Join(goDir, "go.sum")); err == nil {
		_ = os.WriteFile(filepath.Join(bdir, "c10rup-"+key+".sum"), sum, 0o644)
	}
	bin := filepath.Join(bdir, "c10rup-"+key)
	cmd := exec.Command("go", "build", "-modfile="+modfile, "-o", bin, "./props/c10/rup")
	cmd.Dir = goDir
	cmd.Env = append(os.Environ(), "GOFLAGS=-mod=mod", "GOPROXY=off", "GOSUMDB=off", "GOTOOLCHAIN=local")
	if out, err := cmd.CombinedOutput(); err != nil {
		s := strings.TrimSpace(string(out))
		if len(s) > 300 {
			s = s[:300] + " …"
		}
		return "roundupPowOfTwo link tie skipped (helper does not build: the private function was renamed or changed its signature): " + s
	}
	var xs []uint64
	for k := 0; k <= 32; k++ {
		p := uint64(1) << uint(k)
		for _, x := range []uint64{p - 2, p - 1, p, p + 1, p + 2, 3 * (p / 2), p + p/2 + 1} {
			if x < 1<<32 {
				xs = append(xs, x)
			}
		}
	}
	n := 20000
	if ctx.Tier == "thorough" {
		n = 1000000
	}
	for i := 0; i < n*ctx.Escalate; i++ {
		xs = append(xs, ctx.Rand.Uint64()>>uint(32+ctx.Rand.Intn(32)))
	}
	var in bytes.Buffer
	c := core.Case{Lines: []string{"@ C10 synccap"}}
	for _, x := range xs {
		fmt.Fprintln(&in, x)
		c.Lines = append(c.Lines, fmt.Sprintf("rup %d", x))
	}
	run := exec.Command(bin)
	run.Stdin = &in
	outb, err := run.Output()
	if err != nil {
		return "roundupPowOfTwo link tie skipped (helper failed: " + err.Error() + ")"
	}
	got := strings.Fields(string(outb))
	if len(got) != len(xs) {
		return "roundupPowOfTwo link tie skipped (helper answered a different number of lines)"
	}
	lo, err := core.RunOracle(ctx.VerifDir, []core.Case{c})
	if err != nil {
		return "roundupPowOfTwo link tie skipped (oracle: " + err.Error() + ")"
	}
	bad := 0
	for i, x := range xs {
		*evals++
		one := core.Case{Lines: []string{"@ C10 synccap", fmt.Sprintf("rup %d", x), fmt.Sprintf("cap %d", x)}}
		// the property's own statement, where Init relies on the function: x not a power of two, 2 < x < 2^31
		if x > 2 && x < 1<<31 && x&(x-1) != 0 {
			want := uint64(2)
			for want < x {
				want *= 2
			}
			if got[i] != strconv.FormatUint(want, 10) {
				bad++
				add(&core.Failure{Key: "syncring-cap-rounding", Desc: fmt.Sprintf("roundupPowOfTwo(%d) = %s, the least power of two >= %d is %d (NewSync(%d) relies on it)", x, got[i], x, want, x)}, one, false)
				continue
			}
		}
		if got[i] != lo[0][i+1] {
			bad++
			add(&core.Failure{Key: "syncring-roundup-model", Desc: fmt.Sprintf("roundupPowOfTwo(%d) = %s in the code, %s in the Lean model", x, got[i], lo[0][i+1])}, one, false)
		}
	}
	return fmt.Sprintf("private roundupPowOfTwo linked (go:linkname) and compared on %d uint32 values (all 2^k±j, 3·2^(k-1), random) with the Lean function and the bit length: %d differences", len(xs), bad)
}
