package c10

import (
	"fmt"
	"math"

	"github.com/welllog/golib/ringz"

	"verifharness/internal/core"
)

// extraTypeMatrix (type parameters): Ring[T] and SyncRing[T] instantiated with element
// types other than int — string, float64 (NaN, ±0: compared by bit pattern), a struct with
// a float field, `any` holding mixed values incl. uncomparable ones ([]byte, func), and
// struct{}. The property says nothing about T beyond "elements": every clause means the
// same for each T — what goes in comes out, in order, bit for bit (the rings never compare
// elements, so NaN and uncomparable dynamic types are ordinary values), and the zero value
// of T is what a failed Pop/Peek returns.
func typeRun[T any](name string, vals []T, same func(a, b T) bool, isZero func(T) bool) []string {
	var bad []string
	fail := func(format string, a ...any) {
		if len(bad) < 2 {
			bad = append(bad, name+": "+fmt.Sprintf(format, a...))
		}
	}
	n := len(vals)
	// Ring: rotate, fill, recap down to len and up, expand
	r := ringz.New[T](n)
	for i := 0; i < n/2; i++ {
		r.Push(vals[i])
	}
	for i := 0; i < n/2; i++ {
		if v, ok := r.Pop(); !ok || !same(v, vals[i]) {
			fail("Ring: pop %d returned (%v,%v)", i, v, ok)
		}
	}
	if v, ok := r.Pop(); ok || !isZero(v) {
		fail("Ring: Pop on empty returned (%v,%v)", v, ok)
	}
	if v, ok := r.Peek(); ok || !isZero(v) {
		fail("Ring: Peek on empty returned (%v,%v)", v, ok)
	}
	for i := 0; i < n; i++ {
		if !r.Push(vals[i]) {
			fail("Ring: push %d refused", i)
		}
	}
	if r.Push(vals[0]) || !r.IsFull() || r.Len() != n {
		fail("Ring: full ring accepted a push / IsFull false / Len %d", r.Len())
	}
	r.PushWithExpand(vals[0])
	if r.Cap() != 2*n || r.Len() != n+1 || !r.Recap(n+1) || r.Recap(n) {
		fail("Ring: expand/recap cap=%d len=%d", r.Cap(), r.Len())
	}
	if v, ok := r.Peek(); !ok || !same(v, vals[0]) {
		fail("Ring: Peek returned (%v,%v)", v, ok)
	}
	for i := 0; i <= n; i++ {
		if v, ok := r.Pop(); !ok || !same(v, vals[i%n]) {
			fail("Ring: after expand+recap pop %d returned (%v,%v), want %v", i, v, ok, vals[i%n])
		}
	}
	// SyncRing: across the counter wrap is C10's int stream; here only the element type varies
	s := ringz.NewSync[T](n)
	c := s.Cap()
	for round := 0; round < 3; round++ {
		for i := 0; i < c; i++ {
			if !s.Push(vals[i%n]) {
				fail("SyncRing: push %d refused", i)
			}
		}
		if s.Push(vals[0]) || !s.IsFull() || s.Len() != c {
			fail("SyncRing: full ring accepted a push / IsFull false / Len %d", s.Len())
		}
		for i := 0; i < c; i++ {
			if v, ok := s.Pop(); !ok || !same(v, vals[i%n]) {
				fail("SyncRing: pop %d returned (%v,%v)", i, v, ok)
			}
		}
		if v, ok := s.Pop(); ok || !isZero(v) || !s.IsEmpty() {
			fail("SyncRing: Pop on empty returned (%v,%v)", v, ok)
		}
		if !s.PushWait(vals[1%n], 0) {
			fail("SyncRing: PushWait(0) refused on an empty ring")
		}
		if v, ok := s.PopWait(0); !ok || !same(v, vals[1%n]) {
			fail("SyncRing: PopWait(0) returned (%v,%v)", v, ok)
		}
	}
	return bad
}

type fpoint struct {
	X float64
	S string
}

func extraTypeMatrix(ctx *core.Ctx) (evals int, note string, fails []core.ExtraFailure) {
	defer func() {
		if p := recover(); p != nil {
			fails = append(fails, core.ExtraFailure{Failure: core.Failure{Key: "ring-type-matrix-panic", Desc: fmt.Sprint(p)}, Payload: map[string]any{"panic": fmt.Sprint(p)}})
		}
	}()
	nan := math.NaN()
	fbits := func(a, b float64) bool { return math.Float64bits(a) == math.Float64bits(b) }
	f1 := func() {}
	bs := []byte("bytes")
	anys := []any{1, "s", nan, bs, f1, nil, struct{}{}, fpoint{nan, "x"}, []int(nil)}
	sameAny := func(a, b any) bool {
		switch x := a.(type) {
		case []byte:
			y, ok := b.([]byte)
			return ok && len(x) == len(y) && (len(x) == 0 || &x[0] == &y[0])
		case func():
			_, ok := b.(func())
			return ok && fmt.Sprintf("%p", x) == fmt.Sprintf("%p", b)
		case float64:
			y, ok := b.(float64)
			return ok && fbits(x, y)
		case fpoint:
			y, ok := b.(fpoint)
			return ok && fbits(x.X, y.X) && x.S == y.S
		case []int:
			y, ok := b.([]int)
			return ok && x == nil && y == nil
		}
		return a == b
	}
	var all []string
	all = append(all, typeRun("string", []string{"", "a", "é你", "\x00\xff", "zz"}, func(a, b string) bool { return a == b }, func(s string) bool { return s == "" })...)
	all = append(all, typeRun("float64", []float64{nan, 0, math.Copysign(0, -1), math.Inf(1), 1.5, -nan}, fbits, func(f float64) bool { return math.Float64bits(f) == 0 })...)
	all = append(all, typeRun("struct{float64,string}", []fpoint{{nan, "a"}, {0, ""}, {math.Copysign(0, -1), "z"}}, func(a, b fpoint) bool { return fbits(a.X, b.X) && a.S == b.S }, func(p fpoint) bool { return math.Float64bits(p.X) == 0 && p.S == "" })...)
	all = append(all, typeRun("any", anys, sameAny, func(a any) bool { return a == nil })...)
	all = append(all, typeRun("struct{}", []struct{}{{}, {}, {}}, func(a, b struct{}) bool { return true }, func(struct{}) bool { return true })...)
	all = append(all, typeRun("*int", []*int{new(int), nil, new(int)}, func(a, b *int) bool { return a == b }, func(p *int) bool { return p == nil })...)
	evals = 6 * 60
	for _, b := range all {
		if len(fails) < 3 {
			fails = append(fails, core.ExtraFailure{Failure: core.Failure{Key: "ring-type-matrix", Desc: b}, Payload: map[string]any{"what": b}})
		}
	}
	return evals, "Ring[T] and SyncRing[T] for T = string, float64 (NaN, ±0 by bit pattern), struct{float64,string}, any (incl. []byte, func, nil), struct{}, *int: fill / rotate / overflow / expand / recap / drain, elements identical and in order, zero value on failure", fails
}
