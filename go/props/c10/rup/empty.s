// empty: allows the body-less go:linkname declaration in main.go
