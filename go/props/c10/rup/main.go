// Command rup exposes the private function ringz.roundupPowOfTwo of the tree under
// verification (pulled in with go:linkname) as a line filter: one uint32 per input line,
// one result per output line. It is built at run time by the C10 extra
// "syncring-cap-rounding"; if it does not build or link (function renamed, signature
// changed) that part of the extra is skipped and says so — the capacity search does not
// depend on it.
package main

import (
	"bufio"
	"fmt"
	"os"
	"strconv"
	_ "unsafe"

	_ "github.com/welllog/golib/ringz"
)

//go:linkname roundupPowOfTwo github.com/welllog/golib/ringz.roundupPowOfTwo
func roundupPowOfTwo(x uint32) uint32

func main() {
	sc := bufio.NewScanner(os.Stdin)
	w := bufio.NewWriter(os.Stdout)
	defer w.Flush()
	for sc.Scan() {
		v, err := strconv.ParseUint(sc.Text(), 10, 32)
		if err != nil {
			fmt.Fprintln(w, "bad-op")
			continue
		}
		fmt.Fprintln(w, roundupPowOfTwo(uint32(v)))
	}
}
