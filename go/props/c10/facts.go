package c10

import (
	"fmt"
	"go/ast"
	"go/parser"
	"go/token"
	"path/filepath"
	"strings"
)

// facts regenerates lean/Golib/Gen/FactsC10.lean from ringz/sync.go: the shared-memory
// accesses of SyncRing.Push, Pop, Len, IsEmpty, IsFull in SOURCE ORDER, in the vocabulary
// of C01's per-access machine (Golib.C01.SrcOp). Props/C10.lean proves that C10's
// one-step sequential model is that machine run by one thread (c10_sync_is_c01_single_thread)
// and that the machine's accesses are these (c10_sync_source_order), so a reordering of
// the accesses in the source breaks C10's Lean stage too. (Same extraction as C01's facts,
// kept separate so that a C10 run never depends on a stale C01 file.)
func facts(repo string) (string, error) {
	fset := token.NewFileSet()
	f, err := parser.ParseFile(fset, filepath.Join(repo, "ringz", "sync.go"), nil, 0)
	if err != nil {
		return "", err
	}
	names := []string{"Push", "Pop", "Len", "IsEmpty", "IsFull"}
	got := map[string][]string{}
	for _, d := range f.Decls {
		fd, ok := d.(*ast.FuncDecl)
		if !ok || fd.Recv == nil || fd.Body == nil || !strings.Contains(fexpr(fd.Recv.List[0].Type), "SyncRing") {
			continue
		}
		for _, n := range names {
			if fd.Name.Name == n {
				got[n] = faccesses(fd.Body)
			}
		}
	}
	var b strings.Builder
	b.WriteString("-- generated on every run by go/props/c10 (Facts) from ringz/sync.go; do not edit\n")
	b.WriteString("import Golib.Model.C01Ring\n\nnamespace Golib.Gen.C10\nopen Golib.C01\n\n")
	for _, name := range names {
		ops, ok := got[name]
		if !ok {
			return "", fmt.Errorf("method SyncRing.%s not found", name)
		}
		lname := strings.ToLower(name[:1]) + name[1:]
		fmt.Fprintf(&b, "/-- shared-memory accesses of `%s` in source order -/\ndef %sOps : List SrcOp :=\n  [%s]\n\n", name, lname, strings.Join(ops, ", "))
	}
	b.WriteString("end Golib.Gen.C10\n")
	return b.String(), nil
}

func fexpr(e ast.Expr) string {
	switch x := e.(type) {
	case *ast.Ident:
		return x.Name
	case *ast.StarExpr:
		return "*" + fexpr(x.X)
	case *ast.IndexExpr:
		return fexpr(x.X) + "[" + fexpr(x.Index) + "]"
	case *ast.SelectorExpr:
		return fexpr(x.X) + "." + x.Sel.Name
	case *ast.UnaryExpr:
		return x.Op.String() + fexpr(x.X)
	case *ast.BinaryExpr:
		return fexpr(x.X) + x.Op.String() + fexpr(x.Y)
	case *ast.BasicLit:
		return x.Value
	case *ast.ParenExpr:
		return fexpr(x.X)
	}
	return "?"
}

func faddr(e ast.Expr) string {
	if u, ok := e.(*ast.UnaryExpr); ok && u.Op == token.AND {
		if s, ok := u.X.(*ast.SelectorExpr); ok {
			return s.Sel.Name
		}
	}
	return "?"
}

func faccesses(body *ast.BlockStmt) []string {
	var ops []string
	other := func(s string) { ops = append(ops, fmt.Sprintf(".other %q", s)) }
	writes := map[*ast.SelectorExpr]string{}
	ast.Inspect(body, func(n ast.Node) bool {
		switch x := n.(type) {
		case *ast.AssignStmt:
			for i, l := range x.Lhs {
				if s, ok := l.(*ast.SelectorExpr); ok && s.Sel.Name == "value" {
					rhs := "?"
					if i < len(x.Rhs) {
						rhs = fexpr(x.Rhs[i])
					}
					writes[s] = rhs
				}
			}
		case *ast.CallExpr:
			sel, ok := x.Fun.(*ast.SelectorExpr)
			if !ok {
				return true
			}
			pkg, _ := sel.X.(*ast.Ident)
			if pkg == nil || pkg.Name != "atomic" {
				return true
			}
			fld := "?"
			if len(x.Args) > 0 {
				fld = faddr(x.Args[0])
			}
			key := sel.Sel.Name + " " + fld
			switch key {
			case "LoadUint32 tail":
				ops = append(ops, ".loadTail")
			case "LoadUint32 head":
				ops = append(ops, ".loadHead")
			case "LoadUint32 pos":
				ops = append(ops, ".loadSeq")
			case "CompareAndSwapUint32 tail", "CompareAndSwapUint32 head":
				if len(x.Args) == 3 && fexpr(x.Args[2]) == fexpr(x.Args[1])+"+1" {
					if fld == "tail" {
						ops = append(ops, ".casTail")
					} else {
						ops = append(ops, ".casHead")
					}
				} else {
					other(key + " with unexpected operands")
				}
			case "StoreUint32 pos":
				v := "?"
				if len(x.Args) == 2 {
					v = fexpr(x.Args[1])
				}
				switch v {
				case "seq+1":
					ops = append(ops, ".storeSeqPlus1")
				case "seq+r.mask":
					ops = append(ops, ".storeSeqPlusMask")
				default:
					other("StoreUint32 pos " + v)
				}
			default:
				other(key)
			}
		case *ast.SelectorExpr:
			if x.Sel.Name == "value" {
				if rhs, isW := writes[x]; isW {
					if rhs == "zero" {
						ops = append(ops, ".clearVal")
					} else {
						ops = append(ops, ".writeVal")
					}
				} else {
					ops = append(ops, ".readVal")
				}
			}
		}
		return true
	})
	return ops
}
