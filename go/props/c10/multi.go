package c10

import (
	"fmt"
	"math"
	"strconv"

	"github.com/welllog/golib/ringz"

	"verifharness/internal/core"
)

// Case kind "ringM" (several objects, one package): 2..4 INDEPENDENT Ring[int] values
// (separate New calls, never copied) of the same size classes (512 … 4096), used
// alternately on one goroutine with bulk fill/drain/xfill, Recap and Init on each; every
// ring is judged against its OWN FIFO model (the lines of ring i form a `ringL` case of
// their own). Package-level state shared between rings (scratch buffers, pools) shows up
// as one ring's content changing when another ring is used.

func isMulti(c core.Case) bool {
	h := core.Toks(c.Lines[0])
	return len(h) >= 3 && h[2] == "ringM"
}

func implMulti(c core.Case) []string {
	var rs []ringz.Ring[int]
	return core.RunOps(c,
		func(hdr []string) string {
			if len(hdr) < 2 {
				return "bad-op"
			}
			for _, h := range hdr[1:] {
				v, err := strconv.Atoi(h)
				if err != nil || v <= 0 || v > 1<<20 {
					return "bad-op"
				}
				rs = append(rs, ringz.New[int](v))
			}
			return "ok"
		},
		func(t []string) string {
			if len(t) < 2 {
				return "bad-op"
			}
			i, err := strconv.Atoi(t[0])
			if err != nil || i < 0 || i >= len(rs) {
				return "bad-op"
			}
			return largeOp(&rs[i], t[1:])
		})
}

// checkMulti: project the case onto each ring and judge the projection as a `ringL` case.
func checkMulti(c core.Case, out []string) *core.Failure {
	hdr := core.Toks(c.Lines[0])
	if out[0] != "ok" {
		return nil
	}
	for i := range hdr[3:] {
		pc := core.Case{Lines: []string{"@ C10 ringL " + hdr[3+i]}}
		po := []string{"ok"}
		var at []int
		for li := 1; li < len(c.Lines); li++ {
			t := core.Toks(c.Lines[li])
			if len(t) >= 2 && t[0] == strconv.Itoa(i) {
				l := c.Lines[li][len(t[0])+1:]
				pc.Lines = append(pc.Lines, l)
				po = append(po, out[li])
				at = append(at, li)
			}
		}
		if f := checkLarge(pc, po); f != nil {
			f.Key = "ring-objects-independent"
			f.Desc = fmt.Sprintf("ring %d of %d independent rings (capacities %v), judged on its own lines only: %s", i, len(hdr)-3, hdr[3:], f.Desc)
			return f
		}
	}
	return nil
}

func genMulti(r *core.Rand, tier string) core.Case {
	n := r.Range(2, 4)
	classes := [][]int{{1024, 1024, 1024, 1024}, {1024, 1024, 2048, 2048}, {512, 512, 1024, 1024}, {2048, 2048, 2048, 4096}, {4096, 4096, 1000, 1500}, {16, 17, 32, 33}, {1023, 1024, 1025, 2047}}
	cl := classes[r.Intn(len(classes))]
	hdr := "@ C10 ringM"
	caps := make([]int, n)
	held := make([]int, n)
	for i := range caps {
		caps[i] = cl[r.Intn(len(cl))]
		hdr += fmt.Sprintf(" %d", caps[i])
	}
	lines := []string{hdr}
	next := 1
	add := func(i int, format string, a ...any) {
		lines = append(lines, fmt.Sprintf("%d ", i)+fmt.Sprintf(format, a...))
	}
	grow := func(i, k int) {
		for ; k > 0; k-- {
			if held[i] == caps[i] {
				caps[i] *= 2
			}
			held[i]++
		}
	}
	for round := r.Range(1, 3); round > 0; round-- {
		order := r.Intn(n)
		for k := 0; k < n; k++ { // every ring: fill, rotate, refill to full
			i := (order + k) % n
			f := caps[i] - held[i]
			add(i, "fill %d %d", f, next)
			next += f
			held[i] = caps[i]
			d := r.Range(1, caps[i])
			add(i, "drain %d", d)
			add(i, "fill %d %d", d, next)
			next += d
		}
		for k := 0; k < n; k++ { // every ring grows (the same size class for equal capacities), one after the other
			i := (order + k) % n
			switch r.Pick(70, 15, 15) {
			case 0:
				x := []int{1, 2, 3, caps[i] / 2}[r.Intn(4)]
				add(i, "xfill %d %d", x, next)
				add(i, "cap")
				next += x
				grow(i, x)
			case 1:
				tg := []int{caps[i] * 2, caps[i] + 1, held[i], 1024, 2048}[r.Intn(5)]
				add(i, "recap %d", tg)
				if tg > 0 && tg != caps[i] && tg >= held[i] {
					caps[i] = tg
				}
			case 2:
				c := cl[r.Intn(len(cl))]
				add(i, "init %d", c)
				caps[i], held[i] = c, 0
				add(i, "fill %d %d", c/2, next)
				next += c / 2
				held[i] = c / 2
			}
			if r.Chance(40) { // look at ANOTHER ring right after
				j := (i + 1) % n
				add(j, "len")
				add(j, "peek")
			}
		}
		for k := 0; k < n; k++ { // everything comes out of every ring, in order
			i := (order + n - 1 - k) % n
			if round == 1 || r.Bool() {
				add(i, "drain %d", held[i]+1)
				add(i, "isempty")
				held[i] = 0
			} else {
				d := r.Range(0, held[i])
				add(i, "drain %d", d)
				held[i] -= d
			}
		}
	}
	return core.Case{Lines: lines, Tag: "multi"}
}

func classifyMulti(c core.Case, out []string) []string {
	ls := []string{"multi-rings"}
	grown := map[string]bool{}
	for i, l := range c.Lines[1:] {
		t := core.Toks(l)
		if len(t) >= 2 && t[1] == "xfill" {
			grown[t[0]] = true
		}
		if out[i+1] == "panic" {
			ls = append(ls, "multi-panic")
		}
	}
	if len(grown) >= 2 {
		ls = append(ls, "multi-two-rings-grew")
	}
	return ls
}

// ---- zero-size element types (type parameters): Ring[struct{}] ("ringZ"), Ring[[0]int] ("ringA").
// No memory is needed whatever the capacity, so capacities up to math.MaxInt are real:
// the int arithmetic of Len/IsFull/Push/Pop runs at magnitudes where a careless
// expression overflows. Values are all equal (printed 0); only single operations and
// `drain n`.

func zKind(c core.Case) string {
	h := core.Toks(c.Lines[0])
	if len(h) >= 3 && (h[2] == "ringZ" || h[2] == "ringA") {
		return h[2]
	}
	return ""
}

func implZ(c core.Case) []string {
	if zKind(c) == "ringZ" {
		return implZT[struct{}](c)
	}
	return implZT[[0]int](c)
}

func implZT[T any](c core.Case) []string {
	var r ringz.Ring[T]
	var zero T
	return core.RunOps(c,
		func(hdr []string) string {
			if len(hdr) != 2 {
				return "bad-op"
			}
			n, err := strconv.Atoi(hdr[1])
			if err != nil || n <= 0 {
				return "bad-op"
			}
			r = ringz.New[T](n)
			return "ok"
		},
		func(t []string) string {
			arg := 0
			if len(t) == 2 {
				v, err := strconv.Atoi(t[1])
				if err != nil {
					return "bad-op"
				}
				arg = v
			}
			b := func(ok bool) string { return "0 " + strconv.FormatBool(ok) }
			switch {
			case t[0] == "push" && len(t) == 2 && arg == 0:
				return strconv.FormatBool(r.Push(zero))
			case t[0] == "pushx" && len(t) == 2 && arg == 0:
				r.PushWithExpand(zero)
				return "ok"
			case t[0] == "pop" && len(t) == 1:
				_, ok := r.Pop()
				return b(ok)
			case t[0] == "peek" && len(t) == 1:
				_, ok := r.Peek()
				return b(ok)
			case t[0] == "drain" && len(t) == 2 && arg >= 0 && arg <= 1<<20:
				k := 0
				for i := 0; i < arg; i++ {
					if _, ok := r.Pop(); ok {
						k++
					}
				}
				return showDrained(make([]int, k))
			case t[0] == "init" && len(t) == 2 && arg > 0:
				r.Init(arg)
				return "ok"
			case t[0] == "recap" && len(t) == 2:
				return strconv.FormatBool(r.Recap(arg))
			case t[0] == "len" && len(t) == 1:
				return strconv.Itoa(r.Len())
			case t[0] == "cap" && len(t) == 1:
				return strconv.Itoa(r.Cap())
			case t[0] == "isempty" && len(t) == 1:
				return strconv.FormatBool(r.IsEmpty())
			case t[0] == "isfull" && len(t) == 1:
				return strconv.FormatBool(r.IsFull())
			}
			return "bad-op"
		})
}

func genZ(r *core.Rand, tier string) core.Case {
	huge := []int{math.MaxInt, math.MaxInt - 1, 1<<62 + 1, 1 << 62, 1<<62 - 1, 1 << 32, 1<<31 + 1, 3}
	cp := huge[r.Intn(len(huge))]
	kind := []string{"ringZ", "ringA"}[r.Intn(2)]
	lines := []string{fmt.Sprintf("@ C10 %s %d", kind, cp)}
	held := 0
	for k := r.Range(4, 14); k > 0; k-- {
		switch r.Pick(35, 12, 10, 10, 5, 5, 13, 5, 5) {
		case 0:
			lines = append(lines, "push 0")
			if held < cp {
				held++
			}
		case 1:
			lines = append(lines, "pop")
			if held > 0 {
				held--
			}
		case 2:
			lines = append(lines, "len")
		case 3:
			lines = append(lines, "isfull")
		case 4:
			lines = append(lines, "isempty")
		case 5:
			lines = append(lines, "cap")
		case 6:
			tg := []int{math.MaxInt, math.MaxInt - 1, 1<<62 + 1, 1 << 62, held, held + 1, held - 1, 2, cp, 1 << 40}[r.Intn(10)]
			lines = append(lines, fmt.Sprintf("recap %d", tg))
			if tg > 0 && tg != cp && tg >= held {
				cp = tg
			}
		case 7:
			lines = append(lines, "peek")
		case 8:
			if held < cp { // never on a full ring: cap*2 at these magnitudes needs 2^62 pushes first
				lines = append(lines, "pushx 0")
				held++
			}
		}
	}
	lines = append(lines, "len", fmt.Sprintf("drain %d", held+1), "isempty")
	return core.Case{Lines: lines, Tag: "zero-size"}
}
