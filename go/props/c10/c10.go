// Package c10: Ring / SyncRing are bounded FIFOs sequentially (ringz/ring.go, ringz/sync.go).
package c10

import (
	"fmt"
	"strconv"

	"github.com/welllog/golib/ringz"

	"verifharness/internal/core"
)

func init() {
	core.Register(&core.Prop{
		ID:       "C10",
		Title:    "Ring/SyncRing are bounded FIFOs sequentially, across growth and counter wrap",
		Quick:    20000,
		Thorough: 1000000,
		Gen:      genBoth,
		Corpus:   corpusBoth,
		Impl:     implBoth,
		Check:    checkBoth,
		Facts:    facts,
		Extras: []core.Extra{
			{Name: "syncring-honest-wrap", Run: extraHonestWrap, Tiers: []string{"thorough"}},
			{Name: "syncring-cap-rounding", Run: extraCapRounding},
			{Name: "syncring-timed-wait", Run: extraTimedWait},
			{Name: "ring-type-matrix", Run: extraTypeMatrix},
		},
		NonTrivial: func(c core.Case, out []string) bool {
			if isCap(c) {
				return len(c.Lines) > 3
			}
			if isLarge(c) {
				return len(c.Lines) > 5
			}
			if copyKind(c) != "" {
				return len(c.Lines) > 6
			}
			if isMulti(c) || zKind(c) != "" {
				return len(c.Lines) > 5
			}
			if isSync(c) {
				return syncNonTrivial(c, out)
			}
			// at least one successful push while the ring content is wrapped or a recap happened
			n := 0
			for i, l := range c.Lines[1:] {
				t := core.Toks(l)
				if (t[0] == "recap" && out[i+1] == "true") || t[0] == "pushx" {
					n++
				}
			}
			return n > 0 && len(c.Lines) > 4
		},
		Rule: "ring: op sequences (push/pop/peek/len/cap/isempty/isfull/recap/pushx) on Ring[int] of requested capacity -1..6 (1% on the never-initialised zero value, tie only), values distinct counters; non-trivial = at least one successful Recap or a PushWithExpand in a sequence of ≥ 4 ops. " +
			"sync: op sequences (push/pop/len/cap/isempty/isfull/dump, PushWait/PopWait with maxWait 0, 1..3 ms and -1) on SyncRing[int] of requested capacity 1..9 (plus <= 0 and > 2^31), usually after warping the fresh ring's counters to k around 2^32-{0..3cap}, 2^32+j, 2^33±j (reflect+unsafe, proved equal to k honest push/pop pairs); non-trivial = at least two successful pushes. ringL (large stream): Ring[int] of capacity 16..5000 (thresholds 16/17 … 1024/1025, 4096/4097; to 70000 in thorough) driven by bulk ops fill/drain/xfill with the head rotated into every quarter, PushWithExpand repeatedly, Recap up and down. ringC/syncC (copy stream): 2..3 Ring / SyncRing values, struct assignment `copy i j`, then Init (smaller/equal/larger) / Recap / nothing on one copy and operations alternating on both, judged per object against separate FIFO models while the object shares no written backing array. ringM (several objects): 2..4 independent Ring[int] of the same size classes (512..4096) used alternately, each growing/recapping/re-initialising, each judged on its own lines. ringZ/ringA (type parameters): Ring[struct{}] / Ring[[0]int] at capacities MaxInt, MaxInt-1, 2^62±1, 2^32 … with push/pop/len/isfull/recap. synccap: 3..9 independent NewSync[struct{}](n).Cap() calls, n among 2^k, 2^k±1, 2^k±2, 3·2^(k-1) (k <= 22), log-uniform random, <= 0, > 2^31. Distinct by hash of the op list",
		Classify: classifyBoth,
		Parallel: true,
		Assumptions: []string{
			"Go int treated as unbounded for Ring (no capacity near 2^63)",
			"SyncRing is modelled for ONE goroutine: every CompareAndSwap on head/tail succeeds (concurrent behaviour is property C01)",
			"SyncRing capacities in (2^20, 2^31] are proved about but not executed (the backing array does not fit in memory)",
			"PushWait/PopWait: the ticker/clock is an input of the model (a 10 ms ticker that eventually reaches maxWait); a negative wait on a full/empty ring never returns with one goroutine (proved) and is therefore not executed: the harness answers would-block from its own count of successful pushes and pops (a call that does not return within 2 s although the count says it must is answered hang, and the spinner is released)",
		},
	})
}

func corpus() []core.Case {
	return []core.Case{
		{Lines: []string{"@ C10 ring 0", "push 1"}},
		{Lines: []string{"@ C10 ring -3"}},
		{Lines: []string{"@ C10 ring 3", "push 1", "push 2", "push 3", "pop", "push 4", "recap 5", "pop", "pop", "pop", "pop"}},
		{Lines: []string{"@ C10 ring 2", "push 1", "push 2", "pop", "push 3", "pushx 4", "pushx 5", "len", "cap", "pop", "pop", "pop", "pop", "pop"}},
		// the zero value (no Init): outside the property; the model is tied to what the code does
		{Lines: []string{"@ C10 ring zero", "isempty", "len", "cap", "recap 0", "recap -2", "isfull"}},
		{Lines: []string{"@ C10 ring zero", "push 1"}},
		{Lines: []string{"@ C10 ring zero", "pushx 1"}},
		{Lines: []string{"@ C10 ring zero", "pop"}},
		{Lines: []string{"@ C10 ring zero", "peek"}},
		{Lines: []string{"@ C10 ring zero", "recap 3"}},
		{Lines: []string{"@ C10 ring 1", "push 1", "isfull", "push 2", "pop", "isempty", "pushx 7", "pushx 8", "cap", "pop", "pop"}},
	}
}

func gen(r *core.Rand, tier string) core.Case {
	cap := r.Range(1, 6)
	if r.Chance(3) {
		cap = r.Range(-1, 0)
	}
	lines := []string{fmt.Sprintf("@ C10 ring %d", cap)}
	if r.Chance(2) {
		lines[0] = "@ C10 ring zero" // var r Ring[int] without Init
		if r.Bool() {
			// c10_ring_zero_histories: benign calls leave the zero value alone, the first Init makes it
			// an ordinary ring (the rest of the case is then a FIFO history)
			for k := r.Range(0, 4); k > 0; k-- {
				lines = append(lines, []string{"len", "cap", "isempty", "recap 0", "recap -3"}[r.Intn(5)])
			}
			lines = append(lines, fmt.Sprintf("init %d", r.Range(1, 6)))
		}
	}
	n := r.Range(1, 40)
	next := 1
	for i := 0; i < n; i++ {
		if r.Chance(2) { // history: Init again on a used ring
			c := r.Range(1, 6)
			if r.Chance(10) {
				c = r.Range(-1, 0)
			}
			lines = append(lines, fmt.Sprintf("init %d", c))
			continue
		}
		switch r.Pick(30, 22, 5, 6, 3, 3, 3, 14, 8) {
		case 0:
			lines = append(lines, fmt.Sprintf("push %d", next))
			next++
		case 1:
			lines = append(lines, "pop")
		case 2:
			lines = append(lines, "peek")
		case 3:
			lines = append(lines, "len")
		case 4:
			lines = append(lines, "cap")
		case 5:
			lines = append(lines, "isempty")
		case 6:
			lines = append(lines, "isfull")
		case 7:
			lines = append(lines, fmt.Sprintf("recap %d", r.Range(-1, 9)))
		case 8:
			lines = append(lines, fmt.Sprintf("pushx %d", next))
			next++
		}
	}
	return core.Case{Lines: lines, Tag: "ring"}
}

func impl(c core.Case) []string {
	var r ringz.Ring[int]
	return core.RunOps(c,
		func(hdr []string) string {
			if len(hdr) != 2 || hdr[0] != "ring" {
				return "bad-op"
			}
			if hdr[1] == "zero" {
				return "ok" // the zero value, never initialised
			}
			n, err := strconv.Atoi(hdr[1])
			if err != nil {
				return "bad-op"
			}
			r = ringz.New[int](n)
			return "ok"
		},
		func(t []string) string { return ringOp(&r, t) })
}

// ringOp: one single operation of the line protocol on a Ring[int].
func ringOp(r *ringz.Ring[int], t []string) string {
	arg := 0
	if len(t) == 2 {
		v, err := strconv.Atoi(t[1])
		if err != nil {
			return "bad-op"
		}
		arg = v
	}
	switch t[0] {
	case "init": // Init on the existing ring: "initializes or clears the ring"
		if len(t) != 2 {
			return "bad-op"
		}
		r.Init(arg)
		return "ok"
	case "push":
		return strconv.FormatBool(r.Push(arg))
	case "pushx":
		r.PushWithExpand(arg)
		return "ok"
	case "recap":
		return strconv.FormatBool(r.Recap(arg))
	case "pop":
		v, ok := r.Pop()
		return fmt.Sprintf("%d %v", v, ok)
	case "peek":
		v, ok := r.Peek()
		return fmt.Sprintf("%d %v", v, ok)
	case "len":
		return strconv.Itoa(r.Len())
	case "cap":
		return strconv.Itoa(r.Cap())
	case "isempty":
		return strconv.FormatBool(r.IsEmpty())
	case "isfull":
		return strconv.FormatBool(r.IsFull())
	}
	return "bad-op"
}

// check is the property's own predicate, evaluated on the implementation's outputs
// against a plain slice queue (independent of the Lean model).
func check(c core.Case, out []string) *core.Failure {
	hdr := core.Toks(c.Lines[0])
	if hdr[3] == "zero" {
		// no capacity was requested: outside the property (model tie only) — until the first
		// Init(c > 0), from which on the lines are judged as a case of their own
		for i := 1; i < len(c.Lines); i++ {
			t := core.Toks(c.Lines[i])
			if t[0] == "init" && len(t) == 2 && out[i] == "ok" {
				if n, err := strconv.Atoi(t[1]); err == nil && n > 0 {
					sub := core.Case{Lines: append([]string{"@ C10 ring " + t[1]}, c.Lines[i+1:]...)}
					return check(sub, append([]string{"ok"}, out[i+1:]...))
				}
			}
			if out[i] == "panic" {
				return nil
			}
		}
		return nil
	}
	capacity, _ := strconv.Atoi(hdr[3])
	if capacity <= 0 {
		if out[0] != "panic" {
			return &core.Failure{Key: "ring-init-nonpositive", Desc: "New with cap<=0 did not panic (documented)"}
		}
		return nil
	}
	var q []int
	fail := func(i int, want string) *core.Failure {
		return &core.Failure{Key: "ring-fifo", Desc: fmt.Sprintf("op %d %q: implementation answered %q, bounded FIFO of capacity %d holding %v answers %q", i, c.Lines[i], out[i], capacity, q, want)}
	}
	for i := 1; i < len(c.Lines); i++ {
		t := core.Toks(c.Lines[i])
		arg := 0
		if len(t) == 2 {
			arg, _ = strconv.Atoi(t[1])
		}
		var want string
		before, capBefore := append([]int{}, q...), capacity
		switch t[0] {
		case "init":
			if arg <= 0 {
				if out[i] != "panic" {
					return fail(i, "panic")
				}
				return nil
			}
			q, capacity, want = nil, arg, "ok"
		case "push":
			if len(q) < capacity {
				q = append(q, arg)
				want = "true"
			} else {
				want = "false"
			}
		case "pushx":
			if len(q) == capacity {
				capacity *= 2
			}
			q = append(q, arg)
			want = "ok"
		case "recap":
			if arg > 0 && arg != capacity && arg >= len(q) {
				capacity = arg
				want = "true"
			} else {
				want = "false"
			}
		case "pop":
			if len(q) == 0 {
				want = "0 false"
			} else {
				want = fmt.Sprintf("%d true", q[0])
				q = q[1:]
			}
		case "peek":
			if len(q) == 0 {
				want = "0 false"
			} else {
				want = fmt.Sprintf("%d true", q[0])
			}
		case "len":
			want = strconv.Itoa(len(q))
		case "cap":
			want = strconv.Itoa(capacity)
		case "isempty":
			want = strconv.FormatBool(len(q) == 0)
		case "isfull":
			want = strconv.FormatBool(len(q) == capacity)
		}
		if out[i] != want {
			q, capacity = before, capBefore
			return fail(i, want)
		}
	}
	return nil
}

func classify(c core.Case, out []string) []string {
	var ls []string
	for i, l := range c.Lines[1:] {
		t := core.Toks(l)
		switch {
		case t[0] == "init":
			ls = append(ls, "ring-reinit")
		case t[0] == "recap" && out[i+1] == "true":
			ls = append(ls, "recap-ok")
		case t[0] == "recap":
			ls = append(ls, "recap-rejected")
		case t[0] == "push" && out[i+1] == "false":
			ls = append(ls, "push-full")
		case t[0] == "pop" && out[i+1] == "0 false":
			ls = append(ls, "pop-empty")
		case out[i+1] == "panic":
			ls = append(ls, "panic")
		}
	}
	if core.Toks(c.Lines[0])[3] == "zero" {
		ls = append(ls, "ring-zero-value")
	}
	return ls
}
