package c10

import (
	"fmt"
	"reflect"
	"strconv"
	"strings"
	"time"
	"unsafe"

	"github.com/welllog/golib/ringz"

	"verifharness/internal/core"
)

// syncReinit: generate `init c` on USED SyncRings. SyncRing.Init does not reset head/tail
// (finding F16, witness `@ C10 sync 3 / push 2 / init 5 / len` → 1; fix:
// reviews/C10-fix-syncring-reinit.patch). The model (a re-initialised ring is a fresh ring)
// and the oracle are in place; the generator and the corpus case are switched on with
// this constant once the fix is committed or the finding is listed in KNOWN_FINDINGS
// (key syncring-reinit-stale-counters). Re-Init of an UNUSED ring and of Ring is always on.
const syncReinit = true

func isSync(c core.Case) bool {
	h := core.Toks(c.Lines[0])
	return len(h) >= 3 && h[2] == "sync"
}

func genBoth(r *core.Rand, tier string) core.Case {
	if r.Chance(4) {
		return genCap(r, tier)
	}
	if r.Chance(map[bool]int{false: 3, true: 12}[tier == "thorough"]) {
		return genLarge(r, tier)
	}
	if r.Chance(10) {
		return genCopy(r, tier)
	}
	if r.Chance(map[bool]int{false: 2, true: 8}[tier == "thorough"]) {
		return genMulti(r, tier)
	}
	if r.Chance(3) {
		return genZ(r, tier)
	}
	if r.Chance(45) {
		return genSync(r, tier)
	}
	return gen(r, tier)
}

func corpusBoth() []core.Case {
	cs := corpus()
	if syncReinit {
		cs = append(cs, core.Case{Lines: []string{"@ C10 sync 3", "push 1", "push 2", "pop", "init 5", "cap", "len", "dump", "warp 4294967295", "push 3", "push 4", "pop", "init 1", "cap", "pop", "push 5", "push 6", "push 7", "init 0", "len"}})
	}
	return append(cs,
		// F6: requested capacity above 2^31 (uint32 truncation / 1<<32 == 0): Cap()==0 and Push panics
		core.Case{Lines: []string{"@ C10 sync 2147483649", "cap", "push 1"}},
		core.Case{Lines: []string{"@ C10 sync 4294967296", "cap", "push 1"}},
		core.Case{Lines: []string{"@ C10 sync 4294967299", "cap", "push 1", "push 2", "push 3", "push 4", "push 5"}},
		core.Case{Lines: []string{"@ C10 sync 0", "push 1"}},
		core.Case{Lines: []string{"@ C10 sync 1", "cap", "push 1", "push 2", "push 3", "pop", "pop", "pop"}},
		core.Case{Lines: []string{"@ C10 sync 3", "warp 4294967294", "dump", "push 1", "push 2", "push 3", "push 4", "push 5", "len", "isfull", "dump", "pop", "pop", "pop", "pop", "pop", "isempty", "dump"}},
		core.Case{Lines: []string{"@ C10 sync 2", "warp 4294967295", "push 1", "pop", "push 2", "push 3", "push 4", "len", "pop", "pop", "pop", "warp 1"}},
		core.Case{Lines: []string{"@ C10 sync 8", "warp 8589934590", "dump", "push 1", "push 2", "push 3", "dump", "pop", "len", "cap"}},
		core.Case{Lines: []string{"@ C10 sync 5", "push 1", "pop", "warp 7", "dump"}},
		// Init twice with additions in between
		core.Case{Lines: []string{"@ C10 sync 3", "init 5", "cap", "len", "warp 4294967295", "push 3", "push 4", "pop", "pop", "dump"}},
		core.Case{Lines: []string{"@ C10 ring 3", "push 1", "push 2", "pop", "push 3", "push 4", "init 2", "len", "cap", "isempty", "pop", "push 5", "push 6", "push 7", "pop", "init 0", "len"}},
		// capacity rounding beyond 2^16 (a roundupPowOfTwo that smears only 16 bits is wrong from 2^17+1 on)
		core.Case{Lines: []string{"@ C10 synccap", "cap 1", "cap 2", "cap 3", "cap 65537", "cap 131072", "cap 131073", "cap 196608", "cap 1048577", "cap 3145728", "cap 4194303", "cap 0", "cap 2147483649"}},
		// zero-size element types at capacities near math.MaxInt (int arithmetic of Len / IsFull)
		core.Case{Lines: []string{"@ C10 ringZ 9223372036854775807", "push 0", "push 0", "len", "isfull", "isempty", "pop", "len", "push 0", "push 0", "len", "recap 2", "recap 3", "cap", "isfull", "drain 5", "isempty"}, Tag: "zero-size"},
		core.Case{Lines: []string{"@ C10 ringA 3", "push 0", "recap 9223372036854775807", "cap", "push 0", "push 0", "len", "isfull", "pop", "pop", "len", "recap 4611686018427387905", "len", "drain 9"}, Tag: "zero-size"},
		core.Case{Lines: []string{"@ C10 ringZ 4611686018427387903", "push 0", "push 0", "push 0", "pop", "len", "isfull", "recap 9223372036854775806", "len", "cap"}, Tag: "zero-size"},
		// several independent rings of one size class growing one after the other
		core.Case{Lines: []string{"@ C10 ringM 1024 1024", "0 fill 1024 1", "0 drain 300", "0 fill 300 5000", "0 xfill 1 9000", "0 cap", "1 fill 1024 20000", "1 xfill 1 30000", "1 cap", "0 len", "0 drain 2000", "1 drain 2000", "0 isempty", "1 isempty"}, Tag: "multi"},
		core.Case{Lines: []string{"@ C10 ringM 2048 2048 2048", "0 fill 2048 1", "1 fill 2048 10000", "2 fill 2048 20000", "0 xfill 2 30000", "1 xfill 2 31000", "2 xfill 2 32000", "0 drain 3000", "1 drain 3000", "2 drain 3000"}, Tag: "multi"},
		// struct copies: b := a; a.Init(n) — both must be independent FIFOs afterwards
		core.Case{Lines: []string{"@ C10 syncC 4 2", "0 push 1", "0 push 2", "0 push 3", "0 pop", "copy 0 1", "0 init 4", "0 push 7", "0 push 8", "1 pop", "1 pop", "1 pop", "0 pop", "1 push 9", "0 len", "1 len", "0 dump", "1 dump"}, Tag: "copy"},
		core.Case{Lines: []string{"@ C10 syncC 8 2", "0 push 1", "0 push 2", "copy 0 1", "1 init 3", "1 push 5", "0 pop", "1 pop", "0 pop", "0 len", "1 len"}, Tag: "copy"},
		core.Case{Lines: []string{"@ C10 ringC 4 2", "0 push 1", "0 push 2", "0 push 3", "0 pop", "copy 0 1", "0 init 3", "0 push 7", "0 push 8", "1 pop", "1 pop", "1 pop", "0 pop", "1 push 9", "0 len", "1 len"}, Tag: "copy"},
		core.Case{Lines: []string{"@ C10 ringC 3 3", "0 push 1", "0 push 2", "copy 0 1", "1 recap 5", "1 push 3", "0 push 4", "0 pop", "1 pop", "0 pop", "1 pop", "1 pop", "copy 1 0", "0 pushx 5", "1 pop"}, Tag: "copy"},
		// large Ring: full ring of capacity 1024 rotated so that most of the content sits before head, then PushWithExpand
		core.Case{Lines: []string{"@ C10 ringL 1024", "fill 1024 1", "drain 600", "fill 600 2000", "xfill 1 5000", "cap", "len", "drain 2000", "isempty"}, Tag: "large"},
		core.Case{Lines: []string{"@ C10 ringL 4097", "fill 5000 1", "drain 4000", "fill 4000 9000", "recap 4096", "recap 4098", "xfill 3 20000", "cap", "len", "drain 9000"}, Tag: "large"},
		func() core.Case { c := bigRingCase(1<<21+1, "4294967294"); c.Lines[0] = "@ C10 syncS 2097153"; return c }(),
		bigRingCase(1<<17+1, ""),
		bigRingCase(3<<17, "4294967294"),
		// PushWait / PopWait in the three regimes of maxWait, across the 2^32 boundary
		core.Case{Lines: []string{"@ C10 sync 2", "warp 4294967295", "popw 0", "popw 2", "popwn", "pushw 1 0", "pushwn 2", "pushw 3 0", "pushw 3 2", "pushwn 3", "len", "popwn", "popw 0", "popw 1", "popw 1", "isempty", "dump"}},
		core.Case{Lines: []string{"@ C10 sync 1", "pushw 1 1", "pushw 2 1", "pushw 3 1", "popw 5", "pop", "pop"}},
	)
}

func genSync(r *core.Rand, tier string) core.Case {
	req := r.Range(1, 9)
	switch {
	case r.Chance(3):
		req = r.Range(-2, 0)
	case r.Chance(3):
		req = []int{1<<31 + 1, 1<<32 - 1, 1 << 32, 1<<32 + 3, 1<<33 + 5, 1 << 62, 1<<31 + 1<<30}[r.Intn(7)]
	}
	c := 2
	for c < req {
		c *= 2
	}
	lines := []string{fmt.Sprintf("@ C10 sync %d", req)}
	if r.Chance(75) {
		var k uint64
		switch r.Pick(40, 15, 15, 10, 10, 10) {
		case 0:
			k = 1<<32 - uint64(r.Range(0, 3*c))
		case 1:
			k = 1<<32 + uint64(r.Range(0, 2*c))
		case 2:
			k = 1<<33 + uint64(r.Range(0, 3*c)) - uint64(r.Range(0, 3*c))
		case 3:
			k = 1<<31 + uint64(r.Range(0, 2*c)) - uint64(r.Range(0, 2*c))
		case 4:
			k = uint64(r.Range(0, 40))
		case 5:
			k = r.Uint64() >> uint(r.Range(20, 40))
		}
		lines = append(lines, fmt.Sprintf("warp %d", k))
	}
	n := r.Range(3, 60)
	next := 1
	waits := r.Chance(12) // cases that use PushWait/PopWait instead of some Push/Pop calls
	slow := 0            // waits with a positive maxWait cost >= 10 ms each when they fail: at most 2 per case
	wait := func() string {
		switch r.Pick(55, 25, 20) {
		case 0:
			return "0"
		case 1:
			if slow < 2 {
				slow++
				return strconv.Itoa(r.Range(1, 3))
			}
			return "0"
		}
		return "-1"
	}
	// phases make the ring fill up and drain (a uniform mix hovers around empty)
	pushW, popW := 40, 30
	for i := 0; i < n; i++ {
		if i%10 == 0 {
			if r.Bool() {
				pushW, popW = 55, 15
			} else {
				pushW, popW = 20, 50
			}
		}
		if syncReinit && r.Chance(1) { // history: Init again on a used ring (fresh again: warp allowed)
			c := r.Range(1, 9)
			if r.Chance(8) {
				c = 0
			}
			lines = append(lines, fmt.Sprintf("init %d", c))
			continue
		}
		switch r.Pick(pushW, popW, 8, 3, 6, 6, 5, 1) {
		case 0:
			if w := wait(); waits && r.Chance(60) {
				if w == "-1" {
					lines = append(lines, fmt.Sprintf("pushwn %d", next))
				} else {
					lines = append(lines, fmt.Sprintf("pushw %d %s", next, w))
				}
			} else {
				lines = append(lines, fmt.Sprintf("push %d", next))
			}
			next++
		case 1:
			if w := wait(); waits && r.Chance(60) {
				if w == "-1" {
					lines = append(lines, "popwn")
				} else {
					lines = append(lines, "popw "+w)
				}
			} else {
				lines = append(lines, "pop")
			}
		case 2:
			lines = append(lines, "len")
		case 3:
			lines = append(lines, "cap")
		case 4:
			lines = append(lines, "isempty")
		case 5:
			lines = append(lines, "isfull")
		case 6:
			lines = append(lines, "dump")
		case 7:
			lines = append(lines, fmt.Sprintf("warp %d", r.Range(0, 9)))
		}
	}
	return core.Case{Lines: lines, Tag: "sync"}
}

func implBoth(c core.Case) []string {
	if isMulti(c) {
		return implMulti(c)
	}
	if zKind(c) != "" {
		return implZ(c)
	}
	if isSyncSpec(c) {
		return implSyncSpec(c)
	}
	if copyKind(c) != "" {
		return implCopy(c)
	}
	if isLarge(c) {
		return implLarge(c)
	}
	if isCap(c) {
		return implCap(c)
	}
	if isSync(c) {
		return implSync(c)
	}
	return impl(c)
}

func checkBoth(c core.Case, out []string) *core.Failure {
	if isMulti(c) {
		return checkMulti(c, out)
	}
	if zKind(c) != "" {
		return checkLarge(c, out)
	}
	if isSyncSpec(c) {
		sc := core.Case{Lines: append([]string{strings.Replace(c.Lines[0], "syncS", "sync", 1)}, c.Lines[1:]...)}
		return checkSyncMax(sc, out, 1<<24)
	}
	if copyKind(c) != "" {
		return checkCopy(c, out)
	}
	if isLarge(c) {
		return checkLarge(c, out)
	}
	if isCap(c) {
		return checkCap(c, out)
	}
	if isSync(c) {
		return checkSync(c, out)
	}
	return check(c, out)
}

func classifyBoth(c core.Case, out []string) []string {
	if isMulti(c) {
		return classifyMulti(c, out)
	}
	if zKind(c) != "" {
		hc, _ := strconv.Atoi(core.Toks(c.Lines[0])[3])
		if hc >= 1<<62 {
			return []string{"zero-size-elem", "zero-size-cap>=2^62"}
		}
		return []string{"zero-size-elem"}
	}
	if isSyncSpec(c) {
		return []string{"sync-spec-big"}
	}
	if copyKind(c) != "" {
		return classifyCopy(c, out)
	}
	if isLarge(c) {
		return classifyLarge(c, out)
	}
	if isCap(c) {
		return classifyCap(c, out)
	}
	if isSync(c) {
		return classifySync(c, out)
	}
	return classify(c, out)
}

// ---- reflection access to the private fields of SyncRing[int]

type syncFields struct {
	head, tail, cap, mask reflect.Value
	values               reflect.Value
	ok                   bool
}

func fieldsOf(r *ringz.SyncRing[int]) syncFields {
	v := reflect.ValueOf(r).Elem()
	f := syncFields{head: v.FieldByName("head"), tail: v.FieldByName("tail"), cap: v.FieldByName("cap"),
		mask: v.FieldByName("mask"), values: v.FieldByName("values")}
	f.ok = f.head.IsValid() && f.tail.IsValid() && f.cap.IsValid() && f.values.IsValid() &&
		f.head.Kind() == reflect.Uint32 && f.tail.Kind() == reflect.Uint32 && f.values.Kind() == reflect.Slice
	if f.ok && f.values.Len() > 0 {
		e := f.values.Index(0)
		f.ok = e.Kind() == reflect.Struct && e.FieldByName("pos").IsValid() && e.FieldByName("pos").Kind() == reflect.Uint32 &&
			e.FieldByName("value").IsValid()
	}
	return f
}

func setU32(v reflect.Value, x uint32) {
	reflect.NewAt(v.Type(), unsafe.Pointer(v.UnsafeAddr())).Elem().SetUint(uint64(x))
}

func (f syncFields) fresh() bool {
	if f.head.Uint() != 0 || f.tail.Uint() != 0 {
		return false
	}
	for i := 0; i < f.values.Len(); i++ {
		e := f.values.Index(i)
		if e.FieldByName("pos").Uint() != uint64(uint32(i)) || e.FieldByName("value").Int() != 0 {
			return false
		}
	}
	return true
}

// warp sets the counters of a fresh ring to the state k push/pop pairs produce: head =
// tail = k, and slot i holds the smallest position p >= k with p ≡ i (mod cap), all
// modulo 2^32.
func (f syncFields) warp(k uint64) {
	c := uint64(f.values.Len())
	setU32(f.head, uint32(k))
	setU32(f.tail, uint32(k))
	for i := uint64(0); i < c; i++ {
		d := (i + c - k%c) % c
		setU32(f.values.Index(int(i)).FieldByName("pos"), uint32(k+d))
	}
}

func (f syncFields) dump() string {
	var b strings.Builder
	fmt.Fprintf(&b, "h=%d t=%d", f.head.Uint(), f.tail.Uint())
	for i := 0; i < f.values.Len(); i++ {
		e := f.values.Index(i)
		fmt.Fprintf(&b, " %d:%d", e.FieldByName("pos").Uint(), e.FieldByName("value").Int())
	}
	if f.values.Len() == 0 {
		b.WriteString(" ")
	}
	return b.String()
}

func tooLargeToRun(n int) bool { return n > 1<<20 && n <= 1<<31 }

// callOrRelease runs a PushWait(-1)/PopWait(-1) that must return at its first attempt on
// its own goroutine. If it has not returned after 2 s (only possible when the code under
// test is wrong about full/empty) the spinner is released from this goroutine (release
// makes room / offers an element) so that it does not spin for the rest of the run; the
// answer is then "hang" and the case is dead. A panic in the call is re-raised here.
func callOrRelease(call func(), release func()) (returned bool) {
	done := make(chan any, 1)
	go func() {
		defer func() { done <- recover() }()
		call()
	}()
	select {
	case p := <-done:
		if p != nil {
			panic(p)
		}
		return true
	case <-time.After(2 * time.Second):
	}
	for i := 0; i < 200; i++ {
		release()
		select {
		case <-done:
			return false
		case <-time.After(5 * time.Millisecond):
		}
	}
	return false
}

func implSync(c core.Case) []string { return implSyncMax(c, 1<<20) }

// implSyncMax: requests in (max, 2^31] are not executed.
func implSyncMax(c core.Case, max int) []string {
	tooLargeToRun := func(n int) bool { return n > max && n <= 1<<31 }
	var r ringz.SyncRing[int]
	held := 0 // successful pushes minus successful pops, from the implementation's own answers
	capNow := func() int { return r.Cap() }
	hung := false
	return core.RunOps(c,
		func(hdr []string) string {
			if len(hdr) != 2 {
				return "bad-op"
			}
			n, err := strconv.Atoi(hdr[1])
			if err != nil || tooLargeToRun(n) {
				return "bad-op"
			}
			r = ringz.NewSync[int](n)
			return "ok"
		},
		func(t []string) string {
			if core.Toks(c.Lines[0])[3] != "" {
				if n, err := strconv.Atoi(core.Toks(c.Lines[0])[3]); err != nil || tooLargeToRun(n) {
					return "bad-op"
				}
			}
			if hung {
				return "dead"
			}
			switch {
			case len(t) == 2 && t[0] == "push":
				v, err := strconv.Atoi(t[1])
				if err != nil {
					return "bad-op"
				}
				ok := r.Push(v)
				if ok {
					held++
				}
				return strconv.FormatBool(ok)
			case len(t) == 2 && t[0] == "init":
				n, err := strconv.Atoi(t[1])
				if err != nil || tooLargeToRun(n) {
					return "bad-op"
				}
				r.Init(n)
				held = 0
				return "ok"
			case len(t) == 3 && t[0] == "pushw":
				v, err := strconv.Atoi(t[1])
				ms, err2 := strconv.Atoi(t[2])
				if err != nil || err2 != nil || ms < 0 {
					return "bad-op"
				}
				ok := r.PushWait(v, time.Duration(ms)*time.Millisecond)
				if ok {
					held++
				}
				return strconv.FormatBool(ok)
			case len(t) == 2 && t[0] == "popw":
				ms, err := strconv.Atoi(t[1])
				if err != nil || ms < 0 {
					return "bad-op"
				}
				v, ok := r.PopWait(time.Duration(ms) * time.Millisecond)
				if ok {
					held--
				}
				return fmt.Sprintf("%d %v", v, ok)
			case len(t) == 2 && t[0] == "pushwn":
				v, err := strconv.Atoi(t[1])
				if err != nil {
					return "bad-op"
				}
				if held >= capNow() {
					return "would-block" // PushWait(-1) on a full ring never returns with one goroutine
				}
				var ok bool
				if !callOrRelease(func() { ok = r.PushWait(v, -1) }, func() { r.Pop() }) {
					hung = true
					return "hang"
				}
				if ok {
					held++
				}
				return strconv.FormatBool(ok)
			case len(t) == 1 && t[0] == "popwn":
				if held <= 0 {
					return "would-block"
				}
				var v int
				var ok bool
				if !callOrRelease(func() { v, ok = r.PopWait(-1) }, func() { r.Push(0) }) {
					hung = true
					return "hang"
				}
				if ok {
					held--
				}
				return fmt.Sprintf("%d %v", v, ok)
			case len(t) == 2 && t[0] == "warp":
				k, err := strconv.ParseUint(t[1], 10, 64)
				if err != nil {
					return "bad-op"
				}
				f := fieldsOf(&r)
				if !f.ok {
					return "warp-unsupported"
				}
				if !f.fresh() {
					return "not-fresh"
				}
				f.warp(k)
				return "ok"
			case len(t) == 1 && t[0] == "dump":
				f := fieldsOf(&r)
				if !f.ok {
					return "dump-unsupported"
				}
				return f.dump()
			case len(t) == 1 && t[0] == "pop":
				v, ok := r.Pop()
				if ok {
					held--
				}
				return fmt.Sprintf("%d %v", v, ok)
			case len(t) == 1 && t[0] == "len":
				return strconv.Itoa(r.Len())
			case len(t) == 1 && t[0] == "cap":
				return strconv.Itoa(r.Cap())
			case len(t) == 1 && t[0] == "isempty":
				return strconv.FormatBool(r.IsEmpty())
			case len(t) == 1 && t[0] == "isfull":
				return strconv.FormatBool(r.IsFull())
			}
			return "bad-op"
		})
}

// checkSync: the property's own predicate against a plain slice queue whose capacity
// is the least power of two >= max(2, requested); warp must not be observable.
func checkSync(c core.Case, out []string) *core.Failure { return checkSyncMax(c, out, 1<<20) }

func checkSyncMax(c core.Case, out []string, max int) *core.Failure {
	tooLargeToRun := func(n int) bool { return n > max && n <= 1<<31 }
	hdr := core.Toks(c.Lines[0])
	if len(hdr) != 4 {
		return nil
	}
	req, err := strconv.Atoi(hdr[3])
	if err != nil || tooLargeToRun(req) {
		return nil
	}
	if req <= 0 {
		if out[0] != "panic" {
			return &core.Failure{Key: "syncring-init-nonpositive", Desc: "NewSync with cap<=0 did not panic (documented)"}
		}
		return nil
	}
	if req > 1<<31 {
		// no uint32 capacity can be the least power of two >= req: the only sound answer is
		// the documented invalid-capacity panic
		if out[0] != "panic" {
			det := ""
			for i := 1; i < len(c.Lines); i++ {
				det += fmt.Sprintf(" %s→%s", c.Lines[i], out[i])
			}
			return &core.Failure{Key: "syncring-init-overflow", Desc: fmt.Sprintf("NewSync(%d) was accepted although no uint32 capacity can hold the least power of two >= %d;%s", req, req, det)}
		}
		return nil
	}
	capacity := 2
	for capacity < req {
		capacity *= 2
	}
	if out[0] != "ok" {
		return &core.Failure{Key: "syncring-init", Desc: fmt.Sprintf("NewSync(%d) answered %q", req, out[0])}
	}
	var q []int
	var warped []string
	reinit := false
	for i := 1; i < len(c.Lines); i++ {
		t := core.Toks(c.Lines[i])
		arg := 0
		if len(t) >= 2 {
			arg, _ = strconv.Atoi(t[1])
		}
		var want string
		before := append([]int{}, q...)
		switch t[0] {
		case "init":
			if tooLargeToRun(arg) {
				continue
			}
			if arg <= 0 || arg > 1<<31 {
				if out[i] != "panic" {
					return &core.Failure{Key: "syncring-init-nonpositive", Desc: fmt.Sprintf("Init(%d) on a used ring answered %q, panic expected", arg, out[i])}
				}
				return nil
			}
			capacity = 2
			for capacity < arg {
				capacity *= 2
			}
			q, want = nil, "ok"
			reinit = true
		case "push", "pushw": // PushWait with maxWait >= 0 must answer as Push
			if len(t) < 2 {
				continue
			}
			if len(q) < capacity {
				q = append(q, arg)
				want = "true"
			} else {
				want = "false"
			}
		case "pushwn": // PushWait(-1): pushes when there is room, otherwise cannot return
			if len(q) < capacity {
				q = append(q, arg)
				want = "true"
			} else {
				want = "would-block"
			}
		case "pop", "popw":
			if len(q) == 0 {
				want = "0 false"
			} else {
				want = fmt.Sprintf("%d true", q[0])
				q = q[1:]
			}
		case "popwn":
			if len(q) == 0 {
				want = "would-block"
			} else {
				want = fmt.Sprintf("%d true", q[0])
				q = q[1:]
			}
		case "len":
			want = strconv.Itoa(len(q))
		case "cap":
			want = strconv.Itoa(capacity)
		case "isempty":
			want = strconv.FormatBool(len(q) == 0)
		case "isfull":
			want = strconv.FormatBool(len(q) == capacity)
		case "warp":
			if out[i] == "ok" {
				warped = append(warped, t[1])
			}
			continue
		default:
			continue
		}
		if out[i] != want && reinit {
			return &core.Failure{Key: "syncring-reinit-stale-counters", Desc: fmt.Sprintf("after Init on a used SyncRing, op %d %q: implementation answered %q, an empty bounded FIFO of capacity %d holding %v answers %q (Init does not reset head/tail)", i, c.Lines[i], out[i], capacity, before, want)}
		}
		if out[i] != want {
			return &core.Failure{Key: "syncring-fifo", Desc: fmt.Sprintf("op %d %q: implementation answered %q, bounded FIFO of capacity %d holding %v answers %q (counters advanced by %v push/pop pairs)", i, c.Lines[i], out[i], capacity, before, want, warped)}
		}
	}
	return nil
}

func syncNonTrivial(c core.Case, out []string) bool {
	n := 0
	for i, l := range c.Lines[1:] {
		if strings.HasPrefix(l, "push") && out[i+1] == "true" {
			n++
		}
	}
	return n >= 2
}

func classifySync(c core.Case, out []string) []string {
	ls := []string{}
	hdr := core.Toks(c.Lines[0])
	req, _ := strconv.Atoi(hdr[3])
	switch {
	case req > 1<<31:
		ls = append(ls, "sync-cap-above-2^31")
	case req <= 0:
		ls = append(ls, "sync-cap-nonpositive")
	case req&(req-1) == 0 && req > 1:
		ls = append(ls, "sync-cap-pow2")
	default:
		ls = append(ls, "sync-cap-rounded")
	}
	var k uint64
	warped := false
	succ := uint64(0) // successful pops since the warp: head = k + succ
	crossed := false
	for i, l := range c.Lines[1:] {
		t := core.Toks(l)
		o := out[i+1]
		if strings.HasPrefix(t[0], "pop") && strings.HasSuffix(o, " true") {
			succ++
			if warped && (k%(1<<32))+succ == 1<<32 && !crossed {
				crossed = true
				ls = append(ls, "head-wraps-2^32-during-ops")
			}
		}
		switch {
		case t[0] == "init":
			ls = append(ls, "sync-reinit")
			warped, succ = false, 0
		case t[0] == "warp" && o == "ok":
			k, _ = strconv.ParseUint(t[1], 10, 64)
			warped = true
			switch {
			case k < 1<<31:
				ls = append(ls, "warp-small")
			case k < 1<<32:
				ls = append(ls, "warp-below-2^32")
			case k < 1<<33:
				ls = append(ls, "warp-2^32..2^33")
			default:
				ls = append(ls, "warp-beyond-2^33")
			}
		case t[0] == "warp" && o == "not-fresh":
			ls = append(ls, "warp-not-fresh")
		case t[0] == "pushw" || t[0] == "popw":
			kind := "zero"
			if t[len(t)-1] != "0" {
				kind = "positive"
			}
			res := "ok"
			if strings.HasSuffix(o, "false") {
				res = "timeout"
			}
			ls = append(ls, "sync-"+t[0]+"-"+kind+"-"+res)
		case t[0] == "pushwn" || t[0] == "popwn":
			if o == "would-block" {
				ls = append(ls, "sync-"+t[0]+"-would-block")
			} else {
				ls = append(ls, "sync-"+t[0]+"-ok")
			}
		case t[0] == "push" && o == "false":
			ls = append(ls, "sync-push-full")
		case t[0] == "pop" && o == "0 false":
			ls = append(ls, "sync-pop-empty")
		case o == "panic":
			ls = append(ls, "sync-panic")
		}
	}
	return ls
}

// extraHonestWrap (thorough tier): more than 2^32 honest push/pop pairs on a real
// SyncRing[int], compared at checkpoints with the warp formula (so that `warp` is
// validated against the code itself and not only against the model), with FIFO checks
// while the 32-bit counters wrap, and with the Lean model's `warp`+`dump` at the end.
func extraHonestWrap(ctx *core.Ctx) (evals int, note string, fails []core.ExtraFailure) {
	defer func() {
		if p := recover(); p != nil {
			fails = append(fails, core.ExtraFailure{Failure: core.Failure{Key: "syncring-honest-wrap-panic", Desc: fmt.Sprintf("panic after %d operations: %v", evals, p)}, Payload: map[string]any{"panic": fmt.Sprint(p)}})
		}
	}()
	const capReq = 3 // rounds to 4
	r := ringz.NewSync[int](capReq)
	f := fieldsOf(&r)
	total := uint64(1<<32 + 1<<20)
	bad := func(k uint64, what string) {
		if len(fails) < 3 {
			fails = append(fails, core.ExtraFailure{Failure: core.Failure{Key: "syncring-fifo", Desc: fmt.Sprintf("after %d honest push/pop pairs on NewSync(%d): %s", k, capReq, what)}, Payload: map[string]any{"pairs": k, "cap": capReq}})
		}
	}
	checkpoints := 0
	for k := uint64(0); k < total; k++ {
		near := (k >= 1<<32-16 && k <= 1<<32+16) || k%(1<<28) == 0 || k == total-1
		if near {
			// state must equal warp(k) of a fresh ring
			if f.ok {
				fr := ringz.NewSync[int](capReq)
				ff := fieldsOf(&fr)
				ff.warp(k)
				if ff.dump() != f.dump() {
					bad(k, fmt.Sprintf("state %q differs from warp(%d) = %q", f.dump(), k, ff.dump()))
				}
				checkpoints++
			}
			// full FIFO exercise at this counter value: fill, overflow, drain, underflow
			c := r.Cap()
			for i := 0; i < c; i++ {
				if !r.Push(1000 + i) {
					bad(k, fmt.Sprintf("push %d of %d refused", i, c))
				}
			}
			if r.Push(-1) || !r.IsFull() || r.Len() != c {
				bad(k, "full ring accepted a push / IsFull false / Len wrong")
			}
			for i := 0; i < c; i++ {
				if v, ok := r.Pop(); !ok || v != 1000+i {
					bad(k, fmt.Sprintf("pop %d returned (%d,%v)", i, v, ok))
				}
			}
			if _, ok := r.Pop(); ok || !r.IsEmpty() || r.Len() != 0 {
				bad(k, "empty ring popped / IsEmpty false / Len wrong")
			}
			evals += 2*c + 8
			// the exercise advanced the counters by c pairs: account for them
			k += uint64(c)
			if k >= total {
				break
			}
		}
		if !r.Push(int(k)) {
			bad(k, "push refused on an empty ring")
			break
		}
		if v, ok := r.Pop(); !ok || v != int(k) {
			bad(k, fmt.Sprintf("pop returned (%d,%v), want (%d,true)", v, ok, int(k)))
			break
		}
	}
	evals += int(total / 1000) // counted in thousands to keep the evaluation counter meaningful
	// final state vs the Lean model
	if f.ok {
		h := f.head.Uint()
		_ = h
		cs := []core.Case{{Lines: []string{fmt.Sprintf("@ C10 sync %d", capReq), fmt.Sprintf("warp %d", total), "dump"}}}
		if outs, err := core.RunOracle(ctx.VerifDir, cs); err == nil {
			// the loop above performed exactly `total` pairs in all (exercise pairs included) or a few more
			got := f.dump()
			if outs[0][2] != got {
				// the exercise at the last checkpoint may overshoot `total` by up to cap pairs: recompute
				k := uint64(0)
				fmt.Sscanf(got, "h=%d", &k)
				full := total - total%(1<<32) + k
				if full < total {
					full += 1 << 32
				}
				cs[0].Lines[1] = fmt.Sprintf("warp %d", full)
				outs, err = core.RunOracle(ctx.VerifDir, cs)
				if err != nil || outs[0][2] != got {
					fails = append(fails, core.ExtraFailure{Failure: core.Failure{Key: "syncring-warp-model", Desc: fmt.Sprintf("state after %d honest pairs %q, Lean warp+dump %q", full, got, outs[0][2])}, Payload: map[string]any{"lines": cs[0].Lines}, NoInput: true})
				}
			}
		}
	}
	return evals, fmt.Sprintf("%d honest push/pop pairs on SyncRing[int] (cap 4), %d checkpoints compared with warp(k) and exercised fill/overflow/drain/underflow, incl. every k in 2^32±16", total, checkpoints), fails
}
