package c08

import (
	"bytes"
	"crypto/aes"
	"crypto/cipher"
	"fmt"

	"github.com/welllog/golib/cryptz"

	"verifharness/internal/core"
)

// ---------- generators

func genKey(r *core.Rand, validPct int) []byte {
	if r.Chance(validPct) {
		return r.Bytes([]int{16, 24, 32}[r.Intn(3)])
	}
	return r.Bytes([]int{0, 1, 8, 15, 17, 23, 25, 31, 33, 48, 64}[r.Intn(11)])
}

// plaintext lengths 0..80 biased to block boundaries
func genLen(r *core.Rand) int {
	switch r.Pick(3, 4, 4, 4) {
	case 0:
		return 0
	case 1:
		return 16 * r.Range(1, 5)
	case 2:
		n := 16*r.Range(0, 5) + []int{-1, 1, 15, -15}[r.Intn(4)]
		if n < 0 {
			n = 1
		}
		return n
	}
	return r.Range(0, 80)
}

func layout(r *core.Rand) string {
	if r.Bool() {
		return "fresh"
	}
	return "inplace"
}

func genNonce(r *core.Rand) []byte {
	switch r.Pick(70, 6, 24) {
	case 0:
		return r.Bytes(12)
	case 1:
		return nil
	}
	return r.Bytes([]int{1, 7, 8, 11, 13, 16, 17, 32, 60}[r.Intn(9)])
}

// a block-aligned "decrypted text" whose tail is a near-valid padding
func genNearValidPadded(r *core.Rand, b int, maxBlocks int) []byte {
	blocks := r.Range(1, maxBlocks)
	x := r.Bytes(b * blocks)
	n := r.Range(1, b)
	if r.Chance(15) {
		n = b
	}
	if n > len(x) {
		n = len(x)
	}
	for i := len(x) - n; i < len(x); i++ {
		x[i] = byte(n)
	}
	switch r.Pick(40, 8, 8, 8, 8, 8, 6, 6, 8) {
	case 0: // valid
	case 1: // last byte zero
		x[len(x)-1] = 0
	case 2: // last byte just above the block size
		x[len(x)-1] = byte(b + 1)
	case 3: // one padding byte wrong (not the last)
		if n >= 2 {
			x[len(x)-n+r.Intn(n-1)] ^= byte(1 << r.Intn(8))
		} else {
			x[len(x)-1] ^= 0x80
		}
	case 4: // first padding byte wrong: the comparison must cover the whole suffix
		if n >= 2 {
			x[len(x)-n]++
		}
	case 5: // the byte before the padding equals n too (still valid, the data ends in n)
		if len(x) > n {
			x[len(x)-n-1] = byte(n)
		}
	case 6: // last byte one more than the run length
		x[len(x)-1] = byte(n + 1)
	case 7: // huge last byte
		x[len(x)-1] = byte(r.Range(128, 255))
	case 8: // the whole message is padding
		if b <= 255 {
			x = bytes.Repeat([]byte{byte(b)}, b)
		}
	}
	return x
}

func genPadOps(r *core.Rand) string {
	bs := []int{1, 2, 3, 4, 5, 7, 8, 15, 16, 17, 32, 100, 128, 200, 254, 255}
	b := bs[r.Intn(len(bs))]
	switch r.Pick(20, 6, 40, 10, 10, 6, 8) {
	case 0:
		n := r.Range(0, 40)
		if r.Chance(30) {
			n = b * r.Range(0, 3)
		}
		if n > 600 {
			n = 600
		}
		return fmt.Sprintf("pad %s %d", hx(r.Bytes(n)), b)
	case 1:
		return fmt.Sprintf("pad5 %s", hx(r.Bytes(r.Range(0, 20))))
	case 2:
		if b > 64 {
			b = 16
		}
		return fmt.Sprintf("unpad %s %d", hx(genNearValidPadded(r, b, 3)), b)
	case 3: // right data, other block size
		if b > 64 {
			b = 16
		}
		x := genNearValidPadded(r, b, 3)
		return fmt.Sprintf("unpad %s %d", hx(x), []int{-1, 0, 1, b - 1, b + 1, 2 * b, len(x), 256, 300}[r.Intn(9)])
	case 4: // length not a multiple
		if b > 64 {
			b = 8
		}
		x := genNearValidPadded(r, b, 3)
		if r.Bool() {
			x = append(x, x[len(x)-1])
		} else {
			x = x[1:]
		}
		return fmt.Sprintf("unpad %s %d", hx(x), b)
	case 5:
		return fmt.Sprintf("unpad5 %s", hx(genNearValidPadded(r, 8, 3)))
	}
	// garbage over a small alphabet
	n := r.Range(0, 12)
	x := make([]byte, n)
	for i := range x {
		x[i] = []byte{0, 1, 2, 3, 4, 8, 16, 17, 255}[r.Intn(9)]
	}
	return fmt.Sprintf("unpad %s %d", hx(x), []int{0, 1, 2, 3, 4, 8, 16, -5}[r.Intn(8)])
}

func rawCBC(key, iv, padded []byte) []byte {
	blk, err := aes.NewCipher(key)
	if err != nil {
		return padded
	}
	out := make([]byte, len(padded))
	cipher.NewCBCEncrypter(blk, iv).CryptBlocks(out, padded)
	return out
}

func genCBCDec(r *core.Rand) string {
	key := genKey(r, 92)
	iv := r.Bytes(16)
	// the text that decryption will produce: near-valid padding in the last block
	p := genNearValidPadded(r, 16, 5)
	ct := rawCBC(key, iv, p)
	switch r.Pick(70, 10, 6, 6, 8) {
	case 0:
	case 1: // length not a multiple of 16
		k := r.Range(1, 15)
		if r.Bool() && len(ct) > k {
			ct = ct[:len(ct)-k]
		} else {
			ct = append(ct, r.Bytes(k)...)
		}
	case 2:
		ct = nil
	case 3:
		ct = r.Bytes(r.Range(1, 15))
	case 4: // random ciphertext: decrypts to random padding
		ct = r.Bytes(16 * r.Range(1, 4))
	}
	return fmt.Sprintf("cbcdec %s %s %s %s", layout(r), hx(key), hx(iv), hx(ct))
}

func genGCMDec(r *core.Rand) string {
	key := genKey(r, 92)
	nonce := genNonce(r)
	ad := r.Bytes(r.Pick(3, 1, 1, 1) * r.Range(0, 20))
	pt := r.Bytes(genLen(r))
	ct := append([]byte{}, pt...)
	if blk, err := aes.NewCipher(key); err == nil && len(nonce) > 0 {
		if g, err := cipher.NewGCMWithNonceSize(blk, len(nonce)); err == nil {
			ct = g.Seal(nil, nonce, pt, ad)
		}
	}
	flip := func(b []byte) []byte {
		if len(b) == 0 {
			return []byte{1}
		}
		c := append([]byte{}, b...)
		c[r.Intn(len(c))] ^= byte(1 << r.Intn(8))
		return c
	}
	switch r.Pick(40, 14, 8, 8, 8, 6, 6, 5, 5) {
	case 0:
	case 1: // flip one bit anywhere in ciphertext‖tag
		ct = flip(ct)
	case 2: // flip in the tag
		if len(ct) >= 16 {
			ct[len(ct)-16+r.Intn(16)] ^= byte(1 << r.Intn(8))
		}
	case 3:
		nonce = flip(nonce)
	case 4:
		ad = flip(ad)
	case 5: // truncation (also below the tag size)
		ct = ct[:r.Intn(len(ct)+1)]
	case 6: // shorter than a tag
		ct = r.Bytes(r.Range(0, 15))
	case 7: // extension
		ct = append(ct, r.Bytes(r.Range(1, 3))...)
	case 8: // other key of the same size
		key = r.Bytes(len(key))
	}
	return fmt.Sprintf("gcmdec %s %s %s %s %s", layout(r), hx(key), hx(nonce), hx(ad), hx(ct))
}

func genLine(r *core.Rand) string {
	switch r.Pick(6, 26, 18, 20, 12, 18) {
	case 0:
		return fmt.Sprintf("%s %d", []string{"enclen", "declen", "gcmenclen", "gcmdeclen"}[r.Intn(4)], genLen(r)+r.Intn(3)*r.Intn(200))
	case 1:
		return genPadOps(r)
	case 2:
		return fmt.Sprintf("cbcenc %s %s %s %s", layout(r), hx(genKey(r, 92)), hx(r.Bytes(16)), hx(r.Bytes(genLen(r))))
	case 3:
		return genCBCDec(r)
	case 4:
		return fmt.Sprintf("gcmenc %s %s %s %s %s", layout(r), hx(genKey(r, 92)), hx(genNonce(r)), hx(r.Bytes(r.Intn(2)*r.Range(0, 24))), hx(r.Bytes(genLen(r))))
	}
	return genGCMDec(r)
}

func gen(r *core.Rand, tier string) core.Case {
	lines := []string{"@ C08 x"}
	if r.Chance(2) {
		// outside the documented contract (IV not 16 bytes): crypto/cipher panics; only the
		// model/code agreement is checked for these
		iv := r.Bytes([]int{0, 8, 15, 17, 32}[r.Intn(5)])
		key := r.Bytes(16)
		if r.Bool() {
			lines = append(lines, fmt.Sprintf("cbcenc %s %s %s %s", layout(r), hx(key), hx(iv), hx(r.Bytes(genLen(r)))))
		} else {
			lines = append(lines, fmt.Sprintf("cbcdec %s %s %s %s", layout(r), hx(key), hx(iv), hx(r.Bytes(16*r.Range(1, 3)))))
		}
		return core.Case{Lines: lines, Tag: "offcontract"}
	}
	n := r.Range(1, 5)
	for i := 0; i < n; i++ {
		lines = append(lines, genLine(r))
	}
	return core.Case{Lines: lines, Tag: "calls"}
}

// ---------- corpus: boundary witnesses, enumerated

func seqBytes(n int, start byte) []byte {
	b := make([]byte, n)
	for i := range b {
		b[i] = start + byte(i)
	}
	return b
}

func corpus() []core.Case {
	var cs []core.Case
	add := func(lines ...string) {
		cs = append(cs, core.Case{Lines: append([]string{"@ C08 x"}, lines...)})
	}
	// length helpers over two full periods of the mask
	var ls []string
	for n := 0; n <= 48; n++ {
		ls = append(ls, fmt.Sprintf("enclen %d", n))
	}
	ls = append(ls, "declen 0", "declen 33", "gcmenclen 0", "gcmenclen 31", "gcmdeclen 0", "gcmdeclen 15", "gcmdeclen 16", "gcmdeclen 40")
	add(ls...)
	// every plaintext length 0..48 for every key size, both layouts; then decrypt what stdlib produced
	for _, ks := range []int{16, 24, 32} {
		key := seqBytes(ks, 0x10)
		iv := seqBytes(16, 0xa0)
		ls = nil
		for n := 0; n <= 48; n++ {
			pt := seqBytes(n, 1)
			lay := []string{"fresh", "inplace"}[n%2]
			ls = append(ls, fmt.Sprintf("cbcenc %s %s %s %s", lay, hx(key), hx(iv), hx(pt)))
			ls = append(ls, fmt.Sprintf("cbcdec %s %s %s %s", []string{"inplace", "fresh"}[n%2], hx(key), hx(iv), hx(rawCBC(key, iv, stdPad16(pt)))))
		}
		add(ls...)
	}
	// the private un-padding inside CBC decryption: every claimed padding length 0..18 (and 255),
	// with the run correct / one byte of the run wrong at every position
	key := seqBytes(32, 7)
	iv := seqBytes(16, 9)
	ls = nil
	for _, n := range []int{0, 1, 2, 3, 4, 5, 6, 7, 8, 9, 10, 11, 12, 13, 14, 15, 16, 17, 18, 255} {
		p := seqBytes(32, 0x41)
		run := n
		if run > 16 {
			run = 16
		}
		for i := 32 - run; i < 32; i++ {
			p[i] = byte(n)
		}
		p[31] = byte(n)
		ls = append(ls, fmt.Sprintf("cbcdec fresh %s %s %s", hx(key), hx(iv), hx(rawCBC(key, iv, p))))
		for w := 32 - run; w < 31; w++ {
			q := append([]byte{}, p...)
			q[w] ^= 0x01
			ls = append(ls, fmt.Sprintf("cbcdec inplace %s %s %s", hx(key), hx(iv), hx(rawCBC(key, iv, q))))
		}
	}
	add(ls...)
	// a single block that is all padding: plaintext is empty
	add(fmt.Sprintf("cbcdec inplace %s %s %s", hx(key), hx(iv), hx(rawCBC(key, iv, bytes.Repeat([]byte{16}, 16)))))
	// bad lengths and bad keys
	add("cbcdec fresh "+hx(key)+" "+hx(iv)+" -",
		"cbcdec fresh "+hx(key)+" "+hx(iv)+" "+hx(seqBytes(15, 0)),
		"cbcdec inplace "+hx(key)+" "+hx(iv)+" "+hx(seqBytes(17, 0)),
		"cbcdec fresh "+hx(seqBytes(31, 0))+" "+hx(iv)+" "+hx(seqBytes(16, 0)),
		"cbcenc fresh - "+hx(iv)+" 00",
		"cbcenc inplace "+hx(seqBytes(33, 0))+" "+hx(iv)+" 00",
		"gcmenc fresh "+hx(seqBytes(17, 0))+" "+hx(seqBytes(12, 0))+" - 00",
		"gcmenc fresh "+hx(seqBytes(16, 0))+" - - 00",
		"gcmdec inplace "+hx(seqBytes(16, 0))+" - - "+hx(seqBytes(16, 0)),
		"gcmdec fresh "+hx(seqBytes(16, 0))+" "+hx(seqBytes(12, 0))+" - -",
		"gcmdec inplace "+hx(seqBytes(16, 0))+" "+hx(seqBytes(12, 0))+" - "+hx(seqBytes(15, 0)))
	// PKCS7 public functions: boundaries of the block size and of the data length
	ls = nil
	for _, b := range []int{-1, 0, 1, 2, 8, 16, 255, 256, 300} {
		for _, n := range []int{0, 1, 7, 8, 9, 16, 255, 256} {
			ls = append(ls, fmt.Sprintf("pad %s %d", hx(seqBytes(n, 3)), b))
		}
	}
	ls = append(ls, "pad5 -", "pad5 01", "pad5 0102030405060708", "unpad5 -", "unpad5 0107070707070707", "unpad5 0808080808080808", "unpad5 0102030405060709")
	for _, x := range []string{"-", "01", "00", "02", "0202", "0102", "0201", "030303", "03030303", "0303030303", "ff", "0101"} {
		for _, b := range []int{-1, 0, 1, 2, 3, 4, 5} {
			ls = append(ls, fmt.Sprintf("unpad %s %d", x, b))
		}
	}
	add(ls...)
	// GCM: empty plaintext, block-aligned, all key sizes, odd nonce sizes, with/without AD, both layouts
	ls = nil
	for _, ks := range []int{16, 24, 32} {
		for _, ns := range []int{12, 1, 8, 13, 16} {
			for _, n := range []int{0, 1, 15, 16, 17, 32, 33} {
				k, nonce, ad, pt := seqBytes(ks, 1), seqBytes(ns, 2), seqBytes(n%3*5, 3), seqBytes(n, 4)
				lay := []string{"fresh", "inplace"}[(n+ns)%2]
				ls = append(ls, fmt.Sprintf("gcmenc %s %s %s %s %s", lay, hx(k), hx(nonce), hx(ad), hx(pt)))
				blk, _ := aes.NewCipher(k)
				g, _ := cipher.NewGCMWithNonceSize(blk, ns)
				ls = append(ls, fmt.Sprintf("gcmdec %s %s %s %s %s", lay, hx(k), hx(nonce), hx(ad), hx(g.Seal(nil, nonce, pt, ad))))
			}
		}
	}
	add(ls...)
	return cs
}

// ---------- extras

// every byte string of length ≤ 5 over {0,1,2,3,4,5} against every block size 1..6
func extraUnpadExhaustive(ctx *core.Ctx) (int, string, []core.ExtraFailure) {
	evals := 0
	var fails []core.ExtraFailure
	alpha := []byte{0, 1, 2, 3, 4, 5}
	var rec func(x []byte)
	rec = func(x []byte) {
		for b := 1; b <= 6; b++ {
			evals++
			line := fmt.Sprintf("unpad %s %d", hx(x), b)
			c := core.Case{Lines: []string{"@ C08 x", line}}
			out := impl(c)
			if f := check(c, out); f != nil && len(fails) < 3 {
				fails = append(fails, core.ExtraFailure{Failure: *f, Payload: map[string]any{"lines": c.Lines, "impl_out": out}})
			}
		}
		if len(x) == 5 {
			return
		}
		for _, a := range alpha {
			rec(append(append([]byte{}, x...), a))
		}
	}
	rec(nil)
	return evals, fmt.Sprintf("PKCS7UnPadding on all %d (bytes over {0..5} of length ≤ 5) × (block size 1..6) inputs vs the definition of PKCS#7", evals), fails
}

// all single-bit flips of ciphertext‖tag, nonce and additional data must make
// AESGCMDecrypt fail (cryptographic clause: exercised, not proved)
func extraBitFlips(ctx *core.Ctx) (int, string, []core.ExtraFailure) {
	evals := 0
	var fails []core.ExtraFailure
	msgs := 6
	if ctx.Tier == "thorough" {
		msgs = 120
	}
	r := ctx.Rand.Fork()
	for m := 0; m < msgs; m++ {
		key := r.Bytes([]int{16, 24, 32}[m%3])
		nonce := r.Bytes([]int{12, 12, 8, 16}[m%4])
		ad := r.Bytes(r.Range(0, 20))
		pt := r.Bytes(genLen(r))
		ct := make([]byte, cryptz.AESGCMEncryptLen(pt))
		if err := cryptz.AESGCMEncrypt(ct, pt, key, nonce, ad); err != nil {
			fails = append(fails, core.ExtraFailure{Failure: core.Failure{Key: "gcm-encrypt-wrong", Desc: err.Error()}})
			continue
		}
		try := func(what string, ct2, nonce2, ad2 []byte) {
			evals++
			dst := make([]byte, len(pt))
			err := cryptz.AESGCMDecrypt(dst, append([]byte{}, ct2...), key, nonce2, ad2)
			if err == nil && len(fails) < 3 {
				fails = append(fails, core.ExtraFailure{
					Failure: core.Failure{Key: "gcm-decrypt-accepts-forgery", Desc: "AESGCMDecrypt accepted a message after flipping one bit of the " + what},
					Payload: map[string]any{"lines": []string{"@ C08 x", fmt.Sprintf("gcmdec fresh %s %s %s %s", hx(key), hx(nonce2), hx(ad2), hx(ct2))}},
				})
			}
		}
		flips := func(what string, b []byte, f func(x []byte)) {
			for i := 0; i < len(b)*8; i++ {
				x := append([]byte{}, b...)
				x[i/8] ^= 1 << (i % 8)
				f(x)
			}
			_ = what
		}
		flips("ct", ct, func(x []byte) { try("ciphertext/tag", x, nonce, ad) })
		flips("nonce", nonce, func(x []byte) { try("nonce", ct, x, ad) })
		flips("ad", ad, func(x []byte) { try("additional data", ct, nonce, x) })
		// and the untouched message still opens
		evals++
		dst := make([]byte, len(pt))
		if err := cryptz.AESGCMDecrypt(dst, append([]byte{}, ct...), key, nonce, ad); err != nil || !bytes.Equal(dst, pt) {
			fails = append(fails, core.ExtraFailure{Failure: core.Failure{Key: "gcm-decrypt-wrong", Desc: "round trip failed"}})
		}
	}
	return evals, fmt.Sprintf("%d messages × every single-bit flip of ciphertext‖tag, nonce, AD: all rejected (exercised, cryptographic clause is partial)", msgs), fails
}
