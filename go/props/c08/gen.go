package c08

import (
	"bytes"
	"strings"
	"crypto/aes"
	"crypto/cipher"
	"fmt"
	"hash/adler32"
	"hash/crc32"
	"hash/fnv"
	"runtime"
	"sync"

	"github.com/welllog/golib/cryptz"

	"verifharness/internal/core"
)

// ---------- generators

func genKey(r *core.Rand, validPct int) []byte {
	if r.Chance(validPct) {
		return r.Bytes([]int{16, 24, 32}[r.Intn(3)])
	}
	return r.Bytes([]int{0, 1, 8, 15, 17, 23, 25, 31, 33, 48, 64}[r.Intn(11)])
}

// plaintext lengths 0..80 biased to block boundaries
func genLen(r *core.Rand) int {
	switch r.Pick(3, 4, 4, 4) {
	case 0:
		return 0
	case 1:
		return 16 * r.Range(1, 5)
	case 2:
		n := 16*r.Range(0, 5) + []int{-1, 1, 15, -15}[r.Intn(4)]
		if n < 0 {
			n = 1
		}
		return n
	}
	return r.Range(0, 80)
}

func layout(r *core.Rand) string {
	if r.Bool() {
		return "fresh"
	}
	return "inplace"
}

// additional data: often absent, mostly short, sometimes longer than any block / buffer size
// an implementation might silently clip at
func genAD(r *core.Rand) []byte {
	switch r.Pick(40, 40, 13, 7) {
	case 0:
		return nil
	case 1:
		return r.Bytes(r.Range(1, 24))
	case 2:
		return r.Bytes([]int{31, 32, 33, 63, 64, 65, 127, 128, 129}[r.Intn(9)])
	}
	return r.Bytes(r.Range(130, 300))
}

func genNonce(r *core.Rand) []byte {
	switch r.Pick(70, 6, 24) {
	case 0:
		return r.Bytes(12)
	case 1:
		return nil
	}
	return r.Bytes([]int{1, 7, 8, 11, 13, 16, 17, 32, 60}[r.Intn(9)])
}

// a block-aligned "decrypted text" whose tail is a near-valid padding
func genNearValidPadded(r *core.Rand, b int, maxBlocks int) []byte {
	blocks := r.Range(1, maxBlocks)
	x := r.Bytes(b * blocks)
	n := r.Range(1, b)
	if r.Chance(15) {
		n = b
	}
	if n > len(x) {
		n = len(x)
	}
	for i := len(x) - n; i < len(x); i++ {
		x[i] = byte(n)
	}
	switch r.Pick(40, 8, 8, 8, 8, 8, 6, 6, 8) {
	case 0: // valid
	case 1: // last byte zero
		x[len(x)-1] = 0
	case 2: // last byte just above the block size
		x[len(x)-1] = byte(b + 1)
	case 3: // one padding byte wrong (not the last)
		if n >= 2 {
			x[len(x)-n+r.Intn(n-1)] ^= byte(1 << r.Intn(8))
		} else {
			x[len(x)-1] ^= 0x80
		}
	case 4: // first padding byte wrong: the comparison must cover the whole suffix
		if n >= 2 {
			x[len(x)-n]++
		}
	case 5: // the byte before the padding equals n too (still valid, the data ends in n)
		if len(x) > n {
			x[len(x)-n-1] = byte(n)
		}
	case 6: // last byte one more than the run length
		x[len(x)-1] = byte(n + 1)
	case 7: // huge last byte
		x[len(x)-1] = byte(r.Range(128, 255))
	case 8: // the whole message is padding
		if b <= 255 {
			x = bytes.Repeat([]byte{byte(b)}, b)
		}
	}
	return x
}

func genPadOps(r *core.Rand) string {
	bs := []int{1, 2, 3, 4, 5, 7, 8, 15, 16, 17, 32, 100, 128, 200, 254, 255}
	b := bs[r.Intn(len(bs))]
	switch r.Pick(20, 6, 40, 10, 10, 6, 8) {
	case 0:
		n := r.Range(0, 40)
		if r.Chance(30) {
			n = b * r.Range(0, 3)
		}
		if n > 600 {
			n = 600
		}
		return fmt.Sprintf("pad %s %d", hx(r.Bytes(n)), b)
	case 1:
		return fmt.Sprintf("pad5 %s", hx(r.Bytes(r.Range(0, 20))))
	case 2:
		if b > 64 {
			b = 16
		}
		return fmt.Sprintf("unpad %s %d", hx(genNearValidPadded(r, b, 3)), b)
	case 3: // right data, other block size
		if b > 64 {
			b = 16
		}
		x := genNearValidPadded(r, b, 3)
		return fmt.Sprintf("unpad %s %d", hx(x), []int{-1, 0, 1, b - 1, b + 1, 2 * b, len(x), 256, 300}[r.Intn(9)])
	case 4: // length not a multiple
		if b > 64 {
			b = 8
		}
		x := genNearValidPadded(r, b, 3)
		if r.Bool() {
			x = append(x, x[len(x)-1])
		} else {
			x = x[1:]
		}
		return fmt.Sprintf("unpad %s %d", hx(x), b)
	case 5:
		return fmt.Sprintf("unpad5 %s", hx(genNearValidPadded(r, 8, 3)))
	}
	// garbage over a small alphabet
	n := r.Range(0, 12)
	x := make([]byte, n)
	for i := range x {
		x[i] = []byte{0, 1, 2, 3, 4, 8, 16, 17, 255}[r.Intn(9)]
	}
	return fmt.Sprintf("unpad %s %d", hx(x), []int{0, 1, 2, 3, 4, 8, 16, -5}[r.Intn(8)])
}

func rawCBC(key, iv, padded []byte) []byte {
	blk, err := aes.NewCipher(key)
	if err != nil {
		return padded
	}
	out := make([]byte, len(padded))
	cipher.NewCBCEncrypter(blk, iv).CryptBlocks(out, padded)
	return out
}

func genCBCDec(r *core.Rand) string {
	key := genKey(r, 92)
	iv := r.Bytes(16)
	// the text that decryption will produce: near-valid padding in the last block
	p := genNearValidPadded(r, 16, 5)
	ct := rawCBC(key, iv, p)
	switch r.Pick(70, 10, 6, 6, 8) {
	case 0:
	case 1: // length not a multiple of 16
		k := r.Range(1, 15)
		if r.Bool() && len(ct) > k {
			ct = ct[:len(ct)-k]
		} else {
			ct = append(ct, r.Bytes(k)...)
		}
	case 2:
		ct = nil
	case 3:
		ct = r.Bytes(r.Range(1, 15))
	case 4: // random ciphertext: decrypts to random padding
		ct = r.Bytes(16 * r.Range(1, 4))
	}
	return fmt.Sprintf("cbcdec %s %s %s %s", layout(r), hx(key), hx(iv), hx(ct))
}

func genGCMDec(r *core.Rand) string {
	key := genKey(r, 92)
	nonce := genNonce(r)
	ad := genAD(r)
	pt := r.Bytes(genLen(r))
	ct := append([]byte{}, pt...)
	if blk, err := aes.NewCipher(key); err == nil && len(nonce) > 0 {
		if g, err := cipher.NewGCMWithNonceSize(blk, len(nonce)); err == nil {
			ct = g.Seal(nil, nonce, pt, ad)
		}
	}
	flip := func(b []byte) []byte {
		if len(b) == 0 {
			return []byte{1}
		}
		c := append([]byte{}, b...)
		c[r.Intn(len(c))] ^= byte(1 << r.Intn(8))
		return c
	}
	switch r.Pick(40, 14, 8, 8, 8, 6, 6, 5, 5) {
	case 0:
	case 1: // flip one bit anywhere in ciphertext‖tag
		ct = flip(ct)
	case 2: // flip in the tag
		if len(ct) >= 16 {
			ct[len(ct)-16+r.Intn(16)] ^= byte(1 << r.Intn(8))
		}
	case 3:
		nonce = flip(nonce)
	case 4:
		ad = flip(ad)
	case 5: // truncation (also below the tag size)
		ct = ct[:r.Intn(len(ct)+1)]
	case 6: // shorter than a tag
		ct = r.Bytes(r.Range(0, 15))
	case 7: // extension
		ct = append(ct, r.Bytes(r.Range(1, 3))...)
	case 8: // other key of the same size
		key = r.Bytes(len(key))
	}
	return fmt.Sprintf("gcmdec %s %s %s %s %s", layout(r), hx(key), hx(nonce), hx(ad), hx(ct))
}

// genBufferLevel: the ops answered by the ARENA model — PKCS7Padding into spare capacity for any
// block size 1..255, and what AESCBCDecrypt / AESGCMDecrypt leave in dst whatever the outcome
func genBufferLevel(r *core.Rand) string {
	switch r.Pick(40, 30, 30) {
	case 0:
		b := r.Range(1, 255)
		if r.Chance(10) {
			b = []int{-1, 0, 256, 300}[r.Intn(4)]
		}
		d := r.Bytes(r.Range(0, 40))
		if r.Chance(30) && b > 0 {
			d = r.Bytes(b * r.Range(0, 2))
		}
		pad := 1
		if b > 0 {
			pad = b - len(d)%b
		}
		extra := []int{0, pad - 1, pad, pad + 1, pad + 7, 300}[r.Intn(6)]
		if extra < 0 {
			extra = 0
		}
		return fmt.Sprintf("padcap %s %d %d", hx(d), b, extra)
	case 1:
		return "cbcdecleft" + strings.TrimPrefix(genCBCDec(r), "cbcdec")
	}
	return "gcmdecleft" + strings.TrimPrefix(genGCMDec(r), "gcmdec")
}

func genLine(r *core.Rand) string {
	if r.Chance(12) {
		return genBufferLevel(r)
	}
	switch r.Pick(6, 26, 18, 20, 12, 18) {
	case 0:
		return fmt.Sprintf("%s %d", []string{"enclen", "declen", "gcmenclen", "gcmdeclen"}[r.Intn(4)], genLen(r)+r.Intn(3)*r.Intn(200))
	case 1:
		return genPadOps(r)
	case 2:
		return fmt.Sprintf("cbcenc %s %s %s %s", layout(r), hx(genKey(r, 92)), hx(r.Bytes(16)), hx(r.Bytes(genLen(r))))
	case 3:
		return genCBCDec(r)
	case 4:
		return fmt.Sprintf("gcmenc %s %s %s %s %s", layout(r), hx(genKey(r, 92)), hx(genNonce(r)), hx(genAD(r)), hx(r.Bytes(genLen(r))))
	}
	return genGCMDec(r)
}

// offSize: a dst size deviation, biased to whole blocks and the tag size
func offSize(r *core.Rand) string {
	k := []int{1, 2, 15, 16, 16, 16, 17, 32, 5, 8}[r.Intn(10)]
	if r.Chance(35) {
		return fmt.Sprintf("-%d", k)
	}
	return fmt.Sprintf("+%d", k)
}

func genOffDst(r *core.Rand) string {
	key := genKey(r, 96)
	switch r.Pick(30, 30, 20, 20) {
	case 0:
		lay := "fresh"
		if r.Bool() {
			lay = "inplace"
		}
		pt := r.Bytes(genLen(r))
		off := offSize(r)
		if lay == "inplace" && off[0] == '-' {
			// the buffer must at least hold the plaintext
			k := 16 - len(pt)%16
			off = fmt.Sprintf("-%d", 1+r.Intn(k))
		}
		return fmt.Sprintf("cbcenc %s%s %s %s %s", lay, off, hx(key), hx(r.Bytes(16)), hx(pt))
	case 1:
		iv := r.Bytes(16)
		p := genNearValidPadded(r, 16, 4)
		return fmt.Sprintf("cbcdec fresh%s %s %s %s", offSize(r), hx(key), hx(iv), hx(rawCBC(key, iv, p)))
	case 2:
		return fmt.Sprintf("gcmenc fresh%s %s %s %s %s", offSize(r), hx(key), hx(r.Bytes(12)), hx(r.Bytes(r.Intn(2)*r.Range(0, 12))), hx(r.Bytes(genLen(r))))
	}
	nonce := r.Bytes(12)
	ad := r.Bytes(r.Intn(2) * r.Range(0, 12))
	pt := r.Bytes(genLen(r))
	ct := append([]byte{}, pt...)
	if blk, err := aes.NewCipher(key); err == nil {
		if g, err := cipher.NewGCM(blk); err == nil {
			ct = g.Seal(nil, nonce, pt, ad)
		}
	}
	return fmt.Sprintf("gcmdec fresh%s %s %s %s %s", offSize(r), hx(key), hx(nonce), hx(ad), hx(ct))
}

// ---------- history stream: one key / iv / nonce / AD / dst buffer, mutated in place between calls

// genHist: 4..12 calls that all take their key, iv/nonce, additional data and dst from the same
// backing arrays (impl, header `hist`).  Between consecutive calls the key mostly changes to
// ANOTHER key of the SAME length (one bit, or all bytes), so that anything the library kept
// from the previous call by reference rather than by value (a cached cipher keyed on the
// caller's slice, a retained iv) shows as a wrong result.  Decryptions are of messages made by
// the stdlib under the current key (must succeed) or under the previous key (must fail / give
// the stdlib's answer).  Each call is still a pure function of its current arguments — that
// is what the model computes and what the sequence checks of the code.
func genHist(r *core.Rand, tier string) core.Case {
	lines := []string{"@ C08 hist"}
	ks := []int{16, 24, 32}[r.Intn(3)]
	key := r.Bytes(ks)
	// a quarter of the histories alternate between two keys that share a cheap identity
	// (same CRC-32 / Adler-32 / FNV / byte sum / ends): a memo keyed on such an identity
	// confuses them
	var pair *keyPair
	// a third walk inside a FAMILY of keys that agree on a PART of the key (a prefix, a suffix,
	// the bytes without the length): a process-wide memo keyed on that part confuses them
	var family [][]byte
	switch r.Pick(25, 33, 42) {
	case 0:
		if ps := collisionPairs(); len(ps) > 0 {
			pair = &ps[r.Intn(len(ps))]
			key = pair.k1
		}
	case 1:
		family = relatedKeys(r)
		key = family[r.Intn(len(family))]
	}
	prev := append([]byte{}, key...)
	n := r.Range(4, 12)
	iv, nonce := r.Bytes(16), r.Bytes(12)
	for i := 0; i < n; i++ {
		if i > 0 && pair != nil {
			prev = append([]byte{}, key...)
			if r.Chance(70) {
				if bytes.Equal(key, pair.k1) {
					key = pair.k2
				} else {
					key = pair.k1
				}
			}
		} else if i > 0 && family != nil {
			prev = append([]byte{}, key...)
			if r.Chance(80) {
				key = family[r.Intn(len(family))]
			}
		} else if i > 0 {
			prev = append([]byte{}, key...)
			switch r.Pick(35, 35, 15, 15) {
			case 0: // one bit of the key buffer flipped
				key = append([]byte{}, key...)
				key[r.Intn(len(key))] ^= 1 << r.Intn(8)
			case 1: // a completely different key of the same length
				key = r.Bytes(len(key))
			case 2: // other key size
				key = r.Bytes([]int{16, 24, 32}[r.Intn(3)])
			case 3: // unchanged (a legitimate cache hit)
			}
		}
		if r.Chance(45) {
			// a call that must be REJECTED, made with the key the buffer holds now, before the
			// next valid call: a failed call must leave nothing behind (no half-updated memo)
			lines = append(lines, genRejected(r, key))
		}
		decKey := key
		if r.Chance(30) && len(prev) == len(key) {
			decKey = prev // message made under the key the buffer held before
		}
		// iv / nonce: mostly new; sometimes the one of the previous call again (the same
		// configuration twice: a retained, stateful BlockMode would continue its chain); the
		// nonce sometimes of ANOTHER LENGTH than before (a memo of AEADs keyed without the nonce
		// size hands out one built for the other size), related to the previous one by content
		// (a prefix of it / it followed by zeros) or not
		if !r.Chance(15) {
			iv = r.Bytes(16)
		}
		switch r.Pick(15, 50, 20, 15) {
		case 0: // unchanged
		case 1:
			nonce = r.Bytes(12)
		case 2:
			nonce = r.Bytes([]int{1, 7, 8, 11, 13, 16, 17, 32}[r.Intn(8)])
		case 3:
			nl := []int{8, 12, 13, 16, 24}[r.Intn(5)]
			if nl <= len(nonce) {
				nonce = append([]byte{}, nonce[:nl]...)
			} else {
				nonce = append(append([]byte{}, nonce...), make([]byte, nl-len(nonce))...)
			}
		}
		ad := genAD(r)
		pt := r.Bytes(genLen(r))
		lay := layout(r)
		switch r.Pick(25, 25, 25, 25) {
		case 0:
			lines = append(lines, fmt.Sprintf("cbcenc %s %s %s %s", lay, hx(key), hx(iv), hx(pt)))
		case 1:
			lines = append(lines, fmt.Sprintf("cbcdec %s %s %s %s", lay, hx(key), hx(iv), hx(rawCBC(decKey, iv, stdPad16(pt)))))
		case 2:
			lines = append(lines, fmt.Sprintf("gcmenc %s %s %s %s %s", lay, hx(key), hx(nonce), hx(ad), hx(pt)))
		case 3:
			blk, _ := aes.NewCipher(decKey)
			g, _ := cipher.NewGCMWithNonceSize(blk, len(nonce))
			lines = append(lines, fmt.Sprintf("gcmdec %s %s %s %s %s", lay, hx(key), hx(nonce), hx(ad), hx(g.Seal(nil, nonce, pt, ad))))
		}
	}
	return core.Case{Lines: lines, Tag: "history"}
}

// ---------- keys that agree on a PART of the key (process-wide state keyed by part of the input)

// keyParts: the parts of a key a process-wide memo of expanded keys / AEADs might be keyed on
// instead of the whole key (bytes AND length).  Each is mirrored by a Lean definition in
// Model/C08Memo.lean, where the collisions built below are theorems (`ident…_collides`) and
// c08_memo_conflation_is_a_two_call_history says that any memo keyed on a part that two
// configurations with different answers share fails on the 2-call history made of them.
//
//	nolen    the bytes copied into a [32]byte (the length is lost: k and k‖00…00 agree)
//	first16  the first 16 bytes (AES-128 "session part"; k16, k16‖x, k16‖y agree)
//	first24  the first 24 bytes
//	last16   the last 16 bytes
//	nozeros  the bytes with trailing zeros trimmed (k and k‖00…00 agree, 00…00 of all sizes agree)
//
// relatedKeys builds, from fresh random material (so that no earlier case of the process used a
// related key), a family of 7-10 DIFFERENT legal keys any two of which agree on at least one part.
func relatedKeys(r *core.Rand) [][]byte {
	cat := func(xs ...[]byte) []byte {
		var o []byte
		for _, x := range xs {
			o = append(o, x...)
		}
		return o
	}
	z := func(n int) []byte { return make([]byte, n) }
	k16 := r.Bytes(16)
	if r.Chance(10) {
		k16 = z(16) // all-zero keys of the three sizes
	}
	a8, b8, c8 := r.Bytes(8), r.Bytes(8), r.Bytes(8)
	fam := [][]byte{
		k16,                  // AES-128
		cat(k16, z(8)),       // nolen / nozeros / first16 with k16
		cat(k16, z(16)),      // nolen / nozeros / first16 / first24 with the two above
		cat(k16, a8),         // first16
		cat(k16, a8, z(8)),   // nolen with k16‖a8; first16, first24
		cat(k16, a8, b8),     // first24 with k16‖a8…, first16
		cat(k16, c8, b8),     // first16 only, same length as the one above
		cat(a8, k16),         // last16 with k16 (another size)
		cat(b8, c8, k16),     // last16
		cat(c8, a8, k16),     // last16, same length as the one above
	}
	// dedupe (the all-zero base makes some coincide)
	var out [][]byte
	for _, k := range fam {
		dup := false
		for _, o := range out {
			if bytes.Equal(o, k) {
				dup = true
			}
		}
		if !dup {
			out = append(out, k)
		}
	}
	return out
}

// ---------- keys that a content-hash-keyed memo cannot tell apart

// weakIdentities: cheap "identities" of a key that a cache might be keyed on instead of the key
// itself.  For each of them and each key size, collisionPairs finds two DIFFERENT keys of that
// size with the same identity (32-bit checksums: by a birthday search over a few hundred thousand
// random keys — no algebra needed, works for any 32-bit function; the structural ones: built).
var weakIdentities = []struct {
	name string
	f    func([]byte) uint32
}{
	{"crc32-ieee", crc32.ChecksumIEEE},
	{"crc32-castagnoli", func(b []byte) uint32 { return crc32.Checksum(b, crc32.MakeTable(crc32.Castagnoli)) }},
	{"crc32-koopman", func(b []byte) uint32 { return crc32.Checksum(b, crc32.MakeTable(crc32.Koopman)) }},
	{"adler32", adler32.Checksum},
	{"fnv1a-32", func(b []byte) uint32 { h := fnv.New32a(); h.Write(b); return h.Sum32() }},
	{"fnv1-32", func(b []byte) uint32 { h := fnv.New32(); h.Write(b); return h.Sum32() }},
	{"fnv1a-64-folded", func(b []byte) uint32 { h := fnv.New64a(); h.Write(b); v := h.Sum64(); return uint32(v) ^ uint32(v>>32) }},
	{"byte-sum", func(b []byte) uint32 {
		var v uint32
		for _, x := range b {
			v += uint32(x)
		}
		return v
	}},
	{"xor-fold-32", func(b []byte) uint32 {
		var v uint32
		for i, x := range b {
			v ^= uint32(x) << (8 * (i % 4))
		}
		return v
	}},
	{"first8-last8", func(b []byte) uint32 {
		h := fnv.New32a()
		h.Write(b[:8])
		h.Write(b[len(b)-8:])
		return h.Sum32()
	}},
}

type keyPair struct {
	what   string
	k1, k2 []byte
}

var (
	collOnce  sync.Once
	collPairs []keyPair
)

func collisionPairs() []keyPair {
	collOnce.Do(func() {
		for wi, w := range weakIdentities {
			for _, ks := range []int{16, 24, 32} {
				r := core.NewRand(uint64(0xc011151 + 97*wi + ks))
				seen := make(map[uint32][]byte, 1<<19)
				found := 0
				for n := 0; n < 3000000 && found < 2; n++ {
					k := r.Bytes(ks)
					if w.name == "first8-last8" && ks > 16 && n%2 == 1 {
						// same ends, another middle
						for _, o := range seen {
							k = append([]byte{}, o...)
							k[9] ^= 0x5a
							break
						}
					}
					v := w.f(k)
					if o, ok := seen[v]; ok && !bytes.Equal(o, k) {
						collPairs = append(collPairs, keyPair{fmt.Sprintf("%s/%d", w.name, ks), o, k})
						found++
						continue
					}
					seen[v] = k
				}
			}
		}
	})
	return collPairs
}

// rejectedKinds: every way a call can be turned down, per helper
var rejectedKinds = []string{"gcmenc-nonce0", "gcmdec-nonce0", "gcmdec-short", "gcmdec-badtag", "gcmdec-badad",
	"cbcdec-badlen", "cbcdec-empty", "cbcdec-badpad", "cbcenc-badkey", "cbcdec-badkey", "gcmenc-badkey", "gcmdec-badkey"}

func mkRejected(kind string, key, iv, nonce, pt []byte, lay string) string {
	badKey := key[:len(key)-1]
	blk, _ := aes.NewCipher(key)
	g, _ := cipher.NewGCM(blk)
	sealed := g.Seal(nil, nonce, pt, []byte("ad"))
	switch kind {
	case "gcmenc-nonce0":
		return fmt.Sprintf("gcmenc %s %s - 6164 %s", lay, hx(key), hx(pt))
	case "gcmdec-nonce0":
		return fmt.Sprintf("gcmdec %s %s - 6164 %s", lay, hx(key), hx(sealed))
	case "gcmdec-short":
		return fmt.Sprintf("gcmdec %s %s %s 6164 %s", lay, hx(key), hx(nonce), hx(sealed[:len(sealed)%16]))
	case "gcmdec-badtag":
		x := append([]byte{}, sealed...)
		x[len(x)-1] ^= 1
		return fmt.Sprintf("gcmdec %s %s %s 6164 %s", lay, hx(key), hx(nonce), hx(x))
	case "gcmdec-badad":
		return fmt.Sprintf("gcmdec %s %s %s 6165 %s", lay, hx(key), hx(nonce), hx(sealed))
	case "cbcdec-badlen":
		return fmt.Sprintf("cbcdec %s %s %s %s", lay, hx(key), hx(iv), hx(rawCBC(key, iv, stdPad16(pt))[:15+len(pt)/16*16]))
	case "cbcdec-empty":
		return fmt.Sprintf("cbcdec %s %s %s -", lay, hx(key), hx(iv))
	case "cbcdec-badpad":
		p := stdPad16(pt)
		p[len(p)-1] = 0
		return fmt.Sprintf("cbcdec %s %s %s %s", lay, hx(key), hx(iv), hx(rawCBC(key, iv, p)))
	case "cbcenc-badkey":
		return fmt.Sprintf("cbcenc %s %s %s %s", lay, hx(badKey), hx(iv), hx(pt))
	case "cbcdec-badkey":
		return fmt.Sprintf("cbcdec %s %s %s %s", lay, hx(badKey), hx(iv), hx(rawCBC(key, iv, stdPad16(pt))))
	case "gcmenc-badkey":
		return fmt.Sprintf("gcmenc %s %s %s 6164 %s", lay, hx(badKey), hx(nonce), hx(pt))
	}
	return fmt.Sprintf("gcmdec %s %s %s 6164 %s", lay, hx(badKey), hx(nonce), hx(sealed))
}

func genRejected(r *core.Rand, key []byte) string {
	return mkRejected(rejectedKinds[r.Intn(len(rejectedKinds))], key, r.Bytes(16), r.Bytes(12), r.Bytes(genLen(r)), layout(r))
}

// ---------- arena stream: all arguments of a call are windows of one arena (impl, header `arena`)

// genArena: 1-6 valid or near-valid calls in the documented layouts; where each argument sits in
// the arena is derived by impl from the text of the line (both orders of dst and src, adjacent or
// apart, spare capacity or not), so the stream only has to vary the lines.
func genArena(r *core.Rand, tier string) core.Case {
	lines := []string{"@ C08 arena"}
	n := r.Range(1, 6)
	for i := 0; i < n; i++ {
		key := genKey(r, 97)
		iv, nonce, ad := r.Bytes(16), r.Bytes(12), genAD(r)
		if len(ad) > 64 {
			ad = ad[:64]
		}
		pt := r.Bytes(genLen(r))
		lay := layout(r)
		switch r.Pick(30, 25, 20, 20, 5) {
		case 0:
			lines = append(lines, fmt.Sprintf("cbcenc %s %s %s %s", lay, hx(key), hx(iv), hx(pt)))
		case 1:
			lines = append(lines, fmt.Sprintf("cbcdec %s %s %s %s", lay, hx(key), hx(iv), hx(rawCBC(key, iv, genNearValidPadded(r, 16, 4)))))
		case 2:
			lines = append(lines, fmt.Sprintf("gcmenc %s %s %s %s %s", lay, hx(key), hx(nonce), hx(ad), hx(pt)))
		case 3:
			lines = append(lines, genGCMDec(r))
		case 4:
			if len(key) == 16 || len(key) == 24 || len(key) == 32 {
				lines = append(lines, genRejected(r, key))
			}
		}
	}
	return core.Case{Lines: lines, Tag: "arena"}
}

// ---------- magnitude / large stream

var thresholds = []int{15, 16, 17, 31, 32, 33, 63, 64, 65, 127, 128, 129, 255, 256, 257, 511, 512, 513, 1023, 1024, 1025}

// genLarge: few calls on sizes that cross every plausible internal threshold (the Lean AES
// makes ≈ 4 KiB the practical ceiling of the compared stream; 64 KiB is in the `large-inputs`
// extra against the stdlib only).
func genLarge(r *core.Rand, tier string) core.Case {
	lines := []string{"@ C08 x"}
	sizes := thresholds
	if tier == "thorough" {
		sizes = append(append([]int{}, thresholds...), 2047, 2048, 2049, 4095, 4096, 4097)
	}
	n := sizes[r.Intn(len(sizes))]
	key := r.Bytes([]int{16, 24, 32}[r.Intn(3)])
	iv, nonce := r.Bytes(16), r.Bytes(12)
	pt := r.Bytes(n)
	switch r.Pick(25, 25, 20, 20, 10) {
	case 0:
		lines = append(lines, fmt.Sprintf("cbcenc %s %s %s %s", layout(r), hx(key), hx(iv), hx(pt)))
	case 1:
		lines = append(lines, fmt.Sprintf("cbcdec %s %s %s %s", layout(r), hx(key), hx(iv), hx(rawCBC(key, iv, stdPad16(pt)))))
	case 2:
		ad := r.Bytes(sizes[r.Intn(len(sizes))] % 600)
		lines = append(lines, fmt.Sprintf("gcmenc %s %s %s %s %s", layout(r), hx(key), hx(nonce), hx(ad), hx(pt)))
	case 3:
		ad := r.Bytes(sizes[r.Intn(len(sizes))] % 600)
		blk, _ := aes.NewCipher(key)
		g, _ := cipher.NewGCM(blk)
		lines = append(lines, fmt.Sprintf("gcmdec %s %s %s %s %s", layout(r), hx(key), hx(nonce), hx(ad), hx(g.Seal(nil, nonce, pt, ad))))
	case 4: // PKCS7 on long data, block sizes at the byte boundary
		b := []int{1, 16, 127, 128, 200, 254, 255}[r.Intn(7)]
		d := r.Bytes(n%600 + 1)
		lines = append(lines, fmt.Sprintf("pad %s %d", hx(d), b), fmt.Sprintf("enclen %d", n*r.Range(1, 70)))
		padded := append(append([]byte{}, d...), bytes.Repeat([]byte{byte(b - len(d)%b)}, b-len(d)%b)...)
		lines = append(lines, fmt.Sprintf("unpad %s %d", hx(padded), b))
	}
	return core.Case{Lines: lines, Tag: "large"}
}

func gen(r *core.Rand, tier string) core.Case {
	switch {
	case r.Chance(12):
		return genHist(r, tier)
	case r.Chance(12):
		return genArena(r, tier)
	case r.Chance(4) || (tier == "thorough" && r.Chance(8)):
		return genLarge(r, tier)
	}
	lines := []string{"@ C08 x"}
	if r.Chance(6) {
		// dst longer / shorter than documented: the library then encrypts / un-pads the WHOLE
		// dst (CBC) or Seal/Open allocate and leave dst alone (GCM, dst too short); only the
		// model/code agreement is checked for these
		lines = append(lines, genOffDst(r))
		if r.Bool() {
			lines = append(lines, genOffDst(r))
		}
		return core.Case{Lines: lines, Tag: "offcontract"}
	}
	if r.Chance(2) {
		// outside the documented contract (IV not 16 bytes): crypto/cipher panics; only the
		// model/code agreement is checked for these
		iv := r.Bytes([]int{0, 8, 15, 17, 32}[r.Intn(5)])
		key := r.Bytes(16)
		if r.Bool() {
			lines = append(lines, fmt.Sprintf("cbcenc %s %s %s %s", layout(r), hx(key), hx(iv), hx(r.Bytes(genLen(r)))))
		} else {
			lines = append(lines, fmt.Sprintf("cbcdec %s %s %s %s", layout(r), hx(key), hx(iv), hx(r.Bytes(16*r.Range(1, 3)))))
		}
		return core.Case{Lines: lines, Tag: "offcontract"}
	}
	n := r.Range(1, 5)
	for i := 0; i < n; i++ {
		lines = append(lines, genLine(r))
	}
	return core.Case{Lines: lines, Tag: "calls"}
}

// ---------- corpus: boundary witnesses, enumerated

func seqBytes(n int, start byte) []byte {
	b := make([]byte, n)
	for i := range b {
		b[i] = start + byte(i)
	}
	return b
}

func corpus() []core.Case {
	var cs []core.Case
	add := func(lines ...string) {
		cs = append(cs, core.Case{Lines: append([]string{"@ C08 x"}, lines...)})
	}
	// length helpers over two full periods of the mask
	var ls []string
	for n := 0; n <= 48; n++ {
		ls = append(ls, fmt.Sprintf("enclen %d", n))
	}
	ls = append(ls, "declen 0", "declen 33", "gcmenclen 0", "gcmenclen 31", "gcmdeclen 0", "gcmdeclen 15", "gcmdeclen 16", "gcmdeclen 40")
	add(ls...)
	// every plaintext length 0..48 for every key size, both layouts; then decrypt what stdlib produced
	for _, ks := range []int{16, 24, 32} {
		key := seqBytes(ks, 0x10)
		iv := seqBytes(16, 0xa0)
		ls = nil
		for n := 0; n <= 48; n++ {
			pt := seqBytes(n, 1)
			lay := []string{"fresh", "inplace"}[n%2]
			ls = append(ls, fmt.Sprintf("cbcenc %s %s %s %s", lay, hx(key), hx(iv), hx(pt)))
			ls = append(ls, fmt.Sprintf("cbcdec %s %s %s %s", []string{"inplace", "fresh"}[n%2], hx(key), hx(iv), hx(rawCBC(key, iv, stdPad16(pt)))))
		}
		add(ls...)
	}
	// the private un-padding inside CBC decryption: every claimed padding length 0..18 (and 255),
	// with the run correct / one byte of the run wrong at every position
	key := seqBytes(32, 7)
	iv := seqBytes(16, 9)
	ls = nil
	for _, n := range []int{0, 1, 2, 3, 4, 5, 6, 7, 8, 9, 10, 11, 12, 13, 14, 15, 16, 17, 18, 255} {
		p := seqBytes(32, 0x41)
		run := n
		if run > 16 {
			run = 16
		}
		for i := 32 - run; i < 32; i++ {
			p[i] = byte(n)
		}
		p[31] = byte(n)
		ls = append(ls, fmt.Sprintf("cbcdec fresh %s %s %s", hx(key), hx(iv), hx(rawCBC(key, iv, p))))
		for w := 32 - run; w < 31; w++ {
			q := append([]byte{}, p...)
			q[w] ^= 0x01
			ls = append(ls, fmt.Sprintf("cbcdec inplace %s %s %s", hx(key), hx(iv), hx(rawCBC(key, iv, q))))
		}
	}
	add(ls...)
	// a single block that is all padding: plaintext is empty
	add(fmt.Sprintf("cbcdec inplace %s %s %s", hx(key), hx(iv), hx(rawCBC(key, iv, bytes.Repeat([]byte{16}, 16)))))
	// bad lengths and bad keys
	add("cbcdec fresh "+hx(key)+" "+hx(iv)+" -",
		"cbcdec fresh "+hx(key)+" "+hx(iv)+" "+hx(seqBytes(15, 0)),
		"cbcdec inplace "+hx(key)+" "+hx(iv)+" "+hx(seqBytes(17, 0)),
		"cbcdec fresh "+hx(seqBytes(31, 0))+" "+hx(iv)+" "+hx(seqBytes(16, 0)),
		"cbcenc fresh - "+hx(iv)+" 00",
		"cbcenc inplace "+hx(seqBytes(33, 0))+" "+hx(iv)+" 00",
		"gcmenc fresh "+hx(seqBytes(17, 0))+" "+hx(seqBytes(12, 0))+" - 00",
		"gcmenc fresh "+hx(seqBytes(16, 0))+" - - 00",
		"gcmdec inplace "+hx(seqBytes(16, 0))+" - - "+hx(seqBytes(16, 0)),
		"gcmdec fresh "+hx(seqBytes(16, 0))+" "+hx(seqBytes(12, 0))+" - -",
		"gcmdec inplace "+hx(seqBytes(16, 0))+" "+hx(seqBytes(12, 0))+" - "+hx(seqBytes(15, 0)))
	// PKCS7 public functions: boundaries of the block size and of the data length
	ls = nil
	for _, b := range []int{-1, 0, 1, 2, 8, 16, 255, 256, 300} {
		for _, n := range []int{0, 1, 7, 8, 9, 16, 255, 256} {
			ls = append(ls, fmt.Sprintf("pad %s %d", hx(seqBytes(n, 3)), b))
		}
	}
	ls = append(ls, "pad5 -", "pad5 01", "pad5 0102030405060708", "unpad5 -", "unpad5 0107070707070707", "unpad5 0808080808080808", "unpad5 0102030405060709")
	for _, x := range []string{"-", "01", "00", "02", "0202", "0102", "0201", "030303", "03030303", "0303030303", "ff", "0101"} {
		for _, b := range []int{-1, 0, 1, 2, 3, 4, 5} {
			ls = append(ls, fmt.Sprintf("unpad %s %d", x, b))
		}
	}
	add(ls...)
	// GCM: empty plaintext, block-aligned, all key sizes, odd nonce sizes, with/without AD, both layouts
	ls = nil
	for _, ks := range []int{16, 24, 32} {
		for _, ns := range []int{12, 1, 8, 13, 16} {
			for _, n := range []int{0, 1, 15, 16, 17, 32, 33} {
				k, nonce, ad, pt := seqBytes(ks, 1), seqBytes(ns, 2), seqBytes(n%3*5, 3), seqBytes(n, 4)
				lay := []string{"fresh", "inplace"}[(n+ns)%2]
				ls = append(ls, fmt.Sprintf("gcmenc %s %s %s %s %s", lay, hx(k), hx(nonce), hx(ad), hx(pt)))
				blk, _ := aes.NewCipher(k)
				g, _ := cipher.NewGCMWithNonceSize(blk, ns)
				ls = append(ls, fmt.Sprintf("gcmdec %s %s %s %s %s", lay, hx(k), hx(nonce), hx(ad), hx(g.Seal(nil, nonce, pt, ad))))
			}
		}
	}
	add(ls...)
	// dst longer / shorter than documented (off contract, model comparison only): the hazards are
	// (a) a block-aligned plaintext with dst = len(plaintext): encrypted WITHOUT padding, no error;
	// (b) dst longer by whole blocks: the tail of dst is encrypted too / un-padded instead of the text;
	// (c) dst not a multiple of 16 / shorter than the input: crypto/cipher panics;
	// (d) GCM with a dst that is too short: Seal/Open allocate, dst is left untouched, no error.
	ls = nil
	for _, n := range []int{0, 1, 15, 16, 17, 32} {
		pt := seqBytes(n, 1)
		for _, off := range []string{"+1", "+15", "+16", "+32", "-1", "-15", "-16"} {
			ls = append(ls, fmt.Sprintf("cbcenc fresh%s %s %s %s", off, hx(key), hx(iv), hx(pt)))
			ls = append(ls, fmt.Sprintf("gcmenc fresh%s %s %s - %s", off, hx(key), hx(seqBytes(12, 2)), hx(pt)))
		}
		for _, off := range []string{"+1", "+16", "-1"} {
			if off[0] == '-' && n%16 == 15 {
				continue
			}
			ls = append(ls, fmt.Sprintf("cbcenc inplace%s %s %s %s", off, hx(key), hx(iv), hx(pt)))
		}
		ct := rawCBC(key, iv, stdPad16(pt))
		for _, off := range []string{"+1", "+2", "+15", "+16", "+17", "+32", "-1", "-16"} {
			ls = append(ls, fmt.Sprintf("cbcdec fresh%s %s %s %s", off, hx(key), hx(iv), hx(ct)))
		}
		blk, _ := aes.NewCipher(key)
		g, _ := cipher.NewGCM(blk)
		sealed := g.Seal(nil, seqBytes(12, 2), pt, nil)
		for _, off := range []string{"+1", "+16", "-1", "-16"} {
			ls = append(ls, fmt.Sprintf("gcmdec fresh%s %s %s - %s", off, hx(key), hx(seqBytes(12, 2)), hx(sealed)))
		}
	}
	cs = append(cs, core.Case{Lines: append([]string{"@ C08 x"}, ls...), Tag: "offcontract"})
	// HISTORIES, enumerated: the key buffer overwritten in place by another key of the same
	// length between two calls, for every key size and every ordered pair of helpers; the third
	// call decrypts, with the buffer holding key 2, a message made under key 1 (must not open).
	hOps := []string{"cbcenc", "cbcdec", "gcmenc", "gcmdec"}
	nonce12 := seqBytes(12, 0x70)
	mkH := func(op string, k, msgKey []byte, n int) string {
		pt := seqBytes(n, 0x31)
		switch op {
		case "cbcenc":
			return fmt.Sprintf("cbcenc fresh %s %s %s", hx(k), hx(iv), hx(pt))
		case "cbcdec":
			return fmt.Sprintf("cbcdec inplace %s %s %s", hx(k), hx(iv), hx(rawCBC(msgKey, iv, stdPad16(pt))))
		case "gcmenc":
			return fmt.Sprintf("gcmenc inplace %s %s 6164 %s", hx(k), hx(nonce12), hx(pt))
		}
		blk, _ := aes.NewCipher(msgKey)
		g, _ := cipher.NewGCM(blk)
		return fmt.Sprintf("gcmdec fresh %s %s 6164 %s", hx(k), hx(nonce12), hx(g.Seal(nil, nonce12, pt, []byte("ad"))))
	}
	for _, ks := range []int{16, 24, 32} {
		k1 := seqBytes(ks, 0x01)
		k2 := append([]byte{}, k1...)
		k2[ks-1] ^= 0x01 // one bit apart
		k3 := seqBytes(ks, 0x81)
		for _, a := range hOps {
			for _, b := range hOps {
				cs = append(cs, core.Case{Lines: []string{"@ C08 hist", mkH(a, k1, k1, 20), mkH(b, k2, k2, 33),
					mkH("gcmdec", k2, k1, 5), mkH("cbcdec", k3, k2, 16), mkH(a, k3, k3, 0)}, Tag: "history"})
			}
		}
	}
	// KEYS WITH A COMMON CHEAP IDENTITY, enumerated: for every weak identity × key size two different
	// keys that agree on it, used in consecutive calls of every helper pair; the message of the third
	// call was made under the OTHER key and must not open
	for pi, kp := range collisionPairs() {
		a, b := hOps[pi%4], hOps[(pi/4)%4]
		cs = append(cs, core.Case{Lines: []string{"@ C08 hist", mkH(a, kp.k1, kp.k1, 20), mkH(b, kp.k2, kp.k2, 33),
			mkH("gcmdec", kp.k2, kp.k1, 5), mkH("cbcenc", kp.k1, kp.k1, 16), mkH("cbcdec", kp.k2, kp.k2, 7),
			mkH("gcmenc", kp.k1, kp.k1, 0), mkH("gcmenc", kp.k2, kp.k2, 0)}, Tag: "history"})
	}
	// KEYS THAT AGREE ON A PART, enumerated (process-wide state keyed by part of the input): for every
	// kind of relation (one key the other followed by zeros — 16→24, 16→32, 24→32, all-zero keys;
	// same first 16 / first 24 bytes across and within sizes; same last 16 bytes) and BOTH orders,
	// the same helper called under key A then under key B with everything else equal (a memo that
	// confuses the two gives B's call A's answer), then a message made under B that must open under
	// B and one made under A that must NOT open under B; CBC and GCM
	{
		cat := func(xs ...[]byte) []byte {
			var o []byte
			for _, x := range xs {
				o = append(o, x...)
			}
			return o
		}
		z := func(n int) []byte { return make([]byte, n) }
		// fresh material per (relation, order): no two grid cases share a key part (except the
		// all-zero keys), so a case does not depend on what an earlier one left in a memo
		mkRel := func(v int) [][2][]byte {
			b16, x8, y8, w8 := seqBytes(16, byte(7*v)), seqBytes(8, byte(0xb1+5*v)), seqBytes(8, byte(0x3d+11*v)), seqBytes(8, byte(0x59+13*v))
			return [][2][]byte{
				{b16, cat(b16, z(8))}, {b16, cat(b16, z(16))}, {cat(b16, x8), cat(b16, x8, z(8))}, {cat(b16, z(8)), cat(b16, z(16))},
				{z(16), z(24)}, {z(16), z(32)}, {z(24), z(32)},
				{b16, cat(b16, x8)}, {b16, cat(b16, x8, y8)}, {cat(b16, x8), cat(b16, x8, y8)},
				{cat(b16, x8), cat(b16, y8)}, {cat(b16, x8, y8), cat(b16, y8, x8)}, {cat(b16, x8, y8), cat(b16, x8, w8)},
				{b16, cat(x8, b16)}, {b16, cat(x8, y8, b16)}, {cat(x8, b16), cat(y8, b16)}, {cat(x8, y8, b16), cat(y8, w8, b16)},
			}
		}
		for ri := range mkRel(0) {
			for ord := 0; ord < 2; ord++ {
				p := mkRel(1 + 2*ri + ord)[ri]
				ka, kb := p[ord], p[1-ord]
				nn := seqBytes([]int{12, 12, 8, 16}[(ri+ord)%4], byte(0x70+ri))
				mkG := func(op string, k, msgKey []byte, n int) string {
					pt := seqBytes(n, 0x31)
					if op == "gcmenc" {
						return fmt.Sprintf("gcmenc %s %s %s 6164 %s", []string{"fresh", "inplace"}[(ri+n)%2], hx(k), hx(nn), hx(pt))
					}
					blk, _ := aes.NewCipher(msgKey)
					g, _ := cipher.NewGCMWithNonceSize(blk, len(nn))
					return fmt.Sprintf("gcmdec %s %s %s 6164 %s", []string{"inplace", "fresh"}[(ri+n)%2], hx(k), hx(nn), hx(g.Seal(nil, nn, pt, []byte("ad"))))
				}
				cs = append(cs, core.Case{Lines: []string{"@ C08 hist",
					mkG("gcmenc", ka, ka, 20), mkG("gcmenc", kb, kb, 20), mkG("gcmdec", kb, kb, 5), mkG("gcmdec", kb, ka, 5),
					mkG("gcmdec", ka, ka, 17), mkG("gcmenc", ka, ka, 0)}, Tag: "history"})
				cs = append(cs, core.Case{Lines: []string{"@ C08 hist",
					mkH("cbcenc", ka, ka, 20), mkH("cbcenc", kb, kb, 20), mkH("cbcdec", kb, kb, 5), mkH("cbcdec", kb, ka, 5),
					mkH("cbcdec", ka, ka, 16), mkG("gcmdec", ka, ka, 3), mkG("gcmdec", kb, kb, 3), mkH("cbcenc", ka, ka, 0)}, Tag: "history"})
			}
		}
		// THE SAME KEY, ANOTHER NONCE LENGTH / ANOTHER IV, enumerated: an AEAD retained for the key
		// alone was built for the first nonce size (Seal/Open then panic or answer for the wrong
		// size); a BlockMode retained for the key alone carries the first call's iv and chain.
		// Nonces related by content (a prefix / zero extension of the other) and unrelated.
		for ki, ks := range []int{16, 24, 32} {
			k := seqBytes(ks, byte(0x13+ki))
			blk, _ := aes.NewCipher(k)
			n12 := seqBytes(12, 0x44)
			for pi, np := range [][2][]byte{{n12, n12[:8]}, {n12, cat(n12, z(4))}, {n12, seqBytes(13, 0x90)}, {seqBytes(16, 0x91), seqBytes(1, 0x92)},
				{n12, cat(n12, z(20))}, {seqBytes(7, 0x93), seqBytes(11, 0x94)}} {
				for ord := 0; ord < 2; ord++ {
					na, nb := np[ord], np[1-ord]
					ga, _ := cipher.NewGCMWithNonceSize(blk, len(na))
					gb, _ := cipher.NewGCMWithNonceSize(blk, len(nb))
					pt := seqBytes(19+pi, 0x31)
					lay := []string{"fresh", "inplace"}[(ki+pi+ord)%2]
					cs = append(cs, core.Case{Lines: []string{"@ C08 hist",
						fmt.Sprintf("gcmenc %s %s %s 6164 %s", lay, hx(k), hx(na), hx(pt)),
						fmt.Sprintf("gcmenc %s %s %s 6164 %s", lay, hx(k), hx(nb), hx(pt)),
						fmt.Sprintf("gcmdec %s %s %s 6164 %s", lay, hx(k), hx(na), hx(ga.Seal(nil, na, pt, []byte("ad")))),
						fmt.Sprintf("gcmdec %s %s %s 6164 %s", lay, hx(k), hx(nb), hx(gb.Seal(nil, nb, pt, []byte("ad")))),
						fmt.Sprintf("gcmdec %s %s %s 6164 %s", lay, hx(k), hx(nb), hx(ga.Seal(nil, na, pt, []byte("ad"))))}, Tag: "history"})
				}
			}
			iva, ivb := seqBytes(16, 0x21), seqBytes(16, 0x22)
			pt := seqBytes(33, 0x31)
			cs = append(cs, core.Case{Lines: []string{"@ C08 hist",
				fmt.Sprintf("cbcenc fresh %s %s %s", hx(k), hx(iva), hx(pt)),
				fmt.Sprintf("cbcenc inplace %s %s %s", hx(k), hx(iva), hx(pt)), // the same configuration twice
				fmt.Sprintf("cbcenc fresh %s %s %s", hx(k), hx(ivb), hx(pt)),
				fmt.Sprintf("cbcdec inplace %s %s %s", hx(k), hx(ivb), hx(rawCBC(k, ivb, stdPad16(pt)))),
				fmt.Sprintf("cbcdec fresh %s %s %s", hx(k), hx(ivb), hx(rawCBC(k, ivb, stdPad16(pt)))),
				fmt.Sprintf("cbcdec fresh %s %s %s", hx(k), hx(iva), hx(rawCBC(k, iva, stdPad16(pt)))),
				fmt.Sprintf("cbcenc fresh %s %s %s", hx(k), hx(iva), hx(pt))}, Tag: "history"})
		}
	}
	// AFTER A FAILURE, enumerated: a valid call under key 1, then a call with key 2 (buffer
	// overwritten in place) that must be rejected, then valid calls under key 2 — for every key
	// size, every kind of rejection and every helper that follows
	for ki, ks := range []int{16, 24, 32} {
		k1, k2 := seqBytes(ks, 0x21), seqBytes(ks, 0xa1)
		for ri, rk := range rejectedKinds {
			lay := []string{"fresh", "inplace"}[(ki+ri)%2]
			cs = append(cs, core.Case{Lines: []string{"@ C08 hist",
				mkH(hOps[ri%4], k1, k1, 18), mkRejected(rk, k2, iv, nonce12, seqBytes(21, 0x51), lay),
				mkH("gcmenc", k2, k2, 7), mkH("gcmdec", k2, k2, 30), mkH("cbcenc", k2, k2, 16), mkH("cbcdec", k2, k2, 1),
				mkRejected(rk, k1, iv, nonce12, seqBytes(3, 0x52), lay), mkH("gcmdec", k1, k1, 9), mkH("gcmdec", k1, k2, 9)}, Tag: "history"})
		}
	}
	// ARENA LAYOUTS, enumerated: each helper, both documented layouts, plaintext lengths around a
	// block, repeated so that the line text (hence the placement impl derives from it) varies:
	// 40 different iv/nonce values per shape
	for v := 0; v < 40; v++ {
		ivv, nn := seqBytes(16, byte(v)), seqBytes(12, byte(v))
		ls = nil
		for _, n := range []int{0, 5, 16, 31, 64} {
			pt := seqBytes(n, 0x61)
			lay := []string{"fresh", "fresh", "inplace"}[(v+n)%3]
			ls = append(ls, fmt.Sprintf("cbcenc %s %s %s %s", lay, hx(key), hx(ivv), hx(pt)),
				fmt.Sprintf("cbcdec %s %s %s %s", lay, hx(key), hx(ivv), hx(rawCBC(key, ivv, stdPad16(pt)))),
				fmt.Sprintf("gcmenc %s %s %s 6164 %s", lay, hx(key), hx(nn), hx(pt)),
				mkH("gcmdec", key, key, n))
		}
		cs = append(cs, core.Case{Lines: append([]string{"@ C08 arena"}, ls...), Tag: "arena"})
	}
	// BUFFER LEVEL, enumerated: PKCS7Padding into spare capacity for EVERY block size 1..255 (padding
	// fits exactly / one byte short / no spare / plenty); what a failed decryption leaves in dst
	ls = nil
	for b := 1; b <= 255; b++ {
		d := seqBytes(b%9+1, 0x21)
		pad := b - len(d)%b
		for _, extra := range []int{0, pad - 1, pad, pad + 5} {
			ls = append(ls, fmt.Sprintf("padcap %s %d %d", hx(d), b, extra))
		}
	}
	ls = append(ls, "padcap - 8 4", "padcap 0102 0 4", "padcap 0102 -3 4", "padcap 0102 256 300", "padcap 0102 300 400")
	cs = append(cs, core.Case{Lines: append([]string{"@ C08 x"}, ls...), Tag: "bufferlevel"})
	ls = nil
	for _, lay := range []string{"fresh", "inplace"} {
		good := rawCBC(key, iv, stdPad16(seqBytes(20, 0x61)))
		badpad := rawCBC(key, iv, append(seqBytes(31, 0x61), 0))
		badbytes := rawCBC(key, iv, append(seqBytes(29, 0x61), 9, 3, 3))
		ls = append(ls, fmt.Sprintf("cbcdecleft %s %s %s %s", lay, hx(key), hx(iv), hx(good)),
			fmt.Sprintf("cbcdecleft %s %s %s %s", lay, hx(key), hx(iv), hx(badpad)),
			fmt.Sprintf("cbcdecleft %s %s %s %s", lay, hx(key), hx(iv), hx(badbytes)),
			fmt.Sprintf("cbcdecleft %s %s %s %s", lay, hx(key), hx(iv), hx(good[:17])),
			fmt.Sprintf("cbcdecleft %s %s %s -", lay, hx(key), hx(iv)),
			fmt.Sprintf("cbcdecleft %s %s %s %s", lay, hx(key[:31]), hx(iv), hx(good)))
		blk, _ := aes.NewCipher(key)
		g, _ := cipher.NewGCM(blk)
		sealed := g.Seal(nil, nonce12, seqBytes(21, 0x41), []byte("ad"))
		flipped := append([]byte{}, sealed...)
		flipped[3] ^= 1
		ls = append(ls, fmt.Sprintf("gcmdecleft %s %s %s 6164 %s", lay, hx(key), hx(nonce12), hx(sealed)),
			fmt.Sprintf("gcmdecleft %s %s %s 6164 %s", lay, hx(key), hx(nonce12), hx(flipped)),
			fmt.Sprintf("gcmdecleft %s %s %s 6165 %s", lay, hx(key), hx(nonce12), hx(sealed)),
			fmt.Sprintf("gcmdecleft %s %s %s 6164 %s", lay, hx(key), hx(nonce12), hx(sealed[:15])),
			fmt.Sprintf("gcmdecleft %s %s %s 6164 %s", lay, hx(key), hx(nonce12), hx(sealed[:16])),
			fmt.Sprintf("gcmdecleft %s %s - 6164 %s", lay, hx(key), hx(sealed)),
			fmt.Sprintf("gcmdecleft %s %s %s 6164 %s", lay, hx(key[:17]), hx(nonce12), hx(sealed)))
	}
	cs = append(cs, core.Case{Lines: append([]string{"@ C08 x"}, ls...), Tag: "bufferlevel"})
	// MAGNITUDES, enumerated: every key length 0..70, every nonce length 0..40, every AD length
	// 0..100, plaintext lengths at every block boundary up to 208, every PKCS#7 block size 1..255
	ls = nil
	for n := 0; n <= 70; n++ {
		k := seqBytes(n, 9)
		ls = append(ls, fmt.Sprintf("%s %s %s %s 0102", []string{"cbcenc", "cbcdec"}[n%2], []string{"fresh", "inplace"}[n/2%2], hx(k), hx(iv)),
			fmt.Sprintf("%s fresh %s %s - %s", []string{"gcmenc", "gcmdec"}[n/2%2], hx(k), hx(nonce12), hx(seqBytes(17, 1))))
	}
	cs = append(cs, core.Case{Lines: append([]string{"@ C08 x"}, ls...), Tag: "magnitude"})
	ls = nil
	blk32, _ := aes.NewCipher(key)
	for n := 0; n <= 100; n++ {
		a := seqBytes(n, 0x90)
		ls = append(ls, fmt.Sprintf("gcmenc %s %s %s %s %s", []string{"fresh", "inplace"}[n%2], hx(key), hx(nonce12), hx(a), hx(seqBytes(n%19, 2))))
		if n >= 1 && n <= 40 {
			nn := seqBytes(n, 0x33)
			g, _ := cipher.NewGCMWithNonceSize(blk32, n)
			ls = append(ls, fmt.Sprintf("gcmenc fresh %s %s %s 010203", hx(key), hx(nn), hx(a)),
				fmt.Sprintf("gcmdec inplace %s %s %s %s", hx(key), hx(nn), hx(a), hx(g.Seal(nil, nn, seqBytes(n, 5), a))))
		}
	}
	cs = append(cs, core.Case{Lines: append([]string{"@ C08 x"}, ls...), Tag: "magnitude"})
	ls = nil
	for k := 3; k <= 13; k++ {
		for _, d := range []int{-1, 0, 1} {
			pt := seqBytes(16*k+d, 0x40)
			lay := []string{"fresh", "inplace"}[(k+d+1)%2]
			ls = append(ls, fmt.Sprintf("cbcenc %s %s %s %s", lay, hx(key), hx(iv), hx(pt)),
				fmt.Sprintf("cbcdec %s %s %s %s", lay, hx(key), hx(iv), hx(rawCBC(key, iv, stdPad16(pt)))),
				fmt.Sprintf("gcmenc %s %s %s - %s", lay, hx(key), hx(nonce12), hx(pt)))
		}
	}
	cs = append(cs, core.Case{Lines: append([]string{"@ C08 x"}, ls...), Tag: "magnitude"})
	ls = nil
	for b := 1; b <= 255; b++ {
		d := seqBytes(b+b%7+1, 0x11)
		padded := append(append([]byte{}, d...), bytes.Repeat([]byte{byte(b - len(d)%b)}, b-len(d)%b)...)
		ls = append(ls, fmt.Sprintf("pad %s %d", hx(d), b), fmt.Sprintf("unpad %s %d", hx(padded), b))
		// the data padded for block size 2b (or 255) un-padded with block size b: pad length > b
		if b <= 127 {
			x := append(append([]byte{}, seqBytes(b-1, 0x11)...), bytes.Repeat([]byte{byte(b + 1)}, b+1)...)
			ls = append(ls, fmt.Sprintf("unpad %s %d", hx(x), b)) // length 2b, last b+1 bytes = b+1: must be an error
		}
	}
	cs = append(cs, core.Case{Lines: append([]string{"@ C08 x"}, ls...), Tag: "magnitude"})
	return cs
}

// ---------- extras

// every byte string of length ≤ 5 over {0,1,2,3,4,5} against every block size 1..6
func extraUnpadExhaustive(ctx *core.Ctx) (int, string, []core.ExtraFailure) {
	evals := 0
	var fails []core.ExtraFailure
	alpha := []byte{0, 1, 2, 3, 4, 5}
	var rec func(x []byte)
	rec = func(x []byte) {
		for b := 1; b <= 6; b++ {
			evals++
			line := fmt.Sprintf("unpad %s %d", hx(x), b)
			c := core.Case{Lines: []string{"@ C08 x", line}}
			out := impl(c)
			if f := check(c, out); f != nil && len(fails) < 3 {
				fails = append(fails, core.ExtraFailure{Failure: *f, Payload: map[string]any{"lines": c.Lines, "impl_out": out}})
			}
		}
		if len(x) == 5 {
			return
		}
		for _, a := range alpha {
			rec(append(append([]byte{}, x...), a))
		}
	}
	rec(nil)
	return evals, fmt.Sprintf("PKCS7UnPadding on all %d (bytes over {0..5} of length ≤ 5) × (block size 1..6) inputs vs the definition of PKCS#7", evals), fails
}

// all single-bit flips of ciphertext‖tag, nonce and additional data must make
// AESGCMDecrypt fail (cryptographic clause: exercised, not proved)
func extraBitFlips(ctx *core.Ctx) (int, string, []core.ExtraFailure) {
	evals := 0
	var fails []core.ExtraFailure
	msgs := 6
	if ctx.Tier == "thorough" {
		msgs = 120
	}
	r := ctx.Rand.Fork()
	for m := 0; m < msgs; m++ {
		key := r.Bytes([]int{16, 24, 32}[m%3])
		nonce := r.Bytes([]int{12, 12, 8, 16}[m%4])
		ad := r.Bytes((m % 2) * r.Range(1, 20))
		pt := r.Bytes(genLen(r))
		ct := make([]byte, cryptz.AESGCMEncryptLen(pt))
		if err := cryptz.AESGCMEncrypt(ct, pt, key, nonce, ad); err != nil {
			fails = append(fails, core.ExtraFailure{Failure: core.Failure{Key: "gcm-encrypt-wrong", Desc: err.Error()}})
			continue
		}
		try := func(what string, ct2, nonce2, ad2 []byte) {
			for _, lay := range []string{"fresh", "inplace"} {
				evals++
				in := append([]byte{}, ct2...)
				n := cryptz.AESGCMDecryptLen(in)
				if n < 0 {
					n = 0
				}
				dst := make([]byte, n)
				if lay == "inplace" {
					dst = in[:n]
				}
				var err error
				res := core.Guard(func() string {
					err = cryptz.AESGCMDecrypt(dst, in, key, append([]byte{}, nonce2...), append([]byte{}, ad2...))
					return "ok"
				})
				if (err == nil || res == "panic") && len(fails) < 3 {
					k, dsc := "gcm-decrypt-accepts-forgery", "AESGCMDecrypt accepted a message after "+what
					if res == "panic" {
						k, dsc = "gcmdec-panic", "AESGCMDecrypt panicked after "+what
					}
					fails = append(fails, core.ExtraFailure{
						Failure: core.Failure{Key: k, Desc: dsc},
						Payload: map[string]any{"lines": []string{"@ C08 x", fmt.Sprintf("gcmdec %s %s %s %s %s", lay, hx(key), hx(nonce2), hx(ad2), hx(ct2))}},
					})
				}
			}
		}
		flips := func(b []byte, f func(x []byte, bit int)) {
			for i := 0; i < len(b)*8; i++ {
				x := append([]byte{}, b...)
				x[i/8] ^= 1 << (i % 8)
				f(x, i)
			}
		}
		flips(ct, func(x []byte, bit int) {
			what := "flipping one bit of the ciphertext"
			if bit/8 >= len(ct)-16 {
				what = "flipping one bit of the tag"
			}
			try(what, x, nonce, ad)
		})
		flips(nonce, func(x []byte, _ int) { try("flipping one bit of the nonce", ct, x, ad) })
		flips(ad, func(x []byte, _ int) { try("flipping one bit of the additional data", ct, nonce, x) })
		// truncation at every length (also below the tag size, also to nothing), one byte
		// dropped at the front, extension by one byte / one block, AD and nonce shortened or
		// extended by one byte, AD dropped altogether / invented
		for n := 0; n < len(ct); n++ {
			try(fmt.Sprintf("truncating ciphertext‖tag to %d of %d bytes", n, len(ct)), ct[:n], nonce, ad)
		}
		try("dropping the first byte", ct[1:], nonce, ad)
		try("appending one zero byte", append(append([]byte{}, ct...), 0), nonce, ad)
		try("appending a block", append(append([]byte{}, ct...), ct[len(ct)-16:]...), nonce, ad)
		try("appending a zero byte to the additional data", ct, nonce, append(append([]byte{}, ad...), 0))
		if len(ad) > 0 {
			try("truncating the additional data", ct, nonce, ad[:len(ad)-1])
			try("dropping the additional data", ct, nonce, nil)
		} else {
			try("inventing additional data", ct, nonce, []byte{0})
		}
		try("appending a zero byte to the nonce", ct, append(append([]byte{}, nonce...), 0), ad)
		if len(nonce) > 1 {
			try("truncating the nonce", ct, nonce[:len(nonce)-1], ad)
		}
		// and the untouched message still opens
		evals++
		dst := make([]byte, len(pt))
		if err := cryptz.AESGCMDecrypt(dst, append([]byte{}, ct...), key, nonce, ad); err != nil || !bytes.Equal(dst, pt) {
			fails = append(fails, core.ExtraFailure{Failure: core.Failure{Key: "gcm-decrypt-wrong", Desc: "round trip failed"}})
		}
	}
	return evals, fmt.Sprintf("%d messages (AD non-empty in every second one) × {every single-bit flip of ciphertext, tag, nonce, AD; truncation at every length; one-byte/one-block extension; AD/nonce one byte shorter/longer} × {fresh, in-place}: all rejected, none panics (exercised; the cryptographic clause is partial)", msgs), fails
}

// plaintexts far longer than the 0..80 bytes of the correspondence stream (the Lean AES is too
// slow for them): sizes around 255/256, 4 KiB, 64 KiB, both layouts, all key sizes, against
// crypto/cipher only.  Guards against anything that clips or wraps a length (uint8/uint16,
// a fixed scratch buffer).
func extraLargeInputs(ctx *core.Ctx) (int, string, []core.ExtraFailure) {
	r := ctx.Rand.Fork()
	sizes := []int{254, 255, 256, 257, 1023, 4095, 4096, 4097, 65535, 65536, 65537}
	evals := 0
	var fails []core.ExtraFailure
	for i, n := range sizes {
		key := r.Bytes([]int{16, 24, 32}[i%3])
		iv, nonce, ad := r.Bytes(16), r.Bytes(12), r.Bytes((i%2)*n)
		pt := r.Bytes(n)
		for _, lay := range []string{"fresh", "inplace"} {
			lines := []string{"@ C08 x",
				fmt.Sprintf("enclen %d", n),
				fmt.Sprintf("cbcenc %s %s %s %s", lay, hx(key), hx(iv), hx(pt)),
				fmt.Sprintf("cbcdec %s %s %s %s", lay, hx(key), hx(iv), hx(rawCBC(key, iv, stdPad16(pt)))),
				fmt.Sprintf("gcmenc %s %s %s %s %s", lay, hx(key), hx(nonce), hx(ad), hx(pt))}
			blk, _ := aes.NewCipher(key)
			g, _ := cipher.NewGCM(blk)
			lines = append(lines, fmt.Sprintf("gcmdec %s %s %s %s %s", lay, hx(key), hx(nonce), hx(ad), hx(g.Seal(nil, nonce, pt, ad))))
			c := core.Case{Lines: lines}
			out := impl(c)
			evals += len(lines) - 1
			if f := check(c, out); f != nil && len(fails) < 3 {
				if len(f.Desc) > 300 {
					f.Desc = f.Desc[:300] + "…"
				}
				fails = append(fails, core.ExtraFailure{Failure: *f, Payload: map[string]any{"plaintext_len": n, "layout": lay, "key": hx(key), "iv": hx(iv), "nonce": hx(nonce)}})
			}
		}
	}
	return evals, fmt.Sprintf("plaintext sizes %v × {fresh, in-place} × key sizes: length helper, AESCBCEncrypt/Decrypt, AESGCMEncrypt/Decrypt (AD as long as the plaintext in every second one) equal crypto/cipher", sizes), fails
}


// AESCBCDecrypt / AESCBCEncrypt on "plaintext of any length": 4–6 MiB, separate dst and in place,
// with the scheduler as it is and with GOMAXPROCS(1) (a helper goroutine of the library then
// starts only when the caller blocks: anything that reads its input "live" instead of taking a
// copy first sees memory the caller has already overwritten in place).  Compared with
// crypto/cipher only (no hex protocol at this size).  Sizes around 4 MiB in every tier; the
// bigger ones in the thorough tier and on anchor drift.
func extraHugeCBC(ctx *core.Ctx) (int, string, []core.ExtraFailure) {
	sizes := []int{4<<20 - 16, 4 << 20, 4<<20 + 16}
	if ctx.Tier == "thorough" || ctx.Escalate > 1 {
		sizes = append(sizes, 1<<20+16, 2<<20, 4<<20+64<<10+16, 5<<20+48, 6 << 20, 8<<20 + 16)
	}
	r := ctx.Rand.Fork()
	evals := 0
	var fails []core.ExtraFailure
	for si, n := range sizes {
		seed := r.Uint64()
		dr := core.NewRand(seed)
		key := dr.Bytes([]int{16, 24, 32}[si%3])
		iv := dr.Bytes(16)
		pt := dr.Bytes(n - 1 - si%15) // padded length = n
		want := rawCBC(key, iv, stdPad16(pt))
		for _, procs := range []int{0, 1} {
			for _, lay := range []string{"fresh", "inplace"} {
				evals++
				var msg string
				run := func() {
					if procs > 0 {
						old := runtime.GOMAXPROCS(procs)
						defer runtime.GOMAXPROCS(old)
					}
					// encrypt
					encLen := cryptz.AESCBCEncryptLen(pt)
					var dst, src []byte
					if lay == "fresh" {
						dst, src = make([]byte, encLen), append([]byte{}, pt...)
					} else {
						buf := make([]byte, encLen)
						copy(buf, pt)
						dst, src = buf, buf[:len(pt)]
					}
					if err := cryptz.AESCBCEncrypt(dst, src, key, iv); err != nil || !bytes.Equal(dst, want) {
						msg = fmt.Sprintf("AESCBCEncrypt: err=%v, result differs from standard CBC over the padded plaintext (first difference at byte %d)", err, firstDiff(dst, want))
						return
					}
					// decrypt
					ct := append([]byte{}, want...)
					out := ct
					if lay == "fresh" {
						out = make([]byte, len(ct))
					}
					m, err := cryptz.AESCBCDecrypt(out, ct, key, iv)
					if err != nil || m != len(pt) || !bytes.Equal(out[:len(pt)], pt) {
						d := -1
						if m <= len(out) && m >= 0 {
							d = firstDiff(out[:min(len(pt), len(out))], pt)
						}
						msg = fmt.Sprintf("AESCBCDecrypt: n=%d err=%v, want n=%d and the plaintext back (first difference at byte %d)", m, err, len(pt), d)
					}
				}
				if core.Guard(func() string { run(); return "" }) == "panic" {
					msg = "panic"
				}
				if msg != "" && len(fails) < 3 {
					fails = append(fails, core.ExtraFailure{
						Failure: core.Failure{Key: "cbc-huge-" + lay, Desc: fmt.Sprintf("padded length %d, layout %s, GOMAXPROCS %d: %s", len(want), lay, procs, msg)},
						Payload: map[string]any{"regenerate": "dr := core.NewRand(data_seed); key := dr.Bytes(key_len); iv := dr.Bytes(16); pt := dr.Bytes(plaintext_len)",
							"data_seed": seed, "key_len": len(key), "plaintext_len": len(pt), "layout": lay, "gomaxprocs": procs, "key": hx(key), "iv": hx(iv)},
					})
				}
			}
		}
	}
	return evals, fmt.Sprintf("AESCBCEncrypt + AESCBCDecrypt on padded lengths %v × {separate dst, in place} × {GOMAXPROCS as is, 1}: equal to crypto/cipher", sizes), fails
}

func firstDiff(a, b []byte) int {
	for i := 0; i < len(a) && i < len(b); i++ {
		if a[i] != b[i] {
			return i
		}
	}
	if len(a) != len(b) {
		return min(len(a), len(b))
	}
	return -1
}
