// Package c08: AES-CBC/GCM helpers and PKCS#7 padding (cryptz/aes.go).
//
// Every op line is one self-contained call into cryptz; the Lean model answers the same
// line with its own AES/GCM/PKCS#7.  The independent oracle (Check) uses only the Go
// standard library (crypto/aes, crypto/cipher) and a direct definition of PKCS#7.
package c08

import (
	"bytes"
	"crypto/aes"
	"crypto/cipher"
	"encoding/binary"
	"encoding/hex"
	"fmt"
	"hash/fnv"
	"strconv"
	"strings"
	"sync"

	"github.com/welllog/golib/cryptz"

	"verifharness/internal/core"
)

func init() {
	core.Register(&core.Prop{
		ID:         "C08",
		Title:      "AES-CBC/GCM helpers and PKCS#7 padding invert exactly and reject bad input",
		Quick:      4000,
		Thorough:   150000,
		Gen:        gen,
		Corpus:     corpus,
		Impl:       impl,
		Check:      check,
		Shrink:     shrink,
		NonTrivial: nonTrivial,
		Rule: "1-5 self-contained calls per case (length helpers, PKCS7/PKCS5 pad+unpad, AESCBCEncrypt/Decrypt and AESGCMEncrypt/Decrypt in the fresh and in-place layouts; " +
			"keys 16/24/32 and invalid sizes, plaintexts 0..80 bytes biased to block boundaries, near-valid paddings, truncated/bit-flipped ciphertexts); " +
			"histories (`hist`, 4-12 calls of one process over shared buffers): key changed in place, keys with a common cheap checksum, FAMILIES of keys that agree on a part of the key " +
			"(zero extension to another size, same first 16/24 or last 16 bytes), the nonce size / the iv changed under one key; each call judged on its own; " +
			"non-trivial = at least one call got past the argument checks (output `ok …` or a padding / authentication error); distinct by hash of the lines",
		Classify: classify,
		Parallel: true,
		Facts:    facts,
		Extras: []core.Extra{
			{Name: "unpad-exhaustive-small", Run: extraUnpadExhaustive},
			{Name: "gcm-all-single-bit-flips", Run: extraBitFlips},
			{Name: "large-inputs", Run: extraLargeInputs},
			{Name: "huge-cbc-4MiB", Run: extraHugeCBC},
		},
		Assumptions: []string{
			"AES is a permutation per key (D k (E k x) = x) and GCM Open(Seal(p)) = p: hypotheses of the parametric Lean theorems; the executable Lean AES/GCM instances are validated against FIPS-197 / GCM-spec vectors at build time and against crypto/aes, crypto/cipher on every run",
			"dst is sized with the library's own length helper and has cap = len (documented layouts: fresh buffer, or the buffer that holds the input); longer dst is not generated",
			"tamper evidence of GCM (any change to ciphertext/tag/nonce/AD makes decryption fail) is cryptographic: exercised by all single-bit flips on the real code, not a theorem (partial)",
			"Go int treated as unbounded",
		},
		TrustedBase: []string{
			"crypto/aes, crypto/cipher (CBC, GCM) of the installed Go toolchain as the independent reference",
		},
	})
}

// ---------- protocol helpers

func hx(b []byte) string {
	if len(b) == 0 {
		return "-"
	}
	return hex.EncodeToString(b)
}

func unhx(s string) ([]byte, bool) {
	if s == "-" {
		return []byte{}, true
	}
	b, err := hex.DecodeString(s)
	return b, err == nil
}

func errClass(err error) string {
	m := err.Error()
	switch {
	case strings.HasPrefix(m, "NewCipher error"):
		return "err:key"
	case strings.HasPrefix(m, "NewGCM error"):
		return "err:nonce"
	case strings.HasPrefix(m, "GCM Open error"):
		return "err:open"
	case m == "cipherText length illegal":
		return "err:len"
	case m == "invalid padding length":
		return "err:padlen"
	case m == "invalid padding bytes":
		return "err:padbytes"
	case m == "input data cannot be empty":
		return "err:empty"
	case m == "block size must be a positive integer":
		return "err:blocksize"
	case m == "input data length must be a multiple of block size":
		return "err:multiple"
	}
	return "err:?" + strings.ReplaceAll(m, " ", "_")
}

func fill(n int) []byte { return fillWith(n, 0xaa) }

// fillWith returns n bytes of value v with cap = len (an append must not find spare room).
func fillWith(n int, v byte) []byte {
	if n < 0 {
		n = 0
	}
	b := bytes.Repeat([]byte{v}, n)
	return b[:n:n]
}

// parseLayout: "fresh", "inplace" (documented: dst sized by the library's helper) or
// "fresh+K", "fresh-K", "inplace+K", "inplace-K": dst K bytes longer / shorter than documented
// (off contract: compared with the model only).
func parseLayout(s string) (kind string, d int, ok bool) {
	kind = s
	if i := strings.IndexAny(s, "+-"); i >= 0 {
		kind = s[:i]
		k, err := strconv.Atoi(s[i+1:])
		if err != nil || k <= 0 || strings.ContainsAny(s[i+1:], "+-") {
			return "", 0, false
		}
		d = k
		if s[i] == '-' {
			d = -k
		}
	}
	if kind != "fresh" && kind != "inplace" {
		return "", 0, false
	}
	return kind, d, true
}

func offLayout(t []string) bool {
	if len(t) < 2 {
		return false
	}
	switch t[0] {
	case "cbcenc", "cbcdec", "gcmenc", "gcmdec":
		return strings.ContainsAny(t[1], "+-")
	}
	return false
}

// ---------- the real code

func impl(c core.Case) []string {
	out := make([]string, 0, len(c.Lines))
	hdr := core.Toks(c.Lines[0])
	var hb *histBufs
	if len(hdr) == 3 && (hdr[2] == "hist" || hdr[2] == "arena") {
		// A history case must fail or pass because of ITS OWN calls, so that a replay (and every
		// candidate of the shrinker) behaves the same in a fresh process: it runs alone (no call
		// of another worker in between) and starts with warm-up calls on throw-away arguments,
		// which displace whatever a library-level memo still holds from earlier cases.
		implMu.Lock()
		defer implMu.Unlock()
		core.Guard(func() string { warmUp(); return "" })
	} else {
		implMu.RLock()
		defer implMu.RUnlock()
	}
	if len(hdr) == 3 && hdr[2] == "x" {
		out = append(out, "ok")
	} else if len(hdr) == 3 && hdr[2] == "hist" {
		// history mode: every call of the case takes its key, iv/nonce, additional data and
		// dst from the SAME harness-owned backing arrays, overwritten in place between calls
		out = append(out, "ok")
		hb = newHistBufs()
	} else if len(hdr) == 3 && hdr[2] == "arena" {
		// arena mode: dst, plaintext/ciphertext, key, iv/nonce and additional data of every call
		// are windows of ONE harness-owned arena (placement derived from the text of the line:
		// both orders, adjacent or with gaps, with or without spare capacity), the rest of the
		// arena holds canaries; after the call everything outside the dst window must be as before
		out = append(out, "ok")
		hb = newHistBufs()
		hb.arena = make([]byte, 1<<18)
	} else {
		out = append(out, "bad-op")
	}
	for li, l := range c.Lines[1:] {
		if hb != nil {
			hb.seed = lineSeed(l, li)
		}
		t := core.Toks(l)
		if out[0] != "ok" {
			out = append(out, "bad-op")
			continue
		}
		out = append(out, core.Guard(func() string { return step(t, hb) }))
	}
	return out
}

var implMu sync.RWMutex

// warmUp: calls of each helper family with arguments no case uses (own buffers): first
// flushKeys calls per family under keys NEVER USED BEFORE in this process (a counter feeds them),
// of the three sizes and several nonce sizes — every one a miss in any memo of expanded keys /
// AEADs, so a bounded memo (LRU, FIFO, wipe-when-full; up to flushKeys entries) no longer holds
// anything an earlier case put there — then one call per family under fixed keys, which
// displaces a one-entry memo deterministically.
const flushKeys = 160

var warmCtr uint64

func warmUp() {
	d := make([]byte, 32)
	iv := make([]byte, 16)
	for i := 0; i < flushKeys; i++ {
		warmCtr++
		k := make([]byte, []int{16, 24, 32}[i%3])
		// never all-zero in any 8-byte part, never equal to a key a generator makes (tagged)
		for j := 0; j < len(k); j += 8 {
			binary.LittleEndian.PutUint64(k[j:], (warmCtr*0x9e3779b97f4a7c15)^(uint64(j+1)*0xd6e8feb86659fd93)|1)
		}
		nonce := iv[:[]int{12, 12, 8, 16, 13}[i%5]]
		_ = cryptz.AESGCMEncrypt(d[:16], nil, k, nonce, nil)
		_ = cryptz.AESCBCEncrypt(d[:16], nil, k, iv)
		if i%8 == 0 {
			_ = cryptz.AESGCMDecrypt(d[:0], d[:16], k, nonce, nil)
			_, _ = cryptz.AESCBCDecrypt(d[16:], d[:16], k, iv)
		}
	}
	k := bytes.Repeat([]byte{0x5a}, 32)
	_ = cryptz.AESCBCEncrypt(d[:16], nil, k, iv)
	_, _ = cryptz.AESCBCDecrypt(make([]byte, 16), d[:16], bytes.Repeat([]byte{0x5b}, 24), iv)
	_ = cryptz.AESGCMEncrypt(d[:16], nil, bytes.Repeat([]byte{0x5c}, 16), make([]byte, 12), nil)
	_ = cryptz.AESGCMDecrypt(d[:0], d[:16], bytes.Repeat([]byte{0x5d}, 32), make([]byte, 12), nil)
}

// histBufs: the caller-owned buffers of a history case.  put(i, b) overwrites backing array i
// in place with b and returns the slice of that array holding it (same address every call, so
// a library that remembered the caller's slice instead of a copy sees the NEW bytes through
// its stale reference); fill(n, v) hands out the one dst array, re-filled.  nil receiver =
// the ordinary mode: fresh slices every call.
type histBufs struct {
	arr [4][]byte
	dst []byte
	// arena mode
	arena []byte
	seed  uint64
}

func lineSeed(l string, i int) uint64 {
	h := fnv.New64a()
	h.Write([]byte(l))
	_ = i // the placement depends on the text of the line only, so that a shrunk case keeps it
	return h.Sum64()
}

// place moves the arguments of one call into windows of the arena and returns the check to run
// after the call.  dst and src are separate windows, or — inplace — the same window (both
// start at its first byte, as in the documented layouts `dst = buf[:n]`, `src = buf[:m]`).
// The order of the windows, the gaps between them (0 = adjacent) and whether a window is cut
// with a capacity limit (`a[i:j:j]`) or left with the arena's spare capacity (`a[i:j]`, the way
// callers usually write it) are drawn from the seed of the line.  Everything that is not a
// window is canary bytes.  No-op outside arena mode.
func (h *histBufs) place(inplace bool, dst, src *[]byte, others ...*[]byte) func() string {
	if h == nil || h.arena == nil {
		return func() string { return "" }
	}
	r := core.NewRand(h.seed)
	type win struct {
		p    *[]byte
		n    int
		off  int
		name string
	}
	var ws []*win
	if inplace {
		n := len(*dst)
		if len(*src) > n {
			n = len(*src)
		}
		ws = append(ws, &win{p: nil, n: n, name: "dst/src"})
	} else {
		ws = append(ws, &win{p: dst, n: len(*dst), name: "dst"}, &win{p: src, n: len(*src), name: "src"})
	}
	names := []string{"key", "iv/nonce", "ad"}
	for i, o := range others {
		ws = append(ws, &win{p: o, n: len(*o), name: names[i%3]})
	}
	// order
	for i := len(ws) - 1; i > 0; i-- {
		j := r.Intn(i + 1)
		ws[i], ws[j] = ws[j], ws[i]
	}
	gaps := []int{0, 0, 0, 1, 1, 3, 15, 16, 17, 48, 64}
	off := []int{0, 0, 1, 16, 33}[r.Intn(5)]
	for _, w := range ws {
		off += gaps[r.Intn(len(gaps))]
		w.off = off
		off += w.n
	}
	total := off + []int{0, 1, 16, 64}[r.Intn(4)]
	if total > len(h.arena) {
		return func() string { return "" }
	}
	a := h.arena[:total]
	if r.Chance(50) {
		a = h.arena[:total:total] // the arena ends right behind the last window / canary
	}
	for i := range a {
		a[i] = byte(0xc1 + i%59)
	}
	cut := func(w *win, n int) []byte {
		if r.Chance(40) {
			return a[w.off : w.off+n : w.off+n]
		}
		return a[w.off : w.off+n]
	}
	dstOff, dstLen := 0, len(*dst)
	for _, w := range ws {
		if w.p == nil { // shared window
			// dst and src already alias one buffer: take the longer one's content
			long := *dst
			if len(*src) > len(long) {
				long = *src
			}
			copy(a[w.off:], long)
			dstOff = w.off
			ld, ls := len(*dst), len(*src)
			*dst, *src = cut(w, ld), cut(w, ls)
			continue
		}
		copy(a[w.off:], *w.p)
		if w.p == dst {
			dstOff = w.off
		}
		*w.p = cut(w, w.n)
	}
	snap := append([]byte{}, a...)
	return func() string {
		for i := range a {
			if a[i] != snap[i] && (i < dstOff || i >= dstOff+dstLen) {
				where := "canary"
				for _, w := range ws {
					if i >= w.off && i < w.off+w.n {
						where = w.name
					}
				}
				return fmt.Sprintf("arena-modified offset=%d (%s) dst=[%d,%d)", i, where, dstOff, dstOff+dstLen)
			}
		}
		return ""
	}
}

func newHistBufs() *histBufs {
	h := &histBufs{}
	for i := range h.arr {
		h.arr[i] = make([]byte, 512)
	}
	h.dst = make([]byte, 1<<17)
	return h
}

func (h *histBufs) put(i int, b []byte) []byte {
	if h == nil || len(b) > len(h.arr[i]) {
		return b
	}
	// zero the tail too: nothing of the previous call survives except the address
	for j := range h.arr[i] {
		h.arr[i][j] = 0
	}
	copy(h.arr[i], b)
	return h.arr[i][:len(b):len(b)]
}

func (h *histBufs) fill(n int, v byte) []byte {
	if n < 0 {
		n = 0
	}
	if h == nil || n > len(h.dst) {
		return fillWith(n, v)
	}
	d := h.dst[:n:n]
	for j := range d {
		d[j] = v
	}
	return d
}

func step(t []string, hb *histBufs) string {
	if len(t) == 0 {
		return "bad-op"
	}
	args := make([][]byte, len(t))
	switch t[0] {
	case "enclen", "declen", "gcmenclen", "gcmdeclen":
		if len(t) != 2 {
			return "bad-op"
		}
		n, err := strconv.Atoi(t[1])
		if err != nil || n < 0 {
			return "bad-op"
		}
		// exercised through both instantiations (string and []byte) of the generic helper
		b := make([]byte, n)
		s := string(b)
		var x, y int
		switch t[0] {
		case "enclen":
			x, y = cryptz.AESCBCEncryptLen(b), cryptz.AESCBCEncryptLen(s)
		case "declen":
			x, y = cryptz.AESCBCDecryptLen(b), cryptz.AESCBCDecryptLen(s)
		case "gcmenclen":
			x, y = cryptz.AESGCMEncryptLen(b), cryptz.AESGCMEncryptLen(s)
		case "gcmdeclen":
			x, y = cryptz.AESGCMDecryptLen(b), cryptz.AESGCMDecryptLen(s)
		}
		if x != y {
			return fmt.Sprintf("instantiations-differ %d %d", x, y)
		}
		return strconv.Itoa(x)
	case "pad", "unpad":
		if len(t) != 3 {
			return "bad-op"
		}
		d, ok := unhx(t[1])
		b, err := strconv.Atoi(t[2])
		if !ok || err != nil {
			return "bad-op"
		}
		in := append([]byte{}, d...)
		in = in[:len(in):len(in)] // cap = len: append must not write behind the caller's data
		var r []byte
		if t[0] == "pad" {
			r, err = cryptz.PKCS7Padding(in, b)
		} else {
			r, err = cryptz.PKCS7UnPadding(in, b)
		}
		if err != nil {
			return errClass(err)
		}
		if !bytes.Equal(in, d) {
			return "input-modified"
		}
		return "ok " + hx(r)
	case "pad5", "unpad5":
		if len(t) != 2 {
			return "bad-op"
		}
		d, ok := unhx(t[1])
		if !ok {
			return "bad-op"
		}
		in := append([]byte{}, d...)
		in = in[:len(in):len(in)]
		var r []byte
		var err error
		if t[0] == "pad5" {
			r, err = cryptz.PKCS5Padding(in)
		} else {
			r, err = cryptz.PKCS5UnPadding(in)
		}
		if err != nil {
			return errClass(err)
		}
		return "ok " + hx(r)
	case "padcap":
		// PKCS7Padding on a slice with spare capacity: buf = data ‖ extra canary bytes, in = buf[:len(data)]
		if len(t) != 4 {
			return "bad-op"
		}
		d, ok := unhx(t[1])
		b, err1 := strconv.Atoi(t[2])
		extra, err2 := strconv.Atoi(t[3])
		if !ok || err1 != nil || err2 != nil || extra < 0 || extra > 4096 {
			return "bad-op"
		}
		buf := append(append(make([]byte, 0, len(d)+extra), d...), bytes.Repeat([]byte{0xee}, extra)...)
		in := buf[:len(d):len(d)+extra]
		r, err := cryptz.PKCS7Padding(in, b)
		if err != nil {
			return errClass(err)
		}
		if !bytes.Equal(buf[:len(d)], d) {
			return "input-modified"
		}
		alias := 0
		if len(r) > 0 && len(buf) > 0 && &r[0] == &buf[0] {
			alias = 1
		}
		return fmt.Sprintf("ok %s spare=%s alias=%d", hx(r), hx(buf[len(d):]), alias)
	case "cbcdecleft":
		// AESCBCDecrypt, and what dst holds afterwards whatever the outcome
		if len(t) != 5 || (t[1] != "fresh" && t[1] != "inplace") {
			return "bad-op"
		}
		for i := 2; i < 5; i++ {
			b, ok := unhx(t[i])
			if !ok {
				return "bad-op"
			}
			args[i] = b
		}
		ct := append([]byte{}, args[4]...)
		dst := ct
		if t[1] == "fresh" {
			dst = fill(len(ct))
		}
		n, err := cryptz.AESCBCDecrypt(dst, ct, args[2], args[3])
		o := "ok " + strconv.Itoa(n)
		if err != nil {
			o = errClass(err)
		}
		return o + " dst=" + hx(dst)
	case "gcmdecleft":
		if len(t) != 6 || (t[1] != "fresh" && t[1] != "inplace") {
			return "bad-op"
		}
		for i := 2; i < 6; i++ {
			b, ok := unhx(t[i])
			if !ok {
				return "bad-op"
			}
			args[i] = b
		}
		ct := append([]byte{}, args[5]...)
		n := cryptz.AESGCMDecryptLen(ct)
		if n < 0 {
			n = 0
		}
		dst := ct[:n]
		if t[1] == "fresh" {
			dst = fill(n)
		}
		err := cryptz.AESGCMDecrypt(dst, ct, args[2], args[3], args[4])
		o := "ok"
		if err != nil {
			o = errClass(err)
		}
		return o + " dst=" + hx(dst)
	case "cbcenc", "cbcdec":
		if len(t) != 5 {
			return "bad-op"
		}
		for i := 2; i < 5; i++ {
			b, ok := unhx(t[i])
			if !ok {
				return "bad-op"
			}
			args[i] = b
		}
		key, iv, data := hb.put(0, args[2]), hb.put(1, args[3]), args[4]
		key0, iv0 := append([]byte{}, key...), append([]byte{}, iv...)
		if t[0] == "cbcenc" {
			kind, d, ok := parseLayout(t[1])
			if !ok {
				return "bad-op"
			}
			n := cryptz.AESCBCEncryptLen(data) + d
			if n < 0 {
				n = 0
			}
			var dst, pt []byte
			switch kind {
			case "fresh":
				dst, pt = hb.fill(n, 0xaa), append([]byte{}, data...)
			case "inplace":
				// "plainText could pre grow padding length, so dst could reuse plainText memory"
				if n < len(data) {
					return "bad-op"
				}
				buf := hb.fill(n, 0xaa)
				copy(buf, data)
				dst, pt = buf, buf[:len(data)]
			}
			fin := func() string { return "" }
			if d == 0 {
				fin = hb.place(kind == "inplace", &dst, &pt, &key, &iv)
			}
			err := cryptz.AESCBCEncrypt(dst, pt, key, iv)
			if v := fin(); v != "" {
				return v
			}
			if err != nil {
				return errClass(err)
			}
			if !bytes.Equal(key, key0) || !bytes.Equal(iv, iv0) {
				return "key-or-iv-modified"
			}
			if kind == "fresh" && !bytes.Equal(pt, data) {
				return "input-modified"
			}
			return "ok " + hx(dst)
		}
		kind, d, ok := parseLayout(t[1])
		if !ok || (kind == "inplace" && d != 0) {
			return "bad-op"
		}
		var dst, ct []byte
		switch kind {
		case "fresh":
			ct = append([]byte{}, data...)
			if d == 0 {
				dst = hb.fill(cryptz.AESCBCDecryptLen(ct), 0xaa)
			} else {
				// off contract: filled with the byte |d| so that a longer dst can end in
				// something that looks like a padding
				v := d
				if v < 0 {
					v = -v
				}
				dst = hb.fill(cryptz.AESCBCDecryptLen(ct)+d, byte(v%256))
			}
		case "inplace":
			// "dst could reuse encryptText memory"
			ct = append([]byte{}, data...)
			dst = ct
		}
		fin := func() string { return "" }
		if d == 0 {
			fin = hb.place(kind == "inplace", &dst, &ct, &key, &iv)
		}
		n, err := cryptz.AESCBCDecrypt(dst, ct, key, iv)
		if v := fin(); v != "" {
			return v
		}
		if err != nil {
			return errClass(err)
		}
		if !bytes.Equal(key, key0) || !bytes.Equal(iv, iv0) {
			return "key-or-iv-modified"
		}
		if kind == "fresh" && !bytes.Equal(ct, data) {
			return "input-modified"
		}
		return fmt.Sprintf("ok %d %s", n, hx(dst))
	case "gcmenc", "gcmdec":
		if len(t) != 6 {
			return "bad-op"
		}
		for i := 2; i < 6; i++ {
			b, ok := unhx(t[i])
			if !ok {
				return "bad-op"
			}
			args[i] = b
		}
		key, nonce, ad, data := hb.put(0, args[2]), hb.put(1, args[3]), hb.put(2, args[4]), args[5]
		if t[0] == "gcmenc" {
			kind, d, ok := parseLayout(t[1])
			if !ok || (kind == "inplace" && d != 0) {
				return "bad-op"
			}
			n := cryptz.AESGCMEncryptLen(data) + d
			var dst, pt []byte
			switch kind {
			case "fresh":
				dst, pt = hb.fill(n, 0xaa), append([]byte{}, data...)
			case "inplace":
				// "plainText could pre grow tagSize(default 16) so dst could reuse plainText memory"
				buf := hb.fill(n, 0xaa)
				copy(buf, data)
				dst, pt = buf, buf[:len(data)]
			}
			fin := func() string { return "" }
			if d == 0 {
				fin = hb.place(kind == "inplace", &dst, &pt, &key, &nonce, &ad)
			}
			err := cryptz.AESGCMEncrypt(dst, pt, key, nonce, ad)
			if v := fin(); v != "" {
				return v
			}
			if err != nil {
				return errClass(err)
			}
			return "ok " + hx(dst)
		}
		ct := append([]byte{}, data...)
		n := cryptz.AESGCMDecryptLen(ct)
		if n < 0 {
			n = 0
		}
		kind, d, ok := parseLayout(t[1])
		if !ok || (kind == "inplace" && d != 0) {
			return "bad-op"
		}
		var dst []byte
		switch kind {
		case "fresh":
			dst = hb.fill(n+d, 0xaa)
		case "inplace":
			// "dst could reuse encryptText memory, like encryptText[:AESGCMDecryptLen(encryptText)]"
			dst = ct[:n]
		}
		fin := func() string { return "" }
		if d == 0 {
			fin = hb.place(kind == "inplace", &dst, &ct, &key, &nonce, &ad)
		}
		err := cryptz.AESGCMDecrypt(dst, ct, key, nonce, ad)
		if v := fin(); v != "" {
			return v
		}
		if err != nil {
			return errClass(err)
		}
		return "ok " + hx(dst)
	}
	return "bad-op"
}

// ---------- independent oracle (standard library + the definition of PKCS#7)

// validPad reports the padding length of x for block size b, or 0 if x is not a
// correctly padded non-empty multiple of b.
func validPad(x []byte, b int) int {
	if len(x) == 0 || b <= 0 || len(x)%b != 0 {
		return 0
	}
	n := int(x[len(x)-1])
	if n < 1 || n > b || n > len(x) {
		return 0
	}
	for _, v := range x[len(x)-n:] {
		if int(v) != n {
			return 0
		}
	}
	return n
}

func stdKeyOK(key []byte) bool { return len(key) == 16 || len(key) == 24 || len(key) == 32 }

func stdCBCEnc(key, iv, padded []byte) []byte {
	blk, _ := aes.NewCipher(key)
	out := make([]byte, len(padded))
	cipher.NewCBCEncrypter(blk, iv).CryptBlocks(out, padded)
	return out
}

func stdCBCDec(key, iv, ct []byte) []byte {
	blk, _ := aes.NewCipher(key)
	out := make([]byte, len(ct))
	cipher.NewCBCDecrypter(blk, iv).CryptBlocks(out, ct)
	return out
}

func stdPad16(pt []byte) []byte {
	n := 16 - len(pt)%16
	return append(append([]byte{}, pt...), bytes.Repeat([]byte{byte(n)}, n)...)
}

func isErr(o string) bool { return strings.HasPrefix(o, "err:") && !strings.HasPrefix(o, "err:?") }

func checkRaw(c core.Case, out []string) *core.Failure {
	offContract := c.Tag == "offcontract"
	for i := 1; i < len(c.Lines); i++ {
		t := core.Toks(c.Lines[i])
		o := out[i]
		bad := func(key, want string) *core.Failure {
			return &core.Failure{Key: key, Desc: fmt.Sprintf("line %d %q: implementation answered %q, %s", i, c.Lines[i], o, want)}
		}
		if o == "panic" && !offContract {
			return bad(t[0]+"-panic", "a panic is never allowed")
		}
		if offLayout(t) {
			if !offContract {
				return bad("harness-off-contract-layout", "off-contract dst sizes belong in cases tagged offcontract")
			}
			continue // dst longer / shorter than documented: judged against the model only
		}
		if strings.HasPrefix(o, "arena-modified") {
			return bad(t[0]+"-writes-outside-dst", "only the dst window may change: the plaintext/ciphertext, key, iv/nonce, additional data windows and the canaries around them must be left as they were")
		}
		if o == "input-modified" || o == "key-or-iv-modified" || strings.HasPrefix(o, "instantiations-differ") {
			return bad(t[0]+"-side-effect", "inputs must not be modified / string and []byte instantiations agree")
		}
		switch t[0] {
		case "padcap":
			d, _ := unhx(t[1])
			b, _ := strconv.Atoi(t[2])
			extra, _ := strconv.Atoi(t[3])
			if len(d) == 0 || b <= 0 {
				if !isErr(o) {
					return bad("pad-accepts-bad-args", "empty data / non-positive block size must be an error")
				}
				continue
			}
			if b > 255 {
				continue
			}
			f := strings.Fields(o)
			if len(f) != 4 || f[0] != "ok" {
				return bad("pad-rejects", "padding of non-empty data must succeed")
			}
			x, _ := unhx(f[1])
			n := validPad(x, b)
			if n == 0 || !bytes.Equal(x[:len(x)-n], d) {
				return bad("pad-wrong", "result is not data followed by a correct PKCS#7 padding")
			}
			// append semantics: in place iff the padding fits the spare capacity; then the first n spare
			// bytes are the padding and the rest are still canaries; otherwise the spare bytes are untouched
			sp, _ := unhx(strings.TrimPrefix(f[2], "spare="))
			want := bytes.Repeat([]byte{0xee}, extra)
			if n <= extra {
				copy(want, x[len(x)-n:])
			}
			if !bytes.Equal(sp, want) {
				return bad("pad-writes-outside-spare-capacity", "append may only write the padding right behind the data, and only when it fits the capacity")
			}
		case "cbcdecleft":
			key, _ := unhx(t[2])
			iv, _ := unhx(t[3])
			ct, _ := unhx(t[4])
			if len(ct) < 16 || len(ct)%16 != 0 || !stdKeyOK(key) {
				want := hx(ct)
				if t[1] == "fresh" {
					want = hx(fill(len(ct)))
				}
				if !isErr(strings.Fields(o)[0]) || !strings.HasSuffix(o, " dst="+want) {
					return bad("cbc-decrypt-rejected-call-writes", "a call rejected for its arguments must be an error and leave dst untouched")
				}
				continue
			}
			if len(iv) != 16 {
				continue
			}
			p := stdCBCDec(key, iv, ct)
			if !strings.HasSuffix(o, " dst="+hx(p)) {
				return bad("cbc-decrypt-leaves", "whatever the outcome, dst must hold the CBC decryption of the ciphertext: "+hx(p))
			}
			if n := validPad(p, 16); n == 0 {
				if !isErr(strings.Fields(o)[0]) {
					return bad("cbc-decrypt-accepts-bad-padding", "not correctly padded: must be an error")
				}
			} else if !strings.HasPrefix(o, fmt.Sprintf("ok %d ", len(p)-n)) {
				return bad("cbc-decrypt-wrong", fmt.Sprintf("want n=%d", len(p)-n))
			}
		case "gcmdecleft":
			key, _ := unhx(t[2])
			nonce, _ := unhx(t[3])
			ad, _ := unhx(t[4])
			ct, _ := unhx(t[5])
			n := len(ct) - 16
			if n < 0 {
				n = 0
			}
			untouched := hx(ct[:n])
			if t[1] == "fresh" {
				untouched = hx(fill(n))
			}
			if !stdKeyOK(key) || len(nonce) == 0 || len(ct) < 16 {
				if !isErr(strings.Fields(o)[0]) || !strings.HasSuffix(o, " dst="+untouched) {
					return bad("gcm-decrypt-rejected-call-writes", "a call rejected before Open runs must be an error and leave dst untouched")
				}
				continue
			}
			blk, _ := aes.NewCipher(key)
			g, err := cipher.NewGCMWithNonceSize(blk, len(nonce))
			if err != nil {
				continue
			}
			p, err := g.Open(nil, nonce, ct, ad)
			if err != nil {
				if o != "err:open dst="+hx(make([]byte, n)) {
					return bad("gcm-decrypt-failure-leaves", "a failed authentication must be an error and leave ZEROS in dst (no unauthenticated plaintext, not the old content)")
				}
				continue
			}
			if o != "ok dst="+hx(p) {
				return bad("gcm-decrypt-wrong", "standard AES-GCM Open gives "+hx(p))
			}
		case "enclen", "declen", "gcmenclen", "gcmdeclen":
			n, _ := strconv.Atoi(t[1])
			w := map[string]int{"enclen": (n/16 + 1) * 16, "declen": n, "gcmenclen": n + 16, "gcmdeclen": n - 16}[t[0]]
			if o != strconv.Itoa(w) {
				return bad("length-helper", "exact length is "+strconv.Itoa(w))
			}
		case "pad", "pad5":
			d, _ := unhx(t[1])
			b := 8
			if t[0] == "pad" {
				b, _ = strconv.Atoi(t[2])
			}
			if len(d) == 0 || b <= 0 {
				if !isErr(o) {
					return bad("pad-accepts-bad-args", "empty data / non-positive block size must be an error")
				}
				continue
			}
			if b > 255 {
				continue // outside the property (block sizes 1..255); only compared with the model
			}
			if !strings.HasPrefix(o, "ok ") {
				return bad("pad-rejects", "padding of non-empty data must succeed")
			}
			x, _ := unhx(o[3:])
			n := validPad(x, b)
			if n == 0 || !bytes.Equal(x[:len(x)-n], d) {
				return bad("pad-wrong", fmt.Sprintf("result is not data followed by a correct PKCS#7 padding for block size %d", b))
			}
		case "unpad", "unpad5":
			x, _ := unhx(t[1])
			b := 8
			if t[0] == "unpad" {
				b, _ = strconv.Atoi(t[2])
			}
			n := validPad(x, b)
			if n == 0 {
				if !isErr(o) {
					return bad("unpad-accepts-invalid", "input is not a correctly padded multiple of the block size: must be an error")
				}
				continue
			}
			if o != "ok "+hx(x[:len(x)-n]) {
				return bad("unpad-wrong", "want ok "+hx(x[:len(x)-n]))
			}
		case "cbcenc":
			key, _ := unhx(t[2])
			iv, _ := unhx(t[3])
			pt, _ := unhx(t[4])
			if !stdKeyOK(key) {
				if !isErr(o) {
					return bad("cbc-accepts-bad-key", "invalid key size must yield an error")
				}
				continue
			}
			if len(iv) != 16 {
				continue // outside the documented contract; model comparison only
			}
			want := stdCBCEnc(key, iv, stdPad16(pt))
			if o != "ok "+hx(want) {
				return bad("cbc-encrypt-wrong", "standard AES-CBC over the PKCS#7-padded plaintext is "+hx(want))
			}
		case "cbcdec":
			key, _ := unhx(t[2])
			iv, _ := unhx(t[3])
			ct, _ := unhx(t[4])
			if len(ct) < 16 || len(ct)%16 != 0 || !stdKeyOK(key) {
				if !isErr(o) {
					return bad("cbc-decrypt-accepts-bad-args", "ciphertext length not a positive multiple of 16 / invalid key size must yield an error")
				}
				continue
			}
			if len(iv) != 16 {
				continue
			}
			p := stdCBCDec(key, iv, ct)
			n := validPad(p, 16)
			if n == 0 {
				if !isErr(o) {
					return bad("cbc-decrypt-accepts-bad-padding", "decrypted data "+hx(p)+" is not correctly padded: must be an error")
				}
				continue
			}
			f := strings.Fields(o)
			if len(f) != 3 || f[0] != "ok" {
				return bad("cbc-decrypt-rejects-valid", "want plaintext "+hx(p[:len(p)-n]))
			}
			gn, _ := strconv.Atoi(f[1])
			gd, _ := unhx(f[2])
			if gn != len(p)-n || gn > len(gd) || !bytes.Equal(gd[:gn], p[:len(p)-n]) {
				return bad("cbc-decrypt-wrong", fmt.Sprintf("want n=%d plaintext %s", len(p)-n, hx(p[:len(p)-n])))
			}
		case "gcmenc", "gcmdec":
			key, _ := unhx(t[2])
			nonce, _ := unhx(t[3])
			ad, _ := unhx(t[4])
			data, _ := unhx(t[5])
			if !stdKeyOK(key) || len(nonce) == 0 {
				if !isErr(o) {
					return bad("gcm-accepts-bad-args", "invalid key size / empty nonce must yield an error")
				}
				continue
			}
			blk, _ := aes.NewCipher(key)
			g, err := cipher.NewGCMWithNonceSize(blk, len(nonce))
			if err != nil {
				continue
			}
			if t[0] == "gcmenc" {
				want := g.Seal(nil, nonce, data, ad)
				if o != "ok "+hx(want) {
					return bad("gcm-encrypt-wrong", "standard AES-GCM Seal is "+hx(want))
				}
				continue
			}
			p, err := g.Open(nil, nonce, data, ad)
			if err != nil {
				if !isErr(o) {
					return bad("gcm-decrypt-accepts-forgery", "standard Open rejects this input: must be an error")
				}
				continue
			}
			if o != "ok "+hx(p) {
				return bad("gcm-decrypt-wrong", "standard AES-GCM Open gives "+hx(p))
			}
		}
	}
	return nil
}

func nonTrivial(c core.Case, out []string) bool {
	for i := 1; i < len(out); i++ {
		o := out[i]
		if strings.HasPrefix(o, "ok ") || strings.HasPrefix(o, "err:pad") || o == "err:open" || o == "err:multiple" {
			return true
		}
	}
	return false
}

// keyRelation names the PART two different keys agree on ("" when none): what a process-wide
// memo keyed on that part would confuse (mirrors the identities of Model/C08Memo.lean).
func keyRelation(a, b []byte) string {
	if bytes.Equal(a, b) || !stdKeyOK(a) || !stdKeyOK(b) {
		return ""
	}
	trim := func(x []byte) []byte { return bytes.TrimRight(x, "\x00") }
	switch {
	case bytes.Equal(trim(a), trim(b)):
		return "zero-extension"
	case len(a) >= 24 && len(b) >= 24 && bytes.Equal(a[:24], b[:24]):
		return "same-first24"
	case bytes.Equal(a[:16], b[:16]):
		return "same-first16"
	case bytes.Equal(a[len(a)-16:], b[len(b)-16:]):
		return "same-last16"
	}
	return ""
}

func classify(c core.Case, out []string) []string {
	var ls []string
	var prevKey, prevNonce, prevIV []byte
	for i := 1; i < len(c.Lines); i++ {
		t := core.Toks(c.Lines[i])
		o := out[i]
		if c.Tag == "history" && len(t) >= 5 {
			switch t[0] {
			case "cbcenc", "cbcdec", "gcmenc", "gcmdec":
				key, _ := unhx(t[2])
				x, _ := unhx(t[3])
				if stdKeyOK(key) {
					if rel := keyRelation(prevKey, key); rel != "" {
						ls = append(ls, "hist:consecutive-keys-"+rel)
						if len(prevKey) != len(key) {
							ls = append(ls, "hist:related-keys-of-different-sizes")
						}
					}
					if t[0][0] == 'g' && len(x) > 0 {
						if bytes.Equal(prevKey, key) && prevNonce != nil && len(prevNonce) != len(x) {
							ls = append(ls, "hist:same-key-other-nonce-size")
						}
						prevNonce = x
					}
					if t[0][0] == 'c' && len(x) == 16 {
						if bytes.Equal(prevKey, key) && prevIV != nil {
							if bytes.Equal(prevIV, x) {
								ls = append(ls, "hist:same-key-same-iv-again")
							} else {
								ls = append(ls, "hist:same-key-other-iv")
							}
						}
						prevIV = x
					}
					prevKey = key
				}
			}
		}
		res := o
		if k := strings.IndexByte(o, ' '); k >= 0 {
			res = o[:k]
		}
		if _, err := strconv.Atoi(res); err == nil {
			res = "n"
		}
		ls = append(ls, t[0]+":"+res)
		switch t[0] {
		case "cbcenc", "cbcdec", "gcmenc", "gcmdec":
			ls = append(ls, t[0]+":layout-"+t[1])
			key, _ := unhx(t[2])
			ls = append(ls, fmt.Sprintf("keysize:%d", len(key)))
			d, _ := unhx(t[len(t)-1])
			if t[0] == "cbcenc" {
				switch {
				case len(d) == 0:
					ls = append(ls, "cbcenc:empty-plaintext")
				case len(d)%16 == 0:
					ls = append(ls, "cbcenc:block-aligned-plaintext")
				}
			}
			if t[0] == "gcmenc" || t[0] == "gcmdec" {
				nonce, _ := unhx(t[3])
				if len(nonce) != 12 {
					ls = append(ls, "gcm:nonce-not-12")
				}
			}
		}
	}
	return ls
}
