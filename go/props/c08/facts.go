package c08

import (
	"bytes"
	"fmt"
	"go/ast"
	"go/parser"
	"go/printer"
	"go/token"
	"path/filepath"
	"strconv"
	"strings"
)

// evalConst evaluates the small constant expressions of aes.go (integer literals,
// aes.BlockSize, previously seen constants, + - *, parentheses).
func evalConst(e ast.Expr, env map[string]int) (int, bool) {
	switch v := e.(type) {
	case *ast.BasicLit:
		if v.Kind == token.INT {
			n, err := strconv.Atoi(v.Value)
			return n, err == nil
		}
	case *ast.ParenExpr:
		return evalConst(v.X, env)
	case *ast.SelectorExpr:
		if x, ok := v.X.(*ast.Ident); ok && x.Name == "aes" && v.Sel.Name == "BlockSize" {
			return 16, true
		}
	case *ast.Ident:
		n, ok := env[v.Name]
		return n, ok
	case *ast.BinaryExpr:
		a, ok1 := evalConst(v.X, env)
		b, ok2 := evalConst(v.Y, env)
		if ok1 && ok2 {
			switch v.Op {
			case token.ADD:
				return a + b, true
			case token.SUB:
				return a - b, true
			case token.MUL:
				return a * b, true
			}
		}
	}
	return 0, false
}

// facts regenerates lean/Golib/Gen/FactsC08.lean from cryptz/aes.go (go/ast): the constants,
// the size of the padding table and the shape of the init() loop that fills it.
func facts(repo string) (string, error) {
	fset := token.NewFileSet()
	f, err := parser.ParseFile(fset, filepath.Join(repo, "cryptz", "aes.go"), nil, 0)
	if err != nil {
		return "", err
	}
	str := func(n ast.Node) string {
		var b bytes.Buffer
		_ = printer.Fprint(&b, fset, n)
		return b.String()
	}
	env := map[string]int{}
	tableSize := -1
	for _, d := range f.Decls {
		gd, ok := d.(*ast.GenDecl)
		if !ok {
			continue
		}
		for _, sp := range gd.Specs {
			vs, ok := sp.(*ast.ValueSpec)
			if !ok {
				continue
			}
			for i, name := range vs.Names {
				if gd.Tok == token.CONST && i < len(vs.Values) {
					if n, ok := evalConst(vs.Values[i], env); ok {
						env[name.Name] = n
					}
				}
				if gd.Tok == token.VAR && name.Name == "prePadPatterns" {
					if at, ok := vs.Type.(*ast.ArrayType); ok && at.Len != nil {
						if n, ok := evalConst(at.Len, env); ok {
							tableSize = n
						}
					}
				}
			}
		}
	}
	for _, k := range []string{"blockSizeMask", "gcmTagSize", "nonceSize"} {
		if _, ok := env[k]; !ok {
			return "", fmt.Errorf("constant %s not found / not evaluable", k)
		}
	}
	if tableSize < 0 {
		return "", fmt.Errorf("var prePadPatterns [N][]byte not found")
	}
	// init(): for i := 0; i < len(prePadPatterns); i++ { prePadPatterns[i] = bytes.Repeat([]byte{byte(i)}, i) }
	rule := ""
	bound := ""
	for _, d := range f.Decls {
		fd, ok := d.(*ast.FuncDecl)
		if !ok || fd.Name.Name != "init" || fd.Body == nil {
			continue
		}
		ast.Inspect(fd.Body, func(n ast.Node) bool {
			fs, ok := n.(*ast.ForStmt)
			if !ok || fs.Cond == nil || fs.Init == nil || fs.Post == nil {
				return true
			}
			be, ok := fs.Cond.(*ast.BinaryExpr)
			if !ok || be.Op != token.LSS || str(be.X) != "i" || str(fs.Init) != "i := 0" || str(fs.Post) != "i++" {
				return true
			}
			if len(fs.Body.List) == 1 {
				if as, ok := fs.Body.List[0].(*ast.AssignStmt); ok && len(as.Lhs) == 1 && len(as.Rhs) == 1 && str(as.Lhs[0]) == "prePadPatterns[i]" {
					rule = str(as.Rhs[0])
					bound = str(be.Y)
				}
			}
			return true
		})
	}
	boundN := -1
	switch bound {
	case "len(prePadPatterns)":
		boundN = tableSize
	default:
		if n, ok := strconv.Atoi(bound); ok == nil {
			boundN = n
		}
	}
	if rule != "bytes.Repeat([]byte{byte(i)}, i)" || boundN < 0 {
		return "", fmt.Errorf("init() loop filling prePadPatterns not recognised (bound %q, rule %q)", bound, rule)
	}
	var b strings.Builder
	b.WriteString("-- generated on every run by the C08 facts extractor (go/ast) from cryptz/aes.go; do not edit\n")
	b.WriteString("namespace Golib.Gen.C08\n\n")
	b.WriteString("def extractorOK : Bool := true\n")
	fmt.Fprintf(&b, "def blockSizeMask : Nat := %d\n", env["blockSizeMask"])
	fmt.Fprintf(&b, "def gcmTagSize : Nat := %d\n", env["gcmTagSize"])
	fmt.Fprintf(&b, "def nonceSize : Nat := %d\n", env["nonceSize"])
	fmt.Fprintf(&b, "/-- `var prePadPatterns [aes.BlockSize + 1][]byte` -/\ndef padTableSize : Nat := %d\n", tableSize)
	fmt.Fprintf(&b, "/-- `for i := 0; i < %s; i++ { prePadPatterns[i] = %s }` -/\ndef padTableLoopBound : Nat := %d\n", bound, rule, boundN)
	b.WriteString("/-- entry `i` as `init()` computes it: `bytes.Repeat([]byte{byte(i)}, i)` -/\n")
	b.WriteString("def padTableEntry (i : Nat) : List Nat := List.replicate i (i % 256)\n")
	b.WriteString("\nend Golib.Gen.C08\n")
	return b.String(), nil
}
