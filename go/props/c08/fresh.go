package c08

// Self-contained witnesses for failures that come from PROCESS-WIDE STATE.
//
// A library that keeps state across calls (a memo of expanded keys / AEADs, a retained
// BlockMode) makes the answer of a call depend on what the process called before.  Inside one
// checker process thousands of cases run; a case can then fail because of calls made by EARLIER
// cases, and — worse — the line-deleting shrinker, which re-runs its candidates in the same
// process, happily deletes the very calls that set the state up (they have already happened),
// ending in a one-line "witness" that passes when replayed alone.
//
// So every verdict about a concrete input is confirmed in a NEW process: this binary re-executed
// with VERIF_C08_CHILD=1 answers one case on stdin/stdout (package init, before main) and exits.
//   * shrink (core.Prop.Shrink): a candidate counts as failing only if it fails, with the same
//     key, when run alone in a fresh process — the replay written is one that reproduces;
//   * check: a case that fails here but passes alone in a fresh process is reported under the key
//     `state-carried-over-from-earlier-calls` (the violation is real — the library answered
//     wrongly in this process — but this case is not its witness; the history cases are).

import (
	"bytes"
	"encoding/json"
	"fmt"
	"io"
	"os"
	"os/exec"
	"sync"
	"time"

	"verifharness/internal/core"
)

const childEnv = "VERIF_C08_CHILD"

func init() {
	if os.Getenv(childEnv) == "" {
		return
	}
	// child: one case in, its outputs out
	code := 3
	func() {
		defer func() { _ = recover() }()
		in, err := io.ReadAll(os.Stdin)
		if err != nil {
			return
		}
		var lines []string
		if json.Unmarshal(in, &lines) != nil || len(lines) == 0 {
			return
		}
		out := impl(core.Case{Lines: lines})
		b, err := json.Marshal(out)
		if err != nil {
			return
		}
		os.Stdout.Write(b)
		code = 0
	}()
	os.Exit(code)
}

var childSlots = make(chan struct{}, 4)

// freshOut answers the case in a new process; ok = false when that is not possible (we ARE the
// child, the binary cannot be re-executed, the child died or timed out).
func freshOut(c core.Case) (out []string, ok bool) {
	if os.Getenv(childEnv) != "" || len(c.Lines) == 0 {
		return nil, false
	}
	exe, err := os.Executable()
	if err != nil {
		return nil, false
	}
	in, err := json.Marshal(c.Lines)
	if err != nil {
		return nil, false
	}
	childSlots <- struct{}{}
	defer func() { <-childSlots }()
	cmd := exec.Command(exe)
	cmd.Env = append(os.Environ(), childEnv+"=1")
	cmd.Stdin = bytes.NewReader(in)
	var so bytes.Buffer
	cmd.Stdout = &so
	if cmd.Start() != nil {
		return nil, false
	}
	done := make(chan error, 1)
	go func() { done <- cmd.Wait() }()
	select {
	case err = <-done:
	case <-time.After(30 * time.Second):
		_ = cmd.Process.Kill()
		<-done
		return nil, false
	}
	if err != nil || json.Unmarshal(so.Bytes(), &out) != nil || len(out) != len(c.Lines) {
		return nil, false
	}
	return out, true
}

// ---------- check = the oracle + confirmation of a failure in a fresh process

const carriedKey = "state-carried-over-from-earlier-calls"

var (
	confirmMu sync.Mutex
	confirmed = map[string]int{} // failure key -> confirmations spent
)

const confirmPerKey = 6

func check(c core.Case, out []string) *core.Failure {
	f := checkRaw(c, out)
	if f == nil || os.Getenv(childEnv) != "" {
		return f
	}
	confirmMu.Lock()
	n := confirmed[f.Key]
	confirmed[f.Key] = n + 1
	confirmMu.Unlock()
	if n >= confirmPerKey {
		return f // the runner reports a key once; enough looked at
	}
	fo, ok := freshOut(c)
	if !ok {
		return f
	}
	if ff := checkRaw(c, fo); ff != nil {
		return f // fails alone in a fresh process too: a self-contained witness
	}
	return &core.Failure{Key: carriedKey, Desc: fmt.Sprintf("%s — BUT the same case, run alone in a fresh process, passes: "+
		"the answer depended on calls this process made before (or concurrently), i.e. the library keeps state across calls. "+
		"This case is therefore not a witness by itself (its replay passes); the witnesses are the replays of the `hist` cases of this run. (original key: %s)", f.Desc, f.Key)}
}

// ---------- shrinker: delta debugging on the lines, every candidate judged in a fresh process

func shrink(c core.Case, fails func(core.Case) bool) core.Case {
	fo, ok := freshOut(c)
	if !ok {
		return shrinkWith(c, fails, 3000) // no child available: in-process, as the default shrinker
	}
	f0 := checkRaw(c, fo)
	if f0 == nil {
		return c // not a witness by itself (see check): nothing to minimise
	}
	pred := func(t core.Case) bool {
		o, ok := freshOut(t)
		if !ok {
			return false
		}
		f := checkRaw(t, o)
		return f != nil && f.Key == f0.Key
	}
	return shrinkWith(c, pred, 120)
}

func shrinkWith(c core.Case, fails func(core.Case) bool, budget int) core.Case {
	cur := c
	if len(cur.Lines) <= 2 {
		return cur
	}
	mk := func(lines []string) core.Case {
		return core.Case{Lines: append([]string{}, lines...), Seed: c.Seed, Tag: c.Tag}
	}
	// the earliest failing prefix first
	lo, hi := 2, len(cur.Lines)
	for lo < hi && budget > 0 {
		mid := (lo + hi) / 2
		budget--
		if fails(mk(cur.Lines[:mid])) {
			hi = mid
		} else {
			lo = mid + 1
		}
	}
	if lo < len(cur.Lines) && budget > 0 {
		budget--
		if t := mk(cur.Lines[:lo]); fails(t) {
			cur = t
		}
	}
	for chunk := (len(cur.Lines) - 1) / 2; chunk >= 1 && budget > 0; {
		removed := false
		for i := 1; i+chunk <= len(cur.Lines) && budget > 0; {
			budget--
			var nl []string
			nl = append(nl, cur.Lines[:i]...)
			nl = append(nl, cur.Lines[i+chunk:]...)
			if t := mk(nl); len(nl) > 1 && fails(t) {
				cur = t
				removed = true
			} else {
				i += chunk
			}
		}
		if chunk > 1 {
			chunk /= 2
		} else if !removed {
			break
		}
	}
	return cur
}
