package c17

// Exhaustive tie of lean/Golib/Prelude/Utf8.lean (the model of unicode/utf8 that C05, C07,
// C17 and C20 are proved over) to the Go standard library. No call into /repo.
//
// The Lean oracle (header `@ C17 utf8`, lean/Golib/Model/C17Utf8Tie.lean) folds the results
// of a whole input range into one 64-bit digest; this file folds the results of the real
// utf8.DecodeRune / AppendRune / RuneLen / ValidRune in the same order. A digest difference
// is narrowed down to a single input, whose two answers are reported.

import (
	"encoding/hex"
	"fmt"
	"sort"
	"strconv"
	"strings"
	"sync"
	"unicode/utf8"

	"verifharness/internal/core"
)

const fnvPrime = 1099511628211
const fnvBasis = 14695981039346656037

func mix(h uint64, x uint64) uint64 { return (h ^ x) * fnvPrime }
func mixInt(h uint64, r int64) uint64 {
	return mix(h, uint64(r+4294967296))
}
func mixDec(h uint64, bs []byte) uint64 {
	r, sz := utf8.DecodeRune(bs)
	return mix(mixInt(h, int64(r)), uint64(sz))
}

var tieBnd = []byte{0x00, 0x01, 0x7f, 0x80, 0x81, 0x8f, 0x90, 0x9f, 0xa0, 0xbe, 0xbf, 0xc0, 0xc2, 0xe0, 0xed, 0xf0, 0xf4, 0xff}

func tieSet(name string) []byte {
	switch name {
	case "bnd":
		return tieBnd
	case "all":
		b := make([]byte, 256)
		for i := range b {
			b[i] = byte(i)
		}
		return b
	}
	return nil
}

// decSeqs enumerates the inputs of a `dec` op in the driver's order.
func decSeqs(a, b, c, d int, s2, s3 string, f func(bs []byte)) {
	l2, l3 := tieSet(s2), tieSet(s3)
	buf := make([]byte, 4)
	for b0 := a; b0 <= b; b0++ {
		buf[0] = byte(b0)
		for b1 := c; b1 <= d; b1++ {
			buf[1] = byte(b1)
			if s2 == "none" {
				f(buf[:2])
				continue
			}
			for _, b2 := range l2 {
				buf[2] = b2
				if s3 == "none" {
					f(buf[:3])
					continue
				}
				for _, b3 := range l3 {
					buf[3] = b3
					f(buf[:4])
				}
			}
		}
	}
}

func goRune(r int64) (enc []byte, rl int, ok bool) {
	return utf8.AppendRune(nil, rune(r)), utf8.RuneLen(rune(r)), utf8.ValidRune(rune(r))
}

func mixRune(h uint64, r int64) uint64 {
	e, rl, ok := goRune(r)
	h = mix(h, uint64(len(e)))
	for _, b := range e {
		h = mix(h, uint64(b))
	}
	h = mixInt(h, int64(rl))
	if ok {
		h = mix(h, 1)
	} else {
		h = mix(h, 0)
	}
	return mixDec(h, e)
}

// goStr answers the `str` op with the standard library.
func goStr(s string) string {
	var items []string
	for i, r := range s {
		_, sz := utf8.DecodeRuneInString(s[i:])
		items = append(items, fmt.Sprintf("%d:%d:%d", i, r, sz))
	}
	tail := "-"
	if len(items) > 0 {
		tail = strings.Join(items, ",")
	}
	return fmt.Sprintf("%t %d %s %s", utf8.ValidString(s), utf8.RuneCountInString(s), hx(string([]rune(s))), tail)
}

// tieOp is one protocol line together with the standard library's answer.
type tieOp struct {
	line string
	want string
}

func digestOp(line string) tieOp {
	t := strings.Fields(line)
	n := func(i int) int { v, _ := strconv.Atoi(t[i]); return v }
	h := uint64(fnvBasis)
	switch t[0] {
	case "dec0":
		h = mixDec(h, nil)
	case "dec1":
		for b0 := n(1); b0 <= n(2); b0++ {
			h = mixDec(h, []byte{byte(b0)})
		}
	case "dec":
		decSeqs(n(1), n(2), n(3), n(4), t[5], t[6], func(bs []byte) { h = mixDec(h, bs) })
	case "runes":
		lo, _ := strconv.ParseInt(t[1], 10, 64)
		hi, _ := strconv.ParseInt(t[2], 10, 64)
		for r := lo; r <= hi; r++ {
			h = mixRune(h, r)
		}
	}
	return tieOp{line, strconv.FormatUint(h, 10)}
}

func seqOp(bs []byte) tieOp {
	r, sz := utf8.DecodeRune(bs)
	return tieOp{"seq " + hx(string(bs)), fmt.Sprintf("%d %d", r, sz)}
}

func runeOp(r int64) tieOp {
	e, rl, ok := goRune(r)
	return tieOp{fmt.Sprintf("rune %d", r), fmt.Sprintf("%s %d %t", hx(string(e)), rl, ok)}
}

// runTie pipes the ops through `workers` oracle processes and returns the indices whose
// answers differ, with the model's answer.
func runTie(verif string, ops []tieOp, workers int) (bad []int, got map[int]string, err error) {
	got = map[int]string{}
	if len(ops) == 0 {
		return nil, got, nil
	}
	if workers > len(ops) {
		workers = len(ops)
	}
	var mu sync.Mutex
	var wg sync.WaitGroup
	for w := 0; w < workers; w++ {
		wg.Add(1)
		go func(w int) {
			defer wg.Done()
			lines := []string{"@ C17 utf8"}
			var idx []int
			for i := w; i < len(ops); i += workers {
				lines = append(lines, ops[i].line)
				idx = append(idx, i)
			}
			outs, e := core.RunOracle(verif, []core.Case{{Lines: lines}})
			mu.Lock()
			defer mu.Unlock()
			if e != nil {
				err = e
				return
			}
			if outs[0][0] != "ok" {
				err = fmt.Errorf("oracle does not know the header `@ C17 utf8` (answered %q)", outs[0][0])
				return
			}
			for k, i := range idx {
				if o := outs[0][k+1]; o != ops[i].want {
					bad = append(bad, i)
					got[i] = o
				}
			}
		}(w)
	}
	wg.Wait()
	sort.Ints(bad)
	return bad, got, err
}

// narrow turns a differing digest op into single-input ops.
func narrow(verif string, op tieOp) (line, model, std string) {
	t := strings.Fields(op.line)
	n := func(i int) int { v, _ := strconv.Atoi(t[i]); return v }
	first := func(ops []tieOp) (tieOp, string, bool) {
		bad, got, err := runTie(verif, ops, 4)
		if err != nil || len(bad) == 0 {
			return tieOp{}, "", false
		}
		m := bad[0]
		for _, b := range bad {
			if b < m {
				m = b
			}
		}
		return ops[m], got[m], true
	}
	var singles []tieOp
	switch t[0] {
	case "dec0":
		singles = append(singles, seqOp(nil))
	case "dec1":
		for b0 := n(1); b0 <= n(2); b0++ {
			singles = append(singles, seqOp([]byte{byte(b0)}))
		}
	case "dec":
		// one (b0,b1) cell at a time
		var cells []tieOp
		for b0 := n(1); b0 <= n(2); b0++ {
			for b1 := n(3); b1 <= n(4); b1++ {
				cells = append(cells, digestOp(fmt.Sprintf("dec %d %d %d %d %s %s", b0, b0, b1, b1, t[5], t[6])))
			}
		}
		cell, _, ok := first(cells)
		if !ok {
			return op.line, "", op.want
		}
		ct := strings.Fields(cell.line)
		b0, _ := strconv.Atoi(ct[1])
		b1, _ := strconv.Atoi(ct[3])
		decSeqs(b0, b0, b1, b1, t[5], t[6], func(bs []byte) { singles = append(singles, seqOp(append([]byte{}, bs...))) })
	case "runes":
		lo, _ := strconv.ParseInt(t[1], 10, 64)
		hi, _ := strconv.ParseInt(t[2], 10, 64)
		var chunks []tieOp
		for a := lo; a <= hi; a += 1024 {
			b := a + 1023
			if b > hi {
				b = hi
			}
			chunks = append(chunks, digestOp(fmt.Sprintf("runes %d %d", a, b)))
		}
		ch, _, ok := first(chunks)
		if !ok {
			return op.line, "", op.want
		}
		ct := strings.Fields(ch.line)
		a, _ := strconv.ParseInt(ct[1], 10, 64)
		b, _ := strconv.ParseInt(ct[2], 10, 64)
		for r := a; r <= b; r++ {
			singles = append(singles, runeOp(r))
			e, _, _ := goRune(r)
			singles = append(singles, seqOp(e))
		}
	default:
		return op.line, "", op.want
	}
	s, m, ok := first(singles)
	if !ok {
		return op.line, "", op.want
	}
	return s.line, m, s.want
}

// tieStrings: byte soups biased to sequence boundaries, for the string-level functions
// (range loop, []rune, RuneCount, Valid, string([]rune)).
func tieStrings(r *core.Rand, n int) []tieOp {
	pieces := []string{"a", "\x00", "\x7f", "\u0080", "é", "߿", "ࠀ", "你", "퟿", "", "�", "￿", "\U00010000", "😀", "\U0010ffff",
		"\x80", "\xbf", "\xc0", "\xc1", "\xc2", "\xdf", "\xe0", "\xe0\xa0", "\xe0\x9f\x80", "\xed\x9f\xbf", "\xed\xa0\x80", "\xef\xbf", "\xf0", "\xf0\x90", "\xf0\x90\x80",
		"\xf0\x8f\xbf\xbf", "\xf4\x8f\xbf\xbf", "\xf4\x90\x80\x80", "\xf5", "\xf8\x88\x80\x80\x80", "\xff", "\xc0\x80", "\xe4\xbd", "\xf0\x9f\x98"}
	ops := []tieOp{{"str -", goStr("")}}
	for _, p := range pieces {
		ops = append(ops, tieOp{"str " + hx(p), goStr(p)})
	}
	for i := 0; i < n; i++ {
		var sb strings.Builder
		for k := r.Range(1, 8); k > 0; k-- {
			if r.Chance(20) {
				sb.Write(r.Bytes(r.Range(1, 3)))
			} else {
				sb.WriteString(pieces[r.Intn(len(pieces))])
			}
		}
		s := sb.String()
		ops = append(ops, tieOp{"str " + hx(s), goStr(s)})
	}
	return ops
}

// Utf8TieExtra is registered by every property whose model goes through the prelude
// that wants the tie in its own run (C07, C17).
func Utf8TieExtra() core.Extra {
	return core.Extra{
		Name: "utf8-prelude-exhaustive-tie",
		Run: func(ctx *core.Ctx) (int, string, []core.ExtraFailure) {
			var ops []tieOp
			evals := 0
			add := func(line string, n int) { ops = append(ops, digestOp(line)); evals += n }
			add("dec0", 1)
			add("dec1 0 255", 256)
			add("dec 0 255 0 255 none none", 65536)
			// every rune value around the scalar range, and the int32 extremes
			for lo := int64(-0x1100); lo <= 0x110000+0x1100; lo += 0x10000 {
				hi := lo + 0xffff
				if hi > 0x110000+0x1100 {
					hi = 0x110000 + 0x1100
				}
				add(fmt.Sprintf("runes %d %d", lo, hi), int(hi-lo+1))
			}
			add("runes -2147483648 -2147479553", 4096)
			add("runes 2147479552 2147483647", 4096)
			var scope string
			if ctx.Tier == "thorough" {
				// all 3-byte inputs; all 4-byte inputs with a 4-byte leader or any b0 ≥ 0xC0 at boundary b3
				for b0 := 0; b0 < 256; b0 += 8 {
					add(fmt.Sprintf("dec %d %d 0 255 all none", b0, b0+7), 8*65536)
				}
				for b0 := 0xf0; b0 <= 0xf4; b0++ {
					for b1 := 0; b1 < 256; b1 += 16 {
						add(fmt.Sprintf("dec %d %d %d %d all all", b0, b0, b1, b1+15), 16*65536)
					}
				}
				for b0 := 0; b0 < 256; b0 += 8 {
					add(fmt.Sprintf("dec %d %d 0 255 bnd bnd", b0, b0+7), 8*256*len(tieBnd)*len(tieBnd))
				}
				for b0 := 0xc0; b0 < 256; b0 += 4 {
					add(fmt.Sprintf("dec %d %d 0 255 all bnd", b0, b0+3), 4*65536*len(tieBnd))
				}
				scope = "every input of length 0..3, every 4-byte input with leader F0..F4, every 4-byte input with b0 >= C0 and b3 in an 18-value boundary set, every 4-byte input with b2,b3 in the boundary set"
			} else {
				for b0 := 0xc0; b0 < 256; b0 += 4 {
					add(fmt.Sprintf("dec %d %d 0 255 all none", b0, b0+3), 4*65536)
				}
				for b0 := 0; b0 < 0xc0; b0 += 32 {
					add(fmt.Sprintf("dec %d %d 0 255 bnd none", b0, b0+31), 32*256*len(tieBnd))
				}
				for b0 := 0xf0; b0 <= 0xf4; b0++ {
					add(fmt.Sprintf("dec %d %d 0 255 all bnd", b0, b0), 65536*len(tieBnd))
				}
				for b0 := 0xc0; b0 < 256; b0 += 16 {
					add(fmt.Sprintf("dec %d %d 0 255 bnd bnd", b0, b0+15), 16*256*len(tieBnd)*len(tieBnd))
				}
				add("dec 0 191 0 255 bnd none", 192*256*len(tieBnd))
				scope = "every input of length 0..2, every 3-byte input with b0 >= C0 (b2 in an 18-value boundary set below), every 4-byte input with leader F0..F4 and b3 in the boundary set, every 4-byte input with b0 >= C0 and b2,b3 in the boundary set"
			}
			nstr := 2000
			if ctx.Tier == "thorough" {
				nstr = 100000
			}
			strs := tieStrings(ctx.Rand.Fork(), nstr*ctx.Escalate)
			evals += len(strs)
			ops = append(ops, strs...)

			var fails []core.ExtraFailure
			bad, got, err := runTie(ctx.VerifDir, ops, 4)
			if err != nil {
				fails = append(fails, core.ExtraFailure{Failure: core.Failure{Key: "utf8-tie-oracle", Desc: "oracle not runnable: " + err.Error()}, NoInput: true})
			}
			for _, i := range bad {
				if len(fails) >= 3 {
					break
				}
				line, model, std := ops[i].line, got[i], ops[i].want
				if !strings.HasPrefix(line, "str ") {
					line, model, std = narrow(ctx.VerifDir, ops[i])
				}
				arg := ""
				if f := strings.Fields(line); len(f) == 2 && (f[0] == "seq" || f[0] == "str") {
					if b, e := hex.DecodeString(f[1]); e == nil {
						arg = fmt.Sprintf(" (bytes %q)", b)
					}
				}
				// the trusted model of unicode/utf8 is wrong: no theorem over it says anything about Go
				fails = append(fails, core.ExtraFailure{
					Failure: core.Failure{Key: "utf8-prelude-mismatch", Desc: fmt.Sprintf("lean/Golib/Prelude/Utf8.lean differs from unicode/utf8 on `%s`%s: model answers %q, standard library %q", line, arg, model, std)},
					Payload: map[string]any{"lines": []string{"@ C17 utf8", line}, "model": model, "stdlib": std},
					NoInput: true,
				})
			}
			return evals, fmt.Sprintf("Lean prelude vs unicode/utf8 (DecodeRune, AppendRune, RuneLen, ValidRune; range loop, []rune, RuneCount, Valid on %d strings): %s; every int32 rune in [-0x1100, 0x110000+0x1100] and the 4096 values at each int32 extreme", len(strs), scope), fails
		},
	}
}
