package c17

// trans-diff-utf8 (wave 9): the definitions go2lean regenerates from strz/strs.go
// (lean/Golib/Gen/TransC17.lean, executed by the oracle under `@ C17 trans <func>`) against the
// REAL functions on the strings the shared trans-diff generator does not make: valid multi-byte
// UTF-8 of every encoded length, malformed sequences of every kind, mixtures — and integer
// arguments at the edge of `int` (MaxInt, MaxInt-1, MaxInt-len, MinInt, MinInt+1, 1<<62, 1<<32±1;
// Mask without the two MinInt values, see tdInt).
// The unbounded-Int idealisation of the translation is exact there for all three functions with
// integer arguments: `Sub` only adds start+length (an overflowed sum is negative, the exact one
// ≥ 2^63: neither equals a count; c17_sub_int64_exact), `Mask` clamps before it subtracts
// (c17_mask_int64_exact), `SubByDisplay` only compares.

import (
	"encoding/hex"
	"fmt"
	"math"
	"strconv"

	"github.com/welllog/golib/strz"

	"verifharness/internal/core"
)

func tdHex(s string) string {
	if s == "" {
		return "-"
	}
	return hex.EncodeToString([]byte(s))
}

func tdStr(r *core.Rand) string {
	n := r.Intn(9)
	s := ""
	for i := 0; i < n; i++ {
		if r.Chance(60) {
			s += frags[r.Intn(len(frags))]
		} else {
			s += edgeFrags[r.Intn(len(edgeFrags))]
		}
	}
	return s
}

// nonNeg: no MinInt/MinInt+1 (Mask: `l - start` wraps in the real code for a hugely negative
// start/end, where the unbounded translation would repeat the mask 2^63 times; the property and
// c17_mask_int64_exact are about non-negative arguments; small negatives stay in).
func tdInt(r *core.Rand, l int, nonNeg bool) int {
	edge := []int{math.MaxInt, math.MaxInt - 1, math.MaxInt - l, 1 << 62, 1<<32 + 1, 1<<32 - 1, -1, -2, 0, math.MinInt, math.MinInt + 1}
	if r.Chance(25) {
		if nonNeg {
			return edge[r.Intn(len(edge)-2)]
		}
		return edge[r.Intn(len(edge))]
	}
	return r.Range(-2, l+3)
}

func TransDiffUtf8Extra() core.Extra {
	return core.Extra{Name: "trans-diff-utf8", Run: func(ctx *core.Ctx) (int, string, []core.ExtraFailure) {
		n := 600 * ctx.Escalate
		if ctx.Tier == "thorough" {
			n = 20000
		}
		type fn struct {
			name string
			gen  func(r *core.Rand) (string, func() string)
		}
		str := func(f func(string) string) func(r *core.Rand) (string, func() string) {
			return func(r *core.Rand) (string, func() string) {
				s := tdStr(r)
				return tdHex(s), func() string { return tdHex(f(s)) }
			}
		}
		fns := []fn{
			{"Len", func(r *core.Rand) (string, func() string) {
				s := tdStr(r)
				return tdHex(s), func() string { return strconv.Itoa(strz.Len(s)) }
			}},
			{"Sub", func(r *core.Rand) (string, func() string) {
				s := tdStr(r)
				a, b := tdInt(r, len(s), false), tdInt(r, len(s), false)
				return fmt.Sprintf("%s %d %d", tdHex(s), a, b), func() string { return tdHex(strz.Sub(s, a, b)) }
			}},
			{"SubByDisplay", func(r *core.Rand) (string, func() string) {
				s := tdStr(r)
				a := tdInt(r, 2*len(s), false)
				return fmt.Sprintf("%s %d", tdHex(s), a), func() string { return tdHex(strz.SubByDisplay(s, a)) }
			}},
			{"Mask", func(r *core.Rand) (string, func() string) {
				s, m := tdStr(r), tdStr(r)
				if r.Chance(50) {
					m = frags[r.Intn(len(frags))]
				}
				a, b := tdInt(r, len(s), true), tdInt(r, len(s), true)
				return fmt.Sprintf("%s %s %d %d", tdHex(s), tdHex(m), a, b), func() string { return tdHex(strz.Mask(s, m, a, b)) }
			}},
			{"Rev", str(strz.Rev)},
			{"UcFirst", str(strz.UcFirst)},
			{"LcFirst", str(strz.LcFirst)},
		}
		var fails []core.ExtraFailure
		evals := 0
		for _, f := range fns {
			lines := []string{"@ C17 trans " + f.name}
			impl := []string{"ok"}
			for i := 0; i < n; i++ {
				l, run := f.gen(ctx.Rand)
				lines = append(lines, l)
				impl = append(impl, core.Guard(run))
			}
			model, err := core.RunOracle(ctx.VerifDir, []core.Case{{Lines: lines}})
			if err != nil {
				fails = append(fails, core.ExtraFailure{Failure: core.Failure{Key: "trans-diff-utf8-oracle", Desc: "the oracle did not run the translated definitions: " + err.Error()}, NoInput: true})
				break
			}
			evals += n
			for i := range lines {
				if impl[i] != model[0][i] {
					fails = append(fails, core.ExtraFailure{
						Failure: core.Failure{Key: "trans-diff-utf8-" + f.name, Desc: fmt.Sprintf("the go2lean translation of strz.%s disagrees with the real function on arguments `%s`: code=%q translated=%q", f.name, lines[i], impl[i], model[0][i])},
						Payload: map[string]any{"lines": []string{lines[0], lines[i]}, "impl_out": impl[i], "translated_out": model[0][i]},
						NoInput: true,
					})
					break
				}
			}
		}
		return evals, fmt.Sprintf("7 translated definitions vs the real functions on %d argument tuples each (valid/malformed/mixed UTF-8, int-edge integers)", n), fails
	}}
}
