package c17

// Colliding identifier pairs for the classic multiplicative string hashes
// h = h*m + c (mod 2^32 / 2^64; m = 31 Java, 33 djb2, 131 / 1313 BKDR, 65599 SDBM):
// two DIFFERENT strings over [a-z] of equal length with equal hash, found by lattice reduction
// (LLL) at first use. A cache keyed by (hash, len) instead of the string confuses the two
// (WAVE6: content-hash-keyed caches). FNV-1a and CRC-32 are not covered (not linear over Z).

import (
	"fmt"
	"math/big"
	"sync"
)

type collPair struct {
	name   string
	x1, x2 string
}

var (
	collOnce  sync.Once
	collTable []collPair
)

// precomputed by lllCollision (105 s for all ten on this machine); verified at first use, a pair
// that does not verify is recomputed.
var collPre = []struct {
	m      uint64
	bits   int
	x1, x2 string
}{
	{31, 32, "aabaaebaaaccaaaaaa", "ccacbaaabcaaaaaaaa"},
	{33, 32, "acaaacabaaaaaabbaa", "baabbaaabbaacaaaaa"},
	{131, 32, "aaccabbbaaaaabbbba", "aaaacaaabaabbaaaaa"},
	{1313, 32, "dcbabaaaaaacaaaaaa", "aaacaaadcbbaaaaaaa"},
	{65599, 32, "aabbaaaabaabaaaabb", "aaaabaababbabaabaa"},
	{31, 64, "baababcaaaababaccaebaaaaaaabaaaa", "abeacaabdeaabacaaeaabbabaaaaaaaa"},
	{33, 64, "caabcaaacaacaaabaaafaaaaaaaabaaa", "abcaabbbaadaaacabbaabaaaaabbaaaa"},
	{131, 64, "aaaaaacaabcbcbbbaaabbdaaaaaaaaaa", "caecacaacaaaaaaaabbaaaccaaaaaaaa"},
	{1313, 64, "cbaaaaaeabfbcabaacaaaaaaaaaaaaaa", "aabcdaeaaaaaabaacadadaaaaaaaaaaa"},
	{65599, 64, "aadaadadaaefefcaabaaaaaaaaaaaaaa", "cgaaaaaaacaaaaadeabaaaaaaaaaaaaa"},
}

func collisions() []collPair {
	collOnce.Do(func() {
		for _, p := range collPre {
			x1, x2 := p.x1, p.x2
			if x1 == x2 || len(x1) != len(x2) || multHash(x1, p.m, p.bits) != multHash(x2, p.m, p.bits) {
				var ok bool
				if x1, x2, ok = lllCollision(p.m, p.bits, len(p.x1)); !ok {
					continue
				}
			}
			collTable = append(collTable, collPair{name: fmt.Sprintf("mult%d-%d", p.m, p.bits), x1: x1, x2: x2})
		}
	})
	return collTable
}

func multHash(s string, m uint64, bits int) uint64 {
	var h uint64
	for i := 0; i < len(s); i++ {
		h = h*m + uint64(s[i])
	}
	if bits == 32 {
		h &= 0xffffffff
	}
	return h
}

// lllCollision finds d in [-25,25]^n, d != 0, with sum d_i * m^(n-1-i) = 0 (mod 2^bits).
func lllCollision(m uint64, bits, n int) (string, string, bool) {
	mod := new(big.Int).Lsh(big.NewInt(1), uint(bits))
	K := new(big.Int).Lsh(big.NewInt(1), 24)
	dim := n + 1
	b := make([][]*big.Int, dim)
	c := big.NewInt(1)
	coef := make([]*big.Int, n)
	for i := n - 1; i >= 0; i-- {
		coef[i] = new(big.Int).Set(c)
		c = new(big.Int).Mod(new(big.Int).Mul(c, new(big.Int).SetUint64(m)), mod)
	}
	for i := 0; i < dim; i++ {
		b[i] = make([]*big.Int, dim)
		for j := range b[i] {
			b[i][j] = new(big.Int)
		}
		if i < n {
			b[i][i].SetInt64(1)
			b[i][n].Mul(coef[i], K)
		} else {
			b[i][n].Mul(mod, K)
		}
	}
	lll(b)
	for _, row := range b {
		if row[n].Sign() != 0 {
			continue
		}
		ok, nz := true, false
		for i := 0; i < n; i++ {
			if !row[i].IsInt64() || row[i].Int64() > 25 || row[i].Int64() < -25 {
				ok = false
				break
			}
			if row[i].Sign() != 0 {
				nz = true
			}
		}
		if !ok || !nz {
			continue
		}
		x1 := make([]byte, n)
		x2 := make([]byte, n)
		for i := 0; i < n; i++ {
			d := row[i].Int64()
			x1[i], x2[i] = 'a', 'a'
			if d >= 0 {
				x1[i] = byte('a' + d)
			} else {
				x2[i] = byte('a' - d)
			}
		}
		if string(x1) != string(x2) && multHash(string(x1), m, bits) == multHash(string(x2), m, bits) {
			return string(x1), string(x2), true
		}
	}
	return "", "", false
}

const lllPrec = 512

func dot(a, b []*big.Float) *big.Float {
	s := new(big.Float).SetPrec(lllPrec)
	for i := range a {
		s.Add(s, new(big.Float).SetPrec(lllPrec).Mul(a[i], b[i]))
	}
	return s
}

// lll reduces the basis in place (delta = 3/4), Gram-Schmidt in 512-bit floats.
func lll(b [][]*big.Int) {
	n := len(b)
	bs := make([][]*big.Float, n) // orthogonalised
	mu := make([][]*big.Float, n)
	norm := make([]*big.Float, n)
	gs := func(upto int) {
		for i := 0; i <= upto; i++ {
			v := make([]*big.Float, len(b[i]))
			for j := range v {
				v[j] = new(big.Float).SetPrec(lllPrec).SetInt(b[i][j])
			}
			mu[i] = make([]*big.Float, n)
			bs[i] = make([]*big.Float, len(v))
			copy(bs[i], v)
			for j := 0; j < i; j++ {
				if norm[j].Sign() == 0 {
					mu[i][j] = new(big.Float).SetPrec(lllPrec)
					continue
				}
				mu[i][j] = new(big.Float).SetPrec(lllPrec).Quo(dot(v, bs[j]), norm[j])
				for k := range bs[i] {
					bs[i][k] = new(big.Float).SetPrec(lllPrec).Sub(bs[i][k], new(big.Float).SetPrec(lllPrec).Mul(mu[i][j], bs[j][k]))
				}
			}
			norm[i] = dot(bs[i], bs[i])
		}
	}
	gs(n - 1)
	half := big.NewFloat(0.5)
	delta := big.NewFloat(0.75)
	k := 1
	for iter := 0; k < n && iter < 200000; iter++ {
		gs(k)
		for j := k - 1; j >= 0; j-- {
			q := new(big.Float).SetPrec(lllPrec).Set(mu[k][j])
			if q.Sign() >= 0 {
				q.Add(q, half)
			} else {
				q.Sub(q, half)
			}
			qi, _ := q.Int(nil)
			if qi.Sign() != 0 {
				for c := range b[k] {
					b[k][c].Sub(b[k][c], new(big.Int).Mul(qi, b[j][c]))
				}
				gs(k)
			}
		}
		lhs := norm[k]
		t := new(big.Float).SetPrec(lllPrec).Mul(mu[k][k-1], mu[k][k-1])
		t.Sub(delta, t)
		t.Mul(t, norm[k-1])
		if lhs.Cmp(t) >= 0 {
			k++
		} else {
			b[k], b[k-1] = b[k-1], b[k]
			gs(k)
			if k > 1 {
				k--
			}
		}
	}
}
