// Package c17: rune-aware string helpers of strz/strs.go (Mask, Sub, SubByDisplay, Rev,
// Len, RemoveRunes, UcFirst/LcFirst, SnakeToCamelCase, CamelCaseToSnake).
//
// A case is one subject string (`@ C17 s <hex>`) and a list of independent calls on it
// (see lean/Golib/Model/C17.lean for the op grammar). The functions are pure, so a
// panic answers "panic" for that line only.
package c17

import (
	"encoding/hex"
	"fmt"
	"math"
	"regexp"
	"runtime"
	"strconv"
	"strings"
	"unicode/utf8"

	"github.com/welllog/golib/strz"

	"verifharness/internal/core"
)

func init() {
	core.Register(&core.Prop{
		ID:       "C17",
		Title:    "Rune-aware string helpers never split a rune and match rune-slice definitions",
		Quick:    14000,
		Thorough: 600000,
		Gen:      gen,
		Corpus:   corpus,
		Impl:     impl,
		Check:    check,
		NonTrivial: func(c core.Case, out []string) bool {
			if isHist(c) {
				return len(c.Lines) > 2
			}
			s, ok := subject(c)
			if !ok || len(c.Lines) < 2 {
				return false
			}
			if identRe.MatchString(s) && strings.Contains(s, "_") {
				return true
			}
			for i := 0; i < len(s); i++ {
				if s[i] >= utf8.RuneSelf {
					return true
				}
			}
			return false
		},
		Rule:     "one subject string and 2..14 independent calls on it. Streams: mixed = 0..9 fragments of {a,B,_,1,é,你,😀,\\xff,\\xe4\\xbd}; edge = the same mixed 50/50 with boundary scalars of every encoded length (U+7F,U+80,U+7FF,U+800,U+D7FF,U+E000,U+FFFD,U+FFFF,U+10000,U+10FFFF) and malformed sequences (lone continuation, truncated 2/3/4-byte, overlong, surrogate, >U+10FFFF, 0xf8); ident = words of the grammar [a-z][a-z0-9]*(_[a-z][a-z0-9]*)*; ident-mutated = one insertion of _,A,Z,1,é,你,\\xff,_1 into such a word; camel = the camelCase/PascalCase image of such a word. Arguments 0..runeCount+3 (30% within ±1..3 of the end, 30% in the lower half so that sums stay inside), 4% huge (MaxInt64-k, MaxInt64/2+k, MaxInt64-runeCount-k, 2^31..2^62: sums wrap around in int), -1 for Sub's length, 2% negative (correspondence only). history (header `@ C17 H`) = 3-8 calls on DIFFERENT subjects per case (lines `on <hex> <op>`): long results (>= 1024 / 4096, rarely 65536 bytes) followed by calls of the same and other functions on other subjects, RemoveRunes with a predicate that panics at its nth invocation (recovered) followed by ordinary calls; every returned string is kept with an independent copy and re-compared after every later call (results ledger, also within the ordinary cases); pairs of DIFFERENT identifiers with equal length and equal classic multiplicative string hash (h*31, *33, *131, *1313, *65599 mod 2^32 and 2^64; found by lattice reduction) converted one after the other; different long texts of equal byte length written into the SAME caller buffer and viewed as strings (lines `onbuf <id> <hex> <op>`) with Sub paging through each, and allocate-call-drop rounds separated by runtime.GC() (line `gc`); large (header `@ C17 L`) = subjects of 1 000-16 384 runes (rarely 65 535-65 537; thorough up to 100 000) of mixed / single / single-wide-rune-in-ASCII / invalid composition and identifiers of 500+ segments, arguments 0,1,n-1,n,n+1,2n,MaxInt64-k and 255..65537, masks of 0, 1, up to 6000 runes. Corpus: every string of ≤ 3 fragments with every in-scope argument. Non-trivial = the subject contains a multi-byte rune or an invalid byte, or is a grammar identifier with at least one underscore; distinct by hash of subject+ops",
		Classify: classify,
		Shrink:   shrink,
		Parallel: true,
		Extras:   []core.Extra{Utf8TieExtra(), TransDiffUtf8Extra()},
		Assumptions: []string{
			"Go int = int64: arguments up to MaxInt64 are generated; for Mask the theorem c17_mask_int64_exact shows the repaired code never wraps, Sub/SubByDisplay only compare (a wrapped start+length is negative, hence != count like the exact sum); strings.Repeat never exhausts memory (mask count <= rune count)",
			"lean/Golib/Prelude/Utf8.lean equals unicode/utf8 (DecodeRuneInString, RuneCountInString, RuneLen, the range loop, WriteRune): compared with the standard library exhaustively on every run (extra utf8-prelude-exhaustive-tie: all inputs of <= 2 bytes, all 3-byte inputs with a multi-byte leader, boundary-complete 4-byte inputs, every int32 rune around the scalar range) and through every differential call",
		},
	})
}

var frags = []string{"a", "B", "_", "1", "é", "你", "😀", "\xff", "\xe4\xbd"}

// boundary scalar values of every encoded length, and malformed sequences of every kind
// (lone continuation, truncated 2/3/4-byte forms, overlong, surrogate, beyond U+10FFFF)
var edgeFrags = []string{"\x7f", "\u0080", "\u07ff", "\u0800", "\ud7ff", "\ue000", "\ufffd", "\uffff",
	"\U00010000", "\U0010ffff", "z", "Z", "A", "0", "9",
	"\x80", "\xc3", "\xe4\xbd", "\xf0\x9f\x98", "\xc0\x80", "\xe0\x80\x80", "\xed\xa0\x80", "\xf4\x90\x80\x80", "\xf8"}

var identRe = regexp.MustCompile(`^[a-z][a-z0-9]*(_[a-z][a-z0-9]*)*$`)

// ASCII camelCase / PascalCase identifiers (the images of identRe under SnakeToCamelCase, and more)
var camelRe = regexp.MustCompile(`^[A-Za-z][A-Za-z0-9]*$`)

func hx(s string) string {
	if s == "" {
		return "-"
	}
	return hex.EncodeToString([]byte(s))
}

func unhx(h string) (string, bool) {
	if h == "-" {
		return "", true
	}
	b, err := hex.DecodeString(h)
	return string(b), err == nil
}

func subject(c core.Case) (string, bool) {
	t := core.Toks(c.Lines[0])
	if len(t) != 4 || (t[2] != "s" && t[2] != "L") {
		return "", false
	}
	return unhx(t[3])
}

// isLarge: header `@ C17 L <hex>` (large stream; the oracle evaluates it with linear-time
// evaluators proved equal to the cursor models, see lean/Golib/Model/C17.lean).
func isLarge(c core.Case) bool {
	t := core.Toks(c.Lines[0])
	return len(t) == 4 && t[2] == "L"
}

func isASCII(s string) bool {
	for i := 0; i < len(s); i++ {
		if s[i] >= utf8.RuneSelf {
			return false
		}
	}
	return true
}


func mk(s string, ops ...string) core.Case {
	return core.Case{Lines: append([]string{"@ C17 s " + hx(s)}, ops...), Tag: "corpus"}
}

// allOps lists every call with every in-scope argument for a subject string.
func allOps(s string) []string {
	n := utf8.RuneCountInString(s)
	ops := []string{"rev", "len", "ucfirst", "lcfirst", "c2s", "isident", "s2c true", "s2c false", "round true", "round false"}
	for a := 0; a <= n+3; a++ {
		for b := -1; b <= n+3; b++ {
			ops = append(ops, fmt.Sprintf("sub %d %d", a, b))
		}
		for b := 0; b <= n+3; b++ {
			ops = append(ops, fmt.Sprintf("mask %s %d %d", hx("*"), a, b))
		}
	}
	for a := 0; a <= len(s)+3; a++ {
		ops = append(ops, fmt.Sprintf("subd %d", a))
	}
	for _, f := range []string{"a", "é", "你", "😀", "\xff", "_B", "�"} {
		ops = append(ops, "remove "+hx(f))
	}
	for _, m := range []string{"", "#é", "你", "\xff", "\xff*"} {
		ops = append(ops, fmt.Sprintf("mask %s 1 1", hx(m)), fmt.Sprintf("mask %s 0 %d", hx(m), n/2))
	}
	return ops
}

func corpus() []core.Case {
	cs := []core.Case{
		// F9 (DESIGN §6): SubByDisplay advances by RuneLen(U+FFFD)=3 for a 1-byte invalid sequence
		mk("\xff\xff\xff\xff\xff", "subd 4"),
		// F15: l-start-end wrapped around in int (panic in strings.Repeat / wrong result)
		mk("abc", "mask 2a 9223372036854775807 5", "mask 2a 9223372036854775807 9223372036854775807",
			"mask 2a 9223372036854775806 3", "mask 2a23 4611686018427387904 4611686018427387907", "mask 2a 5 9223372036854775807",
			"mask 2a 9223372036854775807 0", "mask 2a 0 9223372036854775807", "mask - 9223372036854775805 9223372036854775807",
			"sub 9223372036854775807 9223372036854775807", "sub 1 9223372036854775807", "sub 9223372036854775807 -1", "sub 0 9223372036854775807",
			"sub 2 9223372036854775806", "subd 9223372036854775807", "subd 4611686018427387904"),
		mk("a你😀\xffb", "mask 2a 9223372036854775807 5", "mask e4bda0 9223372036854775804 9", "sub 3 9223372036854775805", "subd 9223372036854775807"),
		// history: long results watched while later calls run; a recovered predicate panic, then ordinary calls
		{Lines: []string{"@ C17 H", "on " + hx(strings.Repeat("ab你", 500)) + " rev", "on " + hx(strings.Repeat("xyz😀", 300)) + " rev",
			"on " + hx(strings.Repeat("q", 1500)) + " rev", "on " + hx("abc") + " rev", "on " + hx(strings.Repeat("ab你", 500)) + " remove " + hx("a"),
			"on " + hx(strings.Repeat("cd你", 450)) + " remove " + hx("你")}, Tag: "corpus"},
		{Lines: []string{"@ C17 H", "on " + hx("hello world") + " removepanic " + hx("l") + " 5", "on " + hx("abc") + " remove " + hx("b"),
			"on " + hx("héllo") + " removepanic " + hx("l") + " 1", "on " + hx("xyz") + " remove " + hx("q"), "on " + hx("wörld") + " remove " + hx("ö"),
			"on " + hx("abc") + " removepanic " + hx("c") + " 9", "on " + hx("abc") + " rev"}, Tag: "corpus"},
		func() core.Case {
			ls := []string{"@ C17 H"}
			for _, p := range collisions() {
				ls = append(ls, "on "+hx(p.x1)+" s2c true", "on "+hx(p.x2)+" s2c true", "on "+hx(p.x1)+" c2s", "on "+hx(p.x2)+" c2s",
					"on "+hx(p.x1)+" s2c false", "on "+hx(p.x2)+" s2c false")
			}
			return core.Case{Lines: ls, Tag: "corpus"}
		}(),
		func() core.Case {
			a := strings.Repeat("é", 200) + strings.Repeat("a", 400)
			b := strings.Repeat("b", 400) + strings.Repeat("ü", 200)
			return core.Case{Lines: []string{"@ C17 H", "onbuf 0 " + hx(a) + " sub 300 50", "onbuf 0 " + hx(b) + " sub 350 50",
				"onbuf 0 " + hx(a) + " sub 400 -1", "onbuf 0 " + hx(b) + " sub 500 20", "on " + hx(a) + " sub 300 50", "gc", "on " + hx(b) + " sub 350 50"}, Tag: "corpus"}
		}(),
		mk("", allOps("")...),
		mk("a\xffb", "subd 2", "subd 1", "sub 1 1", "rev", "remove "+hx("�")),
		mk("foo_bar_x1", "round true", "round false", "s2c true", "s2c false", "c2s"),
		mk("foo__bar", "round true", "round false"),
		mk("foo_", "round true", "round false"),
		mk("foo_1", "round true", "round false"),
		mk("_foo", "s2c true", "s2c false", "round true"),
		mk("é_a你_b", "s2c true", "s2c false", "c2s", "round true"),
		mk("AéB", "c2s", "lcfirst", "ucfirst"),
	}
	// every string of ≤ 3 fragments with every in-scope argument
	var rec func(prefix string, depth int)
	rec = func(prefix string, depth int) {
		cs = append(cs, mk(prefix, allOps(prefix)...))
		if depth == 0 {
			return
		}
		for _, f := range frags {
			rec(prefix+f, depth-1)
		}
	}
	for _, f := range frags {
		rec(f, 2)
	}
	return cs
}

func genMixed(r *core.Rand, edge bool) string {
	n := r.Range(0, 9)
	var sb strings.Builder
	for i := 0; i < n; i++ {
		if edge && r.Chance(50) {
			sb.WriteString(edgeFrags[r.Intn(len(edgeFrags))])
			continue
		}
		sb.WriteString(frags[r.Pick(3, 2, 2, 1, 3, 3, 3, 3, 2)])
	}
	return sb.String()
}

func genWord(r *core.Rand) string {
	n := r.Range(1, 4)
	b := make([]byte, n)
	b[0] = byte('a' + r.Intn(26))
	for i := 1; i < n; i++ {
		if r.Chance(25) {
			b[i] = byte('0' + r.Intn(10))
		} else {
			b[i] = byte('a' + r.Intn(26))
		}
	}
	return string(b)
}

func genIdent(r *core.Rand) (string, string) {
	k := r.Range(1, 4)
	ws := make([]string, k)
	for i := range ws {
		ws[i] = genWord(r)
	}
	s := strings.Join(ws, "_")
	if r.Chance(15) {
		// the camel-case image (either firstUp) as a subject of its own: c2s on camel identifiers
		for i := range ws {
			if i > 0 || r.Bool() {
				ws[i] = strings.ToUpper(ws[i][:1]) + ws[i][1:]
			}
		}
		return strings.Join(ws, ""), "camel"
	}
	if !r.Chance(30) {
		return s, "ident"
	}
	// near misses of the grammar: tie only (and no-panic)
	pos := r.Intn(len(s) + 1)
	ins := []string{"_", "_", "A", "1", "é", "你", "\xff", "Z", "_1"}[r.Intn(9)]
	return s[:pos] + ins + s[pos:], "ident-mutated"
}

var largeRunes = []int{1000, 1023, 1024, 1025, 2048, 4095, 4096, 4097, 8192, 16384}

// genLarge: subjects of 1 000 - 16 384 runes (rarely 65 535..65 537; thorough: up to 100 000),
// arguments at 0, 1, n-1, n, n+1, 2n, MaxInt64-k and around the byte/rune thresholds, masks of
// 0, 1, many runes, identifiers of 500+ segments.
func genLarge(r *core.Rand, tier string) core.Case {
	n := largeRunes[r.Intn(len(largeRunes))]
	if r.Chance(20) {
		n = r.Range(1000, 20000)
	}
	if r.Chance(5) || (tier == "thorough" && r.Chance(30)) {
		n = []int{65535, 65536, 65537}[r.Intn(3)]
		if tier == "thorough" && r.Chance(40) {
			n = []int{99999, 100000, r.Range(65537, 100000)}[r.Intn(3)]
		}
	}
	var sb strings.Builder
	ident := false
	switch r.Pick(3, 2, 2, 2, 2, 3) {
	case 0: // mixed widths
		for i := 0; i < n; i++ {
			sb.WriteString([]string{"a", "B", "_", "1", "é", "你", "😀", "�", "\u07ff", "\U00010000"}[r.Intn(10)])
		}
	case 1: // ASCII with a single wide rune at a random position (byte offsets = rune offsets before it)
		pos := r.Intn(n)
		for i := 0; i < n; i++ {
			if i == pos {
				sb.WriteString([]string{"é", "你", "😀"}[r.Intn(3)])
			} else {
				sb.WriteByte(byte('a' + r.Intn(26)))
			}
		}
	case 2: // one width only
		f := []string{"x", "é", "你", "😀"}[r.Intn(4)]
		for i := 0; i < n; i++ {
			sb.WriteString(f)
		}
	case 3: // invalid UTF-8 (no-panic, Len, SubByDisplay, and `skip` elsewhere)
		for i := 0; i < n; i++ {
			sb.WriteString([]string{"a", "你", "\xff", "\xe4\xbd", "😀"}[r.Pick(4, 3, 2, 1, 2)])
		}
	case 4: // plain ASCII text
		for i := 0; i < n; i++ {
			sb.WriteByte(byte(r.Range(32, 126)))
		}
	default: // identifier of n/6 >= 166 .. 500+ segments (or its camel image)
		ident = true
		segs := n / 2
		if segs < 500 {
			segs = 500 + r.Intn(100)
		}
		camel := r.Chance(30)
		up := r.Bool()
		for i := 0; i < segs; i++ {
			w := genWord(r)
			if camel {
				if i > 0 || up {
					w = strings.ToUpper(w[:1]) + w[1:]
				}
			} else if i > 0 {
				sb.WriteByte('_')
			}
			sb.WriteString(w)
		}
	}
	s := sb.String()
	n = utf8.RuneCountInString(s)
	arg := func() int {
		switch r.Pick(2, 2, 2, 2, 2, 2, 2, 3, 2) {
		case 0:
			return 0
		case 1:
			return 1
		case 2:
			return n - 1
		case 3:
			return n
		case 4:
			return n + 1
		case 5:
			return 2 * n
		case 6:
			return math.MaxInt64 - r.Range(0, 3)
		case 7:
			return r.Range(0, n)
		default:
			return []int{255, 256, 257, 1023, 1024, 1025, 4095, 4096, 4097, 65535, 65536, 65537}[r.Intn(12)]
		}
	}
	lines := []string{"@ C17 L " + hx(s)}
	for k := r.Range(2, 5); k > 0; k-- {
		var w []int
		if ident {
			w = []int{1, 1, 1, 1, 1, 1, 5, 5, 6}
		} else {
			w = []int{6, 6, 5, 3, 2, 3, 1, 1, 1}
		}
		switch r.Pick(w...) {
		case 0:
			l := arg()
			if r.Chance(20) {
				l = -1
			}
			lines = append(lines, fmt.Sprintf("sub %d %d", arg(), l))
		case 1:
			var m string
			switch r.Pick(3, 2, 2, 2, 1) {
			case 0:
				m = "*"
			case 1:
				m = "你"
			case 2:
				m = ""
			case 3: // many runes
				m = strings.Repeat([]string{"#", "é#", "x你😀"}[r.Intn(3)], r.Range(2, 2000))
			default:
				m = "\xff"
			}
			a, b := arg(), arg()
			if r.Chance(50) && n > 4 { // make sure there is something to mask
				a, b = r.Range(0, n/2), r.Range(0, n/2-1)
			}
			lines = append(lines, fmt.Sprintf("mask %s %d %d", hx(m), a, b))
		case 2:
			lim := arg()
			if r.Bool() {
				lim = r.Range(0, len(s)+2)
			}
			lines = append(lines, fmt.Sprintf("subd %d", lim))
		case 3:
			lines = append(lines, "rev")
		case 4:
			lines = append(lines, "len")
		case 5:
			lines = append(lines, "remove "+hx([]string{"a", "你", "_", "😀é", "�", "", "xyz"}[r.Intn(7)]))
		case 6:
			lines = append(lines, "s2c "+strconv.FormatBool(r.Bool()))
		case 7:
			lines = append(lines, "c2s")
		case 8:
			lines = append(lines, "round "+strconv.FormatBool(r.Bool()))
		}
	}
	if r.Chance(30) {
		lines = append(lines, "ucfirst", "lcfirst")
	}
	return core.Case{Lines: lines, Tag: "large"}
}

// genHist: HISTORY cases (header `@ C17 H`): several calls on DIFFERENT subjects in one case, so
// that results of earlier calls (incl. long ones >= 1024 / 4096 / 65536 bytes) are watched by the
// results ledger while later calls run, and calls with a PANICKING predicate (recovered) are
// followed by ordinary calls.
func genHist(r *core.Rand, tier string) core.Case {
	subj := func(long bool) string {
		n := r.Range(0, 12)
		if long {
			n = []int{300, 400, 1024, 1100, 1400, 2000}[r.Intn(6)]
			if r.Chance(25) {
				n = []int{4096, 4200, 5000}[r.Intn(3)]
			}
			if r.Chance(4) || (tier == "thorough" && r.Chance(15)) {
				n = []int{22000, 65536, 66000}[r.Intn(3)]
			}
		}
		var sb strings.Builder
		fs := []string{"a", "b", "_", "é", "你", "😀", "x", "Q"}
		ascii := r.Chance(30)
		bad := r.Chance(10)
		for i := 0; i < n; i++ {
			switch {
			case ascii:
				sb.WriteByte(byte('a' + r.Intn(26)))
			case bad && r.Chance(5):
				sb.WriteString("\xff")
			default:
				sb.WriteString(fs[r.Intn(len(fs))])
			}
		}
		return sb.String()
	}
	op := func(s string) string {
		n := utf8.RuneCountInString(s)
		switch r.Pick(6, 4, 4, 2, 2, 1, 1, 1, 1) {
		case 0:
			return "rev"
		case 1:
			return "remove " + hx([]string{"a", "你", "_", "aé", "😀", "q"}[r.Intn(6)])
		case 2:
			nth := r.Range(1, n+2)
			if r.Chance(30) {
				nth = r.Range(1, 3)
			}
			return fmt.Sprintf("removepanic %s %d", hx([]string{"a", "你", "_", "aé"}[r.Intn(4)]), nth)
		case 3:
			return fmt.Sprintf("sub %d %d", r.Range(0, n/2+1), r.Range(-1, n+1))
		case 4:
			return fmt.Sprintf("mask %s %d %d", hx([]string{"*", "你", "", "#é"}[r.Intn(4)]), r.Range(0, n/2+1), r.Range(0, n/2+1))
		case 5:
			return "s2c " + strconv.FormatBool(r.Bool())
		case 6:
			return "c2s"
		case 7:
			return fmt.Sprintf("subd %d", r.Range(0, len(s)+1))
		default:
			return []string{"ucfirst", "lcfirst", "len"}[r.Intn(3)]
		}
	}
	lines := []string{"@ C17 H"}
	switch r.Pick(14, 3, 3) {
	case 1:
		// two DIFFERENT identifiers of equal length and equal classic string hash, one after the other
		// (a cache keyed by hash+length instead of the string would hand out the first one's result)
		if ps := collisions(); len(ps) > 0 {
			p := ps[r.Intn(len(ps))]
			pre, suf := "", ""
			if r.Chance(40) {
				pre = genWord(r) + "_"
			}
			if r.Chance(40) {
				suf = "_" + genWord(r)
			}
			x1, x2 := pre+p.x1+suf, pre+p.x2+suf
			if r.Bool() {
				x1, x2 = x2, x1
			}
			fu := strconv.FormatBool(r.Bool())
			ops := [][2]string{{x1, "s2c " + fu}, {x2, "s2c " + fu}, {x1, "c2s"}, {x2, "c2s"}, {x2, "round " + fu}, {x1, "round " + fu}}
			for _, o := range ops {
				if r.Chance(85) {
					lines = append(lines, "on "+hx(o[0])+" "+o[1])
				}
			}
			return core.Case{Lines: lines, Tag: "history"}
		}
	case 2:
		// two or three different long texts of EQUAL BYTE LENGTH written one after the other into the
		// same caller buffer and viewed as strings (same address + length, different rune layout);
		// Sub pages through each; plus allocate - call - drop rounds separated by runtime.GC()
		n1, n2 := r.Range(150, 900), r.Range(60, 600)
		mk := func(kind int) string {
			var sb strings.Builder
			switch kind {
			case 0: // wide runes first
				sb.WriteString(strings.Repeat("é", n2))
				sb.WriteString(strings.Repeat("a", n1))
			case 1: // ASCII first
				sb.WriteString(strings.Repeat("b", n1))
				sb.WriteString(strings.Repeat("ü", n2))
			default: // interleaved
				for i := 0; i < n1 || i < n2; i++ {
					if i < n1 {
						sb.WriteByte(byte('c' + i%20))
					}
					if i < n2 {
						sb.WriteString("ö")
					}
				}
			}
			return sb.String()
		}
		texts := []string{mk(0), mk(1), mk(2)}
		step := r.Range(40, 200)
		for round := 0; round < r.Range(2, 3); round++ {
			for ti := range texts {
				t := texts[(ti+round)%3]
				for p := r.Range(1, 3); p < 6; p += r.Range(1, 2) {
					ln := step
					if r.Chance(20) {
						ln = -1
					}
					op := fmt.Sprintf("sub %d %d", p*step, ln)
					if r.Chance(70) {
						lines = append(lines, "onbuf 0 "+hx(t)+" "+op)
					} else {
						lines = append(lines, "on "+hx(t)+" "+op)
						if r.Bool() {
							lines = append(lines, "gc")
						}
					}
					if len(lines) > 40 {
						break
					}
				}
			}
		}
		return core.Case{Lines: lines, Tag: "history"}
	}
	k := r.Range(3, 8)
	style := r.Pick(4, 3, 3)
	for i := 0; i < k; i++ {
		var s, o string
		switch style {
		case 0: // long results first, then calls of the same function on other subjects of similar and smaller size
			s = subj(i < 2 || r.Chance(40))
			o = op(s)
			if r.Chance(60) {
				o = []string{"rev", "rev", "remove " + hx("a"), "remove " + hx("你")}[r.Intn(4)]
			}
		case 1: // a recovered predicate panic somewhere, ordinary calls after it
			s = subj(r.Chance(30))
			if i == 0 || r.Chance(35) {
				if s == "" {
					s = "abc你"
				}
				o = fmt.Sprintf("removepanic %s %d", hx([]string{"a", "你", "_", "b"}[r.Intn(4)]), r.Range(1, utf8.RuneCountInString(s)))
			} else if r.Chance(60) {
				o = "remove " + hx([]string{"a", "你", "_", "b"}[r.Intn(4)])
			} else {
				o = op(s)
			}
		default:
			s = subj(r.Chance(35))
			o = op(s)
		}
		lines = append(lines, "on "+hx(s)+" "+o)
		if r.Chance(25) { // the same call again (pooled memory is most likely handed out again at once)
			lines = append(lines, "on "+hx(s)+" "+o)
		}
	}
	return core.Case{Lines: lines, Tag: "history"}
}

func gen(r *core.Rand, tier string) core.Case {
	if (tier == "thorough" && r.Intn(1000) < 25) || (tier != "thorough" && r.Intn(1000) < 25) {
		return genHist(r, tier)
	}
	// large stream: ~0.3 % of the cases in quick (about 300), 0.1 % of the (30x larger) thorough budget
	if (tier != "thorough" && r.Intn(1000) < 9) || (tier == "thorough" && r.Intn(1000) < 1) {
		return genLarge(r, tier)
	}
	var s, tag string
	if r.Chance(25) {
		s, tag = genIdent(r)
	} else if r.Chance(25) {
		s, tag = genMixed(r, true), "edge"
	} else {
		s, tag = genMixed(r, false), "mixed"
	}
	n := utf8.RuneCountInString(s)
	arg := func() int {
		if r.Chance(2) {
			return -r.Range(1, 3) // outside the property's scope: correspondence only
		}
		if r.Chance(4) {
			// far beyond the rune count, up to MaxInt64: sums of two arguments wrap around in int
			switch r.Pick(3, 3, 2, 1, 1) {
			case 0:
				return math.MaxInt64 - r.Range(0, n+3)
			case 1:
				return math.MaxInt64/2 + r.Range(0, n+4)
			case 2:
				return math.MaxInt64 - n - r.Range(0, 3)
			case 3:
				return 1 << uint(r.Range(31, 62))
			default:
				return math.MaxInt32 + r.Range(-1, 2)
			}
		}
		if r.Chance(30) {
			return r.Range(n-1, n+3) // around and beyond the end
		}
		if r.Chance(45) {
			return r.Range(0, (n+1)/2) // small enough that start+end / start+length stay inside
		}
		return r.Range(0, n+3)
	}
	lines := []string{"@ C17 s " + hx(s)}
	k := r.Range(2, 14) // more calls per case, fewer cases: the per-case overhead of the runner dominates under load
	ident := tag == "ident" || tag == "ident-mutated" || tag == "camel"
	for i := 0; i < k; i++ {
		var w []int
		if ident {
			w = []int{6, 4, 4, 2, 2, 3, 3, 3, 10, 8, 16, 6}
		} else {
			w = []int{22, 18, 18, 8, 4, 10, 3, 3, 4, 4, 4, 1}
		}
		switch r.Pick(w...) {
		case 0:
			l := arg()
			if r.Chance(20) {
				l = -1
			}
			lines = append(lines, fmt.Sprintf("sub %d %d", arg(), l))
		case 1:
			var m string
			switch r.Pick(5, 2, 2, 1, 1, 1) {
			case 0:
				m = "*"
			case 1:
				m = frags[r.Intn(len(frags))]
			case 2:
				m = frags[r.Intn(len(frags))] + frags[r.Intn(len(frags))]
			case 3:
				m = ""
			case 4:
				m = "你"
			case 5:
				m = "\xff"
			}
			lines = append(lines, fmt.Sprintf("mask %s %d %d", hx(m), arg(), arg()))
		case 2:
			lim := r.Range(0, len(s)+3)
			if r.Chance(40) {
				lim = r.Range(0, 2*n+2)
			}
			if r.Chance(2) {
				lim = -r.Range(1, 3)
			} else if r.Chance(3) {
				lim = arg()
			}
			lines = append(lines, fmt.Sprintf("subd %d", lim))
		case 3:
			lines = append(lines, "rev")
		case 4:
			lines = append(lines, "len")
		case 5:
			set := ""
			for j := r.Range(0, 3); j > 0; j-- {
				if tag == "edge" && r.Bool() {
					set += edgeFrags[r.Intn(len(edgeFrags))]
				} else {
					set += frags[r.Intn(len(frags))]
				}
			}
			if r.Chance(10) {
				set += "�"
			}
			lines = append(lines, "remove "+hx(set))
		case 6:
			lines = append(lines, "ucfirst")
		case 7:
			lines = append(lines, "lcfirst")
		case 8:
			lines = append(lines, "s2c "+strconv.FormatBool(r.Bool()))
		case 9:
			lines = append(lines, "c2s")
		case 10:
			lines = append(lines, "round "+strconv.FormatBool(r.Bool()))
		case 11:
			lines = append(lines, "isident")
		}
	}
	return core.Case{Lines: lines, Tag: tag}
}

// ---- implementation adapter

// ledger: every string the library returned in this case, kept as returned (sharing whatever
// memory the library handed out) with an independent copy; re-compared after every later call.
type ledger struct {
	got []string
	cp  [][]byte
}

func (l *ledger) keep(s string) string {
	if l != nil {
		l.got = append(l.got, s)
		l.cp = append(l.cp, []byte(strings.Clone(s)))
	}
	return s
}

func (l *ledger) changed() int {
	if l == nil {
		return -1
	}
	for i, s := range l.got {
		if s != string(l.cp[i]) {
			return i
		}
	}
	return -1
}

func call(s string, t []string) string { return callL(nil, s, t) }

func callL(led *ledger, s string, t []string) string {
	atoi := func(x string) (int, bool) {
		v, err := strconv.Atoi(x)
		return v, err == nil
	}
	switch {
	case len(t) == 3 && t[0] == "sub":
		a, ok1 := atoi(t[1])
		b, ok2 := atoi(t[2])
		if !ok1 || !ok2 {
			return "bad-op"
		}
		return hx(led.keep(strz.Sub(s, a, b)))
	case len(t) == 4 && t[0] == "mask":
		m, ok0 := unhx(t[1])
		a, ok1 := atoi(t[2])
		b, ok2 := atoi(t[3])
		if !ok0 || !ok1 || !ok2 {
			return "bad-op"
		}
		return hx(led.keep(strz.Mask(s, m, a, b)))
	case len(t) == 2 && t[0] == "subd":
		a, ok := atoi(t[1])
		if !ok {
			return "bad-op"
		}
		return hx(led.keep(strz.SubByDisplay(s, a)))
	case len(t) == 1 && t[0] == "rev":
		return hx(led.keep(strz.Rev(s)))
	case len(t) == 1 && t[0] == "len":
		return strconv.Itoa(strz.Len(s))
	case len(t) == 1 && t[0] == "ucfirst":
		return hx(led.keep(strz.UcFirst(s)))
	case len(t) == 1 && t[0] == "lcfirst":
		return hx(led.keep(strz.LcFirst(s)))
	case len(t) == 1 && t[0] == "c2s":
		return hx(led.keep(strz.CamelCaseToSnake(s)))
	case len(t) == 1 && t[0] == "isident":
		// not a call into /repo: ties the Lean grammar of the round-trip theorem to identRe
		return strconv.FormatBool(identRe.MatchString(s))
	case len(t) == 2 && t[0] == "remove":
		set, ok := unhx(t[1])
		if !ok {
			return "bad-op"
		}
		rs := []rune(set)
		return hx(led.keep(strz.RemoveRunes(s, func(r rune) bool {
			for _, x := range rs {
				if x == r {
					return true
				}
			}
			return false
		})))
	case len(t) == 3 && t[0] == "removepanic":
		// a predicate that panics at its nth invocation; the caller (this harness) recovers
		set, ok := unhx(t[1])
		nth, err := strconv.Atoi(t[2])
		if !ok || err != nil || nth < 0 {
			return "bad-op"
		}
		rs := []rune(set)
		calls := 0
		type predPanic struct{}
		res, recovered := func() (res string, recovered bool) {
			defer func() {
				if v := recover(); v != nil {
					if _, mine := v.(predPanic); !mine {
						panic(v) // a panic of the library itself
					}
					recovered = true
				}
			}()
			return strz.RemoveRunes(s, func(r rune) bool {
				calls++
				if calls == nth {
					panic(predPanic{})
				}
				for _, x := range rs {
					if x == r {
						return true
					}
				}
				return false
			}), false
		}()
		if recovered {
			return "panic-recovered"
		}
		return hx(led.keep(res))
	case len(t) == 2 && t[0] == "s2c":
		b, err := strconv.ParseBool(t[1])
		if err != nil || (t[1] != "true" && t[1] != "false") {
			return "bad-op"
		}
		return hx(led.keep(strz.SnakeToCamelCase(s, b)))
	case len(t) == 2 && t[0] == "round":
		b, err := strconv.ParseBool(t[1])
		if err != nil || (t[1] != "true" && t[1] != "false") {
			return "bad-op"
		}
		return hx(led.keep(strz.CamelCaseToSnake(strz.SnakeToCamelCase(s, b))))
	}
	return "bad-op"
}

// isHist: header `@ C17 H` — every line `on <hex> <op…>` names its own subject.
func isHist(c core.Case) bool {
	t := core.Toks(c.Lines[0])
	return len(t) == 3 && t[2] == "H"
}

// histLine splits `on <hex> <op…>`.
func histLine(l string) (s string, t []string, ok bool) {
	f := core.Toks(l)
	if len(f) >= 4 && f[0] == "onbuf" {
		s, ok = unhx(f[2])
		return s, f[3:], ok
	}
	if len(f) < 3 || f[0] != "on" {
		return "", nil, false
	}
	s, ok = unhx(f[1])
	return s, f[2:], ok
}

// asSingle rewrites line i of a history case as a single-subject case (for check/classify).
func asSingle(c core.Case, out []string, i int) (core.Case, []string, bool) {
	s, t, ok := histLine(c.Lines[i])
	if !ok {
		return core.Case{}, nil, false
	}
	kind := "s"
	if len(s) > 512 {
		kind = "L"
	}
	op := strings.Join(t, " ")
	o := out[i]
	if t[0] == "removepanic" {
		op = "remove " + t[1] // when the predicate did not panic the result is that of an ordinary call
	}
	return core.Case{Lines: []string{"@ C17 " + kind + " " + hx(s), op}, Tag: c.Tag}, []string{"ok", o}, true
}

func implHist(c core.Case) []string {
	out := []string{"ok"}
	led := &ledger{}
	bufs := map[string][]byte{} // caller buffers reused (overwritten in place) between calls
	for _, l := range c.Lines[1:] {
		if strings.TrimSpace(l) == "gc" {
			runtime.GC() // freed strings may be re-allocated at the same address with other contents
			out = append(out, "ok")
			continue
		}
		s, t, ok := histLine(l)
		if !ok {
			out = append(out, "bad-op")
			continue
		}
		before := strings.Clone(s)
		useLed := led
		if f := core.Toks(l); f[0] == "onbuf" {
			// the subject is a string VIEW of buffer f[1]: same address and length as the previous
			// view of that buffer, different text (hidden input = memory identity, WAVE6 class 11)
			b := bufs[f[1]]
			if len(b) != len(s) || len(s) == 0 {
				b = make([]byte, len(s))
				bufs[f[1]] = b
			}
			copy(b, s)
			s = strz.UnsafeString(b)
			useLed = nil // results may alias the buffer the CALLER overwrites next: not the library's doing
		} else {
			s = strings.Clone(s) // a fresh allocation per line (allocate - call - drop)
		}
		o := core.Guard(func() string { return callL(useLed, s, t) })
		if s != before {
			o = "input-modified"
		}
		if o != "panic" && o != "bad-op" {
			if j := led.changed(); j >= 0 {
				o = fmt.Sprintf("ledger-changed %d", j) // an EARLIER result changed during this call
			}
		}
		out = append(out, o)
	}
	return out
}

func impl(c core.Case) []string {
	if isHist(c) {
		return implHist(c)
	}
	out := make([]string, 0, len(c.Lines))
	s, ok := subject(c)
	if !ok {
		out = append(out, "bad-op")
		for range c.Lines[1:] {
			out = append(out, "bad-op")
		}
		return out
	}
	before := strings.Clone(s)
	out = append(out, "ok")
	led := &ledger{}
	for _, l := range c.Lines[1:] {
		t := core.Toks(l)
		o := core.Guard(func() string { return callL(led, s, t) })
		if o != "panic" && o != "bad-op" {
			if j := led.changed(); j >= 0 {
				o = fmt.Sprintf("ledger-changed %d", j)
			}
		}
		out = append(out, o)
	}
	if s != before {
		out[0] = "input-modified"
	}
	return out
}

// ---- independent oracle: the property's own predicate on rune slices

func width(rs []rune) int {
	w := 0
	for _, r := range rs {
		if r < 0x80 {
			w++
		} else {
			w += 2
		}
	}
	return w
}

func check(c core.Case, out []string) *core.Failure {
	if isHist(c) {
		for i := 1; i < len(c.Lines); i++ {
			_, t, ok := histLine(c.Lines[i])
			if !ok || out[i] == "bad-op" || out[i] == "skip" {
				continue
			}
			if strings.HasPrefix(out[i], "ledger-changed") {
				return &core.Failure{Key: "result-changed", Desc: fmt.Sprintf("line %d (%s): a string returned by an EARLIER call of this case (result #%s) changed during this call — results must not share memory with later calls", i, clipStr(c.Lines[i]), strings.TrimPrefix(out[i], "ledger-changed "))}
			}
			if out[i] == "input-modified" {
				return &core.Failure{Key: "input-modified", Desc: fmt.Sprintf("line %d (%s) changed its input string", i, clipStr(c.Lines[i]))}
			}
			if t[0] == "removepanic" && out[i] == "panic-recovered" {
				continue // the predicate's own panic, recovered by the caller
			}
			sc, so, ok := asSingle(c, out, i)
			if !ok {
				continue
			}
			if f := check(sc, so); f != nil {
				f.Desc = fmt.Sprintf("history line %d of %d: ", i, len(c.Lines)-1) + f.Desc
				return f
			}
		}
		return nil
	}
	s, ok := subject(c)
	if !ok {
		return nil
	}
	valid := utf8.ValidString(s)
	rs := []rune(s)
	n := len(rs)
	for i := 1; i < len(c.Lines); i++ {
		t := core.Toks(c.Lines[i])
		if len(t) == 0 || out[i] == "bad-op" || out[i] == "skip" {
			continue
		}
		if strings.HasPrefix(out[i], "ledger-changed") {
			return &core.Failure{Key: "result-changed", Desc: fmt.Sprintf("line %d (%s): a string returned by an EARLIER call of this case changed during this call", i, clipStr(c.Lines[i]))}
		}
		fn := t[0]
		// arguments in scope: non-negative (and -1 for Sub's length)
		var args []int
		inScope := true
		for j, x := range t[1:] {
			if (fn == "mask" && j == 0) || fn == "remove" || fn == "s2c" || fn == "round" {
				continue
			}
			v, err := strconv.Atoi(x)
			if err != nil {
				inScope = false
				break
			}
			if v < 0 && !(fn == "sub" && j == 1 && v == -1) {
				inScope = false
			}
			args = append(args, v)
		}
		if !inScope {
			continue
		}
		if out[i] == "panic" {
			return &core.Failure{Key: fn + "-panic", Desc: fmt.Sprintf("%s on %q (%s) with %v panics; the property says none of these functions panics on any input", fn, s, c.Lines[i], t[1:])}
		}
		if fn == "isident" {
			continue // harness regexp vs Lean automaton: decided by the correspondence diff
		}
		if fn == "len" {
			if valid && out[i] != strconv.Itoa(n) {
				return &core.Failure{Key: "len-spec", Desc: fmt.Sprintf("Len(%q)=%s, rune count is %d", s, out[i], n)}
			}
			continue
		}
		got, gok := unhx(out[i])
		if !gok {
			return &core.Failure{Key: fn + "-output", Desc: fmt.Sprintf("unparsable output %q", out[i])}
		}
		if fn == "round" {
			if identRe.MatchString(s) && got != s {
				return &core.Failure{Key: "snake-camel-roundtrip", Desc: fmt.Sprintf("CamelCaseToSnake(SnakeToCamelCase(%q, %s)) = %q", s, t[1], got)}
			}
			continue
		}
		// byte-level definitions that hold for every subject (valid UTF-8 or not)
		switch fn {
		case "ucfirst", "lcfirst":
			want := s
			if len(s) > 0 {
				if b := s[0]; fn == "ucfirst" && 'a' <= b && b <= 'z' {
					want = string(rune(b-32)) + s[1:]
				} else if fn == "lcfirst" && 'A' <= b && b <= 'Z' {
					want = string(rune(b+32)) + s[1:]
				}
			}
			if got != want {
				return &core.Failure{Key: fn + "-spec", Desc: fmt.Sprintf("%s(%q) = %q, want %q (only a leading ASCII letter is re-cased)", fn, s, got, want)}
			}
			continue
		case "s2c":
			// on identifiers of the round-trip grammar: the usual camel casing
			if identRe.MatchString(s) {
				ws := strings.Split(s, "_")
				for j, w := range ws {
					if j > 0 || t[1] == "true" {
						ws[j] = strings.ToUpper(w[:1]) + w[1:]
					}
				}
				if want := strings.Join(ws, ""); got != want {
					return &core.Failure{Key: "s2c-spec", Desc: fmt.Sprintf("SnakeToCamelCase(%q, %s) = %q, want %q", s, t[1], got, want)}
				}
			}
			continue
		case "c2s":
			// on ASCII camel-case identifiers: '_' before every capital except the first byte, lower-cased
			if camelRe.MatchString(s) {
				var sb strings.Builder
				for j := 0; j < len(s); j++ {
					if b := s[j]; 'A' <= b && b <= 'Z' {
						if j > 0 {
							sb.WriteByte('_')
						}
						sb.WriteByte(b + 32)
					} else {
						sb.WriteByte(b)
					}
				}
				if want := sb.String(); got != want {
					return &core.Failure{Key: "c2s-spec", Desc: fmt.Sprintf("CamelCaseToSnake(%q) = %q, want %q", s, got, want)}
				}
			}
			continue
		}
		if !valid {
			continue // invalid UTF-8 subject: only no-panic (above) and the model tie
		}
		var want string
		haveWant := true
		switch fn {
		case "sub":
			st, ln := args[0], args[1]
			switch {
			case st >= n:
				want = ""
			case ln == -1 || ln > n-st: // (not st+ln > n: the arguments go up to MaxInt64)
				want = string(rs[st:])
			default:
				want = string(rs[st : st+ln])
			}
		case "mask":
			m, _ := unhx(t[1])
			if !utf8.ValidString(m) {
				haveWant = false
				break
			}
			ms := []rune(m)
			st, en := args[0], args[1]
			if st >= n || en >= n || en >= n-st { // first `st` and last `en` runes cover everything (no sum: arguments go up to MaxInt64)
				want = s
			} else {
				ml := n - st - en
				mid := m
				if len(ms) == 1 {
					mid = strings.Repeat(m, ml)
				}
				want = string(rs[:st]) + mid + string(rs[n-en:])
			}
		case "subd":
			k := n
			for k > 0 && width(rs[:k]) > args[0] {
				k--
			}
			want = string(rs[:k])
		case "rev":
			rv := make([]rune, n)
			for j, r := range rs {
				rv[n-1-j] = r
			}
			want = string(rv)
		case "remove":
			set, _ := unhx(t[1])
			var keep []rune
			for _, r := range rs {
				if !strings.ContainsRune(string([]rune(set)), r) {
					keep = append(keep, r)
				}
			}
			want = string(keep)
		default:
			haveWant = false
		}
		if haveWant && got != want {
			return &core.Failure{Key: fn + "-spec", Desc: fmt.Sprintf("%s on %q (%s): got %q, rune-slice definition gives %q", fn, s, c.Lines[i], got, want)}
		}
		if fn == "mask" {
			if m, _ := unhx(t[1]); !utf8.ValidString(m) {
				continue
			}
		}
		if !utf8.ValidString(got) {
			return &core.Failure{Key: fn + "-invalid-utf8", Desc: fmt.Sprintf("%s on valid %q (%s) returned invalid UTF-8 %q", fn, s, c.Lines[i], got)}
		}
	}
	return nil
}

func clipStr(s string) string {
	if len(s) > 120 {
		return s[:120] + "…"
	}
	return s
}

func classify(c core.Case, out []string) []string {
	if isHist(c) {
		seen := map[string]bool{"stream-kind:history": true}
		afterPanic := false
		long := 0
		for i := 1; i < len(c.Lines); i++ {
			_, t, ok := histLine(c.Lines[i])
			if !ok {
				continue
			}
			if out[i] == "panic-recovered" {
				seen["history:predicate-panic-recovered"] = true
				afterPanic = true
				continue
			}
			if afterPanic {
				seen["history:"+t[0]+"-after-recovered-panic"] = true
			}
			if n := len(out[i]) / 2; n >= 1024 && out[i] != "skip" {
				long++
				if long > 1 {
					seen["history:later-call-after-long-result"] = true
				}
				for _, th := range []int{1024, 4096, 65536} {
					if n >= th {
						seen[fmt.Sprintf("history:result>=%d-bytes", th)] = true
					}
				}
			}
			if sc, so, ok := asSingle(c, out, i); ok {
				for _, l := range classify(sc, so) {
					if !strings.HasPrefix(l, "subject:") {
						seen[l] = true
					}
				}
			}
		}
		var ls []string
		for l := range seen {
			ls = append(ls, l)
		}
		return ls
	}
	s, ok := subject(c)
	if !ok {
		return []string{"bad-header"}
	}
	var ls []string
	if utf8.ValidString(s) {
		ls = append(ls, "subject:valid-utf8")
	} else {
		ls = append(ls, "subject:invalid-utf8")
	}
	if identRe.MatchString(s) {
		ls = append(ls, "subject:in-grammar")
	}
	n := utf8.RuneCountInString(s)
	if isLarge(c) {
		ls = append(ls, "subject:large")
		for _, th := range []int{4096, 65536} {
			if n > th {
				ls = append(ls, fmt.Sprintf("subject:large>%d-runes", th))
			}
		}
	}
	for i, l := range c.Lines[1:] {
		t := core.Toks(l)
		if len(t) == 0 {
			continue
		}
		o := out[i+1]
		ls = append(ls, "op:"+t[0])
		if o == "skip" {
			ls = append(ls, t[0]+":large-skip")
			continue
		}
		if o == "panic" {
			ls = append(ls, t[0]+":panic")
			continue
		}
		switch t[0] {
		case "sub":
			a, _ := strconv.Atoi(t[1])
			b, _ := strconv.Atoi(t[2])
			if a > math.MaxInt32 || b > math.MaxInt32 {
				ls = append(ls, "sub:huge-arg")
			}
			switch {
			case a < 0 || b < -1:
				ls = append(ls, "sub:negative-arg")
			case a >= n:
				ls = append(ls, "sub:start-beyond-end")
			case b == -1:
				ls = append(ls, "sub:to-end")
			case b > n-a:
				ls = append(ls, "sub:length-beyond-end")
			case a+b == n:
				ls = append(ls, "sub:ends-exactly-at-end")
			default:
				ls = append(ls, "sub:inner")
			}
		case "mask":
			a, _ := strconv.Atoi(t[2])
			b, _ := strconv.Atoi(t[3])
			m, _ := unhx(t[1])
			if a > math.MaxInt32 || b > math.MaxInt32 {
				ls = append(ls, "mask:huge-arg")
				if a > math.MaxInt64-b {
					ls = append(ls, "mask:start+end-overflows-int")
				}
			}
			multi := utf8.RuneCountInString(m) != 1
			switch {
			case a < 0 || b < 0:
				ls = append(ls, "mask:negative-arg")
			case a >= n || b >= n || b >= n-a:
				ls = append(ls, "mask:nothing-to-mask")
			case multi && a > 0 && b > 0:
				ls = append(ls, "mask:inner-multi-rune-mask")
			case a == 0 && b == 0:
				ls = append(ls, "mask:whole")
			case b == 0:
				ls = append(ls, "mask:to-end")
			case a == 0:
				ls = append(ls, "mask:from-start")
			default:
				ls = append(ls, "mask:inner")
			}
			if utf8.RuneCountInString(m) == 1 {
				ls = append(ls, "mask:single-rune-mask")
			} else {
				ls = append(ls, "mask:multi-or-empty-mask")
			}
		case "subd":
			a, _ := strconv.Atoi(t[1])
			if a > math.MaxInt32 {
				ls = append(ls, "subd:huge-arg")
			}
			switch {
			case a < 0:
				ls = append(ls, "subd:negative-arg")
			case len(s) <= a:
				ls = append(ls, "subd:limit>=bytes")
			case o == hx(s):
				ls = append(ls, "subd:loop-whole")
			default:
				ls = append(ls, "subd:cut")
			}
		case "remove":
			if o == hx(s) {
				ls = append(ls, "remove:nothing-removed")
			} else {
				ls = append(ls, "remove:builder-started")
			}
		case "s2c", "c2s", "round":
			if o == hx(s) {
				ls = append(ls, t[0]+":unchanged")
			} else {
				ls = append(ls, t[0]+":changed")
				// non-ASCII identifiers (multi-byte runes / invalid bytes between the re-cased letters):
				// only exercised, not characterised by a theorem
				for j := 0; j < len(s); j++ {
					if s[j] >= utf8.RuneSelf {
						ls = append(ls, t[0]+":changed-non-ascii-subject")
						break
					}
				}
			}
		}
	}
	return ls
}

// shrink: history cases are order-dependent by design and the state they expose may live in
// the package under test (caches, pools): a shorter case that still fails IN THIS PROCESS need not
// fail on replay (a fresh process), so history cases are kept whole. Other cases: the calls are
// independent, keep one failing op.
func shrink(c core.Case, fails func(core.Case) bool) core.Case {
	mk := func(lines []string) core.Case { return core.Case{Lines: lines, Seed: c.Seed, Tag: c.Tag} }
	if isHist(c) {
		return c
	}
	for i := 1; i < len(c.Lines); i++ {
		if t := mk([]string{c.Lines[0], c.Lines[i]}); fails(t) {
			return t
		}
	}
	return c
}
