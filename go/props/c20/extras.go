package c20

import (
	srand "crypto/rand"
	"errors"
	"fmt"
	"io"
	"math/big"
	"reflect"
	"sort"
	"strconv"
	"strings"
	"time"
	"unicode/utf8"

	"github.com/welllog/golib/randz"

	"verifharness/internal/core"
)

// guarded turns a panic inside an extra into a reported failure (the harness survives).
func guarded(name string, f func(*core.Ctx) (int, string, []core.ExtraFailure)) func(*core.Ctx) (int, string, []core.ExtraFailure) {
	return func(ctx *core.Ctx) (evals int, note string, fails []core.ExtraFailure) {
		defer func() {
			if r := recover(); r != nil {
				note = fmt.Sprintf("panicked: %v", r)
				fails = append(fails, core.ExtraFailure{Failure: core.Failure{Key: name + "-panic", Desc: fmt.Sprintf("%s: the code under test panicked: %v", name, r)},
					Payload: map[string]any{"panic": fmt.Sprint(r)}})
			}
		}()
		return f(ctx)
	}
}

// try runs f and reports whether it panicked.
func try(f func()) (p any) {
	defer func() { p = recover() }()
	f()
	return nil
}

// extraBase32: ParseBase32 on EVERY byte string of length 1, 2 and 3 (each of the 256
// byte values in each of the first three positions, exhaustively), against the
// documented alphabet; plus the round trip on all IDs below 2^20 and on a spread of
// large ones.
func extraBase32(ctx *core.Ctx) (int, string, []core.ExtraFailure) {
	evals := 0
	var fails []core.ExtraFailure
	dec := [256]int{}
	for i := range dec {
		dec[i] = inAlphabet(byte(i))
	}
	report := func(key, desc string, in []byte) {
		if len(fails) < 3 {
			fails = append(fails, core.ExtraFailure{Failure: core.Failure{Key: key, Desc: desc},
				Payload: map[string]any{"lines": []string{"@ C20 id", "p32 " + hx(in)}, "input_hex": hx(in)}})
		}
	}
	wrongAccept, wrongReject, wrongValue := 0, 0, 0
	buf := make([]byte, 3)
	for n := 1; n <= 3; n++ {
		total := 1 << (8 * n)
		for x := 0; x < total; x++ {
			valid := true
			want := int64(0)
			for k := 0; k < n; k++ {
				b := byte(x >> (8 * (n - 1 - k)))
				buf[k] = b
				if dec[b] < 0 {
					valid = false
				} else {
					want = want*32 + int64(dec[b])
				}
			}
			id, err := randz.ParseBase32(buf[:n])
			evals++
			switch {
			case !valid && !errors.Is(err, randz.ErrInvalidBase32):
				wrongAccept++
				report("base32-accepts-invalid", fmt.Sprintf("ParseBase32(%q) = (%d, %v): the input contains a byte outside the alphabet, ErrInvalidBase32 expected", buf[:n], id, err), append([]byte{}, buf[:n]...))
			case valid && err != nil:
				wrongReject++
				report("base32-rejects-valid", fmt.Sprintf("ParseBase32(%q) = (%d, %v) for a string over the alphabet", buf[:n], id, err), append([]byte{}, buf[:n]...))
			case valid && int64(id) != want:
				wrongValue++
				report("base32-parse-wrong", fmt.Sprintf("ParseBase32(%q) = %d, the numeral's value is %d", buf[:n], id, want), append([]byte{}, buf[:n]...))
			}
		}
	}
	// one byte outside the alphabet at EVERY position of inputs of EVERY length 1..48, for a
	// set of invalid bytes, and all 256 values at the first, the 14th-from-last and the last
	// position of a 20-character input
	longBad := 0
	alpha := []byte(refAlphabet)
	for n := 1; n <= 48; n++ {
		base := make([]byte, n)
		for j := range base {
			base[j] = alpha[(j*7+n)%32]
		}
		for p := 0; p < n; p++ {
			for _, bad := range []byte{0x00, 0xff, 'i', 'l', 'o', 'q', 'A', '!', 0x80} {
				in := append([]byte{}, base...)
				in[p] = bad
				id, err := randz.ParseBase32(in)
				evals++
				if !errors.Is(err, randz.ErrInvalidBase32) {
					longBad++
					report("base32-accepts-invalid", fmt.Sprintf("ParseBase32(%q) = (%d, %v): byte %#x at position %d of %d is outside the alphabet, ErrInvalidBase32 expected", in, id, err, bad, p, n), in)
				}
			}
		}
	}
	for _, p := range []int{0, 6, 7, 19} {
		base := []byte("0123456789abcdefghjk")
		for v := 0; v < 256; v++ {
			in := append([]byte{}, base...)
			in[p] = byte(v)
			id, err := randz.ParseBase32(in)
			evals++
			if (dec[v] < 0) != errors.Is(err, randz.ErrInvalidBase32) {
				longBad++
				report("base32-accepts-invalid", fmt.Sprintf("ParseBase32(%q) = (%d, %v): byte %#x at position %d of 20", in, id, err, v, p), in)
			}
		}
	}
	rt := 0
	arena := make([]byte, 64)
	checkRT := func(v int64) {
		evals++
		rt++
		s := randz.ID(v).Base32()
		// the input is a window of a larger arena with canaries around it and spare capacity
		// behind it: ParseBase32 must neither write through nor read past the window
		for i := range arena {
			arena[i] = 0xA5
		}
		off := int(uint64(v) % 17)
		win := arena[off : off+len(s)]
		copy(win, s)
		back, err := randz.ParseBase32(win)
		for i := range arena {
			if (i < off || i >= off+len(s)) && arena[i] != 0xA5 || (i >= off && i < off+len(s) && arena[i] != s[i-off]) {
				if len(fails) < 3 {
					fails = append(fails, core.ExtraFailure{Failure: core.Failure{Key: "base32-writes-input", Desc: fmt.Sprintf("ParseBase32 changed its argument's arena at offset %d (input %q at offset %d)", i, s, off)}, Payload: map[string]any{"lines": []string{"@ C20 id", "p32 " + hx([]byte(s))}}})
				}
				break
			}
		}
		ref, ok := refParse([]byte(s))
		if err != nil || int64(back) != v || !ok || !ref.IsInt64() || ref.Int64() != v {
			if len(fails) < 3 {
				fails = append(fails, core.ExtraFailure{Failure: core.Failure{Key: "base32-roundtrip", Desc: fmt.Sprintf("ID(%d).Base32() = %q, ParseBase32 of it = (%d, %v)", v, s, back, err)},
					Payload: map[string]any{"lines": []string{"@ C20 id", "b32 " + strconv.FormatInt(v, 10), "p32 " + hx([]byte(s))}}})
			}
		}
	}
	for v := int64(0); v < 1<<20; v++ {
		checkRT(v)
	}
	for sh := uint(0); sh < 63; sh++ {
		for d := int64(-2); d <= 2; d++ {
			if v := int64(1)<<sh + d; v >= 0 {
				checkRT(v)
			}
		}
	}
	checkRT(1<<63 - 1)
	n := 200000
	if ctx.Tier == "thorough" {
		n = 5000000
	}
	for i := 0; i < n*ctx.Escalate; i++ {
		checkRT(int64(ctx.Rand.Uint64() >> uint(1+ctx.Rand.Intn(40))))
	}
	note := fmt.Sprintf("all %d byte strings of length 1..3: %d wrongly accepted, %d wrongly rejected, %d wrong values; one invalid byte at every position of every length 1..48 (9 byte values) and 256-value sweeps at 4 positions of a 20-character input: %d wrong; %d round trips", 256+65536+16777216, wrongAccept, wrongReject, wrongValue, longBad, rt)
	return evals, note, fails
}

// scriptedReader feeds crypto/rand.Int the bytes that make it return a chosen value.
type scriptedReader struct {
	buf []byte
	err error
}

func (s *scriptedReader) Read(p []byte) (int, error) {
	if s.err != nil {
		return 0, s.err
	}
	n := copy(p, s.buf)
	s.buf = s.buf[n:]
	if n == 0 {
		return 0, io.ErrUnexpectedEOF
	}
	return n, nil
}

// patReader: an endless crypto/rand.Reader that repeats a byte pattern (adversarial random
// draws: all ones, all zeros, near-maximum words, alternating bits), optionally one byte
// per Read (short reads).
type patReader struct {
	pat   []byte
	i     int
	short bool
}

func (p *patReader) Read(b []byte) (int, error) {
	n := len(b)
	if p.short && n > 1 {
		n = 1
	}
	for k := 0; k < n; k++ {
		b[k] = p.pat[p.i%len(p.pat)]
		p.i++
	}
	return n, nil
}

var advPatterns = [][]byte{
	{0xff}, {0x00}, {0xff, 0xff, 0xff, 0x9c}, {0xff, 0xff, 0xff, 0x80}, {0xff, 0xff, 0xff, 0x7f},
	{0xaa, 0x55}, {0x80, 0x00, 0x00, 0x00}, {0x7f, 0xff, 0xff, 0xff}, {0x00, 0x00, 0x00, 0x01}, {0xfe}, {0x01, 0x02, 0x03, 0x04, 0x05},
}

// extraIdGen ties IdGenerator.Generate (real clock, crypto/rand.Reader scripted so that
// the random part is known) to the Lean function `compose` through the oracle
// executable: the returned id must be compose(rb, ms, r) for some millisecond count ms
// between the readings taken just before and just after the call. Independently it
// checks the documented layout: non-negative, time above the random bits, random part
// below 2^randBit, and increasing IDs when taken at least a millisecond apart.
func extraIdGen(ctx *core.Ctx) (int, string, []core.ExtraFailure) {
	saved := srand.Reader
	defer func() { srand.Reader = saved }()
	var fails []core.ExtraFailure
	evals := 0
	type obs struct {
		rb, eff        int
		before, after  int64
		r              int64
		id             int64
		scriptedRandom bool
	}
	var all []obs
	adversarial := 0
	offsets := []time.Duration{0, time.Second, time.Hour, 24 * time.Hour * 365 * 3,
		time.Duration(1<<41-1500) * time.Millisecond, // the 41-bit time field is about to wrap
		time.Duration(1<<41+777) * time.Millisecond,  // ... has wrapped
		time.Duration(1<<42+5) * time.Millisecond,
		-time.Hour, // start time in the future: negative elapsed time
		24 * time.Hour * 365 * 34, 24 * time.Hour * 365 * 35, 24 * time.Hour * 365 * 40, // around 2^40 ms = 34.8 years: bit 40 of the time field
		time.Since(time.Unix(0, 0)),
		-24 * time.Hour * 365 * 100, // far future
	}
	rounds := 1
	if ctx.Tier == "thorough" {
		rounds = 20
	}
	for round := 0; round < rounds*ctx.Escalate; round++ {
		for rb := -1; rb <= 24; rb++ {
			eff := rb
			if eff <= 1 {
				eff = 16
			}
			if eff > 22 {
				eff = 22
			}
			for _, off := range offsets {
				start := time.Now().Add(-off)
				g := randz.NewIdGenerator(start, rb)
				for rep := 0; rep < 3+len(advPatterns); rep++ {
					if rep >= 3 {
						// adversarial draws: what crypto/rand.Int makes of the same bytes is the reference
						pat := advPatterns[rep-3]
						short := ctx.Rand.Chance(30)
						ref, err := srand.Int(&patReader{pat: pat, short: short}, big.NewInt(1<<uint(eff)))
						if err != nil {
							continue
						}
						srand.Reader = &patReader{pat: pat, short: short}
						before := time.Since(start).Milliseconds()
						id := g.Generate()
						after := time.Since(start).Milliseconds()
						srand.Reader = saved
						evals++
						adversarial++
						all = append(all, obs{rb, eff, before, after, ref.Int64(), int64(id), true})
						continue
					}
					var r int64
					switch rep {
					case 0:
						r = int64(ctx.Rand.Uint64() % (1 << uint(eff)))
					case 1:
						r = 1<<uint(eff) - 1
					case 2:
						r = 0
					}
					k := (eff + 7) / 8
					bs := make([]byte, k)
					for i := 0; i < k; i++ {
						bs[k-1-i] = byte(r >> (8 * uint(i)))
					}
					sr := &scriptedReader{buf: bs}
					scriptedRandom := true
					if rep == 0 && ctx.Rand.Chance(10) {
						sr.err = errors.New("scripted failure") // math/rand fallback path
						scriptedRandom = false
					}
					srand.Reader = sr
					before := time.Since(start).Milliseconds()
					id := g.Generate()
					after := time.Since(start).Milliseconds()
					srand.Reader = saved
					evals++
					all = append(all, obs{rb, eff, before, after, r, int64(id), scriptedRandom})
				}
			}
		}
	}
	// independent layout check
	srcDiffers := 0
	mask := int64(1)<<41 - 1
	for _, o := range all {
		t := o.id >> uint(o.eff)
		low := o.id & (1<<uint(o.eff) - 1)
		okTime := false
		for ms := o.before; ms <= o.after; ms++ {
			if t == ms&mask {
				okTime = true
			}
		}
		if okTime && o.id >= 0 && o.scriptedRandom && low != o.r {
			// the random part is below 2^randBit and the time field is right: the property holds; only
			// the way Generate turns the bytes of crypto/rand.Reader into the random part differs from
			// crypto/rand.Int (what the harness scripts against) — a model/harness mismatch, no violation
			srcDiffers++
			continue
		}
		if o.id < 0 || !okTime {
			if len(fails) < 3 {
				fails = append(fails, core.ExtraFailure{Failure: core.Failure{Key: "id-layout", Desc: fmt.Sprintf("NewIdGenerator(now-%dms.., %d).Generate() = %d: time field %d (elapsed ms in [%d,%d], 41 bits), random part %d (crypto/rand scripted to %d, %d bits)", o.before, o.rb, o.id, t, o.before, o.after, low, o.r, o.eff)},
					Payload: map[string]any{"randBit": o.rb, "elapsed_ms": []int64{o.before, o.after}, "rand": o.r, "id": o.id}})
			}
		}
	}
	if srcDiffers > 0 {
		fails = append(fails, core.ExtraFailure{Failure: core.Failure{Key: "id-random-source-model", Desc: fmt.Sprintf("%d of %d Generate() calls: layout correct, but the random part is not what crypto/rand.Int(Reader, 2^randBit) makes of the scripted bytes (the harness's assumption about how the random source is consumed no longer holds)", srcDiffers, len(all))}, NoInput: true})
	}
	// tie to the Lean model: id ∈ { compose rb ms r | before ≤ ms ≤ after }
	var cases []core.Case
	var idx []int
	for i, o := range all {
		if !o.scriptedRandom || o.after-o.before > 50 {
			continue
		}
		lines := []string{"@ C20 id"}
		for ms := o.before; ms <= o.after; ms++ {
			lines = append(lines, fmt.Sprintf("compose %d %d %d", o.rb, ms, o.r))
		}
		cases = append(cases, core.Case{Lines: lines})
		idx = append(idx, i)
	}
	tied := 0
	if outs, err := core.RunOracle(ctx.VerifDir, cases); err == nil {
		for k, out := range outs {
			o := all[idx[k]]
			found := false
			for _, l := range out[1:] {
				if l == strconv.FormatInt(o.id, 10) {
					found = true
				}
			}
			if found {
				tied++
			} else if len(fails) < 3 {
				fails = append(fails, core.ExtraFailure{Failure: core.Failure{Key: "id-compose-model", Desc: fmt.Sprintf("Generate() = %d with randBit %d, rand %d, elapsed ms in [%d,%d]; the Lean model composes %v", o.id, o.rb, o.r, o.before, o.after, out[1:])},
					Payload: map[string]any{"lines": cases[k].Lines, "id": o.id}, NoInput: true})
			}
		}
	} else {
		fails = append(fails, core.ExtraFailure{Failure: core.Failure{Key: "id-compose-model", Desc: "oracle not runnable: " + err.Error()}, NoInput: true})
	}
	// monotonicity at least a millisecond apart, on the default generator and on a 2-bit one
	mono := 0
	for _, rb := range []int{2, 18, 22} {
		g := randz.NewIdGenerator(time.Now().Add(-time.Hour), rb)
		prev := g.Generate()
		for i := 0; i < 6; i++ {
			time.Sleep(1100 * time.Microsecond)
			cur := g.Generate()
			evals++
			mono++
			if cur <= prev {
				fails = append(fails, core.ExtraFailure{Failure: core.Failure{Key: "id-not-increasing", Desc: fmt.Sprintf("IDs taken >= 1 ms apart are not increasing: %d then %d (randBit %d)", prev, cur, rb)},
					Payload: map[string]any{"prev": int64(prev), "cur": int64(cur), "randBit": rb}})
				break
			}
			prev = cur
		}
	}
	// crypto/rand FAILING (math/rand fallback path): many calls with few random bits, so that
	// every value of the random part — in particular a value one past the top — turns up;
	// the random part must not spill into the time field: id >> randBit must be a
	// millisecond count read between `before` and `after` (sound whatever the scheduling).
	fallback, spilled := 0, 0
	for _, rb := range []int{2, 3, 4, 8, 18} {
		g := randz.NewIdGenerator(time.Now().Add(-time.Hour), rb)
		start := reflect.ValueOf(g).FieldByName("startTime")
		_ = start
		st := time.Now().Add(-2 * time.Hour)
		g = randz.NewIdGenerator(st, rb)
		n := 3000
		if rb > 4 {
			n = 300
		}
		seen := map[int64]bool{}
		for i := 0; i < n*ctx.Escalate && spilled < 3; i++ {
			srand.Reader = &scriptedReader{err: errors.New("scripted failure")}
			before := time.Since(st).Milliseconds()
			id := int64(g.Generate())
			after := time.Since(st).Milliseconds()
			srand.Reader = saved
			evals++
			fallback++
			t := id >> uint(rb)
			seen[id&(1<<uint(rb)-1)] = true
			if id < 0 || t < before || t > after {
				spilled++
				fails = append(fails, core.ExtraFailure{Failure: core.Failure{Key: "id-layout", Desc: fmt.Sprintf("crypto/rand failing, NewIdGenerator(_, %d).Generate() = %d: time field %d is not a millisecond count in [%d,%d] — the fallback random part reached 2^randBit or beyond", rb, id, t, before, after)},
					Payload: map[string]any{"randBit": rb, "elapsed_ms": []int64{before, after}, "id": id, "crypto_rand": "failing"}})
			}
		}
		if rb <= 4 && len(seen) != 1<<uint(rb) && spilled == 0 {
			fails = append(fails, core.ExtraFailure{Failure: core.Failure{Key: "id-fallback-range", Desc: fmt.Sprintf("crypto/rand failing, randBit %d: only %d of %d random parts seen in %d calls", rb, len(seen), 1<<uint(rb), n)}, Payload: map[string]any{"randBit": rb}, NoInput: true})
		}
	}
	_ = fallback
	// less-used entry points: SetIdGeneratorStartTime + Id() (18 random bits), ID.Int64
	func() {
		defer randz.SetIdGeneratorStartTime(time.Date(2023, 2, 27, 0, 30, 0, 0, time.UTC))
		start := time.Now().Add(-90 * time.Minute)
		randz.SetIdGeneratorStartTime(start)
		before := time.Since(start).Milliseconds()
		id := randz.Id()
		after := time.Since(start).Milliseconds()
		evals++
		if t := id.Int64() >> 18; id < 0 || t < before || t > after || id.Int64() != int64(id) {
			fails = append(fails, core.ExtraFailure{Failure: core.Failure{Key: "id-layout", Desc: fmt.Sprintf("after SetIdGeneratorStartTime(now-90min): Id() = %d has time field %d, elapsed ms in [%d,%d]", id, t, before, after)}, Payload: map[string]any{"id": int64(id)}})
		}
	}()
	d := randz.Id()
	if d < 0 {
		fails = append(fails, core.ExtraFailure{Failure: core.Failure{Key: "id-layout", Desc: fmt.Sprintf("randz.Id() = %d is negative", d)}, Payload: map[string]any{"id": int64(d)}})
	}
	return evals, fmt.Sprintf("%d Generate() calls with the real clock (start times now, -1s … -34y, -35y, -40y, 1970-01-01, the 2^41 ms wrap, +1h, +100y; randBit requests -1..24), of which %d with adversarial crypto/rand draws (all 0xFF, all 0x00, near-maximum words, alternating, short reads), %d tied to the Lean compose via the oracle, %d increasing-ID checks; %d calls with crypto/rand failing (randBit 2,3,4,8,18): time field within the bracket every time", len(all), adversarial, tied, mono, fallback), fails
}

// extraStrReal: StrGenerator over the package's real LockRandSource and the default
// generator: exactly n runes, all from the set.
func extraStrReal(ctx *core.Ctx) (int, string, []core.ExtraFailure) {
	var fails []core.ExtraFailure
	evals := 0
	// results ledger: every string handed out, with an independent copy taken at once;
	// re-compared after all later calls (a result must not change when the library is
	// called again, on the same or on another generator)
	type entry struct {
		got  string
		copy []byte
		what string
	}
	var ledger []entry
	keep := func(s, what string) { ledger = append(ledger, entry{s, []byte(s), what}) }
	defer func() {
		for _, e := range ledger {
			if e.got != string(e.copy) {
				fails = append(fails, core.ExtraFailure{Failure: core.Failure{Key: "result-not-stable", Desc: fmt.Sprintf("%s returned %q, after later calls the same string value reads %q", e.what, e.copy, e.got)}, Payload: map[string]any{"first": hx(e.copy), "now": hx([]byte(e.got))}})
				break
			}
		}
	}()
	sets := []string{randz.CHAR_SET, randz.CHAR_LOWER_SET, "a", "ab", "abc", "abcd", "你好世界", "é😀x\xff", strings.Repeat("xyz", 30)}
	src := randz.NewLockRandSource(int64(ctx.Seed))
	for _, cs := range sets {
		g := randz.NewStrGenerator(cs, src)
		member := map[rune]bool{}
		for _, r := range []rune(cs) {
			member[r] = true
		}
		for n := 0; n <= 130; n++ {
			var s string
			pn := try(func() { s = g.Generate(n) })
			keep(s, fmt.Sprintf("Generate(%d) over %q", n, cs))
			if n%16 == 0 {
				id := randz.ID(int64(n)*0x1f3d5b79 + int64(len(cs)))
				keep(id.Base32(), "ID.Base32()")
				keep(id.Base36(), "ID.Base36()")
				keep(id.String(), "ID.String()")
			}
			evals++
			bad := pn != nil || utf8.RuneCountInString(s) != n
			for _, r := range s {
				if !member[r] {
					bad = true
				}
			}
			if bad && len(fails) < 3 {
				fails = append(fails, core.ExtraFailure{Failure: core.Failure{Key: "strgen-length", Desc: fmt.Sprintf("Generate(%d) over %q = %q (panic: %v)", n, cs, s, pn)},
					Payload: map[string]any{"charset_hex": hx([]byte(cs)), "n": n, "out_hex": hx([]byte(s))}})
			}
		}
	}
	for n := 0; n <= 64; n++ {
		s := randz.String(n)
		evals++
		if len(s) != n || strings.Trim(s, randz.CHAR_SET) != "" {
			fails = append(fails, core.ExtraFailure{Failure: core.Failure{Key: "strgen-length", Desc: fmt.Sprintf("randz.String(%d) = %q", n, s)}, Payload: map[string]any{"n": n, "out": s}})
			break
		}
	}
	// less-used entry points: SetStrGeneratorCharSet (default generator over a multi-byte
	// set), LockRandSource.Seed (same seed ⇒ same string)
	func() {
		defer randz.SetStrGeneratorCharSet(randz.CHAR_SET)
		set := "é你x\u00ff"
		randz.SetStrGeneratorCharSet(set)
		for n := 0; n <= 40; n++ {
			s := randz.String(n)
			evals++
			if utf8.RuneCountInString(s) != n || strings.Trim(s, set) != "" {
				fails = append(fails, core.ExtraFailure{Failure: core.Failure{Key: "strgen-length", Desc: fmt.Sprintf("after SetStrGeneratorCharSet(%q): randz.String(%d) = %q", set, n, s)}, Payload: map[string]any{"n": n, "out_hex": hx([]byte(s))}})
				break
			}
		}
	}()
	a, b := randz.NewLockRandSource(1), randz.NewLockRandSource(2)
	a.Seed(int64(ctx.Seed) + 7)
	b.Seed(int64(ctx.Seed) + 7)
	ga, gb := randz.NewStrGenerator("abcdefg", a), randz.NewStrGenerator("abcdefg", b)
	if x, y := ga.Generate(50), gb.Generate(50); x != y || len(x) != 50 {
		fails = append(fails, core.ExtraFailure{Failure: core.Failure{Key: "strgen-length", Desc: fmt.Sprintf("two LockRandSources seeded alike give %q and %q", x, y)}, Payload: map[string]any{"a": x, "b": y}})
	}
	evals += 2
	return evals, fmt.Sprintf("%d Generate calls over math/rand sources (incl. SetStrGeneratorCharSet and LockRandSource.Seed)", evals), fails
}

// extraCountCopy observes what the model says about VALUE COPIES of CountGenerator
// (c20_count_copy_aliasing; outside the property, the judgement made explicit): b := *a
// shares the rules array; AddRule through a allocates when len == cap (b keeps its rules)
// and otherwise sorts the shared array in place (b shows the first len of the sorted
// len+1 rules). cap is read through reflection; a disagreement is a model/code mismatch.
func extraCountCopy(ctx *core.Ctx) (int, string, []core.ExtraFailure) {
	var fails []core.ExtraFailure
	evals, inPlace, alloc := 0, 0, 0
	type rl struct{ p, pe, i, im int }
	read := func(g *randz.CountGenerator) ([]rl, int) {
		rs := reflect.ValueOf(g).Elem().FieldByName("rules")
		out := make([]rl, rs.Len())
		for i := range out {
			e := rs.Index(i)
			out[i] = rl{int(field(e, "period")), int(field(e, "periodEndMaxIncr")), int(field(e, "interval")), int(field(e, "intervalMaxIncr"))}
		}
		return out, rs.Cap()
	}
	for k := 1; k <= 17; k++ {
		for _, where := range []int{0, 1, 2} { // new period below all / in the middle / above all
			a := &randz.CountGenerator{}
			for j := 0; j < k; j++ {
				a.AddRule(10*(j+1), j+1, 1, 2)
			}
			view, capBefore := read(a)
			b := *a // value copy: shares the array
			np := []int{5, 10*((k+1)/2) + 5, 10*k + 5}[where]
			a.AddRule(np, 99, 1, 2)
			got, _ := read(&b)
			evals++
			want := view
			if capBefore > len(view) {
				inPlace++
				all := append(append([]rl{}, view...), rl{np, 99, 1, 2})
				sort.SliceStable(all, func(i, j int) bool { return all[i].p < all[j].p })
				want = all[:len(view)]
			} else {
				alloc++
			}
			if fmt.Sprint(got) != fmt.Sprint(want) && len(fails) < 3 {
				fails = append(fails, core.ExtraFailure{Failure: core.Failure{Key: "count-copy-model", Desc: fmt.Sprintf("copy of a CountGenerator with %d rules (cap %d), AddRule(period %d) through the original: the copy shows %v, the model says %v", len(view), capBefore, np, got, want)},
					Payload: map[string]any{"rules": len(view), "cap": capBefore, "period": np}, NoInput: true})
			}
		}
	}
	return evals, fmt.Sprintf("%d value copies followed by AddRule through the original: %d wrote the shared array in place (copy shows the sorted prefix), %d allocated (copy unchanged), as c20_count_copy_aliasing says", evals, inPlace, alloc), fails
}
