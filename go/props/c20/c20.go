// Package c20: randz identifiers and random strings have the documented shape
// (randz/id.go, randz/str.go, randz/count.go).
package c20

import (
	"encoding/hex"
	"errors"
	"fmt"
	"math/big"
	"reflect"
	"sort"
	"strconv"
	"strings"
	"time"
	"unicode/utf8"
	"unsafe"

	"github.com/welllog/golib/randz"

	"verifharness/internal/core"
)

// The alphabet as the property documents it (independent of the source under test).
const refAlphabet = "0123456789abcdefghjkmnprstuvwxyz"

func init() {
	core.Register(&core.Prop{
		ID:         "C20",
		Title:      "randz identifiers and random strings have the documented shape",
		Quick:      60000,
		Thorough:   3000000,
		Gen:        gen,
		Corpus:     corpus,
		Impl:       impl,
		Check:      check,
		Facts:      facts,
		NonTrivial: nonTrivial,
		Rule: "cases of three kinds: id (Base32 / ParseBase32 / FormatInt numerals / NewIdGenerator fields / bit composition), " +
			"magnitude (ParseBase32 on inputs of length 1..40 with invalid bytes at every position incl. left of the last 13 characters, 256-value sweeps at positions of long inputs, valid long numerals), str (StrGenerator over a scripted rand.Source: character sets of 1..300 runes incl. multi-byte, Latin-1-only and invalid bytes, sizes 2^k and 2^k±1, n in -1..40, large stream n up to 5000), " +
			"count (CountGenerator with 1..5 rules added in random order, Generate/Min/Max at diffs around every period boundary), countraw (2..16 rules installed through reflection in a given order: sorted by period with equal periods in every relative order, 10% unsorted for the model tie only); " +
			"non-trivial = id case with a ParseBase32 of an input containing a byte outside the alphabet or of a 2+ character numeral, " +
			"str case with at least one rejected index or a word refill, count case crossing at least one period boundary; distinct by hash of the lines",
		Classify: classify,
		Parallel: true,
		Extras: []core.Extra{
			{Name: "base32-exhaustive", Run: guarded("base32-exhaustive", extraBase32)},
			{Name: "idgen-real-clock", Run: guarded("idgen-real-clock", extraIdGen)},
			{Name: "strgen-real-source", Run: guarded("strgen-real-source", extraStrReal)},
			{Name: "count-copy-aliasing", Run: guarded("count-copy-aliasing", extraCountCopy)},
		},
		Assumptions: []string{
			"Go int treated as unbounded in CountGenerator (no sum near 2^63); rule parameters up to 2^40 are generated, the theorems cover every parameter that fits a Go int",
			"the clock (time.Since) and the random sources are inputs of the model; the real clock is only bracketed (before <= ms <= after)",
			"count cases: sort.Slice on the <= 5 rules added there is an insertion sort (stable), the model keeps insertion order among equal periods; the property itself is proved and exercised for every order among equal periods (c20_count_any_order, countraw cases)",
			"strconv.FormatInt, []rune(string), strings.Builder.WriteRune as in the Go standard library (compared on every run)",
		},
	})
}

func hx(b []byte) string {
	if len(b) == 0 {
		return "-"
	}
	return hex.EncodeToString(b)
}

func unhx(s string) ([]byte, bool) {
	if s == "-" {
		return nil, true
	}
	b, err := hex.DecodeString(s)
	return b, err == nil
}

// ---------------------------------------------------------------- scripted rand.Source

type exhausted struct{}

type scripted struct {
	words []int64
	used  int
}

func (s *scripted) Int63() int64 {
	if s.used >= len(s.words) {
		panic(exhausted{})
	}
	w := s.words[s.used]
	s.used++
	return w
}
func (s *scripted) Seed(int64) {}

// ---------------------------------------------------------------- implementation side

func field(v reflect.Value, name string) int64 { return v.FieldByName(name).Int() }

func impl(c core.Case) []string {
	hdr := core.Toks(c.Lines[0])
	if len(hdr) < 3 {
		return badAll(c)
	}
	switch hdr[2] {
	case "id":
		if len(hdr) != 3 {
			return badAll(c)
		}
		return core.RunOps(c, func([]string) string { return "ok" }, idStep)
	case "str":
		if len(hdr) != 4 {
			return badAll(c)
		}
		cs, ok := unhx(hdr[3])
		if !ok {
			return badAll(c)
		}
		src := &scripted{}
		var g randz.StrGenerator
		return core.RunOps(c, func([]string) string {
			g = randz.NewStrGenerator(string(cs), src)
			v := reflect.ValueOf(g)
			return fmt.Sprintf("bits=%d mask=%d max=%d n=%d", field(v, "charIdxBits"), field(v, "charIdxMask"),
				field(v, "charIdxMax"), v.FieldByName("charSet").Len())
		}, func(t []string) string { return strStep(&g, src, t) })
	case "count", "countraw":
		raw := hdr[2] == "countraw"
		var rules [][4]int
		for _, r := range hdr[3:] {
			p := strings.Split(r, ",")
			if len(p) != 4 {
				return badAll(c)
			}
			var q [4]int
			for i := range p {
				v, err := strconv.Atoi(p[i])
				if err != nil {
					return badAll(c)
				}
				q[i] = v
			}
			rules = append(rules, q)
		}
		cg := &randz.CountGenerator{}
		return core.RunOps(c, func([]string) string {
			for _, r := range rules {
				cg.AddRule(r[0], r[1], r[2], r[3])
			}
			rs := reflect.ValueOf(cg).Elem().FieldByName("rules")
			if raw {
				// install exactly the given order (any order sort.Slice may leave among equal
				// periods, or an unsorted slice) over the slice AddRule built
				if rs.Len() != len(rules) {
					return "raw-unsupported"
				}
				for i, q := range rules {
					e := rs.Index(i)
					for k, name := range []string{"period", "periodEndMaxIncr", "interval", "intervalMaxIncr"} {
						f := e.FieldByName(name)
						if !f.IsValid() || f.Kind() != reflect.Int {
							return "raw-unsupported"
						}
						reflect.NewAt(f.Type(), unsafe.Pointer(f.UnsafeAddr())).Elem().SetInt(int64(q[k]))
					}
				}
			}
			var parts []string
			for i := 0; i < rs.Len(); i++ {
				e := rs.Index(i)
				parts = append(parts, fmt.Sprintf("%d,%d,%d,%d", field(e, "period"), field(e, "periodEndMaxIncr"),
					field(e, "interval"), field(e, "intervalMaxIncr")))
			}
			return "ok " + strings.Join(parts, ";")
		}, func(t []string) string { return countStep(cg, t) })
	}
	return badAll(c)
}

func badAll(c core.Case) []string {
	out := make([]string, len(c.Lines))
	for i := range out {
		out[i] = "bad-op"
	}
	return out
}

func idStep(t []string) string {
	if len(t) == 0 {
		return "bad-op"
	}
	switch {
	case t[0] == "b32" && len(t) == 2:
		v, err := strconv.ParseInt(t[1], 10, 64)
		if err != nil {
			return "bad-op"
		}
		return hx([]byte(randz.ID(v).Base32()))
	case t[0] == "p32" && len(t) == 2:
		b, ok := unhx(t[1])
		if !ok {
			return "bad-op"
		}
		id, err := randz.ParseBase32(b)
		switch {
		case err == nil:
			return fmt.Sprintf("%d ok", int64(id))
		case errors.Is(err, randz.ErrInvalidBase32):
			return fmt.Sprintf("%d err:invalid-base32", int64(id))
		}
		return fmt.Sprintf("%d err:other", int64(id))
	case t[0] == "fmt" && len(t) == 2:
		v, err := strconv.ParseInt(t[1], 10, 64)
		if err != nil {
			return "bad-op"
		}
		id := randz.ID(v)
		return id.String() + " " + id.Base2() + " " + id.Base36()
	case t[0] == "millis" && len(t) == 2: // the stdlib fact the model's `millis` stands for
		d, err := strconv.ParseInt(t[1], 10, 64)
		if err != nil {
			return "bad-op"
		}
		return strconv.FormatInt(time.Duration(d).Milliseconds(), 10)
	case t[0] == "newgen" && len(t) == 2:
		rb, err := strconv.Atoi(t[1])
		if err != nil {
			return "bad-op"
		}
		g := reflect.ValueOf(randz.NewIdGenerator(time.Now(), rb))
		return fmt.Sprintf("rb=%d max=%d mask=%d shift=%d", field(g, "randBit"), field(g, "randMax"), field(g, "timeMask"), field(g, "timeShift"))
	case t[0] == "compose" && len(t) == 4:
		// The composition expression of Generate evaluated on the real generator's
		// fields (Generate itself, with the real clock, is tied by the extra
		// "idgen-real-clock" through the same Lean function).
		rb, e1 := strconv.Atoi(t[1])
		ms, e2 := strconv.ParseInt(t[2], 10, 64)
		r, e3 := strconv.ParseInt(t[3], 10, 64)
		if e1 != nil || e2 != nil || e3 != nil {
			return "bad-op"
		}
		g := reflect.ValueOf(randz.NewIdGenerator(time.Now(), rb))
		return strconv.FormatInt((ms&field(g, "timeMask"))<<uint(field(g, "timeShift"))|r, 10)
	}
	return "bad-op"
}

func strStep(g *randz.StrGenerator, src *scripted, t []string) (out string) {
	if len(t) < 2 || t[0] != "gen" {
		return "bad-op"
	}
	n, err := strconv.Atoi(t[1])
	if err != nil {
		return "bad-op"
	}
	ws := make([]int64, 0, len(t)-2)
	for _, w := range t[2:] {
		v, err := strconv.ParseUint(w, 10, 64)
		if err != nil || v >= 1<<63 {
			return "bad-op"
		}
		ws = append(ws, int64(v))
	}
	src.words, src.used = ws, 0
	defer func() {
		if r := recover(); r != nil {
			if _, ok := r.(exhausted); ok {
				out = "exhausted"
				return
			}
			out = "panicked" // Generate(n<0): buf.Grow panics; the generator must stay usable (after-failure class)
		}
	}()
	s := g.Generate(n)
	return fmt.Sprintf("%s %d", hx([]byte(s)), src.used)
}

func showRules(cg *randz.CountGenerator) string {
	rs := reflect.ValueOf(cg).Elem().FieldByName("rules")
	var parts []string
	for i := 0; i < rs.Len(); i++ {
		e := rs.Index(i)
		parts = append(parts, fmt.Sprintf("%d,%d,%d,%d", field(e, "period"), field(e, "periodEndMaxIncr"),
			field(e, "interval"), field(e, "intervalMaxIncr")))
	}
	return "ok " + strings.Join(parts, ";")
}

func countStep(cg *randz.CountGenerator, t []string) string {
	switch {
	case len(t) == 2 && t[0] == "addrule": // AddRule at any point, also after the first Generate
		p := strings.Split(t[1], ",")
		if len(p) != 4 {
			return "bad-op"
		}
		var q [4]int
		for i := range p {
			v, err := strconv.Atoi(p[i])
			if err != nil {
				return "bad-op"
			}
			q[i] = v
		}
		cg.AddRule(q[0], q[1], q[2], q[3])
		return showRules(cg)
	case len(t) == 3 && t[0] == "gen":
		id, ok := unhx(t[1])
		d, err := strconv.Atoi(t[2])
		if !ok || err != nil {
			return "bad-op"
		}
		return strconv.Itoa(cg.Generate(string(id), d))
	case len(t) == 2 && t[0] == "max":
		d, err := strconv.Atoi(t[1])
		if err != nil {
			return "bad-op"
		}
		return strconv.Itoa(cg.Max(d))
	case len(t) == 2 && t[0] == "min":
		d, err := strconv.Atoi(t[1])
		if err != nil {
			return "bad-op"
		}
		return strconv.Itoa(cg.Min(d))
	}
	return "bad-op"
}

// ---------------------------------------------------------------- independent oracle

func inAlphabet(b byte) int { return strings.IndexByte(refAlphabet, b) }

// refParse: the numeral value of a string over the documented alphabet (big.Int),
// or false when some byte is not in the alphabet.
func refParse(b []byte) (*big.Int, bool) {
	v := new(big.Int)
	for _, c := range b {
		d := inAlphabet(c)
		if d < 0 {
			return nil, false
		}
		v.Mul(v, big.NewInt(32))
		v.Add(v, big.NewInt(int64(d)))
	}
	return v, true
}

func check(c core.Case, out []string) *core.Failure {
	hdr := core.Toks(c.Lines[0])
	if len(hdr) < 3 {
		return nil
	}
	switch hdr[2] {
	case "id":
		return checkID(c, out)
	case "str":
		return checkStr(c, out, hdr)
	case "count":
		return checkCount(c, out, hdr)
	case "countraw":
		// the property speaks about what AddRule builds: a slice sorted by period (rules of
		// equal period in ANY relative order); unsorted slices are tied to the model only
		last := 0
		for _, r := range hdr[3:] {
			p, err := strconv.Atoi(strings.Split(r, ",")[0])
			if err != nil || p < last {
				return nil
			}
			last = p
		}
		return checkCount(c, out, hdr)
	}
	return nil
}

func checkID(c core.Case, out []string) *core.Failure {
	for i := 1; i < len(c.Lines); i++ {
		t := core.Toks(c.Lines[i])
		o := out[i]
		if o == "dead" || o == "bad-op" || len(t) < 2 {
			continue
		}
		switch t[0] {
		case "b32":
			v, _ := strconv.ParseInt(t[1], 10, 64)
			if v < 0 {
				continue // outside the property (non-negative IDs)
			}
			if o == "panic" {
				return &core.Failure{Key: "base32-encode-panic", Desc: fmt.Sprintf("ID(%d).Base32() panicked", v)}
			}
			s, _ := unhx(o)
			got, ok := refParse(s)
			if !ok || got.Cmp(big.NewInt(v)) != 0 || len(s) == 0 || (len(s) > 1 && s[0] == refAlphabet[0]) {
				return &core.Failure{Key: "base32-encode-wrong", Desc: fmt.Sprintf("ID(%d).Base32() = %q is not the canonical base-32 numeral of the value", v, s)}
			}
			back, err := randz.ParseBase32(s)
			if err != nil || int64(back) != v {
				return &core.Failure{Key: "base32-roundtrip", Desc: fmt.Sprintf("ParseBase32(ID(%d).Base32()) = %d, %v", v, back, err)}
			}
		case "p32":
			b, _ := unhx(t[1])
			want, valid := refParse(b)
			if o == "panic" {
				return &core.Failure{Key: "base32-parse-panic", Desc: fmt.Sprintf("ParseBase32(%q) panicked", b)}
			}
			if !valid {
				if !strings.HasSuffix(o, " err:invalid-base32") {
					return &core.Failure{Key: "base32-accepts-invalid", Desc: fmt.Sprintf("ParseBase32(%q) answered %q; the input contains a byte outside the alphabet, ErrInvalidBase32 expected", b, o)}
				}
				continue
			}
			if !strings.HasSuffix(o, " ok") {
				return &core.Failure{Key: "base32-rejects-valid", Desc: fmt.Sprintf("ParseBase32(%q) answered %q for a string over the alphabet", b, o)}
			}
			if want.BitLen() <= 63 && o != want.String()+" ok" {
				return &core.Failure{Key: "base32-parse-wrong", Desc: fmt.Sprintf("ParseBase32(%q) answered %q, the numeral's value is %s", b, o, want)}
			}
			if want.BitLen() > 63 {
				// outside the property (not the numeral of any ID): the int64 accumulator wraps; the
				// answer must still be the value modulo 2^64 read as int64
				w := new(big.Int).And(want, new(big.Int).SetUint64(^uint64(0))).Uint64()
				if o != strconv.FormatInt(int64(w), 10)+" ok" {
					return &core.Failure{Key: "base32-parse-overflow", Desc: fmt.Sprintf("ParseBase32(%q) answered %q, the numeral's value %s wraps to %d in int64", b, o, want, int64(w))}
				}
			}
		case "fmt":
			v, _ := strconv.ParseInt(t[1], 10, 64)
			bv := big.NewInt(v)
			want := bv.Text(10) + " " + bv.Text(2) + " " + bv.Text(36)
			if o != want {
				return &core.Failure{Key: "numeral-wrong", Desc: fmt.Sprintf("String/Base2/Base36 of %d = %q, standard numerals are %q", v, o, want)}
			}
		case "millis":
			d, _ := strconv.ParseInt(t[1], 10, 64)
			want := new(big.Int).Quo(big.NewInt(d), big.NewInt(1000000)).String() // Quo truncates toward zero
			if o != want {
				return &core.Failure{Key: "milliseconds-fact", Desc: fmt.Sprintf("time.Duration(%d).Milliseconds() = %s, truncated quotient by 10^6 is %s", d, o, want)}
			}
		case "newgen":
			rb, _ := strconv.Atoi(t[1])
			var g [4]int64
			if _, err := fmt.Sscanf(o, "rb=%d max=%d mask=%d shift=%d", &g[0], &g[1], &g[2], &g[3]); err != nil {
				return &core.Failure{Key: "idgen-fields", Desc: fmt.Sprintf("NewIdGenerator(_, %d): %q", rb, o)}
			}
			if g[0] < 2 || g[0] > 22 || g[1] != 1<<uint(g[0]) || g[2] != 1<<41-1 || g[3] != g[0] || (rb >= 2 && rb <= 22 && g[0] != int64(rb)) {
				return &core.Failure{Key: "idgen-fields", Desc: fmt.Sprintf("NewIdGenerator(_, %d) has fields %q: expected 2..22 random bits (the requested number when in range), randMax = 2^randBit, a 41-bit time mask, shift = randBit", rb, o)}
			}
		case "compose":
			if len(t) != 4 {
				continue
			}
			rb, _ := strconv.Atoi(t[1])
			ms, _ := strconv.ParseInt(t[2], 10, 64)
			r, _ := strconv.ParseInt(t[3], 10, 64)
			id, err := strconv.ParseInt(o, 10, 64)
			eff := rb
			if eff <= 1 {
				eff = 16
			}
			if eff > 22 {
				eff = 22
			}
			if r < 0 || r >= 1<<uint(eff) {
				continue
			}
			tm := new(big.Int).Mod(big.NewInt(ms), new(big.Int).Lsh(big.NewInt(1), 41)).Int64()
			if err != nil || id < 0 || id>>uint(eff) != tm || id&(1<<uint(eff)-1) != r {
				return &core.Failure{Key: "id-layout", Desc: fmt.Sprintf("id composed from ms=%d rand=%d with %d random bits is %q: expected non-negative, id>>%d = %d, low bits = %d", ms, r, eff, o, eff, tm, r)}
			}
		}
	}
	return nil
}

func acceptable(w int64, bits, max, n int) int {
	k := 0
	for j := 0; j < max; j++ {
		if int(w&(1<<uint(bits)-1)) < n {
			k++
		}
		w >>= uint(bits)
	}
	return k
}

func checkStr(c core.Case, out []string, hdr []string) *core.Failure {
	if len(hdr) != 4 {
		return nil
	}
	csb, ok := unhx(hdr[3])
	if !ok {
		return nil
	}
	set := []rune(string(csb))
	if len(set) == 0 {
		return nil // the property is about non-empty character sets
	}
	if out[0] == "panic" {
		return &core.Failure{Key: "strgen-new-panic", Desc: fmt.Sprintf("NewStrGenerator(%q) panicked", csb)}
	}
	member := map[rune]bool{}
	for _, r := range set {
		member[r] = true
	}
	bits := 0
	for l := len(set); l != 0; l >>= 1 {
		bits++
	}
	for i := 1; i < len(c.Lines); i++ {
		t := core.Toks(c.Lines[i])
		o := out[i]
		if o == "dead" || o == "bad-op" || len(t) < 2 || t[0] != "gen" {
			continue
		}
		n, _ := strconv.Atoi(t[1])
		if n < 0 {
			continue // outside the property (n >= 0)
		}
		if o == "panic" || o == "panicked" {
			return &core.Failure{Key: "strgen-panic", Desc: fmt.Sprintf("Generate(%d) over %q panicked", n, set)}
		}
		if o == "exhausted" {
			// legitimate only when the offered words really do not contain n acceptable indices
			// (the first word is read even for n = 0)
			acc := 0
			for _, w := range t[2:] {
				v, _ := strconv.ParseUint(w, 10, 64)
				acc += acceptable(int64(v), bits, 63/bits, len(set))
			}
			if len(t) > 2 && acc >= n {
				return &core.Failure{Key: "strgen-not-total", Desc: fmt.Sprintf("Generate(%d) over %q asked for more random words although the %d offered ones contain %d acceptable indices", n, set, len(t)-2, acc)}
			}
			continue
		}
		f := strings.Fields(o)
		if len(f) != 2 {
			return &core.Failure{Key: "strgen-output", Desc: o}
		}
		s, _ := unhx(f[0])
		if !utf8.Valid(s) && utf8.ValidString(string(csb)) {
			return &core.Failure{Key: "strgen-invalid-utf8", Desc: fmt.Sprintf("Generate(%d) over %q returned invalid UTF-8 %q", n, set, s)}
		}
		rs := []rune(string(s))
		if len(rs) != n {
			return &core.Failure{Key: "strgen-length", Desc: fmt.Sprintf("Generate(%d) over %q returned %d runes: %q", n, set, len(rs), s)}
		}
		for _, r := range rs {
			if !member[r] {
				return &core.Failure{Key: "strgen-foreign-rune", Desc: fmt.Sprintf("Generate(%d) over %q returned %q containing %q", n, set, s, r)}
			}
		}
	}
	return nil
}

func countPositive(hdr []string) bool {
	for _, r := range hdr[3:] {
		for _, p := range strings.Split(r, ",") {
			v, err := strconv.Atoi(p)
			if err != nil || v <= 0 || v > 1<<40 {
				return false
			}
		}
	}
	return true
}

func checkCount(c core.Case, out []string, hdr []string) *core.Failure {
	allRules := append([]string{}, hdr...)
	for _, l := range c.Lines[1:] {
		if t := core.Toks(l); len(t) == 2 && t[0] == "addrule" {
			allRules = append(allRules, t[1])
		}
	}
	if !countPositive(allRules) {
		return nil // the property is about rule sets with positive parameters
	}
	// the statements are about ONE rule set: every AddRule starts a new epoch
	lo := 0
	for i := 1; i <= len(c.Lines); i++ {
		if i == len(c.Lines) || core.Toks(c.Lines[i])[0] == "addrule" {
			if f := checkCountEpoch(c, out, hdr, lo, i); f != nil {
				return f
			}
			lo = i
		}
	}
	return nil
}

// checkCountEpoch judges the lines [lo, hi) (one rule set): Generate is a function of
// (id, diff), non-decreasing in diff, between Min and Max.
func checkCountEpoch(c core.Case, out []string, hdr []string, lo, hi int) *core.Failure {
	type pt struct{ d, v int }
	gens := map[string][]pt{}
	mins := map[int]int{}
	maxs := map[int]int{}
	for i := lo; i < hi; i++ {
		if out[i] == "panic" {
			key := "count-panic"
			for _, r := range hdr[3:] {
				p := strings.Split(r, ",")
				for _, k := range []int{1, 3} { // periodEndMaxIncr, intervalMaxIncr go through getRand
					if v, _ := strconv.Atoi(p[k]); v >= 1<<32 {
						key = "count-uint32-truncation"
					}
				}
			}
			return &core.Failure{Key: key, Desc: fmt.Sprintf("%q panicked with the positive rule parameters %v (period,periodEndMaxIncr,interval,intervalMaxIncr)", c.Lines[i], hdr[3:])}
		}
		if i == 0 {
			continue
		}
		t := core.Toks(c.Lines[i])
		v, err := strconv.Atoi(out[i])
		if err != nil || len(t) < 2 || t[0] == "addrule" {
			continue
		}
		d, _ := strconv.Atoi(t[len(t)-1])
		switch t[0] {
		case "gen":
			gens[t[1]] = append(gens[t[1]], pt{d, v})
		case "min":
			mins[d] = v
		case "max":
			maxs[d] = v
		}
	}
	for id, ps := range gens {
		sort.SliceStable(ps, func(i, j int) bool { return ps[i].d < ps[j].d })
		for k := range ps {
			if k > 0 && ps[k].d == ps[k-1].d && ps[k].v != ps[k-1].v {
				return &core.Failure{Key: "count-not-a-function", Desc: fmt.Sprintf("rules %v (+ AddRule lines before line %d) id %s: Generate(%d) answered %d and later %d with the same rule set", hdr[3:], hi, id, ps[k].d, ps[k-1].v, ps[k].v)}
			}
			if k > 0 && ps[k].v < ps[k-1].v {
				return &core.Failure{Key: "count-not-monotone", Desc: fmt.Sprintf("rules %v id %s: Generate(%d) = %d > Generate(%d) = %d", hdr[3:], id, ps[k-1].d, ps[k-1].v, ps[k].d, ps[k].v)}
			}
			if m, ok := mins[ps[k].d]; ok && ps[k].v < m {
				return &core.Failure{Key: "count-below-min", Desc: fmt.Sprintf("rules %v id %s: Generate(%d) = %d < Min = %d", hdr[3:], id, ps[k].d, ps[k].v, m)}
			}
			if m, ok := maxs[ps[k].d]; ok && ps[k].v > m {
				return &core.Failure{Key: "count-above-max", Desc: fmt.Sprintf("rules %v id %s: Generate(%d) = %d > Max = %d", hdr[3:], id, ps[k].d, ps[k].v, m)}
			}
		}
	}
	return nil
}

// ---------------------------------------------------------------- classification

func nonTrivial(c core.Case, out []string) bool {
	for _, l := range classify(c, out) {
		switch l {
		case "p32-invalid-byte", "p32-multi-char", "str-rejected-index", "str-refill", "count-crosses-period":
			return true
		}
	}
	return false
}

func classify(c core.Case, out []string) []string {
	hdr := core.Toks(c.Lines[0])
	if len(hdr) < 3 {
		return nil
	}
	var ls []string
	switch hdr[2] {
	case "id":
		for i, l := range c.Lines[1:] {
			t := core.Toks(l)
			o := out[i+1]
			if len(t) < 2 {
				continue
			}
			switch t[0] {
			case "p32":
				b, _ := unhx(t[1])
				_, valid := refParse(b)
				switch {
				case !valid:
					ls = append(ls, "p32-invalid-byte")
					if len(b) > 13 {
						first := 0
						for first < len(b) && inAlphabet(b[first]) >= 0 {
							first++
						}
						if first < len(b)-13 {
							ls = append(ls, "p32-invalid-only-left-of-last-13")
						}
						last := len(b) - 1
						for last >= 0 && inAlphabet(b[last]) >= 0 {
							last--
						}
						if last < len(b)-13 {
							ls = append(ls, "p32-all-invalid-left-of-last-13")
						}
					}
				case len(b) >= 13:
					ls = append(ls, "p32-overflow-length")
					if len(b) > 20 {
						ls = append(ls, "p32-valid-longer-than-20")
					}
				case len(b) >= 2:
					ls = append(ls, "p32-multi-char")
				default:
					ls = append(ls, "p32-short")
				}
			case "b32":
				if o == "panic" {
					ls = append(ls, "b32-negative-panic")
				} else {
					ls = append(ls, "b32")
				}
			case "newgen":
				rb, _ := strconv.Atoi(t[1])
				if rb <= 1 || rb > 22 {
					ls = append(ls, "newgen-clamped")
				} else {
					ls = append(ls, "newgen-in-range")
				}
			default:
				ls = append(ls, t[0])
			}
		}
	case "str":
		if out[0] == "panic" {
			return []string{"str-empty-set-panic"}
		}
		var bits, mask, max, n int
		fmt.Sscanf(out[0], "bits=%d mask=%d max=%d n=%d", &bits, &mask, &max, &n)
		for i, l := range c.Lines[1:] {
			t := core.Toks(l)
			o := out[i+1]
			switch {
			case o == "panic" || o == "panicked":
				ls = append(ls, "str-negative-n-panic")
				if i+2 < len(out) && out[i+2] != "dead" {
					ls = append(ls, "str-used-after-panic")
				}
			case o == "exhausted":
				ls = append(ls, "str-exhausted")
			case len(t) >= 2:
				f := strings.Fields(o)
				if len(f) == 2 {
					used, _ := strconv.Atoi(f[1])
					if used > 1 {
						ls = append(ls, "str-refill")
					}
					want, _ := strconv.Atoi(t[1])
					acc := 0
					for _, w := range t[2:min(len(t), 2+used)] {
						v, _ := strconv.ParseUint(w, 10, 64)
						acc += acceptable(int64(v), bits, max, n)
					}
					if used*max > want && (acc < used*max || want < acc) && bits > 0 {
						// some index was looked at and not used for a rune: rejected or left over
						for _, w := range t[2:min(len(t), 2+used)] {
							v, _ := strconv.ParseUint(w, 10, 64)
							if acceptable(int64(v), bits, max, n) < max {
								ls = append(ls, "str-rejected-index")
								break
							}
						}
					}
				}
			}
		}
	case "count", "countraw":
		if hdr[2] == "countraw" {
			ls = append(ls, "count-raw-order")
		}
		seenGen := false
		for _, l := range c.Lines[1:] {
			t := core.Toks(l)
			if t[0] == "gen" {
				seenGen = true
			}
			if t[0] == "addrule" && seenGen {
				ls = append(ls, "count-addrule-after-generate")
				break
			}
		}
		var periods []int
		for _, r := range hdr[3:] {
			p, _ := strconv.Atoi(strings.Split(r, ",")[0])
			periods = append(periods, p)
		}
		if !countPositive(hdr) {
			ls = append(ls, "count-nonpositive-params")
		}
		seen := map[int]bool{}
		for _, p := range periods {
			if seen[p] {
				ls = append(ls, "count-equal-periods")
				break
			}
			seen[p] = true
		}
		if len(periods) > 12 {
			ls = append(ls, "count-more-than-12-rules")
		}
		for _, r := range hdr[3:] {
			p := strings.Split(r, ",")
			if len(p) == 4 {
				a, _ := strconv.Atoi(p[1])
				b, _ := strconv.Atoi(p[3])
				if a >= 1<<32 || b >= 1<<32 {
					ls = append(ls, "count-param-ge-2^32")
					if a%(1<<32) == 0 || b%(1<<32) == 0 {
						ls = append(ls, "count-param-multiple-of-2^32")
					}
					break
				}
			}
		}
		lo, hi := 1<<62, -1<<62
		for i, l := range c.Lines[1:] {
			t := core.Toks(l)
			if out[i+1] == "panic" {
				ls = append(ls, "count-panic")
			}
			if len(t) >= 2 && t[0] == "gen" {
				d, _ := strconv.Atoi(t[len(t)-1])
				lo, hi = min(lo, d), max(hi, d)
			}
		}
		for _, p := range periods {
			if lo < p && p <= hi {
				ls = append(ls, "count-crosses-period")
				break
			}
		}
	}
	return ls
}
