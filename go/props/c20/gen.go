package c20

import (
	"fmt"
	"strconv"
	"strings"

	"github.com/welllog/golib/randz"

	"verifharness/internal/core"
)

func corpus() []core.Case {
	// every one of the 256 byte values alone, and in 2nd / 3rd position after valid characters
	all := []string{"@ C20 id"}
	for b := 0; b < 256; b++ {
		all = append(all, "p32 "+hx([]byte{byte(b)}))
	}
	for b := 0; b < 256; b++ {
		all = append(all, "p32 "+hx([]byte{'1', byte(b)}))
		all = append(all, "p32 "+hx([]byte{'z', '0', byte(b)}))
	}
	// one invalid byte at every position of inputs of every length 1..40
	everyPos := []string{"@ C20 id"}
	for n := 1; n <= 40; n++ {
		for p := 0; p < n; p++ {
			b := []byte(strings.Repeat("xcnvg4gxgm57t0123456789abcdefghjkmnprstuvwxyz", 1)[:n])
			b[p] = []byte{0x00, 'i', 0xff}[(n+p)%3]
			everyPos = append(everyPos, "p32 "+hx(b))
		}
	}
	return []core.Case{
		{Lines: everyPos, Tag: "magnitude"},
		// F10 witnesses: '!' (33), "il" are outside the alphabet but at indices the init loop never marks
		{Lines: []string{"@ C20 id", "p32 21"}, Tag: "corpus"},
		{Lines: []string{"@ C20 id", "p32 696c"}, Tag: "corpus"},
		{Lines: all, Tag: "corpus"},
		{Lines: []string{"@ C20 id", "b32 0", "b32 31", "b32 32", "b32 1023", "b32 1024", "b32 9223372036854775807",
			"p32 -", "p32 30", "p32 7a7a7a7a7a7a7a7a7a7a7a7a7a", "p32 377a7a7a7a7a7a7a7a7a7a7a7a", "p32 38303030303030303030303030",
			"fmt 0", "fmt -1", "fmt 35", "fmt 36", "fmt 9223372036854775807", "fmt -9223372036854775808",
			"newgen -1", "newgen 0", "newgen 1", "newgen 2", "newgen 16", "newgen 22", "newgen 23", "newgen 100",
			"compose 18 0 0", "compose 18 2199023255551 262143", "compose 22 2199023255552 5", "compose 2 -1 3", "compose 22 2199023255551 4194303",
			"b32 -1", "b32 5",
			"millis 0", "millis 1", "millis -1", "millis 999999", "millis 1000000", "millis 1000001", "millis -999999", "millis -1000000", "millis -1000001",
			"millis 9223372036854775807", "millis -9223372036854775808", "millis 2199023255551000000", "millis 2199023255551999999"}, Tag: "corpus"},
		{Lines: []string{"@ C20 str " + hx([]byte(randz.CHAR_SET)), "gen 0 0", "gen 5 0", "gen 5 9223372036854775807 0", "gen 13 0", "gen 3", "gen -1 0", "gen 1 0"}, Tag: "corpus"},
		{Lines: []string{"@ C20 str " + hx([]byte("你好é😀\xff")), "gen 4 " + strconv.FormatInt(0x0123456789abcdef, 10), "gen 30 1 2 3"}, Tag: "corpus"},
		{Lines: []string{"@ C20 str -", "gen 1 0"}, Tag: "corpus"},
		{Lines: []string{"@ C20 str 61", "gen 3 0", "gen 3 9223372036854775807 6148914691236517205"}, Tag: "corpus"},
		{Lines: []string{"@ C20 count 1800,100,3,2 86400,300,15,3 432000,1,180,4 5184000,1,600,5",
			"gen 74657374 4320000", "min 4320000", "max 4320000", "gen 74657374 1799", "gen 74657374 1800", "gen 74657374 0", "gen 74657374 -5", "gen 776f726c64 5443200"}, Tag: "corpus"},
		{Lines: []string{"@ C20 count 10,0,1,1", "gen 61 10", "min 10", "max 10"}, Tag: "corpus"},
		// F14 witness: a positive parameter that is a multiple of 2^32 (uint32(max) == 0 before the fix)
		{Lines: []string{"@ C20 count 10,5,1,4294967296", "gen 61 5", "min 5", "max 5", "gen 61 10", "min 10", "max 10"}, Tag: "corpus"},
		{Lines: []string{"@ C20 count 10,8589934592,1,4294967301 20,4294967295,3,12884901888", "gen 61 5", "gen 61 10", "min 10", "max 10", "gen 61 25", "min 25", "max 25"}, Tag: "corpus"},
		{Lines: []string{"@ C20 count", "gen 61 10", "min 10", "max 10"}, Tag: "corpus"},
		// Generate before the first AddRule, then the same id again, another id, the first id with a smaller diff
		{Lines: []string{"@ C20 count", "gen 61 10", "addrule 20,5,1,7", "gen 61 10", "gen 62 10", "gen 61 5", "gen 61 10", "min 10", "max 10", "addrule 40,9,2,5", "gen 61 30", "gen 61 10", "gen 62 30"}, Tag: "order"},
		// two rules with the same period in both relative orders (Generate differs, the property holds for each)
		{Lines: []string{"@ C20 countraw 10,5,1,4 10,7,2,3 25,2,3,2", "gen 61 9", "min 9", "max 9", "gen 61 10", "min 10", "max 10", "gen 61 24", "gen 61 25", "min 25", "max 25"}, Tag: "corpus"},
		{Lines: []string{"@ C20 countraw 10,7,2,3 10,5,1,4 25,2,3,2", "gen 61 9", "min 9", "max 9", "gen 61 10", "min 10", "max 10", "gen 61 24", "gen 61 25", "min 25", "max 25"}, Tag: "corpus"},
		{Lines: []string{"@ C20 count 10,5,1,4 10,7,2,3", "gen 61 9", "gen 61 10"}, Tag: "corpus"},
		{Lines: []string{"@ C20 count 10,7,2,3 10,5,1,4", "gen 61 9", "gen 61 10"}, Tag: "corpus"},
		// numerals of 13+ characters whose value does not fit int64 (silent wrap, outside the property)
		{Lines: []string{"@ C20 id", "p32 38303030303030303030303030", "p32 6730303030303030303030303031", "p32 7a7a7a7a7a7a7a7a7a7a7a7a7a7a7a7a", "p32 37303030303030303030303030"}, Tag: "corpus"},
	}
}

var near = []byte("ilouILOUZ!@`{/:9a _-")

func gen(r *core.Rand, tier string) core.Case {
	if r.Chance(6) {
		return genMag(r, tier)
	}
	if r.Chance(5) {
		return genCountOrder(r)
	}
	if r.Chance(map[bool]int{false: 1, true: 4}[tier == "thorough"]) && r.Chance(30) {
		return genStrLarge(r, tier)
	}
	switch r.Pick(40, 30, 24, 6) {
	case 0:
		return genID(r)
	case 1:
		return genStr(r)
	case 2:
		return genCount(r)
	}
	return genCountRaw(r)
}

func randID(r *core.Rand) int64 {
	switch r.Pick(2, 2, 3, 3) {
	case 0:
		return []int64{0, 1, 31, 32, 33, 1023, 1024, 1<<63 - 1, 1 << 62, 1<<62 - 1, 1<<60 - 1, 1 << 60}[r.Intn(12)]
	case 1:
		return int64(r.Intn(2000))
	case 2:
		return int64(r.Uint64() >> 1)
	}
	return int64(r.Uint64() >> uint(1+r.Intn(63)))
}

func genID(r *core.Rand) core.Case {
	lines := []string{"@ C20 id"}
	n := r.Range(1, 12)
	negDone := false
	for i := 0; i < n; i++ {
		if r.Chance(6) { // Duration.Milliseconds at boundaries, negatives included
			var d int64
			switch r.Pick(40, 30, 20, 10) {
			case 0:
				d = int64(r.Range(-3, 3))*1000000 + int64(r.Range(-2, 2))
			case 1:
				d = int64(r.Uint64()>>uint(1+r.Intn(62))) * int64(1-2*r.Intn(2))
			case 2:
				d = []int64{1<<63 - 1, -1 << 63, -1<<63 + 1, 999999, -999999, 1000000, -1000000, 0}[r.Intn(8)]
			case 3:
				d = (int64(r.Uint64()>>24))*1000000 + int64(r.Range(-1, 1))
			}
			lines = append(lines, fmt.Sprintf("millis %d", d))
			continue
		}
		switch r.Pick(20, 45, 10, 10, 15) {
		case 0:
			v := randID(r)
			if !negDone && r.Chance(4) && i == n-1 {
				v = -int64(r.Uint64()>>uint(1+r.Intn(63))) - 1
				negDone = true
			}
			lines = append(lines, fmt.Sprintf("b32 %d", v))
		case 1:
			var b []byte
			switch r.Pick(25, 30, 15, 15, 15) {
			case 0: // a valid numeral produced by the reference alphabet
				k := r.Range(0, 13)
				for j := 0; j < k; j++ {
					b = append(b, refAlphabet[r.Intn(32)])
				}
			case 1: // valid with one byte replaced
				k := r.Range(1, 6)
				for j := 0; j < k; j++ {
					b = append(b, refAlphabet[r.Intn(32)])
				}
				p := r.Intn(k)
				switch r.Pick(4, 3, 3) {
				case 0:
					b[p] = byte(r.Intn(256))
				case 1:
					b[p] = near[r.Intn(len(near))]
				case 2:
					b[p] = byte(r.Intn(48)) // below '0': the range the init loop bound matters for
				}
			case 2:
				b = r.Bytes(r.Range(0, 6))
			case 3: // long numerals: int64 accumulator wraps
				k := r.Range(12, 16)
				for j := 0; j < k; j++ {
					b = append(b, refAlphabet[r.Intn(32)])
				}
			case 4: // single byte
				b = []byte{byte(r.Intn(256))}
			}
			lines = append(lines, "p32 "+hx(b))
		case 2:
			v := randID(r)
			if r.Chance(30) {
				v = -v
			}
			if r.Chance(3) {
				v = -1 << 63
			}
			lines = append(lines, fmt.Sprintf("fmt %d", v))
		case 3:
			lines = append(lines, fmt.Sprintf("newgen %d", r.Range(-3, 26)))
		case 4:
			rb := r.Range(-1, 25)
			eff := rb
			if eff <= 1 {
				eff = 16
			}
			if eff > 22 {
				eff = 22
			}
			var ms int64
			switch r.Pick(3, 3, 2, 2) {
			case 0:
				ms = int64(r.Uint64() >> uint(23+r.Intn(41)))
			case 1:
				ms = 1<<41 - 1 - int64(r.Intn(3)) + int64(r.Intn(2))*int64(r.Intn(5))
			case 2:
				ms = -int64(r.Intn(100000))
			case 3:
				ms = int64(r.Uint64()>>1) >> uint(r.Intn(22))
			}
			rnd := int64(r.Uint64() % (1 << uint(eff)))
			if r.Chance(10) {
				rnd = 1<<uint(eff) - 1
			}
			lines = append(lines, fmt.Sprintf("compose %d %d %d", rb, ms, rnd))
		}
	}
	return core.Case{Lines: lines, Tag: "id"}
}

var palette = []string{"a", "b", "c", "Z", "0", "9", "é", "ß", "你", "好", "世", "😀", "🙂", "\xff", "\xc3", "-", "_", "€"}

func genStr(r *core.Rand) core.Case {
	var cs string
	switch r.Pick(15, 10, 35, 10, 4, 10, 16, 8, 6) {
	case 7: // only runes <= U+00FF, some of them >= U+0080 (two bytes in UTF-8, one "byte" as a rune)
		cs = latin1Set(r, r.Range(1, 12))
	case 8: // sizes 2^k and 2^k±1 up to 300 runes
		cs = sizedSet(r, []int{2, 3, 4, 5, 127, 128, 129, 255, 256, 257, 300}[r.Intn(11)])
	case 0:
		cs = randz.CHAR_SET
	case 1:
		cs = randz.CHAR_LOWER_SET
	case 2: // 1..9 runes from the palette (repeats allowed)
		k := r.Range(1, 9)
		for i := 0; i < k; i++ {
			cs += palette[r.Intn(len(palette))]
		}
	case 3: // exact powers of two and their neighbours
		k := []int{1, 2, 3, 4, 7, 8, 15, 16, 31, 32, 33, 63, 64, 65}[r.Intn(14)]
		for i := 0; i < k; i++ {
			cs += string(rune('A' + i))
		}
	case 4:
		cs = ""
	case 5: // larger sets
		k := r.Range(10, 70)
		for i := 0; i < k; i++ {
			cs += string(rune(0x4e00 + i*7))
		}
	case 6: // random bytes (invalid UTF-8 becomes U+FFFD runes)
		cs = string(r.Bytes(r.Range(1, 6)))
	}
	set := []rune(cs)
	bits := 0
	for l := len(set); l != 0; l >>= 1 {
		bits++
	}
	per := 1
	if bits > 0 {
		per = 63 / bits
	}
	lines := []string{"@ C20 str " + hx([]byte(cs))}
	nops := r.Range(1, 6)
	for i := 0; i < nops; i++ {
		n := r.Range(0, 20)
		switch {
		case r.Chance(4):
			n = -r.Range(1, 3)
		case r.Chance(10):
			n = r.Range(21, 40)
		case r.Chance(10):
			n = per * r.Range(0, 2) // exactly a whole number of words when nothing is rejected
		}
		need := 1
		if n > 0 {
			need = (n + per - 1) / per
		}
		k := need + r.Range(0, 3)
		if r.Chance(12) {
			k = r.Range(0, need)
		}
		var ws []string
		for j := 0; j < k; j++ {
			var w uint64
			switch r.Pick(60, 10, 10, 10, 10) {
			case 0:
				w = r.Uint64() >> 1
			case 1:
				w = 0
			case 2:
				w = 1<<63 - 1 // every index is the mask: always rejected
			case 3:
				w = (r.Uint64() >> 1) | 0x7fff_ffff_0000_0000 // rejected upper half
			case 4: // all indices equal to len-1 or len (the acceptance boundary)
				if bits > 0 {
					v := uint64(len(set) - 1 + r.Intn(2))
					for q := 0; q < per; q++ {
						w |= (v & (1<<uint(bits) - 1)) << uint(q*bits)
					}
				}
			}
			ws = append(ws, strconv.FormatUint(w, 10))
		}
		lines = append(lines, strings.TrimSpace(fmt.Sprintf("gen %d %s", n, strings.Join(ws, " "))))
		// after Generate(n<0) panicked the generator is used again (it must behave as before)
	}
	return core.Case{Lines: lines, Tag: "str"}
}

func genCount(r *core.Rand) core.Case {
	malformed := r.Chance(12)
	nr := r.Range(1, 5)
	if r.Chance(3) {
		nr = 0
	}
	type rule struct{ p, pe, i, im int }
	var rules []rule
	p := 0
	for k := 0; k < nr; k++ {
		if !(k > 0 && r.Chance(10)) { // sometimes two rules share a period
			p += r.Range(1, 60) * []int{1, 1, 7, 60}[r.Intn(4)]
		}
		rules = append(rules, rule{p, r.Range(1, 100), r.Range(1, 50), r.Range(1, 5)})
		if r.Chance(15) {
			rules[k].i = 1
		}
	}
	big := !malformed && nr > 0 && r.Chance(12)
	if big { // positive parameters at and above 2^32 (they pass through getRand's integer conversion)
		vals := []int{1 << 32, 1 << 33, 3 << 32, 1<<32 + r.Range(1, 9), 1<<32 - 1, 1 << 40, 1<<32 - r.Range(1, 3), 5<<32 + r.Range(0, 2)}
		for k := r.Range(1, 2); k > 0; k-- {
			j := r.Intn(nr)
			if r.Bool() {
				rules[j].im = vals[r.Intn(len(vals))]
			} else {
				rules[j].pe = vals[r.Intn(len(vals))]
			}
		}
	}
	if malformed && nr > 0 {
		k := r.Intn(nr)
		switch r.Pick(3, 2, 2, 2, 1, 1, 2) {
		case 0:
			rules[k].pe = 0
		case 1:
			rules[k].im = 0
		case 2:
			rules[k].i = 0
		case 3:
			rules[k].i = -r.Range(1, 5)
		case 4:
			rules[k].im = 1 << 32
		case 5:
			rules[k].pe = 1<<32 + r.Range(0, 3)
		case 6:
			rules[k].p = -rules[k].p
		}
	}
	// AddRule order is a random permutation (AddRule sorts by period)
	for k := len(rules) - 1; k > 0; k-- {
		j := r.Intn(k + 1)
		rules[k], rules[j] = rules[j], rules[k]
	}
	hdr := "@ C20 count"
	for _, q := range rules {
		hdr += fmt.Sprintf(" %d,%d,%d,%d", q.p, q.pe, q.i, q.im)
	}
	lines := []string{hdr}
	ids := []string{hx(r.Bytes(r.Range(0, 6))), hx([]byte("user:" + strconv.Itoa(r.Intn(1000))))}
	var diffs []int
	for _, q := range rules {
		for d := -2; d <= 2; d++ {
			if r.Chance(45) {
				diffs = append(diffs, q.p+d)
			}
		}
	}
	for k := r.Range(1, 6); k > 0; k-- {
		diffs = append(diffs, r.Range(-2, p+50))
	}
	if r.Chance(20) {
		diffs = append(diffs, p*1000+r.Intn(1000))
	}
	for _, d := range diffs {
		id := ids[r.Intn(2)]
		lines = append(lines, fmt.Sprintf("gen %s %d", id, d))
		if r.Chance(60) {
			lines = append(lines, fmt.Sprintf("min %d", d), fmt.Sprintf("max %d", d))
		}
		if r.Chance(40) {
			lines = append(lines, fmt.Sprintf("gen %s %d", id, d+1))
		}
	}
	tag := "count"
	if malformed {
		tag = "count-malformed"
	}
	if big {
		tag = "count-big-params"
	}
	return core.Case{Lines: lines, Tag: tag}
}

// genCountRaw: the rule slice is installed as given (through reflection): sorted by
// period with many equal periods, the rules of one period in a random relative order
// (what an unstable sort may leave), up to 16 rules; 10% unsorted (model tie only).
func genCountRaw(r *core.Rand) core.Case {
	nr := r.Range(2, 6)
	if r.Chance(25) {
		nr = r.Range(7, 16)
	}
	type rule struct{ p, pe, i, im int }
	var rules []rule
	p := r.Range(1, 30)
	for k := 0; k < nr; k++ {
		if k > 0 && !r.Chance(45) {
			p += r.Range(1, 40) * []int{1, 1, 7}[r.Intn(3)]
		}
		rules = append(rules, rule{p, r.Range(1, 60), r.Range(1, 20), r.Range(1, 6)})
	}
	tag := "countraw"
	if r.Chance(10) {
		j, k := r.Intn(nr), r.Intn(nr)
		rules[j], rules[k] = rules[k], rules[j]
		tag = "countraw-unsorted"
	}
	hdr := "@ C20 countraw"
	for _, q := range rules {
		hdr += fmt.Sprintf(" %d,%d,%d,%d", q.p, q.pe, q.i, q.im)
	}
	lines := []string{hdr}
	ids := []string{hx(r.Bytes(r.Range(0, 6))), hx([]byte("user:" + strconv.Itoa(r.Intn(1000))))}
	var diffs []int
	for _, q := range rules {
		for d := -1; d <= 1; d++ {
			if r.Chance(50) {
				diffs = append(diffs, q.p+d)
			}
		}
	}
	for k := r.Range(1, 5); k > 0; k-- {
		diffs = append(diffs, r.Range(-1, p+40))
	}
	for _, d := range diffs {
		id := ids[r.Intn(2)]
		lines = append(lines, fmt.Sprintf("gen %s %d", id, d))
		if r.Chance(60) {
			lines = append(lines, fmt.Sprintf("min %d", d), fmt.Sprintf("max %d", d))
		}
	}
	return core.Case{Lines: lines, Tag: tag}
}

// latin1Set: k runes in U+0001..U+00FF, at least one in U+0080..U+00FF.
func latin1Set(r *core.Rand, k int) string {
	rs := []rune{rune(0x80 + r.Intn(0x80))}
	for len(rs) < k {
		if r.Bool() {
			rs = append(rs, rune(0x80+r.Intn(0x80)))
		} else {
			rs = append(rs, rune(0x21+r.Intn(0x5e)))
		}
	}
	for i := len(rs) - 1; i > 0; i-- {
		j := r.Intn(i + 1)
		rs[i], rs[j] = rs[j], rs[i]
	}
	return string(rs)
}

// sizedSet: k distinct runes mixing ASCII, Latin-1, CJK.
func sizedSet(r *core.Rand, k int) string {
	base := []rune{0x30, 0xC0, 0x4e00}[r.Intn(3)]
	rs := make([]rune, k)
	for i := range rs {
		rs[i] = base + rune(i)
	}
	return string(rs)
}

// genStrLarge (large stream): n up to 5000 over sets of size 2^k, 2^k±1 up to 300 runes
// (or Latin-1 sets), with enough random words for the rejection rate of the set.
func genStrLarge(r *core.Rand, tier string) core.Case {
	var cs string
	if r.Chance(30) {
		cs = latin1Set(r, r.Range(2, 40))
	} else {
		cs = sizedSet(r, []int{1, 2, 3, 16, 17, 31, 32, 33, 64, 65, 255, 256, 257, 300}[r.Intn(14)])
	}
	set := []rune(cs)
	bits := 0
	for l := len(set); l != 0; l >>= 1 {
		bits++
	}
	per := 63 / bits
	n := []int{255, 256, 257, 1000, 1024, 1025, 4096, 4097, 5000, 20000}[r.Intn(10)]
	if r.Chance(30) {
		n = r.Range(200, 5000)
	}
	if tier == "thorough" && r.Chance(10) {
		n = []int{65535, 65536, 65537, 100000}[r.Intn(4)]
	}
	need := (n + per - 1) / per
	k := need*(1<<uint(bits))/len(set)*12/10 + 8
	ws := make([]string, k)
	for j := range ws {
		ws[j] = strconv.FormatUint(r.Uint64()>>1, 10)
	}
	return core.Case{Lines: []string{"@ C20 str " + hx([]byte(cs)), fmt.Sprintf("gen %d %s", n, strings.Join(ws, " "))}, Tag: "large"}
}

var invalidB32 = []byte{0x00, 0xff, 'i', 'l', 'o', 'q', 'I', 'Z', '!', ' ', 0x80, '/', ':', '`', '{'}

func validNumeral(r *core.Rand, n int) []byte {
	b := make([]byte, n)
	for j := range b {
		b[j] = refAlphabet[r.Intn(32)]
	}
	return b
}

// genMag (magnitude stream): ParseBase32 on inputs of length 1..40 (64 in thorough) with
// one or several bytes outside the alphabet at EVERY position (also far left of the last
// 13 characters, which alone determine the int64 value), sweeps of all 256 byte values
// at chosen positions of long inputs, and valid long numerals (value wraps modulo 2^64).
func genMag(r *core.Rand, tier string) core.Case {
	maxLen := 40
	if tier == "thorough" {
		maxLen = 64
	}
	lines := []string{"@ C20 id"}
	switch r.Pick(55, 15, 30) {
	case 0:
		for k := r.Range(8, 30); k > 0; k-- {
			n := r.Range(1, maxLen)
			if r.Chance(40) {
				n = r.Range(13, maxLen)
			}
			b := validNumeral(r, n)
			bad := 1
			if r.Chance(25) {
				bad = r.Range(2, 3)
			}
			for ; bad > 0; bad-- {
				p := r.Intn(n)
				switch r.Intn(4) {
				case 0:
					p = 0
				case 1:
					if n > 13 {
						p = r.Intn(n - 13) // cut off by a "last 13 digits" shortcut
					}
				}
				if r.Chance(70) {
					b[p] = invalidB32[r.Intn(len(invalidB32))]
				} else {
					for {
						b[p] = byte(r.Intn(256))
						if inAlphabet(b[p]) < 0 {
							break
						}
					}
				}
			}
			lines = append(lines, "p32 "+hx(b))
		}
	case 1: // all 256 byte values at one position of a long input
		n := []int{14, 15, 20, 27, 40}[r.Intn(5)]
		b := validNumeral(r, n)
		p := []int{0, 1, n - 14, n - 13, n - 1, n / 2}[r.Intn(6)]
		for v := 0; v < 256; v++ {
			c := append([]byte{}, b...)
			c[p] = byte(v)
			lines = append(lines, "p32 "+hx(c))
		}
	case 2: // valid long numerals
		for k := r.Range(5, 20); k > 0; k-- {
			b := validNumeral(r, r.Range(12, maxLen))
			if r.Chance(30) { // leading zeros: the value may still fit
				for j := 0; j < len(b)-r.Range(1, 12) && j < len(b); j++ {
					b[j] = '0'
				}
			}
			lines = append(lines, "p32 "+hx(b))
		}
	}
	return core.Case{Lines: lines, Tag: "magnitude"}
}

// genCountOrder (order of public calls): Generate BEFORE the first AddRule (empty rule
// list), rules added between Generates, the same id repeated / two ids alternating, diffs
// going up and down, so that any memo kept across calls (last id, last hash, last rule
// count) goes stale if it is not a function of the current arguments.
func genCountOrder(r *core.Rand) core.Case {
	hdr := "@ C20 count"
	p := 0
	rule := func() string {
		p += r.Range(3, 40)
		i := r.Range(1, 4)
		return fmt.Sprintf("%d,%d,%d,%d", p, r.Range(2, 50), i, r.Range(2, 9))
	}
	for k := r.Intn(3); k > 0 && !r.Chance(50); k-- {
		hdr += " " + rule()
	}
	lines := []string{hdr}
	ids := []string{hx([]byte("a")), hx([]byte("user:" + strconv.Itoa(r.Intn(100)))), hx(r.Bytes(r.Range(1, 5)))}
	cur := ids[r.Intn(3)]
	gens := func(n int) {
		for ; n > 0; n-- {
			switch r.Pick(50, 30, 20) {
			case 0: // same id again
			case 1:
				cur = ids[r.Intn(3)]
			case 2:
				cur = ids[r.Intn(2)]
			}
			d := r.Range(0, p+20)
			if r.Chance(15) {
				d = r.Range(-1, 1)
			}
			lines = append(lines, fmt.Sprintf("gen %s %d", cur, d))
			if r.Chance(25) {
				lines = append(lines, fmt.Sprintf("min %d", d), fmt.Sprintf("max %d", d))
			}
		}
	}
	gens(r.Range(1, 4))
	for k := r.Range(1, 4); k > 0; k-- {
		lines = append(lines, "addrule "+rule())
		gens(r.Range(2, 8))
	}
	return core.Case{Lines: lines, Tag: "order"}
}
