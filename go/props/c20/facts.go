package c20

import (
	"fmt"
	"go/ast"
	"go/parser"
	"go/token"
	"path/filepath"
	"strconv"
	"strings"
)

// facts regenerates lean/Golib/Gen/FactsC20.lean from randz/id.go: the alphabet
// constant, the size of the decode table, the iteration counts and stored values of
// the two init loops, and the mark ParseBase32 compares against. Any shape it does
// not recognise is an error (the Lean stage then fails: never silent).
func facts(repo string) (string, error) {
	fset := token.NewFileSet()
	f, err := parser.ParseFile(fset, filepath.Join(repo, "randz", "id.go"), nil, 0)
	if err != nil {
		return "", err
	}
	var alphabet string
	haveAlpha := false
	tableSize := -1
	for _, d := range f.Decls {
		gd, ok := d.(*ast.GenDecl)
		if !ok {
			continue
		}
		for _, s := range gd.Specs {
			vs, ok := s.(*ast.ValueSpec)
			if !ok {
				continue
			}
			for i, n := range vs.Names {
				switch n.Name {
				case "encodeBase32Map":
					if gd.Tok != token.CONST || i >= len(vs.Values) {
						return "", fmt.Errorf("encodeBase32Map is not a constant with a literal value")
					}
					bl, ok := vs.Values[i].(*ast.BasicLit)
					if !ok || bl.Kind != token.STRING {
						return "", fmt.Errorf("encodeBase32Map is not a string literal")
					}
					s, err := strconv.Unquote(bl.Value)
					if err != nil {
						return "", err
					}
					alphabet, haveAlpha = s, true
				case "decodeBase32Map":
					at, ok := vs.Type.(*ast.ArrayType)
					if !ok || at.Len == nil {
						return "", fmt.Errorf("decodeBase32Map is not a fixed-size array")
					}
					if id, ok := at.Elt.(*ast.Ident); !ok || id.Name != "byte" {
						return "", fmt.Errorf("decodeBase32Map is not an array of byte")
					}
					n, err := intLit(at.Len)
					if err != nil {
						return "", fmt.Errorf("decodeBase32Map length: %v", err)
					}
					tableSize = n
				}
			}
		}
	}
	if !haveAlpha || tableSize < 0 {
		return "", fmt.Errorf("encodeBase32Map / decodeBase32Map declarations not found")
	}
	lenOf := func(e ast.Expr) (int, error) { // value of a loop bound expression
		if n, err := intLit(e); err == nil {
			return n, nil
		}
		if c, ok := e.(*ast.CallExpr); ok && len(c.Args) == 1 {
			if fn, ok := c.Fun.(*ast.Ident); ok && fn.Name == "len" {
				if a, ok := c.Args[0].(*ast.Ident); ok {
					switch a.Name {
					case "encodeBase32Map":
						return len(alphabet), nil
					case "decodeBase32Map":
						return tableSize, nil
					}
				}
			}
		}
		return 0, fmt.Errorf("unrecognised loop bound")
	}
	// loopCount: number of iterations of `for i := 0; i < B; i++` / `for i := range X`, and the index variable.
	loopCount := func(st ast.Stmt) (int, string, *ast.BlockStmt, error) {
		switch l := st.(type) {
		case *ast.ForStmt:
			as, ok := l.Init.(*ast.AssignStmt)
			if !ok || as.Tok != token.DEFINE || len(as.Lhs) != 1 || len(as.Rhs) != 1 {
				return 0, "", nil, fmt.Errorf("unrecognised loop init")
			}
			iv, ok := as.Lhs[0].(*ast.Ident)
			if z, err := intLit(as.Rhs[0]); !ok || err != nil || z != 0 {
				return 0, "", nil, fmt.Errorf("loop does not start at 0")
			}
			cond, ok := l.Cond.(*ast.BinaryExpr)
			if !ok || cond.Op != token.LSS {
				return 0, "", nil, fmt.Errorf("loop condition is not i < bound")
			}
			if x, ok := cond.X.(*ast.Ident); !ok || x.Name != iv.Name {
				return 0, "", nil, fmt.Errorf("loop condition is not on the index variable")
			}
			// `i++`, or the equivalent spellings `i += 1` / `i = i + 1`
			var postVar ast.Expr
			switch ps := l.Post.(type) {
			case *ast.IncDecStmt:
				if ps.Tok == token.INC {
					postVar = ps.X
				}
			case *ast.AssignStmt:
				if len(ps.Lhs) == 1 && len(ps.Rhs) == 1 {
					if one, err := intLit(ps.Rhs[0]); ps.Tok == token.ADD_ASSIGN && err == nil && one == 1 {
						postVar = ps.Lhs[0]
					} else if be, ok := ps.Rhs[0].(*ast.BinaryExpr); ok && ps.Tok == token.ASSIGN && be.Op == token.ADD {
						l0, okL := ps.Lhs[0].(*ast.Ident)
						x0, okX := be.X.(*ast.Ident)
						if one, err := intLit(be.Y); okL && okX && x0.Name == l0.Name && err == nil && one == 1 {
							postVar = ps.Lhs[0]
						}
					}
				}
			}
			if postVar == nil {
				return 0, "", nil, fmt.Errorf("loop post statement is not i++")
			}
			if x, ok := postVar.(*ast.Ident); !ok || x.Name != iv.Name {
				return 0, "", nil, fmt.Errorf("loop post statement is not on the index variable")
			}
			n, err := lenOf(cond.Y)
			return n, iv.Name, l.Body, err
		case *ast.RangeStmt:
			iv, ok := l.Key.(*ast.Ident)
			if !ok || l.Value != nil || l.Tok != token.DEFINE {
				return 0, "", nil, fmt.Errorf("unrecognised range loop")
			}
			if n, err := intLit(l.X); err == nil {
				return n, iv.Name, l.Body, nil
			}
			if a, ok := l.X.(*ast.Ident); ok {
				switch a.Name {
				case "encodeBase32Map":
					// ranging over a string yields byte offsets of runes; the alphabet must be ASCII
					for _, c := range []byte(alphabet) {
						if c >= 0x80 {
							return 0, "", nil, fmt.Errorf("range over a non-ASCII alphabet")
						}
					}
					return len(alphabet), iv.Name, l.Body, nil
				case "decodeBase32Map":
					return tableSize, iv.Name, l.Body, nil
				}
			}
			return 0, "", nil, fmt.Errorf("unrecognised range expression")
		}
		return 0, "", nil, fmt.Errorf("not a loop")
	}
	isTab := func(e ast.Expr) (ast.Expr, bool) { // decodeBase32Map[<idx>]
		ix, ok := e.(*ast.IndexExpr)
		if !ok {
			return nil, false
		}
		id, ok := ix.X.(*ast.Ident)
		return ix.Index, ok && id.Name == "decodeBase32Map"
	}
	loop1, loop2, mark := -1, -1, -1
	for _, d := range f.Decls {
		fd, ok := d.(*ast.FuncDecl)
		if !ok || fd.Name.Name != "init" || fd.Recv != nil || fd.Body == nil {
			continue
		}
		touches := false
		ast.Inspect(fd.Body, func(n ast.Node) bool {
			if id, ok := n.(*ast.Ident); ok && id.Name == "decodeBase32Map" {
				touches = true
			}
			return true
		})
		if !touches {
			continue
		}
		if len(fd.Body.List) != 2 || loop1 >= 0 {
			return "", fmt.Errorf("init of decodeBase32Map is not exactly two loops")
		}
		// first loop: decodeBase32Map[i] = <mark>
		n1, iv1, b1, err := loopCount(fd.Body.List[0])
		if err != nil {
			return "", fmt.Errorf("first init loop: %v", err)
		}
		if len(b1.List) != 1 {
			return "", fmt.Errorf("first init loop body is not one statement")
		}
		as, ok := b1.List[0].(*ast.AssignStmt)
		if !ok || as.Tok != token.ASSIGN || len(as.Lhs) != 1 || len(as.Rhs) != 1 {
			return "", fmt.Errorf("first init loop body is not an assignment")
		}
		idx, ok := isTab(as.Lhs[0])
		if !ok {
			return "", fmt.Errorf("first init loop does not assign to decodeBase32Map[i]")
		}
		if x, ok := idx.(*ast.Ident); !ok || x.Name != iv1 {
			return "", fmt.Errorf("first init loop does not index with the loop variable")
		}
		m, err := intLit(as.Rhs[0])
		if err != nil {
			return "", fmt.Errorf("first init loop stores a non-literal")
		}
		loop1, mark = n1, m
		// second loop: decodeBase32Map[encodeBase32Map[i]] = byte(i)
		n2, iv2, b2, err := loopCount(fd.Body.List[1])
		if err != nil {
			return "", fmt.Errorf("second init loop: %v", err)
		}
		if len(b2.List) != 1 {
			return "", fmt.Errorf("second init loop body is not one statement")
		}
		as, ok = b2.List[0].(*ast.AssignStmt)
		if !ok || as.Tok != token.ASSIGN || len(as.Lhs) != 1 || len(as.Rhs) != 1 {
			return "", fmt.Errorf("second init loop body is not an assignment")
		}
		idx, ok = isTab(as.Lhs[0])
		if !ok {
			return "", fmt.Errorf("second init loop does not assign to decodeBase32Map[...]")
		}
		inner, ok := idx.(*ast.IndexExpr)
		if !ok {
			return "", fmt.Errorf("second init loop index is not encodeBase32Map[i]")
		}
		if a, ok := inner.X.(*ast.Ident); !ok || a.Name != "encodeBase32Map" {
			return "", fmt.Errorf("second init loop index is not encodeBase32Map[i]")
		}
		if x, ok := inner.Index.(*ast.Ident); !ok || x.Name != iv2 {
			return "", fmt.Errorf("second init loop does not index with the loop variable")
		}
		call, ok := as.Rhs[0].(*ast.CallExpr)
		if !ok || len(call.Args) != 1 {
			return "", fmt.Errorf("second init loop does not store byte(i)")
		}
		if fn, ok := call.Fun.(*ast.Ident); !ok || fn.Name != "byte" {
			return "", fmt.Errorf("second init loop does not store byte(i)")
		}
		if x, ok := call.Args[0].(*ast.Ident); !ok || x.Name != iv2 {
			return "", fmt.Errorf("second init loop does not store byte(i)")
		}
		loop2 = n2
	}
	if loop1 < 0 || loop2 < 0 {
		return "", fmt.Errorf("init function of decodeBase32Map not found")
	}
	// ParseBase32: `if decodeBase32Map[b[i]] == <mark> { return -1, ErrInvalidBase32 }`
	reject := -1
	for _, d := range f.Decls {
		fd, ok := d.(*ast.FuncDecl)
		if !ok || fd.Name.Name != "ParseBase32" || fd.Body == nil {
			continue
		}
		ast.Inspect(fd.Body, func(n ast.Node) bool {
			is, ok := n.(*ast.IfStmt)
			if !ok {
				return true
			}
			be, ok := is.Cond.(*ast.BinaryExpr)
			if !ok || be.Op != token.EQL {
				return true
			}
			if _, ok := isTab(be.X); !ok {
				return true
			}
			if m, err := intLit(be.Y); err == nil {
				if reject >= 0 && reject != m {
					reject = -2
				} else if reject != -2 {
					reject = m
				}
			}
			return true
		})
	}
	if reject < 0 {
		return "", fmt.Errorf("the rejection test of ParseBase32 was not recognised")
	}
	// String / Base2 / Base36: `return strconv.FormatInt(int64(f), <base>)`
	bases := map[string]int{}
	for _, d := range f.Decls {
		fd, ok := d.(*ast.FuncDecl)
		if !ok || fd.Recv == nil || len(fd.Recv.List) != 1 || fd.Body == nil {
			continue
		}
		if rt, ok := fd.Recv.List[0].Type.(*ast.Ident); !ok || rt.Name != "ID" {
			continue
		}
		name := fd.Name.Name
		if name != "String" && name != "Base2" && name != "Base36" {
			continue
		}
		if len(fd.Recv.List[0].Names) != 1 || len(fd.Body.List) != 1 {
			return "", fmt.Errorf("ID.%s is not a single return statement", name)
		}
		recv := fd.Recv.List[0].Names[0].Name
		ret, ok := fd.Body.List[0].(*ast.ReturnStmt)
		if !ok || len(ret.Results) != 1 {
			return "", fmt.Errorf("ID.%s is not a single return statement", name)
		}
		call, ok := ret.Results[0].(*ast.CallExpr)
		if !ok || len(call.Args) != 2 {
			return "", fmt.Errorf("ID.%s does not return strconv.FormatInt(int64(f), base)", name)
		}
		sel, ok := call.Fun.(*ast.SelectorExpr)
		if !ok || sel.Sel.Name != "FormatInt" {
			return "", fmt.Errorf("ID.%s does not call strconv.FormatInt", name)
		}
		if pk, ok := sel.X.(*ast.Ident); !ok || pk.Name != "strconv" {
			return "", fmt.Errorf("ID.%s does not call strconv.FormatInt", name)
		}
		conv, ok := call.Args[0].(*ast.CallExpr)
		if !ok || len(conv.Args) != 1 {
			return "", fmt.Errorf("ID.%s does not format int64(f)", name)
		}
		if fn, ok := conv.Fun.(*ast.Ident); !ok || fn.Name != "int64" {
			return "", fmt.Errorf("ID.%s does not format int64(f)", name)
		}
		if a, ok := conv.Args[0].(*ast.Ident); !ok || a.Name != recv {
			return "", fmt.Errorf("ID.%s does not format its receiver", name)
		}
		bv, err := intLit(call.Args[1])
		if err != nil {
			return "", fmt.Errorf("ID.%s: base is not a literal", name)
		}
		bases[name] = bv
	}
	if len(bases) != 3 {
		return "", fmt.Errorf("ID.String / Base2 / Base36 not all found")
	}
	var b strings.Builder
	b.WriteString("-- generated by the C20 facts extractor (go/props/c20/facts.go) from randz/id.go; do not edit\n")
	b.WriteString("namespace Golib.Gen.C20\n\n")
	b.WriteString("/-- the extractor recognised every shape it looked for -/\ndef extractorOK : Bool := true\n\n")
	b.WriteString("/-- bytes of the constant `encodeBase32Map` -/\ndef alphabet : List Nat := [")
	for i, c := range []byte(alphabet) {
		if i > 0 {
			b.WriteString(", ")
		}
		b.WriteString(strconv.Itoa(int(c)))
	}
	b.WriteString("]\n\n")
	fmt.Fprintf(&b, "/-- length of the array `decodeBase32Map` -/\ndef tableSize : Nat := %d\n\n", tableSize)
	fmt.Fprintf(&b, "/-- number of iterations of the first init loop (`decodeBase32Map[i] = invalidMark`) -/\ndef loop1Bound : Nat := %d\n\n", loop1)
	fmt.Fprintf(&b, "/-- value stored by the first init loop -/\ndef invalidMark : Nat := %d\n\n", mark)
	fmt.Fprintf(&b, "/-- number of iterations of the second init loop (`decodeBase32Map[encodeBase32Map[i]] = byte(i)`) -/\ndef loop2Bound : Nat := %d\n\n", loop2)
	fmt.Fprintf(&b, "/-- the value `ParseBase32` compares a table entry with to reject a byte -/\ndef parseRejectMark : Nat := %d\n\n", reject)
	fmt.Fprintf(&b, "/-- `ID.String`, `ID.Base2`, `ID.Base36` are `strconv.FormatInt(int64(f), base)` with these bases -/\ndef baseOfString : Nat := %d\ndef baseOfBase2 : Nat := %d\ndef baseOfBase36 : Nat := %d\n\n", bases["String"], bases["Base2"], bases["Base36"])
	b.WriteString("end Golib.Gen.C20\n")
	return b.String(), nil
}

func intLit(e ast.Expr) (int, error) {
	bl, ok := e.(*ast.BasicLit)
	if !ok || bl.Kind != token.INT {
		return 0, fmt.Errorf("not an integer literal")
	}
	v, err := strconv.ParseInt(bl.Value, 0, 64)
	return int(v), err
}
