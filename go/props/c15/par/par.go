// Package par is the parallel workload of the C15 check: every function of the property
// (strz.ParseUint, Hex*, Base64*, IPv4*, the hashz digest / HMAC / stream helpers) is called
// from several goroutines at once with DIFFERENT inputs and every result is compared with the
// standard library.  These are stateless package-level functions: calling them concurrently
// is ordinary use, so any wrong result is a violation (sound verdict: the comparison is
// per call, no timing assumption).  Used in-process by the Extra "parallel-goroutines" and by
// the `-race` build props/c15/racer.
package par

import (
	"bytes"
	"crypto/hmac"
	"crypto/md5"
	"crypto/sha1"
	"crypto/sha256"
	"crypto/sha512"
	"encoding/base64"
	"encoding/hex"
	"fmt"
	"hash"
	"io"
	"strconv"
	"sync"

	"github.com/welllog/golib/hashz"
	"github.com/welllog/golib/strz"
)

// Mismatch is one wrong result.
type Mismatch struct {
	Func      string `json:"function"`
	Input     string `json:"input_hex"`
	Input2    string `json:"input2_hex,omitempty"`
	Got       string `json:"got"`
	Want      string `json:"want"`
	Goroutine int    `json:"goroutine"`
	Round     int    `json:"round"`
}

func input(g, r, salt int) []byte {
	n := (g*37 + r*11 + salt*5) % 201
	if r%7 == 0 {
		n = []int{0, 1, 55, 56, 63, 64, 65, 111, 112, 127, 128, 129}[(g+r+salt)%12]
	}
	b := make([]byte, n)
	x := uint64(g+1)*0x9e3779b97f4a7c15 ^ uint64(r+1)*0xbf58476d1ce4e5b9 ^ uint64(salt+1)*0x94d049bb133111eb
	for i := range b {
		x ^= x << 13
		x ^= x >> 7
		x ^= x << 17
		b[i] = byte(x >> 32)
	}
	return b
}

type oneByte struct{ b []byte }

func (o *oneByte) Read(p []byte) (int, error) {
	if len(o.b) == 0 {
		return 0, io.EOF
	}
	if len(p) == 0 {
		return 0, nil
	}
	p[0] = o.b[0]
	o.b = o.b[1:]
	return 1, nil
}

var digests = []struct {
	name   string
	sum    func([]byte) []byte
	s      func(string) []byte
	b      func([]byte) []byte
	ts     func(string) string
	stream func(io.Reader) ([]byte, error)
}{
	{"Md5", func(b []byte) []byte { h := md5.Sum(b); return h[:] }, hashz.Md5[string], hashz.Md5[[]byte], hashz.Md5ToString[string], hashz.Md5Stream},
	{"Sha1", func(b []byte) []byte { h := sha1.Sum(b); return h[:] }, hashz.Sha1[string], hashz.Sha1[[]byte], hashz.Sha1ToString[string], hashz.Sha1Stream},
	{"Sha224", func(b []byte) []byte { h := sha256.Sum224(b); return h[:] }, hashz.Sha224[string], hashz.Sha224[[]byte], hashz.Sha224ToString[string], hashz.Sha224Stream},
	{"Sha256", func(b []byte) []byte { h := sha256.Sum256(b); return h[:] }, hashz.Sha256[string], hashz.Sha256[[]byte], hashz.Sha256ToString[string], hashz.Sha256Stream},
	{"Sha384", func(b []byte) []byte { h := sha512.Sum384(b); return h[:] }, hashz.Sha384[string], hashz.Sha384[[]byte], hashz.Sha384ToString[string], hashz.Sha384Stream},
	{"Sha512", func(b []byte) []byte { h := sha512.Sum512(b); return h[:] }, hashz.Sha512[string], hashz.Sha512[[]byte], hashz.Sha512ToString[string], hashz.Sha512Stream},
	{"Sha512_224", func(b []byte) []byte { h := sha512.Sum512_224(b); return h[:] }, hashz.Sha512_224[string], hashz.Sha512_224[[]byte], hashz.Sha512_224ToString[string], nil},
	{"Sha512_256", func(b []byte) []byte { h := sha512.Sum512_256(b); return h[:] }, hashz.Sha512_256[string], hashz.Sha512_256[[]byte], hashz.Sha512_256ToString[string], nil},
}

var macs = []struct {
	name string
	h    func() hash.Hash
}{
	{"md5", md5.New}, {"sha1", sha1.New}, {"sha224", sha256.New224}, {"sha256", sha256.New},
	{"sha384", sha512.New384}, {"sha512", sha512.New}, {"sha512_224", sha512.New512_224}, {"sha512_256", sha512.New512_256},
}

var encs = []struct {
	name string
	e    *base64.Encoding
}{{"Std", base64.StdEncoding}, {"URL", base64.URLEncoding}, {"RawStd", base64.RawStdEncoding}, {"RawURL", base64.RawURLEncoding}}

// Run starts `goroutines` goroutines that each make `rounds` passes over all functions and
// returns the mismatches found (at most 20) and the number of calls compared.
func Run(goroutines, rounds int) ([]Mismatch, int) {
	var mu sync.Mutex
	var out []Mismatch
	calls := 0
	var wg sync.WaitGroup
	start := make(chan struct{})
	for g := 0; g < goroutines; g++ {
		wg.Add(1)
		go func(g int) {
			defer wg.Done()
			<-start
			n := 0
			cmp := func(r int, fn string, in, in2 []byte, got, want []byte) {
				n++
				if !bytes.Equal(got, want) {
					mu.Lock()
					if len(out) < 20 {
						m := Mismatch{Func: fn, Input: hex.EncodeToString(in), Got: fmt.Sprintf("%q", got), Want: fmt.Sprintf("%q", want), Goroutine: g, Round: r}
						if in2 != nil {
							m.Input2 = hex.EncodeToString(in2)
						}
						out = append(out, m)
					}
					mu.Unlock()
				}
			}
			for r := 0; r < rounds; r++ {
				in := input(g, r, 0)
				key := input(g, r, 1)
				hx := []byte(hex.EncodeToString(in))
				// hex
				cmp(r, "HexEncode[string]", in, nil, strz.HexEncode(string(in)), hx)
				cmp(r, "HexEncode[[]byte]", in, nil, strz.HexEncode(in), hx)
				cmp(r, "HexEncodeToString", in, nil, []byte(strz.HexEncodeToString(in)), hx)
				d, err := strz.HexDecode(hx)
				if err != nil {
					d = []byte("error: " + err.Error())
				}
				cmp(r, "HexDecode", hx, nil, d, in)
				ds, _ := strz.HexDecodeToString(string(hx))
				cmp(r, "HexDecodeToString", hx, nil, []byte(ds), in)
				buf := append([]byte{}, hx...)
				k, _ := strz.HexDecodeInPlace(buf)
				cmp(r, "HexDecodeInPlace", hx, nil, buf[:k], in)
				// base64
				for _, e := range encs {
					want := []byte(e.e.EncodeToString(in))
					cmp(r, "Base64Encode/"+e.name, in, nil, strz.Base64Encode(in, e.e), want)
					cmp(r, "Base64EncodeToString/"+e.name, in, nil, []byte(strz.Base64EncodeToString(string(in), e.e)), want)
					bd, err := strz.Base64Decode(want, e.e)
					if err != nil {
						bd = []byte("error: " + err.Error())
					}
					cmp(r, "Base64Decode/"+e.name, want, nil, bd, in)
					bs, _ := strz.Base64DecodeToString(string(want), e.e)
					cmp(r, "Base64DecodeToString/"+e.name, want, nil, []byte(bs), in)
				}
				// digests
				for _, a := range digests {
					want := []byte(hex.EncodeToString(a.sum(in)))
					cmp(r, a.name+"[string]", in, nil, a.s(string(in)), want)
					cmp(r, a.name+"[[]byte]", in, nil, a.b(in), want)
					cmp(r, a.name+"ToString", in, nil, []byte(a.ts(string(in))), want)
					if a.stream != nil {
						o, err := a.stream(bytes.NewReader(in))
						if err != nil {
							o = []byte("error: " + err.Error())
						}
						cmp(r, a.name+"Stream(bytes.Reader)", in, nil, o, want)
						o, err = a.stream(&oneByte{b: append([]byte{}, in...)})
						if err != nil {
							o = []byte("error: " + err.Error())
						}
						cmp(r, a.name+"Stream(one byte per Read)", in, nil, o, want)
					}
				}
				// HMAC
				for _, m := range macs {
					hm := hmac.New(m.h, key)
					hm.Write(in)
					want := []byte(hex.EncodeToString(hm.Sum(nil)))
					cmp(r, "Hmac/"+m.name, key, in, hashz.Hmac(key, in, m.h), want)
					cmp(r, "Hmac[string,string]/"+m.name, key, in, hashz.Hmac(string(key), string(in), m.h), want)
					cmp(r, "HmacToString/"+m.name, key, in, []byte(hashz.HmacToString(string(key), in, m.h)), want)
				}
				// ParseUint, IPv4
				x := uint64(g)<<40 ^ uint64(r)*0x9e3779b97f4a7c15
				for _, base := range []int{2, 10, 16, 36} {
					txt := strconv.FormatUint(x, base)
					v, err := strz.ParseUint(txt, base, 64)
					cmp(r, "ParseUint[string]", []byte(txt), nil, []byte(fmt.Sprint(v, err)), []byte(fmt.Sprint(x, nil)))
					v, err = strz.ParseUint([]byte(txt), base, 64)
					cmp(r, "ParseUint[[]byte]", []byte(txt), nil, []byte(fmt.Sprint(v, err)), []byte(fmt.Sprint(x, nil)))
				}
				ip := uint32(x >> 16)
				txt := fmt.Sprintf("%d.%d.%d.%d", byte(ip>>24), byte(ip>>16), byte(ip>>8), byte(ip))
				cmp(r, "LongToIPv4", []byte(fmt.Sprint(ip)), nil, []byte(strz.LongToIPv4(ip)), []byte(txt))
				cmp(r, "IPv4ToLong", []byte(txt), nil, []byte(fmt.Sprint(strz.IPv4ToLong(txt))), []byte(fmt.Sprint(ip)))
			}
			mu.Lock()
			calls += n
			mu.Unlock()
		}(g)
	}
	close(start)
	wg.Wait()
	return out, calls
}
