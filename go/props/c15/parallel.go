package c15

// Class 10 (several callers, one package): the functions of the property are stateless
// package-level functions, so concurrent calls with different inputs are ordinary use.
//   - parallel-goroutines: props/c15/par in-process, 8 goroutines, every result compared with
//     the standard library (any wrong result is a concrete failing input);
//   - parallel-race-detector (thorough tier, or when the anchored source drifted): the same
//     workload built with `go build -race`; a DATA RACE report whose stacks name strz/hashz
//     frames, or a wrong result, is a failure.

import (
	"bytes"
	"crypto/sha256"
	"encoding/json"
	"fmt"
	"os"
	"os/exec"
	"path/filepath"
	"regexp"
	"strings"
	"time"

	"verifharness/internal/core"
	"verifharness/props/c15/par"
)

func mismatchFailure(m par.Mismatch, how string) core.ExtraFailure {
	return core.ExtraFailure{
		Failure: core.Failure{Key: "parallel-wrong-result", Desc: fmt.Sprintf("%s: %s called concurrently with other calls of the property's functions (different inputs, 8 goroutines) returned %s, the standard library gives %s (goroutine %d, round %d)", how, m.Func, m.Got, m.Want, m.Goroutine, m.Round)},
		Payload: map[string]any{"mismatch": m, "goroutines": 8, "how": how, "rerun": "go run ./props/c15/racer -goroutines 8 -rounds 400"},
	}
}

func parallelInProcess(ctx *core.Ctx) (int, string, []core.ExtraFailure) {
	rounds := 150
	if ctx.Tier == "thorough" {
		rounds = 1500
	}
	if ctx.Escalate > 1 {
		rounds *= 4
	}
	ms, calls := par.Run(8, rounds)
	var fails []core.ExtraFailure
	if len(ms) > 0 {
		fails = append(fails, mismatchFailure(ms[0], "in-process"))
	}
	return calls, fmt.Sprintf("%d calls of every strz/hashz function of the property from 8 goroutines with different inputs, each compared with the standard library", calls), fails
}

var c15Frame = regexp.MustCompile(`golib/(hashz|strz)\.([A-Za-z0-9_]+)`)

func parallelRace(ctx *core.Ctx) (int, string, []core.ExtraFailure) {
	if ctx.Tier != "thorough" && ctx.Escalate <= 1 {
		return 0, "skipped (quick tier, anchored source unchanged)", nil
	}
	goDir := filepath.Join(ctx.VerifDir, "go")
	bdir := filepath.Join(goDir, ".build")
	_ = os.MkdirAll(bdir, 0o755)
	h := sha256.Sum256([]byte(ctx.Repo))
	key := fmt.Sprintf("%x", h[:5])
	base, err := os.ReadFile(filepath.Join(goDir, "go.mod"))
	if err != nil {
		return 0, "go.mod unreadable: " + err.Error(), nil
	}
	modfile := filepath.Join(bdir, "c15racer-"+key+".mod")
	if err := os.WriteFile(modfile, []byte(strings.Replace(string(base), "=> /repo", "=> "+ctx.Repo, 1)), 0o644); err != nil {
		return 0, err.Error(), nil
	}
	if sum, err := os.ReadFile(filepath.Join(goDir, "go.sum")); err == nil {
		_ = os.WriteFile(filepath.Join(bdir, "c15racer-"+key+".sum"), sum, 0o644)
	}
	bin := filepath.Join(bdir, "c15racer-"+key)
	cmd := exec.Command("go", "build", "-race", "-modfile="+modfile, "-o", bin, "./props/c15/racer")
	cmd.Dir = goDir
	cmd.Env = append(os.Environ(), "GOFLAGS=-mod=mod", "GOPROXY=off", "GOSUMDB=off", "GOTOOLCHAIN=local", "CGO_ENABLED=1")
	if out, err := cmd.CombinedOutput(); err != nil {
		// an unusable race build is reported in the evidence, it is not a verdict about /repo
		s := string(out)
		if len(s) > 600 {
			s = s[:600]
		}
		return 0, fmt.Sprintf("race build unavailable (%v: %s)", err, s), nil
	}
	defer os.Remove(bin)
	run := exec.Command(bin, "-goroutines", "8", "-rounds", "60")
	run.Env = append(os.Environ(), "GORACE=halt_on_error=0 exitcode=0 history_size=2")
	var so, se bytes.Buffer
	run.Stdout, run.Stderr = &so, &se
	if err := run.Start(); err != nil {
		return 0, "racer did not start: " + err.Error(), nil
	}
	done := make(chan error, 1)
	go func() { done <- run.Wait() }()
	select {
	case <-done:
	case <-time.After(90 * time.Second):
		_ = run.Process.Kill()
		<-done
		return 0, "racer timed out (inconclusive)", nil
	}
	var fails []core.ExtraFailure
	calls := 0
	for _, l := range strings.Split(so.String(), "\n") {
		if strings.HasPrefix(l, "CALLS ") {
			fmt.Sscan(strings.TrimPrefix(l, "CALLS "), &calls)
		}
		if strings.HasPrefix(l, "MISMATCH ") && len(fails) == 0 {
			var m par.Mismatch
			if json.Unmarshal([]byte(strings.TrimPrefix(l, "MISMATCH ")), &m) == nil {
				fails = append(fails, mismatchFailure(m, "-race build"))
			}
		}
	}
	races, raceFiled := 0, false
	for _, rep := range strings.Split(se.String(), "==================") {
		if !strings.Contains(rep, "WARNING: DATA RACE") {
			continue
		}
		fr := c15Frame.FindAllStringSubmatch(rep, -1)
		if len(fr) == 0 {
			continue // a race inside the harness or the standard library only: not attributed
		}
		races++
		if !raceFiled {
			raceFiled = true
			names := map[string]bool{}
			var fl []string
			for _, f := range fr {
				n := f[1] + "." + f[2]
				if !names[n] {
					names[n] = true
					fl = append(fl, n)
				}
			}
			txt := strings.TrimSpace(rep)
			if len(txt) > 3000 {
				txt = txt[:3000] + " …"
			}
			fails = append(fails, core.ExtraFailure{
				Failure: core.Failure{Key: "parallel-data-race", Desc: fmt.Sprintf("the race detector reports a data race between concurrent calls of %s (stateless package-level functions called from 8 goroutines with different inputs)", strings.Join(fl, ", "))},
				Payload: map[string]any{"functions": fl, "race_report": txt, "rerun": "go build -race ./props/c15/racer && ./racer -goroutines 8 -rounds 60"},
			})
		}
	}
	return calls, fmt.Sprintf("-race build of the parallel workload: %d calls, %d race reports naming strz/hashz frames", calls, races), fails
}
