// Command racer runs the parallel C15 workload (props/c15/par); the C15 Extra
// "parallel-race-detector" builds it with `go build -race` against the tree under
// verification.  stdout: "CALLS n", one "MISMATCH {json}" per wrong result; the race
// detector reports go to stderr.
package main

import (
	"encoding/json"
	"flag"
	"fmt"

	"verifharness/props/c15/par"
)

func main() {
	g := flag.Int("goroutines", 8, "")
	r := flag.Int("rounds", 60, "")
	flag.Parse()
	ms, calls := par.Run(*g, *r)
	fmt.Println("CALLS", calls)
	for _, m := range ms {
		b, _ := json.Marshal(m)
		fmt.Println("MISMATCH", string(b))
	}
}
