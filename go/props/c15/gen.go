package c15

import (
	"crypto/hmac"
	"fmt"
	"math/big"
	"strings"

	"verifharness/internal/core"
)

var stdBits = []int{8, 16, 32, 64, 0}

func effBits(bits int) int {
	if bits == 0 {
		return 64
	}
	return bits
}

// boundaryValues returns the values around the two overflow tests of the digit loop
// for an effective base and bit size: maxVal-1, maxVal, maxVal+1, and around
// cutoff*base (the first product that leaves uint64).
func boundaryValues(base, bits int) []*big.Int {
	one := big.NewInt(1)
	b := big.NewInt(int64(base))
	maxVal := new(big.Int).Sub(new(big.Int).Lsh(one, uint(effBits(bits))), one)
	max64 := new(big.Int).Sub(new(big.Int).Lsh(one, 64), one)
	cutoff := new(big.Int).Add(new(big.Int).Div(max64, b), one)
	cb := new(big.Int).Mul(cutoff, b)
	add := func(x *big.Int, d int64) *big.Int { return new(big.Int).Add(x, big.NewInt(d)) }
	vs := []*big.Int{
		add(maxVal, -1), maxVal, add(maxVal, 1), add(maxVal, 2),
		add(cb, -1), cb, add(cb, 1),
		add(new(big.Int).Mul(add(cutoff, -1), b), int64(base-1)), // largest value whose last multiplication does not overflow
		add(cb, -int64(base)), add(cb, -int64(base)-1),
		max64, add(max64, 1), add(max64, 2),
		new(big.Int).Mul(maxVal, b), add(new(big.Int).Mul(maxVal, b), int64(base-1)),
		new(big.Int).Mul(add(maxVal, 1), b),
		new(big.Int).Lsh(one, 64+7), // wraps to a small number modulo 2^64
	}
	var out []*big.Int
	for _, v := range vs {
		if v.Sign() >= 0 {
			out = append(out, v)
		}
	}
	return out
}

func basePrefix(base int) string {
	switch base {
	case 2:
		return "0b"
	case 8:
		return "0o"
	case 16:
		return "0x"
	}
	return ""
}

func puLine(s string, base, bits int) string {
	return fmt.Sprintf("pu %s %d %d", hx([]byte(s)), base, bits)
}

func mixCase(tag string, ops ...string) core.Case {
	return core.Case{Lines: append([]string{"@ C15 mix"}, ops...), Tag: tag}
}

// ---- corpus: the boundary grid and the hex invalid-position grid

func corpus() []core.Case {
	var cs []core.Case
	// every base 2..36 × bit size {8,16,32,64,0} × boundary values
	for base := 2; base <= 36; base++ {
		var ops []string
		for _, bits := range stdBits {
			for _, v := range boundaryValues(base, bits) {
				ops = append(ops, puLine(v.Text(base), base, bits))
			}
		}
		cs = append(cs, mixCase("corpus-boundary", ops...))
	}
	// base 0 with every prefix form
	for _, base := range []int{2, 8, 10, 16} {
		var ops []string
		for _, bits := range stdBits {
			for _, v := range boundaryValues(base, bits) {
				txt := v.Text(base)
				ops = append(ops, puLine(basePrefix(base)+txt, 0, bits))
				if base == 8 {
					ops = append(ops, puLine("0"+txt, 0, bits))
				}
				if base != 10 {
					ops = append(ops, puLine(strings.ToUpper(basePrefix(base)+txt), 0, bits))
					ops = append(ops, puLine(basePrefix(base)+"_"+txt, 0, bits))
				}
				if len(txt) > 2 {
					ops = append(ops, puLine(basePrefix(base)+txt[:1]+"_"+txt[1:], 0, bits))
					ops = append(ops, puLine(basePrefix(base)+txt[:1]+"__"+txt[1:], 0, bits))
					ops = append(ops, puLine(basePrefix(base)+txt+"_", 0, bits))
				}
			}
		}
		cs = append(cs, mixCase("corpus-boundary0", ops...))
	}
	// every bit size 1..64 in bases 2, 10, 16, 36: maxVal-1, maxVal, maxVal+1
	for _, base := range []int{2, 10, 16, 36} {
		var ops []string
		for bits := 1; bits <= 64; bits++ {
			for _, v := range boundaryValues(base, bits)[:3] {
				ops = append(ops, puLine(v.Text(base), base, bits))
			}
		}
		cs = append(cs, mixCase("corpus-bits", ops...))
	}
	// invalid base / bit size, empty string, order of the checks
	{
		var ops []string
		for _, s := range []string{"", "1", "z", "_", "0x", "0x_", "0_", "0", "00", "0b", "0B1", "0o7", "0O8", "08", "0_7", "0x_f", "0X_F_", "1_000", "1__0", "_1", "1_", "+1", "-1", "0x1g", "1e3", " 1", "1 ", "\x001", "१", "0xG", "0b2", "0o8", "0_x1", "0x0_1", "1_2_3", "0b1_0", "0b_1_0", "0__1", "٠"} {
			for _, base := range []int{-1, 0, 1, 2, 10, 16, 36, 37} {
				for _, bits := range []int{-1, 0, 1, 8, 64, 65} {
					ops = append(ops, puLine(s, base, bits))
				}
			}
		}
		cs = append(cs, mixCase("corpus-grammar", ops...))
	}
	// long numerals: 63..300 leading zeros / underscore padding in front of boundary values
	// (more characters than any uint64 needs; the value is unchanged)
	{
		var ops []string
		for _, z := range []int{62, 63, 64, 65, 66, 100, 127, 128, 129, 255, 256, 257, 300} {
			zeros := strings.Repeat("0", z)
			for _, base := range []int{2, 8, 10, 16, 36} {
				for _, bits := range []int{8, 64, 0} {
					vs := boundaryValues(base, bits)
					for _, v := range vs[:4] {
						txt := v.Text(base)
						ops = append(ops, puLine(zeros+txt, base, bits))
						if pf := basePrefix(base); pf != "" || base == 10 {
							ops = append(ops, puLine(pf+zeros+txt, 0, bits))
							ops = append(ops, puLine(pf+strings.Repeat("0_", z/2)+txt, 0, bits))
							ops = append(ops, puLine(pf+"_"+zeros+"_"+txt, 0, bits))
						}
					}
				}
			}
			ops = append(ops, puLine(zeros, 10, 64), puLine(zeros, 0, 64), puLine("0x"+zeros, 0, 64), puLine(zeros+"_", 0, 64),
				puLine(strings.Repeat("1", z), 2, 64), puLine(strings.Repeat("z", z), 36, 64))
		}
		cs = append(cs, mixCase("corpus-long", ops...))
	}
	// every byte as a single digit in bases 2, 10, 11, 16, 35, 36 (digit classes, lower(), d >= base)
	{
		var ops []string
		for c := 0; c < 256; c++ {
			for _, base := range []int{2, 10, 11, 16, 35, 36, 0} {
				ops = append(ops, puLine(string([]byte{byte(c)}), base, 64))
				ops = append(ops, puLine(string([]byte{'1', byte(c)}), base, 64))
				if base == 0 {
					ops = append(ops, puLine(string([]byte{'0', byte(c), '1'}), 0, 64))
					ops = append(ops, puLine(string([]byte{'0', 'x', byte(c)}), 0, 64))
				}
			}
		}
		cs = append(cs, mixCase("corpus-bytes", ops...))
	}
	// small-scope exhaustive: every string of length 1..4 over an alphabet that contains the
	// prefix letters, digits at the class boundaries, underscore and signs, under base 0
	// (prefix / underscore grammar), and of length 1..3 under bases 2, 8, 10, 16
	{
		const alpha = "01789afxXob_B+"
		var ops []string
		var rec func(cur []byte, maxLen int, f func(string))
		rec = func(cur []byte, maxLen int, f func(string)) {
			if len(cur) > 0 {
				f(string(cur))
			}
			if len(cur) == maxLen {
				return
			}
			for i := 0; i < len(alpha); i++ {
				rec(append(cur, alpha[i]), maxLen, f)
			}
		}
		rec(nil, 4, func(s string) { ops = append(ops, puLine(s, 0, 64)) })
		rec(nil, 3, func(s string) {
			ops = append(ops, puLine(s, 0, 8), puLine(s, 2, 8), puLine(s, 8, 8), puLine(s, 10, 8), puLine(s, 16, 8))
		})
		const chunk = 4000
		for i := 0; i < len(ops); i += chunk {
			j := i + chunk
			if j > len(ops) {
				j = len(ops)
			}
			cs = append(cs, mixCase("corpus-smallscope", ops[i:j]...))
		}
	}
	// hex: an invalid character at every position of strings of length 0..9
	{
		var ops []string
		valid := "0123456789abcdefABCDEF"
		for n := 0; n <= 9; n++ {
			base := make([]byte, n)
			for i := range base {
				base[i] = valid[(i*7+n)%len(valid)]
			}
			ops = append(ops, "hd "+hx(base), "hdip "+hx(base), "he "+hx(base))
			for pos := 0; pos < n; pos++ {
				for _, bad := range []byte{'g', 'G', '/', ':', '@', '`', 0, 0x7f, 0x80, 0xa0, 0xad, 0xff, ' ', '\''} {
					b := clone(base)
					b[pos] = bad
					ops = append(ops, "hd "+hx(b), "hdip "+hx(b))
				}
				// two invalid characters: which one is reported
				for pos2 := pos + 1; pos2 < n; pos2++ {
					b := clone(base)
					b[pos], b[pos2] = 'x', 'y'
					ops = append(ops, "hd "+hx(b), "hdip "+hx(b))
				}
			}
		}
		cs = append(cs, mixCase("corpus-hex", ops...))
	}
	// every byte: encode, decode of a one/two character string
	{
		var ops []string
		for c := 0; c < 256; c++ {
			ops = append(ops, "he "+hx([]byte{byte(c)}), "hd "+hx([]byte{byte(c)}), "hd "+hx([]byte{'a', byte(c)}), "hd "+hx([]byte{byte(c), 'A'}))
		}
		cs = append(cs, mixCase("corpus-hexbytes", ops...))
	}
	// base64, three-way with the Lean codec model: every string of length ≤ 4 over an alphabet
	// with two letters, '=', newline, '-' (URL only), '+' (std only); a bad character at every
	// position of a 12-character valid string (the 8- and 4-character fast paths fall back to
	// decodeQuantum); every input length 0..9 with the bytes that hit sextets 62/63
	{
		var ops []string
		const alpha = "AQ=\n-+"
		var rec func(cur []byte)
		rec = func(cur []byte) {
			for _, n := range b64Names {
				ops = append(ops, b64dLine(n, cur))
			}
			if len(cur) == 4 {
				return
			}
			for i := 0; i < len(alpha); i++ {
				rec(append(append([]byte{}, cur...), alpha[i]))
			}
		}
		rec(nil)
		for _, n := range b64Names {
			valid := []byte(b64Encs[n].EncodeToString([]byte{0xfb, 0xff, 0xbf, 0x00, 0x10, 0x83, 0xfb, 0xef, 0xbe}))
			for pos := 0; pos <= len(valid); pos++ {
				for _, bad := range []byte{'=', '\n', '\r', '-', '+', '_', '/', '!', 0, 0x80, 0xff} {
					if pos < len(valid) {
						b := clone(valid)
						b[pos] = bad
						ops = append(ops, b64dLine(n, b))
					}
					b := append(append(clone(valid[:pos]), bad), valid[pos:]...)
					ops = append(ops, b64dLine(n, b))
				}
				ops = append(ops, b64dLine(n, valid[:pos]))
			}
			for l := 0; l <= 9; l++ {
				in := make([]byte, l)
				for i := range in {
					in[i] = []byte{0xfb, 0xff, 0xbf, 0x3e, 0x3f, 0x00}[(i+l)%6]
				}
				ops = append(ops, b64eLine(n, in), b64dLine(n, []byte(b64Encs[n].EncodeToString(in))))
			}
		}
		const chunk = 4000
		for i := 0; i < len(ops); i += chunk {
			j := i + chunk
			if j > len(ops) {
				j = len(ops)
			}
			cs = append(cs, mixCase("corpus-base64", ops[i:j]...))
		}
	}
	// IPv4
	{
		var ops []string
		for _, x := range []uint32{0, 1, 9, 10, 99, 100, 255, 256, 1<<16 - 1, 1 << 16, 1 << 24, 1<<24 - 1, 1<<31 - 1, 1 << 31, 1<<32 - 1, 0x7f000001, 0xc0a80001, 0x0a000064, 0x01020304} {
			ops = append(ops, fmt.Sprintf("l2ip %d", x), fmt.Sprintf("iprt %d", x))
		}
		for _, s := range []string{"", ".", "1", "1.2", "1.2.3", "1.2.3.4", "1.2.3.4.5", "255.255.255.255", "256.0.0.0", "0.0.0.256", "1..2", ".1.2.3", "1.2.3.", "+1.2.3.4", "-1.0.0.0", "0.0.0.-1", "01.02.03.04", "1_0.0.0.0", "0x1.0.0.0", " 1.2.3.4", "a.b.c.d", "2147483647.0.0.0", "2147483648.0.0.1", "-2147483648.0", "-2147483649.0", "99999999999999999999.1", "-99999999999999999999.1", "4294967295", "1.2.3.4294967295"} {
			ops = append(ops, "ip2l "+hx([]byte(s)))
		}
		cs = append(cs, mixCase("corpus-ip", ops...))
	}
	// digests, HMAC, base64 on the empty input and one block boundary
	{
		var ops []string
		for _, in := range [][]byte{{}, []byte("a"), []byte("abc"), make([]byte, 55), make([]byte, 56), make([]byte, 64), make([]byte, 111), make([]byte, 112), make([]byte, 128), make([]byte, 129)} {
			for i := range digestAlgos {
				ops = append(ops, dgLine(&digestAlgos[i], in))
			}
			for _, n := range hmacNames {
				ops = append(ops, hmLine(n, in, []byte("data")), hmLine(n, []byte("key"), in))
			}
			for _, n := range b64Names {
				ops = append(ops, b64eLine(n, in), b64dLine(n, []byte(b64Encs[n].EncodeToString(in))))
			}
		}
		for i := range digestAlgos {
			if digestAlgos[i].stream == nil {
				continue
			}
			// hidden input: pre-advanced seekable readers over 0, 1, 2, 3, 64, 65, 200 and 5000 bytes
			for _, n := range []int{0, 1, 2, 3, 64, 65, 200, 5000} {
				ops = append(ops, dgsLine(&digestAlgos[i], bigInput(n, n+i)))
			}
			// history: every failure mode × leftovers of 0, 1, 5, 64, 200 bytes, then same and other helpers
			for _, mode := range failModes {
				for _, k := range []int{0, 1, 5, 64, 200} {
					ops = append(ops, dghLine(&digestAlgos[i], mode, k, []byte("abc")))
				}
				ops = append(ops, dgLine(&digestAlgos[i], []byte("abc")), dgLine(&digestAlgos[(i+1)%6], []byte{}))
			}
			for _, n := range []int{4095, 4096, 4097, 8192, 32767, 32768, 32769} {
				ops = append(ops, dgzLine(&digestAlgos[i], n, n+i))
			}
		}
		for _, s := range []string{"=", "A", "AA", "AAA", "AAAA", "AA==", "AA=", "AAA=", "A===", "AA==A", "AA\n==", "A A A A", "AAAA\r\n", "-_-_", "+/+/", "AAAAA", "AB==", "AAB="} {
			for _, n := range b64Names {
				ops = append(ops, b64dLine(n, []byte(s)))
			}
		}
		cs = append(cs, mixCase("corpus-digest", ops...))
	}
	return cs
}

func dgLine(a *digestAlgo, in []byte) string {
	return fmt.Sprintf("dg %s %s %s", a.name, hx(in), hx(a.sum(in)))
}

func dghLine(a *digestAlgo, mode string, k int, in []byte) string {
	return fmt.Sprintf("dgh %s %s %d %s %s", a.name, mode, k, hx(in), hx(a.sum(in)))
}

func dgsLine(a *digestAlgo, in []byte) string {
	parts := []string{"dgs", a.name, hx(in)}
	for _, k := range seekAdvances(len(in)) {
		parts = append(parts, hx(a.sum(in[k:])))
	}
	return strings.Join(parts, " ")
}

func dgzLine(a *digestAlgo, n, seed int) string {
	return fmt.Sprintf("dgz %s %d %d %s", a.name, n, seed, hx(a.sum(bigInput(n, seed))))
}

// streamSizes: around the buffer sizes a hand-written read loop is likely to use
// (512, 1024, 4096, 8192, 32768 = io.Copy's, 65536) and the hash block sizes.
var streamSizes = []int{0, 1, 63, 64, 65, 127, 128, 129, 511, 512, 513, 1023, 1024, 1025, 4095, 4096, 4097, 8191, 8192, 8193, 12288, 32767, 32768, 32769, 65535, 65536, 65537}

func hmLine(name string, key, data []byte) string {
	h := hmac.New(hmacAlgos[name], key)
	h.Write(data)
	return fmt.Sprintf("hm %s %s %s %s", name, hx(key), hx(data), hx(h.Sum(nil)))
}

func b64eLine(name string, in []byte) string {
	return fmt.Sprintf("b64e %s %s %s", name, hx(in), hx([]byte(b64Encs[name].EncodeToString(in))))
}

func b64dLine(name string, in []byte) string {
	enc := b64Encs[name]
	dst := make([]byte, enc.DecodedLen(len(in)))
	n, err := enc.Decode(dst, in)
	return fmt.Sprintf("b64d %s %s %s %s", name, hx(in), hx(dst[:n]), errText(err))
}

// ---- generators

const digitChars = "0123456789abcdefghijklmnopqrstuvwxyz"

func randCase(r *core.Rand, s string) string {
	b := []byte(s)
	mode := r.Intn(3)
	for i, c := range b {
		if 'a' <= c && c <= 'z' && (mode == 1 || (mode == 2 && r.Bool())) {
			b[i] = c - 32
		}
	}
	return string(b)
}

// near-miss characters around the digit classes and a few arbitrary bytes
var oddChars = []byte{'/', ':', '@', '[', '`', '{', '_', '+', '-', ' ', '.', 0, 0x10, 0x7f, 0x80, 0xc1, 0xe1, 0xff, '\n'}

func genNumeral(r *core.Rand) (string, int, int) {
	// base
	var base int
	switch r.Pick(50, 30, 8, 4, 8) {
	case 0:
		base = r.Range(2, 36)
	case 1:
		base = 0
	case 2:
		base = []int{2, 8, 10, 16, 36}[r.Intn(5)]
	case 3:
		base = []int{-1, 1, 37}[r.Intn(3)]
	default:
		base = r.Range(-1, 37)
	}
	// bit size
	var bits int
	switch r.Pick(60, 25, 5, 10) {
	case 0:
		bits = stdBits[r.Intn(len(stdBits))]
	case 1:
		bits = r.Range(1, 64)
	case 2:
		bits = []int{-1, 65}[r.Intn(2)]
	default:
		bits = r.Range(-1, 65)
	}
	eb := base // effective base of the digits
	prefix := ""
	if base == 0 {
		eb = []int{10, 16, 8, 2, 8}[r.Intn(5)]
		prefix = basePrefix(eb)
		if eb == 8 && r.Bool() {
			prefix = "0"
		}
	}
	if eb < 2 || eb > 36 {
		eb = 10
	}
	vb := bits
	if vb < 1 || vb > 64 {
		vb = 64
	}
	var digits string
	switch r.Pick(28, 34, 30, 8) {
	case 0: // a boundary value, possibly nudged
		vs := boundaryValues(eb, vb)
		v := new(big.Int).Set(vs[r.Intn(len(vs))])
		if r.Chance(30) {
			v.Add(v, big.NewInt(int64(r.Range(-3, 3))))
			if v.Sign() < 0 {
				v.SetInt64(0)
			}
		}
		digits = v.Text(eb)
	case 1: // random value below 2^k
		k := r.Range(0, vb+2) // up to a little above the bit size
		v := new(big.Int).SetUint64(r.Uint64())
		v.Lsh(v, 8)
		v.Add(v, big.NewInt(int64(r.Intn(256))))
		v.Rsh(v, uint(72-k))
		digits = v.Text(eb)
	case 2: // random digit string (length around the maximal width)
		n := r.Range(1, 70)
		if r.Chance(85) {
			// around the number of digits maxVal has in this base
			w := len(new(big.Int).Sub(new(big.Int).Lsh(big.NewInt(1), uint(vb)), big.NewInt(1)).Text(eb))
			n = r.Range(1, w+1)
		}
		b := make([]byte, n)
		for i := range b {
			b[i] = digitChars[r.Intn(eb)]
		}
		digits = string(b)
	default: // maximal digit repeated: overflows exactly when long enough
		digits = strings.Repeat(string(digitChars[eb-1]), r.Range(1, 66))
	}
	if r.Chance(15) {
		digits = strings.Repeat("0", r.Range(1, 70)) + digits
	} else if r.Chance(6) {
		// magnitude stream: 65..300 characters of padding that do not change the value
		z := r.Range(65, 300)
		if base == 0 && r.Bool() {
			digits = strings.Repeat("0_", z/2) + digits
		} else {
			digits = strings.Repeat("0", z) + digits
		}
	}
	digits = randCase(r, digits)
	if r.Chance(50) {
		prefix = randCase(r, prefix)
	}
	s := prefix + digits
	// underscores: legal places (between digits / after prefix) or anywhere
	if base == 0 && r.Chance(45) || base != 0 && r.Chance(4) {
		b := []byte(s)
		k := r.Range(1, 3)
		for ; k > 0; k-- {
			var pos int
			if r.Chance(70) && len(b) > len(prefix)+1 {
				pos = r.Range(len(prefix)+1, len(b)-1) // between two characters of the body
				if r.Chance(20) {
					pos = len(prefix)
				}
			} else {
				pos = r.Range(0, len(b))
			}
			b = append(b[:pos], append([]byte{'_'}, b[pos:]...)...)
		}
		s = string(b)
	}
	// malformed stream: a foreign character somewhere, a digit of a larger base, a sign
	if r.Chance(18) {
		b := []byte(s)
		pos := r.Range(0, len(b))
		var c byte
		switch r.Intn(4) {
		case 0:
			c = oddChars[r.Intn(len(oddChars))]
		case 1:
			c = digitChars[r.Range(eb-1, 35)] // the first invalid digit, or a larger one
			if r.Bool() && c >= 'a' {
				c -= 32
			}
		case 2:
			c = byte(r.Intn(256))
		default:
			c = "+-"[r.Intn(2)]
			if r.Chance(70) {
				pos = 0
			}
		}
		if r.Bool() && pos < len(b) {
			b[pos] = c
		} else {
			b = append(b[:pos], append([]byte{c}, b[pos:]...)...)
		}
		s = string(b)
	}
	if r.Chance(2) {
		s = ""
	}
	return s, base, bits
}

func genHex(r *core.Rand) []byte {
	n := r.Range(0, 24)
	if r.Chance(10) {
		n = r.Range(25, 80)
	}
	b := make([]byte, n)
	const v = "0123456789abcdefABCDEF"
	for i := range b {
		b[i] = v[r.Intn(len(v))]
	}
	switch r.Pick(50, 35, 10, 5) {
	case 1:
		if n > 0 {
			b[r.Intn(n)] = badHexChar(r)
		}
	case 2:
		for k := 0; k < 2 && n > 0; k++ {
			b[r.Intn(n)] = badHexChar(r)
		}
	case 3:
		b = r.Bytes(n)
	}
	return b
}

func badHexChar(r *core.Rand) byte {
	near := []byte{'/', ':', '@', 'G', '`', 'g', 'x', 0, ' ', 0x7f, 0x80, 0x9f, 0xa0, 0xa1, 0xad, 0xff, '\'', '\\'}
	if r.Chance(70) {
		return near[r.Intn(len(near))]
	}
	for {
		c := byte(r.Intn(256))
		if !strings.ContainsRune("0123456789abcdefABCDEF", rune(c)) {
			return c
		}
	}
}

func genIP(r *core.Rand) string {
	n := 4
	if r.Chance(15) {
		n = r.Range(0, 6)
	}
	var parts []string
	for i := 0; i < n; i++ {
		switch r.Pick(70, 8, 6, 6, 5, 5) {
		case 0:
			parts = append(parts, fmt.Sprint(r.Intn(256)))
		case 1:
			parts = append(parts, fmt.Sprint(r.Range(256, 70000)))
		case 2:
			parts = append(parts, "")
		case 3:
			parts = append(parts, []string{"+", "-"}[r.Intn(2)]+fmt.Sprint(r.Intn(300)))
		case 4:
			parts = append(parts, fmt.Sprint([]uint64{1<<31 - 1, 1 << 31, 1<<31 + 1, 1<<32 - 1, 1 << 32, 1<<63 - 1, 1 << 63, 1<<64 - 1}[r.Intn(8)]))
		default:
			s, _, _ := genNumeral(r)
			parts = append(parts, s)
		}
	}
	return strings.Join(parts, ".")
}

func genBytes(r *core.Rand) []byte {
	switch r.Pick(50, 30, 20) {
	case 0:
		return r.Bytes(r.Range(0, 20))
	case 1:
		return r.Bytes(r.Range(50, 140)) // around the 64/128-byte block boundaries
	default:
		return []byte(strings.Repeat("a", r.Range(0, 70)))
	}
}

func genOp(r *core.Rand) string {
	switch r.Pick(52, 6, 14, 8, 3, 5, 3, 3, 2, 2, 2) {
	case 0:
		s, base, bits := genNumeral(r)
		return puLine(s, base, bits)
	case 1:
		return "he " + hx(genBytes(r))
	case 2:
		return "hd " + hx(genHex(r))
	case 3:
		return "hdip " + hx(genHex(r))
	case 4:
		return fmt.Sprintf("l2ip %d", ipVal(r))
	case 5:
		return "ip2l " + hx([]byte(genIP(r)))
	case 6:
		return fmt.Sprintf("iprt %d", ipVal(r))
	case 7:
		if r.Chance(8) {
			// hidden input: pre-advanced seekable readers
			in := genBytes(r)
			if r.Chance(20) {
				in = bigInput([]int{511, 512, 513, 4095, 4096, 4097}[r.Intn(6)], r.Intn(100))
			}
			return dgsLine(&digestAlgos[r.Intn(6)], in)
		}
		if r.Chance(15) {
			// history stream: failing call, then valid calls
			k := []int{0, 1, 2, 3, 55, 56, 63, 64, 65, 127, 128, 129, 4095, 4096, 4097}[r.Intn(15)]
			if r.Chance(30) {
				k = r.Range(0, 200)
			}
			return dghLine(&digestAlgos[r.Intn(6)], failModes[r.Intn(len(failModes))], k, genBytes(r))
		}
		if r.Chance(25) {
			// large stream: sizes around the plausible buffer sizes, ±2
			n := streamSizes[r.Intn(len(streamSizes))] + r.Range(-2, 2)
			if n < 0 {
				n = 0
			}
			if n > 8200 && !r.Chance(30) {
				n = 4096 + r.Range(-2, 2)
			}
			return dgzLine(&digestAlgos[r.Intn(6)], n, r.Intn(1000))
		}
		return dgLine(&digestAlgos[r.Intn(len(digestAlgos))], genBytes(r))
	case 8:
		return hmLine(hmacNames[r.Intn(len(hmacNames))], genBytes(r), genBytes(r))
	case 9:
		return b64eLine(b64Names[r.Intn(len(b64Names))], genBytes(r))
	default:
		n := b64Names[r.Intn(len(b64Names))]
		in := []byte(b64Encs[n].EncodeToString(genBytes(r)))
		if r.Chance(50) && len(in) > 0 {
			switch r.Intn(4) {
			case 0:
				in[r.Intn(len(in))] = "=-_+/ \n\r!"[r.Intn(9)]
			case 1:
				in = in[:r.Intn(len(in))]
			case 2:
				in = append(in, "=A\n"[r.Intn(3)])
			default:
				p := r.Intn(len(in))
				in = append(in[:p], append([]byte{'\n'}, in[p:]...)...)
			}
		}
		return b64dLine(n, in)
	}
}

func ipVal(r *core.Rand) uint32 {
	if r.Chance(30) {
		// bytes near the decimal width changes 9/10, 99/100, 255
		e := []uint32{0, 1, 9, 10, 11, 99, 100, 101, 199, 200, 254, 255}
		return e[r.Intn(len(e))]<<24 | e[r.Intn(len(e))]<<16 | e[r.Intn(len(e))]<<8 | e[r.Intn(len(e))]
	}
	return uint32(r.Uint64())
}

func gen(r *core.Rand, tier string) core.Case {
	n := r.Range(1, 8)
	ops := make([]string, 0, n)
	for i := 0; i < n; i++ {
		ops = append(ops, genOp(r))
	}
	return mixCase("mix", ops...)
}
