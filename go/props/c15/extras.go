package c15

import (
	"bytes"
	"encoding/hex"
	"fmt"
	"math/big"
	"runtime"
	"strconv"
	"sync"

	"github.com/welllog/golib/strz"

	"verifharness/internal/core"
)

func extras() []core.Extra {
	return []core.Extra{
		{Name: "parseuint-boundary-grid", Run: boundaryGrid},
		{Name: "parseuint-smallscope-exhaustive", Run: puSmallScope},
		{Name: "hex-smallscope-exhaustive", Run: hexSmallScope},
		{Name: "ipv4-roundtrip-sample", Run: ipSample, Tiers: []string{"quick"}},
		{Name: "ipv4-roundtrip-all-2^32", Run: ipAll, Tiers: []string{"thorough"}},
		{Name: "parallel-goroutines", Run: parallelInProcess},
		{Name: "parallel-race-detector", Run: parallelRace},
	}
}

// boundaryGrid compares strz.ParseUint with strconv.ParseUint (value and error class; string
// and []byte instantiation) for every base -1..37 × bit size -1..65 × the overflow boundary values.
func boundaryGrid(ctx *core.Ctx) (int, string, []core.ExtraFailure) {
	evals := 0
	var fails []core.ExtraFailure
	for base := -1; base <= 37; base++ {
		for bits := -1; bits <= 65; bits++ {
			eb, vb := base, bits
			if eb < 2 || eb > 36 {
				eb = 10
			}
			if vb < 1 || vb > 64 {
				vb = 64
			}
			var texts []string
			for _, v := range boundaryValues(eb, vb) {
				texts = append(texts, v.Text(eb))
				if base == 0 {
					for _, pb := range []int{2, 8, 16} {
						texts = append(texts, basePrefix(pb)+v.Text(pb), basePrefix(pb)+"_"+v.Text(pb))
					}
					texts = append(texts, "0"+v.Text(8))
				}
			}
			_ = big.NewInt
			for _, s := range texts {
				evals++
				wv, werr := strconv.ParseUint(s, base, bits)
				v1, e1 := strz.ParseUint(s, base, bits)
				v2, e2 := strz.ParseUint([]byte(s), base, bits)
				wc := stdClass(werr, base, bits)
				if v1 != wv || v2 != wv || puClass(e1, base, bits) != wc || puClass(e2, base, bits) != wc {
					if len(fails) == 0 {
						fails = append(fails, core.ExtraFailure{
							Failure: core.Failure{Key: "parseuint-value", Desc: fmt.Sprintf("ParseUint(%q, %d, %d): string=(%d,%v) []byte=(%d,%v), strconv.ParseUint=(%d,%v)", s, base, bits, v1, e1, v2, e2, wv, werr)},
							Payload: map[string]any{"lines": []string{"@ C15 mix", puLine(s, base, bits)}},
						})
					}
				}
			}
		}
	}
	return evals, fmt.Sprintf("%d boundary numerals over bases -1..37 × bit sizes -1..65 compared with strconv.ParseUint", evals), fails
}

func ipRange(lo, hi, step uint64) (bad uint64, found bool) {
	for x := lo; x < hi; x += step {
		if strz.IPv4ToLong(strz.LongToIPv4(uint32(x))) != uint32(x) {
			return x, true
		}
	}
	return 0, false
}

func ipFailure(x uint64) core.ExtraFailure {
	return core.ExtraFailure{
		Failure: core.Failure{Key: "ipv4-roundtrip", Desc: fmt.Sprintf("IPv4ToLong(LongToIPv4(%d)) = %d (text %q)", x, strz.IPv4ToLong(strz.LongToIPv4(uint32(x))), strz.LongToIPv4(uint32(x)))},
		Payload: map[string]any{"lines": []string{"@ C15 mix", fmt.Sprintf("iprt %d", x)}},
	}
}

// ipSample: every 4099th address plus all addresses whose four bytes are drawn from the
// decimal-width boundary set.
func ipSample(ctx *core.Ctx) (int, string, []core.ExtraFailure) {
	evals := 0
	var fails []core.ExtraFailure
	if x, bad := ipRange(0, 1<<32, 4099); bad {
		fails = append(fails, ipFailure(x))
	}
	evals += (1 << 32) / 4099
	e := []uint64{0, 1, 9, 10, 11, 99, 100, 101, 199, 200, 254, 255}
	for _, a := range e {
		for _, b := range e {
			for _, c := range e {
				for _, d := range e {
					x := a<<24 | b<<16 | c<<8 | d
					evals++
					if _, bad := ipRange(x, x+1, 1); bad && len(fails) == 0 {
						fails = append(fails, ipFailure(x))
					}
				}
			}
		}
	}
	return evals, fmt.Sprintf("%d addresses (stride 4099 + 12^4 boundary bytes) round-trip", evals), fails
}

// ipAll: all 2^32 addresses, split across the cores.
func ipAll(ctx *core.Ctx) (int, string, []core.ExtraFailure) {
	nw := runtime.NumCPU()
	const chunk = 1 << 22
	jobs := make(chan uint64, 1<<10)
	var mu sync.Mutex
	var fails []core.ExtraFailure
	var wg sync.WaitGroup
	for w := 0; w < nw; w++ {
		wg.Add(1)
		go func() {
			defer wg.Done()
			for lo := range jobs {
				if x, bad := ipRange(lo, lo+chunk, 1); bad {
					mu.Lock()
					if len(fails) == 0 {
						fails = append(fails, ipFailure(x))
					}
					mu.Unlock()
				}
			}
		}()
	}
	for lo := uint64(0); lo < 1<<32; lo += chunk {
		jobs <- lo
	}
	close(jobs)
	wg.Wait()
	return 1 << 32, fmt.Sprintf("all 2^32 addresses round-trip on %d workers", nw), fails
}

// enumerate calls f for every string of length 1..maxLen over alpha whose first
// character is alpha[first] (the work is split by first character).
func enumerate(alpha string, first, maxLen int, f func([]byte)) {
	cur := make([]byte, 0, maxLen)
	var rec func()
	rec = func() {
		f(cur)
		if len(cur) == maxLen {
			return
		}
		for i := 0; i < len(alpha); i++ {
			cur = append(cur, alpha[i])
			rec()
			cur = cur[:len(cur)-1]
		}
	}
	cur = append(cur, alpha[first])
	rec()
}

// parallelFirst runs work(first) for every first character on all cores and collects
// the evaluation counts and the first failure.
func parallelFirst(n int, work func(first int) (int, *core.ExtraFailure)) (int, []core.ExtraFailure) {
	var mu sync.Mutex
	var wg sync.WaitGroup
	evals := 0
	var fails []core.ExtraFailure
	sem := make(chan struct{}, runtime.NumCPU())
	for i := 0; i < n; i++ {
		wg.Add(1)
		sem <- struct{}{}
		go func(i int) {
			defer wg.Done()
			defer func() { <-sem }()
			e, f := work(i)
			mu.Lock()
			evals += e
			if f != nil && len(fails) == 0 {
				fails = append(fails, *f)
			}
			mu.Unlock()
		}(i)
	}
	wg.Wait()
	return evals, fails
}

// puSmallScope: every string of length ≤ 5 (quick) / ≤ 6 (thorough) over an alphabet holding
// the prefix letters, boundary digits, underscore and a sign, × bases {0,2,8,10,16,36} ×
// bit sizes {0,8,64}: strz.ParseUint (string and []byte) vs strconv.ParseUint.
func puSmallScope(ctx *core.Ctx) (int, string, []core.ExtraFailure) {
	const alpha = "01789afzxXob_B+"
	maxLen := 5
	if ctx.Tier == "thorough" {
		maxLen = 6
	}
	bases := []int{0, 2, 8, 10, 16, 36}
	bitss := []int{0, 8, 64}
	evals, fails := parallelFirst(len(alpha), func(first int) (int, *core.ExtraFailure) {
		n := 0
		var fail *core.ExtraFailure
		enumerate(alpha, first, maxLen, func(b []byte) {
			s := string(b)
			for _, base := range bases {
				for _, bits := range bitss {
					n++
					wv, werr := strconv.ParseUint(s, base, bits)
					v1, e1 := strz.ParseUint(s, base, bits)
					v2, e2 := strz.ParseUint(b, base, bits)
					wc := stdClass(werr, base, bits)
					if fail == nil && (v1 != wv || v2 != wv || puClass(e1, base, bits) != wc || puClass(e2, base, bits) != wc) {
						fail = &core.ExtraFailure{
							Failure: core.Failure{Key: "parseuint-value", Desc: fmt.Sprintf("ParseUint(%q, %d, %d): string=(%d,%v) []byte=(%d,%v), strconv.ParseUint=(%d,%v)", s, base, bits, v1, e1, v2, e2, wv, werr)},
							Payload: map[string]any{"lines": []string{"@ C15 mix", puLine(s, base, bits)}},
						}
					}
				}
			}
		})
		return n, fail
	})
	return evals, fmt.Sprintf("%d calls: all strings of length ≤ %d over %q × bases %v × bit sizes %v agree with strconv.ParseUint", evals, maxLen, alpha, bases, bitss), fails
}

// hexSmallScope: every string of length ≤ 5 (quick) / ≤ 6 (thorough) over an alphabet of hex
// digits at the class boundaries and their neighbours: HexDecode (string, []byte) and
// HexDecodeInPlace vs encoding/hex (decoded prefix, error text, buffer after).
func hexSmallScope(ctx *core.Ctx) (int, string, []core.ExtraFailure) {
	const alpha = "09afAF/:@G`g\x80"
	maxLen := 5
	if ctx.Tier == "thorough" {
		maxLen = 6
	}
	evals, fails := parallelFirst(len(alpha), func(first int) (int, *core.ExtraFailure) {
		n := 0
		var fail *core.ExtraFailure
		dst := make([]byte, maxLen)
		enumerate(alpha, first, maxLen, func(b []byte) {
			n++
			wn, werr := hex.Decode(dst, b)
			want := dst[:wn]
			o1, e1 := strz.HexDecode(string(b))
			o2, e2 := strz.HexDecode(b)
			buf := append([]byte{}, b...)
			n3, e3 := strz.HexDecodeInPlace(buf)
			after := append(append([]byte{}, want...), b[wn:]...)
			ok := bytes.Equal(o1, want) && bytes.Equal(o2, want) && errText(e1) == errText(werr) && errText(e2) == errText(werr) &&
				n3 == wn && errText(e3) == errText(werr) && bytes.Equal(buf, after)
			if !ok && fail == nil {
				fail = &core.ExtraFailure{
					Failure: core.Failure{Key: "hexdecode", Desc: fmt.Sprintf("HexDecode(%q): string=(%q,%v) []byte=(%q,%v) in-place=(%d,%v,%q), encoding/hex=(%q,%v)", b, o1, e1, o2, e2, n3, e3, buf, want, werr)},
					Payload: map[string]any{"lines": []string{"@ C15 mix", "hd " + hx(b), "hdip " + hx(b)}},
				}
			}
		})
		return n, fail
	})
	return evals, fmt.Sprintf("%d strings: all of length ≤ %d over %q agree with encoding/hex (HexDecode string/[]byte, HexDecodeInPlace)", evals, maxLen, alpha), fails
}
