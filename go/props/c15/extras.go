package c15

import (
	"fmt"
	"math/big"
	"runtime"
	"strconv"
	"sync"

	"github.com/welllog/golib/strz"

	"verifharness/internal/core"
)

func extras() []core.Extra {
	return []core.Extra{
		{Name: "parseuint-boundary-grid", Run: boundaryGrid},
		{Name: "ipv4-roundtrip-sample", Run: ipSample, Tiers: []string{"quick"}},
		{Name: "ipv4-roundtrip-all-2^32", Run: ipAll, Tiers: []string{"thorough"}},
	}
}

// boundaryGrid compares strz.ParseUint with strconv.ParseUint (string and []byte
// instantiation) for every base -1..37 × bit size -1..65 × the overflow boundary values.
func boundaryGrid(ctx *core.Ctx) (int, string, []core.ExtraFailure) {
	evals := 0
	var fails []core.ExtraFailure
	for base := -1; base <= 37; base++ {
		for bits := -1; bits <= 65; bits++ {
			eb, vb := base, bits
			if eb < 2 || eb > 36 {
				eb = 10
			}
			if vb < 1 || vb > 64 {
				vb = 64
			}
			var texts []string
			for _, v := range boundaryValues(eb, vb) {
				texts = append(texts, v.Text(eb))
				if base == 0 {
					for _, pb := range []int{2, 8, 16} {
						texts = append(texts, basePrefix(pb)+v.Text(pb), basePrefix(pb)+"_"+v.Text(pb))
					}
					texts = append(texts, "0"+v.Text(8))
				}
			}
			_ = big.NewInt
			for _, s := range texts {
				evals++
				wv, werr := strconv.ParseUint(s, base, bits)
				v1, e1 := strz.ParseUint(s, base, bits)
				v2, e2 := strz.ParseUint([]byte(s), base, bits)
				if v1 != wv || v2 != wv || (e1 != nil) != (werr != nil) || (e2 != nil) != (werr != nil) {
					if len(fails) == 0 {
						fails = append(fails, core.ExtraFailure{
							Failure: core.Failure{Key: "parseuint-value", Desc: fmt.Sprintf("ParseUint(%q, %d, %d): string=(%d,%v) []byte=(%d,%v), strconv.ParseUint=(%d,%v)", s, base, bits, v1, e1, v2, e2, wv, werr)},
							Payload: map[string]any{"lines": []string{"@ C15 mix", puLine(s, base, bits)}},
						})
					}
				}
			}
		}
	}
	return evals, fmt.Sprintf("%d boundary numerals over bases -1..37 × bit sizes -1..65 compared with strconv.ParseUint", evals), fails
}

func ipRange(lo, hi, step uint64) (bad uint64, found bool) {
	for x := lo; x < hi; x += step {
		if strz.IPv4ToLong(strz.LongToIPv4(uint32(x))) != uint32(x) {
			return x, true
		}
	}
	return 0, false
}

func ipFailure(x uint64) core.ExtraFailure {
	return core.ExtraFailure{
		Failure: core.Failure{Key: "ipv4-roundtrip", Desc: fmt.Sprintf("IPv4ToLong(LongToIPv4(%d)) = %d (text %q)", x, strz.IPv4ToLong(strz.LongToIPv4(uint32(x))), strz.LongToIPv4(uint32(x)))},
		Payload: map[string]any{"lines": []string{"@ C15 mix", fmt.Sprintf("iprt %d", x)}},
	}
}

// ipSample: every 4099th address plus all addresses whose four bytes are drawn from the
// decimal-width boundary set.
func ipSample(ctx *core.Ctx) (int, string, []core.ExtraFailure) {
	evals := 0
	var fails []core.ExtraFailure
	if x, bad := ipRange(0, 1<<32, 4099); bad {
		fails = append(fails, ipFailure(x))
	}
	evals += (1 << 32) / 4099
	e := []uint64{0, 1, 9, 10, 11, 99, 100, 101, 199, 200, 254, 255}
	for _, a := range e {
		for _, b := range e {
			for _, c := range e {
				for _, d := range e {
					x := a<<24 | b<<16 | c<<8 | d
					evals++
					if _, bad := ipRange(x, x+1, 1); bad && len(fails) == 0 {
						fails = append(fails, ipFailure(x))
					}
				}
			}
		}
	}
	return evals, fmt.Sprintf("%d addresses (stride 4099 + 12^4 boundary bytes) round-trip", evals), fails
}

// ipAll: all 2^32 addresses, split across the cores.
func ipAll(ctx *core.Ctx) (int, string, []core.ExtraFailure) {
	nw := runtime.NumCPU()
	const chunk = 1 << 22
	jobs := make(chan uint64, 1<<10)
	var mu sync.Mutex
	var fails []core.ExtraFailure
	var wg sync.WaitGroup
	for w := 0; w < nw; w++ {
		wg.Add(1)
		go func() {
			defer wg.Done()
			for lo := range jobs {
				if x, bad := ipRange(lo, lo+chunk, 1); bad {
					mu.Lock()
					if len(fails) == 0 {
						fails = append(fails, ipFailure(x))
					}
					mu.Unlock()
				}
			}
		}()
	}
	for lo := uint64(0); lo < 1<<32; lo += chunk {
		jobs <- lo
	}
	close(jobs)
	wg.Wait()
	return 1 << 32, fmt.Sprintf("all 2^32 addresses round-trip on %d workers", nw), fails
}
