// Package c15: re-implemented standard routines agree with the Go standard library
// (strz/std_strconv.go, strz/std_hex.go, strz/enc.go, strz/unsafe_new.go, hashz/hash.go).
//
// Three-way comparison on every case: the Lean model (oracle executable, diffed by
// core) vs the real strz/hashz code (Impl) vs the Go standard library (Check).
//
// Line format (header "@ C15 mix", every op line is stateless; bytes travel as hex, "-" = empty):
//
//	pu <s> <base> <bits>            ParseUint            -> s=<v>,<cls> b=<v>,<cls> mod=<bool>
//	he <s>                          HexEncode            -> s=<out> b=<out> ts=<out> tss=<out> mod=<bool>
//	hd <s>                          HexDecode            -> s=<out>,<errtext|ok> b=… ts=… tss=… mod=<bool>
//	hdip <s>                        HexDecodeInPlace     -> n=<n> err=<errtext|ok> buf=<buffer after>
//	l2ip <x> / ip2l <s> / iprt <x>  LongToIPv4 / IPv4ToLong / round trip
//	dg <algo> <in> <stdlib digest>  hashz digest helpers -> s= b= ts= tss= st= st1= stw= ste= ste4= sto= sth= sts= stz=<stream|none> mod=
//	dgh <algo> <mode> <k> <in> <dig> history: 12 × (stream call whose reader fails after k bytes — mode errafter |
//	                                witherr | timeout | panic —, then a valid call of the same and of every other
//	                                stream helper on <in>) -> fail=<err|nil|panic> st=<digest> rounds=same others=ok
//	dgs <algo> <in> <d0..d4>        seekable readers (bytes.Reader, strings.Reader, io.SectionReader, *os.File) already
//	                                advanced by 0, 1, len/2, len-1, len bytes via Read and via Seek; d_i = stdlib digest
//	                                of the remaining bytes -> a0=… a4=<digest> (MIXED:… if the eight readers disagree
//	                                or a reader is not left at its end)
//	dgz <algo> <n> <seed> <digest>  the same on a generated n-byte input (n around 4096, 32768, …) -> b= st=… mod=
//	hm <algo> <key> <data> <mac>    hashz.Hmac           -> ss= sb= bs= bb= ts= tss= mod=
//	b64e <enc> <in> <stdlib out>    Base64Encode         -> s= b= ts= tss= mod=
//	b64d <enc> <in> <out> <err>     Base64Decode         -> s=<out>,<err> b= ts= tss= mod=
//
// s= / b= are the string and the []byte instantiation of the type parameter, ts= / tss= the
// …ToString variant on []byte / string, st= / st1= / stw= the …Stream form fed by a reader that
// returns a third of the input per Read / one byte per Read / implements io.WriterTo,
// mod= whether the input buffer was modified by the call.  The ParseUint error class is
// compared with the class of strconv's error (ErrSyntax, ErrRange, invalid base, invalid bit
// size), not only "error or not".
package c15

import (
	"bytes"
	"crypto/hmac"
	"crypto/md5"
	"crypto/sha1"
	"crypto/sha256"
	"crypto/sha512"
	"encoding/base64"
	"encoding/binary"
	"encoding/hex"
	"fmt"
	"hash"
	"io"
	"net/netip"
	"os"
	"strconv"
	"strings"
	"testing/iotest"

	"github.com/welllog/golib/hashz"
	"github.com/welllog/golib/strz"

	"verifharness/internal/core"
)

func init() {
	core.Register(&core.Prop{
		ID:         "C15",
		Title:      "Re-implemented standard routines agree with the Go standard library",
		Quick:      12000,
		Thorough:   600000,
		Gen:        gen,
		Corpus:     corpus,
		Impl:       impl,
		Check:      check,
		NonTrivial: nonTrivial,
		Rule: "cases of 1..8 stateless calls (ParseUint on grammar-generated numerals × base -1..37 × bit size -1..65, HexEncode/HexDecode/HexDecodeInPlace on valid/odd/invalid-at-position strings, IPv4 print/parse, digest/HMAC/Base64 helpers), each run as string and as []byte (and the …ToString variants on both; the …Stream helpers with three readers); " +
			"non-trivial = at least one ParseUint call that reaches the digit loop with ≥ 2 characters, or a hex decode call of length ≥ 2, or a digest/HMAC/Base64 call; distinct by hash of the op list",
		Classify: classify,
		Facts:    facts,
		Extras:   extras(),
		Parallel: true,
		NoShrink: false,
		Assumptions: []string{
			"typez.WordBits = strconv.IntSize = 64 on the platform the check runs on (bitSize 0 means 64)",
			"crypto/* digests, encoding/base64 and fmt's %#U are the standard library's: the digest/HMAC/Base64 helpers are modelled as HexEncode∘stdlib resp. the stdlib codec (which constructor each helper calls is extracted from the source on every run)",
			"net.IP.String prints an IPv4 address as four decimal bytes separated by dots; strings.Split and strconv.ParseInt(·,10,32) as modelled (compared with the real code on every run)",
			"memory safety of the unsafe string/[]byte views in strz/unsafe_new.go is not a theorem; the harness observes that inputs are not modified and that both instantiations agree",
		},
		TrustedBase: []string{
			"Go standard library as the reference: strconv.ParseUint, encoding/hex, encoding/base64, crypto/md5|sha1|sha256|sha512|hmac, net/netip",
		},
	})
}

// ---- helpers

func hx(b []byte) string {
	if len(b) == 0 {
		return "-"
	}
	return hex.EncodeToString(b)
}

func unhx(s string) ([]byte, bool) {
	if s == "-" {
		return []byte{}, true
	}
	b, err := hex.DecodeString(s)
	if err != nil {
		return nil, false
	}
	return b, true
}

func clone(b []byte) []byte { return append([]byte{}, b...) }

func errText(err error) string {
	if err == nil {
		return "ok"
	}
	return hx([]byte(err.Error()))
}

// puClass maps a strz.ParseUint error to its class by the fixed tail of the message.
func puClass(err error, base, bits int) string {
	if err == nil {
		return "ok"
	}
	m := err.Error()
	switch {
	case strings.HasSuffix(m, " invalid syntax"):
		return "syntax"
	case strings.HasSuffix(m, " value out of range"):
		return "range"
	case strings.HasSuffix(m, fmt.Sprintf(" invalid base %d", base)):
		return "base"
	case strings.HasSuffix(m, fmt.Sprintf(" invalid bit size %d", bits)):
		return "bitsize"
	}
	return "other"
}

// stdClass maps the error of strconv.ParseUint to the same classes (by the wrapped error
// value, not by message).
func stdClass(err error, base, bits int) string {
	if err == nil {
		return "ok"
	}
	ne, ok := err.(*strconv.NumError)
	if !ok {
		return "other"
	}
	switch {
	case ne.Err == strconv.ErrSyntax:
		return "syntax"
	case ne.Err == strconv.ErrRange:
		return "range"
	case ne.Err.Error() == "invalid base "+strconv.Itoa(base):
		return "base"
	case ne.Err.Error() == "invalid bit size "+strconv.Itoa(bits):
		return "bitsize"
	}
	return "other"
}

type digestAlgo struct {
	name   string
	sum    func([]byte) []byte // stdlib reference
	s      func(string) []byte // hashz, string instantiation
	b      func([]byte) []byte // hashz, []byte instantiation
	ts     func([]byte) string // hashz …ToString, []byte instantiation
	tss    func(string) string // hashz …ToString, string instantiation
	stream func(io.Reader) ([]byte, error)
}

var digestAlgos = []digestAlgo{
	{"md5", func(b []byte) []byte { h := md5.Sum(b); return h[:] }, hashz.Md5[string], hashz.Md5[[]byte], hashz.Md5ToString[[]byte], hashz.Md5ToString[string], hashz.Md5Stream},
	{"sha1", func(b []byte) []byte { h := sha1.Sum(b); return h[:] }, hashz.Sha1[string], hashz.Sha1[[]byte], hashz.Sha1ToString[[]byte], hashz.Sha1ToString[string], hashz.Sha1Stream},
	{"sha224", func(b []byte) []byte { h := sha256.Sum224(b); return h[:] }, hashz.Sha224[string], hashz.Sha224[[]byte], hashz.Sha224ToString[[]byte], hashz.Sha224ToString[string], hashz.Sha224Stream},
	{"sha256", func(b []byte) []byte { h := sha256.Sum256(b); return h[:] }, hashz.Sha256[string], hashz.Sha256[[]byte], hashz.Sha256ToString[[]byte], hashz.Sha256ToString[string], hashz.Sha256Stream},
	{"sha384", func(b []byte) []byte { h := sha512.Sum384(b); return h[:] }, hashz.Sha384[string], hashz.Sha384[[]byte], hashz.Sha384ToString[[]byte], hashz.Sha384ToString[string], hashz.Sha384Stream},
	{"sha512", func(b []byte) []byte { h := sha512.Sum512(b); return h[:] }, hashz.Sha512[string], hashz.Sha512[[]byte], hashz.Sha512ToString[[]byte], hashz.Sha512ToString[string], hashz.Sha512Stream},
	{"sha512_224", func(b []byte) []byte { h := sha512.Sum512_224(b); return h[:] }, hashz.Sha512_224[string], hashz.Sha512_224[[]byte], hashz.Sha512_224ToString[[]byte], hashz.Sha512_224ToString[string], nil},
	{"sha512_256", func(b []byte) []byte { h := sha512.Sum512_256(b); return h[:] }, hashz.Sha512_256[string], hashz.Sha512_256[[]byte], hashz.Sha512_256ToString[[]byte], hashz.Sha512_256ToString[string], nil},
}

func digestByName(n string) *digestAlgo {
	for i := range digestAlgos {
		if digestAlgos[i].name == n {
			return &digestAlgos[i]
		}
	}
	return nil
}

var hmacAlgos = map[string]func() hash.Hash{
	"md5": md5.New, "sha1": sha1.New, "sha224": sha256.New224, "sha256": sha256.New,
	"sha384": sha512.New384, "sha512": sha512.New,
	"sha512_224": sha512.New512_224, "sha512_256": sha512.New512_256,
}
var hmacNames = []string{"md5", "sha1", "sha224", "sha256", "sha384", "sha512", "sha512_224", "sha512_256"}

var b64Encs = map[string]*base64.Encoding{
	"std": base64.StdEncoding, "url": base64.URLEncoding,
	"rawstd": base64.RawStdEncoding, "rawurl": base64.RawURLEncoding,
}
var b64Names = []string{"std", "url", "rawstd", "rawurl"}

// chunkReader hides bytes.Reader's WriterTo so that io.Copy really streams.
type chunkReader struct {
	b []byte
	n int
}

func (c *chunkReader) Read(p []byte) (int, error) {
	if len(c.b) == 0 {
		return 0, io.EOF
	}
	k := c.n
	if k > len(c.b) {
		k = len(c.b)
	}
	if k > len(p) {
		k = len(p)
	}
	copy(p, c.b[:k])
	c.b = c.b[k:]
	return k, nil
}

// streamNames are the reader shapes every …Stream helper is fed with (all must give the
// digest of the whole input):
//
//	st   a third of the input per Read          st1  one byte per Read (own reader)
//	stw  bytes.Reader (io.WriterTo path)        ste  iotest.DataErrReader: the last data
//	sto  iotest.OneByteReader                        arrives TOGETHER with io.EOF
//	sth  iotest.HalfReader                      ste4 DataErrReader over 4096-byte reads
//	sts  io.NewSectionReader with a limit beyond the data
//	stz  a reader that returns (0, nil) before every chunk (allowed by io.Reader)
//	stb  fills the whole buffer on every Read      stbe the same, io.EOF together with the last buffer
var streamNames = []string{"st", "st1", "stw", "ste", "ste4", "sto", "sth", "sts", "stz", "stb", "stbe"}

// zeroThenData returns (0, nil) on every other call.
type zeroThenData struct {
	r    io.Reader
	flip bool
}

func (z *zeroThenData) Read(p []byte) (int, error) {
	z.flip = !z.flip
	if z.flip {
		return 0, nil
	}
	return z.r.Read(p)
}

func streamFields(lg *ledger, a *digestAlgo, s []byte) string {
	parts := make([]string, 0, len(streamNames))
	for _, name := range streamNames {
		v := "none"
		if a.stream != nil {
			var r io.Reader
			switch name {
			case "st":
				r = &chunkReader{b: clone(s), n: 1 + len(s)/3}
			case "st1":
				r = &chunkReader{b: clone(s), n: 1}
			case "stw":
				r = bytes.NewReader(clone(s))
			case "ste":
				r = iotest.DataErrReader(&chunkReader{b: clone(s), n: 1 + len(s)/3})
			case "ste4":
				r = iotest.DataErrReader(&chunkReader{b: clone(s), n: 4096})
			case "sto":
				r = iotest.OneByteReader(&chunkReader{b: clone(s), n: 1 << 20})
			case "sth":
				r = iotest.HalfReader(&chunkReader{b: clone(s), n: 1 << 20})
			case "sts":
				r = struct{ io.Reader }{io.NewSectionReader(bytes.NewReader(clone(s)), 0, int64(len(s))+1000)}
			case "stz":
				r = &zeroThenData{r: &chunkReader{b: clone(s), n: 1 + len(s)/2}}
			case "stb": // fills the whole buffer it is given on every Read (huge single reads)
				r = &chunkReader{b: clone(s), n: 1 << 30}
			case "stbe": // … and reports io.EOF together with the last (possibly full) buffer
				r = iotest.DataErrReader(&chunkReader{b: clone(s), n: 1 << 30})
			}
			o, err := a.stream(r)
			lg.keep(o)
			if err != nil {
				v = "err"
			} else {
				v = hx(o)
			}
		}
		parts = append(parts, name+"="+v)
	}
	return strings.Join(parts, " ")
}

// bigInput is the deterministic input of a `dgz` line (the line carries only n and seed).
func bigInput(n, seed int) []byte {
	b := make([]byte, n)
	x := uint64(seed)*0x9e3779b97f4a7c15 + 0x1234567
	for i := range b {
		x ^= x << 13
		x ^= x >> 7
		x ^= x << 17
		b[i] = byte(x >> 24)
	}
	return b
}

// ---- seekable readers (hidden input: the read offset)

var seekKinds = []string{"bytes.Reader", "strings.Reader", "io.SectionReader", "os.File"}

// seekAdvances: 0, 1, len/2, len-1, len (clamped to 0..len).
func seekAdvances(n int) []int {
	c := func(k int) int {
		if k < 0 {
			return 0
		}
		if k > n {
			return n
		}
		return k
	}
	return []int{0, c(1), c(n / 2), c(n - 1), n}
}

func newSeekable(kind string, s []byte) (io.ReadSeeker, func(), error) {
	nop := func() {}
	switch kind {
	case "bytes.Reader":
		return bytes.NewReader(clone(s)), nop, nil
	case "strings.Reader":
		return strings.NewReader(string(s)), nop, nil
	case "io.SectionReader":
		// a section in the middle of a larger buffer
		big := append(append([]byte("prefix-"), s...), []byte("-suffix")...)
		return io.NewSectionReader(bytes.NewReader(big), 7, int64(len(s))), nop, nil
	default:
		f, err := os.CreateTemp("", "c15-seek-*")
		if err != nil {
			return nil, nop, err
		}
		cleanup := func() { f.Close(); os.Remove(f.Name()) }
		if _, err := f.Write(s); err != nil {
			cleanup()
			return nil, nop, err
		}
		if _, err := f.Seek(0, io.SeekStart); err != nil {
			cleanup()
			return nil, nop, err
		}
		return f, cleanup, nil
	}
}

// ---- failing readers (history stream)

var failModes = []string{"errafter", "witherr", "timeout", "panic"}

func failModeIndex(m string) int {
	for i, x := range failModes {
		if x == m {
			return i
		}
	}
	return -1
}

var errBoom = fmt.Errorf("c15: injected reader failure")

// failReader delivers data and then fails: "errafter" = (0, err) after all data was read in
// two chunks; "witherr" = the last chunk comes together with the error (n > 0, err);
// "timeout" = iotest.TimeoutReader (second Read fails); "panic" = panics after the data.
type failReader struct {
	mode string
	data []byte
	half bool
}

func newFailReader(mode string, data []byte) io.Reader {
	if mode == "timeout" {
		n := len(data) / 2
		if n == 0 {
			n = 1
		}
		return iotest.TimeoutReader(&chunkReader{b: append(clone(data), 'x'), n: n})
	}
	return &failReader{mode: mode, data: clone(data)}
}

func (f *failReader) Read(p []byte) (int, error) {
	if len(f.data) > 1 && !f.half {
		f.half = true
		n := copy(p, f.data[:len(f.data)/2])
		f.data = f.data[n:]
		return n, nil
	}
	n := copy(p, f.data)
	f.data = f.data[n:]
	if len(f.data) > 0 {
		return n, nil
	}
	switch f.mode {
	case "witherr":
		return n, errBoom
	case "panic":
		if n > 0 {
			return n, nil
		}
		panic("c15: injected reader panic")
	}
	if n > 0 {
		return n, nil
	}
	return 0, errBoom
}

// ---- implementation side

func impl(c core.Case) []string {
	out := make([]string, 0, len(c.Lines))
	hdr := core.Toks(c.Lines[0])
	if len(hdr) == 3 && hdr[2] == "mix" {
		out = append(out, "ok")
	} else {
		out = append(out, "bad-op")
		for range c.Lines[1:] {
			out = append(out, "bad-op")
		}
		return out
	}
	lg := &ledger{}
	for i, l := range c.Lines[1:] {
		t := core.Toks(l)
		lg.line = i + 1
		o := core.Guard(func() string { return implOp(lg, t) })
		// results ledger / input arenas: everything returned or passed in by EARLIER calls of
		// this case must still be what it was (no pooled or shared backing memory)
		if msg := lg.verify(i+2 == len(c.Lines)); msg != "" {
			o += " LEDGER:" + msg
		}
		out = append(out, o)
	}
	return out
}

// ledger keeps every slice / string a helper returned together with a deep copy, and every
// input window together with its arena (canary bytes in front, behind and in the spare
// capacity of the window).  verify() re-compares all of them.
type ledger struct {
	line    int
	results []ledgerEntry
	windows []*window
}

type ledgerEntry struct {
	line int
	b    []byte // the returned slice itself (same backing memory)
	s    string // or the returned string itself
	isS  bool
	copy []byte
}

type window struct {
	line  int
	arena []byte
	w     []byte // arena[canaryLen : canaryLen+n], capacity reaches into the trailing canaries
	want  []byte // nil: the call may legitimately rewrite the window (HexDecodeInPlace)
}

const canaryLen = 16
const canaryByte = 0xA5

func (l *ledger) keep(v any) {
	switch x := v.(type) {
	case []byte:
		l.results = append(l.results, ledgerEntry{line: l.line, b: x, copy: clone(x)})
	case string:
		l.results = append(l.results, ledgerEntry{line: l.line, s: x, isS: true, copy: []byte(strings.Clone(x))})
	}
}

// win returns a copy of s that is a window of a larger arena: canaries around it and spare
// capacity (filled with canaries) behind it.
func (l *ledger) win(s []byte, readOnly bool) []byte {
	arena := make([]byte, canaryLen+len(s)+canaryLen)
	for i := range arena {
		arena[i] = canaryByte
	}
	copy(arena[canaryLen:], s)
	w := &window{line: l.line, arena: arena, w: arena[canaryLen : canaryLen+len(s)]}
	if readOnly {
		w.want = clone(s)
	}
	l.windows = append(l.windows, w)
	return w.w
}

// verify re-compares the most recent 64 results / windows after every call and everything
// after the last call of the case (keeps long corpus cases linear).
func (l *ledger) verify(all bool) string {
	results, windows := l.results, l.windows
	if !all && len(results) > 64 {
		results = results[len(results)-64:]
	}
	if !all && len(windows) > 64 {
		windows = windows[len(windows)-64:]
	}
	for _, e := range results {
		if e.isS && e.s != string(e.copy) {
			return fmt.Sprintf("string-returned-by-line-%d-changed", e.line)
		}
		if !e.isS && !bytes.Equal(e.b, e.copy) {
			return fmt.Sprintf("slice-returned-by-line-%d-changed", e.line)
		}
	}
	for _, w := range windows {
		for i := 0; i < canaryLen; i++ {
			if w.arena[i] != canaryByte || w.arena[len(w.arena)-1-i] != canaryByte {
				return fmt.Sprintf("memory-around-input-of-line-%d-written", w.line)
			}
		}
		if w.want != nil && !bytes.Equal(w.w, w.want) {
			return fmt.Sprintf("input-of-line-%d-modified", w.line)
		}
	}
	return ""
}

func implOp(lg *ledger, t []string) string {
	if len(t) == 0 {
		return "bad-op"
	}
	arg := func(i int) []byte {
		b, ok := unhx(t[i])
		if !ok {
			panic("bad hex in case line") // harness bug, shows up as mismatch
		}
		return b
	}
	switch {
	case t[0] == "pu" && len(t) == 4:
		s := arg(1)
		base, e1 := strconv.Atoi(t[2])
		bits, e2 := strconv.Atoi(t[3])
		if e1 != nil || e2 != nil {
			return "bad-op"
		}
		str := string(s)
		bs := lg.win(s, true)
		v1, err1 := strz.ParseUint(str, base, bits)
		v2, err2 := strz.ParseUint(bs, base, bits)
		mod := !bytes.Equal(bs, s) || str != string(s)
		return fmt.Sprintf("s=%d,%s b=%d,%s mod=%v", v1, puClass(err1, base, bits), v2, puClass(err2, base, bits), mod)
	case t[0] == "he" && len(t) == 2:
		s := arg(1)
		str, bs := string(s), lg.win(s, true)
		o1 := strz.HexEncode(str)
		lg.keep(o1)
		o2 := strz.HexEncode(bs)
		lg.keep(o2)
		o3 := strz.HexEncodeToString(bs)
		lg.keep(o3)
		o4 := strz.HexEncodeToString(str)
		lg.keep(o4)
		mod := !bytes.Equal(bs, s) || str != string(s)
		return fmt.Sprintf("s=%s b=%s ts=%s tss=%s mod=%v", hx(o1), hx(o2), hx([]byte(o3)), hx([]byte(o4)), mod)
	case t[0] == "hd" && len(t) == 2:
		s := arg(1)
		str, bs := string(s), lg.win(s, true)
		o1, e1 := strz.HexDecode(str)
		lg.keep(o1)
		o2, e2 := strz.HexDecode(bs)
		lg.keep(o2)
		o3, e3 := strz.HexDecodeToString(bs)
		lg.keep(o3)
		o4, e4 := strz.HexDecodeToString(str)
		lg.keep(o4)
		mod := !bytes.Equal(bs, s) || str != string(s)
		return fmt.Sprintf("s=%s,%s b=%s,%s ts=%s,%s tss=%s,%s mod=%v", hx(o1), errText(e1), hx(o2), errText(e2), hx([]byte(o3)), errText(e3), hx([]byte(o4)), errText(e4), mod)
	case t[0] == "hdip" && len(t) == 2:
		buf := lg.win(arg(1), false)
		n, err := strz.HexDecodeInPlace(buf)
		return fmt.Sprintf("n=%d err=%s buf=%s", n, errText(err), hx(buf))
	case t[0] == "l2ip" && len(t) == 2:
		x, err := strconv.ParseUint(t[1], 10, 32)
		if err != nil {
			return "bad-op"
		}
		return hx([]byte(strz.LongToIPv4(uint32(x))))
	case t[0] == "ip2l" && len(t) == 2:
		return strconv.FormatUint(uint64(strz.IPv4ToLong(string(arg(1)))), 10)
	case t[0] == "iprt" && len(t) == 2:
		x, err := strconv.ParseUint(t[1], 10, 32)
		if err != nil {
			return "bad-op"
		}
		return strconv.FormatUint(uint64(strz.IPv4ToLong(strz.LongToIPv4(uint32(x)))), 10)
	case t[0] == "dg" && len(t) == 4:
		a := digestByName(t[1])
		if a == nil {
			return "bad-op"
		}
		s := arg(2)
		_ = arg(3)
		str, bs := string(s), lg.win(s, true)
		o1 := a.s(str)
		lg.keep(o1)
		o2 := a.b(bs)
		lg.keep(o2)
		o3 := a.ts(bs)
		lg.keep(o3)
		o3s := a.tss(str)
		lg.keep(o3s)
		stf := streamFields(lg, a, s)
		mod := !bytes.Equal(bs, s) || str != string(s)
		return fmt.Sprintf("s=%s b=%s ts=%s tss=%s %s mod=%v", hx(o1), hx(o2), hx([]byte(o3)), hx([]byte(o3s)), stf, mod)
	case t[0] == "dgh" && len(t) == 6:
		// history: a stream call whose reader fails after k bytes (non-EOF error, error together
		// with the last data, timeout, panic), immediately followed on the same goroutine by a
		// valid call of the same helper and of every other stream helper; repeated.
		a := digestByName(t[1])
		k, e1 := strconv.Atoi(t[3])
		if a == nil || a.stream == nil || e1 != nil || k < 0 || k > 1<<16 || failModeIndex(t[2]) < 0 {
			return "bad-op"
		}
		s := arg(4)
		_ = arg(5)
		first, rounds, others := "", "same", "ok"
		for r := 0; r < 12; r++ {
			fail := "nil"
			if core.Guard(func() string {
				o, err := a.stream(newFailReader(t[2], bigInput(k, r+1)))
				lg.keep(o)
				if err != nil {
					fail = "err"
				}
				return ""
			}) == "panic" {
				fail = "panic"
			}
			o, err := a.stream(&chunkReader{b: clone(s), n: 1 + len(s)/2})
			lg.keep(o)
			v := hx(o)
			if err != nil {
				v = "err"
			}
			cur := "fail=" + fail + " st=" + v
			if r == 0 {
				first = cur
			} else if cur != first && rounds == "same" {
				rounds = fmt.Sprintf("round-%d:%s", r, strings.ReplaceAll(cur, " ", ","))
			}
			for i := range digestAlgos {
				b := &digestAlgos[i]
				if b.stream == nil || b == a {
					continue
				}
				o2, err2 := b.stream(&chunkReader{b: clone(s), n: 1 + len(s)/2})
				lg.keep(o2)
				if (err2 != nil || string(o2) != hex.EncodeToString(b.sum(s))) && others == "ok" {
					others = b.name
				}
			}
		}
		return first + " rounds=" + rounds + " others=" + others
	case t[0] == "dgs" && len(t) == 8:
		// hidden input: the read offset of a seekable reader. Four kinds of seekable readers
		// (bytes.Reader, strings.Reader, io.SectionReader, *os.File), already advanced by
		// 0, 1, len/2, len-1, len bytes — through Read and through Seek — when handed to the
		// stream helper: it must hash the REMAINING bytes and leave the reader at its end.
		a := digestByName(t[1])
		if a == nil || a.stream == nil {
			return "bad-op"
		}
		s := arg(2)
		for i := 3; i < 8; i++ {
			_ = arg(i)
		}
		advs := seekAdvances(len(s))
		parts := make([]string, 0, len(advs))
		for i, k := range advs {
			val, bad := "", ""
			for _, kind := range seekKinds {
				for _, via := range []string{"read", "seek"} {
					rd, closeFn, err := newSeekable(kind, s)
					if err != nil {
						continue // no temp file available: an environment problem, not a verdict
					}
					if via == "read" {
						_, err = io.ReadFull(rd, make([]byte, k))
					} else {
						_, err = rd.Seek(int64(k), io.SeekStart)
					}
					if err != nil {
						bad = kind + "/" + via + ":advance-failed"
					}
					o, err := a.stream(rd)
					lg.keep(o)
					v := hx(o)
					if err != nil {
						v = "err"
					}
					if pos, err := rd.Seek(0, io.SeekCurrent); err != nil || pos != int64(len(s)) {
						bad = fmt.Sprintf("%s/%s:offset-after=%d", kind, via, pos)
					}
					closeFn()
					if val == "" {
						val = v
					} else if v != val && bad == "" {
						bad = fmt.Sprintf("%s/%s:%s", kind, via, v)
					}
				}
			}
			if bad != "" {
				val = "MIXED:" + strings.ReplaceAll(bad, " ", "_") + ":first=" + val
			}
			parts = append(parts, fmt.Sprintf("a%d=%s", i, val))
		}
		return strings.Join(parts, " ")
	case t[0] == "dgz" && len(t) == 5:
		// large input generated from (n, seed): only the stream helpers and the []byte one-shot form
		a := digestByName(t[1])
		n, e1 := strconv.Atoi(t[2])
		seed, e2 := strconv.Atoi(t[3])
		if a == nil || e1 != nil || e2 != nil || n < 0 || n > 1<<20 || seed < 0 {
			return "bad-op"
		}
		_ = arg(4)
		s := bigInput(n, seed)
		bs := lg.win(s, true)
		o2 := a.b(bs)
		lg.keep(o2)
		stf := streamFields(lg, a, s)
		mod := !bytes.Equal(bs, s)
		return fmt.Sprintf("b=%s %s mod=%v", hx(o2), stf, mod)
	case t[0] == "hm" && len(t) == 5:
		h := hmacAlgos[t[1]]
		if h == nil {
			return "bad-op"
		}
		k, d := arg(2), arg(3)
		_ = arg(4)
		ks, kb, ds, db := string(k), lg.win(k, true), string(d), lg.win(d, true)
		o1 := hashz.Hmac(ks, ds, h)
		lg.keep(o1)
		o2 := hashz.Hmac(ks, db, h)
		lg.keep(o2)
		o3 := hashz.Hmac(kb, ds, h)
		lg.keep(o3)
		o4 := hashz.Hmac(kb, db, h)
		lg.keep(o4)
		o5 := hashz.HmacToString(kb, ds, h)
		lg.keep(o5)
		o6 := hashz.HmacToString(ks, db, h)
		lg.keep(o6)
		mod := !bytes.Equal(kb, k) || !bytes.Equal(db, d) || ks != string(k) || ds != string(d)
		return fmt.Sprintf("ss=%s sb=%s bs=%s bb=%s ts=%s tss=%s mod=%v", hx(o1), hx(o2), hx(o3), hx(o4), hx([]byte(o5)), hx([]byte(o6)), mod)
	case t[0] == "b64e" && len(t) == 4:
		enc := b64Encs[t[1]]
		if enc == nil {
			return "bad-op"
		}
		s := arg(2)
		_ = arg(3)
		str, bs := string(s), lg.win(s, true)
		o1 := strz.Base64Encode(str, enc)
		lg.keep(o1)
		o2 := strz.Base64Encode(bs, enc)
		lg.keep(o2)
		o3 := strz.Base64EncodeToString(bs, enc)
		lg.keep(o3)
		o4 := strz.Base64EncodeToString(str, enc)
		lg.keep(o4)
		mod := !bytes.Equal(bs, s) || str != string(s)
		return fmt.Sprintf("s=%s b=%s ts=%s tss=%s mod=%v", hx(o1), hx(o2), hx([]byte(o3)), hx([]byte(o4)), mod)
	case t[0] == "b64d" && len(t) == 5:
		enc := b64Encs[t[1]]
		if enc == nil {
			return "bad-op"
		}
		s := arg(2)
		_ = arg(3)
		str, bs := string(s), lg.win(s, true)
		o1, e1 := strz.Base64Decode(str, enc)
		lg.keep(o1)
		o2, e2 := strz.Base64Decode(bs, enc)
		lg.keep(o2)
		o3, e3 := strz.Base64DecodeToString(bs, enc)
		lg.keep(o3)
		o4, e4 := strz.Base64DecodeToString(str, enc)
		lg.keep(o4)
		mod := !bytes.Equal(bs, s) || str != string(s)
		return fmt.Sprintf("s=%s,%s b=%s,%s ts=%s,%s tss=%s,%s mod=%v", hx(o1), errText(e1), hx(o2), errText(e2), hx([]byte(o3)), errText(e3), hx([]byte(o4)), errText(e4), mod)
	}
	return "bad-op"
}

// ---- independent property oracle: the Go standard library

func kv(out string) map[string]string {
	m := map[string]string{}
	for _, f := range strings.Fields(out) {
		if i := strings.IndexByte(f, '='); i > 0 {
			m[f[:i]] = f[i+1:]
		}
	}
	return m
}

// readable renders "<hex>,<hex|ok>" output fields with the text they encode.
func readable(v string) string {
	parts := strings.Split(v, ",")
	for i, p := range parts {
		if b, ok := unhx(p); ok && p != "ok" {
			parts[i] = fmt.Sprintf("%q", b)
		}
	}
	return strings.Join(parts, ",")
}

func check(c core.Case, out []string) *core.Failure {
	for i := 1; i < len(c.Lines); i++ {
		if f := checkOp(core.Toks(c.Lines[i]), out[i]); f != nil {
			f.Desc = fmt.Sprintf("line %d %q: %s", i, c.Lines[i], f.Desc)
			return f
		}
	}
	return nil
}

func checkOp(t []string, out string) *core.Failure {
	if len(t) == 0 {
		return nil
	}
	if out == "panic" {
		return &core.Failure{Key: t[0] + "-panic", Desc: "the call panicked; the standard library routine does not"}
	}
	m := kv(out)
	fail := func(key, f string, a ...any) *core.Failure {
		return &core.Failure{Key: key, Desc: fmt.Sprintf(f, a...)}
	}
	allEq := func(key string, want string, names ...string) *core.Failure {
		for _, n := range names {
			if m[n] != want {
				return fail(key, "instantiation %s= returned %s, standard library gives %s", n, readable(m[n]), readable(want))
			}
		}
		return nil
	}
	if i := strings.Index(out, " LEDGER:"); i >= 0 {
		return fail("result-or-input-changed-later", "%s (a slice/string returned earlier, an input, or the memory around an input changed during a later call)", out[i+8:])
	}
	if v, ok := m["mod"]; ok && v != "false" {
		return fail(t[0]+"-input-modified", "the input buffer was modified by the call")
	}
	switch t[0] {
	case "pu":
		s, _ := unhx(t[1])
		base, _ := strconv.Atoi(t[2])
		bits, _ := strconv.Atoi(t[3])
		wv, werr := strconv.ParseUint(string(s), base, bits)
		for _, n := range []string{"s", "b"} {
			p := strings.SplitN(m[n], ",", 2)
			if len(p) != 2 {
				return fail("parseuint-output", "unreadable output %q", out)
			}
			if p[0] != strconv.FormatUint(wv, 10) {
				return fail("parseuint-value", "ParseUint(%q, %d, %d) [%s] = %s, strconv.ParseUint = %d (err %v)", s, base, bits, n, p[0], wv, werr)
			}
			if (p[1] != "ok") != (werr != nil) {
				return fail("parseuint-error", "ParseUint(%q, %d, %d) [%s] error class %s, strconv.ParseUint err = %v", s, base, bits, n, p[1], werr)
			}
			if wc := stdClass(werr, base, bits); p[1] != wc {
				return fail("parseuint-error-class", "ParseUint(%q, %d, %d) [%s] error class %s, strconv.ParseUint gives %s (%v)", s, base, bits, n, p[1], wc, werr)
			}
		}
	case "he":
		s, _ := unhx(t[1])
		want := hx([]byte(hex.EncodeToString(s)))
		return allEq("hexencode", want, "s", "b", "ts", "tss")
	case "hd":
		s, _ := unhx(t[1])
		dst := make([]byte, hex.DecodedLen(len(s)))
		n, err := hex.Decode(dst, s)
		want := hx(dst[:n]) + "," + errText(err)
		return allEq("hexdecode", want, "s", "b", "ts", "tss")
	case "hdip":
		s, _ := unhx(t[1])
		dst := make([]byte, hex.DecodedLen(len(s)))
		n, err := hex.Decode(dst, s)
		after := append(clone(dst[:n]), s[n:]...)
		if m["n"] != strconv.Itoa(n) || m["err"] != errText(err) || m["buf"] != hx(after) {
			return fail("hexdecodeinplace", "HexDecodeInPlace(%q) gave %s, encoding/hex gives n=%d err=%v buffer %s", s, out, n, err, hx(after))
		}
	case "l2ip":
		x, _ := strconv.ParseUint(t[1], 10, 32)
		want := hx([]byte(fmt.Sprintf("%d.%d.%d.%d", byte(x>>24), byte(x>>16), byte(x>>8), byte(x))))
		if out != want {
			return fail("longtoipv4", "LongToIPv4(%d) = %s want %s", x, out, want)
		}
	case "ip2l":
		s, _ := unhx(t[1])
		if a, err := netip.ParseAddr(string(s)); err == nil && a.Is4() {
			b := a.As4()
			want := strconv.FormatUint(uint64(binary.BigEndian.Uint32(b[:])), 10)
			if out != want {
				return fail("ipv4tolong", "IPv4ToLong(%q) = %s want %s", s, out, want)
			}
		}
	case "iprt":
		if out != t[1] {
			return fail("ipv4-roundtrip", "IPv4ToLong(LongToIPv4(%s)) = %s", t[1], out)
		}
	case "dg":
		a := digestByName(t[1])
		s, _ := unhx(t[2])
		sum := a.sum(s)
		if hx(sum) != t[3] {
			return fail("harness-stale-digest", "the digest carried by the line is not the standard library's")
		}
		want := hx([]byte(hex.EncodeToString(sum)))
		if f := allEq("digest-"+t[1], want, "s", "b", "ts", "tss"); f != nil {
			return f
		}
		if a.stream != nil {
			return allEq("digest-stream-"+t[1], want, streamNames...)
		}
	case "dgh":
		a := digestByName(t[1])
		s, _ := unhx(t[4])
		sum := a.sum(s)
		if hx(sum) != t[5] {
			return fail("harness-stale-digest", "the digest carried by the line is not the standard library's")
		}
		want := hx([]byte(hex.EncodeToString(sum)))
		if m["st"] != want {
			return fail("digest-stream-after-failure-"+t[1], "after a %s stream call that failed (%s after %s bytes) the next valid call of the same helper returned %s, standard library gives %s", t[1], t[2], t[3], readable(m["st"]), readable(want))
		}
		if m["rounds"] != "same" {
			return fail("digest-stream-after-failure-"+t[1], "repeating (failing call, valid call) gave different results: %s", m["rounds"])
		}
		if m["others"] != "ok" {
			return fail("digest-stream-after-failure-"+m["others"], "after a failed %s stream call the %s stream helper returned a wrong digest", t[1], m["others"])
		}
	case "dgs":
		a := digestByName(t[1])
		s, _ := unhx(t[2])
		for i, k := range seekAdvances(len(s)) {
			sum := a.sum(s[k:])
			if hx(sum) != t[3+i] {
				return fail("harness-stale-digest", "the digest carried by the line is not the standard library's")
			}
			want := hx([]byte(hex.EncodeToString(sum)))
			if got := m[fmt.Sprintf("a%d", i)]; got != want {
				return fail("digest-stream-seekable-"+t[1], "a seekable reader over %d bytes already advanced by %d bytes: the %s stream helper must return the digest %s of the remaining %d bytes and leave the reader at its end; got %s", len(s), k, t[1], readable(want), len(s)-k, got)
			}
		}
	case "dgz":
		a := digestByName(t[1])
		n, _ := strconv.Atoi(t[2])
		seed, _ := strconv.Atoi(t[3])
		sum := a.sum(bigInput(n, seed))
		if hx(sum) != t[4] {
			return fail("harness-stale-digest", "the digest carried by the line is not the standard library's")
		}
		want := hx([]byte(hex.EncodeToString(sum)))
		if f := allEq("digest-"+t[1], want, "b"); f != nil {
			return f
		}
		if a.stream != nil {
			return allEq("digest-stream-"+t[1], want, streamNames...)
		}
	case "hm":
		k, _ := unhx(t[2])
		d, _ := unhx(t[3])
		h := hmac.New(hmacAlgos[t[1]], k)
		h.Write(d)
		sum := h.Sum(nil)
		if hx(sum) != t[4] {
			return fail("harness-stale-digest", "the MAC carried by the line is not the standard library's")
		}
		return allEq("hmac-"+t[1], hx([]byte(hex.EncodeToString(sum))), "ss", "sb", "bs", "bb", "ts", "tss")
	case "b64e":
		s, _ := unhx(t[2])
		want := hx([]byte(b64Encs[t[1]].EncodeToString(s)))
		if want != t[3] {
			return fail("harness-stale-digest", "the base64 text carried by the line is not the standard library's")
		}
		return allEq("base64encode", want, "s", "b", "ts", "tss")
	case "b64d":
		s, _ := unhx(t[2])
		enc := b64Encs[t[1]]
		dst := make([]byte, enc.DecodedLen(len(s)))
		n, err := enc.Decode(dst, s)
		want := hx(dst[:n]) + "," + errText(err)
		if want != t[3]+","+t[4] {
			return fail("harness-stale-digest", "the base64 result carried by the line is not the standard library's")
		}
		return allEq("base64decode", want, "s", "b", "ts", "tss")
	}
	return nil
}

func nonTrivial(c core.Case, out []string) bool {
	for _, l := range c.Lines[1:] {
		t := core.Toks(l)
		switch t[0] {
		case "pu":
			base, _ := strconv.Atoi(t[2])
			bits, _ := strconv.Atoi(t[3])
			if len(t[1]) >= 4 && (base == 0 || (2 <= base && base <= 36)) && 0 <= bits && bits <= 64 {
				return true
			}
		case "hd", "hdip":
			if len(t[1]) >= 4 {
				return true
			}
		case "dg", "dgz", "dgh", "dgs", "hm", "b64e", "b64d":
			return true
		}
	}
	return false
}

func classify(c core.Case, out []string) []string {
	var ls []string
	for i, l := range c.Lines[1:] {
		t := core.Toks(l)
		o := out[i+1]
		m := kv(o)
		switch t[0] {
		case "pu":
			p := strings.SplitN(m["s"], ",", 2)
			if len(p) == 2 {
				ls = append(ls, "pu:"+p[1])
				s, _ := unhx(t[1])
				if t[2] == "0" {
					us := bytes.IndexByte(s, '_') >= 0
					switch {
					case us && p[1] == "ok":
						ls = append(ls, "pu:base0-underscore-accepted")
					case us && p[1] == "syntax":
						ls = append(ls, "pu:base0-underscore-syntax")
					}
					if len(s) >= 3 && s[0] == '0' {
						switch s[1] | 32 {
						case 'x', 'o', 'b':
							ls = append(ls, "pu:base0-prefix-"+string(rune(s[1]|32)))
						}
					}
				}
			}
		case "hd", "hdip":
			e := m["err"]
			if t[0] == "hd" {
				p := strings.SplitN(m["s"], ",", 2)
				if len(p) == 2 {
					e = p[1]
				}
			}
			switch {
			case e == "ok":
				ls = append(ls, t[0]+":ok")
			case e == hx([]byte(hex.ErrLength.Error())):
				ls = append(ls, t[0]+":odd-length")
			default:
				ls = append(ls, t[0]+":invalid-byte")
			}
		case "b64d":
			if strings.HasSuffix(m["s"], ",ok") {
				ls = append(ls, "b64d:ok")
			} else {
				ls = append(ls, "b64d:corrupt")
			}
		default:
			ls = append(ls, t[0])
		}
		if o == "panic" {
			ls = append(ls, "panic")
		}
	}
	return ls
}
