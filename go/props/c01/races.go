package c01

import (
	"fmt"
	"strings"

	"verifharness/internal/core"
)

// modelRaceExtra (WAVE6): the "free of data races" clause checked on the ACCESS ORDER
// EXTRACTED FROM THE SOURCE.  The go/ast extractor (facts.go) lists, per method, the
// shared-memory accesses in source order — sync/atomic calls, plain accesses to
// holder.value, and plain reads of r.head / r.tail should the source contain any.  The
// compiled Lean driver interprets exactly these lists (Model/C01Races.lean: one access per
// step, the ticket protocol's control flow) and searches ALL interleavings of each small
// configuration below for a state in which two threads are about to access the same
// location, at least one access plain and at least one a write.  A hit is reported with
// the schedule (thread ids, one access each) and the two conflicting accesses.
var raceConfigs = []string{
	"@ C01 races 2 1 T o T o",
	"@ C01 races 2 1 T o T o T u7",
	"@ C01 races 2 0 T u5 T u6",
	"@ C01 races 2 1 T u5 T o",
	"@ C01 races 2 2 T o T u5 T f",
	"@ C01 races 2 1 T o T f",
	"@ C01 races 2 1 T o T e",
	"@ C01 races 2 1 T o T l",
	"@ C01 races 2 1 T u5 T f l e",
	"@ C01 races 2 2 T o o T u5 u6",
	"@ C01 races 4 2 T o u5 T o l T u7 f",
	"@ C01 races 4 3 T o T o T o e",
}

var modelRaceExtra = core.Extra{
	Name: "exhaustive race search on the access order extracted from ringz/sync.go (Lean driver)",
	Run: func(ctx *core.Ctx) (int, string, []core.ExtraFailure) {
		var cases []core.Case
		for _, h := range raceConfigs {
			cases = append(cases, core.Case{Tag: "races", Lines: []string{h, "search"}})
		}
		outs, err := core.RunOracle(ctx.VerifDir, cases)
		if err != nil {
			return 0, "could not run the oracle: " + err.Error(), []core.ExtraFailure{{
				Failure: core.Failure{Key: "race-search-failed", Desc: err.Error()}, NoInput: true, Payload: err.Error()}}
		}
		var fails []core.ExtraFailure
		states := 0
		for i, o := range outs {
			ans := ""
			if len(o) == 2 {
				ans = o[1]
			}
			switch {
			case strings.HasPrefix(ans, "race-free states="):
				var n int
				fmt.Sscanf(ans, "race-free states=%d", &n)
				states += n
			case strings.HasPrefix(ans, "race after schedule"):
				if len(fails) == 0 {
					fails = append(fails, core.ExtraFailure{
						Failure: core.Failure{Key: "model-data-race", Desc: "with the shared-memory accesses in the order they have in the source, two threads can be about to make conflicting accesses, at least one of them non-atomic: " + ans},
						Payload: map[string]any{
							"configuration": raceConfigs[i],
							"how":           "capacity, initial fill, one `T` group per goroutine (o = Pop, u<v> = Push(v), l/e/f = Len/IsEmpty/IsFull); the schedule lists the thread that performs its next shared-memory access (atomic or plain, in source order), one per entry; after it the two accesses shown are both enabled",
							"witness":       ans,
						}})
				}
			default:
				fails = append(fails, core.ExtraFailure{
					Failure: core.Failure{Key: "race-search-failed", Desc: "unexpected answer of the race search: " + strings.Join(o, " / ")}, NoInput: true, Payload: o})
			}
		}
		return len(cases), fmt.Sprintf("%d configurations, %d distinct states searched, no conflicting co-enabled accesses", len(cases), states), fails
	},
}
