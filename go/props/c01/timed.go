package c01

import (
	"fmt"
	"sync"
	"sync/atomic"
	"time"

	"github.com/welllog/golib/ringz"

	"verifharness/internal/core"
)

// timedExtra: PushWait / PopWait with a POSITIVE duration on the unmodified package under
// the real clock (WAVE4 class 5).  The ticker path cannot be driven by the deterministic
// scheduler; its conservation clause (Lean: c01_timed_wait — a timed call that returns
// false made only attempts that returned false, i.e. performed no successful CAS) has a
// verdict that does not depend on timing.  Every round accounts for every value once all
// parties have returned and the ring is quiescent:
//
//	pop round:  empty ring, one PopWait(d) running, one Push(v) by another goroutine.
//	            PopWait = (x, true)  ⇒ x == v and the ring is empty;
//	            PopWait = (_, false) ⇒ it consumed nothing: Len() == 1 and Pop() == (v, true).
//	push round: full ring [a b], one PushWait(v, d) running, one Pop() by another goroutine
//	            (it returns a).  PushWait = true ⇒ the ring then holds exactly [b v];
//	            PushWait = false ⇒ it stored nothing: the ring holds exactly [b].
//
// After the accounting the ring is used again (class 3: valid calls after a timed-out
// call behave as on a fresh ring): fill to capacity, Push refused, drain in order.
// Timing only decides how often the interesting window — the attempt on the tick that
// also observes the deadline succeeds — is hit; the hit count is reported.  The other
// party is swept over [T−10 ms, T+1 ms] around the deadline tick T in 0.5 ms steps, for
// d ∈ {15, 25, 35} ms; rounds run in parallel on separate rings (they sleep).
type timedRound struct {
	Kind      string  `json:"kind"` // "popwait" | "pushwait"
	DurMs     int     `json:"wait_ms"`
	OtherAtMs float64 `json:"other_party_after_ms"`
	Value     int     `json:"value"`
	RetValue  int     `json:"popwait_value,omitempty"`
	RetOK     bool    `json:"wait_returned"`
	ElapsedMs float64 `json:"wait_elapsed_ms"`
	OtherRet  string  `json:"other_party_result"`
	LenAfter  int     `json:"len_after"`
	Drained   []int   `json:"ring_content_after"`
	Reuse     string  `json:"reuse_after"`
}

func sleepUntil(start time.Time, at time.Duration) {
	// sleep most of the way, spin the rest for sub-millisecond placement
	if rest := at - time.Since(start); rest > 1500*time.Microsecond {
		time.Sleep(rest - 1*time.Millisecond)
	}
	for time.Since(start) < at {
	}
}

func drainRing(r *ringz.SyncRing[int]) []int {
	out := []int{}
	for k := 0; k < r.Cap()+2; k++ {
		v, ok := r.Pop()
		if !ok {
			break
		}
		out = append(out, v)
	}
	return out
}

// reuse: after a round the (now empty) ring must behave as a bounded FIFO of its capacity
func reuseRing(r *ringz.SyncRing[int]) string {
	c := r.Cap()
	for i := 0; i < c; i++ {
		if !r.Push(500 + i) {
			return fmt.Sprintf("Push #%d on the drained ring (Cap %d) returned false", i+1, c)
		}
	}
	if r.Push(999) {
		return "Push on the full ring returned true"
	}
	if !r.IsFull() || r.Len() != c {
		return fmt.Sprintf("full ring: Len() == %d IsFull() == %v", r.Len(), r.IsFull())
	}
	for i := 0; i < c; i++ {
		if v, ok := r.Pop(); !ok || v != 500+i {
			return fmt.Sprintf("Pop #%d returned (%d, %v), want (%d, true)", i+1, v, ok, 500+i)
		}
	}
	if _, ok := r.Pop(); ok || !r.IsEmpty() || r.Len() != 0 {
		return "drained ring is not empty"
	}
	return "ok"
}

func eqInts(a, b []int) bool {
	if len(a) != len(b) {
		return false
	}
	for i := range a {
		if a[i] != b[i] {
			return false
		}
	}
	return true
}

func runPopRound(durMs int, at time.Duration, val int) (timedRound, string, string) {
	ring := ringz.NewSync[int](2)
	r := &ring
	d := time.Duration(durMs) * time.Millisecond
	o := timedRound{Kind: "popwait", DurMs: durMs, OtherAtMs: float64(at) / 1e6, Value: val}
	var wg sync.WaitGroup
	wg.Add(2)
	start := time.Now()
	go func() {
		defer wg.Done()
		t0 := time.Now()
		o.RetValue, o.RetOK = r.PopWait(d)
		o.ElapsedMs = float64(time.Since(t0)) / 1e6
	}()
	var pushed bool
	go func() {
		defer wg.Done()
		sleepUntil(start, at)
		pushed = r.Push(val)
	}()
	wg.Wait()
	o.OtherRet = fmt.Sprintf("Push(%d) = %v", val, pushed)
	o.LenAfter = r.Len()
	o.Drained = drainRing(r)
	o.Reuse = reuseRing(r)
	how := fmt.Sprintf("PopWait(%dms) on an empty ring while Push(%d) ran at +%.1fms", durMs, val, o.OtherAtMs)
	switch {
	case !pushed:
		return o, "timed-push-refused", how + ": the Push on a ring with a free slot returned false although only a Pop ran beside it"
	case o.RetOK && o.RetValue != val:
		return o, "popwait-wrong-value", fmt.Sprintf("%s returned (%d, true): the only value ever pushed is %d", how, o.RetValue, val)
	case o.RetOK && (o.LenAfter != 0 || len(o.Drained) != 0):
		return o, "popwait-duplicated-value", fmt.Sprintf("%s returned (%d, true) and afterwards Len() == %d, content %v: delivered and still stored", how, o.RetValue, o.LenAfter, o.Drained)
	case !o.RetOK && (o.LenAfter != 1 || !eqInts(o.Drained, []int{val})):
		return o, "popwait-lost-value", fmt.Sprintf("%s returned false (timeout); afterwards Len() == %d, content %v: the pushed value was neither delivered nor left in the ring (a PopWait that returns false must not consume anything)", how, o.LenAfter, o.Drained)
	case o.Reuse != "ok":
		return o, "timed-reuse", how + ": afterwards the drained ring misbehaves: " + o.Reuse
	}
	return o, "", ""
}

func runPushRound(durMs int, at time.Duration, val int) (timedRound, string, string) {
	ring := ringz.NewSync[int](2)
	r := &ring
	a, b := val+1, val+2
	r.Push(a)
	r.Push(b)
	d := time.Duration(durMs) * time.Millisecond
	o := timedRound{Kind: "pushwait", DurMs: durMs, OtherAtMs: float64(at) / 1e6, Value: val}
	var wg sync.WaitGroup
	wg.Add(2)
	start := time.Now()
	go func() {
		defer wg.Done()
		t0 := time.Now()
		o.RetOK = r.PushWait(val, d)
		o.ElapsedMs = float64(time.Since(t0)) / 1e6
	}()
	var pv int
	var pok bool
	go func() {
		defer wg.Done()
		sleepUntil(start, at)
		pv, pok = r.Pop()
	}()
	wg.Wait()
	o.OtherRet = fmt.Sprintf("Pop() = (%d, %v)", pv, pok)
	o.LenAfter = r.Len()
	o.Drained = drainRing(r)
	o.Reuse = reuseRing(r)
	how := fmt.Sprintf("PushWait(%d, %dms) on the full ring [%d %d] while Pop() ran at +%.1fms", val, durMs, a, b, o.OtherAtMs)
	switch {
	case !pok || pv != a:
		return o, "timed-pop-wrong", fmt.Sprintf("%s: that Pop returned (%d, %v), want (%d, true)", how, pv, pok, a)
	case o.RetOK && (o.LenAfter != 2 || !eqInts(o.Drained, []int{b, val})):
		return o, "pushwait-true-not-stored", fmt.Sprintf("%s returned true; afterwards Len() == %d, content %v, want [%d %d]", how, o.LenAfter, o.Drained, b, val)
	case !o.RetOK && (o.LenAfter != 1 || !eqInts(o.Drained, []int{b})):
		return o, "pushwait-false-stored", fmt.Sprintf("%s returned false (timeout); afterwards Len() == %d, content %v, want [%d]: a PushWait that returns false must not store its value", how, o.LenAfter, o.Drained, b)
	case o.Reuse != "ok":
		return o, "timed-reuse", how + ": afterwards the drained ring misbehaves: " + o.Reuse
	}
	return o, "", ""
}

var timedExtra = core.Extra{
	Name: "PushWait/PopWait(d>0) conservation under the real clock (unmodified ringz package)",
	Run: func(ctx *core.Ctx) (int, string, []core.ExtraFailure) {
		budget := 2 * time.Second
		par := 96
		if ctx.Tier == "thorough" {
			budget = 20 * time.Second
		} else if ctx.Escalate > 1 {
			budget = 8 * time.Second
		}
		type job struct {
			push bool
			dur  int
			at   time.Duration
		}
		var jobs []job
		for _, d := range []int{15, 25, 35} {
			tick := ((d + 9) / 10) * 10            // the tick on which elapsed >= d is observed
			for off := -100; off <= 10; off += 5 { // T-10.0 … T+1.0 ms, 0.5 ms steps
				at := time.Duration(tick)*time.Millisecond + time.Duration(off)*100*time.Microsecond
				jobs = append(jobs, job{false, d, at}, job{true, d, at})
			}
		}
		var (
			mu       sync.Mutex
			fails    []core.ExtraFailure
			seenKey  = map[string]bool{}
			rounds   atomic.Int64
			hits     atomic.Int64 // success by the attempt of the expiry tick
			timeouts atomic.Int64
			succ     atomic.Int64
		)
		deadline := time.Now().Add(budget)
		var wg sync.WaitGroup
		next := atomic.Int64{}
		for w := 0; w < par; w++ {
			wg.Add(1)
			go func() {
				defer wg.Done()
				for time.Now().Before(deadline) {
					k := int(next.Add(1) - 1)
					j := jobs[k%len(jobs)]
					var o timedRound
					var key, desc string
					if j.push {
						o, key, desc = runPushRound(j.dur, j.at, 1000+10*k)
					} else {
						o, key, desc = runPopRound(j.dur, j.at, 1000+10*k)
					}
					rounds.Add(1)
					if o.RetOK {
						succ.Add(1)
						if o.ElapsedMs >= float64(j.dur) {
							hits.Add(1)
						}
					} else {
						timeouts.Add(1)
					}
					if key != "" {
						mu.Lock()
						if !seenKey[key] {
							seenKey[key] = true
							how := "r := ringz.NewSync[int](2); go r.PopWait(wait_ms*time.Millisecond); after other_party_after_ms: r.Push(value); when both returned: Len(), Pop() until false, then fill/drain again"
							if j.push {
								how = "r := ringz.NewSync[int](2); r.Push(value+1); r.Push(value+2); go r.PushWait(value, wait_ms*time.Millisecond); after other_party_after_ms: r.Pop(); when both returned: Len(), Pop() until false, then fill/drain again"
							}
							fails = append(fails, core.ExtraFailure{
								Failure: core.Failure{Key: key, Desc: desc},
								Payload: map[string]any{"how": how, "round": o}})
						}
						n := len(seenKey)
						mu.Unlock()
						if n > 0 && rounds.Load() > 200 {
							return
						}
					}
				}
			}()
		}
		wg.Wait()
		note := fmt.Sprintf("%d rounds (PopWait on an empty ring + one Push, PushWait on a full ring + one Pop; d in 15/25/35 ms, other party swept over the last tick interval): %d waits succeeded, %d timed out with every value accounted for; deadline-tick window hit %d times (success with elapsed >= d); verdict independent of timing",
			rounds.Load(), succ.Load(), timeouts.Load(), hits.Load())
		return int(rounds.Load()), note, fails
	},
}
