package c01

import (
	"fmt"
	"go/ast"
	"go/parser"
	"go/token"
	"path/filepath"
	"strings"
)

// facts regenerates lean/Golib/Gen/FactsC01.lean from ringz/sync.go: the shared-memory
// accesses of Push, Pop, Len, IsEmpty and IsFull in SOURCE ORDER (sync/atomic calls with
// the field they address and, for the slot stores, the stored expression; plain
// accesses to holder.value).  Golib/Proof/C01Facts.lean states by `decide` that this is
// the order of the model's program counters.
func facts(repo string) (string, error) {
	fset := token.NewFileSet()
	f, err := parser.ParseFile(fset, filepath.Join(repo, "ringz", "sync.go"), nil, 0)
	if err != nil {
		return "", err
	}
	names := []string{"Push", "Pop", "Len", "IsEmpty", "IsFull"}
	want := map[string]bool{}
	for _, n := range names {
		want[n] = true
	}
	got := map[string][]string{}
	for _, d := range f.Decls {
		fd, ok := d.(*ast.FuncDecl)
		if !ok || fd.Recv == nil || !want[fd.Name.Name] || fd.Body == nil {
			continue
		}
		if !strings.Contains(exprString(fd.Recv.List[0].Type), "SyncRing") {
			continue
		}
		got[fd.Name.Name] = accesses(fd.Body)
	}
	var b strings.Builder
	b.WriteString("-- generated on every run by go/props/c01 (Facts) from ringz/sync.go; do not edit\n")
	b.WriteString("import Golib.Model.C01Ring\n\nnamespace Golib.Gen.C01\nopen Golib.C01\n\n")
	for _, name := range names {
		ops, ok := got[name]
		if !ok {
			return "", fmt.Errorf("method SyncRing.%s not found", name)
		}
		lname := strings.ToLower(name[:1]) + name[1:]
		fmt.Fprintf(&b, "/-- shared-memory accesses of `%s` in source order -/\ndef %sOps : List SrcOp :=\n  [%s]\n\n", name, lname, strings.Join(ops, ", "))
	}
	// control shape of the waiting forms (WAVE4 class 5) and where Init gets its slot
	// array from (class 4); compared with the model's shape in Proof/C01Facts.lean
	shapes := map[string][]string{}
	var initAssign []string
	for _, d := range f.Decls {
		fd, ok := d.(*ast.FuncDecl)
		if !ok || fd.Recv == nil || fd.Body == nil || !strings.Contains(exprString(fd.Recv.List[0].Type), "SyncRing") {
			continue
		}
		switch fd.Name.Name {
		case "PushWait", "PopWait":
			shapes[fd.Name.Name] = shapeBlock(fd.Body)
		case "Init":
			initAssign = valuesAssignments(fd.Body, 0)
		}
	}
	for _, name := range []string{"PushWait", "PopWait"} {
		sh, ok := shapes[name]
		if !ok {
			return "", fmt.Errorf("method SyncRing.%s not found", name)
		}
		lname := strings.ToLower(name[:1]) + name[1:]
		fmt.Fprintf(&b, "/-- control shape of `%s`: tests and returns in source order -/\ndef %sShape : List String :=\n  [%s]\n\n", name, lname, quoteAll(sh))
	}
	fmt.Fprintf(&b, "/-- every assignment to `r.values` in `Init` (nesting depth:right-hand side) -/\ndef initValues : List String :=\n  [%s]\n\n", quoteAll(initAssign))
	b.WriteString("end Golib.Gen.C01\n")
	return b.String(), nil
}

func quoteAll(l []string) string {
	q := make([]string, len(l))
	for i, x := range l {
		q[i] = fmt.Sprintf("%q", x)
	}
	return strings.Join(q, ", ")
}

func containsAttempt(n ast.Node) bool {
	found := false
	if n == nil {
		return false
	}
	ast.Inspect(n, func(x ast.Node) bool {
		if c, ok := x.(*ast.CallExpr); ok {
			if s, ok := c.Fun.(*ast.SelectorExpr); ok && (s.Sel.Name == "Push" || s.Sel.Name == "Pop") {
				found = true
			}
		}
		return true
	})
	return found
}

// shapeBlock linearises a block: `if <kind> [ … ]`, `loop [ … ]`, `tick`, `gosched`,
// `ret true|false`; statements without control relevance (ticker set-up, ticker.Stop,
// var zero) are skipped; anything else is reported verbatim-ish as `other:…` so that an
// unexpected shape can never match the model's.
func shapeBlock(b *ast.BlockStmt) []string {
	var out []string
	for _, st := range b.List {
		switch x := st.(type) {
		case *ast.IfStmt:
			kind := "other:" + exprString(x.Cond)
			c := strings.ReplaceAll(exprString(x.Cond), " ", "")
			switch {
			case x.Else != nil:
				kind = "other:else"
			case containsAttempt(x.Init) && c == "ok", x.Init == nil && containsAttempt(x.Cond) && !strings.Contains(c, "!"):
				kind = "attempt"
			case x.Init != nil:
				kind = "other:init"
			case c == "maxWait<0":
				kind = "neg"
			case c == "maxWait==0":
				kind = "zero"
			case c == "now.Sub?>=maxWait" || c == "?>=maxWait":
				kind = "deadline"
			}
			if kind == "deadline" {
				// the deadline test must be `now.Sub(begin) >= maxWait`
				ok := false
				if be, isB := x.Cond.(*ast.BinaryExpr); isB && be.Op == token.GEQ {
					if call, isC := be.X.(*ast.CallExpr); isC && len(call.Args) == 1 && exprString(call.Fun) == "now.Sub" && exprString(call.Args[0]) == "begin" {
						ok = true
					}
				}
				if !ok {
					kind = "other:deadline-test"
				}
			}
			out = append(out, "if "+kind+" [")
			out = append(out, shapeBlock(x.Body)...)
			out = append(out, "]")
		case *ast.ForStmt:
			if x.Init != nil || x.Cond != nil || x.Post != nil {
				out = append(out, "other:for-with-clauses")
			}
			out = append(out, "loop [")
			out = append(out, shapeBlock(x.Body)...)
			out = append(out, "]")
		case *ast.ReturnStmt:
			if len(x.Results) == 0 {
				out = append(out, "other:bare-return")
			} else {
				out = append(out, "ret "+exprString(x.Results[len(x.Results)-1]))
			}
		case *ast.AssignStmt:
			switch {
			case containsAttempt(x):
				out = append(out, "other:attempt-outside-if")
			case len(x.Rhs) == 1 && isTickRecv(x.Rhs[0]):
				out = append(out, "tick")
			}
		case *ast.ExprStmt:
			switch {
			case containsAttempt(x):
				out = append(out, "other:attempt-result-dropped")
			case exprStringCall(x.X) == "runtime.Gosched":
				out = append(out, "gosched")
			case exprStringCall(x.X) == "ticker.Stop":
			default:
				out = append(out, "other:expr")
			}
		case *ast.DeclStmt:
		default:
			out = append(out, fmt.Sprintf("other:%T", st))
		}
	}
	return out
}

func isTickRecv(e ast.Expr) bool {
	u, ok := e.(*ast.UnaryExpr)
	return ok && u.Op == token.ARROW && exprString(u.X) == "ticker.C"
}

func exprStringCall(e ast.Expr) string {
	if c, ok := e.(*ast.CallExpr); ok {
		return exprString(c.Fun)
	}
	return ""
}

// valuesAssignments lists the assignments to r.values: "<depth>:make" when the right-hand
// side is a `make(...)`, "<depth>:other" otherwise (depth 0 = unconditional).
func valuesAssignments(b *ast.BlockStmt, depth int) []string {
	var out []string
	var walk func(n ast.Node, d int)
	walk = func(n ast.Node, d int) {
		switch x := n.(type) {
		case *ast.BlockStmt:
			for _, s := range x.List {
				walk(s, d)
			}
		case *ast.AssignStmt:
			for i, l := range x.Lhs {
				if s, ok := l.(*ast.SelectorExpr); ok && s.Sel.Name == "values" {
					kind := "other"
					if i < len(x.Rhs) {
						if c, ok := x.Rhs[i].(*ast.CallExpr); ok && exprString(c.Fun) == "make" {
							kind = "make"
						}
					}
					out = append(out, fmt.Sprintf("%d:%s", d, kind))
				}
			}
		case *ast.IfStmt:
			walk(x.Body, d+1)
			if x.Else != nil {
				walk(x.Else, d+1)
			}
		case *ast.ForStmt:
			walk(x.Body, d+1)
		case *ast.RangeStmt:
			walk(x.Body, d+1)
		case *ast.SwitchStmt:
			walk(x.Body, d+1)
		case *ast.CaseClause:
			for _, s := range x.Body {
				walk(s, d)
			}
		}
	}
	walk(b, depth)
	return out
}

func exprString(e ast.Expr) string {
	switch x := e.(type) {
	case *ast.Ident:
		return x.Name
	case *ast.StarExpr:
		return "*" + exprString(x.X)
	case *ast.IndexExpr:
		return exprString(x.X) + "[" + exprString(x.Index) + "]"
	case *ast.SelectorExpr:
		return exprString(x.X) + "." + x.Sel.Name
	case *ast.UnaryExpr:
		return x.Op.String() + exprString(x.X)
	case *ast.BinaryExpr:
		return exprString(x.X) + x.Op.String() + exprString(x.Y)
	case *ast.BasicLit:
		return x.Value
	case *ast.ParenExpr:
		return exprString(x.X)
	}
	return "?"
}

func addrField(e ast.Expr) string {
	if u, ok := e.(*ast.UnaryExpr); ok && u.Op == token.AND {
		if s, ok := u.X.(*ast.SelectorExpr); ok {
			return s.Sel.Name
		}
	}
	return "?"
}

func accesses(body *ast.BlockStmt) []string {
	var ops []string
	other := func(s string) { ops = append(ops, fmt.Sprintf(".other %q", s)) }
	writes := map[*ast.SelectorExpr]string{}
	atomicArg := map[*ast.SelectorExpr]bool{} // &r.head / &r.tail / &holder.pos handed to sync/atomic
	ast.Inspect(body, func(n ast.Node) bool {
		switch x := n.(type) {
		case *ast.AssignStmt:
			for i, l := range x.Lhs {
				if s, ok := l.(*ast.SelectorExpr); ok && s.Sel.Name == "value" {
					rhs := "?"
					if i < len(x.Rhs) {
						rhs = exprString(x.Rhs[i])
					}
					writes[s] = rhs
				}
			}
		case *ast.CallExpr:
			sel, ok := x.Fun.(*ast.SelectorExpr)
			if !ok {
				return true
			}
			pkg, _ := sel.X.(*ast.Ident)
			if pkg == nil || pkg.Name != "atomic" {
				return true
			}
			fld := "?"
			if len(x.Args) > 0 {
				fld = addrField(x.Args[0])
			}
			if len(x.Args) > 0 {
				if u, ok := x.Args[0].(*ast.UnaryExpr); ok && u.Op == token.AND {
					if se, ok := u.X.(*ast.SelectorExpr); ok {
						atomicArg[se] = true
					}
				}
			}
			key := sel.Sel.Name + " " + fld
			switch key {
			case "LoadUint32 tail":
				ops = append(ops, ".loadTail")
			case "LoadUint32 head":
				ops = append(ops, ".loadHead")
			case "LoadUint32 pos":
				ops = append(ops, ".loadSeq")
			case "CompareAndSwapUint32 tail", "CompareAndSwapUint32 head":
				// CAS(&r.x, pos, pos+1)
				if len(x.Args) == 3 && exprString(x.Args[2]) == exprString(x.Args[1])+"+1" {
					if fld == "tail" {
						ops = append(ops, ".casTail")
					} else {
						ops = append(ops, ".casHead")
					}
				} else {
					other(key + " with unexpected operands")
				}
			case "StoreUint32 pos":
				v := "?"
				if len(x.Args) == 2 {
					v = exprString(x.Args[1])
				}
				switch v {
				case "seq+1":
					ops = append(ops, ".storeSeqPlus1")
				case "seq+r.mask":
					ops = append(ops, ".storeSeqPlusMask")
				default:
					other("StoreUint32 pos " + v)
				}
			default:
				other(key)
			}
		case *ast.SelectorExpr:
			if (x.Sel.Name == "head" || x.Sel.Name == "tail" || x.Sel.Name == "pos") && !atomicArg[x] {
				// a counter / sequence number touched without sync/atomic
				switch x.Sel.Name {
				case "head":
					ops = append(ops, ".plainHead")
				case "tail":
					ops = append(ops, ".plainTail")
				default:
					other("plain access to holder.pos")
				}
			}
			if x.Sel.Name == "value" {
				if rhs, isW := writes[x]; isW {
					if rhs == "zero" {
						ops = append(ops, ".clearVal")
					} else {
						ops = append(ops, ".writeVal")
					}
				} else {
					ops = append(ops, ".readVal")
				}
			}
		}
		return true
	})
	return ops
}
