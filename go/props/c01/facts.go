package c01

import (
	"fmt"
	"go/ast"
	"go/parser"
	"go/token"
	"path/filepath"
	"strings"
)

// facts regenerates lean/Golib/Gen/FactsC01.lean from ringz/sync.go: the shared-memory
// accesses of Push, Pop, Len, IsEmpty and IsFull in SOURCE ORDER (sync/atomic calls with
// the field they address and, for the slot stores, the stored expression; plain
// accesses to holder.value).  Golib/Proof/C01Facts.lean states by `decide` that this is
// the order of the model's program counters.
func facts(repo string) (string, error) {
	fset := token.NewFileSet()
	f, err := parser.ParseFile(fset, filepath.Join(repo, "ringz", "sync.go"), nil, 0)
	if err != nil {
		return "", err
	}
	names := []string{"Push", "Pop", "Len", "IsEmpty", "IsFull"}
	want := map[string]bool{}
	for _, n := range names {
		want[n] = true
	}
	got := map[string][]string{}
	for _, d := range f.Decls {
		fd, ok := d.(*ast.FuncDecl)
		if !ok || fd.Recv == nil || !want[fd.Name.Name] || fd.Body == nil {
			continue
		}
		if !strings.Contains(exprString(fd.Recv.List[0].Type), "SyncRing") {
			continue
		}
		got[fd.Name.Name] = accesses(fd.Body)
	}
	var b strings.Builder
	b.WriteString("-- generated on every run by go/props/c01 (Facts) from ringz/sync.go; do not edit\n")
	b.WriteString("import Golib.Model.C01Ring\n\nnamespace Golib.Gen.C01\nopen Golib.C01\n\n")
	for _, name := range names {
		ops, ok := got[name]
		if !ok {
			return "", fmt.Errorf("method SyncRing.%s not found", name)
		}
		lname := strings.ToLower(name[:1]) + name[1:]
		fmt.Fprintf(&b, "/-- shared-memory accesses of `%s` in source order -/\ndef %sOps : List SrcOp :=\n  [%s]\n\n", name, lname, strings.Join(ops, ", "))
	}
	b.WriteString("end Golib.Gen.C01\n")
	return b.String(), nil
}

func exprString(e ast.Expr) string {
	switch x := e.(type) {
	case *ast.Ident:
		return x.Name
	case *ast.StarExpr:
		return "*" + exprString(x.X)
	case *ast.IndexExpr:
		return exprString(x.X) + "[" + exprString(x.Index) + "]"
	case *ast.SelectorExpr:
		return exprString(x.X) + "." + x.Sel.Name
	case *ast.UnaryExpr:
		return x.Op.String() + exprString(x.X)
	case *ast.BinaryExpr:
		return exprString(x.X) + x.Op.String() + exprString(x.Y)
	case *ast.BasicLit:
		return x.Value
	case *ast.ParenExpr:
		return exprString(x.X)
	}
	return "?"
}

func addrField(e ast.Expr) string {
	if u, ok := e.(*ast.UnaryExpr); ok && u.Op == token.AND {
		if s, ok := u.X.(*ast.SelectorExpr); ok {
			return s.Sel.Name
		}
	}
	return "?"
}

func accesses(body *ast.BlockStmt) []string {
	var ops []string
	other := func(s string) { ops = append(ops, fmt.Sprintf(".other %q", s)) }
	writes := map[*ast.SelectorExpr]string{}
	ast.Inspect(body, func(n ast.Node) bool {
		switch x := n.(type) {
		case *ast.AssignStmt:
			for i, l := range x.Lhs {
				if s, ok := l.(*ast.SelectorExpr); ok && s.Sel.Name == "value" {
					rhs := "?"
					if i < len(x.Rhs) {
						rhs = exprString(x.Rhs[i])
					}
					writes[s] = rhs
				}
			}
		case *ast.CallExpr:
			sel, ok := x.Fun.(*ast.SelectorExpr)
			if !ok {
				return true
			}
			pkg, _ := sel.X.(*ast.Ident)
			if pkg == nil || pkg.Name != "atomic" {
				return true
			}
			fld := "?"
			if len(x.Args) > 0 {
				fld = addrField(x.Args[0])
			}
			key := sel.Sel.Name + " " + fld
			switch key {
			case "LoadUint32 tail":
				ops = append(ops, ".loadTail")
			case "LoadUint32 head":
				ops = append(ops, ".loadHead")
			case "LoadUint32 pos":
				ops = append(ops, ".loadSeq")
			case "CompareAndSwapUint32 tail", "CompareAndSwapUint32 head":
				// CAS(&r.x, pos, pos+1)
				if len(x.Args) == 3 && exprString(x.Args[2]) == exprString(x.Args[1])+"+1" {
					if fld == "tail" {
						ops = append(ops, ".casTail")
					} else {
						ops = append(ops, ".casHead")
					}
				} else {
					other(key + " with unexpected operands")
				}
			case "StoreUint32 pos":
				v := "?"
				if len(x.Args) == 2 {
					v = exprString(x.Args[1])
				}
				switch v {
				case "seq+1":
					ops = append(ops, ".storeSeqPlus1")
				case "seq+r.mask":
					ops = append(ops, ".storeSeqPlusMask")
				default:
					other("StoreUint32 pos " + v)
				}
			default:
				other(key)
			}
		case *ast.SelectorExpr:
			if x.Sel.Name == "value" {
				if rhs, isW := writes[x]; isW {
					if rhs == "zero" {
						ops = append(ops, ".clearVal")
					} else {
						ops = append(ops, ".writeVal")
					}
				} else {
					ops = append(ops, ".readVal")
				}
			}
		}
		return true
	})
	return ops
}
