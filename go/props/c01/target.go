package c01

import (
	"fmt"
	"reflect"
	"strconv"
	"strings"
	"unsafe"

	ringz "verifharness/gen/syncringshim"
	"verifharness/internal/sched"
	"verifharness/internal/sched/drive"
	stime "verifharness/internal/sched/time"
)

// ringTarget drives the shimmed copy of ringz/sync.go (same code, atomics
// intercepted).  Address classes: the two position counters and, per slot, the
// sequence number (`item.pos`).
type ringTarget struct {
	r                  *ringz.SyncRing[int]
	headAddr, tailAddr unsafe.Pointer
	slotAddr           []unsafe.Pointer
	err                string
	initPanic          bool
	// re-configuration provenance (WAVE4 class 4): the other ring value of the pair
	// (template the ring under test was copied from before its own Init, or the origin
	// that was re-initialised after the ring under test was copied from it) and what it
	// must still contain
	other *ringz.SyncRing[int]
}

func newRingTarget(capreq int, warp uint64, fill int) (t *ringTarget) {
	var r ringz.SyncRing[int]
	t = newRingTargetFrom(&r, func() { r = ringz.NewSync[int](capreq) })
	if t.initPanic || t.err != "" {
		return t
	}
	if warp != 0 {
		t.shift(uint32(warp))
	}
	for v := 1; v <= fill; v++ {
		t.r.Push(v)
	}
	return t
}

// newRingTargetFrom: `prepare` puts *r into its initial configuration (it may panic);
// then the addresses of the counters and sequence numbers are taken.
func newRingTargetFrom(r *ringz.SyncRing[int], prepare func()) (t *ringTarget) {
	t = &ringTarget{}
	func() {
		defer func() {
			if x := recover(); x != nil {
				t.initPanic = true
			}
		}()
		prepare()
		t.r = r
	}()
	if t.initPanic {
		return t
	}
	rv := reflect.ValueOf(t.r).Elem()
	h, t1 := rv.FieldByName("head"), rv.FieldByName("tail")
	vals := rv.FieldByName("values")
	if !h.IsValid() || !t1.IsValid() || !vals.IsValid() || vals.Kind() != reflect.Slice ||
		h.Kind() != reflect.Uint32 || t1.Kind() != reflect.Uint32 {
		t.err = "harness-error: SyncRing no longer has uint32 fields head/tail and a slice values"
		return t
	}
	t.headAddr = unsafe.Pointer(h.UnsafeAddr())
	t.tailAddr = unsafe.Pointer(t1.UnsafeAddr())
	for i := 0; i < vals.Len(); i++ {
		p := vals.Index(i).FieldByName("pos")
		if !p.IsValid() || p.Kind() != reflect.Uint32 {
			t.err = "harness-error: ring slots no longer have a uint32 field pos"
			return t
		}
		t.slotAddr = append(t.slotAddr, unsafe.Pointer(p.UnsafeAddr()))
	}
	return t
}

// shift advances both counters and every sequence number by k (uint32 arithmetic):
// the state k push/pop pairs would produce (DESIGN §3.4 "warp").  On a fresh ring
// (slot i holds i) this yields slot i = the position in [k, k+cap) congruent to i only
// when k is a multiple of cap; the general initial warp re-derives the slots.
func (t *ringTarget) shift(k uint32) {
	*(*uint32)(t.headAddr) += k
	*(*uint32)(t.tailAddr) += k
	for _, a := range t.slotAddr {
		*(*uint32)(a) += k
	}
}

// warpInit sets the empty ring to the state after k push/pop pairs, for any k.
func (t *ringTarget) warpInit(k uint32) {
	n := uint32(len(t.slotAddr))
	if n == 0 {
		return
	}
	*(*uint32)(t.headAddr) = k
	*(*uint32)(t.tailAddr) = k
	for i, a := range t.slotAddr {
		*(*uint32)(a) = k + (uint32(i)+n-k%n)%n
	}
}

func okStr(b bool) string {
	if b {
		return "ok"
	}
	return "fail"
}

func (t *ringTarget) FmtOp(op *sched.Op) string {
	if op == nil {
		return "idle"
	}
	if op.Kind == sched.KYield {
		return "yield"
	}
	where := ""
	switch op.Addr {
	case t.headAddr:
		where = "head"
	case t.tailAddr:
		where = "tail"
	default:
		for i, a := range t.slotAddr {
			if a == op.Addr {
				where = fmt.Sprintf("slot[%d]", i)
			}
		}
		if where == "" {
			return fmt.Sprintf("?%s unknown-address", op.Kind)
		}
	}
	switch op.Kind {
	case sched.KLoad:
		return fmt.Sprintf("ld %s=%d", where, uint32(op.Res))
	case sched.KStore:
		return fmt.Sprintf("st %s=%d", where, uint32(op.New))
	case sched.KCAS:
		return fmt.Sprintf("cas %s %d->%d %s", where, uint32(op.Old), uint32(op.New), okStr(op.OK))
	case sched.KAdd:
		return fmt.Sprintf("add %s +%d=%d", where, uint32(op.New), uint32(op.Res))
	}
	return "?" + op.Kind.String() + " " + where
}

func (t *ringTarget) Call(c string) string {
	switch {
	case c == "o":
		v, ok := t.r.Pop()
		return fmt.Sprintf("ret pop %d %v", v, ok)
	case c == "l":
		return fmt.Sprintf("ret len %d", t.r.Len())
	case c == "e":
		return fmt.Sprintf("ret empty %v", t.r.IsEmpty())
	case c == "f":
		return fmt.Sprintf("ret full %v", t.r.IsFull())
	case strings.HasPrefix(c, "u"):
		v, err := strconv.Atoi(c[1:])
		if err != nil {
			return "bad-call"
		}
		return fmt.Sprintf("ret push %v", t.r.Push(v))
	case c == "O": // PopWait with a positive duration: ticks/expiry are scheduler choices
		v, ok := t.r.PopWait(timedWait)
		return fmt.Sprintf("ret popw %d %v", v, ok)
	case strings.HasPrefix(c, "U"): // PushWait with a positive duration
		v, err := strconv.Atoi(c[1:])
		if err != nil {
			return "bad-call"
		}
		return fmt.Sprintf("ret pushw %v", t.r.PushWait(v, timedWait))
	}
	return "bad-call"
}

// the positive duration of the scheduled waiting forms; its value is immaterial: under
// the scheduler the deadline is reached when the schedule says `expire <tid>`
const timedWait = 15 * stime.Millisecond

func (t *ringTarget) Sample() string { return fmt.Sprintf("len=%d", t.r.Len()) }

func (t *ringTarget) Final() string {
	n, e, f := t.r.Len(), t.r.IsEmpty(), t.r.IsFull()
	var vs []string
	for k := 0; k < t.r.Cap()+2; k++ {
		v, ok := t.r.Pop()
		if !ok {
			break
		}
		vs = append(vs, strconv.Itoa(v))
	}
	return fmt.Sprintf("final len=%d empty=%v full=%v [%s]%s", n, e, f, strings.Join(vs, " "), t.finalOther())
}

type header struct {
	capreq int
	warp   uint64
	fill   int
	progs  [][]string
	// provenance of the ring under test (0 = NewSync):
	//  1: tmpl := NewSync(pcap); Push 9001..9000+pfill; r := tmpl (struct copy); r.Init(capreq)
	//     — r is under test, tmpl must keep its elements
	//  2: r0 := NewSync(capreq) (+warp, fill); backlog := r0; r0.Init(pcap)
	//     — backlog is under test, r0 must be a fresh empty ring
	prov, pcap, pfill int
}

func (h header) String() string {
	if h.prov != 0 {
		return fmt.Sprintf("@ C01 ringc %d %d %d %d %d %d%s", h.prov, h.pcap, h.pfill, h.capreq, h.warp, h.fill, drive.FmtProgs(h.progs))
	}
	return fmt.Sprintf("@ C01 ring %d %d %d%s", h.capreq, h.warp, h.fill, drive.FmtProgs(h.progs))
}

// what the other ring of a provenance pair must contain when the case ends
func (h header) otherWant() []int {
	w := []int{}
	if h.prov == 1 {
		for v := 1; v <= h.pfill && v <= effCap(h.pcap); v++ {
			w = append(w, 9000+v)
		}
	}
	return w
}

// effective capacity as Init computes it (for the oracle's bounded-queue spec)
func effCap(capreq int) int {
	if capreq <= 0 {
		return 0
	}
	c := 2
	for c < capreq {
		c *= 2
	}
	return c
}

func parseHeader(line string) (h header, ok bool) {
	t := strings.Fields(line)
	if len(t) >= 9 && t[0] == "@" && t[1] == "C01" && t[2] == "ringc" {
		var e1, e2, e3 error
		h.prov, e1 = strconv.Atoi(t[3])
		h.pcap, e2 = strconv.Atoi(t[4])
		h.pfill, e3 = strconv.Atoi(t[5])
		if e1 != nil || e2 != nil || e3 != nil || (h.prov != 1 && h.prov != 2) || h.pcap < 1 || h.pcap > 1<<16 || h.pfill < 0 || h.pfill > 1<<16 {
			return h, false
		}
		t = append([]string{"@", "C01", "ring"}, t[6:]...)
	}
	if len(t) < 6 || t[0] != "@" || t[1] != "C01" || t[2] != "ring" {
		return h, false
	}
	var err error
	if h.capreq, err = strconv.Atoi(t[3]); err != nil || h.capreq > 1<<20 {
		return h, false
	}
	if h.warp, err = strconv.ParseUint(t[4], 10, 64); err != nil {
		return h, false
	}
	if h.fill, err = strconv.Atoi(t[5]); err != nil || h.fill < 0 || h.fill > 1<<20 {
		return h, false
	}
	h.progs, ok = drive.ParseProgs(t[6:])
	if !ok {
		return h, false
	}
	for _, p := range h.progs {
		for _, c := range p {
			if c == "o" || c == "l" || c == "e" || c == "f" || c == "O" {
				continue
			}
			if !strings.HasPrefix(c, "u") && !strings.HasPrefix(c, "U") {
				return h, false
			}
			if _, err := strconv.Atoi(c[1:]); err != nil {
				return h, false
			}
		}
	}
	return h, true
}

func factory(h header) drive.Factory {
	return func() *drive.Exec {
		return drive.NewExec(newTarget(h), h.progs)
	}
}

func newTarget(h header) *ringTarget {
	var t *ringTarget
	switch h.prov {
	case 1:
		// the ring under test is a struct copy of a used template, then Init-ed
		tmpl := ringz.NewSync[int](h.pcap)
		for v := 1; v <= h.pfill; v++ {
			tmpl.Push(9000 + v)
		}
		r := tmpl
		t = newRingTargetFrom(&r, func() { r.Init(h.capreq) })
		t.other = &tmpl
	default:
		t = newRingTarget(h.capreq, 0, 0)
	}
	if t.initPanic || t.err != "" {
		return t
	}
	if h.warp != 0 {
		t.warpInit(uint32(h.warp))
	}
	for v := 1; v <= h.fill; v++ {
		t.r.Push(v)
	}
	if h.prov == 2 {
		// the ring under test is the copy taken before its origin was re-initialised
		backlog := *t.r
		origin := t.r
		panicked := false
		func() {
			defer func() {
				if recover() != nil {
					panicked = true
				}
			}()
			origin.Init(h.pcap)
		}()
		if panicked {
			t.initPanic = true
			return t
		}
		t2 := newRingTargetFrom(&backlog, func() {})
		t2.other = origin
		return t2
	}
	return t
}

// Final of a provenance pair: the other ring value is observed as well (content in
// order, then a fill/refuse/drain cycle on it).
func (t *ringTarget) finalOther() string {
	if t.other == nil {
		return ""
	}
	var vs []string
	probe := "ok"
	func() {
		defer func() {
			if recover() != nil {
				probe = "panic"
			}
		}()
		for k := 0; k < t.other.Cap()+2; k++ {
			v, ok := t.other.Pop()
			if !ok {
				break
			}
			vs = append(vs, strconv.Itoa(v))
		}
		c := t.other.Cap()
		for i := 0; i < c && probe == "ok"; i++ {
			if !t.other.Push(500 + i) {
				probe = fmt.Sprintf("push-%d-refused", i+1)
			}
		}
		if probe == "ok" && (t.other.Push(999) || !t.other.IsFull() || t.other.Len() != c) {
			probe = "not-full-after-cap-pushes"
		}
		for i := 0; i < c && probe == "ok"; i++ {
			if v, ok := t.other.Pop(); !ok || v != 500+i {
				probe = fmt.Sprintf("pop-%d-returned-%d-%v", i+1, v, ok)
			}
		}
		if probe == "ok" && (!t.other.IsEmpty() || t.other.Len() != 0) {
			probe = "not-empty-after-drain"
		}
	}()
	return fmt.Sprintf(" other=[%s] probe=%s", strings.Join(vs, " "), probe)
}

// ExtraLine: `warp <k>` advances all counters / sequence numbers by k (a multiple of
// the capacity) through reflection, while calls may be parked mid-way.
func (t *ringTarget) ExtraLine(toks []string) (string, bool) {
	if len(toks) == 2 && toks[0] == "warp" {
		k, err := strconv.ParseUint(toks[1], 10, 64)
		n := uint64(len(t.slotAddr))
		if err != nil || n == 0 || k%n != 0 {
			return "bad-op", true
		}
		t.shift(uint32(k))
		return "warped " + t.Sample(), true
	}
	if len(toks) == 2 && toks[0] == "expire" {
		// from now on every deadline test of thread <tid>'s timed waits succeeds
		tid, err := strconv.Atoi(toks[1])
		if err != nil || tid < 0 || tid > 1<<16 {
			return "bad-op", true
		}
		sched.SetExpired(tid)
		return "expired", true
	}
	return "", false
}
