package c01

import (
	"fmt"
	"os"
	"path/filepath"
	"strings"

	"verifharness/internal/core"
	"verifharness/internal/sched/drive"
)

func p(calls ...string) []string { return calls }

func hd(capreq int, warp uint64, fill int, progs [][]string) header {
	return header{capreq: capreq, warp: warp, fill: fill, progs: progs}
}

// provenance configurations (WAVE4 class 4): see header.prov
func hdc(prov, pcap, pfill, capreq int, warp uint64, fill int, progs [][]string) header {
	return header{capreq: capreq, warp: warp, fill: fill, progs: progs, prov: prov, pcap: pcap, pfill: pfill}
}

// DFS configurations: every schedule with ≤ 3 preemptions is executed.
var quickDFS = []header{
	hd(2, 0, 0, [][]string{p("u11"), p("o")}),
	hd(2, 0, 1, [][]string{p("u11"), p("o"), p("l")}),
	hd(2, 0, 0, [][]string{p("u11"), p("u21")}),
	hd(2, 0, 2, [][]string{p("o"), p("o")}),
	hd(2, 4294967295, 1, [][]string{p("u11", "o"), p("o", "u21")}),
	hd(2, 0, 2, [][]string{p("u11", "o"), p("o", "u21")}),
	hd(4, 4294967293, 3, [][]string{p("u11", "u12"), p("o", "o")}),
	hd(2, 3, 1, [][]string{p("u11", "o"), p("u21", "o"), p("f", "e")}),
	hd(4, 0, 0, [][]string{p("u11", "u12"), p("u21", "o"), p("o", "l")}),
	hd(2, 4294967294, 1, [][]string{p("u11", "o"), p("o", "u21"), p("o", "u31")}),
	// three-party windows (WAVE4 class 5): A stalls mid-operation (between its CAS and its
	// store, or between its loads and its CAS), B overtakes / runs into A's claimed slot,
	// C observes Len/IsEmpty/IsFull meanwhile
	hd(2, 4294967295, 1, [][]string{p("u11"), p("o", "u21"), p("l", "f", "e")}),
	hd(2, 0, 2, [][]string{p("o"), p("o", "u21"), p("e", "l", "f")}),
	hd(4, 4294967294, 3, [][]string{p("o"), p("u11", "o"), p("f", "l")}),
	// re-configuration (WAVE4 class 4): the ring under test is a struct copy of a used
	// template that was then Init-ed to a smaller / equal capacity (the template must keep
	// its elements), or the copy taken before its origin was re-initialised
	hdc(1, 4, 3, 2, 0, 0, [][]string{p("u11", "o"), p("o", "u21")}),
	hdc(1, 2, 2, 2, 0, 1, [][]string{p("u11"), p("o"), p("l")}),
	hdc(2, 2, 0, 2, 4294967295, 2, [][]string{p("o", "u11"), p("o")}),
}

var thoroughDFS = []header{
	hd(2, 4294967295, 1, [][]string{p("u11", "o"), p("u21", "o"), p("u31", "o")}),
	hd(4, 4294967294, 2, [][]string{p("u11", "u12", "o"), p("o", "o", "u21"), p("l", "o", "f")}),
	hd(2, 0, 0, [][]string{p("u11"), p("u21"), p("o"), p("o")}),
	hd(8, 4294967290, 7, [][]string{p("o", "u11"), p("o", "u21"), p("u31", "l"), p("u41", "o")}),
	hd(2, 4294967295, 2, [][]string{p("u11", "u12", "u13"), p("o", "o", "o"), p("o", "u31", "l"), p("e", "u41", "o")}),
}

// F12 (DESIGN §6): 32-bit ticket ABA.  Thread 0's Push loads tail = 0 and the free
// slot's sequence number 0 and is parked before its CAS; thread 1 fills the ring
// (2 pushes); then 2^32 − 2 further positions go by (the counters are advanced through
// reflection: `warp 4294967294`, i.e. that many pop-then-push pairs on the full ring);
// tail is 0 again, thread 0's CAS succeeds on a FULL ring, overwrites the oldest live
// value and leaves the slot's sequence number inconsistent (the ring is wedged:
// 3 pushes "succeeded" into capacity 2, the following pops fail).
var f12Witness = core.Case{Tag: "corpus-F12", Lines: []string{
	"@ C01 ring 2 0 0 T u7 T u8 u9 T o o o",
	"step 0", "step 0",
	"step 1", "step 1", "step 1", "step 1", "step 1", "step 1", "step 1", "step 1",
	"warp 4294967294",
	"step 0", "step 0",
	"drain", "final",
}}

// the F12 replay is part of the run only when asked for (VERIF_F12=1) or when the
// finding is listed in KNOWN_FINDINGS.txt (then it prints KNOWN-FINDING on every run)
func wantF12() bool {
	if os.Getenv("VERIF_F12") == "1" {
		return true
	}
	b, err := os.ReadFile(filepath.Join(core.VerifDir(), "KNOWN_FINDINGS.txt"))
	if err != nil {
		return false
	}
	for _, l := range strings.Split(string(b), "\n") {
		l = strings.TrimSpace(l)
		if strings.HasPrefix(l, "known:") && strings.Contains(l, "property=C01") && strings.Contains(l, "key=ticket-aba") {
			return true
		}
	}
	return false
}

func repoDir() string {
	if r := os.Getenv("VERIF_REPO"); r != "" {
		return r
	}
	return "/repo"
}

func corpus() []core.Case {
	cases := []core.Case{
		{Tag: "corpus", Lines: []string{"@ C01 ring 0 0 0 T u1", "step 0"}},
		{Tag: "corpus", Lines: []string{"@ C01 ring -2 0 0 T o", "drain"}},
		{Tag: "corpus", Lines: []string{"@ C01 ring 1 0 0 T u1 u2 u3 f l T o", "drain", "final"}},
		{Tag: "corpus", Lines: []string{"@ C01 ring 3 4294967295 4 T u9 o l e f T o o", "drain", "final"}},
		// a pusher parked between its CAS and its store: the popper sees the slot unpublished
		{Tag: "corpus", Lines: []string{"@ C01 ring 2 0 0 T u5 T o T l e f", "step 0", "step 0", "step 0", "step 1", "step 1", "step 2", "step 2", "step 2", "step 0", "step 1", "step 1", "drain", "final"}},
		// a popper parked between its CAS and its store on a full ring: the pusher sees no free slot
		{Tag: "corpus", Lines: []string{"@ C01 ring 2 4294967295 2 T o T u5 T f l", "step 0", "step 0", "step 0", "step 1", "step 1", "step 2", "step 2", "step 2", "step 2", "step 0", "drain", "final"}},
		// lines for finished / non-existent threads, pending calls at the end
		{Tag: "corpus", Lines: []string{"@ C01 ring 2 0 1 T o T u9", "step 0", "step 5", "step 1", "step 0", "final", "step 0", "step 0", "step 0", "final"}},
	}
	// magnitude stream (WAVE3): capacities above 2^16 / 2^17 that are not powers of two —
	// the rounding of Init decides the mask; three positions are enough to see slots alias
	for _, cp := range []int{65537, 131073, 196608, 262146, 786432, 1000000} {
		cases = append(cases,
			core.Case{Tag: "large", Lines: []string{fmt.Sprintf("@ C01 ring %d 0 0 T u1 u2 u3 u4 T o o o o o", cp), "step 0", "step 0", "step 0", "step 0", "step 0", "step 1", "step 1", "step 0", "drain", "final"}},
			core.Case{Tag: "large", Lines: []string{fmt.Sprintf("@ C01 ring %d 4294967294 3 T u7 o T o u8 T l f e", cp), "step 0", "step 1", "step 2", "step 1", "step 0", "drain", "final"}})
	}
	// the waiting forms with a positive duration under the scheduler (sched/time shim):
	// the deadline (`expire <tid>`) is reached while the waiter is between two attempts and
	// the other party acts before the attempt of the deadline tick — that attempt succeeds
	// and its result must be returned; then the same with nobody acting (plain timeout)
	cases = append(cases,
		core.Case{Tag: "timed", Lines: []string{"@ C01 ring 2 0 0 T O T u7", "step 0", "step 0", "expire 0", "step 1", "step 1", "step 1", "step 1", "step 0", "step 0", "step 0", "step 0", "drain", "final"}},
		core.Case{Tag: "timed", Lines: []string{"@ C01 ring 2 4294967295 2 T U9 T o", "step 0", "step 0", "expire 0", "step 1", "step 1", "step 1", "step 1", "step 0", "step 0", "step 0", "step 0", "drain", "final"}},
		core.Case{Tag: "timed", Lines: []string{"@ C01 ring 2 0 0 T O l T u7", "step 0", "step 0", "step 0", "step 0", "expire 0", "step 0", "step 0", "step 0", "step 1", "drain", "final"}},
		core.Case{Tag: "timed", Lines: []string{"@ C01 ring 2 0 2 T U9 f T o", "step 0", "step 0", "step 0", "expire 0", "step 0", "step 0", "step 0", "drain", "final"}},
		// the waiter is parked INSIDE the attempt of the deadline tick when the other party acts
		core.Case{Tag: "timed", Lines: []string{"@ C01 ring 2 0 0 T O T u7 T l", "step 0", "step 0", "step 0", "expire 0", "step 1", "step 1", "step 2", "step 1", "step 1", "step 0", "step 0", "step 0", "step 0", "step 0", "drain", "final"}},
	)
	if wantF12() {
		cases = append(cases, f12Witness)
	}
	tier := tierFromArgs()
	cfgs := quickDFS
	bound, maxDepth, maxSched := 3, 60, 12000
	// On the blessed tree a quick run enumerates only the first schedules of every DFS
	// configuration (the machine may be loaded; the budget is 60 s); as soon as a modelled
	// function of ringz/sync.go differs from anchors.lock.json the full quick enumeration
	// runs (the core escalates the rest of the run in the same situation).
	if tier != "thorough" && len(core.Drift(core.VerifDir(), repoDir(), "C01")) == 0 {
		maxSched = 800
	}
	if tier == "thorough" {
		cfgs = append(append([]header{}, quickDFS...), thoroughDFS...)
		maxSched = 50000
		maxDepth = 90
	}
	for _, cfg := range cfgs {
		hdr := cfg.String()
		drive.DFS(factory(cfg), bound, maxDepth, maxSched, func(lines []string) bool {
			cases = append(cases, core.Case{Tag: "dfs", Lines: append([]string{hdr}, lines...)})
			return true
		})
	}
	return cases
}

func gen(r *core.Rand, tier string) core.Case {
	nthreads := r.Range(2, 4)
	maxOps := 3
	if tier == "thorough" {
		nthreads = r.Range(2, 5)
		maxOps = 4
	}
	var h header
	h.capreq = []int{1, 2, 2, 2, 3, 4, 4, 5, 8}[r.Intn(9)]
	capacity := effCap(h.capreq)
	switch r.Pick(35, 45, 20) {
	case 0:
		h.warp = 0
	case 1: // counters just below 2^32: the wrap happens inside the case
		h.warp = uint64(1<<32) - uint64(r.Range(0, 2*capacity+1))
		if h.warp == 1<<32 {
			h.warp = 0
		}
	default:
		h.warp = uint64(r.Intn(3 * capacity))
	}
	h.fill = r.Range(0, capacity)
	switch r.Pick(70, 15, 15) {
	case 1: // copy of a template, then Init with a smaller / equal / larger capacity
		h.prov = 1
		h.pcap = []int{1, 2, 3, 4, 4, 8, 8, 16}[r.Intn(8)]
		h.pfill = r.Range(0, effCap(h.pcap))
	case 2: // the copy kept while its origin is re-initialised
		h.prov = 2
		h.pcap = []int{1, 2, 3, 4, 8, 16}[r.Intn(6)]
	}
	total := 0
	for t := 0; t < nthreads; t++ {
		var prog []string
		n := r.Range(1, maxOps)
		for k := 0; k < n; k++ {
			switch r.Pick(38, 36, 8, 5, 5, 4, 4) {
			case 5:
				prog = append(prog, fmt.Sprintf("U%d", 100*(t+1)+k))
			case 6:
				prog = append(prog, "O")
			case 0:
				prog = append(prog, fmt.Sprintf("u%d", 100*(t+1)+k))
			case 1:
				prog = append(prog, "o")
			case 2:
				prog = append(prog, "l")
			case 3:
				prog = append(prog, "e")
			default:
				prog = append(prog, "f")
			}
		}
		total += n
		h.progs = append(h.progs, prog)
	}
	mode := r.Pick(30, 35, 35)
	lines := drive.Sample(factory(h), r, mode, 8*total+10)
	// every thread with a waiting form gets its deadline somewhere before the drain
	for t, prog := range h.progs {
		timed := false
		for _, c := range prog {
			if c == "O" || strings.HasPrefix(c, "U") {
				timed = true
			}
		}
		if !timed {
			continue
		}
		end := len(lines)
		for k, l := range lines {
			if l == "drain" || l == "final" {
				end = k
				break
			}
		}
		at := r.Intn(end + 1)
		lines = append(lines[:at], append([]string{fmt.Sprintf("expire %d", t)}, lines[at:]...)...)
	}
	tag := []string{"random-walk", "sticky-walk", "pct"}[mode]
	return core.Case{Tag: tag, Lines: append([]string{h.String()}, lines...)}
}

const raceMix = "go build -race; three shared rings NewSync[[2]int](2|3|4), on EACH: 3 goroutines Push, 4 goroutines Pop, 1 IsFull, 1 IsEmpty, 1 Len+Cap, 1 PushWait(0)/PopWait(0)/PopWait(1ms); plus 2 goroutines each owning three private rings (cap 2/4/8) used alternately and checked against their own FIFO models"

var raceExtra = core.Extra{
	Name: "race-detector stress of the unmodified ringz package (real scheduler), every method concurrently",
	Run: func(ctx *core.Ctx) (int, string, []core.ExtraFailure) {
		ms := 2000
		if ctx.Tier == "thorough" {
			ms = 60000
		}
		sum, races, err := drive.RaceStress(ctx.VerifDir, ctx.Repo, "ring", ms)
		if cr, ok := err.(*drive.Crash); ok {
			return 1, "stress program crashed", []core.ExtraFailure{{
				Failure: core.Failure{Key: "stress-crash", Desc: "concurrent Push/Pop/Len on the unmodified SyncRing crashed under the real scheduler"},
				Payload: map[string]any{"program": "go/internal/sched/racestress ring", "output": strings.Split(cr.Output, "\n")}}}
		}
		if err != nil {
			return 0, "could not run: " + err.Error(), []core.ExtraFailure{{
				Failure: core.Failure{Key: "race-run-failed", Desc: err.Error()}, NoInput: true, Payload: err.Error()}}
		}
		if races != "" {
			return 1, sum, []core.ExtraFailure{{
				Failure: core.Failure{Key: "data-race", Desc: "the Go race detector reports a data race in SyncRing under concurrent Push/Pop/Len/IsEmpty/IsFull"},
				Payload: map[string]any{"program": "go/internal/sched/racestress ring", "goroutine_mix": raceMix, "report": strings.Split(races, "\n")}}}
		}
		if strings.Contains(sum, "confined-mismatch=") && !strings.Contains(sum, "confined-mismatch=0") {
			return 1, sum, []core.ExtraFailure{{
				Failure: core.Failure{Key: "confined-rings-interfere", Desc: "rings owned by ONE goroutine and used alternately (never shared) deviate from their own bounded-FIFO models while other rings are hammered concurrently: " + sum},
				Payload: map[string]any{"program": "go/internal/sched/racestress ring", "goroutine_mix": raceMix, "summary": sum}}}
		}
		if strings.Contains(sum, "torn-or-out-of-range=") && !strings.Contains(sum, "torn-or-out-of-range=0 ") {
			return 1, sum, []core.ExtraFailure{{
				Failure: core.Failure{Key: "stress-torn-value", Desc: "under the real scheduler a popped value was torn or Len() left [0,Cap()]: " + sum},
				Payload: sum}}
		}
		return 1, fmt.Sprintf("%d ms, no race reported; %s", ms, sum), nil
	},
}
