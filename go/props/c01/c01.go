// Package c01: SyncRing is a linearizable bounded MPMC FIFO queue (ringz/sync.go),
// under every interleaving of its atomic steps.
//
// Tie: the real source file, with only its sync/atomic and runtime import paths
// redirected to scheduler shims (go/gen.sh), is executed step by step under a
// deterministic scheduler; the compiled Lean model `Conc32` (lean/Golib/Model/C01*.lean)
// runs the same schedule and the step traces are diffed.  Independent oracle:
// linearizability to a bounded FIFO of the recorded history (package lin) with the
// false-return rule, Len() ∈ [0,Cap()] after every step, exact Len/IsEmpty/IsFull
// when quiescent.
package c01

import (
	"fmt"
	"os"
	"strconv"
	"strings"

	"verifharness/internal/core"
	"verifharness/internal/sched/drive"
	"verifharness/internal/sched/lin"
)

func init() {
	core.Register(&core.Prop{
		ID:       "C01",
		Title:    "SyncRing is a linearizable bounded MPMC FIFO queue",
		Quick:    1500,
		Thorough: 50000,
		Gen:      gen,
		Corpus:   corpus,
		Impl:     impl,
		Check:    check,
		NonTrivial: func(c core.Case, out []string) bool {
			steps, _, _ := drive.ParseTrace(c.Lines, out)
			return drive.Switches(steps) > 0
		},
		Rule:     "a case = capacity, initial rotation (counter warp) and fill, thread programs (Push/Pop/Len/IsEmpty/IsFull) + a schedule of atomic steps executed on the real ringz/sync.go under the deterministic scheduler; non-trivial = at least one context switch while the thread switched away from is inside a call; distinct by hash",
		Classify: classify,
		Facts:    facts,
		Extras:   []core.Extra{raceExtra, timedExtra, modelRaceExtra},
		Parallel: false,
		Assumptions: []string{
			"sync/atomic operations are sequentially consistent and DRF-SC holds (Go memory model)",
			"BoundedLag: fewer than 2^32 - Cap() operations of the same kind succeed while any single call is in flight (F12: any fixed-width ticket has an ABA beyond that)",
			"PushWait/PopWait with a positive duration (ticker) are not run under the deterministic scheduler: their loop is modelled with the ticks/expiry as environment input (c01_timed_wait) and exercised under the real clock with timing-independent conservation verdicts; with a negative duration they are Push/Pop in a Gosched loop",
		},
		TrustedBase: []string{
			"deterministic scheduler + sync/atomic and runtime shims (go/internal/sched), import-path rewrite of the scratch copy (go/gen.sh)",
			"queue linearizability checker go/internal/sched/lin (own, specialised)",
			"reflection/unsafe access to the private counters for initial rotations (warp)",
			"Go race detector (extra check on the unmodified package)",
		},
	})
}

func impl(c core.Case) []string {
	out := make([]string, len(c.Lines))
	h, ok := parseHeader(c.Lines[0])
	if !ok {
		for i := range out {
			out[i] = "bad-op"
		}
		return out
	}
	tg := newTarget(h)
	if tg.initPanic {
		out[0] = "panic"
		for i := 1; i < len(out); i++ {
			out[i] = "dead"
		}
		return out
	}
	if tg.err != "" {
		for i := range out {
			out[i] = tg.err
		}
		return out
	}
	e := drive.NewExec(tg, h.progs)
	defer e.Close()
	out[0] = "ok"
	for i := 1; i < len(c.Lines); i++ {
		out[i] = e.Line(c.Lines[i])
	}
	return out
}

func sampleLen(s string) (int, bool) {
	if !strings.HasPrefix(s, "len=") {
		return 0, false
	}
	n, err := strconv.Atoi(s[4:])
	return n, err == nil
}

// check is the property's own predicate on what the real code did.
func check(c core.Case, out []string) *core.Failure {
	h, ok := parseHeader(c.Lines[0])
	if !ok {
		return nil
	}
	if h.capreq <= 0 {
		if out[0] != "panic" {
			return &core.Failure{Key: "init-nonpositive", Desc: "NewSync with cap <= 0 did not panic (documented)"}
		}
		return nil
	}
	if out[0] != "ok" {
		return &core.Failure{Key: "init-panic", Desc: fmt.Sprintf("NewSync(%d): %s", h.capreq, out[0])}
	}
	capacity := effCap(h.capreq)
	f := checkInner(c, out, h, capacity)
	if f == nil {
		return nil
	}
	// F12: a failure in a case where ≥ 2^32 − Cap() positions went by (counters
	// advanced by `warp` lines) while some call was in flight is the 32-bit ticket ABA.
	steps, _, _ := drive.ParseTrace(c.Lines, out)
	calls := drive.Calls(h.progs, steps)
	for _, cr := range calls {
		var lag uint64
		for _, m := range drive.Marks(c.Lines, out) {
			if m.Toks[0] != "warp" || len(m.Toks) != 2 {
				continue
			}
			k, _ := strconv.ParseUint(m.Toks[1], 10, 64)
			// the mark lies inside the call when it comes after the call's first step
			// and before its response
			if m.AfterStep > cr.Inv && (cr.Pending || m.AfterStep <= cr.Resp) {
				lag += k
			}
		}
		if lag+uint64(capacity) >= 1<<32 {
			return &core.Failure{Key: "ticket-aba", Desc: fmt.Sprintf("with %d positions passing while the %s call of thread %d is in flight (32-bit ticket wrap-around): %s [%s]", lag, cr.Call, cr.Tid, f.Desc, f.Key)}
		}
	}
	return f
}

func checkInner(c core.Case, out []string, h header, capacity int) *core.Failure {
	steps, final, anomalies := drive.ParseTrace(c.Lines, out)
	for _, a := range anomalies {
		switch {
		case a == "drain-timeout":
			return &core.Failure{Key: "stuck", Desc: "round-robin scheduling of all threads did not complete every call"}
		case a == "hang":
			return &core.Failure{Key: "hang", Desc: "a thread ran without reaching an atomic operation or returning"}
		case a == "final-panic":
			return &core.Failure{Key: "panic", Desc: "observing the quiescent ring panicked"}
		case strings.HasPrefix(a, "harness"):
			return &core.Failure{Key: "harness", Desc: a}
		}
	}
	for k, st := range steps {
		if st.Sample == "sample-panic" {
			return &core.Failure{Key: "panic", Desc: fmt.Sprintf("Len() panicked after step %d", k)}
		}
		n, ok := sampleLen(st.Sample)
		if !ok {
			return &core.Failure{Key: "harness", Desc: "step without a len sample: " + st.Sample}
		}
		if n < 0 || n > capacity {
			return &core.Failure{Key: "len-range", Desc: fmt.Sprintf("Len() == %d after step %d (thread %d: %s), Cap() == %d", n, k, st.Tid, st.Access, capacity)}
		}
		if st.Ret == "panic" {
			return &core.Failure{Key: "panic", Desc: fmt.Sprintf("thread %d panicked at step %d (%s)", st.Tid, k, st.Access)}
		}
		if strings.HasPrefix(st.Ret, "len ") {
			if v, err := strconv.Atoi(st.Ret[4:]); err == nil && (v < 0 || v > capacity) {
				return &core.Failure{Key: "len-range", Desc: fmt.Sprintf("a Len() call of thread %d returned %d, Cap() == %d", st.Tid, v, capacity)}
			}
		}
	}
	calls := drive.Calls(h.progs, steps)
	var ops []lin.Op
	for _, cr := range calls {
		var o lin.Op
		o.Thread, o.Inv, o.Resp, o.Pending = cr.Tid, cr.Inv, cr.Resp, cr.Pending
		f := strings.Fields(cr.Ret)
		switch {
		case cr.Call == "l" || cr.Call == "e" || cr.Call == "f":
			continue
		case cr.Call == "o" || cr.Call == "O":
			o.Kind = lin.Pop
			if !cr.Pending {
				if len(f) != 3 || (f[0] != "pop" && f[0] != "popw") || (f[0] == "popw") != (cr.Call == "O") {
					return &core.Failure{Key: "harness", Desc: "unparsable result " + cr.Ret}
				}
				o.Val, _ = strconv.Atoi(f[1])
				o.OK = f[2] == "true"
			}
		default:
			o.Kind = lin.Push
			o.Val, _ = strconv.Atoi(cr.Call[1:])
			if !cr.Pending {
				if len(f) != 2 || (f[0] != "push" && f[0] != "pushw") || (f[0] == "pushw") != strings.HasPrefix(cr.Call, "U") {
					return &core.Failure{Key: "harness", Desc: "unparsable result " + cr.Ret}
				}
				o.OK = f[1] == "true"
			}
		}
		ops = append(ops, o)
	}
	sp := lin.Spec{Cap: capacity}
	for v := 1; v <= h.fill && v <= capacity; v++ {
		sp.Init = append(sp.Init, v)
	}
	var fLen int
	var fEmpty, fFull string
	if k := strings.Index(final, " other="); k >= 0 {
		// provenance pair: the OTHER ring value must be untouched by everything that
		// happened to the ring under test (and vice versa)
		rest := final[k+1:]
		final = final[:k]
		want := "other=" + strings.ReplaceAll(fmt.Sprint(h.otherWant()), ",", "") + " probe=ok"
		if rest != want {
			who := "the template it was copied from before its own Init"
			if h.prov == 2 {
				who = "the origin that was re-initialised after the ring under test was copied from it"
			}
			return &core.Failure{Key: "reinit-shares-slots", Desc: fmt.Sprintf("two SyncRing values (struct copy, then Init on one of them) are not independent: after the case %s shows %q, want %q", who, rest, want)}
		}
	} else if h.prov != 0 && final != "" {
		return &core.Failure{Key: "harness", Desc: "provenance case without the other ring's observation: " + final}
	}
	if final != "" {
		// final len=<n> empty=<b> full=<b> [v v v]
		f := strings.SplitN(final, " ", 5)
		if len(f) == 5 {
			fLen, _ = strconv.Atoi(strings.TrimPrefix(f[1], "len="))
			fEmpty = strings.TrimPrefix(f[2], "empty=")
			fFull = strings.TrimPrefix(f[3], "full=")
			sp.FinalKnown = true
			sp.Final = []int{}
			for _, x := range strings.Fields(strings.Trim(f[4], "[]")) {
				v, _ := strconv.Atoi(x)
				sp.Final = append(sp.Final, v)
			}
		}
	}
	var succ []lin.Op
	for _, o := range ops {
		if o.Pending || o.OK {
			succ = append(succ, o)
		}
	}
	if why := lin.Check(succ, sp); why != "" {
		return &core.Failure{Key: "not-linearizable", Desc: why}
	}
	if why := lin.Check(ops, sp); why != "" {
		return &core.Failure{Key: "false-unjustified", Desc: "a Push/Pop returned false although the ring was never full/empty during the call and nothing overlapped it: " + why}
	}
	if sp.FinalKnown {
		n := len(sp.Final)
		if fLen != n || fEmpty != strconv.FormatBool(n == 0) || fFull != strconv.FormatBool(n == capacity) {
			return &core.Failure{Key: "quiescent-inexact", Desc: fmt.Sprintf("no operation in flight, %d values stored %v, Cap() == %d: Len() == %d IsEmpty() == %s IsFull() == %s", n, sp.Final, capacity, fLen, fEmpty, fFull)}
		}
	}
	return nil
}

func classify(c core.Case, out []string) []string {
	steps, final, _ := drive.ParseTrace(c.Lines, out)
	seen := map[string]bool{}
	for _, st := range steps {
		switch {
		case strings.HasPrefix(st.Access, "cas tail") && strings.HasSuffix(st.Access, "fail"):
			seen["push-cas-lost"] = true
		case strings.HasPrefix(st.Access, "cas head") && strings.HasSuffix(st.Access, "fail"):
			seen["pop-cas-lost"] = true
		}
		if strings.HasPrefix(st.Access, "ld slot") {
			if st.Ret == "push false" {
				seen["push-false-seq-mismatch"] = true
			}
			if st.Ret == "pop 0 false" {
				seen["pop-false-seq-mismatch"] = true
			}
		}
		if st.Ret == "push true" {
			seen["push-ok"] = true
		}
		if strings.HasPrefix(st.Ret, "pushw") || strings.HasPrefix(st.Ret, "popw") {
			seen["timed-"+map[bool]string{true: "success", false: "timeout"}[strings.HasSuffix(st.Ret, "true")]] = true
		}
		if strings.HasPrefix(st.Ret, "pop") && strings.HasSuffix(st.Ret, "true") {
			seen["pop-ok"] = true
		}
		if strings.HasPrefix(st.Access, "cas tail 4294967295->0") || strings.HasPrefix(st.Access, "cas head 4294967295->0") {
			seen["counter-wraps-2^32"] = true
		}
	}
	if final == "" {
		seen["ends-with-pending-calls"] = true
	}
	if h, ok := parseHeader(c.Lines[0]); ok {
		if h.warp != 0 {
			seen["warped-start"] = true
		}
		if h.prov != 0 {
			seen[fmt.Sprintf("provenance-%d-init-cap-%s", h.prov, map[bool]string{true: "le", false: "gt"}[(h.prov == 1 && effCap(h.capreq) <= effCap(h.pcap)) || (h.prov == 2 && effCap(h.pcap) <= effCap(h.capreq))])] = true
		}
		seen[fmt.Sprintf("cap-%d", effCap(h.capreq))] = true
	}
	var ls []string
	for k := range seen {
		ls = append(ls, k)
	}
	return ls
}

func tierFromArgs() string {
	for _, a := range os.Args[1:] {
		if a == "thorough" {
			return "thorough"
		}
	}
	if os.Getenv("VERIF_TIER") == "thorough" {
		return "thorough"
	}
	return "quick"
}
