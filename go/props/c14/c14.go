// Package c14: slicez set operations, in-place variants, clamping readers and FlexSlice
// (slicez/slices.go, slicez/flex.go).
package c14

import (
	"errors"
	"fmt"
	"math"
	"slices"
	"sort"
	"strconv"
	"strings"

	"github.com/welllog/golib/slicez"

	"verifharness/internal/core"
)

func init() {
	core.Register(&core.Prop{
		ID:         "C14",
		Title:      "slicez set operations, in-place variants and FlexSlice match their definitions",
		Quick:      30000,
		Thorough:   1300000,
		Gen:        gen,
		Corpus:     corpus,
		Impl:       impl,
		Check:      check,
		NonTrivial: nonTrivial,
		Rule: "stream `calls`: 6–14 independent calls per case of Diff/Intersect/Unique/UniqueByKey/Filter (dst ∈ nil, fresh with any len/cap, s1[:k], s2[:k]), their InPlace variants, Equal/Index/IndexFunc/Contains, SubSlice/Copy/Remove with indices −2..len+2, Chunk/ChunkProcess (sizes −1..len+2, failing callback), Values; ints from 0..4, lengths 0..8, nil vs empty; " +
			"stream `flex`: FlexSlice op sequences (Append/Prepend bursts, Get/Remove/Pop/Shift/SubSlice) from initial capacities 0..40 crossing the growth and cap/4 shrink thresholds, backing array compared cell by cell; " +
			"stream `arena` (≈ 17 % of the cases): every slice argument (dst, s, s1, s2) is a window off:len:cap of ONE persistent arena in every relative layout (s2 a partial window of / equal to / straddling / adjacent to / disjoint from s1; dst nil, a prefix of s1 or s2, overlapping s2, running into s1, with small or spare capacity), sources with spare capacity holding other values; all ten set functions, Copy (often twice, then the caller appends to the source), SubSlice, Remove; after every call the whole arena is compared, the result is located by its data pointer (a window of the arena incl. spare capacity, or memory of its own) and a results ledger re-compares every earlier fresh result with its deep copy; " +
			"35 % of the arena cases use element type float64 AND struct{F float64; Tag int} (header `arenaF`: NaN, -0, +0 among the cells; both instantiations must answer alike) incl. Equal / Index / Contains with the SAME window passed twice; " +
			"stream `large` (≈ 1.3 % of the cases): 2–4 calls on slices of up to 2000 elements with 16…1500 distinct values from ranges up to 5000 and a controlled duplicate structure (every new value may be repeated at once, the last new values are repeated at the end) for Diff/Intersect/Unique/UniqueByKey (key counts around the distinct count)/Filter, their InPlace variants, all dst layouts, Chunk/ChunkProcess sizes around the length, Copy/SubSlice/Remove/Equal/Index/Values at the far end; stream `large-flex`: FlexSlice with capacities 200…5000 driven by bulk ops (appendn/prependn/popn/shiftn), Prepend batches of every size class relative to the capacity (fits in place, just too big, ≤1.25·cap, 1.25–2·cap, >2·cap), growth across runtime size classes, drains across cap/4 from large, refill; state compared by length, capacity and hashes of content and backing array; " +
			"int-edge magnitudes (wave 8 B): in every stream each integer argument of SubSlice / Copy / Remove / Chunk / ChunkProcess and of FlexSlice Get / Remove / SubSlice is, with probability 10–25 %, one of MaxInt, MaxInt-1, MaxInt-len(+1), MaxInt-k, MinInt, MinInt+1, MinInt+k, ±2^62(±1), 2^32±1, ±2^31±1, MaxInt-2^32; argument pairs include start ≥ 1 with start+length = MaxInt+1+j (wraps to MinInt+j), = MaxInt exactly, both negative with sum MinInt-1, and pairs whose wrapped sum / difference lands inside 0..len+2; the oracle's 64-bit twin (IntOps.wrap64) executes the same arguments; " +
			"non-trivial = a calls case with at least one aliased-dst or in-place call on a slice with duplicates, or a flex case with at least one reallocation (growth or shrink); distinct by hash of the case",
		Classify: classify,
		Parallel: true,
		Extras: []core.Extra{
			{Name: "readonly-inputs", Run: extraReadOnly},
			{Name: "parallel-objects", Run: extraParallel},
		},
		Assumptions: []string{
			"slice LENGTHS and capacities are far below the int range (len < MaxInt, 2·cap ≤ MaxInt: true of every slice of non-zero-size elements the runtime can allocate); integer ARGUMENTS range over the whole of int: c14_copy_nowrap / c14_remove_nowrap / c14_chunk_nowrap / c14_flex_nowrap prove that on every machine that is right when the exact result fits (in particular the 64-bit wrapping one) the index arithmetic equals the unbounded model",
			"runtime growslice capacity rule for 8-byte elements (Go 1.20+: double below 256, size-class rounding) is used by the executable model only; the FlexSlice theorems hold for every growth function",
			"FlexSlice.SubSlice sharing memory with its parent after later writes, and Prepend(v...) with v aliasing the receiver, are not claimed (DESIGN C14 MNV)",
		},
	})
}

// ---------------------------------------------------------------- parsing helpers

func groups(ts []string) [][]string {
	gs := [][]string{{}}
	for _, t := range ts {
		if t == ";" {
			gs = append(gs, []string{})
		} else {
			gs[len(gs)-1] = append(gs[len(gs)-1], t)
		}
	}
	return gs
}

// parseList: "nil" → nil slice, "e" → empty non-nil, else ints; cap == len.
func parseList(g []string) ([]int, bool) {
	if len(g) == 0 {
		return nil, false
	}
	if len(g) == 1 && g[0] == "nil" {
		return nil, true
	}
	if len(g) == 1 && g[0] == "e" {
		return []int{}, true
	}
	s := make([]int, len(g))
	for i, t := range g {
		v, err := strconv.Atoi(t)
		if err != nil {
			return nil, false
		}
		s[i] = v
	}
	return s, true
}

func showSl(s []int) string {
	if s == nil {
		return "nil"
	}
	return showInts(s)
}

func showIntsPlain(s []int) string { return showInts(s) }

func showInts(s []int) string {
	var sb strings.Builder
	sb.WriteByte('[')
	for i, x := range s {
		if i > 0 {
			sb.WriteByte(' ')
		}
		sb.WriteString(strconv.Itoa(x))
	}
	sb.WriteByte(']')
	return sb.String()
}

func showChunks(cs [][]int) string {
	ss := make([]string, len(cs))
	for i, c := range cs {
		ss[i] = showInts(c)
	}
	return "[" + strings.Join(ss, " ") + "]"
}

// mkDst builds the dst argument; ok=false for a malformed token.
func mkDst(tok string, s1, s2 []int) ([]int, bool) {
	if tok == "nil" {
		return nil, true
	}
	p := strings.Split(tok, ":")
	switch {
	case len(p) == 3 && p[0] == "fresh":
		l, e1 := strconv.Atoi(p[1])
		c, e2 := strconv.Atoi(p[2])
		if e1 != nil || e2 != nil || l < 0 || c < l || c > 8192 {
			return nil, false
		}
		d := make([]int, l, c)
		for i := range d {
			d[i] = 9
		}
		return d, true
	case len(p) == 2 && (p[0] == "s1" || p[0] == "s2"):
		k, err := strconv.Atoi(p[1])
		src := s1
		if p[0] == "s2" {
			src = s2
		}
		if err != nil || k < 0 || k > len(src) {
			return nil, false
		}
		return src[:k], true
	}
	return nil, false
}

func accFn(acc []int) func(int) bool {
	return func(v int) bool { return slices.Contains(acc, v) }
}

// sharedAt reports how r relates to the memory of s: "none" for empty r,
// "shared@k" when r[0] is the cell s[k], else "fresh" (verified by mutation).
func sharedAt(r, s []int) string {
	if len(r) == 0 {
		return "none"
	}
	for k := range s {
		if &r[0] == &s[k] {
			return "shared@" + strconv.Itoa(k)
		}
	}
	before := append([]int(nil), s...)
	for i := range r {
		r[i] += 1000
	}
	fresh := slices.Equal(before, s)
	for i := range r {
		r[i] -= 1000
	}
	if fresh {
		return "fresh"
	}
	return "shared-elsewhere"
}

func call(ts []string) string {
	gs := groups(ts)
	h := gs[0]
	if len(h) == 0 {
		return "bad-op"
	}
	var ls [][]int
	for _, g := range gs[1:] {
		l, ok := parseList(g)
		if !ok {
			return "bad-op"
		}
		ls = append(ls, l)
	}
	argc := func(nh, nl int) bool { return len(h) == nh && len(ls) == nl }
	atoi := func(s string) (int, bool) { v, err := strconv.Atoi(s); return v, err == nil }
	switch h[0] {
	case "diff", "intersect":
		if !argc(2, 2) {
			return "bad-op"
		}
		dst, ok := mkDst(h[1], ls[0], ls[1])
		if !ok {
			return "bad-op"
		}
		var r []int
		if h[0] == "diff" {
			r = slicez.Diff(dst, ls[0], ls[1])
		} else {
			r = slicez.Intersect(dst, ls[0], ls[1])
		}
		return fmt.Sprintf("%s s1=%s s2=%s", showSl(r), showInts(ls[0]), showInts(ls[1]))
	case "unique", "uniquekey", "filter":
		var dtok string
		var k int
		switch h[0] {
		case "unique":
			if !argc(2, 1) {
				return "bad-op"
			}
			dtok = h[1]
		case "uniquekey":
			if !argc(3, 1) {
				return "bad-op"
			}
			var ok bool
			if k, ok = atoi(h[1]); !ok || k == 0 {
				return "bad-op"
			}
			dtok = h[2]
		default:
			if !argc(2, 2) {
				return "bad-op"
			}
			dtok = h[1]
		}
		if strings.HasPrefix(dtok, "s2") {
			return "bad-op"
		}
		dst, ok := mkDst(dtok, ls[0], nil)
		if !ok {
			return "bad-op"
		}
		var r []int
		switch h[0] {
		case "unique":
			r = slicez.Unique(dst, ls[0])
		case "uniquekey":
			r = slicez.UniqueByKey(dst, ls[0], func(v int) int { return v % k })
		default:
			r = slicez.Filter(dst, ls[0], accFn(ls[1]))
		}
		return fmt.Sprintf("%s s1=%s", showSl(r), showInts(ls[0]))
	case "diffip", "intersectip":
		if !argc(1, 2) {
			return "bad-op"
		}
		var r []int
		if h[0] == "diffip" {
			r = slicez.DiffInPlaceFirst(ls[0], ls[1])
		} else {
			r = slicez.IntersectInPlaceFirst(ls[0], ls[1])
		}
		return fmt.Sprintf("%s s1=%s s2=%s", showSl(r), showInts(ls[0]), showInts(ls[1]))
	case "uniqueip":
		if !argc(1, 1) {
			return "bad-op"
		}
		r := slicez.UniqueInPlace(ls[0])
		return fmt.Sprintf("%s s1=%s", showSl(r), showInts(ls[0]))
	case "uniquekeyip":
		if !argc(2, 1) {
			return "bad-op"
		}
		k, ok := atoi(h[1])
		if !ok || k == 0 {
			return "bad-op"
		}
		r := slicez.UniqueByKeyInPlace(ls[0], func(v int) int { return v % k })
		return fmt.Sprintf("%s s1=%s", showSl(r), showInts(ls[0]))
	case "filterip":
		if !argc(1, 2) {
			return "bad-op"
		}
		r := slicez.FilterInPlace(ls[0], accFn(ls[1]))
		return fmt.Sprintf("%s s1=%s", showSl(r), showInts(ls[0]))
	case "equal":
		if !argc(1, 2) {
			return "bad-op"
		}
		return strconv.FormatBool(slicez.Equal(ls[0], ls[1]))
	case "index", "contains":
		if !argc(2, 1) {
			return "bad-op"
		}
		v, ok := atoi(h[1])
		if !ok {
			return "bad-op"
		}
		if h[0] == "index" {
			return strconv.Itoa(slicez.Index(ls[0], v))
		}
		return strconv.FormatBool(slicez.Contains(ls[0], v))
	case "indexfunc", "containsfunc":
		if !argc(1, 2) {
			return "bad-op"
		}
		if h[0] == "indexfunc" {
			return strconv.Itoa(slicez.IndexFunc(ls[0], accFn(ls[1])))
		}
		return strconv.FormatBool(slicez.ContainsFunc(ls[0], accFn(ls[1])))
	case "subslice", "copy":
		if !argc(3, 1) {
			return "bad-op"
		}
		a, ok1 := atoi(h[1])
		b, ok2 := atoi(h[2])
		if !ok1 || !ok2 {
			return "bad-op"
		}
		var r []int
		if h[0] == "subslice" {
			r = slicez.SubSlice(ls[0], a, b)
		} else {
			r = slicez.Copy(ls[0], a, b)
		}
		return showSl(r) + " " + sharedAt(r, ls[0])
	case "remove":
		if !argc(2, 1) {
			return "bad-op"
		}
		i, ok := atoi(h[1])
		if !ok {
			return "bad-op"
		}
		r, v, okk := slicez.Remove(ls[0], i)
		return fmt.Sprintf("%s %d %v s=%s", showSl(r), v, okk, showInts(ls[0]))
	case "chunk":
		if !argc(2, 1) {
			return "bad-op"
		}
		n, ok := atoi(h[1])
		if !ok {
			return "bad-op"
		}
		cs := slicez.Chunk(ls[0], n)
		if cs == nil {
			return "nil"
		}
		offs := make([]string, len(cs))
		for i, c := range cs {
			offs[i] = strings.TrimPrefix(sharedAt(c, ls[0]), "shared@")
		}
		return showChunks(cs) + " @[" + strings.Join(offs, " ") + "]"
	case "chunkproc":
		if !argc(3, 1) {
			return "bad-op"
		}
		n, ok1 := atoi(h[1])
		f, ok2 := atoi(h[2])
		if !ok1 || !ok2 || f < 0 {
			return "bad-op"
		}
		var cs [][]int
		boom := errors.New("boom")
		err := slicez.ChunkProcess(ls[0], n, func(c []int) error {
			cs = append(cs, append([]int(nil), c...))
			if len(cs) == f {
				return boom
			}
			return nil
		})
		st := "ok"
		if err != nil {
			st = "err"
			if err != boom {
				st = "err-other"
			}
		}
		return showChunks(cs) + " " + st
	case "values":
		if len(h) != 2 {
			return "bad-op"
		}
		k, ok := atoi(h[1])
		if !ok {
			return "bad-op"
		}
		r := slicez.Values(func(v int) int { return v * k }, ls...)
		sh := "none"
		if len(r) > 0 {
			sh = "fresh"
			for _, l := range ls {
				if x := sharedAt(r, l); x != "fresh" && x != "none" {
					sh = x
				}
			}
		}
		return showSl(r) + " " + sh
	}
	return "bad-op"
}

// ---------------------------------------------------------------- FlexSlice

func hashInts(xs []int) int64 {
	var h int64
	for _, v := range xs {
		h = (h*1000003 + int64(v) + 7) % 1000000007
	}
	return h
}

// showFlex: `len cap [backing array]`, or for the large stream `len cap hash(Values) hash(backing array)`.
func showFlex(compact bool, f *slicez.FlexSlice[int]) string {
	if compact {
		return fmt.Sprintf("%d %d %d %d", len(f.Values), cap(f.Values), hashInts(f.Values), hashInts(f.Values[:cap(f.Values)]))
	}
	return fmt.Sprintf("%d %d %s", len(f.Values), cap(f.Values), showInts(f.Values[:cap(f.Values)]))
}

func seqFrom(v0, k int) []int {
	r := make([]int, k)
	for i := range r {
		r[i] = v0 + i
	}
	return r
}

// reduceWin maps three naturals to a window (a, n, k) of an array of capacity c:
// 0 <= a, a+n <= k <= c  (the operands of the slice expression arr[a : a+n : k])
func reduceWin(c, a, n, k int) (int, int, int) {
	a %= c + 1
	n = min(n, c-a)
	k = a + n + k%(c-a-n+1)
	return a, n, k
}

func parseInts(ts []string) ([]int, bool) {
	r := make([]int, len(ts))
	for i, t := range ts {
		v, err := strconv.Atoi(t)
		if err != nil {
			return nil, false
		}
		r[i] = v
	}
	return r, true
}

func impl(c core.Case) []string {
	hdr := core.Toks(c.Lines[0])
	if len(hdr) >= 3 && (hdr[2] == "arena" || hdr[2] == "arenaF") {
		return implArena(c)
	}
	if len(hdr) >= 3 && hdr[2] == "calls" && len(hdr) == 3 {
		out := []string{"ok"}
		for _, l := range c.Lines[1:] {
			t := core.Toks(l)
			out = append(out, core.Guard(func() string { return call(t) }))
		}
		return out
	}
	var f slicez.FlexSlice[int]
	compact := false
	// a handle f.Values[a:a+n:k] kept by `hold` (with the array it was cut from)
	var held []int
	var heldBase *int
	heldA, heldN, heldK, heldCap := -1, -1, -1, -1
	return core.RunOps(c,
		func(h []string) string {
			if len(h) != 2 || (h[0] != "flex" && h[0] != "flexL") {
				return "bad-op"
			}
			compact = h[0] == "flexL"
			c0, err := strconv.Atoi(h[1])
			if err != nil || c0 < 0 {
				return "bad-op"
			}
			if c0 > 0 {
				f.Values = make([]int, 0, c0)
			}
			return "ok"
		},
		func(t []string) string {
			switch t[0] {
			case "append", "prepend":
				v, ok := parseInts(t[1:])
				if !ok {
					return "bad-op"
				}
				if t[0] == "append" {
					f.Append(v...)
				} else {
					f.Prepend(v...)
				}
				return "ok | " + showFlex(compact, &f)
			case "prependw", "prependc": // f.Prepend(f.Values[a:a+n]...): the argument aliases the receiver
				if len(t) != 3 {
					return "bad-op"
				}
				a, e1 := strconv.Atoi(t[1])
				n, e2 := strconv.Atoi(t[2])
				if e1 != nil || e2 != nil || a < 0 || n < 0 {
					return "bad-op"
				}
				lim := len(f.Values)
				if t[0] == "prependc" {
					lim = cap(f.Values) // the window may reach into the spare capacity
				}
				a %= lim + 1
				n = min(n, lim-a)
				f.Prepend(f.Values[a : a+n]...)
				return "ok | " + showFlex(compact, &f)
			case "prependk", "appendk", "hold", "prependh", "appendh":
				// the argument is the window (a, n, k) of the receiver's own array: f.Values[a:a+n:k]
				if len(t) != 4 {
					return "bad-op"
				}
				a, e1 := strconv.Atoi(t[1])
				n, e2 := strconv.Atoi(t[2])
				k, e3 := strconv.Atoi(t[3])
				if e1 != nil || e2 != nil || e3 != nil || a < 0 || n < 0 || k < 0 {
					return "bad-op"
				}
				a, n, k = reduceWin(cap(f.Values), a, n, k)
				var base *int
				if cap(f.Values) > 0 {
					base = &f.Values[:1][0]
				}
				w := f.Values[a : a+n : k]
				switch t[0] {
				case "hold":
					held, heldBase, heldA, heldN, heldK, heldCap = w, base, a, n, k, cap(f.Values)
					return "ok"
				case "prependh", "appendh":
					// the handle kept across the operations in between, when the receiver still lives in
					// the array it was cut from (then it is the window (a, n, k) of the current array)
					if base != nil && base == heldBase && cap(f.Values) == heldCap && a == heldA && n == heldN && k == heldK {
						w = held
					}
				}
				if t[0][0] == 'p' {
					f.Prepend(w...)
				} else {
					f.Append(w...)
				}
				return "ok | " + showFlex(compact, &f)
			case "appendn", "prependn":
				if len(t) != 3 {
					return "bad-op"
				}
				k, e1 := strconv.Atoi(t[1])
				v0, e2 := strconv.Atoi(t[2])
				if e1 != nil || e2 != nil || k < 0 {
					return "bad-op"
				}
				if t[0] == "appendn" {
					f.Append(seqFrom(v0, k)...)
				} else {
					f.Prepend(seqFrom(v0, k)...)
				}
				return "ok | " + showFlex(compact, &f)
			case "popn", "shiftn":
				if len(t) != 2 {
					return "bad-op"
				}
				k, err := strconv.Atoi(t[1])
				if err != nil || k < 0 {
					return "bad-op"
				}
				sum, n := 0, 0
				for j := 0; j < k; j++ {
					var v int
					var ok bool
					if t[0] == "popn" {
						v, ok = f.Pop()
					} else {
						v, ok = f.Shift()
					}
					sum += v
					if ok {
						n++
					}
				}
				return fmt.Sprintf("%d %d | %s", sum, n, showFlex(compact, &f))
			case "get", "remove":
				if len(t) != 2 {
					return "bad-op"
				}
				i, err := strconv.Atoi(t[1])
				if err != nil {
					return "bad-op"
				}
				var v int
				var ok bool
				if t[0] == "get" {
					v, ok = f.Get(i)
				} else {
					v, ok = f.Remove(i)
				}
				return fmt.Sprintf("%d %v | %s", v, ok, showFlex(compact, &f))
			case "pop", "shift":
				if len(t) != 1 {
					return "bad-op"
				}
				var v int
				var ok bool
				if t[0] == "pop" {
					v, ok = f.Pop()
				} else {
					v, ok = f.Shift()
				}
				return fmt.Sprintf("%d %v | %s", v, ok, showFlex(compact, &f))
			case "sub", "subset":
				if len(t) != 3 {
					return "bad-op"
				}
				a, e1 := strconv.Atoi(t[1])
				b, e2 := strconv.Atoi(t[2])
				if e1 != nil || e2 != nil {
					return "bad-op"
				}
				nf := f.SubSlice(a, b)
				if t[0] == "sub" {
					return showFlex(compact, &nf)
				}
				f = nf
				return "ok | " + showFlex(compact, &f)
			case "len":
				if len(t) != 1 {
					return "bad-op"
				}
				return strconv.Itoa(f.Len())
			}
			return "bad-op"
		})
}


// ---------------------------------------------------------------- int-edge magnitudes (wave 8 B)

// edgeInt: a value at the edge of `int` (relative to a length n): every integer argument of
// slicez gets these magnitudes, so that index arithmetic which forms a sum, a difference or a
// negation BEFORE it clamps shows up as a wrong answer or a panic.
func edgeInt(r *core.Rand, n int) int {
	switch r.Intn(20) {
	case 0, 1:
		return math.MaxInt
	case 2:
		return math.MaxInt - 1
	case 3:
		return math.MaxInt - n
	case 4:
		return math.MaxInt - n + 1
	case 5:
		return math.MaxInt - r.Range(0, n+2)
	case 6, 7:
		return math.MinInt
	case 8:
		return math.MinInt + 1
	case 9:
		return math.MinInt + r.Range(0, n+2)
	case 10:
		return 1 << 62
	case 11:
		return 1<<62 + r.Range(-1, 1)
	case 12:
		return -(1 << 62)
	case 13:
		return 1<<32 + 1
	case 14:
		return 1<<32 - 1
	case 15:
		return 1<<32 + r.Range(-1, 1)
	case 16:
		return 1<<31 + r.Range(-1, 1)
	case 17:
		return -(1 << 31) + r.Range(-1, 1)
	case 18:
		return -(1 << 32) + r.Range(-1, 1)
	}
	return math.MaxInt - 1<<32
}

// edgePair: two integer arguments (start/length, start/end) of which at least one is at the edge
// of int; a third of the pairs is built so that a+b passes MaxInt (or MinInt) by a chosen amount:
// a in or near 0..n, b = MaxInt-a+1+j wraps to MinInt+j; b = MaxInt-a is the largest sum that fits.
func edgePair(r *core.Rand, n int) (int, int) {
	small := func() int { return r.Range(-2, n+2) }
	switch r.Pick(22, 16, 12, 22, 10, 8, 10) {
	case 0:
		return small(), edgeInt(r, n)
	case 1:
		return edgeInt(r, n), small()
	case 2:
		return edgeInt(r, n), edgeInt(r, n)
	case 3: // a + b = MaxInt + 1 + j  (a >= 1): wraps to MinInt + j
		a := r.Range(1, n+2)
		j := []int{0, 0, 1, n, a - 1}[r.Intn(5)]
		if j > a-1 {
			j = a - 1
		}
		return a, math.MaxInt - a + 1 + j
	case 4: // the largest sum that does not wrap
		a := r.Range(0, n+2)
		return a, math.MaxInt - a
	case 5: // both negative: a + b = MinInt - 1 - j wraps to MaxInt - j
		a := -r.Range(1, n+2)
		return a, math.MinInt - a - 1
	}
	// a + b wraps to a small value inside 0..n+2 (a difference b - a of two edge values does, too)
	a := edgeInt(r, n)
	return a, r.Range(0, n+2) - a
}

// isEdge: the magnitude class of an int-edge argument
func isEdge(x int) bool { return x >= 1<<31-1 || x <= -(1<<31)+1 }

func edgeLabel(op string, n int, args ...int) []string {
	var ls []string
	any := false
	for _, x := range args {
		switch {
		case x == math.MaxInt:
			ls = append(ls, op+" argument = MaxInt")
		case x == math.MinInt:
			ls = append(ls, op+" argument = MinInt")
		case isEdge(x) && (x > math.MaxInt-n-3 || x < math.MinInt+n+3):
			ls = append(ls, op+" argument within len of MaxInt/MinInt")
		}
		any = any || isEdge(x)
	}
	if any {
		ls = append(ls, op+" with an int-edge argument")
	}
	if len(args) == 2 {
		a, b := args[0], args[1]
		if a > 0 && b > math.MaxInt-a {
			if a < n {
				ls = append(ls, op+" start in range and start+second argument > MaxInt")
			} else {
				ls = append(ls, op+" first+second argument > MaxInt")
			}
		}
		if a < 0 && b < math.MinInt-a {
			ls = append(ls, op+" first+second argument < MinInt")
		}
		if a > 0 && b == math.MaxInt-a {
			ls = append(ls, op+" first+second argument = MaxInt exactly")
		}
	}
	return ls
}

// ---------------------------------------------------------------- generator

func genList(r *core.Rand) string {
	switch r.Pick(8, 8, 84) {
	case 0:
		return "nil"
	case 1:
		return "e"
	}
	n := r.Range(1, 8)
	hi := 4
	if r.Chance(25) {
		hi = r.Range(0, 2) // many duplicates
	}
	ss := make([]string, n)
	for i := range ss {
		ss[i] = strconv.Itoa(r.Range(0, hi))
	}
	return strings.Join(ss, " ")
}

func listLen(l string) int {
	if l == "nil" || l == "e" {
		return 0
	}
	return len(strings.Fields(l))
}

func genDst(r *core.Rand, l1, l2 string, allowS2 bool) string {
	w2 := 0
	if allowS2 {
		w2 = 15
	}
	switch r.Pick(15, 30, 40, w2) {
	case 0:
		return "nil"
	case 1:
		c := r.Range(0, 10)
		return fmt.Sprintf("fresh:%d:%d", r.Range(0, c), c)
	case 2:
		return fmt.Sprintf("s1:%d", r.Range(0, listLen(l1)))
	}
	return fmt.Sprintf("s2:%d", r.Range(0, listLen(l2)))
}

func genCall(r *core.Rand) string {
	l1, l2 := genList(r), genList(r)
	n1 := listLen(l1)
	idx := func() int { return r.Range(-2, n1+2) }
	edge := r.Chance(18) // an integer argument at the edge of int (wave 8 B)
	switch r.Pick(9, 9, 8, 6, 8, 6, 6, 5, 4, 5, 3, 3, 2, 2, 7, 7, 7, 6, 5, 3) {
	case 0:
		return fmt.Sprintf("diff %s ; %s ; %s", genDst(r, l1, l2, true), l1, l2)
	case 1:
		return fmt.Sprintf("intersect %s ; %s ; %s", genDst(r, l1, l2, true), l1, l2)
	case 2:
		return fmt.Sprintf("unique %s ; %s", genDst(r, l1, l2, false), l1)
	case 3:
		return fmt.Sprintf("uniquekey %d %s ; %s", r.Range(1, 3), genDst(r, l1, l2, false), l1)
	case 4:
		return fmt.Sprintf("filter %s ; %s ; %s", genDst(r, l1, l2, false), l1, l2)
	case 5:
		return fmt.Sprintf("diffip ; %s ; %s", l1, l2)
	case 6:
		return fmt.Sprintf("intersectip ; %s ; %s", l1, l2)
	case 7:
		return fmt.Sprintf("uniqueip ; %s", l1)
	case 8:
		return fmt.Sprintf("uniquekeyip %d ; %s", r.Range(1, 3), l1)
	case 9:
		return fmt.Sprintf("filterip ; %s ; %s", l1, l2)
	case 10:
		if r.Chance(40) {
			l2 = l1
			if r.Chance(30) && n1 > 0 { // equal length, one element differs
				f := strings.Fields(l1)
				k := r.Intn(len(f))
				f[k] = strconv.Itoa(r.Range(0, 5))
				l2 = strings.Join(f, " ")
			}
			if n1 == 0 && r.Bool() {
				l2 = []string{"nil", "e"}[r.Intn(2)]
			}
		}
		return fmt.Sprintf("equal ; %s ; %s", l1, l2)
	case 11:
		return fmt.Sprintf("index %d ; %s", r.Range(0, 5), l1)
	case 12:
		if r.Bool() {
			return fmt.Sprintf("indexfunc ; %s ; %s", l1, l2)
		}
		return fmt.Sprintf("containsfunc ; %s ; %s", l1, l2)
	case 13:
		return fmt.Sprintf("contains %d ; %s", r.Range(0, 5), l1)
	case 14:
		a, b := idx(), idx()
		if edge {
			a, b = edgePair(r, n1)
		}
		return fmt.Sprintf("subslice %d %d ; %s", a, b, l1)
	case 15:
		a, b := idx(), idx()
		if edge {
			a, b = edgePair(r, n1)
		}
		return fmt.Sprintf("copy %d %d ; %s", a, b, l1)
	case 16:
		a := idx()
		if edge {
			a = edgeInt(r, n1)
		}
		return fmt.Sprintf("remove %d ; %s", a, l1)
	case 17:
		a := r.Range(-1, n1+2)
		if edge {
			a = edgeInt(r, n1)
		}
		return fmt.Sprintf("chunk %d ; %s", a, l1)
	case 18:
		a := r.Range(-1, n1+2)
		if edge {
			a = edgeInt(r, n1)
		}
		return fmt.Sprintf("chunkproc %d %d ; %s", a, r.Range(0, 4), l1)
	}
	k := r.Range(0, 3)
	ls := make([]string, k)
	for i := range ls {
		ls[i] = genList(r)
	}
	if k == 0 {
		return fmt.Sprintf("values %d", r.Range(1, 3))
	}
	return fmt.Sprintf("values %d ; %s", r.Range(1, 3), strings.Join(ls, " ; "))
}

func genFlex(r *core.Rand) core.Case {
	c0 := []int{0, 0, 1, 2, 4, 7, 8, 9, 12, 16, 32, 33, 40}[r.Intn(13)]
	lines := []string{fmt.Sprintf("@ C14 flex %d", c0)}
	next := 1
	vals := func(k int) string {
		ss := make([]string, k)
		for i := range ss {
			ss[i] = strconv.Itoa(next)
			next++
		}
		return strings.Join(ss, " ")
	}
	emit := func(f string, a ...any) { lines = append(lines, strings.TrimSpace(fmt.Sprintf(f, a...))) }
	n := r.Range(4, 40)
	size := 0 // rough length estimate, to aim indices
	mode := r.Intn(3)
	for i := 0; i < n; i++ {
		w := []int{22, 18, 8, 12, 12, 10, 5, 4, 3, 7, 9}
		if mode == 1 { // draining phases: cross the shrink threshold
			w = []int{4, 4, 4, 22, 28, 26, 5, 4, 3, 3, 6}
		}
		if i < 3 && mode != 2 { // start with a burst so capacity passes 8
			w = []int{50, 50, 0, 0, 0, 0, 0, 0, 0, 0, 0}
		}
		if r.Chance(4) {
			mode = r.Intn(3)
		}
		switch r.Pick(w...) {
		case 0:
			k := []int{0, 1, 1, 2, 3, 5, 9, 17, 33}[r.Intn(9)]
			emit("append %s", vals(k))
			size += k
		case 1:
			k := []int{0, 1, 1, 2, 3, 5, 9, 17}[r.Intn(8)]
			emit("prepend %s", vals(k))
			size += k
		case 2:
			if r.Chance(12) {
				emit("get %d", edgeInt(r, size))
			} else {
				emit("get %d", r.Range(-2, size+2))
			}
		case 3:
			if r.Chance(10) { // an index at the edge of int: out of range, nothing removed
				emit("remove %d", edgeInt(r, size))
				break
			}
			if r.Chance(80) && size > 0 {
				emit("remove %d", r.Range(0, size-1))
			} else {
				emit("remove %d", r.Range(-1, size+1))
			}
			if size > 0 {
				size--
			}
		case 4:
			emit("pop")
			if size > 0 {
				size--
			}
		case 5:
			emit("shift")
			if size > 0 {
				size--
			}
		case 6:
			if r.Chance(20) {
				a, b := edgePair(r, size)
				emit("sub %d %d", a, b)
			} else {
				emit("sub %d %d", r.Range(-2, size+2), r.Range(-2, size+2))
			}
		case 7:
			a, b := r.Range(-1, size/2+1), r.Range(-2, size+2)
			if r.Chance(12) {
				b = edgeInt(r, size) // an end at the edge of int = "up to the end" (or empty below a)
				if r.Chance(25) {
					a = edgeInt(r, size)
				}
			}
			emit("subset %d %d", a, b)
			if b < 0 || b > size {
				b = size
			}
			if a < 0 {
				a = 0
			}
			if b >= a {
				size = b - a
			} else {
				size = 0
			}
		case 8:
			emit("len")
		case 9: // Prepend with an argument that aliases the receiver: prefix, inner window, suffix
			a, k := 0, r.Range(0, 4)
			if r.Chance(60) {
				a = r.Range(0, size+1)
			}
			if r.Chance(35) {
				emit("prependc %d %d", r.Range(0, size+9), k)
			} else {
				emit("prependw %d %d", a, k)
			}
			size += k // an upper bound (the harness clamps the window into the content)
		case 10:
			// Prepend / Append with a window (offset, length, CAPACITY) of the receiver's own array:
			// f.Values[a:a+n:k] — three-index slices, clipped handles kept across Pops/Shifts, windows
			// reaching into the spare capacity.  The harness reduces (A, N, K) into the current capacity:
			// K = 0 clips the capacity to the length, a huge K ≡ -1 … leaves it reaching the array end.
			a, k := r.Range(0, size+1), r.Range(1, 4)
			if r.Chance(30) {
				a = r.Range(0, size+9) // also into the spare capacity
			}
			if r.Chance(10) {
				k = r.Range(0, 9)
			}
			kk := 0 // slices.Clip
			switch r.Intn(4) {
			case 1:
				kk = r.Range(1, 3)
			case 2:
				kk = r.Range(0, 40)
			}
			op := "prepend"
			if r.Chance(30) {
				op = "append"
			}
			if r.Chance(35) {
				// a handle kept across removals (no growth in between: the array mostly stays)
				emit("hold %d %d %d", a, k, kk)
				for j, m := 0, r.Range(1, 3); j < m; j++ {
					switch r.Intn(4) {
					case 0:
						emit("shift")
					case 1:
						emit("remove %d", r.Range(0, size))
					default:
						emit("pop")
					}
					if size > 0 {
						size--
					}
				}
				emit("%sh %d %d %d", op, a, k, kk)
			} else {
				emit("%sk %d %d %d", op, a, k, kk)
			}
			size += k
		}
	}
	return core.Case{Lines: lines, Tag: "flex"}
}

// ---------------------------------------------------------------- large stream

// distinct-value counts around every plausible internal threshold
var bigD = []int{16, 17, 31, 32, 33, 34, 63, 64, 65, 66, 128, 255, 256, 257, 258, 1024, 1025}

// genBigList: d distinct values drawn from 0..span-1 in a random order of first appearance.
// After each new value the LAST new value or an earlier one may be repeated; the tail repeats
// the last few new values (so "the k-th distinct value was not recorded" shows for every k),
// optionally followed by a second pass over earlier values.  At most maxLen elements.
func genBigList(r *core.Rand, d, span, maxLen int) []int {
	if span < d {
		span = d
	}
	perm := make([]int, span)
	for i := range perm {
		perm[i] = i
	}
	for i := 0; i < d; i++ { // partial Fisher-Yates
		j := i + r.Intn(span-i)
		perm[i], perm[j] = perm[j], perm[i]
	}
	vals := perm[:d]
	dupLast, dupOld := r.Range(0, 35), r.Range(0, 25)
	var out []int
	for i, v := range vals {
		out = append(out, v)
		if r.Chance(dupLast) {
			out = append(out, v)
		}
		if r.Chance(dupOld) {
			out = append(out, vals[r.Intn(i+1)])
		}
	}
	for k := 0; k < 4 && k < d; k++ { // repeats of the last new values, newest first
		if k == 0 || r.Chance(60) {
			out = append(out, vals[d-1-k])
		}
	}
	if r.Chance(40) {
		m := r.Range(1, 40)
		for k := 0; k < m; k++ {
			out = append(out, vals[r.Intn(d)])
		}
		out = append(out, vals[d-1])
	}
	if len(out) > maxLen {
		out = out[:maxLen]
	}
	return out
}

func joinInts(xs []int) string {
	if len(xs) == 0 {
		return "e"
	}
	ss := make([]string, len(xs))
	for i, x := range xs {
		ss[i] = strconv.Itoa(x)
	}
	return strings.Join(ss, " ")
}

func genLargeCalls(r *core.Rand, tier string) core.Case {
	lines := []string{"@ C14 calls"}
	n := r.Range(2, 4)
	for i := 0; i < n; i++ {
		w := []int{30, 30, 22, 8, 6, 4}
		if tier == "thorough" {
			w = []int{20, 25, 20, 15, 10, 10}
		}
		var d int
		switch r.Pick(w...) {
		case 0:
			d = []int{16, 17, 31, 32, 33, 34}[r.Intn(6)]
		case 1:
			d = []int{32, 33, 34, 63, 64, 65, 66}[r.Intn(7)]
		case 2:
			d = []int{128, 255, 256, 257, 258}[r.Intn(5)]
		case 3:
			d = r.Range(9, 300)
		case 4:
			d = []int{1024, 1025}[r.Intn(2)]
		default:
			d = r.Range(300, 1500)
		}
		span := []int{d, d + 1, 71, 301, 2 * d, 5000}[r.Intn(6)]
		s1 := genBigList(r, d, span, 2000)
		// second operand: about half of s1's values plus foreign ones
		var s2 []int
		switch r.Pick(50, 20, 10, 10, 10) {
		case 0:
			for _, v := range s1 {
				if r.Chance(50) {
					s2 = append(s2, v)
				}
			}
			for k := r.Range(0, 20); k > 0; k-- {
				s2 = append(s2, span+r.Intn(50))
			}
		case 1:
			s2 = genBigList(r, bigD[r.Intn(len(bigD)-2)], span, 1200)
		case 2:
			s2 = []int{s1[len(s1)-1]}
		case 3:
			s2 = append([]int(nil), s1...)
		default:
			s2 = nil
		}
		l1, l2 := joinInts(s1), joinInts(s2)
		n1 := len(s1)
		near := func(x int) int { return x + r.Range(-2, 2) }
		dst := func(allowS2 bool) string {
			switch r.Pick(10, 25, 50, 15) {
			case 0:
				return "nil"
			case 1:
				c := []int{0, n1 - 1, n1, n1 + 1, d - 1, d, d + 1, 2 * n1}[r.Intn(8)]
				if c < 0 {
					c = 0
				}
				return fmt.Sprintf("fresh:%d:%d", r.Range(0, c), c)
			case 2:
				return fmt.Sprintf("s1:%d", []int{0, 0, 0, n1, r.Range(0, n1)}[r.Intn(5)])
			}
			if allowS2 {
				return fmt.Sprintf("s2:%d", []int{0, len(s2)}[r.Intn(2)])
			}
			return "s1:0"
		}
		key := []int{d - 1, d, d + 1, 33, 34, 65, 257, 40, 300}[r.Intn(9)]
		if key < 1 {
			key = 1
		}
		switch r.Pick(12, 10, 18, 12, 8, 6, 6, 8, 6, 5, 3, 6, 4, 4, 4, 3, 3) {
		case 0:
			lines = append(lines, fmt.Sprintf("diff %s ; %s ; %s", dst(true), l1, l2))
		case 1:
			lines = append(lines, fmt.Sprintf("intersect %s ; %s ; %s", dst(true), l1, l2))
		case 2:
			lines = append(lines, fmt.Sprintf("unique %s ; %s", dst(false), l1))
		case 3:
			lines = append(lines, fmt.Sprintf("uniquekey %d %s ; %s", key, dst(false), l1))
		case 4:
			lines = append(lines, fmt.Sprintf("filter %s ; %s ; %s", dst(false), l1, l2))
		case 5:
			lines = append(lines, fmt.Sprintf("diffip ; %s ; %s", l1, l2))
		case 6:
			lines = append(lines, fmt.Sprintf("intersectip ; %s ; %s", l1, l2))
		case 7:
			lines = append(lines, fmt.Sprintf("uniqueip ; %s", l1))
		case 8:
			lines = append(lines, fmt.Sprintf("uniquekeyip %d ; %s", key, l1))
		case 9:
			lines = append(lines, fmt.Sprintf("filterip ; %s ; %s", l1, l2))
		case 10:
			e := append([]int(nil), s1...)
			if r.Bool() {
				e[len(e)-1]++
			}
			lines = append(lines, fmt.Sprintf("equal ; %s ; %s", l1, joinInts(e)))
		case 11:
			cs := []int{1, 2, 32, 33, 64, 256, n1 / 2, n1/2 + 1, n1 - 1, n1, n1 + 1, d, edgeInt(r, n1)}[r.Intn(13)]
			lines = append(lines, fmt.Sprintf("chunk %d ; %s", cs, l1))
		case 12:
			cs := []int{2, 33, 64, n1 / 3, n1 - 1, n1, n1 + 1, edgeInt(r, n1)}[r.Intn(8)]
			lines = append(lines, fmt.Sprintf("chunkproc %d %d ; %s", cs, r.Range(0, 4), l1))
		case 13:
			a, b := []int{-1, 0, 1, near(n1 / 2), near(n1)}[r.Intn(5)], []int{-1, near(n1), near(n1 / 2), 33}[r.Intn(4)]
			if r.Chance(25) {
				a, b = edgePair(r, n1)
			}
			lines = append(lines, fmt.Sprintf("copy %d %d ; %s", a, b, l1))
		case 14:
			a, b := []int{-1, 0, near(n1 / 2), near(n1)}[r.Intn(4)], []int{-1, near(n1), near(n1 / 2)}[r.Intn(3)]
			if r.Chance(25) {
				a, b = edgePair(r, n1)
			}
			lines = append(lines, fmt.Sprintf("subslice %d %d ; %s", a, b, l1))
		case 15:
			lines = append(lines, fmt.Sprintf("remove %d ; %s", []int{0, near(n1 / 2), n1 - 2, n1 - 1, n1, edgeInt(r, n1)}[r.Intn(6)], l1))
		default:
			if r.Bool() {
				lines = append(lines, fmt.Sprintf("index %d ; %s", s1[len(s1)-1], l1))
			} else {
				lines = append(lines, fmt.Sprintf("values %d ; %s ; %s", r.Range(1, 3), l1, l2))
			}
		}
	}
	return core.Case{Lines: lines, Tag: "large"}
}

// genLargeFlex: FlexSlice with capacities in the hundreds/thousands, bulk ops so that cases
// stay short.  Prepend batches of every size class relative to the capacity (fits in place,
// just too big, ≤ 1.25·cap, 1.25..2·cap, > 2·cap), growth by Append across size classes,
// shrinking from large by Pop/Shift/Remove/SubSlice, refill.
func genLargeFlex(r *core.Rand, tier string) core.Case {
	caps := []int{200, 255, 256, 257, 300, 511, 512, 513, 640, 1000, 1023, 1024, 1025}
	if tier == "thorough" && r.Chance(40) || r.Chance(15) {
		caps = append(caps, 2048, 3000, 4096, 5000)
	}
	c0 := caps[r.Intn(len(caps))]
	if r.Chance(25) {
		c0 = r.Range(200, 1100)
	}
	lines := []string{fmt.Sprintf("@ C14 flexL %d", c0)}
	emit := func(f string, a ...any) { lines = append(lines, fmt.Sprintf(f, a...)) }
	next := 1
	size, cp := 0, c0 // estimates (exact while only Prepend grows)
	addn := func(op string, k int) {
		if k < 0 {
			k = 0
		}
		emit("%s %d %d", op, k, next)
		next += k
		size += k
		if size > cp {
			if op == "prependn" {
				if 2*cp >= size {
					cp = 2 * cp
				} else {
					cp = size
				}
			} else {
				cp = size // at least; the runtime rounds up
				if 2*(cp-k) > cp {
					cp = 2 * (size - k)
				}
			}
		}
	}
	// initial fill
	switch r.Pick(45, 25, 15, 15) {
	case 0:
		addn("appendn", c0) // exactly full
	case 1:
		addn("appendn", c0-[]int{1, 2, 33, c0 / 4, c0 / 2}[r.Intn(5)])
	case 2:
		addn("prependn", c0)
	default:
		addn("appendn", c0+[]int{1, c0 / 4, c0, 2 * c0}[r.Intn(4)]) // growth by append first
	}
	n := r.Range(4, 9)
	for i := 0; i < n && size < 20000; i++ {
		free := cp - size
		switch r.Pick(34, 10, 18, 12, 8, 8, 5, 5) {
		case 0: // prepend of a chosen size class relative to the capacity
			var k int
			switch r.Pick(15, 15, 20, 20, 15, 15) {
			case 0:
				k = []int{1, free / 2, free - 1, free}[r.Intn(4)] // fits in place
			case 1:
				k = free + 1 // just too big
			case 2:
				k = free + []int{cp / 8, cp/4 - 1, cp / 4}[r.Intn(3)] // ≤ 1.25·cap
			case 3:
				k = free + []int{cp/4 + 1, cp / 2, cp - 1, cp}[r.Intn(4)] // 1.25..2·cap
			case 4:
				k = free + cp + []int{1, 2, cp / 2}[r.Intn(3)] // > 2·cap
			default:
				k = r.Range(1, cp)
			}
			addn("prependn", k)
		case 1:
			addn("appendn", []int{1, free, free + 1, cp / 4, cp}[r.Intn(5)])
		case 2: // drain towards / below the shrink threshold
			k := size - []int{cp / 4, cp/4 + 1, cp/4 - 1, 3, 0, size / 2}[r.Intn(6)]
			if k < 1 {
				k = 1
			}
			op := "popn" // O(1) per Pop in the oracle's array representation (c14_flex_fast_eq): no cap
			if r.Chance(35) {
				op = "shiftn" // Shift moves the whole content (in Go and in the model): bounded
				if k > 2000 {
					k = 2000
				}
			}
			emit("%s %d", op, k)
			size -= k
			if size < 0 {
				size = 0
			}
			if cp > 8 && size <= cp/4 {
				cp = 2 * size
				if cp < 8 {
					cp = 8
				}
			}
		case 3:
			emit("get %d", []int{-1, 0, size / 2, size - 1, size, size + 1, edgeInt(r, size)}[r.Intn(7)])
		case 4:
			if r.Chance(15) {
				emit("remove %d", edgeInt(r, size)) // out of range: nothing removed
			} else if size > 0 {
				emit("remove %d", []int{0, size / 2, size - 1}[r.Intn(3)])
				size--
			}
		case 5:
			if r.Chance(20) {
				a, b := edgePair(r, size)
				emit("sub %d %d", a, b)
				break
			}
			emit("sub %d %d", []int{-1, 0, size / 2, size - 3}[r.Intn(4)], []int{-1, size, size / 2, size/2 + 2}[r.Intn(4)])
		case 6:
			a, b := []int{0, size / 2, size - 3, size - 40}[r.Intn(4)], -1
			if a < 0 {
				a = 0
			}
			emit("subset %d %d", a, b)
			cp -= a
			size -= a
			if cp > 8 && size <= cp/4 {
				cp = 2 * size
				if cp < 8 {
					cp = 8
				}
			}
		default:
			emit("len")
		}
	}
	emit("get %d", size-1)
	emit("len")
	return core.Case{Lines: lines, Tag: "large-flex"}
}

func gen(r *core.Rand, tier string) core.Case {
	// large stream: ≈ 1.3 % of a quick run, 0.6 % of the far larger thorough budget (with tier == "thorough" — also used on anchor drift — the
	// larger budget gives proportionally more of them and the bigger size classes are added)
	share := 13
	if tier == "thorough" {
		share = 6 // 2 000 000 cases: ≈ 12 000 large ones; the list-based Lean model sets the pace
	}
	if r.Intn(1000) < share {
		if r.Chance(72) {
			return genLargeCalls(r, tier)
		}
		return genLargeFlex(r, tier)
	}
	if r.Chance(30) {
		return genFlex(r)
	}
	if r.Chance(25) {
		return genArena(r)
	}
	lines := []string{"@ C14 calls"}
	n := r.Range(6, 14)
	for i := 0; i < n; i++ {
		lines = append(lines, genCall(r))
	}
	return core.Case{Lines: lines, Tag: "calls"}
}

func corpus() []core.Case {
	return []core.Case{
		{Tag: "corpus", Lines: []string{"@ C14 calls",
			"diff s1:0 ; 1 2 3 2 1 ; 2", "diff s2:0 ; 1 2 3 ; 2 2 2", "diff s2:1 ; 1 2 3 4 ; 9", "diff s1:3 ; 1 2 3 ; e",
			"intersect s1:0 ; 1 2 3 2 1 ; 2 1", "intersect s2:0 ; 3 1 3 1 ; 1 3", "unique s1:0 ; 1 1 2 1 3 2", "uniquekey 2 s1:0 ; 1 3 2 4 5",
			"filter s1:2 ; 0 1 2 3 4 0 1 ; 1 3 0", "filter nil ; 1 2 ; 7", "filter fresh:2:2 ; 1 2 1 2 1 ; 1",
			"diffip ; 1 2 3 2 1 ; 2", "intersectip ; 1 2 3 2 1 ; 2 3", "uniqueip ; 1 1 2 1 3 2", "uniquekeyip 2 ; 1 3 2 4 5", "filterip ; 0 1 2 3 4 ; 4 2",
			"diffip ; nil ; 1", "intersectip ; 1 2 ; nil", "intersectip ; nil ; 1", "diff nil ; nil ; 1", "diff nil ; 1 ; nil",
		}},
		{Tag: "corpus", Lines: []string{"@ C14 calls",
			"equal ; nil ; e", "equal ; 1 2 ; 1 2", "equal ; 1 2 ; 1 3", "equal ; 1 ; 1 2", "index 3 ; 1 3 3", "index 9 ; nil", "contains 2 ; 1 2",
			"subslice -1 -1 ; 1 2 3", "subslice 3 5 ; 1 2 3", "subslice 4 5 ; 1 2 3", "subslice 2 1 ; 1 2 3", "subslice 1 9 ; 1 2 3", "subslice 0 0 ; nil",
			"copy -2 -1 ; 1 2 3", "copy 1 5 ; 1 2 3", "copy 3 1 ; 1 2 3", "copy 0 0 ; 1 2 3", "copy 2 1 ; 1 2 3", "copy 0 1 ; nil",
			"remove -1 ; 1 2 3", "remove 3 ; 1 2 3", "remove 0 ; 1 2 3", "remove 2 ; 1 2 3", "remove 1 ; 1 2 3", "remove 0 ; nil", "remove 0 ; 7",
			"chunk 2 ; 1 2 3 4 5", "chunk 0 ; 1 2 3", "chunk -1 ; 1 2 3", "chunk 3 ; 1 2 3", "chunk 1 ; 1 2 3", "chunk 2 ; nil", "chunk 5 ; 1 2 3", "chunk 2 ; 1 2 3 4",
			"chunkproc 2 0 ; 1 2 3 4 5", "chunkproc 2 2 ; 1 2 3 4 5", "chunkproc 2 3 ; 1 2 3 4 5", "chunkproc 0 1 ; 1 2", "chunkproc 2 1 ; nil",
			"values 2 ; 1 2 ; nil ; 3", "values 3", "values 1 ; e",
		}},
		{Tag: "corpus-flex", Lines: []string{"@ C14 flex 0", "append", "prepend", "append 1", "append 2", "append 3", "append 4 5", "prepend 6", "prepend 7 8 9", "prepend 10 11 12 13 14 15 16 17 18",
			"get 0", "get -1", "get 18", "pop", "shift", "remove 3", "remove 99", "sub 2 5", "sub -1 -1", "sub 50 2", "len",
			"pop", "pop", "pop", "pop", "pop", "pop", "pop", "pop", "pop", "pop", "pop", "pop", "pop", "pop", "pop", "pop", "pop", "prepend 1 2", "subset 1 -1", "shift", "shift"}},
		// Prepend growth 0 -> 7 (n1+n2) -> 14 (2*cap), drained below cap/4 with fewer than 4 elements: shrink clamps newCap to 8
		{Tag: "corpus-flex", Lines: []string{"@ C14 flex 0", "prepend 1 2 3 4 5 6 7", "prepend 8", "shift", "shift", "shift", "shift", "len", "shift", "get 2", "get 3", "len", "pop", "pop", "pop", "pop", "append 9", "get 0"}},
		// bulk Append onto nil gives a size-class capacity in 9..15 (9 ints -> 10); Pop down to cap/4 = 2 elements
		{Tag: "corpus-flex", Lines: []string{"@ C14 flex 0", "append 1 2 3 4 5 6 7 8 9", "pop", "pop", "pop", "pop", "pop", "pop", "len", "pop", "len", "get 1", "get 2", "prepend 7 8 9 10 11 12 13", "remove 1"}},
		{Tag: "corpus-flex", Lines: []string{"@ C14 flex 12", "append 1 2 3 4", "remove 1", "len", "get 3", "sub 0 -1", "append 5 6 7 8 9 10 11 12 13 14 15 16 17 18 19 20 21 22 23 24 25 26 27 28 29 30 31 32 33 34 35 36 37", "sub 5 7", "subset 33 -1", "len", "get 3", "pop", "pop", "pop", "pop"}},
		{Tag: "corpus", Lines: []string{"@ C14 calls", "copy -1 4 ; 1 2 3", "copy -2 5 ; 1 2 3", "copy -4 -2 ; 1 2 3", "copy -1 3 ; 1 2 3", "copy -1 2 ; 1 2 3", "copy -3 9 ; 7", "copy 2 9 ; 1 2 3", "copy -1 -1 ; e", "copy -1 1 ; nil"}},
		// F17: Prepend with an argument aliasing the receiver, with room to spare and without
		{Tag: "corpus-flex", Lines: []string{"@ C14 flex 8", "append 1 2 3", "prependw 1 2", "len", "get 0", "get 1", "prependw 0 2", "prependw 6 1", "prependw 3 9", "prependc 6 4", "prependc 0 20"}},
		{Tag: "corpus-flex", Lines: []string{"@ C14 flex 3", "append 1 2 3", "prependw 1 2", "prependw 4 1", "pop", "prependw 2 2"}},
		// seed C14-K class: windows of the receiver's own array with a clipped capacity (Values[3:5:5] on
		// [1..6] cap 16; a handle Values[2:4:4] kept across three Pops; Append of clipped windows)
		{Tag: "corpus-flex", Lines: []string{"@ C14 flex 16", "append 1 2 3 4 5 6", "prependk 3 2 0", "prependk 1 2 1", "prependk 0 3 0", "appendk 2 3 0", "appendk 12 2 1", "prependk 14 2 0"}},
		{Tag: "corpus-flex", Lines: []string{"@ C14 flex 0", "append 1 2 3 4 5 6 7 8", "hold 2 2 0", "pop", "pop", "pop", "prependh 2 2 0", "hold 1 3 0", "shift", "appendh 1 3 0", "hold 0 2 1", "pop", "pop", "pop", "pop", "pop", "pop", "prependh 0 2 1"}},
		// wave 8 B: integer arguments at the edge of int.  Copy(s, 1, MaxInt) is the idiom "everything from index 1"
		// (seed C14-I: start+length formed before the clamp wraps to MinInt); the other lines are the same class for
		// every integer argument: a sum / difference / negation / increment formed before the comparison.
		{Tag: "corpus", Lines: []string{"@ C14 calls",
			"copy 1 9223372036854775807 ; 1 2 3", "copy 2 9223372036854775806 ; 1 2 3", "copy 2 9223372036854775807 ; 1 2 3 4 5",
			"copy 0 9223372036854775807 ; 1 2 3", "copy 1 9223372036854775806 ; 1 2 3", "copy -1 9223372036854775807 ; 1 2 3",
			"copy 9223372036854775807 1 ; 1 2 3", "copy 9223372036854775807 9223372036854775807 ; 1 2 3", "copy -9223372036854775808 -9223372036854775808 ; 1 2 3",
			"copy -9223372036854775808 9223372036854775807 ; 1 2 3", "copy 1 -9223372036854775808 ; 1 2 3", "copy 1 4611686018427387904 ; 1 2 3", "copy 2 4294967297 ; 1 2 3",
			"copy 9223372036854775805 3 ; 1 2 3", "copy -9223372036854775807 2 ; 1 2 3", "copy 1 9223372036854775807 ; nil",
			"subslice 1 9223372036854775807 ; 1 2 3", "subslice -9223372036854775808 9223372036854775807 ; 1 2 3", "subslice 9223372036854775807 -9223372036854775808 ; 1 2 3",
			"subslice 9223372036854775807 9223372036854775807 ; 1 2 3", "subslice 2 -9223372036854775808 ; 1 2 3", "subslice -9223372036854775807 1 ; 1 2 3", "subslice 3 9223372036854775807 ; 1 2 3",
			"subslice 4294967297 2 ; 1 2 3", "subslice 1 4294967295 ; 1 2 3",
			"remove 9223372036854775807 ; 1 2 3", "remove -9223372036854775808 ; 1 2 3", "remove 9223372036854775806 ; 1 2 3", "remove 4294967296 ; 1 2 3", "remove -4294967295 ; 1 2 3", "remove 9223372036854775807 ; nil",
			"chunk 9223372036854775807 ; 1 2 3", "chunk -9223372036854775808 ; 1 2 3", "chunk 9223372036854775806 ; 1 2 3 4 5", "chunk 4611686018427387904 ; 1 2 3", "chunk 4294967297 ; 1 2", "chunk 9223372036854775807 ; nil",
			"chunkproc 9223372036854775807 1 ; 1 2 3", "chunkproc -9223372036854775808 0 ; 1 2 3", "chunkproc 9223372036854775805 0 ; 1 2 3 4", "chunkproc 4294967295 2 ; 1 2 3",
		}},
		// the same on windows of one arena: the source has spare capacity behind it, so an index that wraps or is not
		// clamped may stay inside the array (no panic) and show as a wrong window instead
		{Tag: "corpus-arena", Lines: []string{"@ C14 arena 1 2 3 4 5 6 7 8 9 10 11 12",
			"copy 1 9223372036854775807 2:4:8", "copy 2 9223372036854775806 2:4:8", "copy 3 9223372036854775807 0:4:12", "copy -9223372036854775808 9223372036854775807 2:4:8",
			"copy 9223372036854775807 1 2:4:8", "copy 1 -9223372036854775808 2:4:8", "subslice 1 9223372036854775807 2:4:8", "subslice -9223372036854775808 -9223372036854775808 2:4:8",
			"subslice 9223372036854775807 2 2:4:8", "subslice 4294967297 4294967299 2:4:8", "remove 9223372036854775807 2:4:8", "remove -9223372036854775808 2:4:8", "remove 4294967297 2:4:8", "remove 1 2:4:8"}},
		{Tag: "corpus-flex", Lines: []string{"@ C14 flex 12", "append 1 2 3 4 5", "get 9223372036854775807", "get -9223372036854775808", "get 4294967296", "get 9223372036854775803",
			"remove 9223372036854775807", "remove -9223372036854775808", "remove -4294967297", "len", "sub 1 9223372036854775807", "sub -9223372036854775808 9223372036854775807",
			"sub 9223372036854775807 -1", "sub 2 -9223372036854775808", "sub 9223372036854775807 9223372036854775807", "subset 1 9223372036854775807", "len", "get 0",
			"subset -9223372036854775808 4611686018427387904", "len", "subset 9223372036854775807 9223372036854775807", "len", "pop", "append 7", "get 0"}},
		{Tag: "corpus-flex", Lines: []string{"@ C14 flex 40", "append 1 2 3 4 5 6 7 8 9 10 11", "pop", "prepend 20", "pop", "pop", "sub 0 3", "subset 2 6", "prepend 1 2 3 4 5 6 7 8 9", "shift"}},
	}
}

// ---------------------------------------------------------------- independent oracle

func parseShown(s string) ([]int, bool, bool) { // value, isNil, ok
	if s == "nil" {
		return nil, true, true
	}
	if !strings.HasPrefix(s, "[") || !strings.HasSuffix(s, "]") {
		return nil, false, false
	}
	f := strings.Fields(s[1 : len(s)-1])
	r := make([]int, len(f))
	for i, t := range f {
		v, err := strconv.Atoi(t)
		if err != nil {
			return nil, false, false
		}
		r[i] = v
	}
	return r, false, true
}

// splitOut splits an answer like `[1 2] s1=[..] s2=[..]` into bracket groups and words.
func splitOut(o string) []string {
	var parts []string
	depth := 0
	cur := strings.Builder{}
	for _, ch := range o {
		switch {
		case ch == '[':
			depth++
			cur.WriteRune(ch)
		case ch == ']':
			depth--
			cur.WriteRune(ch)
		case ch == ' ' && depth == 0:
			if cur.Len() > 0 {
				parts = append(parts, cur.String())
				cur.Reset()
			}
		default:
			cur.WriteRune(ch)
		}
	}
	if cur.Len() > 0 {
		parts = append(parts, cur.String())
	}
	return parts
}

func sortedCopy(s []int) []int {
	c := append([]int(nil), s...)
	sort.Ints(c)
	return c
}

func inSet(s []int, v int) bool {
	for _, x := range s {
		if x == v {
			return true
		}
	}
	return false
}

// definition of the selecting functions, straight from their doc comments
func defSelect(op string, k int, s1, s2 []int) []int {
	var r []int
	seen := map[int]bool{}
	for _, v := range s1 {
		switch op {
		case "diff":
			if !inSet(s2, v) {
				r = append(r, v)
			}
		case "intersect", "filter":
			if inSet(s2, v) {
				r = append(r, v)
			}
		case "unique":
			if !seen[v] {
				seen[v] = true
				r = append(r, v)
			}
		case "uniquekey":
			if !seen[v%k] {
				seen[v%k] = true
				r = append(r, v)
			}
		}
	}
	return r
}

func checkCall(line, o string) *core.Failure {
	ts := core.Toks(line)
	gs := groups(ts)
	h := gs[0]
	var ls [][]int
	for _, g := range gs[1:] {
		l, ok := parseList(g)
		if !ok {
			return nil
		}
		ls = append(ls, l)
	}
	fail := func(key, want string) *core.Failure {
		return &core.Failure{Key: key, Desc: fmt.Sprintf("call %q answered %q; by definition: %s", clip(line), clip(o), clip(want))}
	}
	if o == "bad-op" {
		return nil
	}
	if o == "panic" {
		return fail("panic", "no panic for any arguments")
	}
	parts := splitOut(o)
	field := func(prefix string) ([]int, bool) {
		for _, p := range parts {
			if strings.HasPrefix(p, prefix) {
				v, _, ok := parseShown(strings.TrimPrefix(p, prefix))
				return v, ok
			}
		}
		return nil, false
	}
	switch h[0] {
	case "diff", "intersect", "unique", "uniquekey", "filter":
		op, k, dtok := h[0], 1, h[1]
		if op == "uniquekey" {
			k, _ = strconv.Atoi(h[1])
			dtok = h[2]
		}
		var s2 []int
		if len(ls) > 1 {
			s2 = ls[1]
		}
		want := defSelect(op, k, ls[0], s2)
		got, _, ok := parseShown(parts[0])
		if !ok || !slices.Equal(got, want) {
			key := "select-result"
			if strings.HasPrefix(dtok, "s1") || strings.HasPrefix(dtok, "s2") {
				key = "select-result-aliased"
			}
			return fail(key, "result "+showInts(want))
		}
		if a1, ok := field("s1="); !strings.HasPrefix(dtok, "s1") && (!ok || !slices.Equal(a1, ls[0])) {
			return fail("input-modified", "s1 unchanged")
		}
		if len(ls) > 1 && (op == "diff" || op == "intersect") {
			if a2, ok := field("s2="); !strings.HasPrefix(dtok, "s2") && (!ok || !slices.Equal(a2, ls[1])) {
				return fail("input-modified", "s2 unchanged")
			}
		}
	case "diffip", "intersectip", "uniqueip", "uniquekeyip", "filterip":
		op, k := strings.TrimSuffix(h[0], "ip"), 1
		if op == "uniquekey" {
			k, _ = strconv.Atoi(h[1])
		}
		var s2 []int
		if len(ls) > 1 {
			s2 = ls[1]
		}
		want := defSelect(op, k, ls[0], s2)
		got, _, ok := parseShown(parts[0])
		if op == "uniquekey" {
			// any representative per key is the same multiset of KEYS; the definition keeps first occurrences
		}
		if !ok || !slices.Equal(sortedCopy(got), sortedCopy(want)) {
			return fail("inplace-multiset", "the multiset of "+showInts(want))
		}
		a1, ok := field("s1=")
		if !ok || !slices.Equal(sortedCopy(a1), sortedCopy(ls[0])) {
			return fail("inplace-perm", "argument a permutation of "+showInts(ls[0]))
		}
		if len(got) > len(a1) || !slices.Equal(got, a1[:len(got)]) {
			return fail("inplace-prefix", "result is the front portion of the argument")
		}
		if len(ls) > 1 && (op == "diff" || op == "intersect") {
			if a2, ok := field("s2="); !ok || !slices.Equal(a2, ls[1]) {
				return fail("input-modified", "s2 unchanged")
			}
		}
	case "equal":
		if want := strconv.FormatBool(slices.Equal(ls[0], ls[1])); o != want {
			return fail("equal", want)
		}
	case "index":
		v, _ := strconv.Atoi(h[1])
		if want := strconv.Itoa(slices.Index(ls[0], v)); o != want {
			return fail("index", want)
		}
	case "contains":
		v, _ := strconv.Atoi(h[1])
		if want := strconv.FormatBool(slices.Contains(ls[0], v)); o != want {
			return fail("index", want)
		}
	case "indexfunc":
		if want := strconv.Itoa(slices.IndexFunc(ls[0], accFn(ls[1]))); o != want {
			return fail("index", want)
		}
	case "containsfunc":
		if want := strconv.FormatBool(slices.ContainsFunc(ls[0], accFn(ls[1]))); o != want {
			return fail("index", want)
		}
	case "subslice":
		a, _ := strconv.Atoi(h[1])
		b, _ := strconv.Atoi(h[2])
		s := ls[0]
		var want []int
		if a < 0 {
			a = 0
		}
		if b < 0 || b > len(s) {
			b = len(s)
		}
		if a < b {
			want = s[a:b]
		}
		got, _, ok := parseShown(parts[0])
		if !ok || !slices.Equal(got, want) {
			return fail("subslice", showInts(want))
		}
	case "copy":
		a, _ := strconv.Atoi(h[1])
		n, _ := strconv.Atoi(h[2])
		s := ls[0]
		var want []int
		if a < 0 {
			a = 0
		}
		if a < len(s) {
			if n < 0 || n > len(s)-a {
				n = len(s) - a
			}
			want = s[a : a+n]
		}
		got, _, ok := parseShown(parts[0])
		if !ok || !slices.Equal(got, want) {
			return fail("copy", showInts(want))
		}
		if len(got) > 0 && parts[len(parts)-1] != "fresh" {
			return fail("copy-fresh", "fresh memory")
		}
	case "values":
		k, _ := strconv.Atoi(h[1])
		var want []int
		for _, l := range ls {
			for _, v := range l {
				want = append(want, v*k)
			}
		}
		got, _, ok := parseShown(parts[0])
		if !ok || !slices.Equal(got, want) {
			return fail("values", showInts(want))
		}
		if len(got) > 0 && parts[len(parts)-1] != "fresh" {
			return fail("copy-fresh", "fresh memory")
		}
	case "remove":
		i, _ := strconv.Atoi(h[1])
		s := ls[0]
		got, _, ok := parseShown(parts[0])
		if i < 0 || i >= len(s) {
			if !ok || !slices.Equal(got, s) || parts[1] != "0" || parts[2] != "false" {
				return fail("remove", "unchanged slice, zero value, false")
			}
			break
		}
		want := append(append([]int(nil), s[:i]...), s[i+1:]...)
		if !ok || !slices.Equal(got, want) || parts[1] != strconv.Itoa(s[i]) || parts[2] != "true" {
			return fail("remove", fmt.Sprintf("%s %d true", showInts(want), s[i]))
		}
	case "chunk":
		n, _ := strconv.Atoi(h[1])
		s := ls[0]
		if len(s) == 0 {
			if o != "nil" {
				return fail("chunk", "nil for an empty input")
			}
			break
		}
		cs, ok := parseChunks(parts[0])
		if !ok {
			return fail("chunk", "a list of chunks")
		}
		if f := checkChunks(cs, s, n, true); f != "" {
			return fail("chunk", f)
		}
	case "chunkproc":
		n, _ := strconv.Atoi(h[1])
		fa, _ := strconv.Atoi(h[2])
		s := ls[0]
		cs, ok := parseChunks(parts[0])
		if !ok {
			return fail("chunk", "a list of chunks")
		}
		// the full chunking by definition
		var full [][]int
		if len(s) > 0 {
			if n < 1 {
				full = [][]int{s}
			} else {
				for st := 0; st < len(s); st += n {
					full = append(full, s[st:min(st+n, len(s))])
				}
			}
		}
		wantN, wantSt := len(full), "ok"
		if fa >= 1 && fa <= len(full) {
			wantN, wantSt = fa, "err"
		}
		if len(cs) != wantN || parts[len(parts)-1] != wantSt {
			return fail("chunk", fmt.Sprintf("%d calls, %s", wantN, wantSt))
		}
		for i := range cs {
			if !slices.Equal(cs[i], full[i]) {
				return fail("chunk", "call "+strconv.Itoa(i)+" = "+showInts(full[i]))
			}
		}
	}
	return nil
}

func parseChunks(p string) ([][]int, bool) {
	if !strings.HasPrefix(p, "[") || !strings.HasSuffix(p, "]") {
		return nil, false
	}
	var cs [][]int
	for _, q := range splitOut(p[1 : len(p)-1]) {
		c, _, ok := parseShown(q)
		if !ok {
			return nil, false
		}
		cs = append(cs, c)
	}
	return cs, true
}

func checkChunks(cs [][]int, s []int, n int, _ bool) string {
	var cat []int
	for i, c := range cs {
		cat = append(cat, c...)
		if len(c) == 0 {
			return "no empty chunk"
		}
		if n >= 1 {
			if i < len(cs)-1 && len(c) != n {
				return fmt.Sprintf("chunk %d has size %d", i, n)
			}
			if len(c) > n {
				return fmt.Sprintf("chunk %d has at most size %d", i, n)
			}
		}
	}
	if n < 1 && len(cs) != 1 {
		return "a single chunk for size < 1"
	}
	if !slices.Equal(cat, s) {
		return "concatenation = input"
	}
	return ""
}

func clip(s string) string {
	if len(s) > 300 {
		return s[:300] + "…"
	}
	return s
}

func clipInts(xs []int) string {
	if len(xs) > 40 {
		return fmt.Sprintf("%d elements %s…%s", len(xs), showInts(xs[:8]), showInts(xs[len(xs)-8:]))
	}
	return showInts(xs)
}

func checkFlex(c core.Case, out []string) *core.Failure {
	compact := core.Toks(c.Lines[0])[2] == "flexL"
	var prevMem []int // the whole backing array before the current op (full display only)
	if !compact {
		c0, _ := strconv.Atoi(core.Toks(c.Lines[0])[3])
		prevMem = make([]int, c0)
	}
	var spec []int
	for i := 1; i < len(c.Lines); i++ {
		t := core.Toks(c.Lines[i])
		o := out[i]
		fail := func(key, want string) *core.Failure {
			return &core.Failure{Key: key, Desc: fmt.Sprintf("op %d %q answered %q; a plain sequence holding %s answers %s", i, c.Lines[i], clip(o), clipInts(spec), want)}
		}
		if o == "panic" || o == "dead" {
			return fail("panic", "no panic")
		}
		if o == "bad-op" {
			continue
		}
		res, state, _ := strings.Cut(o, " | ")
		if !compact && i > 1 {
			if _, st, ok := strings.Cut(out[i-1], " | "); ok {
				if p := splitOut(st); len(p) == 3 {
					if m, _, ok := parseShown(p[2]); ok {
						prevMem = m
					}
				}
			}
		}
		var want string
		// sameContent: does the printed state hold exactly the sequence w?
		var content func(st string) ([]int, bool)
		sameContent := func(st string, w []int) bool {
			if compact { // `len cap hash(Values) hash(mem)`
				p := strings.Fields(st)
				if len(p) != 4 {
					return false
				}
				l, e1 := strconv.Atoi(p[0])
				cp, e2 := strconv.Atoi(p[1])
				h, e3 := strconv.ParseInt(p[2], 10, 64)
				return e1 == nil && e2 == nil && e3 == nil && l == len(w) && l <= cp && h == hashInts(w)
			}
			got, ok := content(st)
			return ok && slices.Equal(got, w)
		}
		content = func(st string) ([]int, bool) { // `len cap [mem]` → mem[:len]
			p := splitOut(st)
			if len(p) != 3 {
				return nil, false
			}
			l, e1 := strconv.Atoi(p[0])
			cp, e2 := strconv.Atoi(p[1])
			m, _, ok := parseShown(p[2])
			if e1 != nil || e2 != nil || !ok || l > cp || cp != len(m) {
				return nil, false
			}
			return m[:l], true
		}
		switch t[0] {
		case "append":
			v, _ := parseInts(t[1:])
			spec = append(spec, v...)
			want = "ok"
		case "prepend":
			v, _ := parseInts(t[1:])
			spec = append(append([]int(nil), v...), spec...)
			want = "ok"
		case "prependw", "prependc":
			a, _ := strconv.Atoi(t[1])
			n, _ := strconv.Atoi(t[2])
			arr := spec // the cells the window is taken from
			if t[0] == "prependc" {
				if prevMem == nil {
					return nil // compact display: the spare cells are not shown, nothing further to judge
				}
				arr = prevMem
			}
			a %= len(arr) + 1
			n = min(n, len(arr)-a)
			win := append([]int(nil), arr[a:a+n]...)
			// sequence semantics for EVERY window, reallocating or not (F17, c14_flex_prepend_alias):
			// the prepended cells are the window as it was before the call
			spec = append(win, spec...)
			if res != "ok" || !sameContent(state, spec) {
				return fail("flex-prepend-alias", "ok with content "+clipInts(spec)+" (Prepend of a window of the receiver's own array = that window followed by the old content, regardless of spare capacity)")
			}
			continue
		case "hold":
			if o != "ok" {
				return fail("flex-seq", "ok")
			}
			continue
		case "prependk", "appendk", "prependh", "appendh":
			if prevMem == nil {
				return nil
			}
			a, _ := strconv.Atoi(t[1])
			n, _ := strconv.Atoi(t[2])
			k, _ := strconv.Atoi(t[3])
			a, n, _ = reduceWin(len(prevMem), a, n, k)
			win := append([]int(nil), prevMem[a:a+n]...)
			// sequence semantics for EVERY window (offset, length, capacity) of the receiver's array
			// (c14_flex_prepend_window / c14_flex_append_window): the added cells are the window as it
			// was before the call; the window's capacity does not matter
			key, what := "flex-prepend-alias", "Prepend of a window [a:a+n:k] of the receiver's own array = that window followed by the old content, whatever the window's capacity k"
			if t[0][0] == 'p' {
				spec = append(win, spec...)
			} else {
				spec = append(append([]int(nil), spec...), win...)
				key, what = "flex-append-alias", "Append of a window [a:a+n:k] of the receiver's own array = the old content followed by that window"
			}
			if res != "ok" || !sameContent(state, spec) {
				return fail(key, "ok with content "+clipInts(spec)+" ("+what+")")
			}
			continue
		case "appendn", "prependn":
			k, _ := strconv.Atoi(t[1])
			v0, _ := strconv.Atoi(t[2])
			if t[0] == "appendn" {
				spec = append(spec, seqFrom(v0, k)...)
			} else {
				spec = append(seqFrom(v0, k), spec...)
			}
			want = "ok"
		case "popn", "shiftn":
			k, _ := strconv.Atoi(t[1])
			sum, n := 0, 0
			for j := 0; j < k && len(spec) > 0; j++ {
				if t[0] == "popn" {
					sum += spec[len(spec)-1]
					spec = spec[:len(spec)-1]
				} else {
					sum += spec[0]
					spec = spec[1:]
				}
				n++
			}
			want = fmt.Sprintf("%d %d", sum, n)
		case "get":
			i, _ := strconv.Atoi(t[1])
			if i >= 0 && i < len(spec) {
				want = fmt.Sprintf("%d true", spec[i])
			} else {
				want = "0 false"
			}
		case "remove", "pop", "shift":
			i := 0
			if t[0] == "remove" {
				i, _ = strconv.Atoi(t[1])
			} else if t[0] == "pop" {
				i = len(spec) - 1
			}
			if i >= 0 && i < len(spec) {
				want = fmt.Sprintf("%d true", spec[i])
				spec = append(append([]int(nil), spec[:i]...), spec[i+1:]...)
			} else {
				want = "0 false"
			}
		case "sub", "subset":
			a, _ := strconv.Atoi(t[1])
			b, _ := strconv.Atoi(t[2])
			var w []int
			if a < 0 {
				a = 0
			}
			if b < 0 || b > len(spec) {
				b = len(spec)
			}
			if a < b {
				w = append(w, spec[a:b]...)
			}
			if t[0] == "sub" {
				if !sameContent(o, w) {
					return fail("flex-subslice", showInts(w))
				}
				continue
			}
			spec = w
			want = "ok"
		case "len":
			if o != strconv.Itoa(len(spec)) {
				return fail("flex-seq", strconv.Itoa(len(spec)))
			}
			continue
		}
		if res != want {
			return fail("flex-seq", want)
		}
		if !sameContent(state, spec) {
			if len(spec) > 40 {
				return fail("flex-seq", fmt.Sprintf("a sequence of %d elements with hash %d", len(spec), hashInts(spec)))
			}
			return fail("flex-seq", "content "+showInts(spec))
		}
	}
	return nil
}

func check(c core.Case, out []string) *core.Failure {
	hdr := core.Toks(c.Lines[0])
	if out[0] != "ok" || len(hdr) < 3 {
		return nil
	}
	if hdr[2] == "flex" || hdr[2] == "flexL" {
		return checkFlex(c, out)
	}
	if hdr[2] == "arena" || hdr[2] == "arenaF" {
		return checkArena(c, out)
	}
	for i := 1; i < len(c.Lines); i++ {
		if f := checkCall(c.Lines[i], out[i]); f != nil {
			return f
		}
	}
	return nil
}

// ---------------------------------------------------------------- evidence helpers

func hasDup(s []int) bool {
	m := map[int]bool{}
	for _, v := range s {
		if m[v] {
			return true
		}
		m[v] = true
	}
	return false
}

func flexCaps(out []string) []int {
	var caps []int
	for _, o := range out[1:] {
		_, st, ok := strings.Cut(o, " | ")
		if !ok {
			continue
		}
		p := strings.Fields(st)
		if len(p) >= 2 {
			if c, err := strconv.Atoi(p[1]); err == nil {
				caps = append(caps, c)
			}
		}
	}
	return caps
}

func nonTrivial(c core.Case, out []string) bool {
	hdr := core.Toks(c.Lines[0])
	if len(hdr) < 3 {
		return false
	}
	if hdr[2] == "arena" || hdr[2] == "arenaF" { // at least one call whose windows overlap
		for _, l := range classifyArena(c, out) {
			if strings.Contains(l, "inside") || strings.Contains(l, "straddling") || strings.Contains(l, "equal") || strings.Contains(l, "spare capacity") {
				return true
			}
		}
		return false
	}
	if hdr[2] == "flex" || hdr[2] == "flexL" {
		caps := flexCaps(out)
		for i := 1; i < len(caps); i++ {
			if caps[i] != caps[i-1] {
				return true
			}
		}
		return false
	}
	for _, l := range c.Lines[1:] {
		gs := groups(core.Toks(l))
		if len(gs) < 2 || len(gs[0]) == 0 {
			continue
		}
		s1, ok := parseList(gs[1])
		if !ok || !hasDup(s1) {
			continue
		}
		if strings.HasSuffix(gs[0][0], "ip") {
			return true
		}
		last := gs[0][len(gs[0])-1]
		if strings.HasPrefix(last, "s1:") || strings.HasPrefix(last, "s2:") {
			return true
		}
	}
	return false
}

func classify(c core.Case, out []string) []string {
	hdr := core.Toks(c.Lines[0])
	var ls []string
	if len(hdr) < 3 {
		return nil
	}
	if hdr[2] == "arena" || hdr[2] == "arenaF" {
		return classifyArena(c, out)
	}
	if hdr[2] == "flex" || hdr[2] == "flexL" {
		prevCap := -1
		prevLen := 0
		for i, l := range c.Lines[1:] {
			t := core.Toks(l)
			o := out[i+1]
			_, st, ok := strings.Cut(o, " | ")
			if o == "panic" {
				ls = append(ls, "flex panic")
			}
			switch t[0] {
			case "get", "remove", "sub", "subset":
				var args []int
				for _, x := range t[1:] {
					if v, err := strconv.Atoi(x); err == nil {
						args = append(args, v)
					}
				}
				ls = append(ls, edgeLabel("flex "+t[0], prevLen, args...)...)
			}
			if !ok {
				continue
			}
			p := strings.Fields(st)
			cp, _ := strconv.Atoi(p[1])
			ln, _ := strconv.Atoi(p[0])
			if (t[0] == "prependw" || t[0] == "prependc") && len(t) == 3 && prevCap >= 0 {
				a, _ := strconv.Atoi(t[1])
				if t[0] == "prependc" {
					a %= prevCap + 1
					if k := ln - prevLen; k > 0 && a+k > prevLen {
						ls = append(ls, "flex prepend aliasing the receiver: window reaches into the spare capacity")
					}
				} else {
					a %= prevLen + 1
				}
				switch k := ln - prevLen; {
				case k == 0:
					ls = append(ls, "flex prepend aliasing the receiver: empty window")
				case ln > prevCap:
					ls = append(ls, "flex prepend aliasing the receiver: reallocates (sequence semantics)")
				case a == 0:
					ls = append(ls, "flex prepend aliasing the receiver: in capacity, prefix window (sequence semantics)")
				default:
					ls = append(ls, "flex prepend aliasing the receiver: in capacity, inner window (copied before the shift)")
				}
			}
			if len(t) == 4 && prevCap >= 0 && (t[0] == "prependk" || t[0] == "prependh" || t[0] == "appendk" || t[0] == "appendh") {
				a, _ := strconv.Atoi(t[1])
				n, _ := strconv.Atoi(t[2])
				k, _ := strconv.Atoi(t[3])
				a, n, k = reduceWin(prevCap, a, n, k)
				op := "flex " + t[0] + " window (off,len,cap) of the receiver: "
				path := "in capacity"
				if prevLen+n > prevCap {
					path = "reallocates"
				}
				switch {
				case n == 0:
					ls = append(ls, op+"empty window")
				case k == prevCap:
					ls = append(ls, op+path+", capacity reaches the array end")
				case k == a+n:
					ls = append(ls, op+path+", capacity clipped to the length")
				default:
					ls = append(ls, op+path+", capacity clipped between length and array end")
				}
				if n > 0 {
					switch {
					case a+n <= prevLen:
						ls = append(ls, op+"inside the content")
					case a >= prevLen:
						ls = append(ls, op+"inside the spare capacity")
					default:
						ls = append(ls, op+"straddles the end of the content")
					}
					if t[0][0] == 'p' && path == "in capacity" && a < prevLen+n && a+n > n {
						ls = append(ls, op+"cells overwritten by the in-place shift")
					}
					if t[0][0] == 'a' && path == "in capacity" && a < prevLen+n && a+n > prevLen {
						ls = append(ls, op+"append target cells overlap the window")
					}
				}
			}
			if prevCap >= 0 && cp != prevCap && cp >= 9 && cp <= 15 {
				ls = append(ls, "flex capacity becomes 9..15")
			}
			if prevCap >= 0 && cp < prevCap && t[0] != "subset" || t[0] == "subset" && prevCap > 8 && cp <= prevCap/2 && ln <= cp/2 {
				// shrink() reallocated: newCap = max(8, 2*len)
				if ln < 4 && cp == 8 {
					ls = append(ls, "flex shrink clamped to 8 (len<4)")
				} else if cp == 2*ln {
					ls = append(ls, "flex shrink to 2*len")
				}
			}
			if t[0] == "prepend" && prevCap >= 0 && cp > prevCap {
				if cp == 2*prevCap {
					ls = append(ls, "flex prepend grows to 2*cap")
				} else {
					ls = append(ls, "flex prepend grows to n1+n2")
				}
			}
			switch {
			case prevCap >= 0 && cp > prevCap:
				ls = append(ls, "flex "+t[0]+" grows")
			case prevCap >= 0 && cp < prevCap && (t[0] == "remove" || t[0] == "pop" || t[0] == "shift"):
				ls = append(ls, "flex "+t[0]+" shrinks")
			case t[0] == "prepend" && len(t) > 1:
				ls = append(ls, "flex prepend in capacity")
			case t[0] == "append" && len(t) > 1:
				ls = append(ls, "flex append in capacity")
			case (t[0] == "remove" || t[0] == "pop" || t[0] == "shift") && strings.HasSuffix(strings.Fields(o)[1], "false"):
				ls = append(ls, "flex "+t[0]+" out of range")
			case t[0] == "subset":
				ls = append(ls, "flex subset")
			}
			if cp > 8 && ln == cp/4+1 {
				ls = append(ls, "flex just above cap/4")
			}
			prevCap = cp
			prevLen = ln
		}
		return ls
	}
	for i, l := range c.Lines[1:] {
		gs := groups(core.Toks(l))
		h := gs[0]
		if len(h) == 0 {
			continue
		}
		o := out[i+1]
		lab := h[0]
		switch h[0] {
		case "diff", "intersect", "unique", "uniquekey", "filter":
			d := h[len(h)-1]
			d, _, _ = strings.Cut(d, ":")
			lab += " dst=" + d
			if strings.HasPrefix(o, "nil") {
				lab += " ->nil"
			}
		case "subslice", "copy", "chunk":
			if strings.HasPrefix(o, "nil") {
				lab += " ->nil"
			}
			if h[0] == "copy" && len(h) == 3 && len(gs) > 1 {
				a, _ := strconv.Atoi(h[1])
				b, _ := strconv.Atoi(h[2])
				n := 0
				if s1, ok := parseList(gs[1]); ok {
					n = len(s1)
				}
				if a < 0 && n > 0 {
					if b > n {
						ls = append(ls, "copy start<0 length>len")
					} else if b < 0 {
						ls = append(ls, "copy start<0 length<0")
					} else {
						ls = append(ls, "copy start<0")
					}
				}
			}
		case "remove":
			if strings.Contains(o, " false ") {
				lab += " out-of-range"
			}
		case "chunkproc":
			lab += " " + o[strings.LastIndex(o, " ")+1:]
		}
		switch h[0] { // int-edge magnitudes of the integer arguments (wave 8 B)
		case "subslice", "copy", "remove", "chunk", "chunkproc":
			n := 0
			if len(gs) > 1 {
				if s1, ok := parseList(gs[1]); ok {
					n = len(s1)
				}
			}
			var args []int
			na := len(h) - 1
			if h[0] == "chunkproc" {
				na = 1
			}
			for _, t := range h[1 : 1+na] {
				if v, err := strconv.Atoi(t); err == nil {
					args = append(args, v)
				}
			}
			ls = append(ls, edgeLabel(h[0], n, args...)...)
		}
		if o == "panic" {
			lab += " PANIC"
		}
		ls = append(ls, lab)
	}
	return ls
}
